/-
  Proofs.InjGrows — inside `receive` the pending replies (`injections`) are kept (`*_ki`) or grow at the end (`Grows`, `*_gr`).
-/
import Proofs.InjNoThrow
set_option linter.unusedSimpArgs false
set_option linter.unusedVariables false
namespace Otr

/-! ## 1. inside `receive`, everything but the error replies keeps `injections` -/

theorem genDataMsgWithFlag_ki (K : Crypto) (m : Bytes) (f : Nat) (tlvs : List Tlv) :
    Stable KeepInj (genDataMsgWithFlag K m f tlvs) :=
  Stable.weaken (fun s s' h => by
    simp only [Keeps, sendKept, Prod.mk.injEq] at h
    exact h.2.2.2.2.2.2.2.2.2.2.2.2.2.2.2.2.1) (genDataMsgWithFlag_sendFrame K m f tlvs)

theorem akeHasFinished_ki (K : Crypto) : Stable KeepInj (akeHasFinished K) := by
  unfold akeHasFinished
  ki_walk [Stable.ofBook getAke_book, Stable.ofBook (modAke_book _), Stable.ofBook (randRead_book _),
    Stable.ofBook (secEvent_book _)]

theorem processDisconnectedTLV_ki : Stable KeepInj processDisconnectedTLV := by
  unfold processDisconnectedTLV
  ki_walk [Stable.ofBook (secEvent_book _)]

theorem receiveErrorMessage_ki (m : Bytes) : Stable KeepInj (receiveErrorMessage m) := by
  unfold receiveErrorMessage
  ki_walk [Stable.ofBook (msgEventMsg_book _ _)]

theorem retransmit_ki (K : Crypto) : Stable KeepInj (retransmit K) := by
  unfold retransmit
  ki_walk [genDataMsgWithFlag_ki K _ _ _, Stable.ofBook (wrapMessageHeader_book _ _),
    Stable.ofBook (msgEvent_book _), Stable.ofBook updateLastSent_book]

theorem maybeRetransmit_ki (K : Crypto) : Stable KeepInj (maybeRetransmit K) := by
  unfold maybeRetransmit
  ki_walk [retransmit_ki K]

theorem retransmitAfterCompletedExchange_ki (K : Crypto) (b a : AuthState) (e : Option Err) :
    Stable KeepInj (retransmitAfterCompletedExchange K b a e) := by
  unfold retransmitAfterCompletedExchange
  ki_walk [maybeRetransmit_ki K, genDataMsgWithFlag_ki K _ _ _, Stable.ofBook (wrapMessageHeader_book _ _)]

theorem recvRevealSig_ki (K : Crypto) (st : AuthState) (m : Bytes) :
    Stable KeepInj (recvRevealSig K st m) := by
  unfold recvRevealSig akeTry
  ki_walk [Stable.ofBook (processRevealSig_book _ _), Stable.ofBook (sigMessage_book _),
    Stable.ofBook (wrapMessageHeader_book _ _), Stable.ofBook akeSetTheirCurrent_book,
    Stable.ofBook akeSetOurCurrent_book, Stable.ofBook (modAke_book _), akeHasFinished_ki K]

theorem recvSig_ki (K : Crypto) (st : AuthState) (m : Bytes) : Stable KeepInj (recvSig K st m) := by
  unfold recvSig akeTry
  ki_walk [Stable.ofBook (processSig_book _ _), Stable.ofBook akeSetTheirCurrent_book, akeHasFinished_ki K]

theorem processAKE_ki (K : Crypto) (t : Nat) (m : Bytes) : Stable KeepInj (processAKE K t m) := by
  unfold processAKE
  ki_walk [Stable.ofBook initAKE_book, Stable.ofBook getAke_book, Stable.ofBook (modAke_book _),
    Stable.ofBook (recvDHCommit_book _ _ _), Stable.ofBook (recvDHKey_book _ _ _), recvRevealSig_ki K _ _,
    recvSig_ki K _ _, retransmitAfterCompletedExchange_ki K _ _ _]

theorem processTLVs_ki (K : Crypto) (tlvs : List Tlv) (x : Bytes) : Stable KeepInj (processTLVs K tlvs x) := by
  unfold processTLVs
  ki_walk [processDisconnectedTLV_ki, Stable.ofBook (processExtraSymmetricKeyTLV_book _ _),
    Stable.ofBook (processSMPTLV_book _ _)]

theorem processDataMessageTail_ki (K : Crypto) (dm : DataMsg) (tlvs : List Tlv) (x : Bytes) :
    Stable KeepInj (processDataMessageTail K dm tlvs x) := by
  unfold processDataMessageTail
  ki_walk [processTLVs_ki K _ _, Stable.ofBook (randRead_book _), genDataMsgWithFlag_ki K _ _ _,
    Stable.ofBook (wrapMessageHeader_book _ _)]

theorem processDataMessageRaw_ki (K : Crypto) (h m : Bytes) : Stable KeepInj (processDataMessageRaw K h m) := by
  unfold processDataMessageRaw
  ki_walk [processDataMessageTail_ki K _ _ _, Stable.ofBook (msgEvent_book _)]

theorem potentialHeartbeat_ki (K : Crypto) (p : Option Bytes) : Stable KeepInj (potentialHeartbeat K p) := by
  unfold potentialHeartbeat
  ki_walk [genDataMsgWithFlag_ki K _ _ _, Stable.ofBook (wrapMessageHeader_book _ _),
    Stable.ofBook updateLastSent_book, Stable.ofBook (msgEvent_book _)]

/-! ## 2. the frame "`injections` only grows at its end" -/

/-- what was waiting is still waiting, in front of what has been added -/
def Grows (s s' : MState) : Prop := ∃ t, s'.conv.injections = s.conv.injections ++ t

instance : Frame Grows where
  refl _ := ⟨[], by simp⟩
  trans := fun ⟨t1, h1⟩ ⟨t2, h2⟩ => ⟨t1 ++ t2, by rw [h2, h1, List.append_assoc]⟩

instance : OfBook Grows := ⟨fun {s s'} h => by
  simp only [Keeps, bookKept, Prod.mk.injEq] at h
  exact ⟨[], by rw [h.2.2.2.1]; simp⟩⟩

theorem Stable.ki_gr {α} {x : M α} (h : Stable KeepInj x) : Stable Grows x :=
  Stable.weaken (fun s s' h => ⟨[], by simp only [Keeps] at h; rw [h]; simp⟩) h

theorem generatePotentialErrorMessage_gr (code : Nat) : Stable Grows (generatePotentialErrorMessage code) := by
  unfold generatePotentialErrorMessage
  refine Stable.bind Stable.getc fun c => ?_
  split
  · exact Stable.modc _ (fun s => ⟨_, rfl⟩)
  · exact Stable.pure _

theorem malformedMessage_gr : Stable Grows malformedMessage := by
  unfold malformedMessage
  r_walk [Stable.ofBook (msgEvent_book _), generatePotentialErrorMessage_gr _]

theorem verifyInstanceTags_gr (their our : Nat) : Stable Grows (verifyInstanceTags their our) := by
  unfold verifyInstanceTags
  r_walk [malformedMessage_gr, Stable.ofBook (msgEvent_book _)]

theorem parseMessageHeader_gr (m : Bytes) : Stable Grows (parseMessageHeader m) := by
  unfold parseMessageHeader
  r_walk [malformedMessage_gr, verifyInstanceTags_gr _ _]

theorem parseFragmentPrefix_gr (d : Bytes) : Stable Grows (parseFragmentPrefix d) := by
  unfold parseFragmentPrefix
  r_walk [Stable.ofBook (commitToVersionFrom_book _), verifyInstanceTags_gr _ _]

theorem receiveFragment_gr (b : FragCtx) (d : Bytes) : Stable Grows (receiveFragment b d) := by
  unfold receiveFragment
  r_walk [parseFragmentPrefix_gr _]

theorem notifyDataMessageError_gr (e : Err) : Stable Grows (notifyDataMessageError e) := by
  unfold notifyDataMessageError
  r_walk [Stable.ofBook (msgEvent_book _), generatePotentialErrorMessage_gr _]

theorem receiveDataMessage_gr (K : Crypto) (h b : Bytes) : Stable Grows (receiveDataMessage K h b) := by
  unfold receiveDataMessage
  r_walk [(processDataMessageRaw_ki K _ _).ki_gr, (potentialHeartbeat_ki K _).ki_gr, notifyDataMessageError_gr _]

theorem receiveDecodedCore_gr (K : Crypto) (m : Bytes) : Stable Grows (receiveDecodedCore K m) := by
  unfold receiveDecodedCore
  r_walk [Stable.ofBook (checkVersion_book _), parseMessageHeader_gr _,
    receiveDataMessage_gr K _ _, (processAKE_ki K _ _).ki_gr, Stable.ofBook (msgEventErr_book _)]

theorem receiveDecoded_gr (K : Crypto) (m : Bytes) : Stable Grows (receiveDecoded K m) := by
  unfold receiveDecoded
  r_walk [receiveDecodedCore_gr K _]

end Otr
