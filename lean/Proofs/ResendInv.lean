/-
  Proofs.ResendInv — whole-API theorems on the retransmission bookkeeping (`mayRetransmit`, `retransmitting`,
  `resendMsgs`), the pending replies (`injections`) and the fragment context (`fragCtx`) of the conversation
  model: properties C18 / C19 / C08 over ALL sequences of API calls from a fresh conversation.

  0  OfBook, r_walk, Book2     : frames implied by `Book`; the writers of `injections` keep everything else
  1  genDataMsgWithFlag_eff    : exact effect of generating a data message on the bookkeeping (GenEff)
  2  RInv Q c, RF Q            : the invariant relative to the queue `Q` of texts queued by `Send` under required
                                 encryption; the frame "RInv Q is preserved and `resendMsgs` is kept or emptied";
                                 retransmit_eff (exact effect of `retransmit`, RetxEff), and the walk through
                                 `receive` (`receive_rf`; `receiveUnit_rf` needs maxHeartbeats 1000000)
  Whole calls and histories: Proofs.ResendApi; witness against the naive bound: Proofs.ResendWitness;
  pending replies (partial): Proofs.ResendInj.
-/
import Proofs.ResendBook
import Proofs.FragRefine
set_option linter.unusedSimpArgs false
set_option linter.unusedVariables false
namespace Otr

/-! ## 0. frames implied by `Book` -/

/-- a relation that every `Book` step satisfies -/
class OfBook (R : MState → MState → Prop) : Prop where
  ofBook : ∀ {s s'}, Book s s' → R s s'

theorem Stable.ofBook {R : MState → MState → Prop} [OfBook R] {α} {x : M α} (h : Stable Book x) : Stable R x :=
  Stable.weaken (fun _ _ => OfBook.ofBook) h

instance : OfBook Book := ⟨id⟩

macro "r_core" : tactic => `(tactic| first
  | exact Stable.pure _ | exact Stable.throw _ | exact Stable.goPanic _
  | exact Stable.getc | exact Stable.get | exact Stable.now
  | (refine Stable.ofBook ?_; book_leaf)
  | with_reducible apply Stable.bind | with_reducible apply Stable.tryCatch
  | with_reducible apply Stable.ite | with_reducible apply Stable.map
  | with_reducible apply Stable.forIn)

/-- `r_walk [lemmas]`: walk for a frame `R` with `OfBook R`; leaves that keep the bookkeeping are closed through
    `Book`, the writers by the given lemmas -/
syntax "r_walk" "[" term,* "]" : tactic
macro_rules
  | `(tactic| r_walk [$ls,*]) => do
    let tacs ← ls.getElems.mapM fun l => `(tactic| with_reducible apply $l)
    `(tactic| repeat' (first | r_core $[| $tacs:tactic]* | with_reducible intro _ | split | dsimp only))

/-- everything of `Book` except the pending replies -/
def book2Kept (s : MState) :=
  (s.conv.mayRetransmit, s.conv.retransmitting, s.conv.resendMsgs, s.conv.fragCtx,
   s.conv.policies, s.conv.errHandler, s.conv.msgState)
abbrev Book2 : MState → MState → Prop := Keeps book2Kept

instance : OfBook Book2 := ⟨fun {s s'} h => by
  simp only [Keeps, bookKept, book2Kept, Prod.mk.injEq] at h ⊢
  exact ⟨h.1, h.2.1, h.2.2.1, h.2.2.2.2.1, h.2.2.2.2.2.1, h.2.2.2.2.2.2.1, h.2.2.2.2.2.2.2⟩⟩

/-- leaves that write `injections` only -/
theorem injMod_book2 (f : Conv → List Bytes) :
    Stable Book2 (modc fun c => { c with injections := f c }) := Stable.modc _ (fun _ => rfl)

theorem generatePotentialErrorMessage_book2 (code : Nat) : Stable Book2 (generatePotentialErrorMessage code) := by
  unfold generatePotentialErrorMessage
  r_walk [injMod_book2]

theorem malformedMessage_book2 : Stable Book2 malformedMessage := by
  unfold malformedMessage
  r_walk [Stable.ofBook (msgEvent_book _), generatePotentialErrorMessage_book2]

theorem verifyInstanceTags_book2 (their our : Nat) : Stable Book2 (verifyInstanceTags their our) := by
  unfold verifyInstanceTags
  r_walk [malformedMessage_book2, Stable.ofBook (msgEvent_book _)]

theorem parseMessageHeader_book2 (m : Bytes) : Stable Book2 (parseMessageHeader m) := by
  unfold parseMessageHeader
  r_walk [malformedMessage_book2, verifyInstanceTags_book2]

theorem parseFragmentPrefix_book2 (d : Bytes) : Stable Book2 (parseFragmentPrefix d) := by
  unfold parseFragmentPrefix
  r_walk [Stable.ofBook (commitToVersionFrom_book _), verifyInstanceTags_book2]

theorem receiveFragment_book2 (b : FragCtx) (d : Bytes) : Stable Book2 (receiveFragment b d) := by
  unfold receiveFragment
  r_walk [parseFragmentPrefix_book2, Stable.ofBook (msgEvent_book _)]

theorem notifyDataMessageError_book2 (e : Err) : Stable Book2 (notifyDataMessageError e) := by
  unfold notifyDataMessageError
  r_walk [Stable.ofBook (msgEvent_book _), generatePotentialErrorMessage_book2]

theorem withInjects_book2 (vms : List Bytes) : Stable Book2 (withInjects vms) := by
  unfold withInjects
  r_walk [injMod_book2]

/-! ## 1. exact effect of generating a data message on the retransmission bookkeeping -/

open ConvData in
theorem wp_of_stable' {α} {R : MState → MState → Prop} (x : M α) (h : Stable R x) (s : MState) :
    wp x (fun _ s' => R s s') (fun _ => True) s := by
  unfold wp
  cases hx : run' x s with
  | panic p => trivial
  | ok v => obtain ⟨r, s'⟩ := v; exact h s r s' hx

/-- **exact effect of `genDataMsgWithFlag` on the bookkeeping.**  `retransmitting` and the message state are
    unchanged.  If a message was generated: the conversation is encrypted, `mayRetransmit` is `no`, and the text
    (if it is not empty, and this is not itself a retransmission) is the one and only text retained.  If the call
    failed, nothing of the bookkeeping has changed. -/
def GenEff (m : Bytes) (s : MState) (r : Except Err (DataMsg × Bytes)) (s' : MState) : Prop :=
  s'.conv.retransmitting = s.conv.retransmitting ∧ s'.conv.msgState = s.conv.msgState ∧
  match r with
  | .ok _ => s.conv.msgState = .encrypted ∧ s'.conv.mayRetransmit = .no ∧
      s'.conv.resendMsgs = if m.length > 0 ∧ s.conv.retransmitting = false then [m] else s.conv.resendMsgs
  | .error _ => s'.conv.mayRetransmit = s.conv.mayRetransmit ∧ s'.conv.resendMsgs = s.conv.resendMsgs

open ConvData in
theorem genDataMsgWithFlag_eff (K : Crypto) (m : Bytes) (f : Nat) (tlvs : List Tlv) (s : MState) :
    wp (genDataMsgWithFlag K m f tlvs) (GenEff m s) (fun _ => True) s := by
  unfold genDataMsgWithFlag
  simp only [encryptPlain, resendLast]
  simp only [wp_bind, wp_getc, wp_ite', wp_throw]
  refine ⟨fun hne => ?_, fun he => ?_⟩
  · exact ⟨rfl, rfl, rfl, rfl⟩
  · split
    · exact ⟨rfl, rfl, rfl, rfl⟩
    · simp only [wp_bind, wp_getc, wp_modc, wp_pure]
      split <;> simp only [wp_pure]
      all_goals
        refine wp_mono _ _ _ _ _ _ (wp_of_stable' _ (messageHeader_book _) _) ?_ (fun _ _ => trivial)
        intro r s2 hb
        simp only [Keeps, bookKept, Prod.mk.injEq] at hb
        obtain ⟨b1, b2, b3, -, -, -, -, b8⟩ := hb
        have henc : s.conv.msgState = .encrypted := by simpa using he
        cases r with
        | error e => exact ⟨b2, b8, b1, b3⟩
        | ok hdr =>
          simp only
          split
          · simp only [wp_bind, wp_getc, wp_modc, wp_pure, wp_ite']
            refine ⟨fun hl => ⟨fun hrt => ?_, fun hrt => ?_⟩, fun hl => ?_⟩
            · refine ⟨b2, b8, henc, rfl, ?_⟩
              have : s.conv.retransmitting = true := by rw [← b2]; simpa using hrt
              rw [if_neg (by rw [this]; simp)]; exact b3
            · refine ⟨b2, b8, henc, rfl, ?_⟩
              have : s.conv.retransmitting = false := by rw [← b2]; simpa using hrt
              rw [if_pos ⟨hl, this⟩]
            · refine ⟨b2, b8, henc, rfl, ?_⟩
              rw [if_neg (fun h => hl h.1)]; exact b3
          · trivial

/-! ## 2. the invariant of the retransmission bookkeeping and its frame -/

/-- **the invariant of the retransmission bookkeeping**, relative to the list `Q` of the texts that `Send` has
    queued so far because encryption is required and no session exists (in the order of the calls):
    * between API calls no retransmission is in progress;
    * at most ONE text is retained — the most recent one — unless the retained texts are the tail of that queue;
    * in the mode `exact` ("send as they are once a session exists") the retained texts are a tail of the queue;
    * a plaintext conversation retains texts only in the mode `exact`: otherwise nothing is retained and
      `mayRetransmit` is `no`. -/
structure RInv (Q : List Bytes) (c : Conv) : Prop where
  idle : c.retransmitting = false
  bounded : c.resendMsgs.length ≤ 1 ∨ c.resendMsgs <:+ Q
  queued : c.mayRetransmit = .exact → c.resendMsgs <:+ Q
  plain : c.msgState = .plainText → c.mayRetransmit = .exact ∨ (c.mayRetransmit = .no ∧ c.resendMsgs = [])

/-- the frame of everything except `Send`/`End`: the invariant is preserved, and the retained texts are kept or
    dropped altogether -/
def RF (Q : List Bytes) (s s' : MState) : Prop :=
  RInv Q s.conv → RInv Q s'.conv ∧ (s'.conv.resendMsgs = s.conv.resendMsgs ∨ s'.conv.resendMsgs = [])

instance (Q : List Bytes) : Frame (RF Q) where
  refl s := fun h => ⟨h, Or.inl rfl⟩
  trans h1 h2 := fun h => by
    obtain ⟨i1, k1⟩ := h1 h
    obtain ⟨i2, k2⟩ := h2 i1
    refine ⟨i2, ?_⟩
    rcases k2 with k2 | k2
    · rcases k1 with k1 | k1
      · exact Or.inl (k2.trans k1)
      · exact Or.inr (k2.trans k1)
    · exact Or.inr k2

/-- bookkeeping unchanged, message state unchanged or not plaintext afterwards -/
theorem RF.of_kept {Q : List Bytes} {s s' : MState} (h1 : s'.conv.mayRetransmit = s.conv.mayRetransmit)
    (h2 : s'.conv.retransmitting = s.conv.retransmitting) (h3 : s'.conv.resendMsgs = s.conv.resendMsgs)
    (h4 : s'.conv.msgState = s.conv.msgState ∨ s'.conv.msgState ≠ .plainText) : RF Q s s' := by
  intro h
  refine ⟨⟨by rw [h2]; exact h.idle, by rw [h3]; exact h.bounded, by rw [h1, h3]; exact h.queued, ?_⟩, Or.inl h3⟩
  intro hp
  rw [h1, h3]
  rcases h4 with h4 | h4
  · exact h.plain (by rw [← h4]; exact hp)
  · exact absurd hp h4

instance (Q : List Bytes) : OfBook (RF Q) := ⟨fun {s s'} h => by
  simp only [Keeps, bookKept, Prod.mk.injEq] at h
  exact RF.of_kept h.1 h.2.1 h.2.2.1 (Or.inl h.2.2.2.2.2.2.2)⟩

theorem Stable.book2_rf {Q : List Bytes} {α} {x : M α} (h : Stable Book2 x) : Stable (RF Q) x :=
  Stable.weaken (fun s s' h => by
    simp only [Keeps, book2Kept, Prod.mk.injEq] at h
    exact RF.of_kept h.1 h.2.1 h.2.2.1 (Or.inl h.2.2.2.2.2.2)) h

/-- leaves that write neither the bookkeeping nor the message state -/
theorem fragMod_rf (Q : List Bytes) (x : FragCtx) :
    Stable (RF Q) (modc fun c => { c with fragCtx := x }) :=
  Stable.modc _ (fun _ => RF.of_kept rfl rfl rfl (Or.inl rfl))

/-! ### the writers inside `receive` -/

open ConvData in
theorem genDataMsgWithFlag_nil_rf (Q : List Bytes) (K : Crypto) (f : Nat) (tlvs : List Tlv) :
    Stable (RF Q) (genDataMsgWithFlag K [] f tlvs) := by
  intro s r s' hr
  have h := wp_post _ _ _ _ _ _ (genDataMsgWithFlag_eff K [] f tlvs s) hr
  obtain ⟨h1, h2, h3⟩ := h
  cases r with
  | error e => exact RF.of_kept h3.1 h1 h3.2 (Or.inl h2)
  | ok a =>
    obtain ⟨he, hm, hl⟩ := h3
    have hl' : s'.conv.resendMsgs = s.conv.resendMsgs := by
      rw [hl]; simp
    intro hi
    refine ⟨⟨by rw [h1]; exact hi.idle, by rw [hl']; exact hi.bounded, (fun hx => by rw [hm] at hx; cases hx), ?_⟩,
      Or.inl hl'⟩
    intro hp; rw [h2, he] at hp; cases hp

theorem akeHasFinished_rf (Q : List Bytes) (K : Crypto) : Stable (RF Q) (akeHasFinished K) := by
  intro s r s' h
  cases ha : s.conv.ake with
  | none => rw [akeHasFinished_none K s ha] at h; cases h
  | some a =>
    obtain ⟨r0, env', mm', hs, h'⟩ := akeHasFinished_run K s a ha
    rw [h'] at h
    simp only [Res.ok.injEq, Prod.mk.injEq] at h
    rw [← h.2]
    exact RF.of_kept rfl rfl rfl (Or.inr (by simp))

theorem processDisconnectedTLV_rf (Q : List Bytes) : Stable (RF Q) processDisconnectedTLV := by
  intro s r s' h
  rw [processDisconnectedTLV_run] at h
  simp only [Res.ok.injEq, Prod.mk.injEq] at h
  rw [← h.2]
  exact RF.of_kept rfl rfl rfl (Or.inr (by simp))

theorem receiveErrorMessage_rf (Q : List Bytes) (m : Bytes) : Stable (RF Q) (receiveErrorMessage m) := by
  intro s r s' h
  have key : ∀ (s : MState) r s', runM (receiveErrorMessage m) s = .ok (r, s') →
      s'.conv.retransmitting = s.conv.retransmitting ∧ s'.conv.resendMsgs = s.conv.resendMsgs ∧
      s'.conv.msgState = s.conv.msgState ∧
      (s'.conv.mayRetransmit = s.conv.mayRetransmit ∨
        (s.conv.msgState = .encrypted ∧ s'.conv.mayRetransmit = .withPrefix)) := by
    intro s r s' h
    unfold receiveErrorMessage at h
    by_cases he : s.conv.msgState = .encrypted
    · simp only [runM_bind, runM_getc, bindM_ok, he, beq_self_eq_true, ↓reduceIte, runM_modc, msgEventMsg, runM_ev,
        runM_pure, Res.ok.injEq, Prod.mk.injEq] at h
      rw [← h.2]; exact ⟨rfl, rfl, he.symm, Or.inr ⟨he, rfl⟩⟩
    · have hb : (s.conv.msgState == MsgState.encrypted) = false := by
        rw [beq_encrypted]; simp [he]
      simp only [runM_bind, runM_getc, bindM_ok, hb, Bool.false_eq_true, ↓reduceIte, runM_modc, msgEventMsg,
        runM_ev, runM_pure, Res.ok.injEq, Prod.mk.injEq] at h
      rw [← h.2]; exact ⟨rfl, rfl, rfl, Or.inl rfl⟩
  obtain ⟨k1, k2, k3, k4⟩ := key s r s' h
  rcases k4 with k4 | ⟨he, k4⟩
  · exact RF.of_kept k4 k1 k2 (Or.inl k3)
  · intro hi
    refine ⟨⟨by rw [k1]; exact hi.idle, by rw [k2]; exact hi.bounded, (fun hx => by rw [k4] at hx; cases hx),
      fun hp => ?_⟩, Or.inl k2⟩
    rw [k3, he] at hp; cases hp

/-! ### retransmission: exact effect -/

open ConvData in
/-- loop rule for bodies that never throw: the assertion holds afterwards and the loop has not thrown -/
theorem wp_forIn_ok {β γ : Type} (l : List β) (f : β → γ → M (ForInStep γ)) (I : MState → Prop) (S : String → Prop)
    (hstep : ∀ b g s, I s → wp (f b g) (fun r s' => I s' ∧ ∃ a, r = .ok a) S s) :
    ∀ init s, I s → wp (forIn l init f) (fun r s' => I s' ∧ ∃ a, r = .ok a) S s := by
  induction l with
  | nil => intro init s h; exact ⟨h, _, rfl⟩
  | cons a as ih =>
    intro init s h
    rw [List.forIn_cons, wp_bind]
    refine wp_mono _ _ _ _ _ _ (hstep a init s h) ?_ (fun _ h => h)
    intro r s' ⟨h', a', hr⟩
    subst hr
    cases a' with
    | done b => exact ⟨h', _, rfl⟩
    | yield b => exact ih b s' h'

/-- what a retransmission leaves behind: nothing is retained any more, no retransmission is in progress, the
    message state is as before, `mayRetransmit` is as before or `no` -/
def RetxEff (s s' : MState) : Prop :=
  s'.conv.resendMsgs = [] ∧ s'.conv.retransmitting = false ∧ s'.conv.msgState = s.conv.msgState ∧
  (s'.conv.mayRetransmit = s.conv.mayRetransmit ∨ s'.conv.mayRetransmit = .no)

/-- the loop invariant of `retransmit` -/
def RetxLoop (s s' : MState) : Prop :=
  s'.conv.resendMsgs = [] ∧ s'.conv.retransmitting = true ∧ s'.conv.msgState = s.conv.msgState ∧
  (s'.conv.mayRetransmit = s.conv.mayRetransmit ∨ s'.conv.mayRetransmit = .no)

theorem RetxLoop.book {s s1 s2 : MState} (h : RetxLoop s s1) (hb : Book s1 s2) : RetxLoop s s2 := by
  simp only [Keeps, bookKept, Prod.mk.injEq] at hb
  obtain ⟨b1, b2, b3, -, -, -, -, b8⟩ := hb
  unfold RetxLoop
  rw [b1, b2, b3, b8]; exact h

open ConvData in
/-- **exact effect of `retransmit`** (every state, every outcome): the texts taken from `resendMsgs` are no longer
    there — whether they went out or the attempt failed —, and no retransmission is in progress afterwards -/
theorem retransmit_eff (K : Crypto) (s : MState) :
    wp (retransmit K) (fun _ s' => RetxEff s s') (fun _ => True) s := by
  unfold retransmit
  simp only [wp_bind, wp_getc, wp_modc, wp_tryCatch]
  refine wp_mono _ (fun _ s' => RetxLoop s s') _ _ _ _
    (wp_forIn _ _ (fun s' => RetxLoop s s') (fun _ => True) ?_ _ _ ?_) ?_ (fun _ hs => hs)
  · intro m _ g s1 hI
    simp only [wp_bind]
    refine wp_mono _ _ _ _ _ _ (genDataMsgWithFlag_eff K _ _ _ s1) ?_ (fun _ hs => hs)
    intro r s2 ⟨e1, e2, e3⟩
    obtain ⟨i1, i2, i3, i4⟩ := hI
    cases r with
    | error e =>
      exact ⟨by rw [e3.2]; exact i1, by rw [e1]; exact i2, by rw [e2]; exact i3, by rw [e3.1]; exact i4⟩
    | ok x =>
      have hI2 : RetxLoop s s2 := by
        obtain ⟨-, e4, e5⟩ := e3
        refine ⟨?_, by rw [e1]; exact i2, by rw [e2]; exact i3, Or.inr e4⟩
        rw [e5, if_neg (by rw [i2]; simp)]; exact i1
      simp only [wp_bind, wp_tryCatch]
      refine wp_mono _ _ _ _ _ _ (wp_of_stable' _ (wrapMessageHeader_book _ _) s2) ?_ (fun _ hs => hs)
      intro r s3 hb
      cases r with
      | error e => simp only [wp_pure]; exact hI2.book hb
      | ok ts => simp only [wp_pure]; exact hI2.book hb
  · exact ⟨rfl, rfl, rfl, Or.inl rfl⟩
  · intro r s1 hI
    obtain ⟨i1, i2, i3, i4⟩ := hI
    have hfin : ∀ s1 : MState, RetxLoop s s1 →
        RetxEff s { s1 with conv := { s1.conv with retransmitting := false } } :=
      fun s1 h => ⟨h.1, rfl, h.2.2.1, h.2.2.2⟩
    cases r with
    | error e =>
      simp only [wp_pure, wp_bind, wp_modc]
      exact hfin s1 ⟨i1, i2, i3, i4⟩
    | ok ret =>
      simp only [wp_pure, wp_bind]
      · refine wp_mono _ (fun r s' => RetxLoop s s' ∧ ∃ a, r = .ok a) _ _ _ _
          (wp_forIn_ok _ _ (fun s' => RetxLoop s s') (fun _ => True) ?_ _ _ ⟨i1, i2, i3, i4⟩) ?_ (fun _ hs => hs)
        · intro m g s2 h2
          simp only [msgEvent, wp_bind, wp_ev, wp_pure]
          exact ⟨h2, _, rfl⟩
        · intro r s2 ⟨h2, a, hr⟩
          subst hr
          cases a with
          | unit =>
            simp only [updateLastSent, wp_bind, wp_now, wp_modc, wp_pure]
            exact hfin _ h2

open ConvData in
theorem retransmit_rf (Q : List Bytes) (K : Crypto) : Stable (RF Q) (retransmit K) := by
  intro s r s' hr
  obtain ⟨h1, h2, h3, h4⟩ := wp_post _ _ _ _ _ _ (retransmit_eff K s) hr
  intro hi
  refine ⟨⟨h2, Or.inl (by rw [h1]; exact Nat.zero_le _), fun _ => by rw [h1]; exact List.nil_suffix, ?_⟩, Or.inr h1⟩
  intro hp
  rw [h3] at hp
  rcases hi.plain hp with hx | ⟨hx, _⟩
  · rcases h4 with h4 | h4
    · exact Or.inl (h4.trans hx)
    · exact Or.inr ⟨h4, h1⟩
  · rcases h4 with h4 | h4
    · exact Or.inr ⟨h4.trans hx, h1⟩
    · exact Or.inr ⟨h4, h1⟩

theorem maybeRetransmit_rf (Q : List Bytes) (K : Crypto) : Stable (RF Q) (maybeRetransmit K) := by
  unfold maybeRetransmit
  r_walk [retransmit_rf Q K]

theorem retransmitAfterCompletedExchange_rf (Q : List Bytes) (K : Crypto) (b a : AuthState) (e : Option Err) :
    Stable (RF Q) (retransmitAfterCompletedExchange K b a e) := by
  unfold retransmitAfterCompletedExchange
  r_walk [maybeRetransmit_rf Q K, genDataMsgWithFlag_nil_rf Q K _ _, Stable.ofBook (wrapMessageHeader_book _ _)]

theorem recvRevealSig_rf (Q : List Bytes) (K : Crypto) (st : AuthState) (m : Bytes) :
    Stable (RF Q) (recvRevealSig K st m) := by
  unfold recvRevealSig akeTry
  r_walk [Stable.ofBook (processRevealSig_book _ _), Stable.ofBook (sigMessage_book _),
    Stable.ofBook (wrapMessageHeader_book _ _), Stable.ofBook akeSetTheirCurrent_book,
    Stable.ofBook akeSetOurCurrent_book, Stable.ofBook (modAke_book _), akeHasFinished_rf Q K]

theorem recvSig_rf (Q : List Bytes) (K : Crypto) (st : AuthState) (m : Bytes) :
    Stable (RF Q) (recvSig K st m) := by
  unfold recvSig akeTry
  r_walk [Stable.ofBook (processSig_book _ _), Stable.ofBook akeSetTheirCurrent_book, akeHasFinished_rf Q K]

theorem processAKE_rf (Q : List Bytes) (K : Crypto) (t : Nat) (m : Bytes) : Stable (RF Q) (processAKE K t m) := by
  unfold processAKE
  r_walk [Stable.ofBook initAKE_book, Stable.ofBook getAke_book, Stable.ofBook (modAke_book _),
    Stable.ofBook (recvDHCommit_book _ _ _), Stable.ofBook (recvDHKey_book _ _ _), recvRevealSig_rf Q K _ _,
    recvSig_rf Q K _ _, retransmitAfterCompletedExchange_rf Q K _ _ _]

theorem processTLVs_rf (Q : List Bytes) (K : Crypto) (tlvs : List Tlv) (x : Bytes) :
    Stable (RF Q) (processTLVs K tlvs x) := by
  unfold processTLVs
  r_walk [processDisconnectedTLV_rf Q, Stable.ofBook (processExtraSymmetricKeyTLV_book _ _),
    Stable.ofBook (processSMPTLV_book _ _)]

theorem processDataMessageTail_rf (Q : List Bytes) (K : Crypto) (dm : DataMsg) (tlvs : List Tlv) (x : Bytes) :
    Stable (RF Q) (processDataMessageTail K dm tlvs x) := by
  unfold processDataMessageTail
  r_walk [processTLVs_rf Q K _ _, Stable.ofBook (randRead_book _), genDataMsgWithFlag_nil_rf Q K _ _,
    Stable.ofBook (wrapMessageHeader_book _ _)]

theorem processDataMessageRaw_rf (Q : List Bytes) (K : Crypto) (h m : Bytes) :
    Stable (RF Q) (processDataMessageRaw K h m) := by
  unfold processDataMessageRaw
  r_walk [processDataMessageTail_rf Q K _ _ _, Stable.ofBook (msgEvent_book _)]

theorem potentialHeartbeat_rf (Q : List Bytes) (K : Crypto) (p : Option Bytes) :
    Stable (RF Q) (potentialHeartbeat K p) := by
  unfold potentialHeartbeat
  r_walk [genDataMsgWithFlag_nil_rf Q K _ _, Stable.ofBook (wrapMessageHeader_book _ _),
    Stable.ofBook updateLastSent_book, Stable.ofBook (msgEvent_book _)]

theorem receiveDataMessage_rf (Q : List Bytes) (K : Crypto) (h b : Bytes) :
    Stable (RF Q) (receiveDataMessage K h b) := by
  unfold receiveDataMessage
  r_walk [processDataMessageRaw_rf Q K _ _, potentialHeartbeat_rf Q K _,
    (notifyDataMessageError_book2 _).book2_rf]

theorem receiveDecodedCore_rf (Q : List Bytes) (K : Crypto) (m : Bytes) :
    Stable (RF Q) (receiveDecodedCore K m) := by
  unfold receiveDecodedCore
  r_walk [Stable.ofBook (checkVersion_book _), (parseMessageHeader_book2 _).book2_rf,
    receiveDataMessage_rf Q K _ _, processAKE_rf Q K _ _, Stable.ofBook (msgEventErr_book _)]

theorem receiveDecoded_rf (Q : List Bytes) (K : Crypto) (m : Bytes) : Stable (RF Q) (receiveDecoded K m) := by
  unfold receiveDecoded
  r_walk [receiveDecodedCore_rf Q K _]

set_option maxHeartbeats 1000000 in
theorem receiveUnit_rf (Q : List Bytes) (K : Crypto) : ∀ (fuel : Nat) (m : Bytes) (fg : Bool),
    Stable (RF Q) (receiveUnit K fuel m fg) := by
  intro fuel
  induction fuel with
  | zero =>
    intro m fg
    rw [receiveUnit]
    r_walk []
  | succ fuel ih =>
    intro m fg
    rw [receiveUnit]
    refine Stable.bind Stable.getc fun c => ?_
    split
    · exact Stable.pure _
    · dsimp only
      split
      all_goals
        r_walk [receiveErrorMessage_rf Q _, (withInjects_book2 _).book2_rf,
          Stable.ofBook (receiveQueryMessage_book _ _),
          Stable.ofBook (receiveTaggedPlaintext_book _ _), Stable.ofBook (checkPlaintextPolicies_book _),
          Stable.ofBook (toSendEncoded_book _ _), (receiveFragment_book2 _ _).book2_rf,
          Stable.ofBook (msgEvent_book _), receiveDecoded_rf Q K _, ih _ _,
          fragMod_rf Q _]

theorem receive_rf (Q : List Bytes) (K : Crypto) (m : Bytes) : Stable (RF Q) (receive K m) :=
  receiveUnit_rf Q K _ m true

end Otr
