/-
  Proofs.AkeSkeleton — property C07, the tie between the abstract AKE system `Otr.AkeAbs` and the conversation
  model `Otr.Conv` (continues Proofs.AkeSkeletonBase, which has §1 the abstraction `absAuth`/`absEnc`/`absHasAke`,
  the table `allowedTransitions` with `allowed_iff`, and §2 the frames `AkeKept`, `AkeSome`, `RetV`, `NoThrowV`).

  §3  akeTailDH_outcome, akeTail_outcome, recvDHCommit_ret, recvDHKey_ret, QuietStep, akeRest_outcomes,
        processAKE_outcomes (every non-panicking run: completion or quiet step, exact new state),
        processAKE_never_throws.
  §4  processAKE_skeleton_table, processAKE_skeleton, processAKE_finishes_only_from,
        processAKE_becomes_encrypted_only_from; the reset (finding): processAKE_reset_run, processAKE_reset_witness.
  §5  sendDHCommit_run, sendDHCommit_outcomes, sendDHCommit_skeleton (`startAKE`), receiveQueryMessage_skeleton.
  §6  converse direction: SigGuards, processAKE_sig_taken_iff, processAKE_reveal_taken_only_if,
        processAKE_key_taken_only_if.
  §7  non-vacuity examples.
-/
import Proofs.AkeSkeletonBase
set_option linter.unusedSimpArgs false
set_option linter.unusedVariables false
namespace Otr
open AkeAbs (Auth Party Msg recvAke)

/-! ## 3. every outcome of `processAKE` -/

theorem akeRest_dhCommit (K : Crypto) (msg : Bytes) (st : AuthState) (s : MState) :
    runM (akeRest K msgTypeDHCommit msg st) s =
      bindM (runM (recvDHCommit K st msg) s) (fun x s1 => runM (akeTailDH st x) s1) := by
  unfold akeRest akeDispatch akeTailDH
  simp only [if_pos, runM_bind, bindM_assoc, runM_pure, bindM_ok]

/-- the end of `processAKE` on the DH-Commit / DH-Key paths: only the AKE context changes (new state, stamp) -/
theorem akeTailDH_outcome (st : AuthState) (x : AuthState × Option Bytes × Option Err) (s1 s' : MState)
    (r : Except Err (List Bytes × Option Err)) (h : runM (akeTailDH st x) s1 = .ok (r, s')) :
    ∃ msgs a', r = .ok (msgs, x.2.2) ∧ s'.conv.ake = some a' ∧ a'.state = x.1 ∧ quietKept s' = quietKept s1 := by
  unfold akeTailDH at h
  simp only [runM_bind, modAke, runM_modc, bindM_ok] at h
  cases ha1 : s1.conv.ake with
  | none =>
    rw [akeStamp_run_none _ _ _ _ (by show Option.map _ s1.conv.ake = none; rw [ha1]; rfl)] at h
    cases h
  | some a1 =>
    rw [akeStamp_run _ _ _ _ _ (by show Option.map _ s1.conv.ake = some _; rw [ha1]; rfl)] at h
    simp only [bindM_ok, runM_pure, Res.ok.injEq, Prod.mk.injEq] at h
    obtain ⟨rfl, rfl⟩ := h
    exact ⟨_, _, rfl, rfl, by rw [stampAke_state], rfl⟩

/-- the end of `processAKE` on the Reveal-Signature / Signature paths: the new state is stored, whatever is
    retransmitted leaves the AKE context alone and respects the quiet frame, and nothing is thrown -/
theorem akeTail_outcome (K : Crypto) (st : AuthState) (x : AuthState × Option Bytes × Option Err) (s1 s' : MState)
    (r : Except Err (List Bytes × Option Err)) (h : runM (akeTail K st x) s1 = .ok (r, s')) :
    ∃ msgs a', r = .ok (msgs, x.2.2) ∧ s'.conv.ake = some a' ∧ a'.state = x.1 ∧ quietKept s' = quietKept s1 := by
  have hq : quietKept s' = quietKept s1 := akeTail_quiet K st x _ _ _ h
  unfold akeTail at h
  simp only [runM_bind, modAke, runM_modc, bindM_ok] at h
  generalize hs2 : MState.mk _ s1.env s1.events s1.mismatch = s2 at h
  have ha2 : s2.conv.ake = s1.conv.ake.map (fun a => { a with state := x.1 }) := by subst hs2; rfl
  cases hx : runM (retransmitAfterCompletedExchange K st x.1 x.2.2) s2 with
  | panic p => rw [hx] at h; cases h
  | ok v =>
    obtain ⟨v, s3⟩ := v
    rw [hx] at h
    have ha3 : s3.conv.ake = s2.conv.ake := retransmitAfterCompletedExchange_akeKept K _ _ _ _ _ _ hx
    cases v with
    | error e => exact absurd hx (retransmitAfterCompletedExchange_noThrow K _ _ _ _ _ _)
    | ok extra =>
      simp only [bindM_ok] at h
      cases ha1 : s1.conv.ake with
      | none =>
        rw [akeStamp_run_none _ _ _ _ (by rw [ha3, ha2, ha1]; rfl)] at h
        cases h
      | some a1 =>
        rw [akeStamp_run _ _ _ _ { a1 with state := x.1 } (by rw [ha3, ha2, ha1]; rfl)] at h
        simp only [bindM_ok, runM_pure, Res.ok.injEq, Prod.mk.injEq] at h
        obtain ⟨rfl, rfl⟩ := h
        exact ⟨_, _, rfl, rfl, by rw [stampAke_state], hq⟩

/-- what `recvDHCommit` called in the state `st` can return -/
def CommitRet (st : AuthState) (u : AuthState × Option Bytes × Option Err) : Prop :=
  u.1 = st ∨ (u.1 = .awaitingRevealSig ∧ u.2.2 = none) ∨ (u.1 = .none ∧ u.2.2 ≠ none)

theorem recvDHCommit_ret (K : Crypto) (st : AuthState) (msg : Bytes) :
    RetV (CommitRet st) (recvDHCommit K st msg) := by
  unfold recvDHCommit recvDHCommitNone akeTry
  repeat' (first
    | with_reducible apply RetV.bind
    | with_reducible apply RetV.tryCatch
    | with_reducible exact RetV.throw _
    | (with_reducible refine RetV.pure ?_; simp [CommitRet]; done)
    | with_reducible intro _
    | split
    | dsimp only)

/-- what `recvDHKey` called in the state `st` can return -/
def KeyRet (st : AuthState) (u : AuthState × Option Bytes × Option Err) : Prop :=
  u.1 = st ∨ (st = .awaitingDHKey ∧ u.2.2 = none ∧ ∃ m, u.1 = .awaitingSig m)

theorem recvDHKey_ret (K : Crypto) (st : AuthState) (msg : Bytes) :
    RetV (KeyRet st) (recvDHKey K st msg) := by
  unfold recvDHKey akeTry
  repeat' (first
    | with_reducible apply RetV.bind
    | with_reducible apply RetV.tryCatch
    | with_reducible exact RetV.throw _
    | (with_reducible refine RetV.pure ?_; simp [KeyRet]; done)
    | with_reducible intro _
    | split
    | dsimp only)

/-- the steps of `processAKE` that are no completion of an exchange: from the authentication state `st` to
    `st'`, with the error `err` reported next to the messages to send -/
def QuietStep (t : Nat) (st st' : AuthState) (err : Option Err) : Prop :=
  st' = st ∨
  (t = msgTypeDHCommit ∧ st' = .awaitingRevealSig ∧ err = none) ∨
  (t = msgTypeDHCommit ∧ st' = .none ∧ err ≠ none) ∨
  (t = msgTypeDHKey ∧ st = .awaitingDHKey ∧ err = none ∧ ∃ m, st' = .awaitingSig m)

theorem quietKept_of_reveal_failure {s s1 : MState} (hev : s1.events = s.events)
    (hms : s1.conv.msgState = s.conv.msgState) (hks : s1.conv.keys = s.conv.keys)
    (hss : s.conv.msgState = .encrypted → s1.conv.ssid = s.conv.ssid)
    (hrs : s1.conv.sentRevealSig = s.conv.sentRevealSig) (htk : s1.conv.theirKey = s.conv.theirKey) :
    quietKept s1 = quietKept s := by
  unfold quietKept
  rw [hms, htk, hks, hev, hrs]
  by_cases he : s.conv.msgState = .encrypted
  · rw [if_pos he, if_pos he, hss he]
  · rw [if_neg he, if_neg he]

/-- **every non-panicking run of `processAKE` after the authentication state `st` has been read**: nothing is
    thrown, the AKE context exists afterwards, and the step is either a completion (one of the two finishing
    combinations, new state `none`, conversation encrypted) or a quiet step (`QuietStep`; `msgState`, the peer
    key, the key material, the session id and role flag of an encrypted conversation untouched, no security
    event) -/
theorem akeRest_outcomes (K : Crypto) (t : Nat) (msg : Bytes) (s : MState) (a : Ake) (ha : s.conv.ake = some a)
    (st : AuthState) (hst0 : a.state = st) (r : Except Err (List Bytes × Option Err)) (s' : MState)
    (h : runM (akeRest K t msg st) s = .ok (r, s')) :
    ∃ msgs err a', r = .ok (msgs, err) ∧ s'.conv.ake = some a' ∧
      ((finishingCombination t st ∧ a'.state = .none ∧ s'.conv.msgState = .encrypted) ∨
       (quietKept s' = quietKept s ∧ QuietStep t st a'.state err)) := by
  by_cases h1 : t = msgTypeDHCommit
  · subst h1
    rw [akeRest_dhCommit] at h
    cases hx : runM (recvDHCommit K st msg) s with
    | panic p => rw [hx] at h; cases h
    | ok v =>
      obtain ⟨v, s1⟩ := v
      rw [hx] at h
      cases v with
      | error e => exact absurd hx (recvDHCommit_noThrow K st msg _ _ _)
      | ok u =>
        simp only [bindM_ok] at h
        obtain ⟨msgs, a', hr, ha', hst', hq⟩ := akeTailDH_outcome st u s1 s' r h
        have hq1 : quietKept s1 = quietKept s := (recvDHCommit_base K st msg).base_strict.strict_quiet _ _ _ hx
        refine ⟨msgs, u.2.2, a', hr, ha', Or.inr ⟨hq.trans hq1, ?_⟩⟩
        rw [hst']
        rcases recvDHCommit_ret K st msg _ _ _ hx with h0 | ⟨h0, h0'⟩ | ⟨h0, h0'⟩
        · exact Or.inl h0
        · exact Or.inr (Or.inl ⟨rfl, h0, h0'⟩)
        · exact Or.inr (Or.inr (Or.inl ⟨rfl, h0, h0'⟩))
  · by_cases h2 : t = msgTypeDHKey
    · subst h2
      rw [akeRest_dhKey] at h
      cases hx : runM (recvDHKey K st msg) s with
      | panic p => rw [hx] at h; cases h
      | ok v =>
        obtain ⟨v, s1⟩ := v
        rw [hx] at h
        cases v with
        | error e => exact absurd hx (recvDHKey_noThrow K st msg _ _ _)
        | ok u =>
          simp only [bindM_ok] at h
          obtain ⟨msgs, a', hr, ha', hst', hq⟩ := akeTailDH_outcome st u s1 s' r h
          have hq1 : quietKept s1 = quietKept s := (recvDHKey_strict K st msg).strict_quiet _ _ _ hx
          refine ⟨msgs, u.2.2, a', hr, ha', Or.inr ⟨hq.trans hq1, ?_⟩⟩
          rw [hst']
          rcases recvDHKey_ret K st msg _ _ _ hx with h0 | ⟨h0, h0', m, hm⟩
          · exact Or.inl h0
          · exact Or.inr (Or.inr (Or.inr ⟨rfl, h0, h0', m, hm⟩))
    · by_cases h3 : t = msgTypeRevealSig
      · subst h3
        rw [akeRest_revealSig] at h
        by_cases hst : st = .awaitingRevealSig
        · subst hst
          cases hx : runM (recvRevealSig K .awaitingRevealSig msg) s with
          | panic p => rw [hx] at h; cases h
          | ok v =>
            obtain ⟨v, s1⟩ := v
            rw [hx] at h
            rcases recvRevealSig_awaiting_cases K msg s s1 a ha v hx with
              ⟨om, e, hv⟩ | ⟨er, hv, hev, hms, hks, hss, hrs, htk⟩
            · subst hv
              simp only [bindM_ok] at h
              obtain ⟨msgs, a', hr, ha', hst', hq⟩ := akeTail_outcome K _ _ s1 s' r h
              obtain ⟨_, _, _, _, _, _, _, _, _, _, _, _, _, _, hme, -⟩ :=
                c01_finish_responder K msg s s1 a ha om e hx
              exact ⟨msgs, e, a', hr, ha', Or.inl ⟨Or.inl ⟨rfl, rfl⟩, hst', (quietKept_encrypted hq hme).1⟩⟩
            · subst hv
              simp only [bindM_ok] at h
              obtain ⟨msgs, a', hr, ha', hst', hq⟩ := akeTail_outcome K _ _ s1 s' r h
              exact ⟨msgs, some er, a', hr, ha',
                Or.inr ⟨hq.trans (quietKept_of_reveal_failure hev hms hks hss hrs htk), Or.inl hst'⟩⟩
        · rw [recvRevealSig_other K st msg hst] at h
          simp only [runM_pure, bindM_ok] at h
          obtain ⟨msgs, a', hr, ha', hst', hq⟩ := akeTail_outcome K _ _ s s' r h
          exact ⟨msgs, none, a', hr, ha', Or.inr ⟨hq, Or.inl hst'⟩⟩
      · by_cases h4 : t = msgTypeSig
        · subst h4
          rw [akeRest_sig] at h
          by_cases hst : ∃ rs, st = .awaitingSig rs
          · obtain ⟨rs, rfl⟩ := hst
            cases hx : runM (recvSig K (.awaitingSig rs) msg) s with
            | panic p => rw [hx] at h; cases h
            | ok v =>
              obtain ⟨v, s1⟩ := v
              rw [hx] at h
              rcases recvSig_awaiting_cases K msg rs s s1 a ha v hx with ⟨om, e, hv⟩ | ⟨er, hv, hs1⟩
              · subst hv
                simp only [bindM_ok] at h
                obtain ⟨msgs, a', hr, ha', hst', hq⟩ := akeTail_outcome K _ _ s1 s' r h
                obtain ⟨_, _, _, _, _, _, _, _, _, hme, -⟩ := c01_finish_initiator K msg rs s s1 a ha om e hx
                exact ⟨msgs, e, a', hr, ha', Or.inl ⟨Or.inr ⟨rfl, rs, rfl⟩, hst', (quietKept_encrypted hq hme).1⟩⟩
              · subst hv hs1
                simp only [bindM_ok] at h
                obtain ⟨msgs, a', hr, ha', hst', hq⟩ := akeTail_outcome K _ _ s1 s' r h
                exact ⟨msgs, some er, a', hr, ha', Or.inr ⟨hq, Or.inl hst'⟩⟩
          · rw [recvSig_other K st msg (fun rs hrs => hst ⟨rs, hrs⟩)] at h
            simp only [runM_pure, bindM_ok] at h
            obtain ⟨msgs, a', hr, ha', hst', hq⟩ := akeTail_outcome K _ _ s s' r h
            exact ⟨msgs, none, a', hr, ha', Or.inr ⟨hq, Or.inl hst'⟩⟩
        · unfold akeRest akeDispatch at h
          simp only [if_neg h1, if_neg h2, if_neg h3, if_neg h4, runM_bind, runM_pure, bindM_ok] at h
          rw [akeStamp_run _ _ _ _ _ ha] at h
          simp only [bindM_ok, Res.ok.injEq, Prod.mk.injEq] at h
          obtain ⟨rfl, rfl⟩ := h
          refine ⟨_, _, _, rfl, rfl, Or.inr ⟨rfl, Or.inl ?_⟩⟩
          rw [stampAke_state]
          exact hst0

/-- **every non-panicking run of `processAKE`** (for every crypto record, state, message type and body):
    nothing is thrown, the AKE context exists afterwards, and the step is a completion or a quiet step -/
theorem processAKE_outcomes (K : Crypto) (t : Nat) (msg : Bytes) (s : MState)
    (r : Except Err (List Bytes × Option Err)) (s' : MState)
    (h : runM (processAKE K t msg) s = .ok (r, s')) :
    ∃ msgs err a', r = .ok (msgs, err) ∧ s'.conv.ake = some a' ∧
      ((finishingCombination t (authStateOf s.conv) ∧ a'.state = .none ∧ s'.conv.msgState = .encrypted) ∨
       (quietKept s' = quietKept s ∧ QuietStep t (authStateOf s.conv) a'.state err)) := by
  cases ha : s.conv.ake with
  | none =>
    rw [processAKE_run_none K t msg s ha] at h
    rw [authStateOf_none ha]
    exact akeRest_outcomes K t msg { s with conv := { s.conv with ake := some {} } } {} rfl .none rfl r s' h
  | some a =>
    rw [processAKE_run_some K t msg s a ha] at h
    rw [authStateOf_some ha]
    exact akeRest_outcomes K t msg s a ha a.state rfl r s' h

/-- `processAKE` never throws: a failure is reported as a value next to the messages to send -/
theorem processAKE_never_throws (K : Crypto) (t : Nat) (msg : Bytes) (s s' : MState) (e : Err) :
    runM (processAKE K t msg) s ≠ .ok (.error e, s') := by
  intro h
  obtain ⟨_, _, _, hr, -⟩ := processAKE_outcomes K t msg s _ s' h
  cases hr

/-! ## 4. the skeleton -/

theorem allowed_commit (a : Auth) (e : Bool) : (a, e, AkeKind.commit, Auth.awaitRevealSig, e) ∈ allowedTransitions := by
  cases a <;> cases e <;> decide

theorem allowed_key (e : Bool) : (Auth.awaitDHKey, e, AkeKind.key, Auth.awaitSig, e) ∈ allowedTransitions := by
  cases e <;> decide

theorem allowed_reveal (e : Bool) : (Auth.awaitRevealSig, e, AkeKind.reveal, Auth.none, true) ∈ allowedTransitions := by
  cases e <;> decide

theorem allowed_sig (e : Bool) : (Auth.awaitSig, e, AkeKind.sig, Auth.none, true) ∈ allowedTransitions := by
  cases e <;> decide

theorem absEnc_of_quiet {s s' : MState} (hq : quietKept s' = quietKept s) : absEnc s'.conv = absEnc s.conv := by
  have : s'.conv.msgState = s.conv.msgState := congrArg (·.1) hq
  unfold absEnc; rw [this]

/-- **C07 skeleton, table form.**  For every crypto record `K`, state `s`, message type `t` and body: if
    `processAKE K t msg` run from `s` does not panic and ends in `s'`, then the AKE context exists afterwards and
    the observed step (auth before, encrypted before, kind of `t`, auth after, encrypted after) is
      * no step at all (the message was rejected or ignored), or
      * a row of `allowedTransitions` — the image of `AkeAbs.recvAke` (`allowed_iff`), or
      * the *reset*: a DH-Commit message after which the state is `none`, the encryption flag unchanged and an
        error is reported (the answer could not be built after the AKE context had been re-created; from
        `awaitDHKey` / `awaitSig` this is a transition `recvAke` does not have: `processAKE_reset_witness`). -/
theorem processAKE_skeleton_table (K : Crypto) (t : Nat) (msg : Bytes) (s : MState)
    (r : Except Err (List Bytes × Option Err)) (s' : MState)
    (h : runM (processAKE K t msg) s = .ok (r, s')) :
    absHasAke s'.conv = true ∧
    ((absAuth s'.conv, absEnc s'.conv) = (absAuth s.conv, absEnc s.conv) ∨
     (∃ k, AkeKind.ofType t = some k ∧
        (absAuth s.conv, absEnc s.conv, k, absAuth s'.conv, absEnc s'.conv) ∈ allowedTransitions) ∨
     (t = msgTypeDHCommit ∧ absAuth s'.conv = .none ∧ absEnc s'.conv = absEnc s.conv ∧
        ∃ msgs e, r = .ok (msgs, some e))) := by
  obtain ⟨msgs, err, a', hr, ha', hcase⟩ := processAKE_outcomes K t msg s r s' h
  refine ⟨by unfold absHasAke; rw [ha']; rfl, ?_⟩
  rw [absAuth_some ha']
  rcases hcase with ⟨hfin, hst', hme⟩ | ⟨hq, hstep⟩
  · right; left
    have henc' : absEnc s'.conv = true := by unfold absEnc; rw [hme]; rfl
    rw [hst', henc']
    rcases hfin with ⟨ht, hst⟩ | ⟨ht, rs, hst⟩
    · refine ⟨.reveal, by rw [ht]; rfl, ?_⟩
      have : absAuth s.conv = .awaitRevealSig := by unfold absAuth; rw [hst]; rfl
      rw [this]; exact allowed_reveal _
    · refine ⟨.sig, by rw [ht]; rfl, ?_⟩
      have : absAuth s.conv = .awaitSig := by unfold absAuth; rw [hst]; rfl
      rw [this]; exact allowed_sig _
  · rw [absEnc_of_quiet hq]
    rcases hstep with h0 | ⟨ht, h0, he⟩ | ⟨ht, h0, he⟩ | ⟨ht, hst, he, m, h0⟩
    · left; rw [h0]; rfl
    · right; left
      refine ⟨.commit, by rw [ht]; rfl, ?_⟩
      rw [h0]; exact allowed_commit _ _
    · right; right
      refine ⟨ht, by rw [h0]; rfl, rfl, msgs, ?_⟩
      cases err with
      | none => exact absurd rfl he
      | some e => exact ⟨e, hr⟩
    · right; left
      refine ⟨.key, by rw [ht]; rfl, ?_⟩
      have : absAuth s.conv = .awaitDHKey := by unfold absAuth; rw [hst]; rfl
      rw [this, h0]; exact allowed_key _

/-- **C07 skeleton, `recvAke` form.**  As `processAKE_skeleton_table`, with the row spelled out: the observed
    step is what `AkeAbs.recvAke weWin p m` yields for some outcome `weWin` of the hash comparison, some abstract
    party `p` with `p.auth = absAuth s.conv`, `p.enc = absEnc s.conv`, and some abstract message `m` of the kind
    of `t` — the conversation's AKE state machine takes no transition the abstraction lacks, except the reset. -/
theorem processAKE_skeleton (K : Crypto) (t : Nat) (msg : Bytes) (s : MState)
    (r : Except Err (List Bytes × Option Err)) (s' : MState)
    (h : runM (processAKE K t msg) s = .ok (r, s')) :
    (absAuth s'.conv, absEnc s'.conv) = (absAuth s.conv, absEnc s.conv) ∨
    (∃ (k : AkeKind) (weWin : Bool) (p : Party) (m : Msg),
        AkeKind.ofType t = some k ∧ msgKind m = some k ∧ p.auth = absAuth s.conv ∧ p.enc = absEnc s.conv ∧
        (absAuth s'.conv, absEnc s'.conv) = ((recvAke weWin p m).1.auth, (recvAke weWin p m).1.enc)) ∨
    (t = msgTypeDHCommit ∧ absAuth s'.conv = .none ∧ absEnc s'.conv = absEnc s.conv ∧
        ∃ msgs e, r = .ok (msgs, some e)) := by
  rcases (processAKE_skeleton_table K t msg s r s' h).2 with h0 | ⟨k, hk, hmem⟩ | h0
  · exact Or.inl h0
  · obtain ⟨weWin, p, m, hp, he, hm, ha, he'⟩ := (allowed_iff _ _ _ _ _).1 hmem
    exact Or.inr (Or.inl ⟨k, weWin, p, m, hk, hm, hp, he, by rw [ha, he']⟩)
  · exact Or.inr (Or.inr h0)

/-- a quiet step changes nothing security-relevant of a conversation that is encrypted afterwards -/
theorem quiet_no_change {s s' : MState} (hq : quietKept s' = quietKept s) (henc : s'.conv.msgState = .encrypted)
    (hchg : s.conv.msgState ≠ .encrypted ∨ s'.conv.keys.material ≠ s.conv.keys.material ∨
      s'.conv.theirKey ≠ s.conv.theirKey ∨ s'.conv.ssid ≠ s.conv.ssid ∨
      s'.conv.sentRevealSig ≠ s.conv.sentRevealSig ∨
      ∃ evs, s'.events = s.events ++ evs ∧ ∃ e ∈ evs, isSecEvent e = true) : False := by
  unfold quietKept at hq
  simp only [Prod.mk.injEq] at hq
  obtain ⟨hms, htk, hmat, hss, hev⟩ := hq
  have hse : s.conv.msgState = .encrypted := by rw [← hms]; exact henc
  rw [if_pos henc, if_pos hse] at hss
  have hp := Prod.mk.inj (Option.some.inj hss)
  rcases hchg with h1 | h1 | h1 | h1 | h1 | ⟨evs, he, e, hmem, hsec⟩
  · exact h1 hse
  · exact h1 hmat
  · exact h1 htk
  · exact h1 hp.1
  · exact h1 hp.2
  · rw [he, List.filter_append] at hev
    have hnil : evs.filter isSecEvent = [] := List.append_right_eq_self.mp hev
    have : e ∈ evs.filter isSecEvent := List.mem_filter.2 ⟨hmem, hsec⟩
    rw [hnil] at this
    cases this

/-- **completing an exchange happens only where `AkeAbs.finish` is applied.**  If `processAKE` ends encrypted and
    anything security-relevant happened (the conversation was not encrypted before, or key material / peer key /
    session id / role flag changed, or a security event was emitted — the hypothesis of `c01_paths`), then the
    message was a Reveal-Signature message received in `awaitRevealSig` or a Signature message received in
    `awaitSig`, and afterwards the authentication state is `none` with the AKE context kept and the conversation
    encrypted — the `auth` and `enc` of `AkeAbs.finish p sess` for every `p`, `sess`. -/
theorem processAKE_finishes_only_from (K : Crypto) (t : Nat) (msg : Bytes) (s : MState)
    (r : Except Err (List Bytes × Option Err)) (s' : MState)
    (h : runM (processAKE K t msg) s = .ok (r, s'))
    (henc : s'.conv.msgState = .encrypted)
    (hchg : s.conv.msgState ≠ .encrypted ∨ s'.conv.keys.material ≠ s.conv.keys.material ∨
      s'.conv.theirKey ≠ s.conv.theirKey ∨ s'.conv.ssid ≠ s.conv.ssid ∨
      s'.conv.sentRevealSig ≠ s.conv.sentRevealSig ∨
      ∃ evs, s'.events = s.events ++ evs ∧ ∃ e ∈ evs, isSecEvent e = true) :
    ((AkeKind.ofType t = some .reveal ∧ absAuth s.conv = .awaitRevealSig) ∨
     (AkeKind.ofType t = some .sig ∧ absAuth s.conv = .awaitSig)) ∧
    absHasAke s'.conv = true ∧
    ∀ (p : Party) (sess : Nat × Nat),
      absAuth s'.conv = (AkeAbs.finish p sess).auth ∧ absEnc s'.conv = (AkeAbs.finish p sess).enc := by
  obtain ⟨msgs, err, a', hr, ha', hcase⟩ := processAKE_outcomes K t msg s r s' h
  rcases hcase with ⟨hfin, hst', hme⟩ | ⟨hq, -⟩
  · refine ⟨?_, by unfold absHasAke; rw [ha']; rfl, fun p sess => ⟨?_, ?_⟩⟩
    · rcases hfin with ⟨ht, hst⟩ | ⟨ht, rs, hst⟩
      · exact Or.inl ⟨by rw [ht]; rfl, by unfold absAuth; rw [hst]; rfl⟩
      · exact Or.inr ⟨by rw [ht]; rfl, by unfold absAuth; rw [hst]; rfl⟩
    · rw [absAuth_some ha', hst']; rfl
    · unfold absEnc; rw [hme]; rfl
  · exact (quiet_no_change hq henc hchg).elim

/-- special case: a conversation becomes encrypted only by a Reveal-Signature message in `awaitRevealSig` or a
    Signature message in `awaitSig`, and its authentication state is `none` afterwards -/
theorem processAKE_becomes_encrypted_only_from (K : Crypto) (t : Nat) (msg : Bytes) (s : MState)
    (r : Except Err (List Bytes × Option Err)) (s' : MState)
    (h : runM (processAKE K t msg) s = .ok (r, s'))
    (h0 : absEnc s.conv = false) (h1 : absEnc s'.conv = true) :
    ((AkeKind.ofType t = some .reveal ∧ absAuth s.conv = .awaitRevealSig) ∨
     (AkeKind.ofType t = some .sig ∧ absAuth s.conv = .awaitSig)) ∧ absAuth s'.conv = .none := by
  have henc : s'.conv.msgState = .encrypted := by simpa [absEnc] using h1
  have hne : s.conv.msgState ≠ .encrypted := by simpa [absEnc] using h0
  obtain ⟨hc, -, hf⟩ := processAKE_finishes_only_from K t msg s r s' h henc (Or.inl hne)
  exact ⟨hc, (hf {} (0, 0)).1⟩

/-! ### the reset: a model transition that `recvAke` does not have -/

/-- a crypto record whose functions are trivial (the hash comparison of a DH-Commit collision is lost) -/
def skelCrypto : Crypto where
  hash1 := fun _ => []
  hash2 := fun _ => []
  mac1 := fun _ _ => []
  mac2 := fun _ _ => []
  ctr := fun _ _ d => some d
  gexp := fun _ _ => 2
  modInv := fun _ _ => none
  dsaVerify := fun _ _ _ _ => false

/-- we have sent a DH-Commit message (`awaitingDHKey`); the next read of the random source fails -/
def resetState : MState :=
  { conv := { version := some .v2, ake := some { state := .awaitingDHKey, ourPublicValue := some 5 } },
    env := { rand := [none] } }

/-- afterwards: a fresh AKE context in the state `none` -/
def resetState' : MState :=
  { conv := { version := some .v2, ake := some {} }, env := { rand := [] } }

/-- a well-formed DH-Commit message: two empty DATA fields -/
def resetMsg : Bytes := [0, 0, 0, 0, 0, 0, 0, 0]

theorem extractData_resetMsg : extractData resetMsg = some ([], [0, 0, 0, 0]) := by decide
theorem extractData_resetMsg' : extractData [0, 0, 0, 0] = some ([], []) := by decide

theorem randomInto_fails (s : MState) (rest : List (Option Bytes)) (h : s.env.rand = none :: rest) :
    runM (randomInto 40) s = .ok (.error .shortRandom, { s with env := { s.env with rand := rest } }) := by
  unfold randomInto randRead randReadAux
  simp [h]

theorem processAKE_reset_run :
    runM (processAKE skelCrypto msgTypeDHCommit resetMsg) resetState =
      .ok (.ok ([], some .shortRandom), resetState') := by
  rw [processAKE_run_some _ _ _ _ _ rfl, akeRest_dhCommit]
  unfold recvDHCommit
  simp only [resetState, extractData_resetMsg, extractData_resetMsg', runM_bind, getAke, runM_getc, bindM_ok, optNat,
    runM_pure]
  simp [skelCrypto, lexGreater, recvDHCommitNone, akeTry, dhKeyMessage, initAKE, modAke, randomInto_fails, akeTailDH]
  rw [akeStamp_run _ _ _ _ _ rfl]
  rfl

/-- **finding: the model (and the Go code) has a transition the abstraction lacks.**  In `awaitingDHKey` (also in
    `awaitingSig`) a well-formed DH-Commit message whose hash wins is answered through
    `authStateNone.receiveDHCommitMessage`, which first wipes and re-creates the AKE context and, when the DH-Key
    answer cannot be built (the random source fails: `dhKeyMessage`, instance tag), returns the state `none`:
    the exchange in progress is abandoned, an error is reported.  `recvAke` has no step from `awaitDHKey` to
    `none` on a DH-Commit message (its random values never fail). -/
theorem processAKE_reset_witness :
    absAuth resetState.conv = .awaitDHKey ∧
    runM (processAKE skelCrypto msgTypeDHCommit resetMsg) resetState =
        .ok (.ok ([], some .shortRandom), resetState') ∧
    absAuth resetState'.conv = .none ∧ absEnc resetState'.conv = false ∧
    (Auth.awaitDHKey, false, AkeKind.commit, Auth.none, false) ∉ allowedTransitions ∧
    (Auth.awaitSig, false, AkeKind.commit, Auth.none, false) ∉ allowedTransitions :=
  ⟨rfl, processAKE_reset_run, rfl, rfl, by decide, by decide⟩

/-! ## 5. starting an exchange: `sendDHCommit`, the query message, the whitespace tag -/

/-- `Party.encRecent` at time `now` -/
def absEncRecent (c : Conv) (now : Nat) : Bool := isWithin c.lastMessageStateChange now

/-- `Party.akeStamped` at time `now` (`false` without an AKE context) -/
def absAkeStamped (c : Conv) (now : Nat) : Bool :=
  match c.ake with
  | some a => isWithin a.lastStateChange now
  | none => false

/-- the condition under which `AkeAbs.recv` ignores a query message -/
def queryIgnored (c : Conv) (now : Nat) : Bool :=
  (absEnc c && absEncRecent c now) || (absHasAke c && absAkeStamped c now)

/-- a property of the AKE context that is kept (when there is a context with the property) -/
def AkeHolds (P : Ake → Prop) (s s' : MState) : Prop :=
  (∃ a, s.conv.ake = some a ∧ P a) → ∃ a', s'.conv.ake = some a' ∧ P a'

instance (P : Ake → Prop) : Frame (AkeHolds P) where
  refl _ := fun h => h
  trans h1 h2 := fun h => h2 (h1 h)

theorem Stable.kept_holds {α} {P : Ake → Prop} {x : M α} (h : Stable AkeKept x) : Stable (AkeHolds P) x :=
  fun s r s' hr hs => by
    have := h s r s' hr
    simp only [Keeps] at this
    rw [this]; exact hs

theorem modAke_holds {P : Ake → Prop} (f : Ake → Ake) (hf : ∀ a, P a → P (f a)) :
    Stable (AkeHolds P) (modAke f) := by
  unfold modAke
  refine Stable.modc _ (fun s h => ?_)
  obtain ⟨a, ha, hp⟩ := h
  exact ⟨f a, by show Option.map f s.conv.ake = _; rw [ha]; rfl, hf a hp⟩

/-- a freshly created AKE context: state `none`, no time stamp -/
def FreshAke (a : Ake) : Prop := a.state = .none ∧ a.lastStateChange = none

/-- `dhCommitMessage` after `initAKE` -/
def dhCommitRest (K : Crypto) : M Bytes := do
  let x ← randomInto 40
  setSecretExponent K x
  let r ← randomInto 16
  modAke fun a => { a with r := r }
  let a ← getAke
  let pub ← optNat "dhCommitMessage" a.ourPublicValue
  let enc ← akeEncrypt K r (appendMPI [] pub)
  modAke fun a => { a with encryptedGx := enc }
  serializeDHCommit K

theorem dhCommitRest_fresh (K : Crypto) : Stable (AkeHolds FreshAke) (dhCommitRest K) := by
  unfold dhCommitRest setSecretExponent serializeDHCommit getAke optNat akeEncrypt
  repeat' (first
    | exact Stable.pure _ | exact Stable.goPanic _ | exact Stable.getc
    | exact modAke_holds _ (fun _ h => h)
    | exact (randomInto_akeKept _).kept_holds
    | with_reducible apply Stable.bind
    | with_reducible intro _ | split | dsimp only)

/-- `sendDHCommit`: the old AKE context is dropped, a fresh one created, then the message is built and — on
    success only — the state set to `awaitingDHKey` -/
theorem sendDHCommit_run (K : Crypto) (s : MState) :
    runM (sendDHCommit K) s =
      bindM (runM (do let m ← dhCommitRest K; wrapMessageHeader msgTypeDHCommit m)
          { s with conv := { s.conv with ake := some {} } })
        (fun m s3 => .ok (.ok m, { s3 with conv := { s3.conv with
            ake := s3.conv.ake.map fun a => { a with state := .awaitingDHKey } } })) := by
  unfold sendDHCommit dhCommitMessage dhCommitRest
  simp only [runM_bind, runM_modc, bindM_ok, initAKE, bindM_assoc, modAke, runM_pure]

theorem sendDHCommit_base (K : Crypto) : Stable BaseFrame (sendDHCommit K) := by
  unfold sendDHCommit dhCommitMessage initAKE setSecretExponent modAke
  stable [randomInto_base, getAke_base, optNat_base, akeEncrypt_base, serializeDHCommit_base, wrapMessageHeader_base]

/-- **starting an exchange (`AkeAbs.startAKE`).**  Every non-panicking run of `sendDHCommit`: the encryption
    state is untouched, an AKE context exists afterwards and carries no time stamp; if the DH-Commit message was
    built the state is `awaitingDHKey`; if building it failed (random source, header) the state is `none` —
    either way what was in progress before is forgotten. -/
theorem sendDHCommit_outcomes (K : Crypto) (s : MState) (r : Except Err Bytes) (s' : MState)
    (h : runM (sendDHCommit K) s = .ok (r, s')) :
    s'.conv.msgState = s.conv.msgState ∧ s'.conv.lastMessageStateChange = s.conv.lastMessageStateChange ∧
    ∃ a', s'.conv.ake = some a' ∧ a'.lastStateChange = none ∧
      ((∃ m, r = .ok m) ∧ a'.state = .awaitingDHKey ∨ (∃ e, r = .error e) ∧ a'.state = .none) := by
  have hb : baseKept s' = baseKept s := sendDHCommit_base K _ _ _ h
  have hms : s'.conv.msgState = s.conv.msgState := congrArg (·.2.1) hb
  have hl : s'.conv.lastMessageStateChange = s.conv.lastMessageStateChange := by
    have hk : Stable (Keeps (fun s => s.conv.lastMessageStateChange)) (sendDHCommit K) := by
      unfold sendDHCommit dhCommitMessage initAKE setSecretExponent modAke serializeDHCommit getAke optNat akeEncrypt
        wrapMessageHeader messageHeader generateInstanceTag
      have hr : ∀ n, Stable (Keeps (fun s => s.conv.lastMessageStateChange)) (randomInto n) := fun n => by
        unfold randomInto
        stable [randRead_stable (fun s env' mm' h => rfl) _]
      have hg : ∀ n, Stable (Keeps (fun s => s.conv.lastMessageStateChange)) (generateInstanceTagAux n) := fun n => by
        induction n with
        | zero => unfold generateInstanceTagAux; stable []
        | succ n ih => unfold generateInstanceTagAux; stable [hr, ih]
      stable [hr, hg]
    exact hk _ _ _ h
  refine ⟨hms, hl, ?_⟩
  rw [sendDHCommit_run] at h
  have hfr : Stable (AkeHolds FreshAke)
      (do let m ← dhCommitRest K; wrapMessageHeader msgTypeDHCommit m) :=
    Stable.bind (dhCommitRest_fresh K) fun m => (wrapMessageHeader_akeKept _ m).kept_holds
  cases hx : runM (do let m ← dhCommitRest K; wrapMessageHeader msgTypeDHCommit m)
      { s with conv := { s.conv with ake := some {} } } with
  | panic p => rw [hx] at h; cases h
  | ok v =>
    obtain ⟨v, s3⟩ := v
    rw [hx] at h
    obtain ⟨a3, ha3, hst3, hls3⟩ := hfr _ _ _ hx ⟨{}, rfl, rfl, rfl⟩
    cases v with
    | error e =>
      simp only [bindM_error, Res.ok.injEq, Prod.mk.injEq] at h
      obtain ⟨rfl, rfl⟩ := h
      exact ⟨a3, ha3, hls3, Or.inr ⟨⟨e, rfl⟩, hst3⟩⟩
    | ok m =>
      simp only [bindM_ok, Res.ok.injEq, Prod.mk.injEq] at h
      obtain ⟨rfl, rfl⟩ := h
      exact ⟨{ a3 with state := .awaitingDHKey }, by show Option.map _ s3.conv.ake = _; rw [ha3]; rfl, hls3,
        Or.inl ⟨⟨m, rfl⟩, rfl⟩⟩

/-- **`sendDHCommit` is `AkeAbs.startAKE`** on the skeleton: when the DH-Commit message is returned, the
    authentication state, the encryption flag, the existence of the AKE context and its (missing) time stamp are
    those of `(startAKE p).1` for every abstract party `p` with the same encryption flag -/
theorem sendDHCommit_skeleton (K : Crypto) (s : MState) (m : Bytes) (s' : MState)
    (h : runM (sendDHCommit K) s = .ok (.ok m, s')) (p : Party) (hp : p.enc = absEnc s.conv) (now : Nat) :
    absAuth s'.conv = (AkeAbs.startAKE p).1.auth ∧ absEnc s'.conv = (AkeAbs.startAKE p).1.enc ∧
    absHasAke s'.conv = (AkeAbs.startAKE p).1.hasAke ∧ absAkeStamped s'.conv now = (AkeAbs.startAKE p).1.akeStamped := by
  obtain ⟨hms, -, a', ha', hls, hcase⟩ := sendDHCommit_outcomes K s _ s' h
  rcases hcase with ⟨-, hst⟩ | ⟨⟨e, he⟩, -⟩
  · refine ⟨by rw [absAuth_some ha', hst]; rfl, ?_, by unfold absHasAke; rw [ha']; rfl, ?_⟩
    · show absEnc s'.conv = p.enc
      rw [hp]; unfold absEnc; rw [hms]
    · unfold absAkeStamped; rw [ha']; simp only [hls]; rfl
  · cases he

/-- what the version choice at the start of the query / whitespace paths leaves alone -/
def startKept (s : MState) :=
  (s.conv.ake, s.conv.msgState, s.conv.lastMessageStateChange, s.env.now)
abbrev StartFrame : MState → MState → Prop := Keeps startKept

theorem commitToVersionFrom_start (versions : Nat) : Stable StartFrame (commitToVersionFrom versions) := by
  unfold commitToVersionFrom setKeyMatchingVersion
  stable []

/-- **the query message (`AkeAbs.recv … .query`).**  Every non-panicking run of `receiveQueryMessage`: the
    encryption flag is untouched, and
      * the AKE context is untouched (the message was refused — no common version, no key — or ignored), or
      * an exchange was started: the DH-Commit message is returned, the state is `awaitingDHKey` with no time
        stamp (`startAKE`), and the condition under which `AkeAbs.recv` ignores a query (`queryIgnored`:
        encrypted recently, or AKE context stamped recently) did not hold, or
      * starting failed (random source, header): an error is returned, the fresh AKE context is in state `none`. -/
theorem receiveQueryMessage_skeleton (K : Crypto) (msg : Bytes) (s : MState)
    (r : Except Err (List Bytes × Option Err)) (s' : MState)
    (h : runM (receiveQueryMessage K msg) s = .ok (r, s')) :
    absEnc s'.conv = absEnc s.conv ∧
    (s'.conv.ake = s.conv.ake ∨
     (queryIgnored s.conv s.env.now = false ∧ ∃ a', s'.conv.ake = some a' ∧ a'.lastStateChange = none ∧
        ((∃ m, r = .ok ([m], none)) ∧ a'.state = .awaitingDHKey ∨
         (∃ e, r = .ok ([], some e)) ∧ a'.state = .none))) := by
  unfold receiveQueryMessage at h
  rw [runM_bind, runM_getc, bindM_ok, runM_bind] at h
  generalize extractVersionsFromQueryMessage s.conv.policies msg = vs at h
  have hst : Stable StartFrame
      (tryCatch (do commitToVersionFrom vs; pure (none : Option Err)) (fun e => pure (some e))) := by
    stable [commitToVersionFrom_start]
  cases hx : runM (tryCatch (do commitToVersionFrom vs; pure (none : Option Err)) (fun e => pure (some e))) s with
  | panic p => rw [hx] at h; cases h
  | ok v =>
    obtain ⟨v, s1⟩ := v
    rw [hx] at h
    have hk : startKept s1 = startKept s := hst _ _ _ hx
    unfold startKept at hk
    simp only [Prod.mk.injEq] at hk
    obtain ⟨hka, hkm, hkl, hkn⟩ := hk
    have henc1 : absEnc s1.conv = absEnc s.conv := by unfold absEnc; rw [hkm]
    cases v with
    | error e =>
      simp only [bindM_error, Res.ok.injEq, Prod.mk.injEq] at h
      obtain ⟨-, rfl⟩ := h
      exact ⟨henc1, Or.inl hka⟩
    | ok oe =>
      simp only [bindM_ok] at h
      cases oe with
      | some e =>
        simp only [runM_pure, Res.ok.injEq, Prod.mk.injEq] at h
        obtain ⟨-, rfl⟩ := h
        exact ⟨henc1, Or.inl hka⟩
      | none =>
        simp only [runM_bind, runM_getc, runM_now, bindM_ok] at h
        rw [runM_ite] at h
        generalize hcnd : (_ || _ : Bool) = cnd at h
        cases cnd with
        | true =>
          simp only [↓reduceIte, runM_pure, Res.ok.injEq, Prod.mk.injEq] at h
          obtain ⟨-, rfl⟩ := h
          exact ⟨henc1, Or.inl hka⟩
        | false =>
          simp only [Bool.false_eq_true, ↓reduceIte] at h
          have hign : queryIgnored s.conv s.env.now = false := by
            rw [hkm, hkl, hkn, hka] at hcnd
            rw [← hcnd]
            unfold queryIgnored absEnc absEncRecent absAkeStamped absHasAke
            cases hak : s.conv.ake <;> cases hmm : s.conv.msgState <;> simp
          rw [runM_bind, runM_tryCatch, runM_bind] at h
          cases hsd : runM (sendDHCommit K) s1 with
          | panic p => rw [hsd] at h; cases h
          | ok w =>
            obtain ⟨w, s2⟩ := w
            rw [hsd] at h
            obtain ⟨hms, -, a', ha', hls, hcase⟩ := sendDHCommit_outcomes K s1 w s2 hsd
            have henc2 : absEnc s2.conv = absEnc s.conv := by unfold absEnc; rw [hms, hkm]
            cases w with
            | ok m =>
              simp only [bindM_ok, runM_pure, catchM_ok, Res.ok.injEq, Prod.mk.injEq] at h
              obtain ⟨rfl, rfl⟩ := h
              rcases hcase with ⟨-, hst'⟩ | ⟨⟨e, he⟩, -⟩
              · exact ⟨henc2, Or.inr ⟨hign, a', ha', hls, Or.inl ⟨⟨m, rfl⟩, hst'⟩⟩⟩
              · cases he
            | error e =>
              simp only [bindM_error, catchM_error, bindM_ok, runM_bind, msgEventErr, runM_ev, runM_pure, Res.ok.injEq,
                Prod.mk.injEq] at h
              obtain ⟨rfl, rfl⟩ := h
              rcases hcase with ⟨⟨m, hm⟩, -⟩ | ⟨-, hst'⟩
              · cases hm
              · exact ⟨henc2, Or.inr ⟨hign, a', ha', hls, Or.inr ⟨⟨e, rfl⟩, hst'⟩⟩⟩

/-! ## 6. the converse direction: under which model-side guards an abstract transition is taken -/

/-- the guards of the initiator's finishing step (C01/4): the Signature message parses, both DH values are
    stored, and the encrypted signature passes every check under the stored signature keys -/
def SigGuards (K : Crypto) (msg : Bytes) (a : Ake) : Prop :=
  ∃ m pk keyID theirs ours,
    Sig.deserialize msg = some m ∧ a.theirPublicValue = some theirs ∧ a.ourPublicValue = some ours ∧
    EncSigOK K m.encryptedSig m.macSig a.sigKey theirs ours pk keyID

/-- under `SigGuards`, `recvSig` in `awaitingSig` can only finish -/
theorem recvSig_finishes_of_guards (K : Crypto) (msg rs : Bytes) (s s1 : MState) (a : Ake)
    (ha : s.conv.ake = some a) (hg : SigGuards K msg a)
    (v : Except Err (AuthState × Option Bytes × Option Err))
    (h : runM (recvSig K (.awaitingSig rs) msg) s = .ok (v, s1)) : ∃ om e, v = .ok (.none, om, e) := by
  obtain ⟨m, pk, keyID, theirs, ours, hd, ht, ho, hok⟩ := hg
  unfold recvSig at h
  simp only at h
  rcases akeTry_cases h with ⟨u, hr, hx⟩ | ⟨er, hr, hx⟩
  · rw [runM_bind] at hx
    obtain ⟨_, s2, -, hx⟩ := bindM_ok_inv hx
    rw [runM_bind] at hx
    obtain ⟨_, s3, -, hx⟩ := bindM_ok_inv hx
    rw [runM_bind] at hx
    obtain ⟨e5, s4, -, hx⟩ := bindM_ok_inv hx
    simp only [runM_pure, Res.ok.injEq, Prod.mk.injEq, Except.ok.injEq] at hx
    exact ⟨none, e5, by rw [hr, ← hx.1]⟩
  · exfalso
    rw [runM_bind, processSig_accepts K msg s a ha m pk keyID theirs ours hd ht ho hok, bindM_ok] at hx
    rw [runM_bind, akeSetTheirCurrent_run _ _ rfl] at hx
    simp only [ht, bindM_ok, runM_bind] at hx
    rcases bindM_error_inv hx with h2 | ⟨e5, s3, -, hx⟩
    · exact akeHasFinished_no_throw K _ _ _ h2
    · simp only [runM_pure, Res.ok.injEq, Prod.mk.injEq, reduceCtorEq, false_and] at hx

/-- **the abstract step `sig` in `awaitSig` → `finish` is taken exactly under `SigGuards`.**  For a
    non-panicking run of `processAKE` on a Signature message in `awaitingSig`: the authentication state
    afterwards is `none` (and then the conversation is encrypted) iff the message parses and its encrypted
    signature passes the MAC check, decrypts, parses and carries a valid DSA signature over the two stored DH
    values — no randomness, no other condition.  (The abstract guard `theirPub = some y ∧ ourX = some x'` is
    the signature binding these two values.) -/
theorem processAKE_sig_taken_iff (K : Crypto) (msg rs : Bytes) (s s' : MState) (a : Ake)
    (ha : s.conv.ake = some a) (hst : a.state = .awaitingSig rs) (r : Except Err (List Bytes × Option Err))
    (h : runM (processAKE K msgTypeSig msg) s = .ok (r, s')) :
    (absAuth s'.conv = .none ∧ absEnc s'.conv = true) ↔ SigGuards K msg a := by
  rw [processAKE_run_some K _ msg s a ha, hst, akeRest_sig] at h
  cases hx : runM (recvSig K (.awaitingSig rs) msg) s with
  | panic p => rw [hx] at h; cases h
  | ok v =>
    obtain ⟨v, s1⟩ := v
    rw [hx] at h
    constructor
    · rintro ⟨hnone, -⟩
      rcases recvSig_awaiting_cases K msg rs s s1 a ha v hx with ⟨om, e, hv⟩ | ⟨er, hv, hs1⟩
      · subst hv
        obtain ⟨m, pk, keyID, theirs, ours, hd, ht, ho, hok, -⟩ := c01_finish_initiator K msg rs s s1 a ha om e hx
        exact ⟨m, pk, keyID, theirs, ours, hd, ht, ho, hok⟩
      · subst hv
        simp only [bindM_ok] at h
        obtain ⟨msgs, a', hr, ha', hst', hq⟩ := akeTail_outcome K _ _ s1 s' r h
        rw [absAuth_some ha', hst'] at hnone
        cases hnone
    · intro hg
      obtain ⟨om, e, hv⟩ := recvSig_finishes_of_guards K msg rs s s1 a ha hg v hx
      subst hv
      simp only [bindM_ok] at h
      obtain ⟨msgs, a', hr, ha', hst', hq⟩ := akeTail_outcome K _ _ s1 s' r h
      obtain ⟨_, _, _, _, _, _, _, _, _, hme, -⟩ := c01_finish_initiator K msg rs s s1 a ha om e hx
      refine ⟨by rw [absAuth_some ha', hst']; rfl, ?_⟩
      unfold absEnc; rw [(quietKept_encrypted hq hme).1]; rfl

/-- **the abstract step `reveal` in `awaitRevealSig` → `finish` is taken only under the responder's guards**
    (`RespGuards`, C01/3: the message parses, the revealed key opens the stored commitment, the hash matches, the
    DH value is in range, the encrypted signature passes every check).  The abstract guard
    `commitFrom = some x ∧ ourX = some k` is the hash comparison and the signature.  The converse needs, in
    addition, that the Signature answer can be built (long-term key present, signing oracle, header). -/
theorem processAKE_reveal_taken_only_if (K : Crypto) (msg : Bytes) (s s' : MState) (a : Ake)
    (ha : s.conv.ake = some a) (hst : a.state = .awaitingRevealSig) (r : Except Err (List Bytes × Option Err))
    (h : runM (processAKE K msgTypeRevealSig msg) s = .ok (r, s'))
    (hnone : absAuth s'.conv = .none) :
    (∃ gx pk keyID, RespGuards K msg a gx pk keyID) ∧ absEnc s'.conv = true := by
  rw [processAKE_run_some K _ msg s a ha, hst, akeRest_revealSig] at h
  cases hx : runM (recvRevealSig K .awaitingRevealSig msg) s with
  | panic p => rw [hx] at h; cases h
  | ok v =>
    obtain ⟨v, s1⟩ := v
    rw [hx] at h
    rcases recvRevealSig_awaiting_cases K msg s s1 a ha v hx with ⟨om, e, hv⟩ | ⟨er, hv, -⟩
    · subst hv
      simp only [bindM_ok] at h
      obtain ⟨msgs, a', hr, ha', hst', hq⟩ := akeTail_outcome K _ _ s1 s' r h
      obtain ⟨m, gxBytes, gx, pk, keyID, ours, hd, hc, hh, hmpi, hge1, hge2, ho, hok, hme, -⟩ :=
        c01_finish_responder K msg s s1 a ha om e hx
      refine ⟨⟨gx, pk, keyID, m, gxBytes, ours, hd, hc, hh, hmpi, hge1, hge2, ho, hok⟩, ?_⟩
      unfold absEnc; rw [(quietKept_encrypted hq hme).1]; rfl
    · subst hv
      simp only [bindM_ok] at h
      obtain ⟨msgs, a', hr, ha', hst', hq⟩ := akeTail_outcome K _ _ s1 s' r h
      rw [absAuth_some ha', hst'] at hnone
      cases hnone

/-- **the abstract step `key` in `awaitDHKey` → `awaitSig` is taken only if** the DH-Key message parses and its
    DH value is a group element (`2 ≤ gy ≤ p − 2`); the converse needs, in addition, that the Reveal-Signature
    message can be built (long-term key present, signing oracle, header). -/
theorem processAKE_key_taken_only_if (K : Crypto) (msg : Bytes) (s s' : MState) (a : Ake)
    (ha : s.conv.ake = some a) (hst : a.state = .awaitingDHKey) (r : Except Err (List Bytes × Option Err))
    (h : runM (processAKE K msgTypeDHKey msg) s = .ok (r, s'))
    (hmoved : absAuth s'.conv = .awaitSig) :
    ∃ m, DhKey.deserialize msg = some m ∧ 2 ≤ m.gy ∧ m.gy ≤ dhP - 2 := by
  rw [processAKE_run_some K _ msg s a ha, hst, akeRest_dhKey] at h
  cases hx : runM (recvDHKey K .awaitingDHKey msg) s with
  | panic p => rw [hx] at h; cases h
  | ok v =>
    obtain ⟨v, s1⟩ := v
    rw [hx] at h
    cases v with
    | error e => exact absurd hx (recvDHKey_noThrow K _ msg _ _ _)
    | ok u =>
      simp only [bindM_ok] at h
      obtain ⟨msgs, a', hr, ha', hst', hq⟩ := akeTailDH_outcome _ u s1 s' r h
      rw [absAuth_some ha', hst'] at hmoved
      obtain ⟨st1, om, e⟩ := u
      cases st1 with
      | awaitingSig rsm =>
        unfold recvDHKey at hx
        simp only at hx
        have hx' := akeTry_ok_inv (by simp) hx
        rw [runM_bind] at hx'
        obtain ⟨same, s2, h1, -⟩ := bindM_ok_inv hx'
        obtain ⟨m, hd, -, hge1, hge2, -⟩ := c01_guard_dhkey msg s s2 a ha same h1
        exact ⟨m, hd, hge1, hge2⟩
      | none => cases hmoved
      | awaitingDHKey => cases hmoved
      | awaitingRevealSig => cases hmoved

/-! ## 7. non-vacuity: concrete instances of the hypotheses -/

/-- `processAKE_outcomes` / `_skeleton` / `_skeleton_table`: a run that does not panic (the reset run) -/
example : ∃ r s', runM (processAKE skelCrypto msgTypeDHCommit resetMsg) resetState = .ok (r, s') :=
  ⟨_, _, processAKE_reset_run⟩

/-- `sendDHCommit_outcomes` (failing branch): the random source fails -/
example : ∃ r s', runM (sendDHCommit skelCrypto) resetState = .ok (r, s') := by
  rw [sendDHCommit_run]
  have hf := randomInto_fails { resetState with conv := { resetState.conv with ake := some {} } } [] rfl
  unfold dhCommitRest
  rw [runM_bind, runM_bind, hf]
  exact ⟨_, _, rfl⟩

end Otr
