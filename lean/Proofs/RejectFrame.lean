/-
  Proofs.RejectFrame — property C06 for the whole of `Conversation.Receive`: what a message that `Receive`
  answers with an error can change of the conversation (a frame), and what it cannot.

  Sections: 1 the frame `RejFrame` and the functions that respect it whatever they do (version, tags, header,
  fragments, plaintext, query message, starting an AKE); 2 which errors a computation throws (`ThrowsOnly`), frames
  for throwing runs (`StableOn`), returned values (`ResultOnly`); 3 key-exchange messages (`processAKE_rej`);
  4 data messages (`receiveDataMessage_rej`); 5 `receiveDecoded`, `receiveUnit`; 6 the theorems
  (`receive_error_frame_partial`, `receive_error_frame_or_authentic`, `c06_rejected_never_changes`,
  `c06_rejected_continuation_partial`, `c06_rejected_continuation_nonfragment`); 7 witnesses (kernel-evaluated
  runs: what is left of the former findings, the caveat for fragments, and counterexamples showing that each
  hypothesis of the partial theorem is needed); 8 ignored key-exchange messages (`processAKE_vt`,
  `receiveDecoded_ignored_ake_frame`, `receive_ignored_ake_frame`).

  The file depends on Proofs.ConvData / ConvLife / Keys only (it walks `processAKE` itself).
  `EnvFail` classes three errors as failures of the environment or configuration rather than verdicts on the
  message: errShortRandomRead (randomness source, signing oracle), "no private key to sign the key exchange
  with", "no possible key for current version" (a query message received without a long-term key still commits
  the version).
-/
import Proofs.ConvData
import Proofs.ConvLife
import Proofs.Keys
set_option linter.unusedSimpArgs false
set_option linter.unusedVariables false
namespace Otr
open ConvData

/-! ## 1. the frame -/

/-- **What a rejected message leaves alone.**  `RejFrame c c'`: the conversation `c'` agrees with `c` on
    the message state, the whole key-management context, the peer's long-term key, the SMP state, the resend
    state, our keys, the policies and the other settings, the two time stamps of the data path and the role flag;
    the version, our long-term key in use, the two instance tags and the session id are *sticky* (unchanged once
    set / while encrypted); the fragmentation context is kept or reset to empty.
    Not constrained: `ake` (the AKE context), `injections` (flushed at the end of `Receive`), `wsState`
    (treated separately: it changes only when a plaintext is delivered). -/
structure RejFrame (w : Bool) (c c' : Conv) : Prop where
  msgState : c'.msgState = c.msgState
  keys : c'.keys = c.keys
  theirKey : c'.theirKey = c.theirKey
  smp : c'.smp = c.smp
  resendMsgs : c'.resendMsgs = c.resendMsgs
  mayRetransmit : c'.mayRetransmit = c.mayRetransmit
  retransmitting : c'.retransmitting = c.retransmitting
  ourKeys : c'.ourKeys = c.ourKeys
  policies : c'.policies = c.policies
  fragmentSize : c'.fragmentSize = c.fragmentSize
  friendlyQuery : c'.friendlyQuery = c.friendlyQuery
  errHandler : c'.errHandler = c.errHandler
  heartbeatLastSent : c'.heartbeatLastSent = c.heartbeatLastSent
  lastMessageStateChange : c'.lastMessageStateChange = c.lastMessageStateChange
  sentRevealSig : c'.sentRevealSig = c.sentRevealSig
  /-- the protocol version changes only if none was committed -/
  version : c.version ≠ none → c'.version = c.version
  /-- our long-term key in use is chosen together with the version -/
  ourCurrentKey : c.version ≠ none → c'.ourCurrentKey = c.ourCurrentKey
  /-- the peer's instance tag changes only if none was bound -/
  theirTag : c.theirTag ≠ 0 → c'.theirTag = c.theirTag
  /-- our instance tag changes only if none was generated -/
  ourTag : c.ourTag ≠ 0 → c'.ourTag = c.ourTag
  /-- the session id of an encrypted conversation does not change -/
  ssid : c.msgState = .encrypted → c'.ssid = c.ssid
  /-- the fragmentation context is kept, or forgotten -/
  fragCtx : c'.fragCtx = c.fragCtx ∨ c'.fragCtx = FragCtx.empty
  /-- (only for `w = true`) the whitespace-tag state is unchanged -/
  wsState : w = true → c'.wsState = c.wsState

/-- all the components `RejFrame` speaks about -/
def rejAll (c : Conv) :=
  (c.msgState, c.keys, c.theirKey, c.smp, c.resendMsgs, c.mayRetransmit, c.retransmitting, c.ourKeys, c.policies,
   c.fragmentSize, c.friendlyQuery, c.errHandler, c.heartbeatLastSent, c.lastMessageStateChange, c.sentRevealSig,
   c.version, c.ourCurrentKey, c.theirTag, c.ourTag, c.ssid, c.fragCtx, c.wsState)

theorem RejFrame.ofEq {w : Bool} {c c' : Conv} (h : rejAll c' = rejAll c) : RejFrame w c c' := by
  simp only [rejAll, Prod.mk.injEq] at h
  obtain ⟨h1, h2, h3, h4, h5, h6, h7, h8, h9, h10, h11, h12, h13, h14, h15, h16, h17, h18, h19, h20, h21, h22⟩ := h
  exact ⟨h1, h2, h3, h4, h5, h6, h7, h8, h9, h10, h11, h12, h13, h14, h15, fun _ => h16, fun _ => h17, fun _ => h18,
    fun _ => h19, fun _ => h20, Or.inl h21, fun _ => h22⟩

theorem RejFrame.refl {w : Bool} (c : Conv) : RejFrame w c c := RejFrame.ofEq rfl

theorem RejFrame.trans {w : Bool} {a b c : Conv} (h1 : RejFrame w a b) (h2 : RejFrame w b c) : RejFrame w a c where
  msgState := h2.msgState.trans h1.msgState
  keys := h2.keys.trans h1.keys
  theirKey := h2.theirKey.trans h1.theirKey
  smp := h2.smp.trans h1.smp
  resendMsgs := h2.resendMsgs.trans h1.resendMsgs
  mayRetransmit := h2.mayRetransmit.trans h1.mayRetransmit
  retransmitting := h2.retransmitting.trans h1.retransmitting
  ourKeys := h2.ourKeys.trans h1.ourKeys
  policies := h2.policies.trans h1.policies
  fragmentSize := h2.fragmentSize.trans h1.fragmentSize
  friendlyQuery := h2.friendlyQuery.trans h1.friendlyQuery
  errHandler := h2.errHandler.trans h1.errHandler
  heartbeatLastSent := h2.heartbeatLastSent.trans h1.heartbeatLastSent
  lastMessageStateChange := h2.lastMessageStateChange.trans h1.lastMessageStateChange
  sentRevealSig := h2.sentRevealSig.trans h1.sentRevealSig
  version := fun h => (h2.version (by rw [h1.version h]; exact h)).trans (h1.version h)
  ourCurrentKey := fun h => (h2.ourCurrentKey (by rw [h1.version h]; exact h)).trans (h1.ourCurrentKey h)
  theirTag := fun h => (h2.theirTag (by rw [h1.theirTag h]; exact h)).trans (h1.theirTag h)
  ourTag := fun h => (h2.ourTag (by rw [h1.ourTag h]; exact h)).trans (h1.ourTag h)
  ssid := fun h => (h2.ssid (by rw [h1.msgState]; exact h)).trans (h1.ssid h)
  fragCtx := by
    rcases h2.fragCtx with h | h
    · rcases h1.fragCtx with h' | h'
      · exact Or.inl (h.trans h')
      · exact Or.inr (h.trans h')
    · exact Or.inr h
  wsState := fun h => (h2.wsState h).trans (h1.wsState h)

/-- the frame as a relation on states of the monad (randomness, clock, events and diagnostics are free) -/
def RejF (w : Bool) (s s' : MState) : Prop := RejFrame w s.conv s'.conv

instance (w : Bool) : Frame (RejF w) where
  refl s := RejFrame.refl s.conv
  trans h1 h2 := RejFrame.trans h1 h2

theorem RejF.ofEq {w : Bool} {s s' : MState} (h : rejAll s'.conv = rejAll s.conv) : RejF w s s' := RejFrame.ofEq h

/-- structural leaves and combinators of a `Stable (RejF w) x` goal -/
macro "rstable_core" : tactic => `(tactic| first
  | exact Stable.pure _ | exact Stable.throw _ | exact Stable.goPanic _
  | exact Stable.getc | exact Stable.get | exact Stable.now
  | exact Stable.modc _ (fun _ => RejF.ofEq rfl) | exact Stable.mism _ (fun _ => RejF.ofEq rfl)
  | exact Stable.ev _ (fun _ => RejF.ofEq rfl)
  | with_reducible apply Stable.bind | with_reducible apply Stable.tryCatch
  | with_reducible apply Stable.ite | with_reducible apply Stable.map
  | with_reducible apply Stable.forIn)

syntax "rstable" "[" term,* "]" : tactic
macro_rules
  | `(tactic| rstable [$ls,*]) => do
    let tacs ← ls.getElems.mapM fun l => `(tactic| with_reducible apply $l)
    `(tactic| repeat' (first | rstable_core $[| $tacs:tactic]* | with_reducible intro _ | split | dsimp only))

/-! ### inversion of runs (local copies: this file does not depend on Proofs.AkeGuard) -/

theorem rf_bindM_ok_inv {α β} {r : Out α} {f : α → MState → Out β} {b : β} {s' : MState}
    (h : bindM r f = .ok (.ok b, s')) : ∃ a s1, r = .ok (.ok a, s1) ∧ f a s1 = .ok (.ok b, s') := by
  cases r with
  | panic p => cases h
  | ok v =>
    obtain ⟨v, s1⟩ := v
    cases v with
    | error e => simp only [bindM_error, Res.ok.injEq, Prod.mk.injEq, reduceCtorEq, false_and] at h
    | ok a => exact ⟨a, s1, rfl, h⟩

theorem rf_bindM_error_inv {α β} {r : Out α} {f : α → MState → Out β} {er : Err} {s' : MState}
    (h : bindM r f = .ok (.error er, s')) :
    r = .ok (.error er, s') ∨ ∃ a s1, r = .ok (.ok a, s1) ∧ f a s1 = .ok (.error er, s') := by
  cases r with
  | panic p => cases h
  | ok v =>
    obtain ⟨v, s1⟩ := v
    cases v with
    | error e =>
      simp only [bindM_error, Res.ok.injEq, Prod.mk.injEq, Except.error.injEq] at h
      left; rw [h.1, h.2]
    | ok a => exact Or.inr ⟨a, s1, rfl, h⟩

theorem rf_signOracle_run (mb : Bytes) (s : MState) :
    ∃ r env' mm', runM (signOracle mb) s = .ok (.ok r, { s with env := env', mismatch := mm' }) := by
  unfold signOracle
  simp only [runM_bind, runM_get, bindM_ok]
  split
  · exact ⟨none, s.env, _, by simp only [runM_bind, runM_mism, bindM_ok, runM_pure]; rfl⟩
  · rename_i d sg rest h
    simp only [runM_bind, runM_set, bindM_ok]
    by_cases hd : d = mb
    · exact ⟨sg, { s.env with sigs := rest }, s.mismatch, by simp [hd]⟩
    · exact ⟨sg, _, _, by simp only [ne_eq, hd, not_false_eq_true, ↓reduceIte, runM_bind, runM_mism, bindM_ok, runM_pure]; rfl⟩

theorem rf_signOracle_stable {R : MState → MState → Prop}
    (hR : ∀ (s : MState) env' mm', R s { s with env := env', mismatch := mm' }) (mb : Bytes) :
    Stable R (signOracle mb) := by
  intro s r s' h
  obtain ⟨r0, env', mm', hr⟩ := rf_signOracle_run mb s
  rw [hr] at h
  simp only [Res.ok.injEq, Prod.mk.injEq] at h
  rw [← h.2]; exact hR s env' mm'

theorem rf_akeTry_cases {onErr : AuthState} {x : M (AuthState × Option Bytes × Option Err)} {s s' : MState}
    {r : Except Err (AuthState × Option Bytes × Option Err)}
    (h : runM (akeTry onErr x) s = .ok (r, s')) :
    (∃ u, r = .ok u ∧ runM x s = .ok (.ok u, s')) ∨
    (∃ er, r = .ok (onErr, none, some er) ∧ runM x s = .ok (.error er, s')) := by
  unfold akeTry at h
  rw [runM_tryCatch] at h
  cases hx : runM x s with
  | panic p => rw [hx] at h; cases h
  | ok v =>
    obtain ⟨v, s2⟩ := v
    rw [hx] at h
    cases v with
    | ok u =>
      simp only [catchM_ok, Res.ok.injEq, Prod.mk.injEq] at h
      left; exact ⟨u, h.1.symm, by rw [h.2]⟩
    | error er =>
      simp only [catchM_error, runM_pure, Res.ok.injEq, Prod.mk.injEq] at h
      right; exact ⟨er, h.1.symm, by rw [h.2]⟩

theorem rf_akeHasFinished_no_throw (K : Crypto) (s s' : MState) (er : Err)
    (h : runM (akeHasFinished K) s = .ok (.error er, s')) : False := by
  cases ha : s.conv.ake with
  | none => rw [akeHasFinished_none K s ha] at h; cases h
  | some a =>
    obtain ⟨r0, env', mm', -, h'⟩ := akeHasFinished_run K s a ha
    rw [h'] at h
    simp only [Res.ok.injEq, Prod.mk.injEq, reduceCtorEq, false_and] at h

/-! ### leaves -/

variable {w : Bool}

theorem randRead_rej (n : Nat) : Stable (RejF w) (randRead n) :=
  randRead_stable (fun _ _ _ _ => RejF.ofEq rfl) n

theorem randomInto_rej (n : Nat) : Stable (RejF w) (randomInto n) := by
  unfold randomInto
  rstable [randRead_rej]

theorem signOracle_rej (mb : Bytes) : Stable (RejF w) (signOracle mb) :=
  rf_signOracle_stable (fun _ _ _ => RejF.ofEq rfl) mb

/-- only `ourTag` changes, and only from 0 -/
theorem RejF.setOurTag (s : MState) (v : Nat) (env' : Env) (mm' : List String) (h : s.conv.ourTag = 0) :
    RejF w s { s with conv := { s.conv with ourTag := v }, env := env', mismatch := mm' } :=
  ⟨rfl, rfl, rfl, rfl, rfl, rfl, rfl, rfl, rfl, rfl, rfl, rfl, rfl, rfl, rfl, fun _ => rfl, fun _ => rfl, fun _ => rfl,
    fun h' => absurd h h', fun _ => rfl, Or.inl rfl, fun _ => rfl⟩

theorem generateInstanceTag_rej : Stable (RejF w) generateInstanceTag := by
  intro s r s' h
  by_cases h0 : s.conv.ourTag = 0
  · obtain ⟨env', mm', -, hh⟩ := generateInstanceTag_run s h0
    rcases hh with ⟨v, -, -, hh⟩ | hh
    · rw [hh] at h
      simp only [Res.ok.injEq, Prod.mk.injEq] at h
      rw [← h.2]; exact RejF.setOurTag s v env' mm' h0
    · rw [hh] at h
      simp only [Res.ok.injEq, Prod.mk.injEq] at h
      rw [← h.2]; exact RejF.ofEq rfl
  · rw [generateInstanceTag_noop s h0] at h
    simp only [Res.ok.injEq, Prod.mk.injEq] at h
    rw [← h.2]; exact Frame.refl s

theorem messageHeader_rej (t : Nat) : Stable (RejF w) (messageHeader t) := by
  unfold messageHeader
  rstable [generateInstanceTag_rej]

theorem wrapMessageHeader_rej (t : Nat) (m : Bytes) : Stable (RejF w) (wrapMessageHeader t m) := by
  unfold wrapMessageHeader
  rstable [messageHeader_rej]

theorem generatePotentialErrorMessage_rej (code : Nat) : Stable (RejF w) (generatePotentialErrorMessage code) := by
  unfold generatePotentialErrorMessage
  rstable []

theorem malformedMessage_rej : Stable (RejF w) malformedMessage := by
  unfold malformedMessage msgEvent
  rstable [generatePotentialErrorMessage_rej]

/-! ### version, instance tags, header -/

/-- the strictly kept components -/
def rejCore (c : Conv) :=
  (c.msgState, c.keys, c.theirKey, c.smp, c.resendMsgs, c.mayRetransmit, c.retransmitting, c.ourKeys, c.policies,
   c.fragmentSize, c.friendlyQuery, c.errHandler, c.heartbeatLastSent, c.lastMessageStateChange, c.sentRevealSig)

theorem RejFrame.mk' {c c' : Conv} (h : rejCore c' = rejCore c)
    (hv : c.version ≠ none → c'.version = c.version)
    (hk : c.version ≠ none → c'.ourCurrentKey = c.ourCurrentKey)
    (ht : c.theirTag ≠ 0 → c'.theirTag = c.theirTag)
    (ho : c.ourTag ≠ 0 → c'.ourTag = c.ourTag)
    (hs : c.msgState = .encrypted → c'.ssid = c.ssid)
    (hf : c'.fragCtx = c.fragCtx ∨ c'.fragCtx = FragCtx.empty)
    (hw : w = true → c'.wsState = c.wsState) : RejFrame w c c' := by
  simp only [rejCore, Prod.mk.injEq] at h
  obtain ⟨h1, h2, h3, h4, h5, h6, h7, h8, h9, h10, h11, h12, h13, h14, h15⟩ := h
  exact ⟨h1, h2, h3, h4, h5, h6, h7, h8, h9, h10, h11, h12, h13, h14, h15, hv, hk, ht, ho, hs, hf, hw⟩

theorem commitToVersionFrom_rej (vs : Nat) : Stable (RejF w) (commitToVersionFrom vs) := by
  intro s r s' h
  rw [commitToVersionFrom_run] at h
  cases hv : s.conv.version with
  | some v =>
    rw [hv] at h
    simp only [Res.ok.injEq, Prod.mk.injEq] at h
    rw [← h.2]; exact Frame.refl s
  | none =>
    rw [hv] at h
    simp only at h
    have hvn : ¬ s.conv.version ≠ none := by rw [hv]; simp
    cases hc : chooseVersion s.conv.policies vs with
    | none =>
      rw [hc] at h
      simp only [Res.ok.injEq, Prod.mk.injEq] at h
      rw [← h.2]; exact Frame.refl s
    | some v =>
      rw [hc] at h
      simp only at h
      cases hk : s.conv.ourKeys with
      | nil =>
        rw [hk] at h
        simp only [Res.ok.injEq, Prod.mk.injEq] at h
        rw [← h.2]
        exact RejFrame.mk' (by simp only [rejCore, hk]) (fun h' => absurd h' hvn) (fun h' => absurd h' hvn) (fun _ => rfl) (fun _ => rfl)
          (fun _ => rfl) (Or.inl rfl) (fun _ => rfl)
      | cons k ks =>
        rw [hk] at h
        simp only [Res.ok.injEq, Prod.mk.injEq] at h
        rw [← h.2]
        exact RejFrame.mk' (by simp only [rejCore, hk]) (fun h' => absurd h' hvn) (fun h' => absurd h' hvn) (fun _ => rfl) (fun _ => rfl)
          (fun _ => rfl) (Or.inl rfl) (fun _ => rfl)

theorem checkVersion_rej (m : Bytes) : Stable (RejF w) (checkVersion m) := by
  unfold checkVersion
  rstable [commitToVersionFrom_rej]

theorem rejAll_afterMalformed (c : Conv) : rejAll (afterMalformed c) = rejAll c := by
  unfold afterMalformed
  split <;> rfl

theorem verifyInstanceTags_rej (their our : Nat) : Stable (RejF w) (verifyInstanceTags their our) := by
  intro s r s' h
  rw [verifyInstanceTags_run] at h
  split at h
  · simp only [Res.ok.injEq, Prod.mk.injEq] at h
    rw [← h.2]; exact RejF.ofEq (rejAll_afterMalformed s.conv)
  · split at h
    · simp only [Res.ok.injEq, Prod.mk.injEq] at h
      rw [← h.2]; exact RejF.ofEq rfl
    · rename_i hnf
      simp only [Res.ok.injEq, Prod.mk.injEq] at h
      rw [← h.2]
      refine RejFrame.mk' rfl (fun _ => rfl) (fun _ => rfl) (fun h0 => ?_) (fun _ => rfl) (fun _ => rfl) (Or.inl rfl)
        (fun _ => rfl)
      show their = s.conv.theirTag
      apply Decidable.byContradiction
      intro hne
      exact hnf (Or.inr ⟨h0, fun h' => hne h'.symm⟩)

theorem parseMessageHeader_rej (msg : Bytes) : Stable (RejF w) (parseMessageHeader msg) := by
  unfold parseMessageHeader
  rstable [malformedMessage_rej, verifyInstanceTags_rej]

/-! ### fragments, plaintext, error replies, the end of `receiveUnit` -/

theorem parseFragmentPrefix_rej (data : Bytes) : Stable (RejF w) (parseFragmentPrefix data) := by
  unfold parseFragmentPrefix
  rstable [commitToVersionFrom_rej, verifyInstanceTags_rej]

/-- any panic site (the theorems of this file are about the runs that return) -/
abbrev AnyP : String → Prop := fun _ => True

theorem wp_of_forall {α} (x : M α) (Q : Except Err α → MState → Prop) (s : MState)
    (h : ∀ r s', runM x s = .ok (r, s') → Q r s') : wp x Q AnyP s := by
  unfold wp
  cases hx : run' x s with
  | panic p => trivial
  | ok v =>
    obtain ⟨r, s'⟩ := v
    exact h r s' hx

theorem wp_of_stable {α} {R : MState → MState → Prop} (x : M α) (h : Stable R x) (s : MState) :
    wp x (fun _ s' => R s s') AnyP s :=
  wp_of_forall x _ s (fun r s' hr => h s r s' hr)

theorem stable_of_wp {α} {R : MState → MState → Prop} (x : M α)
    (h : ∀ s, wp x (fun _ s' => R s s') AnyP s) : Stable R x :=
  fun s r s' hr => wp_of_run x _ _ s s' r (h s) hr

/-- symbolic execution under `wp` -/
macro "wpr" : tactic => `(tactic| repeat' (first
    | simp only [wp_bind, wp_getc, wp_modc, wp_ite', wp_pure, wp_throw, wp_ev, wp_goPanic, wp_now, wp_tryCatch,
        wp_mism, wp_get, wp_set]
    | refine ⟨fun _ => ?_, fun _ => ?_⟩
    | split))

/-- repaired code ("unbind"): the version goes back to `none` and the long-term key in use to its value at `s` if
    no version was committed at `s`, the peer's instance tag back to its value at `s` -/
theorem RejF.unbind {s s1 : MState} (h : RejF w s s1) :
    RejF w s { s1 with conv := { s1.conv with
      version := if s.conv.version.isNone then none else s1.conv.version,
      ourCurrentKey := if s.conv.version.isNone then s.conv.ourCurrentKey else s1.conv.ourCurrentKey,
      theirTag := s.conv.theirTag } } := by
  refine ⟨h.msgState, h.keys, h.theirKey, h.smp, h.resendMsgs, h.mayRetransmit, h.retransmitting, h.ourKeys, h.policies,
    h.fragmentSize, h.friendlyQuery, h.errHandler, h.heartbeatLastSent, h.lastMessageStateChange, h.sentRevealSig,
    fun hv => ?_, fun hv => ?_, fun _ => rfl, h.ourTag, h.ssid, h.fragCtx, h.wsState⟩
  · show (if s.conv.version.isNone then none else s1.conv.version) = s.conv.version
    have hn : s.conv.version.isNone = false := by
      cases hx : s.conv.version with
      | none => exact absurd hx hv
      | some v => rfl
    rw [hn]
    exact h.version hv
  · show (if s.conv.version.isNone then s.conv.ourCurrentKey else s1.conv.ourCurrentKey) = s.conv.ourCurrentKey
    have hn : s.conv.version.isNone = false := by
      cases hx : s.conv.version with
      | none => exact absurd hx hv
      | some v => rfl
    rw [hn]
    exact h.ourCurrentKey hv

/-- after "unbind" the version, the long-term key in use and the peer tag are exactly what they were at `s` -/
theorem RejF.unbind_vt {s s1 : MState} (h : RejF w s s1) :
    (if s.conv.version.isNone then none else s1.conv.version) = s.conv.version ∧
    (if s.conv.version.isNone then s.conv.ourCurrentKey else s1.conv.ourCurrentKey) = s.conv.ourCurrentKey := by
  cases hx : s.conv.version with
  | none => exact ⟨rfl, rfl⟩
  | some v =>
    have hv : s.conv.version ≠ none := by rw [hx]; simp
    refine ⟨?_, ?_⟩
    · show s1.conv.version = some v
      rw [← hx]
      exact h.version hv
    · show s1.conv.ourCurrentKey = s.conv.ourCurrentKey
      exact h.ourCurrentKey hv

/-- a fragment — accepted, discarded or rejected — changes only what the frame leaves free (repaired code: a
    rejected or discarded fragment puts version and peer tag back) -/
theorem receiveFragment_rej (before : FragCtx) (data : Bytes) : Stable (RejF w) (receiveFragment before data) := by
  refine stable_of_wp _ (fun s => ?_)
  unfold receiveFragment
  simp only [wp_bind, wp_getc]
  refine wp_mono _ _ _ _ _ _ (wp_of_stable _ (parseFragmentPrefix_rej (w := w) data) s) ?_ (fun _ hs => hs)
  intro r s1 h1
  cases r with
  | error e => exact h1
  | ok x =>
    obtain ⟨body, ignore, ok1⟩ := x
    simp only [msgEvent]
    wpr
    all_goals first
      | exact h1
      | exact Frame.trans h1 (RejF.ofEq rfl)
      | exact RejF.unbind h1
      | exact Frame.trans (RejF.unbind h1) (RejF.ofEq rfl)
      | (have hu := RejF.unbind h1; simp only [*, ↓reduceIte] at hu; exact hu)
      | (have hu := Frame.trans (RejF.unbind h1) (RejF.ofEq (w := w) rfl); simp only [*, ↓reduceIte] at hu; exact hu)

theorem fragEncode_rej (msg : Bytes) : Stable (RejF w) (fragEncode msg) := by
  unfold fragEncode
  rstable []

theorem toSendEncoded_rej (ts : List Bytes) (err : Option Err) : Stable (RejF w) (toSendEncoded ts err) := by
  unfold toSendEncoded
  rstable [fragEncode_rej]

theorem withInjects_rej (vms : List Bytes) : Stable (RejF w) (withInjects vms) := by
  unfold withInjects
  rstable []

/-- `checkPlaintextPolicies` changes `wsState` only (frame without the `wsState` clause) -/
theorem checkPlaintextPolicies_rej (plain : Bytes) : Stable (RejF false) (checkPlaintextPolicies plain) := by
  unfold checkPlaintextPolicies msgEventMsg
  rstable []
  all_goals exact Stable.modc _ (fun s => RejFrame.mk' rfl (fun _ => rfl) (fun _ => rfl) (fun _ => rfl) (fun _ => rfl)
        (fun _ => rfl) (Or.inl rfl) (fun h => by cases h))

/-! ### starting an AKE (query message, whitespace tag) -/

theorem getAke_rej : Stable (RejF w) getAke := by
  unfold getAke
  rstable []

theorem optNat_rej (site : String) (v : Option Nat) : Stable (RejF w) (optNat site v) := by
  unfold optNat
  rstable []

theorem akeEncrypt_rej (K : Crypto) (key data : Bytes) : Stable (RejF w) (akeEncrypt K key data) := by
  unfold akeEncrypt
  rstable []

theorem resToM_rej {α} (r : Res α) : Stable (RejF w) (resToM r) := by
  unfold resToM
  rstable []

theorem serializeDHKey_rej : Stable (RejF w) serializeDHKey := by
  unfold serializeDHKey
  rstable [getAke_rej, optNat_rej]

theorem serializeDHCommit_rej (K : Crypto) : Stable (RejF w) (serializeDHCommit K) := by
  unfold serializeDHCommit
  rstable [getAke_rej, optNat_rej]

theorem dhCommitMessage_rej (K : Crypto) : Stable (RejF w) (dhCommitMessage K) := by
  unfold dhCommitMessage initAKE setSecretExponent modAke
  rstable [randomInto_rej, getAke_rej, optNat_rej, akeEncrypt_rej, serializeDHCommit_rej]

theorem sendDHCommit_rej (K : Crypto) : Stable (RejF w) (sendDHCommit K) := by
  unfold sendDHCommit modAke
  rstable [dhCommitMessage_rej, wrapMessageHeader_rej]

/-- a query message changes — whatever the outcome — only what the frame leaves free (it may commit the version
    and restart the AKE) -/
theorem receiveQueryMessage_rej (K : Crypto) (msg : Bytes) : Stable (RejF w) (receiveQueryMessage K msg) := by
  unfold receiveQueryMessage msgEventErr
  rstable [commitToVersionFrom_rej, sendDHCommit_rej]

/-- a whitespace-tagged plaintext: as a query message, and the plaintext is delivered (`wsState` may move from
    `sent` to `rejected`) -/
theorem receiveTaggedPlaintext_rej (K : Crypto) (msg : Bytes) :
    Stable (RejF false) (receiveTaggedPlaintext K msg) := by
  unfold receiveTaggedPlaintext msgEventErr
  rstable [commitToVersionFrom_rej, sendDHCommit_rej, checkPlaintextPolicies_rej]

/-! ## 2. which errors a computation throws; frames for throwing runs -/

/-- the error of `generateEncryptedSignature` when the conversation has no long-term key to sign with -/
def noKeyErr : Err := .other "no private key to sign the key exchange with"

/-- errors that report a failure of the environment — the randomness source ran dry, the signing oracle failed
    (both `errShortRandomRead`), no long-term key is configured (`no private key to sign …` in the key exchange,
    `no possible key for current version` when a version is chosen) — and not a verdict on the message received -/
def EnvFail (e : Err) : Prop := e = .shortRandom ∨ e = noKeyErr ∨ e = .noKeyForVersion

instance (e : Err) : Decidable (EnvFail e) := by unfold EnvFail; infer_instance

/-- `x` throws only errors satisfying `P` -/
def ThrowsOnly {α} (P : Err → Prop) (x : M α) : Prop := ∀ s e s', runM x s = .ok (.error e, s') → P e

/-- every run of `x` that throws an error satisfying `G` relates the start state to the final state by `R` -/
def StableOn {α} (G : Err → Prop) (R : MState → MState → Prop) (x : M α) : Prop :=
  ∀ s e s', runM x s = .ok (.error e, s') → G e → R s s'

/-- every value `x` returns satisfies `Q` -/
def ResultOnly {α} (Q : α → Prop) (x : M α) : Prop := ∀ s a s', runM x s = .ok (.ok a, s') → Q a

section ThrowsLemmas
variable {P : Err → Prop} {α β : Type}

theorem ThrowsOnly.pure (a : α) : ThrowsOnly P (pure a : M α) := by
  intro s e s' h; simp only [runM_pure, Res.ok.injEq, Prod.mk.injEq, reduceCtorEq, false_and] at h

theorem ThrowsOnly.throw {e : Err} (he : P e) : ThrowsOnly P (throw e : M α) := by
  intro s e' s' h
  simp only [runM_throw, Res.ok.injEq, Prod.mk.injEq, Except.error.injEq] at h
  rw [← h.1]; exact he

theorem ThrowsOnly.goPanic (site : String) : ThrowsOnly P (goPanic site : M α) := by
  intro s e s' h; simp only [runM_goPanic] at h; cases h

theorem ThrowsOnly.getc : ThrowsOnly P getc := by
  intro s e s' h; simp only [runM_getc, Res.ok.injEq, Prod.mk.injEq, reduceCtorEq, false_and] at h

theorem ThrowsOnly.get : ThrowsOnly P (get : M MState) := by
  intro s e s' h; simp only [runM_get, Res.ok.injEq, Prod.mk.injEq, reduceCtorEq, false_and] at h

theorem ThrowsOnly.now : ThrowsOnly P now := by
  intro s e s' h; simp only [runM_now, Res.ok.injEq, Prod.mk.injEq, reduceCtorEq, false_and] at h

theorem ThrowsOnly.modify (f : MState → MState) : ThrowsOnly P (modify f : M PUnit) := by
  intro s e s' h; simp only [runM_modify, Res.ok.injEq, Prod.mk.injEq, reduceCtorEq, false_and] at h

theorem ThrowsOnly.modc (f : Conv → Conv) : ThrowsOnly P (modc f) := ThrowsOnly.modify _
theorem ThrowsOnly.ev (e : String) : ThrowsOnly P (ev e) := ThrowsOnly.modify _
theorem ThrowsOnly.mism (e : String) : ThrowsOnly P (mism e) := ThrowsOnly.modify _

theorem ThrowsOnly.bind {x : M α} {f : α → M β} (hx : ThrowsOnly P x) (hf : ∀ a, ThrowsOnly P (f a)) :
    ThrowsOnly P (x >>= f) := by
  intro s e s' h
  rw [runM_bind] at h
  rcases rf_bindM_error_inv h with h1 | ⟨a, s1, -, h2⟩
  · exact hx _ _ _ h1
  · exact hf a _ _ _ h2

theorem ThrowsOnly.map {x : M α} (g : α → β) (hx : ThrowsOnly P x) : ThrowsOnly P (g <$> x) := by
  intro s e s' h
  rw [runM_map] at h
  rcases rf_bindM_error_inv h with h1 | ⟨a, s1, -, h2⟩
  · exact hx _ _ _ h1
  · simp only [Res.ok.injEq, Prod.mk.injEq, reduceCtorEq, false_and] at h2

theorem ThrowsOnly.tryCatch {x : M α} {h : Err → M α} (hh : ∀ e, ThrowsOnly P (h e)) :
    ThrowsOnly P (tryCatch x h) := by
  intro s e s' hr
  rw [runM_tryCatch] at hr
  cases hx : runM x s with
  | panic p => rw [hx] at hr; cases hr
  | ok v =>
    obtain ⟨v, s1⟩ := v
    rw [hx] at hr
    cases v with
    | ok a => simp only [catchM_ok, Res.ok.injEq, Prod.mk.injEq, reduceCtorEq, false_and] at hr
    | error e1 =>
      simp only [catchM_error] at hr
      exact hh e1 _ _ _ hr

theorem throwsOnly_tryCatch' {x : M α} {h : Err → M α} (hx : ThrowsOnly P x) (hh : ∀ e, P e → ThrowsOnly P (h e)) :
    ThrowsOnly P (tryCatch x h) := by
  intro s e s' hr
  rw [runM_tryCatch] at hr
  cases hx' : runM x s with
  | panic p => rw [hx'] at hr; cases hr
  | ok v =>
    obtain ⟨v, s1⟩ := v
    rw [hx'] at hr
    cases v with
    | ok a => simp only [catchM_ok, Res.ok.injEq, Prod.mk.injEq, reduceCtorEq, false_and] at hr
    | error e1 =>
      simp only [catchM_error] at hr
      exact hh e1 (hx _ _ _ hx') _ _ _ hr

theorem ThrowsOnly.ite {c : Prop} [Decidable c] {x y : M α} (hx : ThrowsOnly P x) (hy : ThrowsOnly P y) :
    ThrowsOnly P (if c then x else y) := by
  split <;> assumption

theorem ThrowsOnly.mono {Q : Err → Prop} {x : M α} (hx : ThrowsOnly P x) (h : ∀ e, P e → Q e) : ThrowsOnly Q x :=
  fun s e s' hr => h e (hx s e s' hr)

end ThrowsLemmas

/-- structural leaves and combinators of a `ThrowsOnly EnvFail x` goal -/
macro "throws_core" : tactic => `(tactic| first
  | exact ThrowsOnly.pure _ | exact ThrowsOnly.throw (Or.inl rfl) | exact ThrowsOnly.throw (Or.inr (Or.inl rfl))
  | exact ThrowsOnly.throw (Or.inr (Or.inr rfl))
  | exact ThrowsOnly.goPanic _
  | exact ThrowsOnly.getc | exact ThrowsOnly.get | exact ThrowsOnly.now
  | exact ThrowsOnly.modc _ | exact ThrowsOnly.mism _ | exact ThrowsOnly.ev _
  | with_reducible apply ThrowsOnly.bind | with_reducible apply ThrowsOnly.tryCatch
  | with_reducible apply ThrowsOnly.ite | with_reducible apply ThrowsOnly.map)

syntax "throws" "[" term,* "]" : tactic
macro_rules
  | `(tactic| throws [$ls,*]) => do
    let tacs ← ls.getElems.mapM fun l => `(tactic| with_reducible apply $l)
    `(tactic| repeat' (first | throws_core $[| $tacs:tactic]* | with_reducible intro _ | split | dsimp only))

section OnLemmas
variable {G B : Err → Prop} {R : MState → MState → Prop} {α β : Type}

theorem StableOn.of_stable {x : M α} (h : Stable R x) : StableOn G R x := fun s _ s' hr _ => h s _ s' hr

theorem StableOn.of_throws {x : M α} (h : ThrowsOnly B x) (hbg : ∀ e, B e → G e → False) : StableOn G R x :=
  fun s e s' hr hg => (hbg e (h s e s' hr) hg).elim

theorem StableOn.bind_stable [Frame R] {x : M α} {f : α → M β} (hx : Stable R x) (hf : ∀ a, StableOn G R (f a)) :
    StableOn G R (x >>= f) := by
  intro s e s' h hg
  rw [runM_bind] at h
  rcases rf_bindM_error_inv h with h1 | ⟨a, s1, h1, h2⟩
  · exact hx _ _ _ h1
  · exact Frame.trans (hx _ _ _ h1) (hf a _ _ _ h2 hg)

theorem StableOn.bind_throws {x : M α} {f : α → M β} (hx : StableOn G R x) (hf : ∀ a, ThrowsOnly B (f a))
    (hbg : ∀ e, B e → G e → False) : StableOn G R (x >>= f) := by
  intro s e s' h hg
  rw [runM_bind] at h
  rcases rf_bindM_error_inv h with h1 | ⟨a, s1, -, h2⟩
  · exact hx _ _ _ h1 hg
  · exact (hbg e (hf a _ _ _ h2) hg).elim

theorem ResultOnly.pure {Q : α → Prop} {a : α} (h : Q a) : ResultOnly Q (pure a : M α) := by
  intro s b s' hr
  simp only [runM_pure, Res.ok.injEq, Prod.mk.injEq, Except.ok.injEq] at hr
  rw [← hr.1]; exact h

theorem ResultOnly.bind {Q : β → Prop} {x : M α} {f : α → M β} (hf : ∀ a, ResultOnly Q (f a)) :
    ResultOnly Q (x >>= f) := by
  intro s b s' h
  rw [runM_bind] at h
  obtain ⟨a, s1, -, h2⟩ := rf_bindM_ok_inv h
  exact hf a _ _ _ h2

theorem ResultOnly.bind' {P : α → Prop} {Q : β → Prop} {x : M α} {f : α → M β} (hx : ResultOnly P x)
    (hf : ∀ a, P a → ResultOnly Q (f a)) : ResultOnly Q (x >>= f) := by
  intro s b s' h
  rw [runM_bind] at h
  obtain ⟨a, s1, h1, h2⟩ := rf_bindM_ok_inv h
  exact hf a (hx _ _ _ h1) _ _ _ h2

end OnLemmas

/-! ### what the AKE steps throw -/

theorem randRead_throws {P : Err → Prop} (n : Nat) : ThrowsOnly P (randRead n) := by
  intro s e s' h
  obtain ⟨r, env', mm', hr, -, -⟩ := randRead_run n s
  rw [hr] at h
  simp only [Res.ok.injEq, Prod.mk.injEq, reduceCtorEq, false_and] at h

theorem randomInto_throws (n : Nat) : ThrowsOnly EnvFail (randomInto n) := by
  unfold randomInto
  throws [randRead_throws]

theorem signOracle_throws {P : Err → Prop} (mb : Bytes) : ThrowsOnly P (signOracle mb) := by
  intro s e s' h
  obtain ⟨r, env', mm', hr⟩ := rf_signOracle_run mb s
  rw [hr] at h
  simp only [Res.ok.injEq, Prod.mk.injEq, reduceCtorEq, false_and] at h

theorem generateInstanceTag_throws : ThrowsOnly EnvFail generateInstanceTag := by
  intro s e s' h
  by_cases h0 : s.conv.ourTag = 0
  · obtain ⟨env', mm', -, hh⟩ := generateInstanceTag_run s h0
    rcases hh with ⟨v, -, -, hh⟩ | hh
    · rw [hh] at h
      simp only [Res.ok.injEq, Prod.mk.injEq, reduceCtorEq, false_and] at h
    · rw [hh] at h
      simp only [Res.ok.injEq, Prod.mk.injEq, Except.error.injEq] at h
      rw [← h.1]; exact Or.inl rfl
  · rw [generateInstanceTag_noop s h0] at h
    simp only [Res.ok.injEq, Prod.mk.injEq, reduceCtorEq, false_and] at h

theorem messageHeader_throws (t : Nat) : ThrowsOnly EnvFail (messageHeader t) := by
  unfold messageHeader
  throws [generateInstanceTag_throws]

theorem wrapMessageHeader_throws (t : Nat) (m : Bytes) : ThrowsOnly EnvFail (wrapMessageHeader t m) := by
  unfold wrapMessageHeader
  throws [messageHeader_throws]

theorem getAke_throws {P : Err → Prop} : ThrowsOnly P getAke := by
  unfold getAke
  throws []

theorem optNat_throws {P : Err → Prop} (site : String) (v : Option Nat) : ThrowsOnly P (optNat site v) := by
  unfold optNat
  throws []

theorem akeEncrypt_throws {P : Err → Prop} (K : Crypto) (key data : Bytes) : ThrowsOnly P (akeEncrypt K key data) := by
  unfold akeEncrypt
  throws []

theorem resToM_throws {P : Err → Prop} {α} (r : Res α) : ThrowsOnly P (resToM r) := by
  unfold resToM
  throws []

theorem generateEncryptedSignature_throws (K : Crypto) (key : AkeKeys) :
    ThrowsOnly EnvFail (generateEncryptedSignature K key) := by
  unfold generateEncryptedSignature
  refine ThrowsOnly.bind ThrowsOnly.getc fun c => ?_
  dsimp only
  have hjp : ∀ pk : DsaPub, ThrowsOnly EnvFail (do
      let a ← getAke
      let ours ← optNat "generateEncryptedSignature: nil ourPublicValue" a.ourPublicValue
      let theirs ← optNat "generateEncryptedSignature: nil theirPublicValue" a.theirPublicValue
      let r ← signOracle (K.mac2 key.m1 (appendAll ours theirs pk a.keys.ourKeyID))
      match r with
        | none => throw Err.shortRandom
        | some sigb => do
          let enc ← akeEncrypt K key.c (appendWord pk.serialize a.keys.ourKeyID ++ sigb)
          pure (appendData [] enc)) := by
    intro pk
    refine ThrowsOnly.bind getAke_throws fun a => ?_
    refine ThrowsOnly.bind (optNat_throws _ _) fun ours => ?_
    refine ThrowsOnly.bind (optNat_throws _ _) fun theirs => ?_
    refine ThrowsOnly.bind (signOracle_throws _) fun r => ?_
    cases r with
    | none => exact ThrowsOnly.throw (Or.inl rfl)
    | some sigb => exact ThrowsOnly.bind (akeEncrypt_throws _ _ _) fun enc => ThrowsOnly.pure _
  split
  · exact ThrowsOnly.bind (ThrowsOnly.pure _) hjp
  · exact ThrowsOnly.bind (ThrowsOnly.throw (Or.inr (Or.inl rfl))) hjp

theorem sigMessage_throws (K : Crypto) : ThrowsOnly EnvFail (sigMessage K) := by
  unfold sigMessage modAke
  throws [getAke_throws, generateEncryptedSignature_throws, resToM_throws]

theorem akeSetTheirCurrent_throws {P : Err → Prop} : ThrowsOnly P akeSetTheirCurrent := by
  unfold akeSetTheirCurrent modAke
  throws [getAke_throws, optNat_throws]

theorem akeSetOurCurrent_throws {P : Err → Prop} : ThrowsOnly P akeSetOurCurrent := by
  unfold akeSetOurCurrent modAke
  throws [getAke_throws, optNat_throws]

theorem akeHasFinished_throws {P : Err → Prop} (K : Crypto) : ThrowsOnly P (akeHasFinished K) :=
  fun s e s' h => (rf_akeHasFinished_no_throw K s s' e h).elim

/-- the error `akeHasFinished` returns (that of `generateNewDHKeyPair`) is a randomness failure -/
theorem akeHasFinished_result (K : Crypto) :
    ResultOnly (fun e : Option Err => ∀ x, e = some x → EnvFail x) (akeHasFinished K) := by
  intro s r s' h x hx
  subst hx
  cases ha : s.conv.ake with
  | none => rw [akeHasFinished_none K s ha] at h; cases h
  | some a =>
    obtain ⟨r0, env', mm', -, h'⟩ := akeHasFinished_run K s a ha
    rw [h'] at h
    simp only [Res.ok.injEq, Prod.mk.injEq, Except.ok.injEq] at h
    cases r0 with
    | none =>
      have h1 := h.1
      simp only [Keys.generateNewDHKeyPair, Option.some.injEq] at h1
      exact Or.inl h1.symm
    | some b =>
      have h1 := h.1
      simp only [Keys.generateNewDHKeyPair, reduceCtorEq] at h1

/-! ## 3. key-exchange (AKE) messages -/

theorem calcAKEKeys_rej (K : Crypto) : Stable (RejF w) (calcAKEKeys K) := by
  unfold calcAKEKeys modAke
  rstable [getAke_rej, optNat_rej]
  all_goals exact Stable.modc _ (fun s => by
    show RejFrame w s.conv _
    dsimp only
    split
    · rename_i hne
      exact RejFrame.mk' rfl (fun _ => rfl) (fun _ => rfl) (fun _ => rfl) (fun _ => rfl)
        (fun he => by simp [he] at hne) (Or.inl rfl) (fun _ => rfl)
    · exact RejFrame.refl _)

theorem generateEncryptedSignature_rej (K : Crypto) (key : AkeKeys) :
    Stable (RejF w) (generateEncryptedSignature K key) := by
  unfold generateEncryptedSignature
  refine Stable.bind Stable.getc fun c => ?_
  dsimp only
  have hjp : ∀ pk : DsaPub, Stable (RejF w) (do
      let a ← getAke
      let ours ← optNat "generateEncryptedSignature: nil ourPublicValue" a.ourPublicValue
      let theirs ← optNat "generateEncryptedSignature: nil theirPublicValue" a.theirPublicValue
      let r ← signOracle (K.mac2 key.m1 (appendAll ours theirs pk a.keys.ourKeyID))
      match r with
        | none => throw Err.shortRandom
        | some sigb => do
          let enc ← akeEncrypt K key.c (appendWord pk.serialize a.keys.ourKeyID ++ sigb)
          pure (appendData [] enc)) := by
    intro pk
    refine Stable.bind getAke_rej fun a => ?_
    refine Stable.bind (optNat_rej _ _) fun ours => ?_
    refine Stable.bind (optNat_rej _ _) fun theirs => ?_
    refine Stable.bind (signOracle_rej _) fun r => ?_
    cases r with
    | none => exact Stable.throw _
    | some sigb => exact Stable.bind (akeEncrypt_rej _ _ _) fun enc => Stable.pure _
  split
  · exact Stable.bind (Stable.pure _) hjp
  · exact Stable.bind (Stable.throw _) hjp

theorem revealSigMessage_rej (K : Crypto) : Stable (RejF w) (revealSigMessage K) := by
  unfold revealSigMessage modAke
  rstable [calcAKEKeys_rej, getAke_rej, generateEncryptedSignature_rej, resToM_rej]

theorem akeSetTheirCurrent_rej : Stable (RejF w) akeSetTheirCurrent := by
  unfold akeSetTheirCurrent modAke
  rstable [getAke_rej, optNat_rej]

theorem akeSetOurCurrent_rej : Stable (RejF w) akeSetOurCurrent := by
  unfold akeSetOurCurrent modAke
  rstable [getAke_rej, optNat_rej]

theorem dhKeyMessage_rej (K : Crypto) : Stable (RejF w) (dhKeyMessage K) := by
  unfold dhKeyMessage initAKE setSecretExponent modAke
  rstable [randomInto_rej, serializeDHKey_rej]

theorem processDHCommit_rej (msg : Bytes) : Stable (RejF w) (processDHCommit msg) := by
  unfold processDHCommit modAke
  rstable []

theorem processDHKey_rej (msg : Bytes) : Stable (RejF w) (processDHKey msg) := by
  unfold processDHKey modAke
  rstable [getAke_rej]

theorem recvDHCommitNone_rej (K : Crypto) (msg : Bytes) : Stable (RejF w) (recvDHCommitNone K msg) := by
  unfold recvDHCommitNone akeTry modAke
  rstable [dhKeyMessage_rej, wrapMessageHeader_rej, processDHCommit_rej]

/-- a DH-Commit message — accepted or not — touches only the AKE context (and draws our instance tag) -/
theorem recvDHCommit_rej (K : Crypto) (st : AuthState) (msg : Bytes) : Stable (RejF w) (recvDHCommit K st msg) := by
  unfold recvDHCommit akeTry modAke
  rstable [recvDHCommitNone_rej, wrapMessageHeader_rej, processDHCommit_rej, serializeDHKey_rej,
    serializeDHCommit_rej, getAke_rej, optNat_rej]

theorem StableOn.tryCatch {G : Err → Prop} {R : MState → MState → Prop} [Frame R] {α : Type} {x : M α} {h : Err → M α}
    (hx : StableOn (fun _ => True) R x) (hh : ∀ e, Stable R (h e)) : StableOn G R (tryCatch x h) := by
  intro s e s' hr _
  rw [runM_tryCatch] at hr
  cases hx' : runM x s with
  | panic p => rw [hx'] at hr; cases hr
  | ok v =>
    obtain ⟨v, s1⟩ := v
    rw [hx'] at hr
    cases v with
    | ok a => simp only [catchM_ok, Res.ok.injEq, Prod.mk.injEq, reduceCtorEq, false_and] at hr
    | error e1 =>
      simp only [catchM_error] at hr
      exact Frame.trans (hx s e1 s1 hx' trivial) (hh e1 s1 _ s' hr)

theorem StableOn.ite {G : Err → Prop} {R : MState → MState → Prop} {α : Type} {c : Prop} [Decidable c] {x y : M α}
    (hx : StableOn G R x) (hy : StableOn G R y) : StableOn G R (if c then x else y) := by
  split <;> assumption

/-- decompose a `StableOn G (RejF w) x` goal: a prefix of steps that respect the frame whatever they do, followed
    by steps that never throw; `Stable` side goals are decomposed on the way -/
syntax "rston" "[" term,* "]" : tactic
macro_rules
  | `(tactic| rston [$ls,*]) => do
    let tacs ← ls.getElems.mapM fun l => `(tactic| with_reducible apply $l)
    `(tactic| repeat' (first
      | with_reducible exact StableOn.of_stable (Stable.throw _)
      | with_reducible exact StableOn.of_stable (Stable.pure _)
      | with_reducible exact StableOn.of_stable (Stable.goPanic _)
      | (with_reducible refine StableOn.of_throws (B := fun _ => False) ?_ (fun _ hb _ => hb); throws []; done)
      | with_reducible rstable_core
      $[| $tacs:tactic]*
      | with_reducible apply StableOn.ite
      | with_reducible apply StableOn.tryCatch
      | with_reducible apply StableOn.bind_stable
      | with_reducible intro _ | split | dsimp only))

/-- a throw of `processEncryptedSig` leaves no trace: every check comes before the first assignment -/
theorem processEncryptedSig_on {G : Err → Prop} (K : Crypto) (encSig theirMAC : Bytes) (keys : AkeKeys) :
    StableOn G (RejF w) (processEncryptedSig K encSig theirMAC keys) := by
  intro s e s' hr _
  have hw : wp (processEncryptedSig K encSig theirMAC keys) (fun r s' => (∃ e, r = .error e) → RejF w s s') AnyP s := by
    unfold processEncryptedSig modAke getAke optNat
    wpr
    all_goals first
      | exact fun _ => Frame.refl s
      | (rintro ⟨e, he⟩; cases he)
      | trivial
  exact wp_of_run _ _ _ _ _ _ hw hr ⟨e, rfl⟩

/-- a throw of `processRevealSig` changes only the AKE context and the session id of a conversation that is not
    encrypted -/
theorem processRevealSig_on {G : Err → Prop} (K : Crypto) (msg : Bytes) :
    StableOn G (RejF w) (processRevealSig K msg) := by
  unfold processRevealSig modAke
  rston [getAke_rej, calcAKEKeys_rej, processEncryptedSig_on]

theorem processSig_on {G : Err → Prop} (K : Crypto) (msg : Bytes) : StableOn G (RejF w) (processSig K msg) := by
  unfold processSig
  rston [getAke_rej, processEncryptedSig_on]

/-- `x` (a step of the authentication state machine): whenever it reports an error that is not a failure of
    the environment, the frame holds -/
def RecvRej (w : Bool) (x : M (AuthState × Option Bytes × Option Err)) : Prop :=
  ∀ s st' m e s', runM x s = .ok (.ok (st', m, some e), s') → ¬ EnvFail e → RejF w s s'

theorem RecvRej.of_stable {x : M (AuthState × Option Bytes × Option Err)} (h : Stable (RejF w) x) : RecvRej w x :=
  fun s _ _ _ s' hr _ => h s _ s' hr

theorem RecvRej.pure_none (st : AuthState) (m : Option Bytes) :
    RecvRej w (pure (st, m, none) : M (AuthState × Option Bytes × Option Err)) := by
  intro s st' m' e s' h _
  simp only [runM_pure, Res.ok.injEq, Prod.mk.injEq, Except.ok.injEq, reduceCtorEq, and_false, false_and] at h

theorem RecvRej.akeTry {onErr : AuthState} {x : M (AuthState × Option Bytes × Option Err)}
    (hon : StableOn (fun e => ¬ EnvFail e) (RejF w) x)
    (hres : ResultOnly (fun u : AuthState × Option Bytes × Option Err => ∀ e, u.2.2 = some e → EnvFail e) x) :
    RecvRej w (akeTry onErr x) := by
  intro s st' m e s' h hg
  rcases rf_akeTry_cases h with ⟨u, hr, hx⟩ | ⟨er, hr, hx⟩
  · simp only [Except.ok.injEq] at hr
    subst hr
    exact absurd (hres _ _ _ hx e rfl) hg
  · simp only [Except.ok.injEq, Prod.mk.injEq, Option.some.injEq] at hr
    rw [hr.2.2] at hg
    exact hon _ _ _ hx hg

theorem recvDHKey_rej (K : Crypto) (st : AuthState) (msg : Bytes) : RecvRej w (recvDHKey K st msg) := by
  unfold recvDHKey
  split
  · exact RecvRej.pure_none _ _
  · exact RecvRej.pure_none _ _
  · refine RecvRej.akeTry ?_ ?_
    · refine StableOn.bind_stable (processDHKey_rej msg) fun _ => ?_
      refine StableOn.bind_stable (revealSigMessage_rej K) fun _ => ?_
      refine StableOn.bind_stable (wrapMessageHeader_rej _ _) fun _ => ?_
      refine StableOn.bind_stable akeSetTheirCurrent_rej fun _ => ?_
      refine StableOn.bind_stable akeSetOurCurrent_rej fun _ => ?_
      refine StableOn.of_throws (B := fun _ => False) ?_ (fun _ hb _ => hb)
      unfold modAke
      throws []
    · refine ResultOnly.bind fun _ => ?_
      refine ResultOnly.bind fun _ => ?_
      refine ResultOnly.bind fun _ => ?_
      refine ResultOnly.bind fun _ => ?_
      refine ResultOnly.bind fun _ => ?_
      refine ResultOnly.bind fun _ => ?_
      refine ResultOnly.bind fun _ => ?_
      exact ResultOnly.pure (fun e he => by cases he)
  · refine RecvRej.akeTry ?_ ?_
    · refine StableOn.of_stable ?_
      rstable [processDHKey_rej]
    · refine ResultOnly.bind fun same => ?_
      split <;> exact ResultOnly.pure (fun e he => by cases he)

theorem recvRevealSig_rej (K : Crypto) (st : AuthState) (msg : Bytes) : RecvRej w (recvRevealSig K st msg) := by
  unfold recvRevealSig
  split
  · refine RecvRej.akeTry ?_ ?_
    · refine StableOn.bind_stable Stable.getc fun c => ?_
      refine StableOn.bind_throws (B := EnvFail) (processRevealSig_on K msg) (fun _ => ?_) (fun e hb hg => hg hb)
      refine ThrowsOnly.bind ?_ fun _ => ?_
      · refine throwsOnly_tryCatch' ?_ (fun e he => ?_)
        · throws [sigMessage_throws, wrapMessageHeader_throws]
        · exact ThrowsOnly.bind (ThrowsOnly.modc _) fun _ => ThrowsOnly.throw he
      · unfold modAke
        throws [akeSetTheirCurrent_throws, akeSetOurCurrent_throws, akeHasFinished_throws]
    · refine ResultOnly.bind fun _ => ?_
      refine ResultOnly.bind fun _ => ?_
      refine ResultOnly.bind fun _ => ?_
      refine ResultOnly.bind fun _ => ?_
      refine ResultOnly.bind fun _ => ?_
      refine ResultOnly.bind fun _ => ?_
      refine ResultOnly.bind fun _ => ?_
      refine ResultOnly.bind' (akeHasFinished_result K) fun e he => ?_
      exact ResultOnly.pure (fun x hx => he x hx)
  · exact RecvRej.pure_none _ _

theorem recvSig_rej (K : Crypto) (st : AuthState) (msg : Bytes) : RecvRej w (recvSig K st msg) := by
  unfold recvSig
  split
  · refine RecvRej.akeTry ?_ ?_
    · refine StableOn.bind_throws (B := EnvFail) (processSig_on K msg) (fun _ => ?_) (fun e hb hg => hg hb)
      throws [akeSetTheirCurrent_throws, akeHasFinished_throws]
    · refine ResultOnly.bind fun _ => ?_
      refine ResultOnly.bind fun _ => ?_
      refine ResultOnly.bind' (akeHasFinished_result K) fun e he => ?_
      exact ResultOnly.pure (fun x hx => he x hx)
  · exact RecvRej.pure_none _ _


/-- the message-type dispatch of `processAKE` from the authentication state `st`, continued by `jp` -/
def rfAkeChain (K : Crypto) (msgType : Nat) (msg : Bytes) (st : AuthState)
    (jp : Option Bytes × List Bytes × Option Err → M (List Bytes × Option Err)) : M (List Bytes × Option Err) :=
  if msgType = msgTypeDHCommit then do
    let (s', m, e) ← recvDHCommit K st msg
    modAke fun a => { a with state := s' }
    let x ← pure (m, [], e)
    jp x
  else if msgType = msgTypeDHKey then do
    let (s', m, e) ← recvDHKey K st msg
    modAke fun a => { a with state := s' }
    let x ← pure (m, [], e)
    jp x
  else if msgType = msgTypeRevealSig then do
    let (s', m, e) ← recvRevealSig K st msg
    modAke fun a => { a with state := s' }
    let extra ← retransmitAfterCompletedExchange K st s' e
    let x ← pure (m, extra, e)
    jp x
  else if msgType = msgTypeSig then do
    let (s', m, e) ← recvSig K st msg
    modAke fun a => { a with state := s' }
    let extra ← retransmitAfterCompletedExchange K st s' e
    let x ← pure (m, extra, e)
    jp x
  else do
    let x ← pure (none, [], some (.other "unknown message type"))
    jp x

/-- the end of `processAKE`: the time stamp (repaired code: only for a message that was a step of an exchange)
    and the result -/
def rfAkeStamp (st : AuthState) : Option Bytes × List Bytes × Option Err → M (List Bytes × Option Err)
  | (single, extra, err) => do
    let s2 := (← getAke).state
    if err.isNone && (s2.toNat != st.toNat || (match single with | some m => !m.isEmpty | none => false)) then do
      let t ← now
      modAke fun a => { a with lastStateChange := some t }
    let msgs := (match single with | some m => [m] | none => []) ++ extra
    return (msgs, err)

/-- `processAKE` = ensure the AKE context, read the authentication state, dispatch, stamp -/
theorem rf_processAKE_run (K : Crypto) (t : Nat) (msg : Bytes) (s : MState) :
    runM (processAKE K t msg) s =
      runM (do let a ← getAke; rfAkeChain K t msg a.state (rfAkeStamp a.state))
        (if s.conv.ake.isNone then { s with conv := { s.conv with ake := some {} } } else s) := by
  unfold processAKE
  rw [runM_bind, runM_getc, bindM_ok]
  dsimp only
  split
  · rw [runM_bind]
    simp only [initAKE, runM_modc, bindM_ok]
    rfl
  · rfl

theorem rfAkeStamp_rej (st : AuthState) (x : Option Bytes × List Bytes × Option Err) :
    Stable (RejF w) (rfAkeStamp st x) := by
  obtain ⟨single, extra, err⟩ := x
  unfold rfAkeStamp modAke
  rstable [getAke_rej]

theorem rfAkeStamp_err (st : AuthState) (x : Option Bytes × List Bytes × Option Err) :
    ResultOnly (fun r : List Bytes × Option Err => r.2 = x.2.2) (rfAkeStamp st x) := by
  intro s r s' h
  obtain ⟨single, extra, err⟩ := x
  have hw : wp (rfAkeStamp st (single, extra, err)) (fun r _ => ∀ a, r = .ok a → a.2 = err) AnyP s := by
    unfold rfAkeStamp getAke modAke
    wpr
    all_goals first
      | (intro a ha; cases ha; rfl)
      | trivial
  exact wp_of_run _ _ _ _ _ _ hw h r rfl

theorem retransmit_skip_rej (K : Crypto) (st st' : AuthState) (e : Err) :
    Stable (RejF w) (retransmitAfterCompletedExchange K st st' (some e)) := by
  rw [retransmitAfterCompletedExchange_skip K st st' (some e) (Or.inr (Or.inr (by simp)))]
  exact Stable.pure _

section Chain
variable (K : Crypto) (st : AuthState) (jp : Option Bytes × List Bytes × Option Err → M (List Bytes × Option Err))
  (hst : ∀ x, Stable (RejF w) (jp x))
  (herr : ∀ x, ResultOnly (fun r : List Bytes × Option Err => r.2 = x.2.2) (jp x))
include hst herr

/-- a branch of the dispatch without the retransmission step -/
theorem chain_plain {x : M (AuthState × Option Bytes × Option Err)} (hx : RecvRej w x)
    (s s' : MState) (msgs : List Bytes) (e : Err)
    (h : runM (do
      let (s', m, e) ← x
      modAke fun a => { a with state := s' }
      let y ← pure (m, [], e)
      jp y) s = .ok (.ok (msgs, some e), s')) (hg : ¬ EnvFail e) : RejF w s s' := by
  rw [runM_bind] at h
  obtain ⟨u, s1, hu, h⟩ := rf_bindM_ok_inv h
  obtain ⟨st', m', e'⟩ := u
  have he : some e = e' := by
    refine (?_ : ResultOnly (fun r : List Bytes × Option Err => r.2 = e') _) _ _ _ h
    refine ResultOnly.bind fun _ => ?_
    refine ResultOnly.bind' (P := fun y => y = (m', [], e')) (ResultOnly.pure rfl) (fun y hy => ?_)
    subst hy
    exact herr _
  subst he
  have h2 : RejF w s1 s' := by
    refine (?_ : Stable (RejF w) _) _ _ _ h
    unfold modAke
    rstable [hst]
  exact Frame.trans (hx s st' m' e s1 hu hg) h2

/-- a branch of the dispatch with the retransmission step (skipped when an error is reported) -/
theorem chain_retx {x : M (AuthState × Option Bytes × Option Err)} (hx : RecvRej w x)
    (s s' : MState) (msgs : List Bytes) (e : Err)
    (h : runM (do
      let (s', m, e) ← x
      modAke fun a => { a with state := s' }
      let extra ← retransmitAfterCompletedExchange K st s' e
      let y ← pure (m, extra, e)
      jp y) s = .ok (.ok (msgs, some e), s')) (hg : ¬ EnvFail e) : RejF w s s' := by
  rw [runM_bind] at h
  obtain ⟨u, s1, hu, h⟩ := rf_bindM_ok_inv h
  obtain ⟨st', m', e'⟩ := u
  have he : some e = e' := by
    refine (?_ : ResultOnly (fun r : List Bytes × Option Err => r.2 = e') _) _ _ _ h
    refine ResultOnly.bind fun _ => ?_
    refine ResultOnly.bind fun extra => ?_
    refine ResultOnly.bind' (P := fun y => y = (m', extra, e')) (ResultOnly.pure rfl) (fun y hy => ?_)
    subst hy
    exact herr _
  subst he
  have h2 : RejF w s1 s' := by
    refine (?_ : Stable (RejF w) _) _ _ _ h
    unfold modAke
    rstable [hst, retransmit_skip_rej]
  exact Frame.trans (hx s st' m' e s1 hu hg) h2

theorem rfAkeChain_rej (t : Nat) (msg : Bytes) (s s' : MState) (msgs : List Bytes) (e : Err)
    (h : runM (rfAkeChain K t msg st jp) s = .ok (.ok (msgs, some e), s')) (hg : ¬ EnvFail e) : RejF w s s' := by
  unfold rfAkeChain at h
  split at h
  · exact chain_plain jp hst herr (RecvRej.of_stable (recvDHCommit_rej K st msg)) s s' msgs e h hg
  · split at h
    · exact chain_plain jp hst herr (recvDHKey_rej K st msg) s s' msgs e h hg
    · split at h
      · exact chain_retx K st jp hst herr (recvRevealSig_rej K st msg) s s' msgs e h hg
      · split at h
        · exact chain_retx K st jp hst herr (recvSig_rej K st msg) s s' msgs e h hg
        · have hs : Stable (RejF w) (do
              let x ← pure (none, [], some (Err.other "unknown message type"))
              jp x) := by
            rstable [hst]
          exact hs _ _ _ h

end Chain

/-- **AKE messages.**  Whenever `processAKE` reports an error that is not a failure of the environment, the
    frame holds: only the AKE context, our own instance tag (drawn when the first v3 header is written) and the
    session id of a conversation that is *not* encrypted may have changed. -/
theorem processAKE_rej (K : Crypto) (t : Nat) (msg : Bytes) (s s' : MState) (msgs : List Bytes) (e : Err)
    (h : runM (processAKE K t msg) s = .ok (.ok (msgs, some e), s')) (hg : ¬ EnvFail e) : RejF w s s' := by
  rw [rf_processAKE_run, runM_bind] at h
  obtain ⟨a, s1, h1, h⟩ := rf_bindM_ok_inv h
  have h0 : RejF w s (if s.conv.ake.isNone then { s with conv := { s.conv with ake := some {} } } else s) := by
    split
    · exact RejF.ofEq rfl
    · exact Frame.refl s
  exact Frame.trans h0 (Frame.trans (getAke_rej _ _ _ h1)
    (rfAkeChain_rej K a.state (rfAkeStamp a.state) (rfAkeStamp_rej a.state) (rfAkeStamp_err a.state) t msg s1 s' msgs e h hg))
/-! ## 4. data messages -/

theorem deserializeUnsigned_ctr_ne_zero (msg : Bytes) (m : DataMsg) (rest : Bytes)
    (h : deserializeUnsigned msg = some (m, rest)) : bytesToNat m.topHalfCtr ≠ 0 := by
  unfold deserializeUnsigned at h
  split at h
  · injection h
  · rename_i f in1
    split at h
    · injection h
    · rename_i skid in2 h1
      split at h
      · injection h
      · rename_i rkid in3 h2
        split at h
        · injection h
        · rename_i y in4 h3
          by_cases hl : in4.length < 8
          · simp only [hl, ↓reduceIte] at h; injection h
          · by_cases hz : bytesToNat (in4.take 8) = 0
            · simp only [hl, hz, ↓reduceIte] at h; injection h
            · cases h4 : extractData (in4.drop 8) with
              | none => simp only [hl, hz, h4, ↓reduceIte] at h; injection h
              | some er =>
                obtain ⟨enc, rest'⟩ := er
                simp only [hl, hz, h4, ↓reduceIte] at h
                injection h with h; injection h with hm hr
                subst hm
                exact hz

/-- a parsed data message carries a non-zero counter -/
theorem dataMsg_deserialize_ctr_ne_zero (msg : Bytes) (dm : DataMsg) (h : DataMsg.deserialize msg = some dm) :
    bytesToNat dm.topHalfCtr ≠ 0 := by
  obtain ⟨m0, tail, hu, -, -, hdm⟩ := dataMsg_deserialize_split msg dm h
  rw [hdm]
  exact deserializeUnsigned_ctr_ne_zero msg m0 _ hu

/-- a data message that fails one of the five guards: `processDataMessageRaw` rejects it, and of the conversation
    nothing the frame speaks about has changed (the state is the start state up to the `msg:7` event) -/
theorem raw_reject_rejAll (K : Crypto) (header msg : Bytes) (s : MState)
    (h : ¬ ∃ dm sk, Accepts K header msg s dm sk) :
    ∃ e t, run' (processDataMessageRaw K header msg) s = .ok (.ok (none, none, some e), t) ∧ t.conv = s.conv := by
  rw [raw_eq]
  by_cases h1 : s.conv.msgState ≠ .encrypted
  · rw [if_pos h1]
    exact ⟨_, _, rfl, rfl⟩
  · rw [if_neg h1]
    cases h2 : DataMsg.deserialize msg with
    | none => exact ⟨_, _, rfl, rfl⟩
    | some dm =>
      simp only []
      cases h3 : s.conv.keys.deriveSessionKeys K dm.recipientKeyID dm.senderKeyID with
      | error e => exact ⟨_, _, rfl, rfl⟩
      | ok sk =>
        simp only []
        by_cases h4 : K.mac1 sk.recvMAC (header ++ dm.unsignedRaw) ≠ dm.authenticator
        · simp only [if_pos h4]
          exact ⟨_, _, rfl, rfl⟩
        · simp only [if_neg h4]
          by_cases h5 : bytesToNat dm.topHalfCtr ≤
                (findCounter s.conv.keys.counters dm.recipientKeyID dm.senderKeyID).1.theirCounter
          · rw [if_pos h5]
            refine ⟨_, _, rfl, ?_⟩
            rw [replayState_eq_self_of_regressed s dm (dataMsg_deserialize_ctr_ne_zero msg dm h2) h5]
          · exfalso
            exact h ⟨dm, sk, by simpa using h1, h2, h3, by simpa using h4, by omega⟩

theorem rejAll_notifyState (e : Err) (t : MState) : rejAll (notifyState e t).conv = rejAll t.conv := by
  unfold notifyState withErrorReply
  split
  · rfl
  · split
    · dsimp only; split <;> rfl
    · dsimp only; split <;> rfl

/-- **Data messages.**  A data message that does not pass the five guards of `processDataMessageRaw` (encrypted
    session, well-formed, key ids in the window, MAC, fresh counter) changes nothing the frame speaks about —
    whether the error is reported or suppressed by IGNORE_UNREADABLE. -/
theorem receiveDataMessage_rej (K : Crypto) (header body : Bytes) (s s' : MState)
    (r : Except Err (Option Bytes × List Bytes × Option Err))
    (hna : ¬ ∃ dm sk, Accepts K header body s dm sk)
    (h : runM (receiveDataMessage K header body) s = .ok (r, s')) : RejF w s s' := by
  obtain ⟨e, t, hr, hc⟩ := raw_reject_rejAll K header body s hna
  have h' : run' (receiveDataMessage K header body) s = .ok (r, s') := h
  rw [recvData_of_raw_reject K header body s t e hr] at h'
  split at h'
  · simp only [Res.ok.injEq, Prod.mk.injEq] at h'
    rw [← h'.2]
    exact RejF.ofEq (by rw [hc])
  · simp only [Res.ok.injEq, Prod.mk.injEq] at h'
    rw [← h'.2]
    exact RejF.ofEq (by rw [rejAll_notifyState, hc])

/-! ## 5. `receiveDecoded`, `receiveUnit`, `receive` -/

/-- **no authentic data message**: under the message state and the key context of `c`, no header and body pass
    the five guards of `processDataMessageRaw` (`Accepts`: encrypted session, well-formed message, key ids in
    the window, MAC equal to the authenticator under the receiving MAC key, fresh counter).  It holds in
    particular for every conversation that is not encrypted (`noAuthentic_of_not_encrypted`). -/
def NoAuthentic (K : Crypto) (c : Conv) : Prop :=
  ∀ (header body : Bytes) (s1 : MState) (dm : DataMsg) (sk : SessionKeys),
    s1.conv.msgState = c.msgState → s1.conv.keys = c.keys → ¬ Accepts K header body s1 dm sk

theorem noAuthentic_of_not_encrypted (K : Crypto) (c : Conv) (h : c.msgState ≠ .encrypted) : NoAuthentic K c := by
  intro header body s1 dm sk hm _ hA
  exact h (hm ▸ hA.1)

theorem NoAuthentic.of_rej {K : Crypto} {c c' : Conv} (h : NoAuthentic K c) (hf : RejFrame w c c') :
    NoAuthentic K c' := by
  intro header body s1 dm sk hm hk
  exact h header body s1 dm sk (hm.trans hf.msgState) (hk.trans hf.keys)


theorem RejFrame.weaken {c c' : Conv} (h : RejFrame true c c') : RejFrame w c c' :=
  ⟨h.msgState, h.keys, h.theirKey, h.smp, h.resendMsgs, h.mayRetransmit, h.retransmitting, h.ourKeys, h.policies,
    h.fragmentSize, h.friendlyQuery, h.errHandler, h.heartbeatLastSent, h.lastMessageStateChange, h.sentRevealSig,
    h.version, h.ourCurrentKey, h.theirTag, h.ourTag, h.ssid, h.fragCtx, fun _ => h.wsState rfl⟩

theorem RejF.weaken {s s' : MState} (h : RejF true s s') : RejF w s s' := RejFrame.weaken h

/-- forgetting the fragments -/
theorem RejF.forget (s : MState) : RejF w s { s with conv := { s.conv with fragCtx := FragCtx.empty } } :=
  RejFrame.mk' rfl (fun _ => rfl) (fun _ => rfl) (fun _ => rfl) (fun _ => rfl) (fun _ => rfl) (Or.inr rfl) (fun _ => rfl)

/-- putting `theirTag` back to its value at the start -/
theorem RejF.resetTheirTag {s s1 : MState} (h : RejF w s s1) :
    RejF w s { s1 with conv := { s1.conv with theirTag := s.conv.theirTag } } :=
  ⟨h.msgState, h.keys, h.theirKey, h.smp, h.resendMsgs, h.mayRetransmit, h.retransmitting, h.ourKeys, h.policies,
    h.fragmentSize, h.friendlyQuery, h.errHandler, h.heartbeatLastSent, h.lastMessageStateChange, h.sentRevealSig,
    h.version, h.ourCurrentKey, fun _ => rfl, h.ourTag, h.ssid, h.fragCtx, h.wsState⟩

/-- replacing the fragmentation context and forgetting it at once -/
theorem RejF.setForget {s s1 : MState} (h : RejF w s s1) :
    RejF w s { s1 with conv := { s1.conv with fragCtx := FragCtx.empty } } :=
  Frame.trans h (RejF.forget s1)


/-! ### version and peer instance tag -/

/-- the two components the repaired code puts back when it rejects a message -/
def vtKept (s : MState) := (s.conv.version, s.conv.theirTag, s.conv.ourCurrentKey)
abbrev VtFrame : MState → MState → Prop := Keeps vtKept

theorem fragEncode_vt (msg : Bytes) : Stable VtFrame (fragEncode msg) := by
  unfold fragEncode
  stable []

theorem toSendEncoded_vt (ts : List Bytes) (err : Option Err) : Stable VtFrame (toSendEncoded ts err) := by
  unfold toSendEncoded
  stable [fragEncode_vt]

theorem withInjects_vt (vms : List Bytes) : Stable VtFrame (withInjects vms) := by
  unfold withInjects
  stable []

theorem checkPlaintextPolicies_vt (plain : Bytes) : Stable VtFrame (checkPlaintextPolicies plain) := by
  unfold checkPlaintextPolicies msgEventMsg
  stable []

/-- the frame, and — if `strict` — version, peer instance tag and long-term key in use exactly as they were -/
def RejFS (w : Bool) (strict : Prop) (s s' : MState) : Prop :=
  RejF w s s' ∧ (strict → s'.conv.version = s.conv.version ∧ s'.conv.theirTag = s.conv.theirTag ∧
    s'.conv.ourCurrentKey = s.conv.ourCurrentKey)

instance (w : Bool) (strict : Prop) : Frame (RejFS w strict) where
  refl s := ⟨Frame.refl s, fun _ => ⟨rfl, rfl, rfl⟩⟩
  trans h1 h2 := ⟨Frame.trans h1.1 h2.1, fun hs =>
    ⟨((h2.2 hs).1).trans (h1.2 hs).1, ((h2.2 hs).2.1).trans (h1.2 hs).2.1, ((h2.2 hs).2.2).trans (h1.2 hs).2.2⟩⟩

theorem Stable.rejFS {α} {strict : Prop} {x : M α} (h1 : Stable (RejF w) x) (h2 : Stable VtFrame x) :
    Stable (RejFS w strict) x := by
  intro s r s' hr
  refine ⟨h1 s r s' hr, fun _ => ?_⟩
  have := h2 s r s' hr
  simp only [Keeps, vtKept, Prod.mk.injEq] at this
  exact this

theorem RejFS.of_eq {strict : Prop} {s s' : MState} (h : s' = s) : RejFS w strict s s' := by
  subst h; exact Frame.refl _

theorem RejFS.weaken {strict : Prop} {s s' : MState} (h : RejFS true strict s s') : RejFS w strict s s' :=
  ⟨RejFrame.weaken h.1, h.2⟩

/-! ### `receiveDecoded` -/

/-- the postcondition of `receiveDecodedCore` -/
def RejPostC (w : Bool) (s : MState) (r : Except Err (Option Bytes × List Bytes × Option Err × Bool)) (s' : MState) :
    Prop :=
  ∀ p ts e rd, r = .ok (p, ts, some e, rd) → ¬ EnvFail e → RejF w s s'

theorem receiveDecodedCore_rej (K : Crypto) (msg : Bytes) (s : MState) (hna : NoAuthentic K s.conv) :
    wp (receiveDecodedCore K msg) (RejPostC w s) AnyP s := by
  unfold receiveDecodedCore
  simp only [wp_bind, wp_getc, wp_tryCatch]
  refine wp_mono _ _ _ _ _ _ (wp_of_stable _ (checkVersion_rej (w := w) msg) s) ?_ (fun _ hs => hs)
  intro r s1 h1
  cases r with
  | error e =>
    simp only [wp_pure]
    exact fun _ _ _ _ _ _ => h1
  | ok u =>
    simp only [wp_pure, wp_bind, wp_tryCatch]
    refine wp_mono _ _ _ _ _ _ (wp_of_stable _ (parseMessageHeader_rej (w := w) msg) s1) ?_ (fun _ hs => hs)
    intro r s2 h2
    have h12 : RejF w s s2 := Frame.trans h1 h2
    cases r with
    | error e =>
      simp only [wp_pure]
      exact fun _ _ _ _ _ _ => h12
    | ok hb =>
      obtain ⟨header, body⟩ := hb
      simp only [wp_pure, wp_ite']
      refine ⟨fun _ => ?_, fun _ => ?_⟩
      · simp only [wp_bind]
        refine wp_of_forall _ _ s2 (fun r s3 hr => ?_)
        have h23 : RejF w s2 s3 := by
          refine receiveDataMessage_rej K header body s2 s3 r ?_ hr
          rintro ⟨dm, sk, hA⟩
          exact hna header body s2 dm sk h12.msgState h12.keys hA
        cases r with
        | error e => intro p ts e' rd he; cases he
        | ok x =>
          simp only [wp_pure]
          exact fun _ _ _ _ _ _ => Frame.trans h12 h23
      · simp only [wp_bind]
        refine wp_mono _ (fun r s3 => ∀ msgs e, r = .ok (msgs, some e) → ¬ EnvFail e → RejF w s2 s3) _ _ _ _
          (wp_of_forall _ _ s2 (fun r s3 hr msgs e he hg => by
            subst he; exact processAKE_rej K _ body s2 s3 msgs e hr hg)) ?_ (fun _ hs => hs)
        intro r s3 h3
        cases r with
        | error e => intro p ts e' rd he; cases he
        | ok x =>
          obtain ⟨msgs, err⟩ := x
          simp only [msgEventErr]
          wpr
          all_goals
            intro p ts e rd he hg
            simp only [Except.ok.injEq, Prod.mk.injEq] at he
            obtain ⟨-, -, he, -⟩ := he
            subst he
            first
              | exact Frame.trans h12 (h3 msgs e rfl hg)
              | exact Frame.trans (Frame.trans h12 (h3 msgs e rfl hg)) (RejF.ofEq rfl)

/-- the postcondition of the functions returning `(plain, toSend, err)` -/
def RejPost (w : Bool) (strict : Prop) (s : MState) (r : Except Err (Option Bytes × List Bytes × Option Err))
    (s' : MState) : Prop :=
  ∀ p ts e, r = .ok (p, ts, some e) → ¬ EnvFail e → RejFS w strict s s'

/-- **`receiveDecoded`** (repaired code): a message that is rejected respects the frame, and the protocol
    version and the peer's instance tag are exactly what they were -/
theorem receiveDecoded_rej (K : Crypto) (msg : Bytes) (s : MState) (hna : NoAuthentic K s.conv) :
    wp (receiveDecoded K msg) (RejPost w True s) AnyP s := by
  unfold receiveDecoded
  simp only [wp_bind, wp_getc]
  refine wp_mono _ _ _ _ _ _ (receiveDecodedCore_rej (w := w) K msg s hna) ?_ (fun _ hs => hs)
  intro r s1 h1
  cases r with
  | error e => intro p ts e' he; cases he
  | ok x =>
    obtain ⟨p, ts, err, rd⟩ := x
    simp only [wp_ite', wp_bind, wp_modc, wp_pure]
    refine ⟨fun _ => ?_, fun hc => ?_⟩
    · intro p' ts' e he hg
      simp only [Except.ok.injEq, Prod.mk.injEq] at he
      obtain ⟨-, -, he⟩ := he
      subst he
      have h := h1 p ts e rd rfl hg
      exact ⟨RejF.unbind h, fun _ => ⟨(RejF.unbind_vt h).1, rfl, (RejF.unbind_vt h).2⟩⟩
    · intro p' ts' e he hg
      simp only [Except.ok.injEq, Prod.mk.injEq] at he
      obtain ⟨-, -, he⟩ := he
      subst he
      simp at hc

/-! ### query messages and whitespace tags: an error other than a failure of the environment leaves version and tag -/

theorem commitToVersionFrom_cases (vs : Nat) (s : MState) (r : Except Err Unit) (s1 : MState)
    (h : runM (commitToVersionFrom vs) s = .ok (r, s1)) :
    (r = .ok () ∧ s1.conv.theirTag = s.conv.theirTag) ∨ (r = .error .unsupportedVersion ∧ s1 = s) ∨
      r = .error .noKeyForVersion := by
  rw [commitToVersionFrom_run] at h
  cases hv : s.conv.version with
  | some v =>
    rw [hv] at h
    simp only [Res.ok.injEq, Prod.mk.injEq] at h
    exact Or.inl ⟨h.1.symm, by rw [← h.2]⟩
  | none =>
    rw [hv] at h
    simp only at h
    cases hc : chooseVersion s.conv.policies vs with
    | none =>
      rw [hc] at h
      simp only [Res.ok.injEq, Prod.mk.injEq] at h
      exact Or.inr (Or.inl ⟨h.1.symm, h.2.symm⟩)
    | some v =>
      rw [hc] at h
      simp only at h
      cases hk : s.conv.ourKeys with
      | nil =>
        rw [hk] at h
        simp only [Res.ok.injEq, Prod.mk.injEq] at h
        exact Or.inr (Or.inr h.1.symm)
      | cons k ks =>
        rw [hk] at h
        simp only [Res.ok.injEq, Prod.mk.injEq] at h
        exact Or.inl ⟨h.1.symm, by rw [← h.2]⟩

theorem serializeDHCommit_throws {P : Err → Prop} (K : Crypto) : ThrowsOnly P (serializeDHCommit K) := by
  unfold serializeDHCommit
  throws [getAke_throws, optNat_throws]

theorem sendDHCommit_throws (K : Crypto) : ThrowsOnly EnvFail (sendDHCommit K) := by
  unfold sendDHCommit dhCommitMessage initAKE setSecretExponent modAke
  throws [randomInto_throws, getAke_throws, optNat_throws, akeEncrypt_throws, serializeDHCommit_throws,
    wrapMessageHeader_throws]

/-- starting the key exchange fails only for want of randomness -/
theorem startAKE_throws (K : Crypto) (s : MState) :
    wp (tryCatch (do let m ← sendDHCommit K; pure (Except.ok m)) (fun e => pure (Except.error e)))
      (fun r _ => ∀ e, r = .ok (.error e) → EnvFail e) AnyP s := by
  refine wp_of_forall _ _ s (fun r s' hr e he => ?_)
  subst he
  have h := runM_attempt (sendDHCommit K) (fun m => m) s
  rw [h] at hr
  cases hx : runM (sendDHCommit K) s with
  | panic p => rw [hx] at hr; cases hr
  | ok v =>
    obtain ⟨v, s1⟩ := v
    rw [hx] at hr
    cases v with
    | ok m => simp only [Res.ok.injEq, Prod.mk.injEq, Except.ok.injEq, reduceCtorEq, false_and] at hr
    | error e1 =>
      simp only [Res.ok.injEq, Prod.mk.injEq, Except.ok.injEq, Except.error.injEq] at hr
      rw [← hr.1]
      exact sendDHCommit_throws K _ _ _ hx

/-- a query message that is answered with an error other than a failure of the environment (i.e. no common
    version) changes nothing at all -/
theorem receiveQueryMessage_strict (K : Crypto) (msg : Bytes) (s : MState) :
    wp (receiveQueryMessage K msg) (fun r s' => ∀ ts e, r = .ok (ts, some e) → ¬ EnvFail e → s' = s) AnyP s := by
  unfold receiveQueryMessage
  simp only [wp_bind, wp_getc, wp_tryCatch]
  refine wp_of_forall _ _ s (fun r1 s1 h1 => ?_)
  rcases commitToVersionFrom_cases _ s r1 s1 h1 with ⟨rfl, -⟩ | ⟨rfl, rfl⟩ | rfl
  · simp only [wp_pure, wp_bind, wp_getc, wp_now, wp_ite']
    refine ⟨fun _ ts e he => (by cases he), fun _ => ?_⟩
    refine wp_mono _ _ _ _ _ _ (startAKE_throws K s1) ?_ (fun _ hs => hs)
    intro r s2 h2
    cases r with
    | error e => intro ts e' he; cases he
    | ok x =>
      cases x with
      | ok m => intro ts e he; cases he
      | error e0 =>
        simp only [msgEventErr, wp_bind, wp_ev, wp_pure]
        intro ts e he hg
        simp only [Except.ok.injEq, Prod.mk.injEq, Option.some.injEq] at he
        exact absurd (he.2 ▸ h2 e0 rfl) hg
  · simp only [wp_pure]
    intro ts e _ _
    trivial
  · simp only [wp_pure]
    intro ts e he hg
    simp only [Except.ok.injEq, Prod.mk.injEq, Option.some.injEq] at he
    exact absurd (he.2 ▸ (Or.inr (Or.inr rfl) : EnvFail .noKeyForVersion)) hg

/-- a whitespace-tagged plaintext that is answered with an error other than a failure of the environment leaves
    version and peer tag as they were -/
theorem receiveTaggedPlaintext_strict (K : Crypto) (msg : Bytes) (s : MState) :
    wp (receiveTaggedPlaintext K msg)
      (fun r s' => ∀ p ts e, r = .ok (p, ts, some e) → ¬ EnvFail e → vtKept s' = vtKept s) AnyP s := by
  have hfin : ∀ (ts : List Bytes) (err : Option Err) (s1 : MState),
      (∀ e, err = some e → ¬ EnvFail e → vtKept s1 = vtKept s) →
      wp (do checkPlaintextPolicies (extractWhitespaceTag msg).1
             return (some (extractWhitespaceTag msg).1, ts, err))
        (fun r s' => ∀ p ts e, r = .ok (p, ts, some e) → ¬ EnvFail e → vtKept s' = vtKept s) AnyP s1 := by
    intro ts err s1 h1
    simp only [wp_bind, wp_pure]
    refine wp_mono _ _ _ _ _ _ (wp_of_stable _ (checkPlaintextPolicies_vt _) s1) ?_ (fun _ hs => hs)
    intro r s2 h2
    cases r with
    | error e => intro p ts' e' he; cases he
    | ok u =>
      intro p ts' e he hg
      simp only [Except.ok.injEq, Prod.mk.injEq] at he
      exact (show vtKept s2 = vtKept s1 from h2).trans (h1 e he.2.2 hg)
  simp only [wp_bind, wp_pure] at hfin
  unfold receiveTaggedPlaintext
  simp only [wp_bind, wp_getc, wp_ite']
  refine ⟨fun _ => ?_, fun _ => ?_⟩
  · simp only [wp_pure]
    exact hfin [] none s (fun _ he => by cases he)
  · simp only [wp_bind, wp_tryCatch]
    refine wp_of_forall _ _ s (fun r1 s1 h1 => ?_)
    rcases commitToVersionFrom_cases _ s r1 s1 h1 with ⟨rfl, -⟩ | ⟨rfl, rfl⟩ | rfl
    · simp only [wp_pure, wp_bind]
      refine wp_mono _ _ _ _ _ _ (startAKE_throws K s1) ?_ (fun _ hs => hs)
      intro r s2 h2
      cases r with
      | error e => intro p ts e' he; cases he
      | ok x =>
        cases x with
        | ok m =>
          simp only [wp_bind, wp_pure]
          exact hfin _ _ s2 (fun _ he => by cases he)
        | error e0 =>
          simp only [msgEventErr, wp_bind, wp_ev, wp_pure]
          refine hfin _ _ _ (fun e he hg => ?_)
          simp only [Option.some.injEq] at he
          exact absurd (he ▸ h2 e0 rfl) hg
    · simp only [wp_pure, wp_bind]
      exact hfin [] _ s1 (fun _ _ _ => rfl)
    · simp only [wp_pure, wp_bind]
      refine hfin [] _ s1 (fun e he hg => ?_)
      simp only [Option.some.injEq] at he
      exact absurd (he ▸ (Or.inr (Or.inr rfl) : EnvFail .noKeyForVersion)) hg


/-! ### `receiveUnit` -/

theorem RejFS.mono {P Q : Prop} {s s' : MState} (h : RejFS w P s s') (hpq : Q → P) : RejFS w Q s s' :=
  ⟨h.1, fun hq => h.2 (hpq hq)⟩

theorem RejFS.of_rej {P : Prop} {s s' : MState} (h : RejF w s s') (hp : ¬ P) : RejFS w P s s' :=
  ⟨h, fun hq => absurd hq hp⟩

/-- the postcondition of `receiveUnit`: when an error that is not a failure of the environment is reported, the
    frame holds — with the `wsState` clause if no plaintext is delivered, and with version and peer tag unchanged
    if `strict` -/
def RejPostU (strict : Prop) (s : MState) (r : Except Err RecvResult) (s' : MState) : Prop :=
  ∀ rr e, r = .ok rr → rr.err = some e → ¬ EnvFail e → RejFS rr.plain.isNone strict s s'

theorem injTail_post (P : Prop) (plain : Option Bytes) (toSend : List Bytes) (err : Option Err) (s0 s : MState)
    (h0 : ∀ e, err = some e → ¬ EnvFail e → RejFS plain.isNone P s0 s) :
    wp (do
        let l ← withInjects toSend
        pure ({ plain := plain, toSend := l, err := err } : RecvResult)) (RejPostU P s0) AnyP s := by
  refine wp_of_forall _ _ s (fun r s' hr rr e hrr he hg => ?_)
  subst hrr
  have hst : Stable (RejFS plain.isNone P) (do
        let l ← withInjects toSend
        pure ({ plain := plain, toSend := l, err := err } : RecvResult)) := by
    refine Stable.rejFS ?_ ?_
    · rstable [withInjects_rej]
    · stable [withInjects_vt]
  have hres : ResultOnly (fun rr : RecvResult => rr.plain = plain ∧ rr.err = err) (do
        let l ← withInjects toSend
        pure ({ plain := plain, toSend := l, err := err } : RecvResult)) :=
    ResultOnly.bind fun _ => ResultOnly.pure ⟨rfl, rfl⟩
  obtain ⟨hp, hee⟩ := hres _ _ _ hr
  rw [hp]
  exact Frame.trans (h0 e (hee ▸ he) hg) (hst _ _ _ hr)

theorem finishTail_post (P : Prop) (plain : Option Bytes) (toSend : List Bytes) (err : Option Err) (s0 s : MState)
    (h0 : ∀ e, err = some e → ¬ EnvFail e → RejFS plain.isNone P s0 s) :
    wp (do
        let enc ← toSendEncoded toSend err
        let l ← withInjects enc
        pure ({ plain := plain, toSend := l, err := err } : RecvResult)) (RejPostU P s0) AnyP s := by
  refine wp_of_forall _ _ s (fun r s' hr rr e hrr he hg => ?_)
  subst hrr
  have hst : Stable (RejFS plain.isNone P) (do
        let enc ← toSendEncoded toSend err
        let l ← withInjects enc
        pure ({ plain := plain, toSend := l, err := err } : RecvResult)) := by
    refine Stable.rejFS ?_ ?_
    · rstable [toSendEncoded_rej, withInjects_rej]
    · stable [toSendEncoded_vt, withInjects_vt]
  have hres : ResultOnly (fun rr : RecvResult => rr.plain = plain ∧ rr.err = err) (do
        let enc ← toSendEncoded toSend err
        let l ← withInjects enc
        pure ({ plain := plain, toSend := l, err := err } : RecvResult)) :=
    ResultOnly.bind fun _ => ResultOnly.bind fun _ => ResultOnly.pure ⟨rfl, rfl⟩
  obtain ⟨hp, hee⟩ := hres _ _ _ hr
  rw [hp]
  exact Frame.trans (h0 e (hee ▸ he) hg) (hst _ _ _ hr)

theorem RejFS.setForget {P : Prop} {s s1 : MState} (h : RejFS w P s s1) :
    RejFS w P s { s1 with conv := { s1.conv with fragCtx := FragCtx.empty } } :=
  ⟨RejF.setForget h.1, h.2⟩

/-- the local function `finish` of `receiveUnit` -/
theorem finish_post (P : Prop) (cond : Prop) [Decidable cond] (plain : Option Bytes) (toSend : List Bytes)
    (err : Option Err) (s0 s : MState) (h0 : ∀ e, err = some e → ¬ EnvFail e → RejFS plain.isNone P s0 s) :
    wp (if cond then do
          modc fun c => { c with fragCtx := FragCtx.empty }
          let enc ← toSendEncoded toSend err
          let l ← withInjects enc
          pure ({ plain := plain, toSend := l, err := err } : RecvResult)
        else do
          let enc ← toSendEncoded toSend err
          let l ← withInjects enc
          pure ({ plain := plain, toSend := l, err := err } : RecvResult)) (RejPostU P s0) AnyP s := by
  rw [wp_ite']
  refine ⟨fun _ => ?_, fun _ => finishTail_post P plain toSend err s0 s h0⟩
  rw [wp_bind, wp_modc]
  exact finishTail_post P plain toSend err s0 _ (fun e he hg => RejFS.setForget (h0 e he hg))

theorem receiveTaggedPlaintext_plain (K : Crypto) (msg : Bytes) :
    ResultOnly (fun x : Option Bytes × List Bytes × Option Err => x.1.isNone = false)
      (receiveTaggedPlaintext K msg) := by
  unfold receiveTaggedPlaintext
  dsimp only
  repeat' (first | exact ResultOnly.pure rfl | refine ResultOnly.bind fun _ => ?_ | split)

theorem receiveUnit_rej (K : Crypto) : ∀ (fuel : Nat) (msg : Bytes) (fg : Bool) (s : MState),
    NoAuthentic K s.conv →
    wp (receiveUnit K fuel msg fg) (RejPostU (guessMessageType msg ≠ .fragment) s) AnyP s := by
  intro fuel
  induction fuel with
  | zero =>
    intro msg fg s hna
    rw [receiveUnit]
    simp only [wp_bind, wp_mism, wp_pure]
    intro rr e hrr he
    simp only [Except.ok.injEq] at hrr
    subst hrr
    cases he
  | succ fuel ih =>
    intro msg fg s hna
    generalize hP : (guessMessageType msg ≠ .fragment) = P
    have hdecoded : wp (match decodeEnvelope msg with
        | none => (if (true && fg) = true then do
              modc fun c => { c with fragCtx := FragCtx.empty }
              let enc ← toSendEncoded [] (some Err.invalidMessage)
              let l ← withInjects enc
              pure ({ plain := none, toSend := l, err := some Err.invalidMessage } : RecvResult)
            else do
              let enc ← toSendEncoded [] (some Err.invalidMessage)
              let l ← withInjects enc
              pure ({ plain := none, toSend := l, err := some Err.invalidMessage } : RecvResult))
        | some decoded => do
          let x ← receiveDecoded K decoded
          if (x.2.2 == some Err.otherInstance) = true then
            (if (false && fg) = true then do
              modc fun c => { c with fragCtx := FragCtx.empty }
              let enc ← toSendEncoded x.2.1 none
              let l ← withInjects enc
              pure ({ plain := x.1, toSend := l, err := none } : RecvResult)
            else do
              let enc ← toSendEncoded x.2.1 none
              let l ← withInjects enc
              pure ({ plain := x.1, toSend := l, err := none } : RecvResult))
          else
            (if (true && fg) = true then do
              modc fun c => { c with fragCtx := FragCtx.empty }
              let enc ← toSendEncoded x.2.1 x.2.2
              let l ← withInjects enc
              pure ({ plain := x.1, toSend := l, err := x.2.2 } : RecvResult)
            else do
              let enc ← toSendEncoded x.2.1 x.2.2
              let l ← withInjects enc
              pure ({ plain := x.1, toSend := l, err := x.2.2 } : RecvResult)))
        (RejPostU P s) AnyP s := by
      split
      · exact finish_post P _ _ _ _ s s (fun _ _ _ => Frame.refl s)
      · rename_i decoded _
        rw [wp_bind]
        refine wp_of_forall _ _ s (fun r s1 hr => ?_)
        cases r with
        | error e => intro rr e' hrr; cases hrr
        | ok x =>
          obtain ⟨p, ts, e⟩ := x
          have hd := wp_of_run _ _ _ _ _ _ (receiveDecoded_rej (w := p.isNone) K decoded s hna) hr
          show wp _ _ _ _
          rw [wp_ite']
          refine ⟨fun _ => finish_post P _ _ _ _ s s1 (fun _ he _ => by cases he), fun _ => ?_⟩
          exact finish_post P _ _ _ _ s s1
            (fun e' he hg => (hd p ts e' (by rw [show e = some e' from he]) hg).mono (fun _ => trivial))
    rw [receiveUnit]
    simp only [wp_bind, wp_getc, wp_ite', wp_pure]
    refine ⟨fun _ rr e hrr he => (by simp only [Except.ok.injEq] at hrr; subst hrr; cases he), fun _ => ?_⟩
    split
    · -- error message: no error is reported
      refine wp_of_forall _ _ s (fun r s' hr rr e hrr he => ?_)
      subst hrr
      have hres : ResultOnly (fun rr : RecvResult => rr.err = none) (do
          let ts ← receiveErrorMessage msg
          let l ← withInjects ts
          pure ({ plain := none, toSend := l, err := none } : RecvResult)) :=
        ResultOnly.bind fun _ => ResultOnly.bind fun _ => ResultOnly.pure rfl
      rw [hres _ _ _ hr] at he
      cases he
    · -- query
      rw [wp_bind]
      refine wp_of_forall _ _ s (fun r s1 hr => ?_)
      have h2 := wp_of_run _ _ _ _ _ _ (receiveQueryMessage_strict K msg s) hr
      cases r with
      | error e => intro rr e' hrr; cases hrr
      | ok x =>
        obtain ⟨ts, e⟩ := x
        exact finish_post P _ _ _ _ s s1 (fun e' he hg => RejFS.of_eq (h2 ts e' (by rw [show e = some e' from he]) hg))
    · -- whitespace-tagged plaintext
      rw [wp_bind]
      refine wp_of_forall _ _ s (fun r s1 hr => ?_)
      have h1 : RejF false s s1 := receiveTaggedPlaintext_rej K msg s r s1 hr
      have h2 := wp_of_run _ _ _ _ _ _ (receiveTaggedPlaintext_strict K msg s) hr
      cases r with
      | error e => intro rr e' hrr; cases hrr
      | ok x =>
        have hp := receiveTaggedPlaintext_plain K msg _ _ _ hr
        obtain ⟨p, ts, e⟩ := x
        refine finish_post P _ _ _ _ s s1 (fun e' he hg => ?_)
        rw [show p.isNone = false from hp]
        refine ⟨h1, fun _ => ?_⟩
        have hvt := h2 p ts e' (by rw [show e = some e' from he]) hg
        simp only [vtKept, Prod.mk.injEq] at hvt
        exact hvt
    · -- not OTR: no error is reported
      rw [wp_bind]
      refine wp_of_forall _ _ s (fun r s1 hr => ?_)
      cases r with
      | error e => intro rr e' hrr; cases hrr
      | ok u => exact finish_post P _ _ _ _ s s1 (fun _ he _ => by cases he)
    · -- v1 key exchange: nothing happens
      intro rr e hrr he hg
      exact Frame.refl s
    · -- fragment
      rename_i hfr
      have hnp : ¬ P := by rw [← hP]; simp [hfr]
      rw [wp_bind, wp_tryCatch, wp_bind]
      refine wp_of_forall _ _ s (fun r s1 hr => ?_)
      have h1 : RejF true s s1 := receiveFragment_rej _ msg s r s1 hr
      have hrec : ∀ (s2 : MState) (frag : Bytes), RejF true s s2 →
          wp (do
              let r ← receiveUnit K fuel frag false
              let l ← withInjects r.toSend
              pure ({ plain := r.plain, toSend := l, err := r.err } : RecvResult))
            (RejPostU P s) AnyP s2 := by
        intro s2 frag h2
        rw [wp_bind]
        refine wp_mono _ _ _ _ _ _ (ih frag false s2 (hna.of_rej h2)) ?_ (fun _ hs => hs)
        intro r s3 h3
        cases r with
        | error e => intro rr e' hrr; cases hrr
        | ok rr =>
          show wp _ _ _ _
          exact injTail_post P _ _ _ s s3
            (fun e he hg => RejFS.of_rej (Frame.trans (RejF.weaken h2) (h3 rr e rfl he hg).1) hnp)
      have hfin : ∀ (s2 : MState) (err : Option Err), (∀ e, err = some e → RejF true s s2) →
          wp (if (false && fg) = true then do
                modc fun c => { c with fragCtx := FragCtx.empty }
                let enc ← toSendEncoded [] err
                let l ← withInjects enc
                pure ({ plain := none, toSend := l, err := err } : RecvResult)
              else do
                let enc ← toSendEncoded [] err
                let l ← withInjects enc
                pure ({ plain := none, toSend := l, err := err } : RecvResult))
            (RejPostU P s) AnyP s2 :=
        fun s2 err h2 => finish_post P _ none [] err s s2 (fun e he _ => RejFS.of_rej (h2 e he) hnp)
      cases r with
      | error e =>
        simp only [wp_pure, wp_bind, wp_getc, wp_ite', wp_modc] at hrec hfin ⊢
        exact ⟨fun _ => hrec _ _ (RejF.setForget (RejF.resetTheirTag h1)),
          fun _ => hfin { s1 with conv := { s1.conv with theirTag := s.conv.theirTag } } _
            (fun _ _ => RejF.resetTheirTag h1)⟩
      | ok ctx =>
        simp only [wp_pure, wp_bind, wp_getc, wp_ite', wp_modc] at hrec hfin ⊢
        exact ⟨fun _ => hrec _ _ (RejF.setForget h1),
          fun _ => hfin { s1 with conv := { s1.conv with fragCtx := ctx } } _ (fun _ he => by cases he)⟩
    · -- unknown: no error is reported
      simp only [msgEvent, wp_bind, wp_ev]
      exact finish_post P _ _ _ _ s _ (fun _ he _ => by cases he)
    all_goals exact hdecoded

/-! ## 6. the theorems -/

/-- **C06, frame of a rejected message (partial form: two hypotheses and one caveat, see the witnesses below).**
    For every byte string `msg`, every environment and every start state: if `Receive` reports an error `e`
    (the message is rejected) that is not a failure of the environment (`EnvFail`: randomness / signing oracle /
    no long-term key), and no authentic data message exists under the current keys (`NoAuthentic`), then the
    conversation afterwards agrees with the conversation before on everything `RejFrame` lists:
    * never changed: `msgState`, `keys` (the whole key-management context: DH keys, key ids, counters, MAC history,
      reveal queue), `theirKey`, `smp`, `resendMsgs`/`mayRetransmit`/`retransmitting`, `ourKeys`, `policies`,
      `fragmentSize`, `friendlyQuery`, `errHandler`, `heartbeatLastSent`, `lastMessageStateChange`, `sentRevealSig`;
    * `version`, `theirTag` and `ourCurrentKey` (repaired code): unchanged, unless `msg` is a fragment — then they
      are sticky only (a rejected message that arrives as the last fragment is processed after the fragment's own
      prefix has committed the version, chosen the key and bound the tag:
      `c06_witness_fragment_commits_version`, `…_binds_theirTag`);
    * `ourTag`: only if none was generated; `ssid`: only while the conversation is not encrypted;
    * `fragCtx`: kept or reset to empty; `wsState`: unchanged when no plaintext is delivered;
    * free: `ake` (the AKE context), `injections` (flushed), and outside the conversation the environment
      (consumed randomness, signing-oracle answers), events and diagnostics. -/
theorem receive_error_frame_partial (K : Crypto) (msg : Bytes) (s s' : MState) (r : RecvResult) (e : Err)
    (hr : runM (receive K msg) s = .ok (.ok r, s')) (he : r.err = some e) (hg : ¬ EnvFail e)
    (hna : NoAuthentic K s.conv) :
    RejFrame r.plain.isNone s.conv s'.conv ∧
    (guessMessageType msg ≠ .fragment →
      s'.conv.version = s.conv.version ∧ s'.conv.theirTag = s.conv.theirTag ∧
      s'.conv.ourCurrentKey = s.conv.ourCurrentKey) :=
  wp_of_run _ _ _ _ _ _ (receiveUnit_rej K _ msg true s hna) hr r e rfl he hg

/-- the same without the hypothesis on the data path: a rejected message changes nothing the frame lists,
    *unless* some header and body pass all five guards of the data path under the current message state and keys
    (then the rejected message may be such an authentic message, failing after it was accepted) -/
theorem receive_error_frame_or_authentic (K : Crypto) (msg : Bytes) (s s' : MState) (r : RecvResult) (e : Err)
    (hr : runM (receive K msg) s = .ok (.ok r, s')) (he : r.err = some e) (hg : ¬ EnvFail e) :
    (RejFrame r.plain.isNone s.conv s'.conv ∧
      (guessMessageType msg ≠ .fragment →
        s'.conv.version = s.conv.version ∧ s'.conv.theirTag = s.conv.theirTag ∧
        s'.conv.ourCurrentKey = s.conv.ourCurrentKey)) ∨
    ∃ (header body : Bytes) (s1 : MState) (dm : DataMsg) (sk : SessionKeys),
      s1.conv.msgState = s.conv.msgState ∧ s1.conv.keys = s.conv.keys ∧ Accepts K header body s1 dm sk := by
  by_cases hna : NoAuthentic K s.conv
  · exact Or.inl (receive_error_frame_partial K msg s s' r e hr he hg hna)
  · right
    apply Classical.byContradiction
    intro hno
    apply hna
    intro header body s1 dm sk hm hk hA
    exact hno ⟨header, body, s1, dm, sk, hm, hk, hA⟩

/-- **what a rejected message never changes**, field by field -/
theorem c06_rejected_never_changes (K : Crypto) (msg : Bytes) (s s' : MState) (r : RecvResult) (e : Err)
    (hr : runM (receive K msg) s = .ok (.ok r, s')) (he : r.err = some e) (hg : ¬ EnvFail e)
    (hna : NoAuthentic K s.conv) :
    s'.conv.msgState = s.conv.msgState ∧ s'.conv.keys = s.conv.keys ∧ s'.conv.theirKey = s.conv.theirKey ∧
    s'.conv.smp = s.conv.smp ∧
    (s'.conv.resendMsgs = s.conv.resendMsgs ∧ s'.conv.mayRetransmit = s.conv.mayRetransmit ∧
      s'.conv.retransmitting = s.conv.retransmitting) ∧
    s'.conv.ourKeys = s.conv.ourKeys ∧ s'.conv.policies = s.conv.policies ∧
    (s.conv.msgState = .encrypted → s'.conv.ssid = s.conv.ssid) ∧
    (s'.conv.fragCtx = s.conv.fragCtx ∨ s'.conv.fragCtx = FragCtx.empty) ∧
    (guessMessageType msg ≠ .fragment →
      s'.conv.version = s.conv.version ∧ s'.conv.theirTag = s.conv.theirTag ∧
      s'.conv.ourCurrentKey = s.conv.ourCurrentKey) := by
  obtain ⟨h, hvt⟩ := receive_error_frame_partial K msg s s' r e hr he hg hna
  exact ⟨h.msgState, h.keys, h.theirKey, h.smp, ⟨h.resendMsgs, h.mayRetransmit, h.retransmitting⟩, h.ourKeys,
    h.policies, h.ssid, h.fragCtx, hvt⟩

theorem Conv.eq_of {c c' : Conv}
    (h : (c'.version, c'.msgState, c'.wsState, c'.lastMessageStateChange, c'.ourTag, c'.theirTag, c'.ssid, c'.ourKeys,
          c'.ourCurrentKey, c'.theirKey, c'.ake, c'.smp, c'.keys, c'.policies, c'.heartbeatLastSent, c'.mayRetransmit,
          c'.retransmitting, c'.resendMsgs, c'.injections, c'.fragmentSize, c'.fragCtx, c'.sentRevealSig,
          c'.friendlyQuery, c'.errHandler) =
         (c.version, c.msgState, c.wsState, c.lastMessageStateChange, c.ourTag, c.theirTag, c.ssid, c.ourKeys,
          c.ourCurrentKey, c.theirKey, c.ake, c.smp, c.keys, c.policies, c.heartbeatLastSent, c.mayRetransmit,
          c.retransmitting, c.resendMsgs, c.injections, c.fragmentSize, c.fragCtx, c.sentRevealSig,
          c.friendlyQuery, c.errHandler)) : c' = c := by
  cases c; cases c'
  simp only [Prod.mk.injEq] at h
  obtain ⟨h1, h2, h3, h4, h5, h6, h7, h8, h9, h10, h11, h12, h13, h14, h15, h16, h17, h18, h19, h20, h21, h22, h23,
    h24⟩ := h
  subst_vars
  rfl

/-- **C06 for a conversation that has chosen its version and bound both instance tags** (every conversation
    after the first accepted message of a v3 key exchange; for v2 the tags are unused) — any input, fragments
    included: a rejected message that delivers no plaintext changes *nothing* of the conversation except the AKE
    context, the fragmentation context (kept or forgotten), the injection queue (flushed into the result) — and the
    session id as long as the conversation is not encrypted.  So every later `Send`, `Receive` of a data
    message, SMP step and `End` of an encrypted conversation starts from the same message state, keys, counters,
    SMP and resend state with or without the rejected message. -/
theorem c06_rejected_continuation_partial (K : Crypto) (msg : Bytes) (s s' : MState) (r : RecvResult) (e : Err)
    (hr : runM (receive K msg) s = .ok (.ok r, s')) (he : r.err = some e) (hg : ¬ EnvFail e)
    (hna : NoAuthentic K s.conv) (hp : r.plain = none)
    (hv : s.conv.version ≠ none) (ht : s.conv.theirTag ≠ 0) (ho : s.conv.ourTag ≠ 0) :
    s'.conv = { s.conv with ake := s'.conv.ake, fragCtx := s'.conv.fragCtx, injections := s'.conv.injections,
                            ssid := s'.conv.ssid } ∧
    (s.conv.msgState = .encrypted → s'.conv.ssid = s.conv.ssid) ∧
    (s'.conv.fragCtx = s.conv.fragCtx ∨ s'.conv.fragCtx = FragCtx.empty) := by
  obtain ⟨h, -⟩ := receive_error_frame_partial K msg s s' r e hr he hg hna
  rw [hp] at h
  refine ⟨Conv.eq_of ?_, h.ssid, h.fragCtx⟩
  simp only [Prod.mk.injEq]
  exact ⟨h.version hv, h.msgState, h.wsState rfl, h.lastMessageStateChange, h.ourTag ho, h.theirTag ht, trivial,
    h.ourKeys, h.ourCurrentKey hv, h.theirKey, trivial, h.smp, h.keys, h.policies, h.heartbeatLastSent,
    h.mayRetransmit, h.retransmitting, h.resendMsgs, trivial, h.fragmentSize, trivial, h.sentRevealSig,
    h.friendlyQuery, h.errHandler⟩

/-- **C06 for a complete (non-fragment) message, from any conversation** — also before a version is chosen or a
    peer instance bound (repaired code): a rejected message that delivers no plaintext changes nothing of the
    conversation except the AKE context, the fragmentation context (kept or forgotten), the injection queue, the
    session id while not encrypted, and our own instance tag if none was generated yet. -/
theorem c06_rejected_continuation_nonfragment (K : Crypto) (msg : Bytes) (s s' : MState) (r : RecvResult) (e : Err)
    (hr : runM (receive K msg) s = .ok (.ok r, s')) (he : r.err = some e) (hg : ¬ EnvFail e)
    (hna : NoAuthentic K s.conv) (hp : r.plain = none) (hnf : guessMessageType msg ≠ .fragment) :
    s'.conv = { s.conv with ake := s'.conv.ake, fragCtx := s'.conv.fragCtx, injections := s'.conv.injections,
                            ssid := s'.conv.ssid, ourTag := s'.conv.ourTag } ∧
    (s.conv.msgState = .encrypted → s'.conv.ssid = s.conv.ssid) ∧
    (s.conv.ourTag ≠ 0 → s'.conv.ourTag = s.conv.ourTag) ∧
    (s'.conv.fragCtx = s.conv.fragCtx ∨ s'.conv.fragCtx = FragCtx.empty) := by
  obtain ⟨h, hvt⟩ := receive_error_frame_partial K msg s s' r e hr he hg hna
  rw [hp] at h
  refine ⟨Conv.eq_of ?_, h.ssid, h.ourTag, h.fragCtx⟩
  simp only [Prod.mk.injEq]
  exact ⟨(hvt hnf).1, h.msgState, h.wsState rfl, h.lastMessageStateChange, trivial, (hvt hnf).2.1, trivial,
    h.ourKeys, (hvt hnf).2.2, h.theirKey, trivial, h.smp, h.keys, h.policies, h.heartbeatLastSent,
    h.mayRetransmit, h.retransmitting, h.resendMsgs, trivial, h.fragmentSize, trivial, h.sentRevealSig,
    h.friendlyQuery, h.errHandler⟩

/-! ### the hypotheses are satisfiable -/

/-- with the constant cryptography `Crypto.dummy` (HMAC-SHA1 = the empty string) no data message is ever
    authentic: the authenticator of a parsed message has 20 bytes -/
theorem noAuthentic_dummy (c : Conv) : NoAuthentic Crypto.dummy c := by
  intro header body s1 dm sk _ _ hA
  obtain ⟨m0, tail, -, -, hlen, -⟩ := dataMsg_deserialize_split body dm hA.2.1
  have hm := hA.2.2.2.1
  rw [← hm] at hlen
  simp [Crypto.dummy] at hlen

/-- an encrypted OTRv2 conversation some messages in -/
def wEncrypted : MState :=
  ⟨{ version := some .v2, policies := allowV2, msgState := .encrypted, keys := Keys.example1 }, {}, [], []⟩

/-- an encrypted conversation satisfies the hypotheses of the theorems above -/
example : NoAuthentic Crypto.dummy wEncrypted.conv ∧ wEncrypted.conv.msgState = .encrypted :=
  ⟨noAuthentic_dummy _, rfl⟩

example : ¬ EnvFail .notInPrivate := by decide
example : ¬ EnvFail (.other "corrupt DH commit message") := by decide
example : ¬ EnvFail .invalidMessage := by decide
example : guessMessageType (strBytes "?OTR:AAID.") ≠ .fragment := by decide

/-! ## 7. witnesses -/

/-- evaluate a check on the outcome of a run that returns normally -/
def outCheck {α} (x : Out α) (p : α → MState → Bool) : Bool :=
  match x with
  | .ok (.ok r, s') => p r s'
  | _ => false

/-- a run whose outcome passes a decidable check (evaluated by the kernel in the theorems below) -/
theorem run_witness {α} {x : Out α} {P : α → MState → Prop} [∀ r s', Decidable (P r s')]
    (h : outCheck x (fun r s' => decide (P r s')) = true) : ∃ r s', x = .ok (.ok r, s') ∧ P r s' := by
  unfold outCheck at h
  split at h
  · exact ⟨_, _, rfl, of_decide_eq_true h⟩
  · cases h

/-- a long-term key for the examples -/
def wKey : DsaPub := ⟨7, 3, 2, 4⟩

/-- a fresh conversation that allows OTRv2 and OTRv3, with one long-term key -/
def wFresh : MState := ⟨{ policies := allowV2 + allowV3, ourKeys := [wKey] }, {}, [], []⟩

/-- the same, with the randomness the DH-Key reply draws -/
def wFreshRand : MState :=
  ⟨{ policies := allowV2 + allowV3, ourKeys := [wKey] }, { rand := [some (List.replicate 40 1)] }, [], []⟩

/-- a v2 DH-Commit message without a body: `?OTR:AAIC.` -/
def wCommitV2 : Bytes := strBytes "?OTR:AAIC."

/-- **what is left of the KNOWN FINDING `rejected-message-changes:version+akeCreated` after the repairs.**  The
    fresh conversation receives a DH-Commit message without a body: rejected (`corrupt DH commit message`, not a
    failure of the environment); version, long-term key in use and peer tag are put back — but the conversation
    now has an AKE context (in state `none`, holding a freshly drawn DH secret) -/
theorem c06_witness_ake_created :
    ∃ (s : MState) (msg : Bytes) (r : RecvResult) (s' : MState),
      runM (receive Crypto.dummy msg) s = .ok (.ok r, s') ∧
      (r.err = some (.other "corrupt DH commit message") ∧ r.plain = none ∧ r.toSend = [] ∧
       s.conv.version = none ∧ s.conv.ake = none ∧
       s'.conv.version = none ∧ s'.conv.theirTag = 0 ∧ s'.conv.ourCurrentKey = none ∧
       s'.conv.ake.map (·.state) = some .none ∧
       s'.conv.ake.bind (·.secretExponent) = some (List.replicate 40 1)) :=
  ⟨wFreshRand, wCommitV2, run_witness (by decide +kernel)⟩

/-- a complete fragment (1 of 1) of OTRv2 carrying the v2 data message `?OTR:AAID.` -/
def wFragV2 : Bytes := strBytes "?OTR,1,1,?OTR:AAID.,"

/-- **the caveat for fragments (repaired code), version.**  The fresh conversation receives, as a single
    fragment, a data message that is rejected (`notInPrivate`, no plaintext, nothing to send): the fragment's
    prefix commits the conversation to OTRv2 before the reassembled message is looked at, and the rejection of
    the reassembled message puts the version back to what it was *then*.  (The same message received unfragmented
    leaves the version alone: `receive_error_frame_partial`.) -/
theorem c06_witness_fragment_commits_version :
    ∃ (s : MState) (msg : Bytes) (r : RecvResult) (s' : MState),
      runM (receive Crypto.dummy msg) s = .ok (.ok r, s') ∧
      (r.err = some .notInPrivate ∧ r.plain = none ∧ r.toSend = [] ∧
       guessMessageType msg = .fragment ∧ s.conv.version = none ∧ s'.conv.version = some .v2) :=
  ⟨wFresh, wFragV2, run_witness (by decide +kernel)⟩

/-- a v3 data message without a body from the instance `0x100` to no instance in particular -/
def wDataV3 : Bytes := msgMarker ++ b64encode [0, 3, 3, 0, 0, 1, 0, 0, 0, 0, 0] ++ [46]

/-- the same message as the single fragment of an OTRv3 fragment sequence sent by the instance `0x100` -/
def wFragV3 : Bytes := strBytes "?OTR|100|0,1,1," ++ wDataV3 ++ [44]

/-- **the caveat for fragments (repaired code), peer instance tag.**  As `c06_witness_fragment_commits_version`
    for OTRv3: the fragment's prefix binds the conversation to the sender instance `0x100` (and commits OTRv3),
    the reassembled data message is rejected, and the binding stays -/
theorem c06_witness_fragment_binds_theirTag :
    ∃ (s : MState) (msg : Bytes) (r : RecvResult) (s' : MState),
      runM (receive Crypto.dummy msg) s = .ok (.ok r, s') ∧
      (r.err = some .notInPrivate ∧ r.plain = none ∧ r.toSend = [] ∧
       guessMessageType msg = .fragment ∧ s.conv.version = none ∧ s.conv.theirTag = 0 ∧
       s'.conv.version = some .v3 ∧ s'.conv.theirTag = 0x100) :=
  ⟨wFresh, wFragV3, run_witness (by decide +kernel)⟩

/-- the same two messages received unfragmented leave version, key in use and peer tag alone (as
    `receive_error_frame_partial` says) -/
theorem c06_witness_unfragmented_unbound :
    ∃ (s : MState) (msg : Bytes) (r : RecvResult) (s' : MState),
      runM (receive Crypto.dummy msg) s = .ok (.ok r, s') ∧
      (r.err = some .notInPrivate ∧ guessMessageType msg = .data ∧
       s'.conv.version = s.conv.version ∧ s'.conv.theirTag = s.conv.theirTag ∧
       s'.conv.ourCurrentKey = s.conv.ourCurrentKey) :=
  ⟨wFresh, wDataV3, run_witness (by decide +kernel)⟩

/-- the witnesses satisfy the hypotheses of `receive_error_frame_partial` (so the changes they show are exactly
    changes the frame allows) -/
example : NoAuthentic Crypto.dummy wFresh.conv ∧ NoAuthentic Crypto.dummy wFreshRand.conv :=
  ⟨noAuthentic_dummy _, noAuthentic_dummy _⟩

/-! ### why the full statement ("an error ⇒ nothing but the AKE context changes") is false -/

/-- cryptography in which AES-CTR is the identity (everything else constant) -/
def wCryptoCtr : Crypto := { Crypto.dummy with ctr := fun _ _ d => some d }

/-- a conversation (OTRv2, not encrypted) that has answered a DH-Commit for the value `gx = 2` and awaits the
    Reveal-Signature message -/
def wAwaitReveal : MState :=
  ⟨{ version := some .v2, policies := allowV2,
     ake := some { state := .awaitingRevealSig, encryptedGx := [0, 0, 0, 1, 2], xhashedGx := [],
                   ourPublicValue := some 1, secretExponent := some [1] } }, {}, [], []⟩

/-- a Reveal-Signature message that opens the commitment correctly but carries a wrong MAC -/
def wRevealBadMac : Bytes :=
  msgMarker ++ b64encode ([0, 2, 0x11] ++ [0, 0, 0, 16] ++ List.replicate 16 0 ++ [0, 0, 0, 0] ++ List.replicate 20 1)
    ++ [46]

/-- **`ssid` is not in the frame of a conversation that is not encrypted.**  A Reveal-Signature message that opens
    the commitment but fails the MAC check is rejected (`in reveal signature message`) after `calcAKEKeys` has
    written the session id of the exchange into the conversation (repaired code: an *encrypted* conversation
    keeps its session id, `RejFrame.ssid`) -/
theorem c06_counterexample_ssid :
    ∃ (K : Crypto) (s : MState) (msg : Bytes) (r : RecvResult) (s' : MState),
      runM (receive K msg) s = .ok (.ok r, s') ∧
      (r.err = some (.other "in reveal signature message") ∧ r.plain = none ∧ r.toSend = [] ∧
       s.conv.msgState = .plainText ∧ s'.conv.ssid ≠ s.conv.ssid) :=
  ⟨wCryptoCtr, wAwaitReveal, wRevealBadMac, run_witness (by decide +kernel)⟩

/-- cryptography in which every HMAC-SHA1 is twenty zero bytes (so a data message with that authenticator is
    authentic) and decryption fails (the ciphertext is taken as the plaintext) -/
def wCryptoMac : Crypto := { Crypto.dummy with mac1 := fun _ _ => List.replicate 20 0 }

/-- an authentic data message (key ids 2/2, counter 9) with the text `A` and an SMP1 TLV without content -/
def wDataBadTlv : Bytes :=
  msgMarker ++ b64encode ([0, 2, 3] ++ [0] ++ [0, 0, 0, 2] ++ [0, 0, 0, 2] ++ [0, 0, 0, 1, 5] ++
    [0, 0, 0, 0, 0, 0, 0, 9] ++ [0, 0, 0, 6, 65, 0, 0, 2, 0, 0] ++ List.replicate 20 0 ++ [0, 0, 0, 0]) ++ [46]

/-- **the hypothesis `NoAuthentic` cannot be dropped.**  An authentic data message (MAC and counter are fine)
    whose TLV part is corrupt is answered with an error, delivers no plaintext (the text `A` is dropped) and
    nothing to send — and the key context has moved on (their key rotated, counter and MAC key recorded) and the
    SMP state was initialised.  Seen from outside this is a rejected message that changed the keys. -/
theorem c06_counterexample_authentic :
    ∃ (K : Crypto) (s : MState) (msg : Bytes) (r : RecvResult) (s' : MState),
      runM (receive K msg) s = .ok (.ok r, s') ∧
      (r.err = some (.other "corrupt data message") ∧ r.plain = none ∧ r.toSend = [] ∧
       s.conv.keys.theirKeyID = 2 ∧ s'.conv.keys.theirKeyID = 3 ∧ s'.conv.keys ≠ s.conv.keys ∧
       s'.conv.smp ≠ s.conv.smp) :=
  ⟨wCryptoMac, wEncrypted, wDataBadTlv, run_witness (by decide +kernel)⟩

/-- cryptography that accepts every signature: AES-CTR is the identity, HMAC-SHA256 is constant, DSA verifies -/
def wCryptoSig : Crypto :=
  { Crypto.dummy with ctr := fun _ _ d => some d, mac2 := fun _ _ => List.replicate 20 0,
                      dsaVerify := fun _ _ _ _ => true }

/-- a conversation (OTRv2, not encrypted) that awaits the Signature message; the randomness source is empty -/
def wAwaitSig : MState :=
  ⟨{ version := some .v2, policies := allowV2,
     ake := some { state := .awaitingSig [], theirPublicValue := some 5, ourPublicValue := some 1,
                   keys := { ourKeyID := 1, ourCur := some ⟨1, [1]⟩ } } }, {}, [], []⟩

/-- a well-formed Signature message for the key `wKey` -/
def wSigMsg : Bytes :=
  msgMarker ++ b64encode ([0, 2, 0x12] ++ [0, 0, 0, 66] ++
    ([0, 0, 0, 0, 0, 1, 7, 0, 0, 0, 1, 3, 0, 0, 0, 1, 2, 0, 0, 0, 1, 4, 0, 0, 0, 1] ++ List.replicate 40 1) ++
    List.replicate 20 0) ++ [46]

/-- **the hypothesis `¬ EnvFail e` cannot be dropped.**  A Signature message that passes every check completes
    the key exchange; drawing the next DH key then fails for want of randomness and `Receive` reports
    `errShortRandomRead` — with the conversation encrypted, the peer's key installed and the keys replaced.
    An error of this kind says nothing about the message. -/
theorem c06_counterexample_envfail :
    ∃ (K : Crypto) (s : MState) (msg : Bytes) (r : RecvResult) (s' : MState),
      runM (receive K msg) s = .ok (.ok r, s') ∧
      (r.err = some .shortRandom ∧ r.plain = none ∧ r.toSend = [] ∧
       s.conv.msgState = .plainText ∧ s'.conv.msgState = .encrypted ∧ s.conv.theirKey = none ∧
       s'.conv.theirKey = some wKey) :=
  ⟨wCryptoSig, wAwaitSig, wSigMsg, run_witness (by decide +kernel)⟩

/-! ## 8. a key exchange message that is ignored -/

theorem randRead_vt (n : Nat) : Stable VtFrame (randRead n) :=
  randRead_stable (fun _ _ _ _ => rfl) n

theorem randomInto_vt (n : Nat) : Stable VtFrame (randomInto n) := by
  unfold randomInto
  stable [randRead_vt]

theorem signOracle_vt (mb : Bytes) : Stable VtFrame (signOracle mb) :=
  rf_signOracle_stable (fun _ _ _ => rfl) mb

theorem generateInstanceTagAux_vt (fuel : Nat) : Stable VtFrame (generateInstanceTagAux fuel) := by
  induction fuel with
  | zero => unfold generateInstanceTagAux; stable []
  | succ n ih => unfold generateInstanceTagAux; stable [randomInto_vt, ih]

theorem generateInstanceTag_vt : Stable VtFrame generateInstanceTag := by
  unfold generateInstanceTag
  stable [generateInstanceTagAux_vt]

theorem messageHeader_vt (t : Nat) : Stable VtFrame (messageHeader t) := by
  unfold messageHeader
  stable [generateInstanceTag_vt]

theorem wrapMessageHeader_vt (t : Nat) (m : Bytes) : Stable VtFrame (wrapMessageHeader t m) := by
  unfold wrapMessageHeader
  stable [messageHeader_vt]

theorem getAke_vt : Stable VtFrame getAke := by
  unfold getAke
  stable []

theorem optNat_vt (site : String) (v : Option Nat) : Stable VtFrame (optNat site v) := by
  unfold optNat
  stable []

theorem akeEncrypt_vt (K : Crypto) (key data : Bytes) : Stable VtFrame (akeEncrypt K key data) := by
  unfold akeEncrypt
  stable []

theorem resToM_vt {α} (r : Res α) : Stable VtFrame (resToM r) := by
  unfold resToM
  stable []

theorem generateEncryptedSignature_vt (K : Crypto) (key : AkeKeys) :
    Stable VtFrame (generateEncryptedSignature K key) := by
  unfold generateEncryptedSignature
  refine Stable.bind Stable.getc fun c => ?_
  dsimp only
  have hjp : ∀ pk : DsaPub, Stable VtFrame (do
      let a ← getAke
      let ours ← optNat "generateEncryptedSignature: nil ourPublicValue" a.ourPublicValue
      let theirs ← optNat "generateEncryptedSignature: nil theirPublicValue" a.theirPublicValue
      let r ← signOracle (K.mac2 key.m1 (appendAll ours theirs pk a.keys.ourKeyID))
      match r with
        | none => throw Err.shortRandom
        | some sigb => do
          let enc ← akeEncrypt K key.c (appendWord pk.serialize a.keys.ourKeyID ++ sigb)
          pure (appendData [] enc)) := by
    intro pk
    refine Stable.bind getAke_vt fun a => ?_
    refine Stable.bind (optNat_vt _ _) fun ours => ?_
    refine Stable.bind (optNat_vt _ _) fun theirs => ?_
    refine Stable.bind (signOracle_vt _) fun r => ?_
    cases r with
    | none => exact Stable.throw _
    | some sigb => exact Stable.bind (akeEncrypt_vt _ _ _) fun enc => Stable.pure _
  split
  · exact Stable.bind (Stable.pure _) hjp
  · exact Stable.bind (Stable.throw _) hjp

theorem calcAKEKeys_vt (K : Crypto) : Stable VtFrame (calcAKEKeys K) := by
  unfold calcAKEKeys modAke
  stable [getAke_vt, optNat_vt]
  all_goals exact Stable.modc _ (fun s => by
    show vtKept _ = vtKept _
    unfold vtKept
    dsimp only
    split <;> rfl)

theorem revealSigMessage_vt (K : Crypto) : Stable VtFrame (revealSigMessage K) := by
  unfold revealSigMessage modAke
  stable [calcAKEKeys_vt, getAke_vt, generateEncryptedSignature_vt, resToM_vt]

theorem sigMessage_vt (K : Crypto) : Stable VtFrame (sigMessage K) := by
  unfold sigMessage modAke
  stable [getAke_vt, generateEncryptedSignature_vt, resToM_vt]

theorem akeSetTheirCurrent_vt : Stable VtFrame akeSetTheirCurrent := by
  unfold akeSetTheirCurrent modAke
  stable [getAke_vt, optNat_vt]

theorem akeSetOurCurrent_vt : Stable VtFrame akeSetOurCurrent := by
  unfold akeSetOurCurrent modAke
  stable [getAke_vt, optNat_vt]

theorem serializeDHKey_vt : Stable VtFrame serializeDHKey := by
  unfold serializeDHKey
  stable [getAke_vt, optNat_vt]

theorem serializeDHCommit_vt (K : Crypto) : Stable VtFrame (serializeDHCommit K) := by
  unfold serializeDHCommit
  stable [getAke_vt, optNat_vt]

theorem dhKeyMessage_vt (K : Crypto) : Stable VtFrame (dhKeyMessage K) := by
  unfold dhKeyMessage initAKE setSecretExponent modAke
  stable [randomInto_vt, serializeDHKey_vt]

theorem processDHCommit_vt (msg : Bytes) : Stable VtFrame (processDHCommit msg) := by
  unfold processDHCommit modAke
  stable []

theorem processDHKey_vt (msg : Bytes) : Stable VtFrame (processDHKey msg) := by
  unfold processDHKey modAke
  stable [getAke_vt]

theorem recvDHCommitNone_vt (K : Crypto) (msg : Bytes) : Stable VtFrame (recvDHCommitNone K msg) := by
  unfold recvDHCommitNone akeTry modAke
  stable [dhKeyMessage_vt, wrapMessageHeader_vt, processDHCommit_vt]

theorem recvDHCommit_vt (K : Crypto) (st : AuthState) (msg : Bytes) : Stable VtFrame (recvDHCommit K st msg) := by
  unfold recvDHCommit akeTry modAke
  stable [recvDHCommitNone_vt, wrapMessageHeader_vt, processDHCommit_vt, serializeDHKey_vt,
    serializeDHCommit_vt, getAke_vt, optNat_vt]

theorem markRole_vt :
    Stable VtFrame (modc fun c => if c.msgState != .encrypted then { c with sentRevealSig := true } else c) :=
  Stable.modc _ (fun s => by
    show vtKept _ = vtKept _
    unfold vtKept
    dsimp only
    split <;> rfl)

theorem recvDHKey_vt (K : Crypto) (st : AuthState) (msg : Bytes) : Stable VtFrame (recvDHKey K st msg) := by
  unfold recvDHKey akeTry
  split
  · exact Stable.pure _
  · exact Stable.pure _
  · refine Stable.tryCatch ?_ (fun e => Stable.pure _)
    refine Stable.bind (processDHKey_vt msg) fun _ => ?_
    refine Stable.bind (revealSigMessage_vt K) fun m => ?_
    unfold modAke
    stable [wrapMessageHeader_vt, akeSetTheirCurrent_vt, akeSetOurCurrent_vt, markRole_vt]
  · stable [processDHKey_vt]

theorem processEncryptedSig_vt (K : Crypto) (encryptedSig theirMAC : Bytes) (keys : AkeKeys) :
    Stable VtFrame (processEncryptedSig K encryptedSig theirMAC keys) := by
  unfold processEncryptedSig modAke
  stable [getAke_vt, optNat_vt]

theorem processRevealSig_vt (K : Crypto) (msg : Bytes) : Stable VtFrame (processRevealSig K msg) := by
  unfold processRevealSig modAke
  stable [getAke_vt, calcAKEKeys_vt, processEncryptedSig_vt]

theorem processSig_vt (K : Crypto) (msg : Bytes) : Stable VtFrame (processSig K msg) := by
  unfold processSig
  stable [getAke_vt, processEncryptedSig_vt]

theorem akeHasFinished_vt (K : Crypto) : Stable VtFrame (akeHasFinished K) := by
  intro s r s' h
  cases ha : s.conv.ake with
  | none => rw [akeHasFinished_none K s ha] at h; cases h
  | some a =>
    obtain ⟨r0, env', mm', -, h'⟩ := akeHasFinished_run K s a ha
    rw [h'] at h
    simp only [Res.ok.injEq, Prod.mk.injEq] at h
    rw [← h.2]
    rfl

theorem recvRevealSig_vt (K : Crypto) (st : AuthState) (msg : Bytes) : Stable VtFrame (recvRevealSig K st msg) := by
  unfold recvRevealSig akeTry modAke
  stable [processRevealSig_vt, sigMessage_vt, wrapMessageHeader_vt, akeSetTheirCurrent_vt,
    akeSetOurCurrent_vt, akeHasFinished_vt]

theorem recvSig_vt (K : Crypto) (st : AuthState) (msg : Bytes) : Stable VtFrame (recvSig K st msg) := by
  unfold recvSig akeTry
  stable [processSig_vt, akeSetTheirCurrent_vt, akeHasFinished_vt]

theorem genDataMsgWithFlag_vt (K : Crypto) (m : Bytes) (f : Nat) (tlvs : List Tlv) :
    Stable VtFrame (genDataMsgWithFlag K m f tlvs) := by
  intro s r s' h
  have hk := genDataMsgWithFlag_sendFrame K m f tlvs s r s' h
  simp only [Keeps, sendKept, Prod.mk.injEq] at hk
  obtain ⟨-, -, -, k4, -, -, -, k8, -, -, k11, -⟩ := hk
  show vtKept s' = vtKept s
  unfold vtKept
  rw [k4, k8, k11]

theorem retransmit_vt (K : Crypto) : Stable VtFrame (retransmit K) := by
  unfold retransmit updateLastSent msgEvent
  stable [genDataMsgWithFlag_vt, wrapMessageHeader_vt]

theorem maybeRetransmit_vt (K : Crypto) : Stable VtFrame (maybeRetransmit K) := by
  unfold maybeRetransmit
  stable [retransmit_vt]

theorem retransmitAfterCompletedExchange_vt (K : Crypto) (before after : AuthState) (e : Option Err) :
    Stable VtFrame (retransmitAfterCompletedExchange K before after e) := by
  unfold retransmitAfterCompletedExchange
  stable [maybeRetransmit_vt, genDataMsgWithFlag_vt, wrapMessageHeader_vt]

theorem rfAkeStamp_vt (st : AuthState) (x : Option Bytes × List Bytes × Option Err) : Stable VtFrame (rfAkeStamp st x) := by
  obtain ⟨single, extra, err⟩ := x
  unfold rfAkeStamp modAke
  stable [getAke_vt]

theorem rfAkeChain_vt (K : Crypto) (t : Nat) (msg : Bytes) (st : AuthState)
    (jp : Option Bytes × List Bytes × Option Err → M (List Bytes × Option Err)) (hjp : ∀ x, Stable VtFrame (jp x)) :
    Stable VtFrame (rfAkeChain K t msg st jp) := by
  unfold rfAkeChain modAke
  stable [recvDHCommit_vt, recvDHKey_vt, recvRevealSig_vt, recvSig_vt, retransmitAfterCompletedExchange_vt, hjp]

/-- **the key exchange never touches the protocol version, the peer's instance tag or the long-term key in use** -/
theorem processAKE_vt (K : Crypto) (t : Nat) (msg : Bytes) : Stable VtFrame (processAKE K t msg) := by
  intro s r s' h
  rw [rf_processAKE_run] at h
  have hb : Stable VtFrame (do let a ← getAke; rfAkeChain K t msg a.state (rfAkeStamp a.state)) := by
    refine Stable.bind getAke_vt fun a => ?_
    exact rfAkeChain_vt K t msg a.state _ (rfAkeStamp_vt a.state)
  have h1 := hb _ _ _ h
  refine Eq.trans h1 ?_
  split <;> rfl

/-- the kind of the authentication state (`0` without an AKE context): what `receiveDecodedCore` compares -/
def akeKind (c : Conv) : Nat := match c.ake with | some a => a.state.toNat | none => 0

abbrev AkeKeep : MState → MState → Prop := Keeps (fun s => s.conv.ake)

theorem commitToVersionFrom_ake (vs : Nat) : Stable AkeKeep (commitToVersionFrom vs) := by
  unfold commitToVersionFrom setKeyMatchingVersion
  stable []

theorem checkVersion_ake (m : Bytes) : Stable AkeKeep (checkVersion m) := by
  unfold checkVersion
  stable [commitToVersionFrom_ake]

theorem malformedMessage_ake : Stable AkeKeep malformedMessage := by
  unfold malformedMessage generatePotentialErrorMessage msgEvent
  stable []

theorem verifyInstanceTags_ake (their our : Nat) : Stable AkeKeep (verifyInstanceTags their our) := by
  unfold verifyInstanceTags msgEvent
  stable [malformedMessage_ake]

theorem parseMessageHeader_ake (msg : Bytes) : Stable AkeKeep (parseMessageHeader msg) := by
  unfold parseMessageHeader
  stable [malformedMessage_ake, verifyInstanceTags_ake]

/-- the header `parseMessageHeader` returns is a prefix of the message of at least three bytes -/
theorem parseMessageHeader_header (msg : Bytes) :
    ResultOnly (fun x : Bytes × Bytes => x.1 = msg.take 3 ∨ x.1 = msg.take 11) (parseMessageHeader msg) := by
  unfold parseMessageHeader
  repeat' (first
    | exact ResultOnly.pure (Or.inl rfl) | exact ResultOnly.pure (Or.inr rfl)
    | refine ResultOnly.bind fun _ => ?_ | split)
  all_goals (intro s a s' h; first | (simp only [runM_goPanic] at h; cases h) | (simp only [runM_throw, Res.ok.injEq, Prod.mk.injEq, reduceCtorEq, false_and] at h))

theorem getD_take (l : Bytes) (n : Nat) (h : 3 ≤ n) : (l.take n).getD 2 0 = l.getD 2 0 := by
  simp only [List.getD_eq_getElem?_getD, List.getElem?_take]
  rw [if_pos (by omega)]

/-- what `receiveDecodedCore` guarantees when it reports no error for a message that is not a data message:
    a committed version and the key in use are kept, and the last component is set when the message was ignored
    (nothing to send, authentication-state kind unchanged) -/
theorem receiveDecodedCore_ignored (K : Crypto) (msg : Bytes) (s : MState)
    (hake : (msg.getD 2 0).toNat ≠ msgTypeData) :
    wp (receiveDecodedCore K msg)
      (fun r s1 => ∀ p ts rd, r = .ok (p, ts, none, rd) →
        (s.conv.version ≠ none →
          s1.conv.version = s.conv.version ∧ s1.conv.ourCurrentKey = s.conv.ourCurrentKey) ∧
        (ts = [] → akeKind s1.conv = akeKind s.conv → rd = true)) AnyP s := by
  unfold receiveDecodedCore
  simp only [wp_bind, wp_getc, wp_tryCatch]
  refine wp_of_forall _ _ s (fun r s1 hr1 => ?_)
  have h1 : RejF true s s1 := checkVersion_rej msg s r s1 hr1
  have a1 : s1.conv.ake = s.conv.ake := checkVersion_ake msg s r s1 hr1
  cases r with
  | error e =>
    simp only [wp_pure]
    intro p ts rd he
    simp only [Except.ok.injEq, Prod.mk.injEq, reduceCtorEq, false_and, and_false] at he
  | ok u =>
    simp only [wp_pure, wp_bind, wp_tryCatch]
    refine wp_of_forall _ _ s1 (fun r s2 hr2 => ?_)
    have h2 : RejF true s1 s2 := parseMessageHeader_rej msg s1 r s2 hr2
    have a2 : s2.conv.ake = s1.conv.ake := parseMessageHeader_ake msg s1 r s2 hr2
    have h12 : RejF true s s2 := Frame.trans h1 h2
    cases r with
    | error e =>
      simp only [wp_pure]
      intro p ts rd he
      simp only [Except.ok.injEq, Prod.mk.injEq, reduceCtorEq, false_and, and_false] at he
    | ok hb =>
      have hh := parseMessageHeader_header msg _ _ _ hr2
      obtain ⟨header, body⟩ := hb
      simp only [wp_pure, wp_ite']
      refine ⟨fun hd => ?_, fun _ => ?_⟩
      · exfalso
        rcases hh with hh | hh
        · simp only at hh
          rw [hh, getD_take _ _ (by omega)] at hd
          exact hake hd
        · simp only at hh
          rw [hh, getD_take _ _ (by omega)] at hd
          exact hake hd
      · simp only [wp_bind, wp_getc]
        refine wp_of_forall _ _ s2 (fun r s3 hr3 => ?_)
        have h3 : vtKept s3 = vtKept s2 := processAKE_vt K _ body s2 r s3 hr3
        simp only [vtKept, Prod.mk.injEq] at h3
        cases r with
        | error e => intro p ts rd he; cases he
        | ok x =>
          obtain ⟨msgs, err⟩ := x
          simp only [msgEventErr, wp_bind, wp_getc, wp_ite', wp_pure, wp_ev]
          refine ⟨fun hc => ?_, fun hc => ?_⟩
          · intro p ts rd he
            simp only [Except.ok.injEq, Prod.mk.injEq] at he
            obtain ⟨-, hts, herr, hrd⟩ := he
            subst herr
            simp at hc
          · intro p ts rd he
            simp only [Except.ok.injEq, Prod.mk.injEq] at he
            obtain ⟨-, hts, herr, hrd⟩ := he
            subst herr hts
            refine ⟨fun hv => ⟨h3.1.trans (h12.version hv), h3.2.2.trans (h12.ourCurrentKey hv)⟩,
              fun hts hk => ?_⟩
            subst hts
            rw [← hrd]
            have hk2 : akeKind s3.conv = akeKind s2.conv := by
              rw [hk]; unfold akeKind; rw [a2, a1]
            unfold akeKind at hk2
            cases h3a : s3.conv.ake <;> cases h2a : s2.conv.ake <;> simp only [h3a, h2a] at hk2 ⊢ <;>
              first | rfl | simp [hk2] | simp [← hk2]

/-- **an ignored key exchange message (repaired code), at the level of `receiveDecoded`.**  If `receiveDecoded`
    processes a message that is not a data message, reports no error, has nothing to send, and the kind of the
    authentication state is what it was (the message was not a step of a key exchange), then the protocol version,
    the peer's instance tag and the long-term key in use are exactly what they were before — the message did not
    commit the conversation to its version or bind it to its sender.  (What may have changed: the AKE context —
    `none` becomes a fresh context —, the events, the diagnostics.) -/
theorem receiveDecoded_ignored_ake_frame (K : Crypto) (msg : Bytes) (s s' : MState) (p : Option Bytes)
    (hr : runM (receiveDecoded K msg) s = .ok (.ok (p, [], none), s'))
    (hake : (msg.getD 2 0).toNat ≠ msgTypeData) (hkind : akeKind s'.conv = akeKind s.conv) :
    s'.conv.version = s.conv.version ∧ s'.conv.theirTag = s.conv.theirTag ∧
    s'.conv.ourCurrentKey = s.conv.ourCurrentKey := by
  have hw : wp (receiveDecoded K msg)
      (fun r s' => ∀ p, r = .ok (p, [], none) → akeKind s'.conv = akeKind s.conv →
        s'.conv.version = s.conv.version ∧ s'.conv.theirTag = s.conv.theirTag ∧
        s'.conv.ourCurrentKey = s.conv.ourCurrentKey) AnyP s := by
    unfold receiveDecoded
    simp only [wp_bind, wp_getc]
    refine wp_mono _ _ _ _ _ _ (receiveDecodedCore_ignored K msg s hake) ?_ (fun _ hs => hs)
    intro r s1 h1
    cases r with
    | error e => intro p he; cases he
    | ok x =>
      obtain ⟨p1, ts, err, rd⟩ := x
      simp only [wp_ite', wp_bind, wp_modc, wp_pure]
      refine ⟨fun _ => ?_, fun hc => ?_⟩
      · intro p' he hk
        simp only [Except.ok.injEq, Prod.mk.injEq] at he
        obtain ⟨-, hts, herr⟩ := he
        subst hts herr
        obtain ⟨hst, -⟩ := h1 p1 [] rd rfl
        refine ⟨?_, trivial, ?_⟩
        · show (if s.conv.version.isNone then none else s1.conv.version) = s.conv.version
          cases hx : s.conv.version with
          | none => rfl
          | some v =>
            show s1.conv.version = some v
            rw [← hx]
            exact (hst (by rw [hx]; simp)).1
        · show (if s.conv.version.isNone then s.conv.ourCurrentKey else s1.conv.ourCurrentKey) = s.conv.ourCurrentKey
          cases hx : s.conv.version with
          | none => rfl
          | some v =>
            show s1.conv.ourCurrentKey = s.conv.ourCurrentKey
            exact (hst (by rw [hx]; simp)).2
      · intro p' he hk
        simp only [Except.ok.injEq, Prod.mk.injEq] at he
        obtain ⟨-, hts, herr⟩ := he
        subst hts herr
        obtain ⟨-, hrd⟩ := h1 p1 [] rd rfl
        have := hrd rfl hk
        subst this
        simp at hc
  exact wp_of_run _ _ _ _ _ _ hw hr p rfl hkind

/-- **an ignored key exchange message (repaired code), at the level of `Receive`.**  `msg` is a complete
    (non-fragment) key exchange message; `decoded` are its decoded bytes; the run of `receiveDecoded` on them
    reports no error, has nothing to send, and leaves the kind of the authentication state as it was.  Then
    `Receive` reports no error, and protocol version, peer instance tag and long-term key in use are what they
    were before the call.  ("Nothing to send" is stated for the inner run: the outer result also carries pending
    injections, and `toSendEncoded` drops a reply list whose first element is empty.) -/
theorem receive_ignored_ake_frame (K : Crypto) (msg : Bytes) (s s' : MState) (r : RecvResult)
    (hr : runM (receive K msg) s = .ok (.ok r, s'))
    (hguess : guessMessageType msg = .dhCommit ∨ guessMessageType msg = .dhKey ∨
      guessMessageType msg = .revealSig ∨ guessMessageType msg = .signature)
    (decoded : Bytes) (hdec : decodeEnvelope msg = some decoded)
    (hake : (decoded.getD 2 0).toNat ≠ msgTypeData)
    (p : Option Bytes) (s1 : MState) (hd : runM (receiveDecoded K decoded) s = .ok (.ok (p, [], none), s1))
    (hkind : akeKind s1.conv = akeKind s.conv) :
    r.err = none ∧ s'.conv.version = s.conv.version ∧ s'.conv.theirTag = s.conv.theirTag ∧
    s'.conv.ourCurrentKey = s.conv.ourCurrentKey := by
  have h1 := receiveDecoded_ignored_ake_frame K decoded s s1 p hd hake hkind
  have hw : wp (receiveUnit K (msg.length + 1 + 1) msg true)
      (fun r s' => ∀ rr, r = .ok rr → rr.err = none ∧ vtKept s' = vtKept s) AnyP s := by
    have hfin : ∀ (cond : Prop) [Decidable cond] (s2 : MState), vtKept s2 = vtKept s →
        wp (if cond then do
              modc fun c => { c with fragCtx := FragCtx.empty }
              let enc ← toSendEncoded [] none
              let l ← withInjects enc
              pure ({ plain := p, toSend := l, err := none } : RecvResult)
            else do
              let enc ← toSendEncoded [] none
              let l ← withInjects enc
              pure ({ plain := p, toSend := l, err := none } : RecvResult))
          (fun r s' => ∀ rr, r = .ok rr → rr.err = none ∧ vtKept s' = vtKept s) AnyP s2 := by
      intro cond _ s2 h2
      refine wp_of_forall _ _ s2 (fun r s3 hr3 rr hrr => ?_)
      subst hrr
      have hst : Stable VtFrame (if cond then do
              modc fun c => { c with fragCtx := FragCtx.empty }
              let enc ← toSendEncoded [] none
              let l ← withInjects enc
              pure ({ plain := p, toSend := l, err := none } : RecvResult)
            else do
              let enc ← toSendEncoded [] none
              let l ← withInjects enc
              pure ({ plain := p, toSend := l, err := none } : RecvResult)) := by
        stable [toSendEncoded_vt, withInjects_vt]
      have hres : ResultOnly (fun rr : RecvResult => rr.err = none) (if cond then do
              modc fun c => { c with fragCtx := FragCtx.empty }
              let enc ← toSendEncoded [] none
              let l ← withInjects enc
              pure ({ plain := p, toSend := l, err := none } : RecvResult)
            else do
              let enc ← toSendEncoded [] none
              let l ← withInjects enc
              pure ({ plain := p, toSend := l, err := none } : RecvResult)) := by
        split
        · exact ResultOnly.bind fun _ => ResultOnly.bind fun _ => ResultOnly.bind fun _ => ResultOnly.pure rfl
        · exact ResultOnly.bind fun _ => ResultOnly.bind fun _ => ResultOnly.pure rfl
      exact ⟨hres _ _ _ hr3, (show vtKept s3 = vtKept s2 from hst _ _ _ hr3).trans h2⟩
    have hvt1 : vtKept s1 = vtKept s := by
      simp only [vtKept, Prod.mk.injEq]
      exact h1
    rw [receiveUnit]
    simp only [wp_bind, wp_getc, wp_ite', wp_pure]
    refine ⟨fun _ rr hrr => (by simp only [Except.ok.injEq] at hrr; subst hrr; exact ⟨rfl, trivial⟩), fun _ => ?_⟩
    rcases hguess with hg | hg | hg | hg <;>
    · simp only [hg, hdec]
      rw [wp_bind]
      refine wp_of_forall _ _ s (fun r1 s1' hr1 => ?_)
      rw [hd] at hr1
      simp only [Res.ok.injEq, Prod.mk.injEq] at hr1
      obtain ⟨rfl, rfl⟩ := hr1
      show wp _ _ _ _
      rw [wp_ite']
      exact ⟨fun _ => hfin _ _ hvt1, fun _ => hfin _ _ hvt1⟩
  have h2 := wp_of_run _ _ _ _ _ _ hw hr r rfl
  simp only [vtKept, Prod.mk.injEq] at h2
  exact h2


/-- a v2 DH-Key message without a body: `?OTR:AAIK.` -/
def wDHKeyV2 : Bytes := strBytes "?OTR:AAIK."

/-- **an ignored message, concretely.**  The fresh conversation (no key exchange under way) receives a DH-Key
    message: it is ignored — no error, nothing to send — and (repaired code) leaves no trace except the empty AKE
    context: the version is still open, no key is selected, no peer instance bound -/
theorem c06_witness_ignored_dhkey :
    ∃ (s : MState) (msg : Bytes) (r : RecvResult) (s' : MState),
      runM (receive Crypto.dummy msg) s = .ok (.ok r, s') ∧
      (r.err = none ∧ r.plain = none ∧ r.toSend = [] ∧ guessMessageType msg = .dhKey ∧
       s.conv.version = none ∧ s'.conv.version = none ∧ s'.conv.theirTag = 0 ∧ s'.conv.ourCurrentKey = none ∧
       s.conv.ake = none ∧ s'.conv.ake.map (·.state) = some .none) :=
  ⟨wFresh, wDHKeyV2, run_witness (by decide +kernel)⟩

/-- the hypotheses of `receive_ignored_ake_frame` are satisfiable (this very message) -/
example : decodeEnvelope wDHKeyV2 = some [0, 2, 10] ∧ (([0, 2, 10] : Bytes).getD 2 0).toNat ≠ msgTypeData ∧
    ∃ r s1, runM (receiveDecoded Crypto.dummy [0, 2, 10]) wFresh = .ok (.ok r, s1) ∧
      (r = (none, [], none) ∧ akeKind s1.conv = akeKind wFresh.conv) :=
  ⟨by decide +kernel, by decide, run_witness (by decide +kernel)⟩

end Otr
