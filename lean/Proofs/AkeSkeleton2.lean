/-
  Proofs.AkeSkeleton2 — property C07, the skeleton tie finished (continues Proofs.AkeSkeleton §1–§7).

  §8   the whitespace-tag start: wsStart, wsStart_outcomes, receiveTaggedPlaintext_skeleton.
  §9   the error-message start: receiveErrorMessage_skeleton (exact run: a QUERY goes out, no exchange starts).
  §10  `send`: send_skeleton (AKE context and message state untouched by every run), send_requireEncryption_skeleton.
  §11  the summary: the frame `SkKept` (AKE context and message state untouched), the relation `SkelStep`,
         receiveDataMessage_disc, receiveDecoded_skel, receiveUnit_skel, receive_skeleton_complete,
         endSession_skel, ake_skeleton_complete (every `ApiCall`).
  §12  non-vacuity examples for §8–§11.
  §13  the converse guards: KeyGuards / processAKE_key_taken_iff, RevealGuards / processAKE_reveal_taken_iff,
         CommitGuards / recvDHCommitNone_taken_iff / processAKE_commit_taken_of_guards (rows none, awaitSig,
         awaitRevealSig), ResendGuards / processAKE_commit_awaitingDHKey (the hash comparison);
         what the guards need: wrapMessageHeader_ok_iff (version committed, v3: instance tag can be drawn),
         KeyGuards.needs, RevealGuards.needs (long-term key selected, version committed).
  §14  non-vacuity examples for §13.
-/
import Proofs.AkeSkeleton
import Proofs.Events
import Proofs.KeysRefine
set_option linter.unusedSimpArgs false
set_option linter.unusedVariables false
namespace Otr
open AkeAbs (Auth Party Msg recvAke)

/-! ## 8. the whitespace-tag start -/

/-- the part of `receiveTaggedPlaintext` that runs under WHITESPACE_START_AKE: commit to a version offered by
    the tag, then `sendDHCommit` -/
def wsStart (K : Crypto) (versions : Nat) : M (List Bytes × Option Err) := do
  let r ← tryCatch (do commitToVersionFrom versions; pure none) (fun e => pure (some e))
  match r with
  | some e => pure ([], some e)
  | none =>
    let r ← tryCatch (do let m ← sendDHCommit K; pure (Except.ok m)) (fun e => pure (Except.error e))
    match r with
    | .ok m => pure ([m], none)
    | .error e => do msgEventErr evSetupError; pure ([], some e)

theorem receiveTaggedPlaintext_run (K : Crypto) (msg : Bytes) (s : MState) :
    runM (receiveTaggedPlaintext K msg) s =
      bindM (runM (if (!polHas s.conv.policies whitespaceStartAKE) = true then pure ([], none)
          else wsStart K (extractWhitespaceTag msg).2) s)
        (fun x s1 => bindM (runM (checkPlaintextPolicies (extractWhitespaceTag msg).1) s1)
          (fun _ s2 => .ok (.ok (some (extractWhitespaceTag msg).1, x.1, x.2), s2))) := by
  unfold receiveTaggedPlaintext wsStart
  simp only [runM_bind, runM_getc, bindM_ok, runM_pure, bindM_assoc]
  split
  · simp only [runM_bind, runM_pure, bindM_ok]
  · simp only [runM_bind, bindM_assoc]
    congr 1
    funext r s1
    cases r with
    | some e => simp only [runM_bind, runM_pure, bindM_ok]
    | none =>
      simp only [runM_bind, bindM_assoc]
      congr 1
      funext r s2
      cases r with
      | ok m => simp only [runM_bind, runM_pure, bindM_ok]
      | error e => simp only [runM_bind, runM_pure, bindM_ok, bindM_assoc]

/-- the version choice returned no error: `commitToVersionFrom` succeeded -/
theorem attemptCommit_none (vs : Nat) (s s1 : MState)
    (h : runM (tryCatch (do commitToVersionFrom vs; pure (none : Option Err)) (fun e => pure (some e))) s =
      .ok (.ok none, s1)) : runM (commitToVersionFrom vs) s = .ok (.ok (), s1) := by
  rw [runM_tryCatch, runM_bind] at h
  cases hx : runM (commitToVersionFrom vs) s with
  | panic p => rw [hx] at h; cases h
  | ok v =>
    obtain ⟨v, s2⟩ := v
    rw [hx] at h
    cases v with
    | error e => simp only [bindM_error, catchM_error, runM_pure, Res.ok.injEq, Prod.mk.injEq, Except.ok.injEq,
        reduceCtorEq, false_and] at h
    | ok u =>
      simp only [bindM_ok, runM_pure, catchM_ok, Res.ok.injEq, Prod.mk.injEq, true_and] at h
      rw [h]

/-- **every non-panicking run of the whitespace start**: nothing is thrown, the encryption state and the clock
    are untouched, and
      * no version offered by the tag is allowed (or no key): an error is returned, the AKE context is untouched, or
      * the version choice succeeded and `sendDHCommit` ran, with its two outcomes (`sendDHCommit_outcomes`). -/
theorem wsStart_outcomes (K : Crypto) (vs : Nat) (s : MState) (r : Except Err (List Bytes × Option Err))
    (s' : MState) (h : runM (wsStart K vs) s = .ok (r, s')) :
    s'.conv.msgState = s.conv.msgState ∧
    ((∃ e, r = .ok ([], some e)) ∧ s'.conv.ake = s.conv.ake ∨
     ((∃ s1, runM (commitToVersionFrom vs) s = .ok (.ok (), s1)) ∧
       ∃ a', s'.conv.ake = some a' ∧ a'.lastStateChange = none ∧
        ((∃ m, r = .ok ([m], none)) ∧ a'.state = .awaitingDHKey ∨
         (∃ e, r = .ok ([], some e)) ∧ a'.state = .none))) := by
  unfold wsStart at h
  rw [runM_bind] at h
  have hst : Stable StartFrame
      (tryCatch (do commitToVersionFrom vs; pure (none : Option Err)) (fun e => pure (some e))) := by
    stable [commitToVersionFrom_start]
  cases hx : runM (tryCatch (do commitToVersionFrom vs; pure (none : Option Err)) (fun e => pure (some e))) s with
  | panic p => rw [hx] at h; cases h
  | ok v =>
    obtain ⟨v, s1⟩ := v
    rw [hx] at h
    have hk : startKept s1 = startKept s := hst _ _ _ hx
    unfold startKept at hk
    simp only [Prod.mk.injEq] at hk
    obtain ⟨hka, hkm, hkl, hkn⟩ := hk
    cases v with
    | error e =>
      exfalso
      rw [runM_tryCatch] at hx
      cases hy : runM (do commitToVersionFrom vs; pure (none : Option Err)) s with
      | panic p => rw [hy] at hx; cases hx
      | ok w =>
        obtain ⟨w, s2⟩ := w
        rw [hy] at hx
        cases w <;> simp at hx
    | ok oe =>
      simp only [bindM_ok] at h
      cases oe with
      | some e =>
        simp only [runM_pure, Res.ok.injEq, Prod.mk.injEq] at h
        obtain ⟨rfl, rfl⟩ := h
        exact ⟨hkm, Or.inl ⟨⟨e, rfl⟩, hka⟩⟩
      | none =>
        have hcommit := attemptCommit_none vs s s1 hx
        simp only at h
        rw [runM_bind, runM_tryCatch, runM_bind] at h
        cases hsd : runM (sendDHCommit K) s1 with
        | panic p => rw [hsd] at h; cases h
        | ok w =>
          obtain ⟨w, s2⟩ := w
          rw [hsd] at h
          obtain ⟨hms, -, a', ha', hls, hcase⟩ := sendDHCommit_outcomes K s1 w s2 hsd
          cases w with
          | ok m =>
            simp only [bindM_ok, runM_pure, catchM_ok, Res.ok.injEq, Prod.mk.injEq] at h
            obtain ⟨rfl, rfl⟩ := h
            rcases hcase with ⟨-, hst'⟩ | ⟨⟨e, he⟩, -⟩
            · exact ⟨hms.trans hkm, Or.inr ⟨⟨s1, hcommit⟩, a', ha', hls, Or.inl ⟨⟨m, rfl⟩, hst'⟩⟩⟩
            · cases he
          | error e =>
            simp only [bindM_error, catchM_error, bindM_ok, runM_bind, msgEventErr, runM_ev, runM_pure, Res.ok.injEq,
              Prod.mk.injEq] at h
            obtain ⟨rfl, rfl⟩ := h
            rcases hcase with ⟨⟨m, hm⟩, -⟩ | ⟨-, hst'⟩
            · cases hm
            · exact ⟨hms.trans hkm, Or.inr ⟨⟨s1, hcommit⟩, a', ha', hls, Or.inr ⟨⟨e, rfl⟩, hst'⟩⟩⟩

/-- AKE context and message state: what the skeleton observes -/
def skProj (s : MState) : Option Ake × MsgState := (s.conv.ake, s.conv.msgState)

/-- the AKE context and the message state are untouched -/
abbrev SkKept : MState → MState → Prop := Keeps skProj

theorem Stable.sk_of_ka {α} {x : M α} (h1 : Stable KAFrame x) (h2 : Stable Life x) : Stable SkKept x :=
  fun s r s' hr => Prod.ext (congrArg Prod.snd (h1 s r s' hr)) (h2 s r s' hr).1

theorem Stable.sk_of_s {α} {K : Crypto} {x : M α} (h1 : Stable (SRel K) x) (h2 : Stable Life x) : Stable SkKept x :=
  fun s r s' hr => Prod.ext (h1 s r s' hr).2 (h2 s r s' hr).1

theorem checkPlaintextPolicies_sk (p : Bytes) : Stable SkKept (checkPlaintextPolicies p) :=
  Stable.sk_of_ka (checkPlaintextPolicies_ka p) (checkPlaintextPolicies_life p)

theorem checkPlaintextPolicies_noThrow (p : Bytes) : NoThrowV (checkPlaintextPolicies p) := by
  unfold checkPlaintextPolicies msgEventMsg
  nothrow

/-- **the whitespace-tag start (`AkeAbs.startAKE`).**  Every non-panicking run of `receiveTaggedPlaintext`, for
    every crypto record, state and message: nothing is thrown, the text without the tag is delivered, the
    encryption flag is untouched, and
      * the AKE context is untouched — the policy lacks WHITESPACE_START_AKE (then nothing is sent and no error
        returned), or no version offered by the tag is allowed / no key (then an error is returned), or
      * the policy has WHITESPACE_START_AKE, the version choice `commitToVersionFrom` on the versions of the tag
        succeeded, and `sendDHCommit` ran: the D-H Commit message is what goes out, the state is `awaitingDHKey`
        in a fresh AKE context with no time stamp (`startAKE`); or building it failed (random source, header):
        an error is returned, the fresh AKE context is in state `none`. -/
theorem receiveTaggedPlaintext_skeleton (K : Crypto) (msg : Bytes) (s : MState)
    (r : Except Err (Option Bytes × List Bytes × Option Err)) (s' : MState)
    (h : runM (receiveTaggedPlaintext K msg) s = .ok (r, s')) :
    absEnc s'.conv = absEnc s.conv ∧
    ∃ toSend err, r = .ok (some (extractWhitespaceTag msg).1, toSend, err) ∧
    ((s'.conv.ake = s.conv.ake ∧
        ((polHas s.conv.policies whitespaceStartAKE = false ∧ toSend = [] ∧ err = none) ∨
         (polHas s.conv.policies whitespaceStartAKE = true ∧ toSend = [] ∧ err ≠ none))) ∨
     (polHas s.conv.policies whitespaceStartAKE = true ∧
      (∃ s1, runM (commitToVersionFrom (extractWhitespaceTag msg).2) s = .ok (.ok (), s1)) ∧
      ∃ a', s'.conv.ake = some a' ∧ a'.lastStateChange = none ∧
        ((∃ m, toSend = [m] ∧ err = none) ∧ a'.state = .awaitingDHKey ∨
         (toSend = [] ∧ err ≠ none) ∧ a'.state = .none))) := by
  rw [receiveTaggedPlaintext_run] at h
  -- the first part: `x`, run from `s` to `s1`
  have hfirst : ∀ (x : Except Err (List Bytes × Option Err)) (s1 : MState),
      runM (if (!polHas s.conv.policies whitespaceStartAKE) = true then pure ([], none)
        else wsStart K (extractWhitespaceTag msg).2) s = .ok (x, s1) →
      s1.conv.msgState = s.conv.msgState ∧ ∃ toSend err, x = .ok (toSend, err) ∧
      ((s1.conv.ake = s.conv.ake ∧
        ((polHas s.conv.policies whitespaceStartAKE = false ∧ toSend = [] ∧ err = none) ∨
         (polHas s.conv.policies whitespaceStartAKE = true ∧ toSend = [] ∧ err ≠ none))) ∨
       (polHas s.conv.policies whitespaceStartAKE = true ∧
        (∃ s1, runM (commitToVersionFrom (extractWhitespaceTag msg).2) s = .ok (.ok (), s1)) ∧
        ∃ a', s1.conv.ake = some a' ∧ a'.lastStateChange = none ∧
          ((∃ m, toSend = [m] ∧ err = none) ∧ a'.state = .awaitingDHKey ∨
           (toSend = [] ∧ err ≠ none) ∧ a'.state = .none))) := by
    intro x s1 hx
    cases hp : polHas s.conv.policies whitespaceStartAKE with
    | false =>
      rw [hp] at hx
      simp only [Bool.not_false, ↓reduceIte, runM_pure, Res.ok.injEq, Prod.mk.injEq] at hx
      obtain ⟨rfl, rfl⟩ := hx
      exact ⟨rfl, [], none, rfl, Or.inl ⟨rfl, Or.inl ⟨rfl, rfl, rfl⟩⟩⟩
    | true =>
      rw [hp] at hx
      simp only [Bool.not_true, Bool.false_eq_true, ↓reduceIte] at hx
      obtain ⟨hms, hcase⟩ := wsStart_outcomes K _ s x s1 hx
      refine ⟨hms, ?_⟩
      rcases hcase with ⟨⟨e, rfl⟩, hake⟩ | ⟨hcm, a', ha', hls, hcase⟩
      · exact ⟨[], some e, rfl, Or.inl ⟨hake, Or.inr ⟨rfl, rfl, by simp⟩⟩⟩
      · rcases hcase with ⟨⟨m, rfl⟩, hst⟩ | ⟨⟨e, rfl⟩, hst⟩
        · exact ⟨[m], none, rfl, Or.inr ⟨rfl, hcm, a', ha', hls, Or.inl ⟨⟨m, rfl, rfl⟩, hst⟩⟩⟩
        · exact ⟨[], some e, rfl, Or.inr ⟨rfl, hcm, a', ha', hls, Or.inr ⟨⟨rfl, by simp⟩, hst⟩⟩⟩
  cases hx : runM (if (!polHas s.conv.policies whitespaceStartAKE) = true then pure ([], none)
        else wsStart K (extractWhitespaceTag msg).2) s with
  | panic p => rw [hx] at h; cases h
  | ok v =>
    obtain ⟨x, s1⟩ := v
    rw [hx] at h
    obtain ⟨hms1, toSend, err, rfl, hcase⟩ := hfirst x s1 hx
    simp only [bindM_ok] at h
    cases hc : runM (checkPlaintextPolicies (extractWhitespaceTag msg).1) s1 with
    | panic p => rw [hc] at h; cases h
    | ok w =>
      obtain ⟨w, s2⟩ := w
      rw [hc] at h
      have hk : skProj s2 = skProj s1 := checkPlaintextPolicies_sk _ _ _ _ hc
      have hka : s2.conv.ake = s1.conv.ake := congrArg Prod.fst hk
      have hkm : s2.conv.msgState = s1.conv.msgState := congrArg Prod.snd hk
      cases w with
      | error e => exact absurd hc (checkPlaintextPolicies_noThrow _ _ _ _)
      | ok u =>
        simp only [bindM_ok, runM_pure, Res.ok.injEq, Prod.mk.injEq] at h
        obtain ⟨rfl, rfl⟩ := h
        refine ⟨by unfold absEnc; rw [hkm, hms1], toSend, err, rfl, ?_⟩
        rw [hka]
        exact hcase

/-! ## 9. the error-message start -/

/-- **the error message (`?OTR Error:`).**  `receiveErrorMessage` never panics and never throws; the AKE context
    and the message state are untouched — with ERROR_START_AKE it does NOT start an exchange itself: what goes out
    is the query message (the peer's answer to it, a D-H Commit, starts the exchange); without the policy nothing
    goes out. -/
theorem receiveErrorMessage_skeleton (msg : Bytes) (s : MState) :
    ∃ s', runM (receiveErrorMessage msg) s =
        .ok (.ok (if polHas s.conv.policies errorStartAKE = true
                  then [queryMessage s.conv.policies s.conv.friendlyQuery] else []), s') ∧
      s'.conv.ake = s.conv.ake ∧ s'.conv.msgState = s.conv.msgState ∧
      absAuth s'.conv = absAuth s.conv ∧ absEnc s'.conv = absEnc s.conv ∧ absHasAke s'.conv = absHasAke s.conv := by
  unfold receiveErrorMessage msgEventMsg
  cases hm : (s.conv.msgState == MsgState.encrypted) <;>
    simp only [runM_bind, runM_getc, bindM_ok, hm, Bool.false_eq_true, ↓reduceIte, runM_pure, runM_modc, runM_ev] <;>
    exact ⟨_, rfl, rfl, rfl, rfl, rfl, rfl⟩

/-! ## 10. `send` -/

theorem absAuth_congr {c c' : Conv} (h : c'.ake = c.ake) : absAuth c' = absAuth c := by
  unfold absAuth authStateOf; rw [h]

theorem absHasAke_congr {c c' : Conv} (h : c'.ake = c.ake) : absHasAke c' = absHasAke c := by
  unfold absHasAke; rw [h]

theorem absEnc_congr {c c' : Conv} (h : c'.msgState = c.msgState) : absEnc c' = absEnc c := by
  unfold absEnc; rw [h]

theorem send_sk (K : Crypto) (m : Bytes) : Stable SkKept (send K m) :=
  Stable.sk_of_s (send_s K m) (send_life K m)

/-- **`Send` never moves the key-exchange state machine**: every non-panicking run of `send` (any state, any
    text, thrown or not) leaves the AKE context and the message state untouched -/
theorem send_skeleton (K : Crypto) (m : Bytes) (s : MState) (r : Except Err (List Bytes × Option Err)) (s' : MState)
    (h : runM (send K m) s = .ok (r, s')) :
    s'.conv.ake = s.conv.ake ∧ s'.conv.msgState = s.conv.msgState ∧
    absAuth s'.conv = absAuth s.conv ∧ absEnc s'.conv = absEnc s.conv ∧ absHasAke s'.conv = absHasAke s.conv := by
  have hk : skProj s' = skProj s := send_sk K m s r s' h
  have hka : s'.conv.ake = s.conv.ake := congrArg Prod.fst hk
  have hkm : s'.conv.msgState = s.conv.msgState := congrArg Prod.snd hk
  exact ⟨hka, hkm, absAuth_congr hka, absEnc_congr hkm, absHasAke_congr hka⟩

/-- **`Send` under REQUIRE_ENCRYPTION in the plaintext state** (skeleton form of `send_requireEncryption`): the run
    does not panic, the text is NOT sent: the query message goes out (followed by pending injections), the text is
    queued for resending, no error; AKE context and message state untouched — the exchange is started by the
    peer's answer to the query. -/
theorem send_requireEncryption_skeleton (K : Crypto) (m : Bytes) (s : MState)
    (hp : isOTREnabled s.conv.policies = true) (hm : s.conv.msgState = .plainText)
    (hr : polHas s.conv.policies requireEncryption = true) :
    ∃ s', runM (send K m) s =
        .ok (.ok (queryMessage s.conv.policies s.conv.friendlyQuery :: s.conv.injections, none), s') ∧
      s'.conv.ake = s.conv.ake ∧ s'.conv.msgState = s.conv.msgState ∧
      absAuth s'.conv = absAuth s.conv ∧ absEnc s'.conv = absEnc s.conv ∧ absHasAke s'.conv = absHasAke s.conv := by
  have hrun : ∃ s', runM (send K m) s =
      .ok (.ok (queryMessage s.conv.policies s.conv.friendlyQuery :: s.conv.injections, none), s') := by
    unfold send
    by_cases he : s.conv.mayRetransmit = .exact <;> by_cases hrt : s.conv.retransmitting = true <;>
      simp [hp, hm, hr, hrt, he, withInjects, updateLastSent, resendLater]
  obtain ⟨s', h⟩ := hrun
  exact ⟨s', h, send_skeleton K m s _ s' h⟩

/-! ## 11. the summary: every way an API call moves the skeleton -/

/-- **one observed step of the skeleton** between two conversation states (`c` before, `c'` after):
      1. nothing: `auth` and `enc` unchanged;
      2. a row of `allowedTransitions`, i.e. a step of `AkeAbs.recvAke` (`allowed_iff`);
      3. `AkeAbs.startAKE`: `awaitDHKey`, `enc` unchanged, an AKE context without time stamp;
      4. the reset: the exchange in progress is abandoned (`auth` becomes `none`, `enc` unchanged, the AKE context
         exists) — the D-H Commit answer or the D-H Commit message itself could not be built
         (`processAKE_reset_witness`; `sendDHCommit_outcomes`, failing branch);
      5. the peer's disconnect: the conversation was encrypted, is `finished` now and has no AKE context. -/
def SkelStep (c c' : Conv) : Prop :=
  (absAuth c', absEnc c') = (absAuth c, absEnc c) ∨
  (∃ k, (absAuth c, absEnc c, k, absAuth c', absEnc c') ∈ allowedTransitions) ∨
  (absAuth c' = .awaitDHKey ∧ absEnc c' = absEnc c ∧ absHasAke c' = true ∧ ∀ now, absAkeStamped c' now = false) ∨
  (absAuth c' = .none ∧ absEnc c' = absEnc c ∧ absHasAke c' = true) ∨
  (absEnc c = true ∧ c'.msgState = .finished ∧ c'.ake = none)

/-- the third clause of `SkelStep` is `AkeAbs.startAKE` -/
theorem startClause_is_startAKE (c c' : Conv)
    (h : absAuth c' = .awaitDHKey ∧ absEnc c' = absEnc c ∧ absHasAke c' = true ∧ ∀ now, absAkeStamped c' now = false)
    (p : Party) (hp : p.enc = absEnc c) (now : Nat) :
    absAuth c' = (AkeAbs.startAKE p).1.auth ∧ absEnc c' = (AkeAbs.startAKE p).1.enc ∧
    absHasAke c' = (AkeAbs.startAKE p).1.hasAke ∧ absAkeStamped c' now = (AkeAbs.startAKE p).1.akeStamped := by
  obtain ⟨h1, h2, h3, h4⟩ := h
  exact ⟨h1, by rw [h2, ← hp]; rfl, h3, h4 now⟩

/-- the fifth clause of `SkelStep`, on the skeleton: no exchange in progress, not encrypted, no AKE context -/
theorem disconnectClause_abs (c c' : Conv) (h : absEnc c = true ∧ c'.msgState = .finished ∧ c'.ake = none) :
    absAuth c' = .none ∧ absEnc c' = false ∧ absHasAke c' = false := by
  obtain ⟨-, h2, h3⟩ := h
  exact ⟨absAuth_none h3, by unfold absEnc; rw [h2]; rfl, by unfold absHasAke; rw [h3]; rfl⟩

/-- `SkelStep` between the conversations of two states -/
def SkR (s s' : MState) : Prop := SkelStep s.conv s'.conv

theorem absAkeStamped_congr {c c' : Conv} (h : c'.ake = c.ake) (now : Nat) :
    absAkeStamped c' now = absAkeStamped c now := by
  unfold absAkeStamped; rw [h]

theorem skKept_ake {s s' : MState} (h : SkKept s s') : s'.conv.ake = s.conv.ake := congrArg Prod.fst h
theorem skKept_msgState {s s' : MState} (h : SkKept s s') : s'.conv.msgState = s.conv.msgState := congrArg Prod.snd h

/-- relations that absorb steps leaving AKE context and message state alone, in front -/
class SkPre (R : MState → MState → Prop) : Prop where
  ofKept : ∀ {s s'}, SkKept s s' → R s s'
  pre : ∀ {a b c}, SkKept a b → R b c → R a c

/-- … and behind -/
class SkPost (R : MState → MState → Prop) : Prop where
  post : ∀ {a b c}, R a b → SkKept b c → R a c

instance : SkPre SkR where
  ofKept h := Or.inl (by rw [absAuth_congr (skKept_ake h), absEnc_congr (skKept_msgState h)])
  pre {a b c} h1 h2 := by
    have ha := absAuth_congr (skKept_ake h1)
    have he := absEnc_congr (skKept_msgState h1)
    unfold SkR SkelStep at h2 ⊢
    rw [ha, he] at h2
    exact h2

instance : SkPost SkR where
  post {a b c} h1 h2 := by
    have ha := absAuth_congr (skKept_ake h2)
    have he := absEnc_congr (skKept_msgState h2)
    have hh := absHasAke_congr (skKept_ake h2)
    have hs := fun now => absAkeStamped_congr (skKept_ake h2) now
    unfold SkR SkelStep at h1 ⊢
    rw [ha, he, hh, skKept_ake h2, skKept_msgState h2]
    simp only [hs]
    exact h1

section SkAbsorb
variable {R : MState → MState → Prop} {α β : Type}

theorem Stable.sk_ofKept [SkPre R] {x : M α} (h : Stable SkKept x) : Stable R x :=
  Stable.mono (fun _ _ => SkPre.ofKept) h

theorem Stable.sk_pre_bind [SkPre R] {x : M α} {f : α → M β} (hx : Stable SkKept x) (hf : ∀ a, Stable R (f a)) :
    Stable R (x >>= f) := by
  intro s r s' h
  rw [runM_bind] at h
  cases hx' : runM x s with
  | panic p => rw [hx'] at h; cases h
  | ok v =>
    obtain ⟨v, s1⟩ := v
    rw [hx'] at h
    have h1 := hx s v s1 hx'
    cases v with
    | error e =>
      simp only [bindM_error, Res.ok.injEq, Prod.mk.injEq] at h
      rw [← h.2]; exact SkPre.ofKept h1
    | ok a =>
      simp only [bindM_ok] at h
      exact SkPre.pre h1 (hf a s1 r s' h)

theorem Stable.sk_post_bind [SkPost R] {x : M α} {f : α → M β} (hx : Stable R x) (hf : ∀ a, Stable SkKept (f a)) :
    Stable R (x >>= f) := by
  intro s r s' h
  rw [runM_bind] at h
  cases hx' : runM x s with
  | panic p => rw [hx'] at h; cases h
  | ok v =>
    obtain ⟨v, s1⟩ := v
    rw [hx'] at h
    have h1 := hx s v s1 hx'
    cases v with
    | error e =>
      simp only [bindM_error, Res.ok.injEq, Prod.mk.injEq] at h
      rw [← h.2]; exact h1
    | ok a =>
      simp only [bindM_ok] at h
      exact SkPost.post h1 (hf a s1 r s' h)

end SkAbsorb

/-! ### the pieces that leave AKE context and message state alone -/

theorem msgEvent_sk (n : Nat) : Stable SkKept (msgEvent n) := by unfold msgEvent; stable []
theorem msgEventErr_sk (n : Nat) : Stable SkKept (msgEventErr n) := by unfold msgEventErr; stable []
theorem secEvent_sk (n : Nat) : Stable SkKept (secEvent n) := by unfold secEvent; stable []
theorem randRead_sk (n : Nat) : Stable SkKept (randRead n) := Stable.sk_of_ka (randRead_ka n) (randRead_life n)
theorem withInjects_sk (vms : List Bytes) : Stable SkKept (withInjects vms) :=
  Stable.sk_of_ka (withInjects_ka vms) (withInjects_life vms)
theorem toSendEncoded_sk (ts : List Bytes) (e : Option Err) : Stable SkKept (toSendEncoded ts e) :=
  Stable.sk_of_ka (toSendEncoded_ka ts e) (toSendEncoded_life ts e)
theorem receiveFragment_sk (b : FragCtx) (d : Bytes) : Stable SkKept (receiveFragment b d) :=
  Stable.sk_of_ka (receiveFragment_ka b d) (receiveFragment_life b d)
theorem receiveErrorMessage_sk (m : Bytes) : Stable SkKept (receiveErrorMessage m) :=
  Stable.sk_of_ka (receiveErrorMessage_ka m) (receiveErrorMessage_life m)
theorem checkVersion_sk (m : Bytes) : Stable SkKept (checkVersion m) :=
  Stable.sk_of_ka (checkVersion_ka m) (checkVersion_life m)
theorem parseMessageHeader_sk (m : Bytes) : Stable SkKept (parseMessageHeader m) :=
  Stable.sk_of_ka (parseMessageHeader_ka m) (parseMessageHeader_life m)
theorem wrapMessageHeader_sk (t : Nat) (m : Bytes) : Stable SkKept (wrapMessageHeader t m) :=
  Stable.sk_of_ka (wrapMessageHeader_ka t m) (wrapMessageHeader_life t m)
theorem genDataMsgWithFlag_sk (K : Crypto) (m : Bytes) (f : Nat) (tlvs : List Tlv) :
    Stable SkKept (genDataMsgWithFlag K m f tlvs) :=
  Stable.sk_of_s (genDataMsgWithFlag_s K m f tlvs) (genDataMsgWithFlag_life K m f tlvs)
theorem potentialHeartbeat_sk (K : Crypto) (p : Option Bytes) : Stable SkKept (potentialHeartbeat K p) :=
  Stable.sk_of_s (potentialHeartbeat_s K p) (potentialHeartbeat_life K p)
theorem notifyDataMessageError_sk (e : Err) : Stable SkKept (notifyDataMessageError e) :=
  Stable.sk_of_ka (notifyDataMessageError_ka e) (notifyDataMessageError_life e)
theorem processSMPTLV_sk (K : Crypto) (t : Tlv) : Stable SkKept (processSMPTLV K t) :=
  Stable.sk_of_ka (processSMPTLV_ka K t) (processSMPTLV_life K t)
theorem processExtraSymmetricKeyTLV_sk (t : Tlv) (x : Bytes) : Stable SkKept (processExtraSymmetricKeyTLV t x) :=
  Stable.sk_of_ka (processExtraSymmetricKeyTLV_ka t x) (processExtraSymmetricKeyTLV_life t x)

/-! ### data messages: quiet, or the disconnect -/

/-- AKE context and message state untouched, or the session was ended by a disconnect TLV -/
def DataFrame (s s' : MState) : Prop :=
  skProj s' = skProj s ∨ (s'.conv.ake = none ∧ s'.conv.msgState = .finished)

instance : Frame DataFrame where
  refl _ := Or.inl rfl
  trans {a b c} h1 h2 := by
    rcases h2 with h2 | h2
    · rcases h1 with h1 | h1
      · exact Or.inl (h2.trans h1)
      · exact Or.inr ⟨(skKept_ake h2).trans h1.1, (skKept_msgState h2).trans h1.2⟩
    · exact Or.inr h2

theorem Stable.sk_data {α} {x : M α} (h : Stable SkKept x) : Stable DataFrame x :=
  Stable.mono (fun _ _ h => Or.inl h) h

theorem processDisconnectedTLV_data : Stable DataFrame processDisconnectedTLV := by
  unfold processDisconnectedTLV
  refine Stable.bind Stable.getc fun c => ?_
  refine Stable.bind (Stable.modc _ (fun s => Or.inr ⟨rfl, rfl⟩)) fun _ => ?_
  split
  · exact (secEvent_sk _).sk_data
  · exact Stable.pure _

macro "data_core" : tactic => `(tactic| first
  | exact Stable.pure _ | exact Stable.throw _ | exact Stable.goPanic _
  | exact Stable.getc | exact Stable.get | exact Stable.now
  | exact Stable.modc _ (fun _ => Or.inl rfl) | exact Stable.mism _ (fun _ => Or.inl rfl)
  | exact Stable.ev _ (fun _ => Or.inl rfl)
  | with_reducible apply Stable.bind | with_reducible apply Stable.tryCatch
  | with_reducible apply Stable.ite | with_reducible apply Stable.map
  | with_reducible apply Stable.forIn)

syntax "data_walk" "[" term,* "]" : tactic
macro_rules
  | `(tactic| data_walk [$ls,*]) => do
    let tacs ← ls.getElems.mapM fun l => `(tactic| with_reducible apply $l)
    `(tactic| repeat' (first | data_core $[| $tacs:tactic]* | with_reducible intro _ | split | dsimp only))

theorem processTLVs_data (K : Crypto) (tlvs : List Tlv) (x : Bytes) : Stable DataFrame (processTLVs K tlvs x) := by
  unfold processTLVs
  data_walk [processDisconnectedTLV_data, (processExtraSymmetricKeyTLV_sk _ _).sk_data, (processSMPTLV_sk K _).sk_data]

theorem processDataMessageTail_data (K : Crypto) (dm : DataMsg) (tlvs : List Tlv) (x : Bytes) :
    Stable DataFrame (processDataMessageTail K dm tlvs x) := by
  unfold processDataMessageTail
  data_walk [processTLVs_data, (randRead_sk _).sk_data, (genDataMsgWithFlag_sk _ _ _ _).sk_data,
    (wrapMessageHeader_sk _ _).sk_data]

theorem processDataMessageRaw_data (K : Crypto) (h m : Bytes) : Stable DataFrame (processDataMessageRaw K h m) := by
  unfold processDataMessageRaw
  data_walk [processDataMessageTail_data, (msgEvent_sk _).sk_data]

/-- quiet, or the disconnect out of the encrypted state -/
def DataE (s s' : MState) : Prop :=
  skProj s' = skProj s ∨ (s.conv.msgState = .encrypted ∧ s'.conv.ake = none ∧ s'.conv.msgState = .finished)

instance : SkPre DataE where
  ofKept h := Or.inl h
  pre {a b c} h1 h2 := by
    rcases h2 with h2 | h2
    · exact Or.inl (h2.trans h1)
    · exact Or.inr ⟨by rw [← skKept_msgState h1]; exact h2.1, h2.2⟩

instance : SkPost DataE where
  post {a b c} h1 h2 := by
    rcases h1 with h1 | h1
    · exact Or.inl (h2.trans h1)
    · exact Or.inr ⟨h1.1, (skKept_ake h2).trans h1.2.1, (skKept_msgState h2).trans h1.2.2⟩

open ConvData in
theorem processDataMessageRaw_dataE (K : Crypto) (h m : Bytes) : Stable DataE (processDataMessageRaw K h m) := by
  intro s r s' hr
  by_cases he : s.conv.msgState = .encrypted
  · rcases processDataMessageRaw_data K h m s r s' hr with h1 | h1
    · exact Or.inl h1
    · exact Or.inr ⟨he, h1⟩
  · have h0 : runM (processDataMessageRaw K h m) s = _ := c02_not_encrypted K h m s he
    rw [hr] at h0
    simp only [Res.ok.injEq, Prod.mk.injEq] at h0
    rw [h0.2]
    exact Or.inl rfl

theorem receiveDataMessage_dataE (K : Crypto) (h b : Bytes) : Stable DataE (receiveDataMessage K h b) := by
  unfold receiveDataMessage
  refine Stable.sk_post_bind (processDataMessageRaw_dataE K h _) fun x => ?_
  stable [potentialHeartbeat_sk, notifyDataMessageError_sk]

/-- **a data message moves the skeleton only by the peer's disconnect** (out of the encrypted state: the AKE
    context is wiped, the state is `finished`); otherwise AKE context and message state are untouched -/
theorem receiveDataMessage_disc (K : Crypto) (h b : Bytes) (s : MState)
    (r : Except Err (Option Bytes × List Bytes × Option Err)) (s' : MState)
    (hr : runM (receiveDataMessage K h b) s = .ok (r, s')) :
    (s'.conv.ake = s.conv.ake ∧ s'.conv.msgState = s.conv.msgState) ∨
    (s.conv.msgState = .encrypted ∧ s'.conv.ake = none ∧ s'.conv.msgState = .finished) := by
  rcases receiveDataMessage_dataE K h b s r s' hr with h1 | h1
  · exact Or.inl ⟨skKept_ake h1, skKept_msgState h1⟩
  · exact Or.inr h1

theorem Stable.dataE_skR {α} {x : M α} (h : Stable DataE x) : Stable SkR x :=
  Stable.mono (fun s s' h => by
    rcases h with h | h
    · exact SkPre.ofKept h
    · exact Or.inr (Or.inr (Or.inr (Or.inr ⟨by unfold absEnc; rw [h.1]; rfl, h.2.2, h.2.1⟩)))) h

/-! ### the three places where `receive` moves the skeleton -/

theorem processAKE_skR (K : Crypto) (t : Nat) (m : Bytes) : Stable SkR (processAKE K t m) := by
  intro s r s' h
  obtain ⟨hh, hcase⟩ := processAKE_skeleton_table K t m s r s' h
  rcases hcase with h0 | ⟨k, -, hmem⟩ | ⟨-, h1, h2, -⟩
  · exact Or.inl h0
  · exact Or.inr (Or.inl ⟨k, hmem⟩)
  · exact Or.inr (Or.inr (Or.inr (Or.inl ⟨h1, h2, hh⟩)))

theorem skR_of_started {s s' : MState} (henc : absEnc s'.conv = absEnc s.conv) (a' : Ake)
    (ha' : s'.conv.ake = some a') (hls : a'.lastStateChange = none)
    (hst : a'.state = .awaitingDHKey ∨ a'.state = .none) : SkR s s' := by
  have hh : absHasAke s'.conv = true := by unfold absHasAke; rw [ha']; rfl
  rcases hst with hst | hst
  · refine Or.inr (Or.inr (Or.inl ⟨by rw [absAuth_some ha', hst]; rfl, henc, hh, fun now => ?_⟩))
    unfold absAkeStamped; rw [ha']; simp only [hls]; rfl
  · exact Or.inr (Or.inr (Or.inr (Or.inl ⟨by rw [absAuth_some ha', hst]; rfl, henc, hh⟩)))

theorem receiveQueryMessage_skR (K : Crypto) (m : Bytes) : Stable SkR (receiveQueryMessage K m) := by
  intro s r s' h
  obtain ⟨henc, hcase⟩ := receiveQueryMessage_skeleton K m s r s' h
  rcases hcase with hk | ⟨-, a', ha', hls, hc⟩
  · exact Or.inl (by rw [absAuth_congr hk, henc])
  · exact skR_of_started henc a' ha' hls (hc.elim (fun h => Or.inl h.2) (fun h => Or.inr h.2))

theorem receiveTaggedPlaintext_skR (K : Crypto) (m : Bytes) : Stable SkR (receiveTaggedPlaintext K m) := by
  intro s r s' h
  obtain ⟨henc, toSend, err, -, hcase⟩ := receiveTaggedPlaintext_skeleton K m s r s' h
  rcases hcase with ⟨hk, -⟩ | ⟨-, -, a', ha', hls, hc⟩
  · exact Or.inl (by rw [absAuth_congr hk, henc])
  · exact skR_of_started henc a' ha' hls (hc.elim (fun h => Or.inl h.2) (fun h => Or.inr h.2))

theorem receiveDecodedCore_skR (K : Crypto) (m : Bytes) : Stable SkR (receiveDecodedCore K m) := by
  unfold receiveDecodedCore
  refine Stable.sk_pre_bind Stable.getc fun c => ?_
  refine Stable.sk_pre_bind (by stable [checkVersion_sk]) fun r => ?_
  split
  · exact Stable.sk_ofKept (Stable.pure _)
  · refine Stable.sk_pre_bind (by stable [parseMessageHeader_sk]) fun r => ?_
    split
    · exact Stable.sk_ofKept (Stable.pure _)
    · dsimp only
      split
      · refine Stable.sk_post_bind (receiveDataMessage_dataE K _ _).dataE_skR fun x => ?_
        stable []
      · refine Stable.sk_pre_bind Stable.getc fun c1 => ?_
        refine Stable.sk_post_bind (processAKE_skR K _ _) fun x => ?_
        stable [msgEventErr_sk]

theorem receiveDecoded_skR (K : Crypto) (m : Bytes) : Stable SkR (receiveDecoded K m) := by
  unfold receiveDecoded
  refine Stable.sk_pre_bind Stable.getc fun c => ?_
  refine Stable.sk_post_bind (receiveDecodedCore_skR K m) fun x => ?_
  stable []

/-- the quiet pieces of `receiveUnit` -/
macro "recv_sk" : tactic => `(tactic|
  (stable [receiveErrorMessage_sk, withInjects_sk, checkPlaintextPolicies_sk, toSendEncoded_sk, receiveFragment_sk,
     msgEvent_sk]; done))

theorem receiveUnit_skR (K : Crypto) : ∀ (fuel : Nat) (m : Bytes) (fg : Bool),
    Stable SkR (receiveUnit K fuel m fg) := by
  intro fuel
  induction fuel with
  | zero =>
    intro m fg
    rw [receiveUnit]
    exact Stable.sk_ofKept (by stable [])
  | succ fuel ih =>
    intro m fg
    rw [receiveUnit]
    refine Stable.sk_pre_bind Stable.getc fun c => ?_
    split
    · exact Stable.sk_ofKept (Stable.pure _)
    · dsimp only
      split
      all_goals first
        | (refine Stable.sk_post_bind (receiveQueryMessage_skR K _) (fun _ => ?_); recv_sk)
        | (refine Stable.sk_post_bind (receiveTaggedPlaintext_skR K _) (fun _ => ?_); recv_sk)
        | (split
           · refine Stable.sk_ofKept ?_; recv_sk
           · refine Stable.sk_post_bind (receiveDecoded_skR K _) (fun _ => ?_); recv_sk)
        | (refine Stable.sk_pre_bind (by recv_sk) fun r => ?_
           repeat' (first
             | ((with_reducible apply Stable.sk_pre_bind); focus recv_sk)
             | (refine Stable.sk_post_bind (ih _ _) (fun _ => ?_); recv_sk)
             | with_reducible intro _ | split | dsimp only
             | (refine Stable.sk_ofKept ?_; recv_sk)))
        | (refine Stable.sk_ofKept ?_; recv_sk)

/-- **`Receive`, complete.**  For every crypto record, state and incoming message (plain, tagged, query, error,
    fragment, any OTR message): whatever a non-panicking `receive` does to `absAuth`/`absEnc` is ONE `SkelStep` —
    nothing, a row of `recvAke`, `startAKE`, the reset, or the peer's disconnect.  The abstraction misses no
    transition of `Receive` except the reset (clause 4). -/
theorem receive_skeleton_complete (K : Crypto) (m : Bytes) (s : MState) (r : Except Err RecvResult) (s' : MState)
    (h : runM (receive K m) s = .ok (r, s')) : SkelStep s.conv s'.conv :=
  receiveUnit_skR K _ m true s r s' h

/-! ### `End` and the other calls -/

theorem endedConv_ake (c : Conv) : (endedConv c).ake = none ∧ (endedConv c).msgState = .plainText := ⟨rfl, rfl⟩

/-- **`End`**: from every state, whether or not the disconnect message could be built, the AKE context is wiped
    and the conversation is in plaintext state -/
theorem endSession_skel (K : Crypto) (s : MState) (r : Except Err (List Bytes × Option Err)) (s' : MState)
    (h : runM (endSession K) s = .ok (r, s')) : s'.conv.ake = none ∧ s'.conv.msgState = .plainText := by
  by_cases he : s.conv.msgState = .encrypted
  · rw [endSession_encrypted_run K s he] at h
    cases hx : runM (createSerializedDataMessage K [] messageFlagIgnoreUnreadable
        [{ typ := tlvTypeDisconnected, len := 0, value := [] }]) { s with conv := { s.conv with smp := {} } } with
    | panic p => rw [hx] at h; cases h
    | ok v =>
      obtain ⟨v, s2⟩ := v
      rw [hx] at h
      simp only [Res.ok.injEq, Prod.mk.injEq] at h
      rw [← h.2]
      exact endedConv_ake _
  · rw [endSession_notEncrypted_run K s he] at h
    simp only [Res.ok.injEq, Prod.mk.injEq] at h
    rw [← h.2]
    exact endedConv_ake _

/-- the calls other than `receive` and `endSession` leave AKE context and message state alone -/
theorem apiCall_sk (K : Crypto) (call : ApiCall) (hk : call.keepsSession) (s : MState) (r : Except Err Unit)
    (s' : MState) (h : runM (call.run K) s = .ok (r, s')) :
    s'.conv.ake = s.conv.ake ∧ s'.conv.msgState = s.conv.msgState := by
  have h1 := (apiCall_s K call hk s r s' h).2
  have h2 := apiCall_kind K call s r s' h
  cases call with
  | receive m => exact hk.elim
  | endSession => exact hk.elim
  | send m => exact ⟨h1, h2.1⟩
  | smpStart q sec => exact ⟨h1, h2.1⟩
  | smpSecret sec => exact ⟨h1, h2.1⟩
  | smpAbort => exact ⟨h1, h2.1⟩
  | extraKey u d => exact ⟨h1, h2.1⟩
  | sendTlvs text flag tlvs => exact ⟨h1, h2.1⟩
  | setFragmentSize n => exact ⟨h1, h2.1⟩

/-- **C07 skeleton, summary: the abstraction misses no transition.**  For every crypto record `K`, every API call
    (`ApiCall`: Receive, Send, End, the three SMP calls, the extra key, the TLV hook, the fragment size) with any
    arguments, and every state: if the call does not panic, what it does to the key-exchange state machine
    (`absAuth`, `absEnc`) is
      * for `Receive`: one `SkelStep` — nothing, a `recvAke` row, `startAKE`, the reset, the peer's disconnect;
      * for `End`: the AKE context is wiped and the state is plaintext (`auth = none`, `enc = false`, no context);
      * for every other call (Send, SMP, extra key, …): nothing — AKE context and message state are untouched. -/
theorem ake_skeleton_complete (K : Crypto) (call : ApiCall) (s : MState) (r : Except Err Unit) (s' : MState)
    (h : runM (call.run K) s = .ok (r, s')) :
    ((∃ m, call = .receive m) ∧ SkelStep s.conv s'.conv) ∨
    (call = .endSession ∧ s'.conv.ake = none ∧ s'.conv.msgState = .plainText ∧
      absAuth s'.conv = .none ∧ absEnc s'.conv = false ∧ absHasAke s'.conv = false) ∨
    (call.keepsSession ∧ s'.conv.ake = s.conv.ake ∧ s'.conv.msgState = s.conv.msgState ∧
      absAuth s'.conv = absAuth s.conv ∧ absEnc s'.conv = absEnc s.conv ∧ absHasAke s'.conv = absHasAke s.conv) := by
  by_cases hk : call.keepsSession
  · obtain ⟨h1, h2⟩ := apiCall_sk K call hk s r s' h
    exact Or.inr (Or.inr ⟨hk, h1, h2, absAuth_congr h1, absEnc_congr h2, absHasAke_congr h1⟩)
  · cases call with
    | receive m =>
      obtain ⟨r0, h0⟩ := runM_drop _ _ _ _ h
      exact Or.inl ⟨⟨m, rfl⟩, receive_skeleton_complete K m s r0 s' h0⟩
    | endSession =>
      obtain ⟨r0, h0⟩ := runM_drop _ _ _ _ h
      obtain ⟨h1, h2⟩ := endSession_skel K s r0 s' h0
      exact Or.inr (Or.inl ⟨rfl, h1, h2, absAuth_none h1, by unfold absEnc; rw [h2]; rfl,
        by unfold absHasAke; rw [h1]; rfl⟩)
    | send m => exact (hk trivial).elim
    | smpStart q sec => exact (hk trivial).elim
    | smpSecret sec => exact (hk trivial).elim
    | smpAbort => exact (hk trivial).elim
    | extraKey u d => exact (hk trivial).elim
    | sendTlvs text flag tlvs => exact (hk trivial).elim
    | setFragmentSize n => exact (hk trivial).elim

/-! ## 12. non-vacuity: concrete instances of the hypotheses -/

/-- WHITESPACE_START_AKE | ALLOW_V2, version already committed, the random source fails at once -/
def wsState0 : MState :=
  { conv := { version := some .v2, policies := 34 }, env := { rand := [none] } }

/-- REQUIRE_ENCRYPTION | ALLOW_V2 in plaintext state -/
def reqState0 : MState := { conv := { policies := 10 }, env := {} }

/-- `wsStart_outcomes`: a run under WHITESPACE_START_AKE that does not panic (the start fails: reset branch) -/
example : ∃ r s', runM (wsStart skelCrypto 2) wsState0 = .ok (r, s') := by
  unfold wsStart commitToVersionFrom
  simp only [runM_bind, runM_tryCatch, runM_getc, wsState0, Option.isSome_some, ↓reduceIte, runM_pure, bindM_ok,
    catchM_ok, sendDHCommit_run]
  have hf := randomInto_fails
    { conv := { version := some Version.v2, ake := some { }, policies := 34 }, env := { rand := [none] } } [] rfl
  unfold dhCommitRest
  simp only [runM_bind]
  rw [hf]
  exact ⟨_, _, rfl⟩

/-- `send_requireEncryption_skeleton`: its hypotheses hold in `reqState0` -/
example : isOTREnabled reqState0.conv.policies = true ∧ reqState0.conv.msgState = .plainText ∧
    polHas reqState0.conv.policies requireEncryption = true := by decide

/-- `receiveTaggedPlaintext_skeleton`, `receive_skeleton_complete`, `ake_skeleton_complete`: runs that do not panic
    exist for every state — an error message is always processed (`receiveErrorMessage_skeleton`), `End` from a
    state that is not encrypted always runs (`endSession_notEncrypted_run`) -/
example (s : MState) (h : s.conv.msgState ≠ .encrypted) :
    ∃ r s', runM ((ApiCall.endSession).run skelCrypto) s = .ok (r, s') := by
  show ∃ r s', runM (do let _ ← endSession skelCrypto) s = .ok (r, s')
  rw [runM_bind, endSession_notEncrypted_run _ s h]
  exact ⟨_, _, rfl⟩

/-- the disconnect clause of `SkelStep` is not a row of the table (so it had to be listed) -/
example : ∀ k, (Auth.awaitSig, true, k, Auth.none, false) ∉ allowedTransitions := by
  intro k; cases k <;> decide

/-! ## 13. the converse guards of the `key` and `reveal` steps -/

theorem akeSetTheirCurrent_noThrow : NoThrowV akeSetTheirCurrent := by unfold akeSetTheirCurrent; nothrow
theorem akeSetOurCurrent_noThrow : NoThrowV akeSetOurCurrent := by unfold akeSetOurCurrent; nothrow

/-- the guards of the step `key` in `awaitDHKey`: the D-H Key message is accepted (`processDHKey`: it parses and its
    value is a group element, `c01_guard_dhkey`), and the Reveal-Signature answer can be built from the state
    `processDHKey` leaves: `revealSigMessage` returns (long-term key present, signing oracle answers, AES) and the
    header can be put in front (`wrapMessageHeader`: a version is committed, for v3 the instance tag can be drawn) -/
def KeyGuards (K : Crypto) (msg : Bytes) (s : MState) : Prop :=
  ∃ same s1 m1 s2 m2 s3, runM (processDHKey msg) s = .ok (.ok same, s1) ∧
    runM (revealSigMessage K) s1 = .ok (.ok m1, s2) ∧
    runM (wrapMessageHeader msgTypeRevealSig m1) s2 = .ok (.ok m2, s3)

/-- the tail of `recvDHKey` in `awaitingDHKey` after the answer has been built -/
def keyTail (m : Bytes) : M (AuthState × Option Bytes × Option Err) := do
  akeSetTheirCurrent
  akeSetOurCurrent
  modAke fun a => { a with sentRevealSig := true }
  modc fun c => if c.msgState != .encrypted then { c with sentRevealSig := true } else c
  return (.awaitingSig m, some m, none)

theorem keyTail_noThrow (m : Bytes) : NoThrowV (keyTail m) := by
  unfold keyTail
  refine NoThrowV.bind akeSetTheirCurrent_noThrow fun _ => ?_
  refine NoThrowV.bind akeSetOurCurrent_noThrow fun _ => ?_
  nothrow

theorem keyTail_ret (m : Bytes) : RetV (fun u => u.1 = .awaitingSig m) (keyTail m) := by
  unfold keyTail
  repeat' (first | with_reducible apply RetV.bind | with_reducible intro _ | exact RetV.pure rfl)

theorem recvDHKey_awaiting_run (K : Crypto) (msg : Bytes) (s : MState) :
    runM (recvDHKey K .awaitingDHKey msg) s =
      runM (akeTry .awaitingDHKey (do
        let _ ← processDHKey msg
        let m ← revealSigMessage K
        let m ← wrapMessageHeader msgTypeRevealSig m
        keyTail m)) s := rfl

/-- **the abstract step `key` in `awaitDHKey` → `awaitSig` is taken exactly under `KeyGuards`.** -/
theorem processAKE_key_taken_iff (K : Crypto) (msg : Bytes) (s s' : MState) (a : Ake)
    (ha : s.conv.ake = some a) (hst : a.state = .awaitingDHKey) (r : Except Err (List Bytes × Option Err))
    (h : runM (processAKE K msgTypeDHKey msg) s = .ok (r, s')) :
    absAuth s'.conv = .awaitSig ↔ KeyGuards K msg s := by
  rw [processAKE_run_some K _ msg s a ha, hst, akeRest_dhKey] at h
  cases hx : runM (recvDHKey K .awaitingDHKey msg) s with
  | panic p => rw [hx] at h; cases h
  | ok v =>
    obtain ⟨v, s1⟩ := v
    rw [hx] at h
    cases v with
    | error e => exact absurd hx (recvDHKey_noThrow K _ msg _ _ _)
    | ok u =>
      simp only [bindM_ok] at h
      obtain ⟨msgs, a', hr, ha', hst', hq⟩ := akeTailDH_outcome _ u s1 s' r h
      rw [absAuth_some ha', hst']
      rw [recvDHKey_awaiting_run] at hx
      constructor
      · intro hmoved
        obtain ⟨st1, om, e⟩ := u
        cases st1 with
        | awaitingSig rsm =>
          have hx' := akeTry_ok_inv (by simp) hx
          rw [runM_bind] at hx'
          obtain ⟨same, t1, h1, hx'⟩ := bindM_ok_inv hx'
          rw [runM_bind] at hx'
          obtain ⟨m1, t2, h2, hx'⟩ := bindM_ok_inv hx'
          rw [runM_bind] at hx'
          obtain ⟨m2, t3, h3, hx'⟩ := bindM_ok_inv hx'
          exact ⟨same, t1, m1, t2, m2, t3, h1, h2, h3⟩
        | none => cases hmoved
        | awaitingDHKey => cases hmoved
        | awaitingRevealSig => cases hmoved
      · rintro ⟨same, t1, m1, t2, m2, t3, h1, h2, h3⟩
        rcases akeTry_cases hx with ⟨u', hu, hx'⟩ | ⟨er, hu, hx'⟩
        · simp only [runM_bind, h1, h2, h3, bindM_ok] at hx'
          have := keyTail_ret m2 _ _ _ hx'
          cases hu
          rw [this]; rfl
        · simp only [runM_bind, h1, h2, h3, bindM_ok] at hx'
          exact absurd hx' (keyTail_noThrow m2 _ _ _)

/-- what `KeyGuards` says about the message: it parses and carries a group element -/
theorem KeyGuards.message (K : Crypto) (msg : Bytes) (s : MState) (a : Ake) (ha : s.conv.ake = some a)
    (h : KeyGuards K msg s) : ∃ m, DhKey.deserialize msg = some m ∧ 2 ≤ m.gy ∧ m.gy ≤ dhP - 2 := by
  obtain ⟨same, s1, m1, s2, m2, s3, h1, -, -⟩ := h
  obtain ⟨m, hd, -, hge1, hge2, -⟩ := c01_guard_dhkey msg s s1 a ha same h1
  exact ⟨m, hd, hge1, hge2⟩

/-- the guards of the step `reveal` in `awaitRevealSig`: the Reveal-Signature message is accepted
    (`processRevealSig`: `RespGuards`, see `processAKE_reveal_taken_only_if`), and the Signature answer can be built
    from the state it leaves: `sigMessage` returns (long-term key present, signing oracle answers, AES) and the header
    can be put in front (version committed, for v3 the instance tag can be drawn) -/
def RevealGuards (K : Crypto) (msg : Bytes) (s : MState) : Prop :=
  ∃ s1 m1 s2 m2 s3, runM (processRevealSig K msg) s = .ok (.ok (), s1) ∧
    runM (sigMessage K) s1 = .ok (.ok m1, s2) ∧
    runM (wrapMessageHeader msgTypeSig m1) s2 = .ok (.ok m2, s3)

/-- the tail of `recvRevealSig` in `awaitingRevealSig` after the answer has been built -/
def revealTail (K : Crypto) (m : Bytes) : M (AuthState × Option Bytes × Option Err) := do
  akeSetTheirCurrent
  akeSetOurCurrent
  modAke fun a => { a with sentRevealSig := false }
  modc fun c => { c with sentRevealSig := false }
  let e ← akeHasFinished K
  return (.none, some m, e)

theorem revealTail_noThrow (K : Crypto) (m : Bytes) : NoThrowV (revealTail K m) := by
  unfold revealTail
  refine NoThrowV.bind akeSetTheirCurrent_noThrow fun _ => ?_
  refine NoThrowV.bind akeSetOurCurrent_noThrow fun _ => ?_
  refine NoThrowV.bind (NoThrowV.modAke _) fun _ => ?_
  refine NoThrowV.bind (NoThrowV.modc _) fun _ => ?_
  refine NoThrowV.bind (fun s e s' h => akeHasFinished_no_throw K s s' e h) fun _ => ?_
  exact NoThrowV.pure _

theorem revealTail_ret (K : Crypto) (m : Bytes) : RetV (fun u => u.1 = .none) (revealTail K m) := by
  unfold revealTail
  repeat' (first | with_reducible apply RetV.bind | with_reducible intro _ | exact RetV.pure rfl)

theorem recvRevealSig_awaiting_run (K : Crypto) (msg : Bytes) (s : MState) :
    runM (recvRevealSig K .awaitingRevealSig msg) s =
      runM (akeTry .awaitingRevealSig (do
        let previousKey := (← getc).theirKey
        processRevealSig K msg
        let m ← tryCatch (do let m ← sigMessage K; wrapMessageHeader msgTypeSig m)
          (fun e => do modc (fun c => { c with theirKey := previousKey }); throw e)
        revealTail K m)) s := rfl

/-- **the abstract step `reveal` in `awaitRevealSig` → `finish` is taken exactly under `RevealGuards`.** -/
theorem processAKE_reveal_taken_iff (K : Crypto) (msg : Bytes) (s s' : MState) (a : Ake)
    (ha : s.conv.ake = some a) (hst : a.state = .awaitingRevealSig) (r : Except Err (List Bytes × Option Err))
    (h : runM (processAKE K msgTypeRevealSig msg) s = .ok (r, s')) :
    (absAuth s'.conv = .none ∧ absEnc s'.conv = true) ↔ RevealGuards K msg s := by
  constructor
  · rintro ⟨hnone, -⟩
    rw [processAKE_run_some K _ msg s a ha, hst, akeRest_revealSig] at h
    cases hx : runM (recvRevealSig K .awaitingRevealSig msg) s with
    | panic p => rw [hx] at h; cases h
    | ok v =>
      obtain ⟨v, s1⟩ := v
      rw [hx] at h
      rcases recvRevealSig_awaiting_cases K msg s s1 a ha v hx with ⟨om, e, hv⟩ | ⟨er, hv, -⟩
      · subst hv
        rw [recvRevealSig_awaiting_run] at hx
        have hx' := akeTry_ok_inv (by simp) hx
        simp only [runM_bind, runM_getc, bindM_ok] at hx'
        obtain ⟨u, t1, h1, hx'⟩ := bindM_ok_inv hx'
        obtain ⟨m2, t3, h3, hx'⟩ := bindM_ok_inv hx'
        rw [runM_tryCatch] at h3
        cases hy : runM (do let m ← sigMessage K; wrapMessageHeader msgTypeSig m) t1 with
        | panic p => rw [hy] at h3; cases h3
        | ok w =>
          obtain ⟨w, t2⟩ := w
          rw [hy] at h3
          cases w with
          | error er =>
            simp only [catchM_error, runM_bind, runM_modc, bindM_ok, runM_throw, Res.ok.injEq, Prod.mk.injEq,
              reduceCtorEq, false_and] at h3
          | ok m2' =>
            simp only [catchM_ok, Res.ok.injEq, Prod.mk.injEq, Except.ok.injEq] at h3
            obtain ⟨rfl, rfl⟩ := h3
            rw [runM_bind] at hy
            obtain ⟨m1, t2', h2, h3'⟩ := bindM_ok_inv hy
            exact ⟨t1, m1, t2', m2', t2, h1, h2, h3'⟩
      · subst hv
        simp only [bindM_ok] at h
        obtain ⟨msgs, a', hr, ha', hst', hq⟩ := akeTail_outcome K _ _ s1 s' r h
        rw [absAuth_some ha', hst'] at hnone
        cases hnone
  · rintro ⟨t1, m1, t2, m2, t3, h1, h2, h3⟩
    have hh := h
    rw [processAKE_run_some K _ msg s a ha, hst, akeRest_revealSig] at h
    cases hx : runM (recvRevealSig K .awaitingRevealSig msg) s with
    | panic p => rw [hx] at h; cases h
    | ok v =>
      obtain ⟨v, s1⟩ := v
      rw [hx] at h
      have hx0 := hx
      rw [recvRevealSig_awaiting_run] at hx
      have hy : runM (tryCatch (do let m ← sigMessage K; wrapMessageHeader msgTypeSig m)
          (fun e => do modc (fun c => { c with theirKey := s.conv.theirKey }); throw e)) t1 = .ok (.ok m2, t3) := by
        rw [runM_tryCatch, runM_bind, h2, bindM_ok, h3]; rfl
      have hnone : ∃ om e, v = .ok (.none, om, e) := by
        rcases akeTry_cases hx with ⟨u', hu, hx'⟩ | ⟨er, hu, hx'⟩
        · simp only [runM_bind, runM_getc, bindM_ok, h1] at hx'
          rw [hy, bindM_ok] at hx'
          have := revealTail_ret K m2 _ _ _ hx'
          obtain ⟨st1, om, e⟩ := u'
          simp only at this
          subst this
          exact ⟨om, e, hu⟩
        · simp only [runM_bind, runM_getc, bindM_ok, h1] at hx'
          rw [hy, bindM_ok] at hx'
          exact absurd hx' (revealTail_noThrow K m2 _ _ _)
      obtain ⟨om, e, rfl⟩ := hnone
      simp only [bindM_ok] at h
      obtain ⟨msgs, a', hr, ha', hst', hq⟩ := akeTail_outcome K _ _ s1 s' r h
      obtain ⟨_, _, _, _, _, _, _, _, _, _, _, _, _, _, hme, -⟩ := c01_finish_responder K msg s s1 a ha om e hx0
      refine ⟨by rw [absAuth_some ha', hst']; rfl, ?_⟩
      unfold absEnc; rw [(quietKept_encrypted hq hme).1]; rfl

/-! ### the three D-H Commit rows -/

/-- `processAKE` on a D-H Commit message: the new authentication state is the one `recvDHCommit` returns -/
theorem processAKE_commit_state (K : Crypto) (msg : Bytes) (s s' : MState) (a : Ake) (ha : s.conv.ake = some a)
    (r : Except Err (List Bytes × Option Err)) (h : runM (processAKE K msgTypeDHCommit msg) s = .ok (r, s')) :
    ∃ u s1, runM (recvDHCommit K a.state msg) s = .ok (.ok u, s1) ∧ absAuth s'.conv = u.1.abs := by
  rw [processAKE_run_some K _ msg s a ha, akeRest_dhCommit] at h
  cases hx : runM (recvDHCommit K a.state msg) s with
  | panic p => rw [hx] at h; cases h
  | ok v =>
    obtain ⟨v, s1⟩ := v
    rw [hx] at h
    cases v with
    | error e => exact absurd hx (recvDHCommit_noThrow K _ msg _ _ _)
    | ok u =>
      simp only [bindM_ok] at h
      obtain ⟨msgs, a', hr, ha', hst', hq⟩ := akeTailDH_outcome _ u s1 s' r h
      exact ⟨u, s1, rfl, by rw [absAuth_some ha', hst']⟩

/-- the D-H Key answer to a D-H Commit message can be built and the commitment stored: from the state with the
    AKE key material wiped, `dhKeyMessage` returns (40 random bytes can be read), the header can be put in front
    (version committed, for v3 the instance tag can be drawn), and the message parses (`processDHCommit`) -/
def CommitGuards (K : Crypto) (msg : Bytes) (s : MState) : Prop :=
  ∃ m1 s1 m2 s2 s3,
    runM (dhKeyMessage K) { s with conv := { s.conv with ake := s.conv.ake.map Ake.wiped } } = .ok (.ok m1, s1) ∧
    runM (wrapMessageHeader msgTypeDHKey m1) s1 = .ok (.ok m2, s2) ∧
    runM (processDHCommit msg) s2 = .ok (.ok (), s3)

theorem processDHCommit_ok_parses (msg : Bytes) (s s' : MState) (h : runM (processDHCommit msg) s = .ok (.ok (), s')) :
    (DhCommit.deserialize msg).isSome = true := by
  unfold processDHCommit at h
  cases hd : DhCommit.deserialize msg with
  | none => rw [hd] at h; simp only [runM_throw, Res.ok.injEq, Prod.mk.injEq, reduceCtorEq, false_and] at h
  | some m => rfl

theorem CommitGuards.parses {K : Crypto} {msg : Bytes} {s : MState} (h : CommitGuards K msg s) :
    (DhCommit.deserialize msg).isSome = true := by
  obtain ⟨m1, s1, m2, s2, s3, -, -, h3⟩ := h
  exact processDHCommit_ok_parses msg s2 s3 h3

/-- `authStateNone.receiveDHCommitMessage`: it answers (state `awaitingRevealSig`, no error) exactly under
    `CommitGuards`; otherwise it returns the state `none` with an error -/
theorem recvDHCommitNone_taken_iff (K : Crypto) (msg : Bytes) (s s1 : MState)
    (u : AuthState × Option Bytes × Option Err) (hx : runM (recvDHCommitNone K msg) s = .ok (.ok u, s1)) :
    (u.1 = .awaitingRevealSig ↔ CommitGuards K msg s) ∧ (u.1 = .awaitingRevealSig ∨ u.1 = .none ∧ u.2.2 ≠ none) := by
  unfold recvDHCommitNone at hx
  rcases akeTry_cases hx with ⟨u', hu, hx'⟩ | ⟨er, hu, hx'⟩
  · cases hu
    simp only [runM_bind, modAke, runM_modc, bindM_ok] at hx'
    obtain ⟨m1, t1, h1, hx'⟩ := bindM_ok_inv hx'
    obtain ⟨m2, t2, h2, hx'⟩ := bindM_ok_inv hx'
    obtain ⟨_, t3, h3, hx'⟩ := bindM_ok_inv hx'
    simp only [runM_pure, Res.ok.injEq, Prod.mk.injEq, Except.ok.injEq] at hx'
    have hu1 : u.1 = .awaitingRevealSig := by rw [← hx'.1]
    exact ⟨⟨fun _ => ⟨m1, t1, m2, t2, t3, h1, h2, h3⟩, fun _ => hu1⟩, Or.inl hu1⟩
  · cases hu
    refine ⟨⟨fun hh => (by cases hh), ?_⟩, Or.inr ⟨rfl, by simp⟩⟩
    rintro ⟨m1, t1, m2, t2, t3, h1, h2, h3⟩
    exfalso
    simp only [runM_bind, modAke, runM_modc, bindM_ok, h1, h2, h3, runM_pure, Res.ok.injEq, Prod.mk.injEq,
      reduceCtorEq, false_and] at hx'

theorem recvDHCommit_revealSig_ret (K : Crypto) (msg : Bytes) :
    RetV (fun u => u.1 = .awaitingRevealSig) (recvDHCommit K .awaitingRevealSig msg) := by
  unfold recvDHCommit akeTry
  repeat' (first
    | with_reducible apply RetV.bind
    | with_reducible apply RetV.tryCatch
    | with_reducible exact RetV.throw _
    | (with_reducible refine RetV.pure ?_; rfl)
    | with_reducible intro _
    | split
    | dsimp only)

/-- **the D-H Commit rows of the table, converse direction.**  A D-H Commit message processed without panic:
      * in `none` and in `awaitSig`: the state becomes `awaitRevealSig` exactly under `CommitGuards` (the message
        parses, the D-H Key answer can be built); otherwise, in `none` it stays `none`, in `awaitSig` an unparsable
        message leaves `awaitSig` and a parsable one whose answer cannot be built gives the reset;
      * in `awaitRevealSig`: the state stays `awaitRevealSig`, whatever the message. -/
theorem processAKE_commit_taken_of_guards (K : Crypto) (msg : Bytes) (s s' : MState) (a : Ake)
    (ha : s.conv.ake = some a) (r : Except Err (List Bytes × Option Err))
    (h : runM (processAKE K msgTypeDHCommit msg) s = .ok (r, s')) :
    (a.state = .none → (absAuth s'.conv = .awaitRevealSig ↔ CommitGuards K msg s) ∧
        (absAuth s'.conv = .awaitRevealSig ∨ absAuth s'.conv = .none)) ∧
    (∀ rs, a.state = .awaitingSig rs → (absAuth s'.conv = .awaitRevealSig ↔ CommitGuards K msg s) ∧
        (absAuth s'.conv = .awaitRevealSig ∨ absAuth s'.conv = .none ∨
          (absAuth s'.conv = .awaitSig ∧ (DhCommit.deserialize msg).isNone = true))) ∧
    (a.state = .awaitingRevealSig → absAuth s'.conv = .awaitRevealSig) := by
  obtain ⟨u, s1, hx, habs⟩ := processAKE_commit_state K msg s s' a ha r h
  rw [habs]
  refine ⟨fun hst => ?_, fun rs hst => ?_, fun hst => ?_⟩
  · rw [hst] at hx
    have hx' : runM (recvDHCommitNone K msg) s = .ok (.ok u, s1) := hx
    obtain ⟨hiff, hor⟩ := recvDHCommitNone_taken_iff K msg s s1 u hx'
    refine ⟨⟨fun hh => hiff.1 ?_, fun hg => by rw [hiff.2 hg]; rfl⟩, ?_⟩
    · rcases hor with h1 | ⟨h1, -⟩
      · exact h1
      · rw [h1] at hh; cases hh
    · rcases hor with h1 | ⟨h1, -⟩
      · exact Or.inl (by rw [h1]; rfl)
      · exact Or.inr (by rw [h1]; rfl)
  · rw [hst] at hx
    unfold recvDHCommit at hx
    simp only at hx
    cases hd : (DhCommit.deserialize msg).isNone with
    | true =>
      rw [hd] at hx
      simp only [↓reduceIte, runM_pure, Res.ok.injEq, Prod.mk.injEq, Except.ok.injEq] at hx
      have hu1 : u.1 = .awaitingSig rs := by rw [← hx.1]
      refine ⟨⟨fun hh => (by rw [hu1] at hh; cases hh), fun hg => ?_⟩, Or.inr (Or.inr ⟨by rw [hu1]; rfl, rfl⟩)⟩
      have := hg.parses
      rw [Option.isNone_iff_eq_none] at hd
      rw [hd] at this
      cases this
    | false =>
      rw [hd] at hx
      simp only [Bool.false_eq_true, ↓reduceIte] at hx
      obtain ⟨hiff, hor⟩ := recvDHCommitNone_taken_iff K msg s s1 u hx
      refine ⟨⟨fun hh => hiff.1 ?_, fun hg => by rw [hiff.2 hg]; rfl⟩, ?_⟩
      · rcases hor with h1 | ⟨h1, -⟩
        · exact h1
        · rw [h1] at hh; cases hh
      · rcases hor with h1 | ⟨h1, -⟩
        · exact Or.inl (by rw [h1]; rfl)
        · exact Or.inr (Or.inl (by rw [h1]; rfl))
  · rw [hst] at hx
    rw [recvDHCommit_revealSig_ret K msg _ _ _ hx]; rfl

/-- the D-H Commit message we sent can be sent again: it serialises and the header can be put in front -/
def ResendGuards (K : Crypto) (s : MState) : Prop :=
  ∃ m1 s1 m2 s2, runM (serializeDHCommit K) s = .ok (.ok m1, s1) ∧
    runM (wrapMessageHeader msgTypeDHCommit m1) s1 = .ok (.ok m2, s2)

theorem recvDHCommit_awaitingDHKey_run (K : Crypto) (msg : Bytes) (s : MState) (a : Ake) (ha : s.conv.ake = some a)
    (x rest theirHash y : Bytes) (h1 : extractData msg = some (x, rest)) (h2 : extractData rest = some (theirHash, y))
    (pub : Nat) (hp : a.ourPublicValue = some pub) :
    runM (recvDHCommit K .awaitingDHKey msg) s =
      if lexGreater (K.hash2 (appendMPI [] pub)) theirHash = true then
        runM (akeTry .awaitingDHKey (do
          let m ← wrapMessageHeader msgTypeDHCommit (← serializeDHCommit K)
          return (.awaitingRevealSig, some m, none))) s
      else runM (recvDHCommitNone K msg) s := by
  unfold recvDHCommit
  simp only [h1, h2, getAke, runM_bind, runM_getc, bindM_ok, ha, runM_pure, optNat, hp, runM_ite]

/-- **the D-H Commit row of `awaitDHKey`: the hash comparison.**  A well-formed D-H Commit message (two DATA
    fields) processed without panic while we wait for a D-H Key message, our D-H value being `pub`:
      * our hash is the greater one: the state becomes `awaitRevealSig` (as in the Go code) exactly when our D-H
        Commit message can be sent again (`ResendGuards`), and stays `awaitDHKey` otherwise;
      * otherwise the message is answered as in `none`: `awaitRevealSig` exactly under `CommitGuards`, else the
        reset to `none` (`processAKE_reset_witness`). -/
theorem processAKE_commit_awaitingDHKey (K : Crypto) (msg : Bytes) (s s' : MState) (a : Ake)
    (ha : s.conv.ake = some a) (hst : a.state = .awaitingDHKey) (r : Except Err (List Bytes × Option Err))
    (h : runM (processAKE K msgTypeDHCommit msg) s = .ok (r, s'))
    (x rest theirHash y : Bytes) (h1 : extractData msg = some (x, rest)) (h2 : extractData rest = some (theirHash, y))
    (pub : Nat) (hp : a.ourPublicValue = some pub) :
    (lexGreater (K.hash2 (appendMPI [] pub)) theirHash = true →
      (absAuth s'.conv = .awaitRevealSig ↔ ResendGuards K s) ∧
      (absAuth s'.conv = .awaitRevealSig ∨ absAuth s'.conv = .awaitDHKey)) ∧
    (lexGreater (K.hash2 (appendMPI [] pub)) theirHash = false →
      (absAuth s'.conv = .awaitRevealSig ↔ CommitGuards K msg s) ∧
      (absAuth s'.conv = .awaitRevealSig ∨ absAuth s'.conv = .none)) := by
  obtain ⟨u, s1, hx, habs⟩ := processAKE_commit_state K msg s s' a ha r h
  rw [habs]
  rw [hst, recvDHCommit_awaitingDHKey_run K msg s a ha x rest theirHash y h1 h2 pub hp] at hx
  refine ⟨fun hw => ?_, fun hl => ?_⟩
  · rw [if_pos hw] at hx
    rcases akeTry_cases hx with ⟨u', hu, hx'⟩ | ⟨er, hu, hx'⟩
    · cases hu
      simp only [runM_bind] at hx'
      obtain ⟨m1, t1, g1, hx'⟩ := bindM_ok_inv hx'
      obtain ⟨m2, t2, g2, hx'⟩ := bindM_ok_inv hx'
      simp only [runM_pure, Res.ok.injEq, Prod.mk.injEq, Except.ok.injEq] at hx'
      have hu1 : u.1 = .awaitingRevealSig := by rw [← hx'.1]
      rw [hu1]
      exact ⟨⟨fun _ => ⟨m1, t1, m2, t2, g1, g2⟩, fun _ => rfl⟩, Or.inl rfl⟩
    · cases hu
      refine ⟨⟨fun hh => (by cases hh), ?_⟩, Or.inr rfl⟩
      rintro ⟨m1, t1, m2, t2, g1, g2⟩
      exfalso
      simp only [runM_bind, g1, g2, bindM_ok, runM_pure, Res.ok.injEq, Prod.mk.injEq, reduceCtorEq, false_and] at hx'
  · rw [hl] at hx
    simp only [Bool.false_eq_true, ↓reduceIte] at hx
    obtain ⟨hiff, hor⟩ := recvDHCommitNone_taken_iff K msg s s1 u hx
    refine ⟨⟨fun hh => hiff.1 ?_, fun hg => by rw [hiff.2 hg]; rfl⟩, ?_⟩
    · rcases hor with g1 | ⟨g1, -⟩
      · exact g1
      · rw [g1] at hh; cases hh
    · rcases hor with g1 | ⟨g1, -⟩
      · exact Or.inl (by rw [g1]; rfl)
      · exact Or.inr (by rw [g1]; rfl)

/-! ### what the guards need: a long-term key, a committed version -/

/-- the long-term key in use and the committed protocol version -/
def kvProj (s : MState) : Option DsaPub × Option Version := (s.conv.ourCurrentKey, s.conv.version)
abbrev KvKept : MState → MState → Prop := Keeps kvProj

theorem getAke_kv : Stable KvKept getAke := by unfold getAke; stable []
theorem optNat_kv (site : String) (v : Option Nat) : Stable KvKept (optNat site v) := by unfold optNat; stable []
theorem modAke_kv (f : Ake → Ake) : Stable KvKept (modAke f) := by unfold modAke; stable []
theorem signOracle_kv (mb : Bytes) : Stable KvKept (signOracle mb) := signOracle_stable (fun s env' mm' => rfl) mb

theorem calcAKEKeys_kv (K : Crypto) : Stable KvKept (calcAKEKeys K) := by
  have hleaf : ∀ ssid : Bytes, Stable KvKept
      (modc fun c => if c.msgState != .encrypted then { c with ssid := ssid } else c) := fun ssid =>
    Stable.modc _ (fun s => by show kvProj _ = kvProj s; unfold kvProj; dsimp only; split <;> rfl)
  unfold calcAKEKeys
  stable [getAke_kv, optNat_kv, modAke_kv, hleaf]

theorem processDHKey_kv (msg : Bytes) : Stable KvKept (processDHKey msg) := by
  unfold processDHKey
  stable [getAke_kv, modAke_kv]

theorem processRevealSig_kv (K : Crypto) (msg : Bytes) : Stable KvKept (processRevealSig K msg) := by
  unfold processRevealSig processEncryptedSig
  stable [getAke_kv, optNat_kv, modAke_kv, calcAKEKeys_kv]

theorem generateEncryptedSignature_ok_key (K : Crypto) (key : AkeKeys) (s s' : MState) (m : Bytes)
    (h : runM (generateEncryptedSignature K key) s = .ok (.ok m, s')) : s.conv.ourCurrentKey ≠ none := by
  intro hk
  unfold generateEncryptedSignature at h
  simp only [runM_bind, runM_getc, bindM_ok, hk, runM_throw, bindM_error, Res.ok.injEq, Prod.mk.injEq, reduceCtorEq,
    false_and] at h

theorem wrapMessageHeader_ok_version (t : Nat) (msg : Bytes) (s s' : MState) (m : Bytes)
    (h : runM (wrapMessageHeader t msg) s = .ok (.ok m, s')) : s.conv.version ≠ none := by
  intro hv
  unfold wrapMessageHeader messageHeader at h
  simp only [runM_bind, runM_getc, bindM_ok, hv, runM_goPanic, bindM_panic, reduceCtorEq] at h

/-- **the header can be built iff a version is committed and (v3) the instance tag can be drawn** -/
theorem wrapMessageHeader_ok_iff (t : Nat) (msg : Bytes) (s : MState) :
    (∃ m s', runM (wrapMessageHeader t msg) s = .ok (.ok m, s')) ↔
      (s.conv.version = some .v2 ∨
       (s.conv.version = some .v3 ∧ ∃ s1, runM generateInstanceTag s = .ok (.ok (), s1))) := by
  unfold wrapMessageHeader messageHeader
  cases hv : s.conv.version with
  | none => simp [runM_bind, runM_getc, hv]
  | some v =>
    cases v with
    | v2 => simp [runM_bind, runM_getc, hv]
    | v3 =>
      simp only [runM_bind, runM_getc, bindM_ok, hv, reduceCtorEq, false_or, true_and]
      cases hg : runM generateInstanceTag s with
      | panic p => simp
      | ok w =>
        obtain ⟨w, s1⟩ := w
        cases w <;> simp

theorem revealSigMessage_ok_key (K : Crypto) (s s' : MState) (m : Bytes)
    (h : runM (revealSigMessage K) s = .ok (.ok m, s')) : s.conv.ourCurrentKey ≠ none := by
  unfold revealSigMessage at h
  rw [runM_bind] at h
  obtain ⟨_, t1, g1, h⟩ := bindM_ok_inv h
  rw [runM_bind] at h
  obtain ⟨_, t2, g2, h⟩ := bindM_ok_inv h
  rw [runM_bind] at h
  obtain ⟨a, t3, g3, h⟩ := bindM_ok_inv h
  rw [runM_bind] at h
  obtain ⟨enc, t4, g4, h⟩ := bindM_ok_inv h
  have k1 : kvProj t1 = kvProj s := calcAKEKeys_kv K _ _ _ g1
  have k2 : kvProj t2 = kvProj t1 := modAke_kv _ _ _ _ g2
  have k3 : kvProj t3 = kvProj t2 := getAke_kv _ _ _ g3
  have := generateEncryptedSignature_ok_key K _ t3 t4 enc g4
  have hk : t3.conv.ourCurrentKey = s.conv.ourCurrentKey := congrArg Prod.fst (k3.trans (k2.trans k1))
  rw [← hk]; exact this

theorem sigMessage_ok_key (K : Crypto) (s s' : MState) (m : Bytes)
    (h : runM (sigMessage K) s = .ok (.ok m, s')) : s.conv.ourCurrentKey ≠ none := by
  unfold sigMessage at h
  rw [runM_bind] at h
  obtain ⟨_, t2, g2, h⟩ := bindM_ok_inv h
  rw [runM_bind] at h
  obtain ⟨a, t3, g3, h⟩ := bindM_ok_inv h
  rw [runM_bind] at h
  obtain ⟨enc, t4, g4, h⟩ := bindM_ok_inv h
  have k2 : kvProj t2 = kvProj s := modAke_kv _ _ _ _ g2
  have k3 : kvProj t3 = kvProj t2 := getAke_kv _ _ _ g3
  have := generateEncryptedSignature_ok_key K _ t3 t4 enc g4
  have hk : t3.conv.ourCurrentKey = s.conv.ourCurrentKey := congrArg Prod.fst (k3.trans k2)
  rw [← hk]; exact this

theorem generateEncryptedSignature_kv (K : Crypto) (key : AkeKeys) :
    Stable KvKept (generateEncryptedSignature K key) := by
  unfold generateEncryptedSignature akeEncrypt
  stable [getAke_kv, optNat_kv, signOracle_kv]

theorem revealSigMessage_kv (K : Crypto) : Stable KvKept (revealSigMessage K) := by
  unfold revealSigMessage resToM
  stable [calcAKEKeys_kv, modAke_kv, getAke_kv, generateEncryptedSignature_kv]

theorem sigMessage_kv (K : Crypto) : Stable KvKept (sigMessage K) := by
  unfold sigMessage resToM
  stable [modAke_kv, getAke_kv, generateEncryptedSignature_kv]

/-- **what `KeyGuards` needs of the state and the message**: a long-term key is selected, a protocol version is
    committed, the D-H Key message parses and its value is a group element -/
theorem KeyGuards.needs (K : Crypto) (msg : Bytes) (s : MState) (a : Ake) (ha : s.conv.ake = some a)
    (h : KeyGuards K msg s) :
    s.conv.ourCurrentKey ≠ none ∧ s.conv.version ≠ none ∧
    ∃ m, DhKey.deserialize msg = some m ∧ 2 ≤ m.gy ∧ m.gy ≤ dhP - 2 := by
  have hm := KeyGuards.message K msg s a ha h
  obtain ⟨same, s1, m1, s2, m2, s3, h1, h2, h3⟩ := h
  have k1 : kvProj s1 = kvProj s := processDHKey_kv msg _ _ _ h1
  have k2 : kvProj s2 = kvProj s1 := revealSigMessage_kv K _ _ _ h2
  refine ⟨?_, ?_, hm⟩
  · have e1 : s1.conv.ourCurrentKey = s.conv.ourCurrentKey := congrArg Prod.fst k1
    rw [← e1]
    exact revealSigMessage_ok_key K s1 s2 m1 h2
  · have e2 : s2.conv.version = s.conv.version := congrArg Prod.snd (k2.trans k1)
    rw [← e2]
    exact wrapMessageHeader_ok_version _ _ s2 s3 m2 h3

/-- **what `RevealGuards` needs**: a long-term key is selected, a protocol version is committed (the conditions
    on the message are `RespGuards`, `processAKE_reveal_taken_only_if`) -/
theorem RevealGuards.needs (K : Crypto) (msg : Bytes) (s : MState) (h : RevealGuards K msg s) :
    s.conv.ourCurrentKey ≠ none ∧ s.conv.version ≠ none := by
  obtain ⟨s1, m1, s2, m2, s3, h1, h2, h3⟩ := h
  have k1 : kvProj s1 = kvProj s := processRevealSig_kv K msg _ _ _ h1
  have k2 : kvProj s2 = kvProj s1 := sigMessage_kv K _ _ _ h2
  refine ⟨?_, ?_⟩
  · have e1 : s1.conv.ourCurrentKey = s.conv.ourCurrentKey := congrArg Prod.fst k1
    rw [← e1]
    exact sigMessage_ok_key K s1 s2 m1 h2
  · have e2 : s2.conv.version = s.conv.version := congrArg Prod.snd (k2.trans k1)
    rw [← e2]
    exact wrapMessageHeader_ok_version _ _ s2 s3 m2 h3

/-! ## 14. non-vacuity of §13 -/

/-- waiting for a D-H Key message -/
def keyState0 : MState :=
  { conv := { version := some .v2, ake := some { state := .awaitingDHKey, ourPublicValue := some 5 } }, env := {} }

/-- waiting for a Reveal-Signature message -/
def revealState0 : MState :=
  { conv := { version := some .v2, ake := some { state := .awaitingRevealSig, ourPublicValue := some 5 } }, env := {} }

theorem dhKey_nil : DhKey.deserialize [] = none := by decide
theorem revealSig_nil : RevealSig.deserialize [] = none := by decide

/-- `processAKE_key_taken_iff`: its hypotheses hold for `keyState0` and the empty message (which is rejected) -/
example : ∃ r s', runM (processAKE skelCrypto msgTypeDHKey []) keyState0 = .ok (r, s') := by
  rw [processAKE_run_some _ _ _ _ _ rfl, akeRest_dhKey]
  unfold recvDHKey
  simp only [keyState0, akeTry, runM_tryCatch, runM_bind, processDHKey, dhKey_nil, runM_throw, bindM_error,
    catchM_error, runM_pure, bindM_ok, akeTailDH, modAke, runM_modc]
  rw [akeStamp_run _ _ _ _ _ rfl]
  exact ⟨_, _, rfl⟩

/-- `processAKE_reveal_taken_iff`: its hypotheses hold for `revealState0` and the empty message -/
example : ∃ r s', runM (processAKE skelCrypto msgTypeRevealSig []) revealState0 = .ok (r, s') := by
  rw [processAKE_run_some _ _ _ _ _ rfl, akeRest_revealSig]
  unfold recvRevealSig
  simp only [revealState0, akeTry, runM_tryCatch, runM_bind, runM_getc, processRevealSig, revealSig_nil, runM_throw,
    bindM_error, catchM_error, runM_pure, bindM_ok, akeTail, modAke, runM_modc]
  rw [retransmitAfterCompletedExchange_skip _ _ _ _ (Or.inr (Or.inl (by simp)))]
  simp only [runM_pure, bindM_ok]
  rw [akeStamp_run _ _ _ _ _ rfl]
  exact ⟨_, _, rfl⟩

/-- `processAKE_commit_awaitingDHKey` / `processAKE_commit_taken_of_guards`: the hypotheses hold for the reset run
    (`processAKE_reset_run`): state `awaitingDHKey`, our value 5, a message of two empty DATA fields -/
example : resetState.conv.ake = some { state := .awaitingDHKey, ourPublicValue := some 5 } ∧
    extractData resetMsg = some ([], [0, 0, 0, 0]) ∧ extractData [0, 0, 0, 0] = some ([], []) ∧
    ∃ r s', runM (processAKE skelCrypto msgTypeDHCommit resetMsg) resetState = .ok (r, s') :=
  ⟨rfl, extractData_resetMsg, extractData_resetMsg', _, _, processAKE_reset_run⟩

/-- `wrapMessageHeader_ok_iff`, left to right on an instance: with version 2 committed the header is built -/
example : ∃ m s', runM (wrapMessageHeader msgTypeDHKey []) keyState0 = .ok (.ok m, s') :=
  (wrapMessageHeader_ok_iff _ _ _).2 (Or.inl rfl)

end Otr
