/-
  Proofs.Keys — key management (Otr/Keys.lean; Go: key_management.go): properties C05, C09, C19.

  An abstract step relation `KStep` over `Keys` captures what `processDataMessageRaw` +
  `processDataMessageTail` (accepting a data message) and `genDataMsgWithFlag` (sending one) do to
  the key-management context; `afterAccept` / `afterSend` are compositions of the model functions
  `Keys.checkMessageCounter`, `addMacKey`, `Keys.rotateOurKeys`, `Keys.rotateTheirKey`,
  `findCounter`, `updateCounter`, `Keys.revealMACKeys`.  `K : Crypto` is opaque throughout.

  Lists     : foldl_swapRemove_perm, forgetMacKeys_perm (Go's swap-delete = filter, up to order),
              PairsOK (pairs in a 2×2 window, no duplicates), PairsOK.length_le (≤ 4)
  Steps     : Keys.accepts, Keys.afterAccept, Keys.afterSend, KStep, KSteps
  Invariant : WF, wf_iff, WF.step, WF.steps, wf_postAKE; KSteps.ids_mono
  C05       : c05_no_replay, c05_no_older, c05_send_counters_increase, c05_send_counter_next
              (invariant `Keys.Stored`: the pair is retired, or its stored counter is ≥ n)
  C09       : c09_rotateOur, c09_rotateTheir, c09_rotateOur_retires, c09_rotateTheir_retires (a),
              derive_retired, retired_forever, Keys.Retired.never_again (b),
              c09_used_then_disclosed, c09_send_discloses_all (c),
              disclosedBy_spec, macHistory_provenance, GSteps (ghost-tagged queue),
              c09_disclosed_retired
  C19       : c19_bounded, c19_step_sum, c19_step_queue, c19_recv_le3, c19_send_resets,
              c19_queue_bound
  Core Lean only.
-/
import Otr.Keys
namespace Otr
open List

theorem set_concat_perm {α} : ∀ (l : List α) (d : Nat) (a x : α), l[d]? = some x →
    l.set d a ++ [x] ~ l ++ [a]
  | [], d, a, x, h => by simp at h
  | y :: l, 0, a, x, h => by
    simp only [getElem?_cons_zero, Option.some.injEq] at h
    subst h
    simp only [set_cons_zero, cons_append]
    exact ((Perm.cons a (perm_append_singleton y l)).trans (Perm.swap y a l)).trans
      (Perm.cons y (perm_append_singleton a l).symm)
  | y :: l, d+1, a, x, h => by
    simp only [getElem?_cons_succ] at h
    simp only [set_cons_succ, cons_append]
    exact Perm.cons y (set_concat_perm l d a x h)

theorem swapRemove_concat {α} (ini : List α) (last : α) (d : Nat) :
    swapRemove (ini ++ [last]) d = if d < ini.length then ini.set d last else ini := by
  unfold swapRemove
  simp only [getLast?_concat]
  split
  · rename_i h
    rw [set_append_left _ _ h, dropLast_concat]
  · rename_i h
    rw [set_append_right _ _ (by omega)]
    have : ([last].set (d - ini.length) last) = [last] := by
      cases (d - ini.length) <;> rfl
    rw [this, dropLast_concat]

theorem swapRemove_spec {α} (l : List α) (d : Nat) (x : α) (h : l[d]? = some x) :
    (swapRemove l d ++ [x] ~ l) ∧ (∀ j, j < d → (swapRemove l d)[j]? = l[j]?) := by
  rcases eq_nil_or_concat l with rfl | ⟨ini, last, rfl⟩
  · simp at h
  · simp only [concat_eq_append] at h ⊢
    rw [swapRemove_concat]
    have hd : d < (ini ++ [last]).length := by
      rcases Nat.lt_or_ge d (ini ++ [last]).length with h1 | h1
      · exact h1
      · rw [getElem?_eq_none h1] at h; cases h
    simp only [length_append, length_cons, length_nil] at hd
    split
    · rename_i h1
      rw [getElem?_append_left h1] at h
      refine ⟨set_concat_perm ini d last x h, ?_⟩
      intro j hj
      rw [getElem?_append_left (by omega), getElem?_set]
      have : ¬ d = j := by omega
      simp only [this, ↓reduceIte]
    · rename_i h1
      have : d = ini.length := by omega
      subst this
      simp only [getElem?_concat_length, Option.some.injEq] at h
      subst h
      refine ⟨Perm.refl _, ?_⟩
      intro j hj
      rw [getElem?_append_left hj]

theorem filterMap_congr' {α β} (f g : α → Option β) : ∀ (l : List α), (∀ x ∈ l, f x = g x) →
    l.filterMap f = l.filterMap g
  | [], _ => rfl
  | a :: l, h => by
    have h1 := h a (mem_cons_self)
    have h2 := filterMap_congr' f g l (fun x hx => h x (mem_cons_of_mem _ hx))
    simp only [filterMap_cons, h1, h2]

/-- deleting a strictly decreasing list of valid positions by swap-delete removes exactly the
    elements at these positions (up to order) -/
theorem foldl_swapRemove_perm {α} : ∀ (ds : List Nat) (l : List α),
    ds.Pairwise (fun a b => b < a) → (∀ d ∈ ds, d < l.length) →
    ds.foldl swapRemove l ++ ds.filterMap (fun i => l[i]?) ~ l
  | [], l, _, _ => by simp only [foldl_nil, filterMap_nil, append_nil]; exact Perm.refl _
  | d :: ds, l, hp, hlt => by
    have hd : d < l.length := hlt d mem_cons_self
    have hx : l[d]? = some l[d] := getElem?_eq_getElem hd
    obtain ⟨hperm, hpre⟩ := swapRemove_spec l d l[d] hx
    rw [pairwise_cons] at hp
    have hlen : (swapRemove l d).length + 1 = l.length := by
      have := hperm.length_eq
      simpa only [length_append, length_cons, length_nil] using this
    have ih := foldl_swapRemove_perm ds (swapRemove l d) hp.2 (fun d' hd' => by
      have := hp.1 d' hd'; omega)
    have hcongr : ds.filterMap (fun i => (swapRemove l d)[i]?) = ds.filterMap (fun i => l[i]?) :=
      filterMap_congr' _ _ ds (fun d' hd' => hpre d' (hp.1 d' hd'))
    rw [hcongr] at ih
    simp only [foldl_cons, filterMap_cons, hx]
    exact (perm_middle.trans (Perm.cons _ ih)).trans ((perm_append_singleton _ _).symm.trans hperm)

theorem indicesWhere_pairwise {α} (p : α → Bool) (l : List α) :
    (indicesWhere p l).Pairwise (fun a b => a < b) := by
  unfold indicesWhere
  have h1 : (l.zipIdx.filter (fun x => p x.1)).map (·.2) <+ l.zipIdx.map (·.2) :=
    Sublist.map _ filter_sublist
  rw [zipIdx_map_snd] at h1
  exact Pairwise.sublist h1 (pairwise_lt_range' 1)

theorem indicesWhere_lt {α} (p : α → Bool) (l : List α) : ∀ d ∈ indicesWhere p l, d < l.length := by
  intro d hd
  unfold indicesWhere at hd
  rw [mem_map] at hd
  obtain ⟨x, hx, rfl⟩ := hd
  have := (mem_filter.mp hx).1
  rw [mem_zipIdx_iff_getElem?] at this
  rcases Nat.lt_or_ge x.2 l.length with h1 | h1
  · exact h1
  · rw [getElem?_eq_none h1] at this; cases this

theorem indicesWhere_filterMap {α} (p : α → Bool) (l : List α) :
    (indicesWhere p l).filterMap (fun i => l[i]?) = l.filter p := by
  unfold indicesWhere
  rw [filterMap_map]
  have h1 : (l.zipIdx.filter (fun x => p x.1)).filterMap ((fun i => l[i]?) ∘ (·.2))
      = (l.zipIdx.filter (fun x => p x.1)).filterMap (some ∘ (·.1)) :=
    filterMap_congr' _ _ _ (fun x hx => by
      have := (mem_filter.mp hx).1
      rw [mem_zipIdx_iff_getElem?] at this
      simpa only [Function.comp] using this)
  rw [h1, filterMap_eq_map]
  have h2 : (fun x : α × Nat => p x.1) = p ∘ Prod.fst := rfl
  rw [h2, ← filter_map, zipIdx_map_fst]

theorem forgetMacKeys_fst (h : List MacUse) (p : MacUse → Bool) :
    (forgetMacKeys h p).1 = (h.filter p).map (·.key) := rfl

/-- Go's swap-delete leaves exactly the entries that do not satisfy `p`, in some order -/
theorem forgetMacKeys_perm (h : List MacUse) (p : MacUse → Bool) :
    (forgetMacKeys h p).2 ~ h.filter (fun u => !p u) := by
  unfold forgetMacKeys
  simp only
  have hpw : (indicesWhere p h).reverse.Pairwise (fun a b => b < a) := by
    rw [pairwise_reverse]; exact indicesWhere_pairwise p h
  have hlt : ∀ d ∈ (indicesWhere p h).reverse, d < h.length := fun d hd =>
    indicesWhere_lt p h d (mem_reverse.mp hd)
  have h1 := foldl_swapRemove_perm (indicesWhere p h).reverse h hpw hlt
  rw [filterMap_reverse, indicesWhere_filterMap] at h1
  have h2 : (indicesWhere p h).reverse.foldl swapRemove h ++ h.filter p ~ h :=
    (Perm.append_left _ (reverse_perm _).symm).trans h1
  have h3 : h.filter (fun u => !p u) ++ h.filter p ~ h :=
    perm_append_comm.trans (filter_append_perm p h)
  exact (perm_append_right_iff _).mp (h2.trans h3.symm)

/-! ## Pairs inside a 2×2 window -/

def Counter.pair (c : Counter) : Nat × Nat := (c.ourKeyID, c.theirKeyID)
def MacUse.pair (u : MacUse) : Nat × Nat := (u.ourKeyID, u.theirKeyID)

/-- `(i, j)` is inside the window of current ids `(o, t)`: `i ∈ {o, o-1}`, `j ∈ {t, t-1}` -/
def InWin (o t i j : Nat) : Prop := (i = o ∨ i + 1 = o) ∧ (j = t ∨ j + 1 = t)

instance (o t i j : Nat) : Decidable (InWin o t i j) := by unfold InWin; infer_instance

/-- a list of key-id pairs: all inside the window, no pair twice -/
structure PairsOK (o t : Nat) (ps : List (Nat × Nat)) : Prop where
  win : ∀ p ∈ ps, InWin o t p.1 p.2
  nodup : ps.Nodup

theorem PairsOK.nil (o t : Nat) : PairsOK o t [] := ⟨(fun _ h => nomatch h), nodup_nil⟩

theorem PairsOK.concat {o t ps i j} (h : PairsOK o t ps) (hw : InWin o t i j) (hn : (i, j) ∉ ps) :
    PairsOK o t (ps ++ [(i, j)]) := by
  refine ⟨?_, ?_⟩
  · intro p hp
    rw [mem_append, mem_singleton] at hp
    rcases hp with hp | rfl
    · exact h.win p hp
    · exact hw
  · rw [nodup_append]
    refine ⟨h.nodup, by simp, ?_⟩
    intro a ha b hb
    rw [mem_singleton] at hb
    subst hb
    intro hab
    exact hn (hab ▸ ha)

theorem PairsOK.perm {o t ps ps'} (h : PairsOK o t ps) (hp : ps' ~ ps) : PairsOK o t ps' :=
  ⟨fun p hm => h.win p (hp.mem_iff.mp hm), hp.nodup_iff.mpr h.nodup⟩

theorem PairsOK.rotOur {o t ps} (h : PairsOK o t ps) (ho : 1 ≤ o) :
    PairsOK (o + 1) t (ps.filter (fun p => p.1 != o - 1)) := by
  refine ⟨?_, Pairwise.filter _ h.nodup⟩
  intro p hp
  rw [mem_filter] at hp
  have h1 := h.win p hp.1
  have h2 : p.1 ≠ o - 1 := by simpa using hp.2
  unfold InWin at h1 ⊢
  omega

theorem PairsOK.rotTheir {o t ps} (h : PairsOK o t ps) (ht : 1 ≤ t) :
    PairsOK o (t + 1) (ps.filter (fun p => p.2 != t - 1)) := by
  refine ⟨?_, Pairwise.filter _ h.nodup⟩
  intro p hp
  rw [mem_filter] at hp
  have h1 := h.win p hp.1
  have h2 : p.2 ≠ t - 1 := by simpa using hp.2
  unfold InWin at h1 ⊢
  omega

theorem nodup_subset_length {α} [DecidableEq α] : ∀ (l m : List α), l.Nodup → (∀ x ∈ l, x ∈ m) →
    l.length ≤ m.length
  | [], _, _, _ => Nat.zero_le _
  | a :: l, m, hn, hs => by
    rw [nodup_cons] at hn
    have ham : a ∈ m := hs a mem_cons_self
    have ih := nodup_subset_length l (m.erase a) hn.2 (fun x hx => by
      have hxa : x ≠ a := fun e => hn.1 (e ▸ hx)
      exact (mem_erase_of_ne hxa).mpr (hs x (mem_cons_of_mem _ hx)))
    rw [length_erase_of_mem ham] at ih
    have : 0 < m.length := length_pos_of_mem ham
    simp only [length_cons]
    omega

/-- a duplicate-free list of pairs drawn from a 2×2 window has at most 4 elements -/
theorem PairsOK.length_le {o t ps} (h : PairsOK o t ps) : ps.length ≤ 4 := by
  have := nodup_subset_length ps [(o, t), (o, t - 1), (o - 1, t), (o - 1, t - 1)] h.nodup (by
    intro p hp
    have h1 := h.win p hp
    obtain ⟨a, b⟩ := p
    unfold InWin at h1
    simp only [mem_cons, Prod.mk.injEq, not_mem_nil, or_false]
    omega)
  simpa using this

/-! ## The abstract step relation over `Keys` -/

/-- the receiving MAC key of the session keys for `(ourID, theirID)` (`[]` if not derivable) -/
def Keys.recvMACOf (K : Crypto) (k : Keys) (i j : Nat) : Bytes :=
  match k.deriveSessionKeys K i j with
  | .ok sk => sk.recvMAC
  | .error _ => []

/-- `c.keys.macHistory = addMacKey …` (both in `processDataMessageRaw` and `genDataMsgWithFlag`) -/
def Keys.recordMac (k : Keys) (i j : Nat) (key : Bytes) : Keys :=
  { k with macHistory := addMacKey k.macHistory i j key }

/-- the counter bump of `genDataMsgWithFlag` -/
def Keys.bumpOur (k : Keys) : Keys :=
  let (cnt, cs) := findCounter k.counters (k.ourKeyID - 1) k.theirKeyID
  let ourCtr := if cnt.ourCounter = 0 then 1 else cnt.ourCounter
  { k with counters := updateCounter cs { cnt with ourCounter := ourCtr + 1 } }

/-- the top half of the AES counter the next outgoing data message carries -/
def Keys.sendCtr (k : Keys) : Nat :=
  let cnt := (findCounter k.counters (k.ourKeyID - 1) k.theirKeyID).1
  if cnt.ourCounter = 0 then 1 else cnt.ourCounter

/-- an incoming data message `(r, s, n, y)` is accepted: both keys are in the window (and present),
    the counter is fresh (the MAC is assumed to verify) -/
def Keys.accepts (K : Crypto) (k : Keys) (r s n : Nat) : Prop :=
  (∃ sk, k.deriveSessionKeys K r s = .ok sk) ∧ (findCounter k.counters r s).1.theirCounter < n

/-- state after accepting it: `checkMessageCounter`, `addMacKey`, `rotateOurKeys`, `rotateTheirKey`
    (`processDataMessageRaw` + `processDataMessageTail`); `newPriv` = the fresh 40-byte exponent -/
def Keys.afterAccept (K : Crypto) (k : Keys) (r s n y : Nat) (newPriv : Bytes) : Keys :=
  ((((k.checkMessageCounter r s n).1.recordMac r s (k.recvMACOf K r s)).rotateOurKeys K r
      (some newPriv)).1).rotateTheirKey s y

/-- state after emitting one data message (`genDataMsgWithFlag`), given it succeeded -/
def Keys.afterSend (K : Crypto) (k : Keys) : Keys :=
  ((k.recordMac (k.ourKeyID - 1) k.theirKeyID
      (k.recvMACOf K (k.ourKeyID - 1) k.theirKeyID)).bumpOur.revealMACKeys).2

inductive KStep (K : Crypto) : Keys → Keys → Prop
  | recv (k : Keys) (r s n y : Nat) (newPriv : Bytes) :
      k.accepts K r s n → KStep K k (k.afterAccept K r s n y newPriv)
  | send (k : Keys) :
      (∃ sk, k.deriveSessionKeys K (k.ourKeyID - 1) k.theirKeyID = .ok sk) → KStep K k (k.afterSend K)
  /-- a rejected message, or any call that does not touch the keys -/
  | reject (k : Keys) : KStep K k k

/-- reflexive transitive closure -/
inductive KSteps (K : Crypto) : Keys → Keys → Prop
  | refl (k : Keys) : KSteps K k k
  | tail {k k1 k2 : Keys} : KSteps K k k1 → KStep K k1 k2 → KSteps K k k2

theorem KSteps.single {K k k'} (h : KStep K k k') : KSteps K k k' := .tail (.refl k) h

theorem KSteps.trans {K k1 k2 k3} (h1 : KSteps K k1 k2) (h2 : KSteps K k2 k3) : KSteps K k1 k3 := by
  induction h2 with
  | refl => exact h1
  | tail _ hs ih => exact .tail ih hs

theorem KSteps.head {K k1 k2 k3} (h1 : KStep K k1 k2) (h2 : KSteps K k2 k3) : KSteps K k1 k3 :=
  (KSteps.single h1).trans h2

/-! ### window facts for `deriveSessionKeys` -/

theorem pickOurKeys_ok {k : Keys} {id v} (h : k.pickOurKeys id = .ok v) :
    1 ≤ id ∧ 1 ≤ k.ourKeyID ∧ (id = k.ourKeyID ∨ id + 1 = k.ourKeyID) := by
  unfold Keys.pickOurKeys at h
  split at h
  · cases h
  · split at h
    · omega
    · split at h
      · omega
      · cases h

theorem pickTheirKey_ok {k : Keys} {id v} (h : k.pickTheirKey id = .ok v) :
    1 ≤ id ∧ 1 ≤ k.theirKeyID ∧ (id = k.theirKeyID ∨ id + 1 = k.theirKeyID) := by
  unfold Keys.pickTheirKey at h
  split at h
  · cases h
  · split at h
    · omega
    · split at h
      · omega
      · cases h

theorem derive_ok_inWin {K} {k : Keys} {i j sk} (h : k.deriveSessionKeys K i j = .ok sk) :
    InWin k.ourKeyID k.theirKeyID i j ∧ 1 ≤ i ∧ 1 ≤ j ∧ 1 ≤ k.ourKeyID ∧ 1 ≤ k.theirKeyID := by
  unfold Keys.deriveSessionKeys at h
  split at h
  · cases h
  · rename_i ours ho
    split at h
    · cases h
    · rename_i theirs ht
      have h1 := pickOurKeys_ok ho
      have h2 := pickTheirKey_ok ht
      unfold InWin
      omega

/-- C09 (b): a pair with a retired key id can not be used: `deriveSessionKeys` is an error -/
theorem derive_retired {K} (k : Keys) (i j : Nat) (h : i + 1 < k.ourKeyID ∨ j + 1 < k.theirKeyID) :
    ∃ e, k.deriveSessionKeys K i j = .error e := by
  cases hd : k.deriveSessionKeys K i j with
  | error e => exact ⟨e, rfl⟩
  | ok sk =>
    have := (derive_ok_inWin hd).1
    unfold InWin at this
    omega

/-! ### counter history -/

def ctrMatch (i j : Nat) : Counter → Bool := fun c => c.ourKeyID == i && c.theirKeyID == j

theorem ctrMatch_iff {i j : Nat} {c : Counter} :
    ctrMatch i j c = true ↔ c.ourKeyID = i ∧ c.theirKeyID = j := by
  simp only [ctrMatch, Bool.and_eq_true, beq_iff_eq]

theorem findCounter_cases (cs : List Counter) (i j : Nat) :
    (∃ c, cs.find? (ctrMatch i j) = some c ∧ findCounter cs i j = (c, cs)) ∨
    (cs.find? (ctrMatch i j) = none ∧
      findCounter cs i j = (⟨i, j, 0, 0⟩, cs ++ [⟨i, j, 0, 0⟩])) := by
  cases h : cs.find? (ctrMatch i j) with
  | some c =>
    left
    refine ⟨c, rfl, ?_⟩
    show (match cs.find? (ctrMatch i j) with
      | some c => (c, cs)
      | none => ((⟨i, j, 0, 0⟩ : Counter), cs ++ [(⟨i, j, 0, 0⟩ : Counter)])) = _
    rw [h]
  | none =>
    right
    refine ⟨rfl, ?_⟩
    show (match cs.find? (ctrMatch i j) with
      | some c => (c, cs)
      | none => ((⟨i, j, 0, 0⟩ : Counter), cs ++ [(⟨i, j, 0, 0⟩ : Counter)])) = _
    rw [h]

theorem findCounter_of_some {cs : List Counter} {i j : Nat} {c : Counter}
    (h : cs.find? (ctrMatch i j) = some c) : findCounter cs i j = (c, cs) := by
  rcases findCounter_cases cs i j with ⟨c', h1, h2⟩ | ⟨h1, _⟩
  · rw [h] at h1; cases h1; exact h2
  · rw [h] at h1; cases h1

/-- the returned entry is the one `find?` sees in the returned history -/
theorem findCounter_find (cs : List Counter) (i j : Nat) :
    (findCounter cs i j).2.find? (ctrMatch i j) = some (findCounter cs i j).1 := by
  rcases findCounter_cases cs i j with ⟨c, h1, h2⟩ | ⟨h1, h2⟩
  · rw [h2]; exact h1
  · rw [h2]
    simp only [find?_append, h1, Option.none_or, find?_cons, ctrMatch, beq_self_eq_true,
      Bool.and_self]

theorem findCounter_find_mono {cs : List Counter} (i j : Nat) {i' j' : Nat} {c : Counter}
    (h : cs.find? (ctrMatch i' j') = some c) :
    (findCounter cs i j).2.find? (ctrMatch i' j') = some c := by
  rcases findCounter_cases cs i j with ⟨c0, _, h2⟩ | ⟨_, h2⟩
  · rw [h2]; exact h
  · rw [h2]; simp only [find?_append, h, Option.some_or]

theorem findCounter_ids (cs : List Counter) (i j : Nat) :
    (findCounter cs i j).1.ourKeyID = i ∧ (findCounter cs i j).1.theirKeyID = j :=
  ctrMatch_iff.mp (find?_some (findCounter_find cs i j))

theorem findCounter_length (cs : List Counter) (i j : Nat) :
    (findCounter cs i j).2.length ≤ cs.length + 1 := by
  rcases findCounter_cases cs i j with ⟨c0, _, h2⟩ | ⟨_, h2⟩
  · rw [h2]; exact Nat.le_succ _
  · rw [h2]; simp only [length_append, length_cons, length_nil]; exact Nat.le_refl _

theorem findCounter_pairsOK {o t : Nat} {cs : List Counter} (i j : Nat)
    (h : PairsOK o t (cs.map Counter.pair)) (hw : InWin o t i j) :
    PairsOK o t ((findCounter cs i j).2.map Counter.pair) := by
  rcases findCounter_cases cs i j with ⟨c0, _, h2⟩ | ⟨h1, h2⟩
  · rw [h2]; exact h
  · rw [h2, map_append]
    refine h.concat hw ?_
    intro hm
    rw [mem_map] at hm
    obtain ⟨c, hc, hp⟩ := hm
    rw [find?_eq_none] at h1
    apply h1 c hc
    rw [ctrMatch_iff]
    simp only [Counter.pair, Prod.mk.injEq] at hp
    exact hp

theorem updateCounter_find (cs : List Counter) (c : Counter) (i j : Nat) :
    (updateCounter cs c).find? (ctrMatch i j) =
      (cs.find? (ctrMatch i j)).map
        (fun x => if ctrMatch c.ourKeyID c.theirKeyID x then c else x) := by
  have hf : (fun x : Counter => if x.ourKeyID == c.ourKeyID && x.theirKeyID == c.theirKeyID then c else x)
      = (fun x => if ctrMatch c.ourKeyID c.theirKeyID x then c else x) := rfl
  unfold updateCounter
  rw [hf, find?_map]
  congr 1
  congr 1
  funext x
  simp only [Function.comp]
  split
  · rename_i hx
    have := ctrMatch_iff.mp hx
    simp only [ctrMatch, this.1, this.2]
  · rfl

theorem updateCounter_pairs (cs : List Counter) (c : Counter) :
    (updateCounter cs c).map Counter.pair = cs.map Counter.pair := by
  unfold updateCounter
  rw [map_map]
  apply map_congr_left
  intro x _
  simp only [Function.comp]
  split
  · rename_i hx
    have := ctrMatch_iff.mp hx
    simp only [Counter.pair, this.1, this.2]
  · rfl

theorem updateCounter_length (cs : List Counter) (c : Counter) :
    (updateCounter cs c).length = cs.length := by
  unfold updateCounter; exact length_map _

/-- the counter history after `checkMessageCounter` -/
def storeCtr (cs : List Counter) (r s n : Nat) : List Counter :=
  if n ≤ (findCounter cs r s).1.theirCounter then (findCounter cs r s).2
  else updateCounter (findCounter cs r s).2 { (findCounter cs r s).1 with theirCounter := n }

theorem checkMessageCounter_fst (k : Keys) (r s n : Nat) :
    (k.checkMessageCounter r s n).1 = { k with counters := storeCtr k.counters r s n } := by
  unfold Keys.checkMessageCounter storeCtr
  simp only
  split <;> rfl

/-- the counter history after the bump in `genDataMsgWithFlag` -/
def bumpCtr (cs : List Counter) (i j : Nat) : List Counter :=
  updateCounter (findCounter cs i j).2
    { (findCounter cs i j).1 with
      ourCounter := (if (findCounter cs i j).1.ourCounter = 0 then 1
                     else (findCounter cs i j).1.ourCounter) + 1 }

theorem bumpOur_eq (k : Keys) :
    k.bumpOur = { k with counters := bumpCtr k.counters (k.ourKeyID - 1) k.theirKeyID } := rfl

theorem rotateOur_eq {K} (k : Keys) (p : Bytes) :
    (k.rotateOurKeys K k.ourKeyID (some p)).1 =
      { k with
        macHistory := (forgetMacKeys k.macHistory (fun u => u.ourKeyID == k.ourKeyID - 1)).2
        oldMACKeys := k.oldMACKeys ++ (forgetMacKeys k.macHistory (fun u => u.ourKeyID == k.ourKeyID - 1)).1
        counters := k.counters.filter (fun c => c.ourKeyID != k.ourKeyID - 1)
        ourPrev := k.ourCur
        ourCur := some ⟨K.gexp dhG (bytesToNat p), p⟩
        ourKeyID := k.ourKeyID + 1 } := by
  simp only [Keys.rotateOurKeys, ↓reduceIte]

theorem rotateOur_ne {K} (k : Keys) (r : Nat) (np : Option Bytes) (h : r ≠ k.ourKeyID) :
    (k.rotateOurKeys K r np).1 = k := by
  simp only [Keys.rotateOurKeys, h, ↓reduceIte]

theorem rotateTheir_eq (k : Keys) (y : Nat) :
    k.rotateTheirKey k.theirKeyID y =
      { k with
        macHistory := (forgetMacKeys k.macHistory (fun u => u.theirKeyID == k.theirKeyID - 1)).2
        oldMACKeys := k.oldMACKeys ++ (forgetMacKeys k.macHistory (fun u => u.theirKeyID == k.theirKeyID - 1)).1
        counters := k.counters.filter (fun c => c.theirKeyID != k.theirKeyID - 1)
        theirPrev := k.theirCur
        theirCur := some y
        theirKeyID := k.theirKeyID + 1 } := by
  simp only [Keys.rotateTheirKey, ↓reduceIte]

theorem rotateTheir_ne (k : Keys) (s y : Nat) (h : s ≠ k.theirKeyID) :
    k.rotateTheirKey s y = k := by
  simp only [Keys.rotateTheirKey, h, ↓reduceIte]

/-! ### MAC key history -/

theorem addMacKey_cases (h : List MacUse) (i j : Nat) (key : Bytes) :
    (addMacKey h i j key = h ∧ ∃ u ∈ h, u.pair = (i, j)) ∨
    (addMacKey h i j key = h ++ [⟨i, j, key⟩] ∧ (i, j) ∉ h.map MacUse.pair) := by
  unfold addMacKey
  split
  · rename_i hany
    left
    refine ⟨rfl, ?_⟩
    rw [any_eq_true] at hany
    obtain ⟨u, hu, hm⟩ := hany
    simp only [Bool.and_eq_true, beq_iff_eq] at hm
    exact ⟨u, hu, by simp only [MacUse.pair, hm.1, hm.2]⟩
  · rename_i hany
    right
    refine ⟨rfl, ?_⟩
    intro hm
    apply hany
    rw [mem_map] at hm
    obtain ⟨u, hu, hp⟩ := hm
    simp only [MacUse.pair, Prod.mk.injEq] at hp
    rw [any_eq_true]
    exact ⟨u, hu, by simp only [hp.1, hp.2, beq_self_eq_true, Bool.and_self]⟩

theorem addMacKey_pairsOK {o t : Nat} {h : List MacUse} (i j : Nat) (key : Bytes)
    (hp : PairsOK o t (h.map MacUse.pair)) (hw : InWin o t i j) :
    PairsOK o t ((addMacKey h i j key).map MacUse.pair) := by
  rcases addMacKey_cases h i j key with ⟨h1, _⟩ | ⟨h1, h2⟩
  · rw [h1]; exact hp
  · rw [h1, map_append]; exact hp.concat hw h2

theorem addMacKey_length_le (h : List MacUse) (i j : Nat) (key : Bytes) :
    (addMacKey h i j key).length ≤ h.length + 1 := by
  rcases addMacKey_cases h i j key with ⟨h1, _⟩ | ⟨h1, _⟩
  · rw [h1]; exact Nat.le_succ _
  · rw [h1]; simp only [length_append, length_cons, length_nil]; exact Nat.le_refl _

theorem addMacKey_mem_old {h : List MacUse} {u : MacUse} (i j : Nat) (key : Bytes) (hu : u ∈ h) :
    u ∈ addMacKey h i j key := by
  rcases addMacKey_cases h i j key with ⟨h1, _⟩ | ⟨h1, _⟩
  · rw [h1]; exact hu
  · rw [h1]; exact mem_append_left _ hu

theorem addMacKey_mem {h : List MacUse} {u : MacUse} {i j : Nat} {key : Bytes}
    (hu : u ∈ addMacKey h i j key) : u ∈ h ∨ u = ⟨i, j, key⟩ := by
  rcases addMacKey_cases h i j key with ⟨h1, _⟩ | ⟨h1, _⟩
  · rw [h1] at hu; exact .inl hu
  · rw [h1, mem_append, mem_singleton] at hu; exact hu

/-- after `addMacKey` the pair has an entry -/
theorem addMacKey_has (h : List MacUse) (i j : Nat) (key : Bytes) :
    ∃ u ∈ addMacKey h i j key, u.pair = (i, j) := by
  rcases addMacKey_cases h i j key with ⟨h1, h2⟩ | ⟨h1, _⟩
  · rw [h1]; exact h2
  · rw [h1]; exact ⟨⟨i, j, key⟩, mem_append_right _ (mem_singleton.mpr rfl), rfl⟩

theorem ctr_filter_our_pairs (cs : List Counter) (x : Nat) :
    (cs.filter (fun c => c.ourKeyID != x)).map Counter.pair =
      (cs.map Counter.pair).filter (fun p => p.1 != x) := by
  rw [filter_map]; rfl

theorem ctr_filter_their_pairs (cs : List Counter) (x : Nat) :
    (cs.filter (fun c => c.theirKeyID != x)).map Counter.pair =
      (cs.map Counter.pair).filter (fun p => p.2 != x) := by
  rw [filter_map]; rfl

theorem forget_our_pairs (h : List MacUse) (x : Nat) :
    (forgetMacKeys h (fun u => u.ourKeyID == x)).2.map MacUse.pair ~
      (h.map MacUse.pair).filter (fun p => p.1 != x) := by
  have h1 := (forgetMacKeys_perm h (fun u => u.ourKeyID == x)).map MacUse.pair
  have h2 : (h.filter (fun u => !(u.ourKeyID == x))).map MacUse.pair =
      (h.map MacUse.pair).filter (fun p => p.1 != x) := by rw [filter_map]; rfl
  rw [← h2]; exact h1

theorem forget_their_pairs (h : List MacUse) (x : Nat) :
    (forgetMacKeys h (fun u => u.theirKeyID == x)).2.map MacUse.pair ~
      (h.map MacUse.pair).filter (fun p => p.2 != x) := by
  have h1 := (forgetMacKeys_perm h (fun u => u.theirKeyID == x)).map MacUse.pair
  have h2 : (h.filter (fun u => !(u.theirKeyID == x))).map MacUse.pair =
      (h.map MacUse.pair).filter (fun p => p.2 != x) := by rw [filter_map]; rfl
  rw [← h2]; exact h1

/-! ## Key ids only grow -/

theorem rotateOur_ourKeyID {K} (k : Keys) (r : Nat) (p : Bytes) :
    (k.rotateOurKeys K r (some p)).1.ourKeyID = if r = k.ourKeyID then k.ourKeyID + 1 else k.ourKeyID := by
  by_cases h : r = k.ourKeyID
  · subst h; rw [rotateOur_eq]; simp only [↓reduceIte]
  · rw [rotateOur_ne k r _ h]; simp only [h, ↓reduceIte]

theorem rotateOur_theirKeyID {K} (k : Keys) (r : Nat) (p : Bytes) :
    (k.rotateOurKeys K r (some p)).1.theirKeyID = k.theirKeyID := by
  by_cases h : r = k.ourKeyID
  · subst h; rw [rotateOur_eq]
  · rw [rotateOur_ne k r _ h]

theorem rotateTheir_theirKeyID (k : Keys) (s y : Nat) :
    (k.rotateTheirKey s y).theirKeyID = if s = k.theirKeyID then k.theirKeyID + 1 else k.theirKeyID := by
  by_cases h : s = k.theirKeyID
  · subst h; rw [rotateTheir_eq]; simp only [↓reduceIte]
  · rw [rotateTheir_ne k s _ h]; simp only [h, ↓reduceIte]

theorem rotateTheir_ourKeyID (k : Keys) (s y : Nat) :
    (k.rotateTheirKey s y).ourKeyID = k.ourKeyID := by
  by_cases h : s = k.theirKeyID
  · subst h; rw [rotateTheir_eq]
  · rw [rotateTheir_ne k s _ h]

theorem afterAccept_ourKeyID {K} (k : Keys) (r s n y : Nat) (p : Bytes) :
    (k.afterAccept K r s n y p).ourKeyID = if r = k.ourKeyID then k.ourKeyID + 1 else k.ourKeyID := by
  unfold Keys.afterAccept
  rw [rotateTheir_ourKeyID, rotateOur_ourKeyID, checkMessageCounter_fst]
  rfl

theorem afterAccept_theirKeyID {K} (k : Keys) (r s n y : Nat) (p : Bytes) :
    (k.afterAccept K r s n y p).theirKeyID = if s = k.theirKeyID then k.theirKeyID + 1 else k.theirKeyID := by
  unfold Keys.afterAccept
  rw [rotateTheir_theirKeyID, rotateOur_theirKeyID, checkMessageCounter_fst]
  rfl

theorem afterSend_ourKeyID {K} (k : Keys) : (k.afterSend K).ourKeyID = k.ourKeyID := rfl
theorem afterSend_theirKeyID {K} (k : Keys) : (k.afterSend K).theirKeyID = k.theirKeyID := rfl

theorem KStep.ids_mono {K k k'} (h : KStep K k k') :
    k.ourKeyID ≤ k'.ourKeyID ∧ k.theirKeyID ≤ k'.theirKeyID := by
  cases h with
  | recv r s n y p _ =>
    rw [afterAccept_ourKeyID, afterAccept_theirKeyID]
    constructor <;> split <;> omega
  | send _ => exact ⟨Nat.le_refl _, Nat.le_refl _⟩
  | reject => exact ⟨Nat.le_refl _, Nat.le_refl _⟩

/-- C09 (b), monotonicity: key ids never decrease -/
theorem KSteps.ids_mono {K k k'} (h : KSteps K k k') :
    k.ourKeyID ≤ k'.ourKeyID ∧ k.theirKeyID ≤ k'.theirKeyID := by
  induction h with
  | refl => exact ⟨Nat.le_refl _, Nat.le_refl _⟩
  | tail _ hs ih => have := hs.ids_mono; omega

/-- C09 (b): once a pair is retired, `deriveSessionKeys` fails for it in every later state -/
theorem retired_forever {K k k'} (h : KSteps K k k') (i j : Nat)
    (hr : i + 1 < k.ourKeyID ∨ j + 1 < k.theirKeyID) :
    ∃ e, k'.deriveSessionKeys K i j = .error e := by
  have := h.ids_mono
  exact derive_retired k' i j (by omega)

/-! ## Well-formedness -/

/-- key ids are positive; every counter entry and every MAC-history entry belongs to a pair inside
    the window `{ourKeyID, ourKeyID-1} × {theirKeyID, theirKeyID-1}`; at most one entry per pair -/
structure WF (k : Keys) : Prop where
  our_pos : 1 ≤ k.ourKeyID
  their_pos : 1 ≤ k.theirKeyID
  ctr : PairsOK k.ourKeyID k.theirKeyID (k.counters.map Counter.pair)
  mac : PairsOK k.ourKeyID k.theirKeyID (k.macHistory.map MacUse.pair)

theorem WF.ctr_win {k : Keys} (h : WF k) {c : Counter} (hc : c ∈ k.counters) :
    InWin k.ourKeyID k.theirKeyID c.ourKeyID c.theirKeyID :=
  h.ctr.win c.pair (mem_map_of_mem hc)

theorem WF.mac_win {k : Keys} (h : WF k) {u : MacUse} (hu : u ∈ k.macHistory) :
    InWin k.ourKeyID k.theirKeyID u.ourKeyID u.theirKeyID :=
  h.mac.win u.pair (mem_map_of_mem hu)

/-- no two MAC-history entries for the same pair -/
theorem WF.mac_unique {k : Keys} (h : WF k) : (k.macHistory.map MacUse.pair).Nodup := h.mac.nodup
theorem WF.ctr_unique {k : Keys} (h : WF k) : (k.counters.map Counter.pair).Nodup := h.ctr.nodup

theorem storeCtr_pairsOK {o t : Nat} {cs : List Counter} (r s n : Nat)
    (h : PairsOK o t (cs.map Counter.pair)) (hw : InWin o t r s) :
    PairsOK o t ((storeCtr cs r s n).map Counter.pair) := by
  unfold storeCtr
  split
  · exact findCounter_pairsOK r s h hw
  · rw [updateCounter_pairs]; exact findCounter_pairsOK r s h hw

theorem bumpCtr_pairsOK {o t : Nat} {cs : List Counter} (i j : Nat)
    (h : PairsOK o t (cs.map Counter.pair)) (hw : InWin o t i j) :
    PairsOK o t ((bumpCtr cs i j).map Counter.pair) := by
  unfold bumpCtr
  rw [updateCounter_pairs]; exact findCounter_pairsOK i j h hw

theorem WF.checkCtr {k : Keys} (h : WF k) {r s : Nat} (n : Nat)
    (hw : InWin k.ourKeyID k.theirKeyID r s) : WF (k.checkMessageCounter r s n).1 := by
  rw [checkMessageCounter_fst]
  exact ⟨h.our_pos, h.their_pos, storeCtr_pairsOK r s n h.ctr hw, h.mac⟩

theorem WF.recordMac {k : Keys} (h : WF k) {i j : Nat} (key : Bytes)
    (hw : InWin k.ourKeyID k.theirKeyID i j) : WF (k.recordMac i j key) :=
  ⟨h.our_pos, h.their_pos, h.ctr, addMacKey_pairsOK i j key h.mac hw⟩

theorem WF.rotateOur {K} {k : Keys} (h : WF k) (r : Nat) (p : Bytes) :
    WF (k.rotateOurKeys K r (some p)).1 := by
  by_cases hr : r = k.ourKeyID
  · subst hr
    rw [rotateOur_eq]
    refine ⟨Nat.le_add_left _ _, h.their_pos, ?_, ?_⟩
    · show PairsOK (k.ourKeyID + 1) k.theirKeyID
        ((k.counters.filter (fun c => c.ourKeyID != k.ourKeyID - 1)).map Counter.pair)
      rw [ctr_filter_our_pairs]; exact h.ctr.rotOur h.our_pos
    · exact (h.mac.rotOur h.our_pos).perm (forget_our_pairs _ _)
  · rw [rotateOur_ne k r _ hr]; exact h

theorem WF.rotateTheir {k : Keys} (h : WF k) (s y : Nat) : WF (k.rotateTheirKey s y) := by
  by_cases hs : s = k.theirKeyID
  · subst hs
    rw [rotateTheir_eq]
    refine ⟨h.our_pos, Nat.le_add_left _ _, ?_, ?_⟩
    · show PairsOK k.ourKeyID (k.theirKeyID + 1)
        ((k.counters.filter (fun c => c.theirKeyID != k.theirKeyID - 1)).map Counter.pair)
      rw [ctr_filter_their_pairs]; exact h.ctr.rotTheir h.their_pos
    · exact (h.mac.rotTheir h.their_pos).perm (forget_their_pairs _ _)
  · rw [rotateTheir_ne k s _ hs]; exact h

theorem WF.bumpOur {k : Keys} (h : WF k)
    (hw : InWin k.ourKeyID k.theirKeyID (k.ourKeyID - 1) k.theirKeyID) : WF k.bumpOur := by
  rw [bumpOur_eq]
  exact ⟨h.our_pos, h.their_pos, bumpCtr_pairsOK _ _ h.ctr hw, h.mac⟩

theorem WF.reveal {k : Keys} (h : WF k) : WF k.revealMACKeys.2 :=
  ⟨h.our_pos, h.their_pos, h.ctr, h.mac⟩

theorem WF.afterAccept {K} {k : Keys} (h : WF k) {r s : Nat} (n y : Nat) (p : Bytes)
    (hw : InWin k.ourKeyID k.theirKeyID r s) : WF (k.afterAccept K r s n y p) := by
  unfold Keys.afterAccept
  apply WF.rotateTheir
  apply WF.rotateOur
  have h1 := h.checkCtr n hw
  apply h1.recordMac
  rw [checkMessageCounter_fst]; exact hw

theorem WF.afterSend {K} {k : Keys} (h : WF k)
    (hw : InWin k.ourKeyID k.theirKeyID (k.ourKeyID - 1) k.theirKeyID) : WF (k.afterSend K) := by
  unfold Keys.afterSend
  apply WF.reveal
  apply WF.bumpOur
  · exact h.recordMac _ hw
  · exact hw

/-- `WF` is preserved by every step -/
theorem WF.step {K k k'} (h : WF k) (hs : KStep K k k') : WF k' := by
  cases hs with
  | recv r s n y p hacc =>
    obtain ⟨⟨sk, hsk⟩, _⟩ := hacc
    exact h.afterAccept n y p (derive_ok_inWin hsk).1
  | send hd =>
    obtain ⟨sk, hsk⟩ := hd
    exact h.afterSend (derive_ok_inWin hsk).1
  | reject => exact h

theorem WF.steps {K k k'} (h : WF k) (hs : KSteps K k k') : WF k' := by
  induction hs with
  | refl => exact h
  | tail _ hs ih => exact ih.step hs

/-- the key-management state right after a key exchange (`akeHasFinished`): our AKE key is
    `ourPrev` (id 1), a fresh key is `ourCur` (id 2), the peer's AKE key is `theirCur` (id 1) -/
def Keys.postAKE (a b : DhPair) (y : Nat) : Keys :=
  { ourKeyID := 2, theirKeyID := 1, ourCur := some a, ourPrev := some b,
    theirCur := some y, theirPrev := none }

theorem wf_postAKE (a b : DhPair) (y : Nat) : WF (Keys.postAKE a b y) :=
  ⟨(by show 1 ≤ 2; omega), Nat.le_refl 1, PairsOK.nil _ _, PairsOK.nil _ _⟩

/-! ## C05 — stored counters of in-window pairs never decrease -/

/-- a projection of a counter entry that does not decrease when either counter is raised -/
structure MonoProj (f : Counter → Nat) : Prop where
  their : ∀ (c : Counter) (m : Nat), c.theirCounter ≤ m → f c ≤ f { c with theirCounter := m }
  our : ∀ (c : Counter) (m : Nat), c.ourCounter ≤ m → f c ≤ f { c with ourCounter := m }

theorem monoProj_their : MonoProj Counter.theirCounter := ⟨fun _ _ h => h, fun _ _ _ => Nat.le_refl _⟩
theorem monoProj_our : MonoProj Counter.ourCounter := ⟨fun _ _ _ => Nat.le_refl _, fun _ _ h => h⟩

/-- the history has an entry for `(i, j)` (the one `findCounter` returns) with `f`-value `≥ n` -/
def StoredC (f : Counter → Nat) (cs : List Counter) (i j n : Nat) : Prop :=
  ∃ c, cs.find? (ctrMatch i j) = some c ∧ n ≤ f c

theorem StoredC.findCounter {f cs i j n} (h : StoredC f cs i j n) (i' j' : Nat) :
    StoredC f (findCounter cs i' j').2 i j n := by
  obtain ⟨c, hc, hn⟩ := h
  exact ⟨c, findCounter_find_mono i' j' hc, hn⟩

theorem StoredC.update {f cs i j n} (h : StoredC f cs i j n) (c' : Counter)
    (hc' : ∀ c0, cs.find? (ctrMatch c'.ourKeyID c'.theirKeyID) = some c0 → f c0 ≤ f c') :
    StoredC f (updateCounter cs c') i j n := by
  obtain ⟨c, hc, hn⟩ := h
  refine ⟨_, by rw [updateCounter_find, hc]; rfl, ?_⟩
  dsimp only
  split
  · rename_i hm
    have h1 := ctrMatch_iff.mp hm
    have h2 := ctrMatch_iff.mp (find?_some hc)
    have : f c ≤ f c' := hc' c (by rw [← h1.1, ← h1.2, h2.1, h2.2]; exact hc)
    exact Nat.le_trans hn this
  · exact hn

theorem StoredC.store {f cs i j n} (hf : MonoProj f) (h : StoredC f cs i j n) (r s n' : Nat) :
    StoredC f (storeCtr cs r s n') i j n := by
  unfold storeCtr
  split
  · exact h.findCounter r s
  · rename_i hlt
    apply (h.findCounter r s).update
    intro c0 hc0
    have hids := findCounter_ids cs r s
    simp only [hids.1, hids.2, findCounter_find, Option.some.injEq] at hc0
    subst hc0
    exact hf.their _ _ (by omega)

theorem StoredC.bump {f cs i j n} (hf : MonoProj f) (h : StoredC f cs i j n) (i' j' : Nat) :
    StoredC f (bumpCtr cs i' j') i j n := by
  unfold bumpCtr
  apply (h.findCounter i' j').update
  intro c0 hc0
  have hids := findCounter_ids cs i' j'
  simp only [hids.1, hids.2, findCounter_find, Option.some.injEq] at hc0
  subst hc0
  exact hf.our _ _ (by split <;> omega)

theorem StoredC.filter {f cs i j n} (h : StoredC f cs i j n) (g : Counter → Bool)
    (hg : ∀ c, ctrMatch i j c = true → g c = true) : StoredC f (cs.filter g) i j n := by
  obtain ⟨c, hc, hn⟩ := h
  refine ⟨c, ?_, hn⟩
  rw [find?_filter]
  have : (fun a => decide (g a = true ∧ ctrMatch i j a = true)) = ctrMatch i j := by
    funext a
    cases hm : ctrMatch i j a with
    | true => simp only [hg a hm, and_self, decide_true]
    | false => simp
  rw [this]; exact hc

/-- the pair `(i, j)` is retired (`i < ourKeyID - 1` or `j < theirKeyID - 1`), or its stored
    counter (projection `f`) is at least `n` -/
def Keys.Stored (f : Counter → Nat) (k : Keys) (i j n : Nat) : Prop :=
  i + 1 < k.ourKeyID ∨ j + 1 < k.theirKeyID ∨ StoredC f k.counters i j n

theorem Keys.Stored.checkCtr {f} {k : Keys} {i j n} (hf : MonoProj f) (h : k.Stored f i j n) (r s n' : Nat) :
    (k.checkMessageCounter r s n').1.Stored f i j n := by
  rw [checkMessageCounter_fst]
  rcases h with h | h | h
  · exact .inl h
  · exact .inr (.inl h)
  · exact .inr (.inr (h.store hf r s n'))

theorem Keys.Stored.rotateOur {K f} {k : Keys} {i j n} (h : k.Stored f i j n) (ho : 1 ≤ k.ourKeyID)
    (r : Nat) (p : Bytes) : (k.rotateOurKeys K r (some p)).1.Stored f i j n := by
  by_cases hr : r = k.ourKeyID
  · subst hr
    rw [rotateOur_eq]
    rcases h with h | h | h
    · exact .inl (Nat.lt_succ_of_lt h)
    · exact .inr (.inl h)
    · by_cases hi : i = k.ourKeyID - 1
      · left; show i + 1 < k.ourKeyID + 1; omega
      · right; right
        apply h.filter
        intro c hc
        have := (ctrMatch_iff.mp hc).1
        simp only [bne_iff_ne, ne_eq]; omega
  · rw [rotateOur_ne k r _ hr]; exact h

theorem Keys.Stored.rotateTheir {f} {k : Keys} {i j n} (h : k.Stored f i j n) (ht : 1 ≤ k.theirKeyID)
    (s y : Nat) : (k.rotateTheirKey s y).Stored f i j n := by
  by_cases hs : s = k.theirKeyID
  · subst hs
    rw [rotateTheir_eq]
    rcases h with h | h | h
    · exact .inl h
    · exact .inr (.inl (Nat.lt_succ_of_lt h))
    · by_cases hj : j = k.theirKeyID - 1
      · right; left; show j + 1 < k.theirKeyID + 1; omega
      · right; right
        apply h.filter
        intro c hc
        have := (ctrMatch_iff.mp hc).2
        simp only [bne_iff_ne, ne_eq]; omega
  · rw [rotateTheir_ne k s _ hs]; exact h

theorem Keys.Stored.bumpOur {f} {k : Keys} {i j n} (hf : MonoProj f) (h : k.Stored f i j n) :
    k.bumpOur.Stored f i j n := by
  rw [bumpOur_eq]
  rcases h with h | h | h
  · exact .inl h
  · exact .inr (.inl h)
  · exact .inr (.inr (h.bump hf _ _))

theorem Keys.Stored.afterAccept {K f} {k : Keys} {i j n} (hf : MonoProj f) (h : k.Stored f i j n)
    (ho : 1 ≤ k.ourKeyID) (ht : 1 ≤ k.theirKeyID) (r s n' y : Nat) (p : Bytes) :
    (k.afterAccept K r s n' y p).Stored f i j n := by
  unfold Keys.afterAccept
  apply Keys.Stored.rotateTheir
  · apply Keys.Stored.rotateOur
    · exact h.checkCtr hf r s n'
    · rw [checkMessageCounter_fst]; exact ho
  · rw [rotateOur_theirKeyID, checkMessageCounter_fst]; exact ht

theorem Keys.Stored.afterSend {K f} {k : Keys} {i j n} (hf : MonoProj f) (h : k.Stored f i j n) :
    (k.afterSend K).Stored f i j n := by
  unfold Keys.afterSend
  have h1 : (k.recordMac (k.ourKeyID - 1) k.theirKeyID
      (k.recvMACOf K (k.ourKeyID - 1) k.theirKeyID)).Stored f i j n := h
  exact h1.bumpOur hf

theorem Keys.Stored.step {K f} {k k' : Keys} {i j n} (hf : MonoProj f) (h : k.Stored f i j n)
    (ho : 1 ≤ k.ourKeyID) (ht : 1 ≤ k.theirKeyID) (hs : KStep K k k') : k'.Stored f i j n := by
  cases hs with
  | recv r s n' y p _ => exact h.afterAccept hf ho ht r s n' y p
  | send _ => exact h.afterSend hf
  | reject => exact h

/-- in-window counters never decrease, and they are only dropped when the pair is retired -/
theorem Keys.Stored.steps {K f} {k k' : Keys} {i j n} (hf : MonoProj f) (h : k.Stored f i j n)
    (ho : 1 ≤ k.ourKeyID) (ht : 1 ≤ k.theirKeyID) (hs : KSteps K k k') : k'.Stored f i j n := by
  induction hs with
  | refl => exact h
  | tail hss hs ih =>
    have := hss.ids_mono
    exact ih.step hf (by omega) (by omega) hs

/-- a message whose counter is not above the stored one, or whose pair is retired, is rejected -/
theorem Keys.Stored.not_accepts {K} {k : Keys} {r s n : Nat} (h : k.Stored Counter.theirCounter r s n) :
    ¬ k.accepts K r s n := by
  rintro ⟨⟨sk, hsk⟩, hlt⟩
  rcases h with h | h | ⟨c, hc, hn⟩
  · obtain ⟨e, he⟩ := derive_retired (K := K) k r s (.inl h)
    rw [he] at hsk; cases hsk
  · obtain ⟨e, he⟩ := derive_retired (K := K) k r s (.inr h)
    rw [he] at hsk; cases hsk
  · rw [findCounter_of_some hc] at hlt
    simp only at hlt
    omega

/-- accepting `(r, s, n)` stores `n` (or retires the pair by the rotation of the same step) -/
theorem accepts_stored {K} {k : Keys} {r s n : Nat} (h : k.accepts K r s n) (y : Nat) (p : Bytes) :
    (k.afterAccept K r s n y p).Stored Counter.theirCounter r s n := by
  obtain ⟨⟨sk, hsk⟩, hlt⟩ := h
  have hw := derive_ok_inWin hsk
  have h1 : (k.checkMessageCounter r s n).1.Stored Counter.theirCounter r s n := by
    rw [checkMessageCounter_fst]
    right; right
    show StoredC _ (storeCtr k.counters r s n) r s n
    unfold storeCtr
    rw [if_neg (by omega)]
    have hids := findCounter_ids k.counters r s
    refine ⟨_, by rw [updateCounter_find, findCounter_find]; rfl, ?_⟩
    have : ctrMatch r s (findCounter k.counters r s).1 = true := ctrMatch_iff.mpr hids
    simp only [hids.1, hids.2, this, ↓reduceIte]
    exact Nat.le_refl _
  unfold Keys.afterAccept
  apply Keys.Stored.rotateTheir
  · apply Keys.Stored.rotateOur
    · exact h1
    · rw [checkMessageCounter_fst]; exact hw.2.2.2.1
  · rw [rotateOur_theirKeyID, checkMessageCounter_fst]; exact hw.2.2.2.2

/-- **C05**: a data message with the same key ids and counter as an accepted one is never
    accepted again in the same session, whatever traffic and rotations happen in between.
    (No well-formedness hypothesis is needed: `accepts` already forces positive key ids.) -/
theorem c05_no_replay {K} {k k1 k2 : Keys} {r s n y : Nat} {np : Bytes}
    (hacc : k.accepts K r s n) (hk1 : k1 = k.afterAccept K r s n y np) (hs : KSteps K k1 k2) :
    ¬ k2.accepts K r s n := by
  subst hk1
  have hw := derive_ok_inWin hacc.1.choose_spec
  have h1 := accepts_stored hacc y np
  have hm := (KStep.recv k r s n y np hacc).ids_mono
  exact (h1.steps monoProj_their (by omega) (by omega) hs).not_accepts

/-- the form with the well-formedness hypothesis of the task statement (it is not used) -/
theorem c05_no_replay_wf {K} {k k1 k2 : Keys} {r s n y : Nat} {np : Bytes} (_ : WF k)
    (hacc : k.accepts K r s n) (hk1 : k1 = k.afterAccept K r s n y np) (hs : KSteps K k1 k2) :
    ¬ k2.accepts K r s n := c05_no_replay hacc hk1 hs

/-- also every smaller counter under the same pair is rejected from then on -/
theorem c05_no_older {K} {k k1 k2 : Keys} {r s n m y : Nat} {np : Bytes}
    (hacc : k.accepts K r s n) (hk1 : k1 = k.afterAccept K r s n y np) (hs : KSteps K k1 k2)
    (hm : m ≤ n) : ¬ k2.accepts K r s m :=
  fun h => c05_no_replay hacc hk1 hs ⟨h.1, Nat.lt_of_lt_of_le h.2 hm⟩

theorem afterSend_stored {K} (k : Keys) :
    (k.afterSend K).Stored Counter.ourCounter (k.ourKeyID - 1) k.theirKeyID (k.sendCtr + 1) := by
  right; right
  show StoredC _ (bumpCtr (k.recordMac _ _ _).counters (k.ourKeyID - 1) k.theirKeyID) _ _ _
  show StoredC _ (bumpCtr k.counters (k.ourKeyID - 1) k.theirKeyID) _ _ _
  unfold bumpCtr
  have hids := findCounter_ids k.counters (k.ourKeyID - 1) k.theirKeyID
  refine ⟨_, by rw [updateCounter_find, findCounter_find]; rfl, ?_⟩
  have : ctrMatch (k.ourKeyID - 1) k.theirKeyID (findCounter k.counters (k.ourKeyID - 1) k.theirKeyID).1 = true :=
    ctrMatch_iff.mpr hids
  simp only [hids.1, hids.2, this, ↓reduceIte]
  exact Nat.le_refl _

/-- **C05, sending side**: a send strictly increases `ourCounter` of the pair it used, and the
    counter of that pair never decreases afterwards, so two data messages sent under the same pair
    never carry the same counter (`sendCtr` = the counter the next message will carry). -/
theorem c05_send_counters_increase {K} {k k2 : Keys}
    (hd : ∃ sk, k.deriveSessionKeys K (k.ourKeyID - 1) k.theirKeyID = .ok sk)
    (hs : KSteps K (k.afterSend K) k2)
    (ho : k2.ourKeyID = k.ourKeyID) (ht : k2.theirKeyID = k.theirKeyID) :
    k.sendCtr < k2.sendCtr := by
  obtain ⟨sk, hsk⟩ := hd
  have hw := derive_ok_inWin hsk
  have h2 := (afterSend_stored (K := K) k).steps monoProj_our hw.2.2.2.1 hw.2.2.2.2 hs
  rcases h2 with h | h | ⟨c, hc, hn⟩
  · omega
  · omega
  · have h3 : k2.sendCtr = if c.ourCounter = 0 then 1 else c.ourCounter := by
      unfold Keys.sendCtr; rw [ho, ht, findCounter_of_some hc]
    rw [h3]
    generalize k.sendCtr = m at hn
    split <;> omega

theorem c05_send_counter_next {K} {k : Keys}
    (hd : ∃ sk, k.deriveSessionKeys K (k.ourKeyID - 1) k.theirKeyID = .ok sk) :
    k.sendCtr < (k.afterSend K).sendCtr :=
  c05_send_counters_increase hd (.refl _) rfl rfl

/-! ## C09 — disclosed MAC keys belong to retired pairs -/

theorem rotateOur_mac {K} (k : Keys) (r : Nat) (p : Bytes) :
    (k.rotateOurKeys K r (some p)).1.macHistory =
      if r = k.ourKeyID then (forgetMacKeys k.macHistory (fun u => u.ourKeyID == k.ourKeyID - 1)).2
      else k.macHistory := by
  by_cases h : r = k.ourKeyID
  · subst h; rw [rotateOur_eq]; simp only [↓reduceIte]
  · rw [rotateOur_ne k r _ h]; simp only [h, ↓reduceIte]

theorem rotateOur_old {K} (k : Keys) (r : Nat) (p : Bytes) :
    (k.rotateOurKeys K r (some p)).1.oldMACKeys =
      if r = k.ourKeyID then
        k.oldMACKeys ++ (forgetMacKeys k.macHistory (fun u => u.ourKeyID == k.ourKeyID - 1)).1
      else k.oldMACKeys := by
  by_cases h : r = k.ourKeyID
  · subst h; rw [rotateOur_eq]; simp only [↓reduceIte]
  · rw [rotateOur_ne k r _ h]; simp only [h, ↓reduceIte]

theorem rotateOur_counters {K} (k : Keys) (r : Nat) (p : Bytes) :
    (k.rotateOurKeys K r (some p)).1.counters =
      if r = k.ourKeyID then k.counters.filter (fun c => c.ourKeyID != k.ourKeyID - 1)
      else k.counters := by
  by_cases h : r = k.ourKeyID
  · subst h; rw [rotateOur_eq]; simp only [↓reduceIte]
  · rw [rotateOur_ne k r _ h]; simp only [h, ↓reduceIte]

theorem rotateTheir_mac (k : Keys) (s y : Nat) :
    (k.rotateTheirKey s y).macHistory =
      if s = k.theirKeyID then (forgetMacKeys k.macHistory (fun u => u.theirKeyID == k.theirKeyID - 1)).2
      else k.macHistory := by
  by_cases h : s = k.theirKeyID
  · subst h; rw [rotateTheir_eq]; simp only [↓reduceIte]
  · rw [rotateTheir_ne k s _ h]; simp only [h, ↓reduceIte]

theorem rotateTheir_old (k : Keys) (s y : Nat) :
    (k.rotateTheirKey s y).oldMACKeys =
      if s = k.theirKeyID then
        k.oldMACKeys ++ (forgetMacKeys k.macHistory (fun u => u.theirKeyID == k.theirKeyID - 1)).1
      else k.oldMACKeys := by
  by_cases h : s = k.theirKeyID
  · subst h; rw [rotateTheir_eq]; simp only [↓reduceIte]
  · rw [rotateTheir_ne k s _ h]; simp only [h, ↓reduceIte]

theorem rotateTheir_counters (k : Keys) (s y : Nat) :
    (k.rotateTheirKey s y).counters =
      if s = k.theirKeyID then k.counters.filter (fun c => c.theirKeyID != k.theirKeyID - 1)
      else k.counters := by
  by_cases h : s = k.theirKeyID
  · subst h; rw [rotateTheir_eq]; simp only [↓reduceIte]
  · rw [rotateTheir_ne k s _ h]; simp only [h, ↓reduceIte]

/-- **C09 (a)**, our axis: a rotation of our key moves exactly the keys of the history entries of
    the previous key generation to the disclosure queue, keeps the other entries (in the order
    Go's swap-delete leaves them), and increments the key id. -/
theorem c09_rotateOur {K} (k : Keys) (p : Bytes) :
    (k.rotateOurKeys K k.ourKeyID (some p)).1.oldMACKeys =
        k.oldMACKeys ++ (k.macHistory.filter (fun u => u.ourKeyID == k.ourKeyID - 1)).map (·.key) ∧
    (k.rotateOurKeys K k.ourKeyID (some p)).1.macHistory ~
        k.macHistory.filter (fun u => !(u.ourKeyID == k.ourKeyID - 1)) ∧
    (k.rotateOurKeys K k.ourKeyID (some p)).1.ourKeyID = k.ourKeyID + 1 ∧
    (k.rotateOurKeys K k.ourKeyID (some p)).1.theirKeyID = k.theirKeyID := by
  rw [rotateOur_eq]
  exact ⟨rfl, forgetMacKeys_perm _ _, rfl, rfl⟩

/-- **C09 (a)**, their axis -/
theorem c09_rotateTheir (k : Keys) (y : Nat) :
    (k.rotateTheirKey k.theirKeyID y).oldMACKeys =
        k.oldMACKeys ++ (k.macHistory.filter (fun u => u.theirKeyID == k.theirKeyID - 1)).map (·.key) ∧
    (k.rotateTheirKey k.theirKeyID y).macHistory ~
        k.macHistory.filter (fun u => !(u.theirKeyID == k.theirKeyID - 1)) ∧
    (k.rotateTheirKey k.theirKeyID y).theirKeyID = k.theirKeyID + 1 ∧
    (k.rotateTheirKey k.theirKeyID y).ourKeyID = k.ourKeyID := by
  rw [rotateTheir_eq]
  exact ⟨rfl, forgetMacKeys_perm _ _, rfl, rfl⟩

/-- a message for another key id rotates nothing -/
theorem c09_rotate_other {K} (k : Keys) (r s y : Nat) (np : Option Bytes)
    (hr : r ≠ k.ourKeyID) (hs : s ≠ k.theirKeyID) :
    (k.rotateOurKeys K r np).1 = k ∧ k.rotateTheirKey s y = k :=
  ⟨rotateOur_ne k r np hr, rotateTheir_ne k s y hs⟩

/-- the pair `(i, j)` is retired: one of its key ids is below the window -/
def Keys.Retired (k : Keys) (i j : Nat) : Prop := i + 1 < k.ourKeyID ∨ j + 1 < k.theirKeyID

theorem Keys.Retired.not_inWin {k : Keys} {i j : Nat} (h : k.Retired i j) :
    ¬ InWin k.ourKeyID k.theirKeyID i j := by
  unfold Keys.Retired at h; unfold InWin; omega

theorem Keys.Retired.steps {K} {k k' : Keys} {i j : Nat} (h : k.Retired i j) (hs : KSteps K k k') :
    k'.Retired i j := by
  have := hs.ids_mono
  unfold Keys.Retired at h ⊢; omega

/-- **C09 (b)**: nothing is accepted or sent under a retired pair, now … -/
theorem Keys.Retired.derive_error {K} {k : Keys} {i j : Nat} (h : k.Retired i j) :
    ∃ e, k.deriveSessionKeys K i j = .error e := derive_retired k i j h

theorem Keys.Retired.not_accepts {K} {k : Keys} {i j : Nat} (h : k.Retired i j) (n : Nat) :
    ¬ k.accepts K i j n := by
  rintro ⟨⟨sk, hsk⟩, _⟩
  obtain ⟨e, he⟩ := h.derive_error (K := K)
  rw [he] at hsk; cases hsk

/-- … and in every later state -/
theorem Keys.Retired.never_again {K} {k k' : Keys} {i j : Nat} (h : k.Retired i j)
    (hs : KSteps K k k') (n : Nat) :
    (∃ e, k'.deriveSessionKeys K i j = .error e) ∧ ¬ k'.accepts K i j n :=
  ⟨(h.steps hs).derive_error, (h.steps hs).not_accepts n⟩

/-- ghost view: the history entries (with their pair tags) whose keys accepting `(r, s)` moves to
    the disclosure queue -/
def Keys.disclosedBy (K : Crypto) (k : Keys) (r s : Nat) : List MacUse :=
  let h1 := addMacKey k.macHistory r s (k.recvMACOf K r s)
  let t1 := if r = k.ourKeyID then h1.filter (fun u => u.ourKeyID == k.ourKeyID - 1) else []
  let h2 := if r = k.ourKeyID then (forgetMacKeys h1 (fun u => u.ourKeyID == k.ourKeyID - 1)).2 else h1
  let t2 := if s = k.theirKeyID then h2.filter (fun u => u.theirKeyID == k.theirKeyID - 1) else []
  t1 ++ t2

theorem afterAccept_old {K} (k : Keys) (r s n y : Nat) (p : Bytes) :
    (k.afterAccept K r s n y p).oldMACKeys = k.oldMACKeys ++ (k.disclosedBy K r s).map (·.key) := by
  unfold Keys.afterAccept Keys.disclosedBy
  rw [rotateTheir_old, rotateOur_old, rotateOur_mac, rotateOur_theirKeyID, checkMessageCounter_fst]
  simp only [Keys.recordMac, forgetMacKeys_fst]
  by_cases hr : r = k.ourKeyID <;> by_cases hs : s = k.theirKeyID <;>
    simp only [hr, hs, ↓reduceIte, map_append, append_assoc, map_nil, append_nil, nil_append]

theorem forget_mem_iff (h : List MacUse) (p : MacUse → Bool) (u : MacUse) :
    u ∈ (forgetMacKeys h p).2 ↔ u ∈ h ∧ p u = false := by
  rw [(forgetMacKeys_perm h p).mem_iff, mem_filter]
  simp only [Bool.not_eq_true', iff_self]

theorem forget_length (h : List MacUse) (p : MacUse → Bool) :
    (forgetMacKeys h p).2.length + (forgetMacKeys h p).1.length = h.length := by
  rw [forgetMacKeys_fst, length_map, (forgetMacKeys_perm h p).length_eq, Nat.add_comm]
  have := (filter_append_perm p h).length_eq
  rw [length_append] at this
  exact this

/-- the MAC-key history after accepting `(r, s)` -/
def Keys.keptBy (K : Crypto) (k : Keys) (r s : Nat) : List MacUse :=
  let h1 := addMacKey k.macHistory r s (k.recvMACOf K r s)
  let h2 := if r = k.ourKeyID then (forgetMacKeys h1 (fun u => u.ourKeyID == k.ourKeyID - 1)).2 else h1
  if s = k.theirKeyID then (forgetMacKeys h2 (fun u => u.theirKeyID == k.theirKeyID - 1)).2 else h2

theorem afterAccept_mac {K} (k : Keys) (r s n y : Nat) (p : Bytes) :
    (k.afterAccept K r s n y p).macHistory = k.keptBy K r s := by
  unfold Keys.afterAccept Keys.keptBy
  rw [rotateTheir_mac, rotateOur_mac, rotateOur_theirKeyID, checkMessageCounter_fst]
  rfl

set_option linter.unusedSimpArgs false in
/-- every entry of the history (including the one just recorded) is kept or disclosed -/
theorem kept_or_disclosed {K} (k : Keys) (r s : Nat) {u : MacUse}
    (hu : u ∈ addMacKey k.macHistory r s (k.recvMACOf K r s)) :
    u ∈ k.keptBy K r s ∨ u ∈ k.disclosedBy K r s := by
  unfold Keys.keptBy Keys.disclosedBy
  simp only
  by_cases hr : r = k.ourKeyID <;> by_cases hs : s = k.theirKeyID <;>
    simp only [hr, hs, ↓reduceIte, mem_append, forget_mem_iff, mem_filter, not_mem_nil, or_false,
      false_or, beq_eq_false_iff_ne, beq_iff_eq, ne_eq]
  · rw [hr, hs] at hu
    by_cases h1 : u.ourKeyID = k.ourKeyID - 1 <;> by_cases h2 : u.theirKeyID = k.theirKeyID - 1 <;>
      simp only [hu, h1, h2, not_true_eq_false, not_false_eq_true, and_self, and_true, and_false,
        or_true, true_or, or_false, false_or, true_and]
  · rw [hr] at hu
    by_cases h1 : u.ourKeyID = k.ourKeyID - 1 <;>
      simp only [hu, h1, not_true_eq_false, not_false_eq_true, and_self, and_true, and_false,
        or_true, true_or, or_false, false_or, true_and]
  · rw [hs] at hu
    by_cases h2 : u.theirKeyID = k.theirKeyID - 1 <;>
      simp only [hu, h2, not_true_eq_false, not_false_eq_true, and_self, and_true, and_false,
        or_true, true_or, or_false, false_or, true_and]
  · exact hu

/-- **C09**: what an accepted message moves to the disclosure queue are keys of entries that were
    in the history *before* (the entry of the message itself is never disclosed by its own step),
    and their pair is retired afterwards -/
theorem disclosedBy_spec {K} {k : Keys} {r s n : Nat} (hacc : k.accepts K r s n) (y : Nat) (p : Bytes)
    {u : MacUse} (hu : u ∈ k.disclosedBy K r s) :
    u ∈ k.macHistory ∧ (k.afterAccept K r s n y p).Retired u.ourKeyID u.theirKeyID := by
  have hw := derive_ok_inWin hacc.1.choose_spec
  unfold Keys.Retired
  rw [afterAccept_ourKeyID, afterAccept_theirKeyID]
  unfold Keys.disclosedBy at hu
  simp only at hu
  rw [mem_append] at hu
  rcases hu with hu | hu
  · by_cases hr : r = k.ourKeyID
    · simp only [hr, ↓reduceIte, mem_filter, beq_iff_eq] at hu
      refine ⟨?_, ?_⟩
      · rcases addMacKey_mem hu.1 with h | h
        · exact h
        · rw [h] at hu; simp only at hu; omega
      · simp only [hr, ↓reduceIte]; omega
    · simp only [hr, ↓reduceIte, not_mem_nil] at hu
  · by_cases hs : s = k.theirKeyID
    · simp only [hs, ↓reduceIte, mem_filter, beq_iff_eq] at hu
      have hu1 : u ∈ addMacKey k.macHistory r k.theirKeyID (k.recvMACOf K r k.theirKeyID) := by
        have := hu.1
        split at this
        · exact ((forget_mem_iff _ _ _).mp this).1
        · exact this
      refine ⟨?_, ?_⟩
      · rcases addMacKey_mem hu1 with h | h
        · exact h
        · rw [h] at hu; simp only at hu; omega
      · simp only [hs, ↓reduceIte]; omega
    · simp only [hs, ↓reduceIte, not_mem_nil] at hu

/-- the entry of the accepted pair stays in the history -/
theorem accepted_pair_kept {K} {k : Keys} {r s n : Nat} (hacc : k.accepts K r s n) :
    ∃ u ∈ k.keptBy K r s, u.pair = (r, s) := by
  have hw := derive_ok_inWin hacc.1.choose_spec
  obtain ⟨u, hu, hp⟩ := addMacKey_has k.macHistory r s (k.recvMACOf K r s)
  refine ⟨u, ?_, hp⟩
  rcases kept_or_disclosed k r s hu with h | h
  · exact h
  · have := (disclosedBy_spec hacc 0 [] h).2
    unfold Keys.Retired at this
    rw [afterAccept_ourKeyID, afterAccept_theirKeyID] at this
    simp only [MacUse.pair, Prod.mk.injEq] at hp
    unfold InWin at hw
    rw [hp.1, hp.2] at this
    split at this <;> split at this <;> omega

/-- **C09** `c09_used_then_disclosed`: if a step retires the pair of a history entry (the pair is
    no longer inside the window afterwards), the entry's key is in the disclosure queue -/
theorem c09_used_then_disclosed {K} {k k' : Keys} {u : MacUse} (hwf : WF k) (hu : u ∈ k.macHistory)
    (hs : KStep K k k') (hout : ¬ InWin k'.ourKeyID k'.theirKeyID u.ourKeyID u.theirKeyID) :
    u.key ∈ k'.oldMACKeys := by
  have hwf' := hwf.step hs
  cases hs with
  | recv r s n y p hacc =>
    rcases kept_or_disclosed (K := K) k r s (addMacKey_mem_old r s _ hu) with h | h
    · rw [← afterAccept_mac k r s n y p] at h
      exact absurd (hwf'.mac_win h) hout
    · rw [afterAccept_old]
      exact mem_append_right _ (mem_map_of_mem h)
  | send hd =>
    have h : u ∈ (k.afterSend K).macHistory := addMacKey_mem_old _ _ _ hu
    exact absurd (hwf'.mac_win h) hout
  | reject => exact absurd (hwf.mac_win hu) hout

/-- … and the whole queue goes into the next outgoing data message, which empties it -/
theorem c09_send_discloses_all {K} (k : Keys) :
    k.revealMACKeys.1 = k.oldMACKeys ∧ k.revealMACKeys.2.oldMACKeys = [] ∧
    (k.recordMac (k.ourKeyID - 1) k.theirKeyID (k.recvMACOf K (k.ourKeyID - 1) k.theirKeyID)).bumpOur.revealMACKeys.1
      = k.oldMACKeys ∧
    (k.afterSend K).oldMACKeys = [] := ⟨rfl, rfl, rfl, rfl⟩

/-- where history entries come from: every entry is the receiving MAC key of a pair for which the
    session keys could be derived when it was recorded -/
theorem macHistory_provenance {K} {k k' : Keys} (hs : KStep K k k') {u : MacUse}
    (hu : u ∈ k'.macHistory) :
    u ∈ k.macHistory ∨
    (∃ sk, k.deriveSessionKeys K u.ourKeyID u.theirKeyID = .ok sk ∧ u.key = sk.recvMAC) := by
  have key : ∀ i j sk, k.deriveSessionKeys K i j = .ok sk →
      u ∈ addMacKey k.macHistory i j (k.recvMACOf K i j) →
      u ∈ k.macHistory ∨
      (∃ sk, k.deriveSessionKeys K u.ourKeyID u.theirKeyID = .ok sk ∧ u.key = sk.recvMAC) := by
    intro i j sk hsk hm
    rcases addMacKey_mem hm with h | h
    · exact .inl h
    · right
      subst h
      refine ⟨sk, hsk, ?_⟩
      simp only [Keys.recvMACOf, hsk]
  cases hs with
  | recv r s n y p hacc =>
    rw [afterAccept_mac] at hu
    obtain ⟨sk, hsk⟩ := hacc.1
    apply key r s sk hsk
    unfold Keys.keptBy at hu
    simp only at hu
    split at hu
    · have h1 := ((forget_mem_iff _ _ _).mp hu).1
      split at h1
      · exact ((forget_mem_iff _ _ _).mp h1).1
      · exact h1
    · split at hu
      · exact ((forget_mem_iff _ _ _).mp hu).1
      · exact hu
  | send hd =>
    obtain ⟨sk, hsk⟩ := hd
    exact key _ _ sk hsk hu
  | reject => exact .inl hu

/-- instrumented runs: the last component is the ghost disclosure queue — the history entries,
    with their pair tags, whose keys currently sit in `oldMACKeys` -/
inductive GSteps (K : Crypto) : Keys → List MacUse → Keys → List MacUse → Prop
  | refl (k : Keys) (g : List MacUse) : GSteps K k g k g
  | recv {k0 g0 k g} (r s n y : Nat) (p : Bytes) : GSteps K k0 g0 k g → k.accepts K r s n →
      GSteps K k0 g0 (k.afterAccept K r s n y p) (g ++ k.disclosedBy K r s)
  | send {k0 g0 k g} : GSteps K k0 g0 k g →
      (∃ sk, k.deriveSessionKeys K (k.ourKeyID - 1) k.theirKeyID = .ok sk) →
      GSteps K k0 g0 (k.afterSend K) []

theorem GSteps.erase {K k0 g0 k g} (h : GSteps K k0 g0 k g) : KSteps K k0 k := by
  induction h with
  | refl => exact .refl _
  | recv r s n y p _ hacc ih => exact .tail ih (.recv _ r s n y p hacc)
  | send _ hd ih => exact .tail ih (.send _ hd)

/-- every run can be instrumented -/
theorem KSteps.instrument {K k0 k} (h : KSteps K k0 k) (g0 : List MacUse) :
    ∃ g, GSteps K k0 g0 k g := by
  induction h with
  | refl => exact ⟨g0, .refl _ _⟩
  | tail _ hs ih =>
    obtain ⟨g, hg⟩ := ih
    cases hs with
    | recv r s n y p hacc => exact ⟨_, .recv r s n y p hg hacc⟩
    | send hd => exact ⟨_, .send hg hd⟩
    | reject => exact ⟨g, hg⟩

/-- the ghost queue is the real queue with tags, and every tag is a retired pair -/
theorem GSteps.inv {K k0 g0 k g} (h : GSteps K k0 g0 k g)
    (h0 : g0.map (·.key) = k0.oldMACKeys)
    (hr0 : ∀ u ∈ g0, k0.Retired u.ourKeyID u.theirKeyID) :
    g.map (·.key) = k.oldMACKeys ∧ ∀ u ∈ g, k.Retired u.ourKeyID u.theirKeyID := by
  induction h with
  | refl => exact ⟨h0, hr0⟩
  | recv r s n y p _ hacc ih =>
    refine ⟨by rw [afterAccept_old, map_append, ih.1], ?_⟩
    intro u hu
    rw [mem_append] at hu
    rcases hu with hu | hu
    · exact (ih.2 u hu).steps (.single (.recv _ r s n y p hacc))
    · exact (disclosedBy_spec hacc y p hu).2
  | send _ _ _ => exact ⟨rfl, fun _ h => nomatch h⟩

/-- every tag is a genuine history entry of an earlier state of the run -/
theorem GSteps.provenance {K k0 g0 k g} (h : GSteps K k0 g0 k g) :
    ∀ u ∈ g, u ∈ g0 ∨ ∃ k1, KSteps K k0 k1 ∧ KSteps K k1 k ∧ u ∈ k1.macHistory := by
  induction h with
  | refl => exact fun u hu => .inl hu
  | recv r s n y p hg hacc ih =>
    intro u hu
    rw [mem_append] at hu
    rcases hu with hu | hu
    · rcases ih u hu with h | ⟨k1, h1, h2, h3⟩
      · exact .inl h
      · exact .inr ⟨k1, h1, .tail h2 (.recv _ r s n y p hacc), h3⟩
    · exact .inr ⟨_, hg.erase, .single (.recv _ r s n y p hacc), (disclosedBy_spec hacc y p hu).1⟩
  | send _ _ _ => exact fun _ h => nomatch h

/-- **C09** `c09_disclosed_retired`: in any run that starts with an empty disclosure queue, the keys
    waiting in `oldMACKeys` — the `oldMACKeys` field of the next outgoing data message — are the keys
    of history entries `g` recorded earlier in the run, each tagged with a pair that is retired:
    the discloser no longer derives keys for, nor accepts anything under, that pair — now and in
    every later state. -/
theorem c09_disclosed_retired {K} {k0 k : Keys} (h0 : k0.oldMACKeys = []) (hs : KSteps K k0 k) :
    ∃ g : List MacUse,
      g.map (·.key) = k.revealMACKeys.1 ∧
      (∀ u ∈ g, ∃ k1, KSteps K k0 k1 ∧ KSteps K k1 k ∧ u ∈ k1.macHistory) ∧
      ∀ u ∈ g, k.Retired u.ourKeyID u.theirKeyID ∧
        ∀ k', KSteps K k k' → (∃ e, k'.deriveSessionKeys K u.ourKeyID u.theirKeyID = .error e) ∧
          ∀ n, ¬ k'.accepts K u.ourKeyID u.theirKeyID n := by
  obtain ⟨g, hg⟩ := hs.instrument []
  have hinv := hg.inv (by rw [h0]; rfl) (fun _ h => nomatch h)
  refine ⟨g, hinv.1, ?_, ?_⟩
  · intro u hu
    rcases hg.provenance u hu with h | h
    · exact nomatch h
    · exact h
  · intro u hu
    refine ⟨hinv.2 u hu, fun k' hk' => ⟨((hinv.2 u hu).never_again hk' 0).1, fun n =>
      ((hinv.2 u hu).never_again hk' n).2⟩⟩

/-! ## C19 — bounded key-management state -/

theorem c19_lengths {k : Keys} (h : WF k) : k.counters.length ≤ 4 ∧ k.macHistory.length ≤ 4 := by
  have h1 := h.ctr.length_le
  have h2 := h.mac.length_le
  rw [length_map] at h1 h2
  exact ⟨h1, h2⟩

/-- **C19** `c19_bounded`: in every state reachable from the post-AKE state there are at most 4
    counter entries and at most 4 MAC-history entries (one per pair of the 2×2 window) -/
theorem c19_bounded {K} {a b : DhPair} {y : Nat} {k : Keys}
    (hs : KSteps K (Keys.postAKE a b y) k) :
    WF k ∧ k.counters.length ≤ 4 ∧ k.macHistory.length ≤ 4 :=
  ⟨(wf_postAKE a b y).steps hs, c19_lengths ((wf_postAKE a b y).steps hs)⟩

theorem kept_disclosed_length {K} (k : Keys) (r s : Nat) :
    (k.keptBy K r s).length + (k.disclosedBy K r s).length =
      (addMacKey k.macHistory r s (k.recvMACOf K r s)).length := by
  unfold Keys.keptBy Keys.disclosedBy
  simp only
  by_cases hr : r = k.ourKeyID <;> by_cases hs : s = k.theirKeyID <;>
    simp only [hr, hs, ↓reduceIte, length_append, length_nil]
  · have h1 := forget_length (addMacKey k.macHistory k.ourKeyID k.theirKeyID
      (k.recvMACOf K k.ourKeyID k.theirKeyID)) (fun u => u.ourKeyID == k.ourKeyID - 1)
    have h2 := forget_length (forgetMacKeys (addMacKey k.macHistory k.ourKeyID k.theirKeyID
      (k.recvMACOf K k.ourKeyID k.theirKeyID)) (fun u => u.ourKeyID == k.ourKeyID - 1)).2
      (fun u => u.theirKeyID == k.theirKeyID - 1)
    simp only [forgetMacKeys_fst, length_map] at h1 h2
    omega
  · have h1 := forget_length (addMacKey k.macHistory k.ourKeyID s
      (k.recvMACOf K k.ourKeyID s)) (fun u => u.ourKeyID == k.ourKeyID - 1)
    simp only [forgetMacKeys_fst, length_map] at h1
    omega
  · have h1 := forget_length (addMacKey k.macHistory r k.theirKeyID
      (k.recvMACOf K r k.theirKeyID)) (fun u => u.theirKeyID == k.theirKeyID - 1)
    simp only [forgetMacKeys_fst, length_map] at h1
    omega
  · omega

/-- each step moves entries from the history to the queue; the total grows by at most one -/
theorem c19_step_sum {K} {k k' : Keys} (hs : KStep K k k') :
    k'.oldMACKeys.length + k'.macHistory.length ≤ k.oldMACKeys.length + k.macHistory.length + 1 := by
  cases hs with
  | recv r s n y p hacc =>
    rw [afterAccept_old, afterAccept_mac, length_append, length_map]
    have h1 := kept_disclosed_length (K := K) k r s
    have h2 := addMacKey_length_le k.macHistory r s (k.recvMACOf K r s)
    omega
  | send hd =>
    have h2 := addMacKey_length_le k.macHistory (k.ourKeyID - 1) k.theirKeyID
      (k.recvMACOf K (k.ourKeyID - 1) k.theirKeyID)
    show 0 + (addMacKey _ _ _ _).length ≤ _
    omega
  | reject => omega

/-- a step adds at most as many keys to the queue as there were history entries before it (the
    entry recorded by the step itself is never disclosed by it) -/
theorem c19_step_queue {K} {k k' : Keys} (hs : KStep K k k') :
    k'.oldMACKeys.length ≤ k.oldMACKeys.length + k.macHistory.length := by
  cases hs with
  | recv r s n y p hacc =>
    rw [afterAccept_old, length_append, length_map]
    have h1 := kept_disclosed_length (K := K) k r s
    have h2 := addMacKey_length_le k.macHistory r s (k.recvMACOf K r s)
    obtain ⟨u, hu, _⟩ := accepted_pair_kept hacc
    have h3 := length_pos_of_mem hu
    omega
  | send hd => exact Nat.zero_le _
  | reject => omega

/-- under `WF` an accepted message adds at most 3 keys to the queue -/
theorem c19_recv_le3 {K} {k : Keys} (hwf : WF k) {r s n : Nat} (hacc : k.accepts K r s n)
    (y : Nat) (p : Bytes) :
    (k.afterAccept K r s n y p).oldMACKeys.length ≤ k.oldMACKeys.length + 3 := by
  rw [afterAccept_old, length_append, length_map]
  have h1 := kept_disclosed_length (K := K) k r s
  have hw := derive_ok_inWin hacc.1.choose_spec
  have h2 := (addMacKey_pairsOK r s (k.recvMACOf K r s) hwf.mac hw.1).length_le
  rw [length_map] at h2
  obtain ⟨u, hu, _⟩ := accepted_pair_kept hacc
  have h3 := length_pos_of_mem hu
  omega

/-- a send empties the queue -/
theorem c19_send_resets {K} (k : Keys) : (k.afterSend K).oldMACKeys.length = 0 := rfl

/-- runs with a counter: `m` = number of accepted messages since the last send (or the start) -/
inductive KStepsN (K : Crypto) : Nat → Keys → Keys → Prop
  | refl (k : Keys) : KStepsN K 0 k k
  | recv {m k0 k} (r s n y : Nat) (p : Bytes) : KStepsN K m k0 k → k.accepts K r s n →
      KStepsN K (m + 1) k0 (k.afterAccept K r s n y p)
  | send {m k0 k} : KStepsN K m k0 k →
      (∃ sk, k.deriveSessionKeys K (k.ourKeyID - 1) k.theirKeyID = .ok sk) →
      KStepsN K 0 k0 (k.afterSend K)

theorem KStepsN.erase {K m k0 k} (h : KStepsN K m k0 k) : KSteps K k0 k := by
  induction h with
  | refl => exact .refl _
  | recv r s n y p _ hacc ih => exact .tail ih (.recv _ r s n y p hacc)
  | send _ hd ih => exact .tail ih (.send _ hd)

theorem KSteps.count {K k0 k} (h : KSteps K k0 k) : ∃ m, KStepsN K m k0 k := by
  induction h with
  | refl => exact ⟨0, .refl _⟩
  | tail _ hs ih =>
    obtain ⟨m, hm⟩ := ih
    cases hs with
    | recv r s n y p hacc => exact ⟨_, .recv r s n y p hm hacc⟩
    | send hd => exact ⟨_, .send hm hd⟩
    | reject => exact ⟨m, hm⟩

/-- **C19**: the disclosure queue — and so the `oldMACKeys` field of the next outgoing data
    message — holds at most `3 m` keys, `m` = number of data messages accepted since the last one
    was sent.  (In this one-sided model `m` is not bounded: `KStep.recv` allows any message whose
    key ids are in the window; that an honest peer cannot make us rotate twice without a send of
    ours in between is a two-party fact.) -/
theorem c19_queue_bound {K} {m : Nat} {k0 k : Keys} (hwf : WF k0) (h0 : k0.oldMACKeys = [])
    (h : KStepsN K m k0 k) :
    k.oldMACKeys.length ≤ 3 * m ∧ k.counters.length ≤ 4 ∧ k.macHistory.length ≤ 4 := by
  refine ⟨?_, c19_lengths (hwf.steps h.erase)⟩
  induction h with
  | refl => rw [h0]; exact Nat.zero_le _
  | recv r s n y p hm hacc ih =>
    have := c19_recv_le3 (hwf.steps hm.erase) hacc y p
    have := ih hwf h0
    omega
  | send _ _ _ => exact Nat.zero_le _

/-- **C09**: the entries a rotation of our key discloses are retired by that very rotation -/
theorem c09_rotateOur_retires {K} (k : Keys) (p : Bytes) (ho : 1 ≤ k.ourKeyID) {u : MacUse}
    (hu : u ∈ k.macHistory.filter (fun u => u.ourKeyID == k.ourKeyID - 1)) :
    u ∈ k.macHistory ∧
    (k.rotateOurKeys K k.ourKeyID (some p)).1.Retired u.ourKeyID u.theirKeyID := by
  rw [mem_filter, beq_iff_eq] at hu
  refine ⟨hu.1, .inl ?_⟩
  rw [rotateOur_ourKeyID]; simp only [↓reduceIte]; omega

theorem c09_rotateTheir_retires (k : Keys) (y : Nat) (ht : 1 ≤ k.theirKeyID) {u : MacUse}
    (hu : u ∈ k.macHistory.filter (fun u => u.theirKeyID == k.theirKeyID - 1)) :
    u ∈ k.macHistory ∧ (k.rotateTheirKey k.theirKeyID y).Retired u.ourKeyID u.theirKeyID := by
  rw [mem_filter, beq_iff_eq] at hu
  refine ⟨hu.1, .inr ?_⟩
  rw [rotateTheir_theirKeyID]; simp only [↓reduceIte]; omega

/-- `WF` spelled out -/
theorem wf_iff (k : Keys) :
    WF k ↔
      1 ≤ k.ourKeyID ∧ 1 ≤ k.theirKeyID ∧
      (∀ c ∈ k.counters, (c.ourKeyID = k.ourKeyID ∨ c.ourKeyID = k.ourKeyID - 1) ∧
        (c.theirKeyID = k.theirKeyID ∨ c.theirKeyID = k.theirKeyID - 1)) ∧
      (∀ u ∈ k.macHistory, (u.ourKeyID = k.ourKeyID ∨ u.ourKeyID = k.ourKeyID - 1) ∧
        (u.theirKeyID = k.theirKeyID ∨ u.theirKeyID = k.theirKeyID - 1)) ∧
      (k.counters.map Counter.pair).Nodup ∧ (k.macHistory.map MacUse.pair).Nodup := by
  constructor
  · intro h
    refine ⟨h.our_pos, h.their_pos, ?_, ?_, h.ctr.nodup, h.mac.nodup⟩
    · intro c hc
      have := h.ctr_win hc
      have := h.our_pos; have := h.their_pos
      unfold InWin at *; omega
    · intro u hu
      have := h.mac_win hu
      have := h.our_pos; have := h.their_pos
      unfold InWin at *; omega
  · rintro ⟨h1, h2, h3, h4, h5, h6⟩
    refine ⟨h1, h2, ⟨?_, h5⟩, ⟨?_, h6⟩⟩
    · intro p hp
      rw [mem_map] at hp
      obtain ⟨c, hc, rfl⟩ := hp
      have := h3 c hc
      unfold InWin Counter.pair; simp only; omega
    · intro p hp
      rw [mem_map] at hp
      obtain ⟨u, hu, rfl⟩ := hp
      have := h4 u hu
      unfold InWin MacUse.pair; simp only; omega

/-! ## The hypotheses are satisfiable -/

/-- a crypto record with constant functions, so that `decide`/`rfl` can evaluate -/
def Crypto.dummy : Crypto where
  hash1 := fun _ => []
  hash2 := fun _ => []
  mac1 := fun _ _ => []
  mac2 := fun _ _ => []
  ctr := fun _ _ _ => none
  gexp := fun _ _ => 1
  modInv := fun _ _ => none
  dsaVerify := fun _ _ _ _ => false

/-- a session some messages in: our keys 2 (previous) and 3 (current), their keys 1 and 2 -/
def Keys.example1 : Keys :=
  { ourKeyID := 3, theirKeyID := 2,
    ourCur := some ⟨7, [1]⟩, ourPrev := some ⟨5, [2]⟩, theirCur := some 11, theirPrev := some 9,
    counters := [⟨2, 1, 4, 6⟩, ⟨2, 2, 1, 2⟩],
    macHistory := [⟨2, 1, [0xAA]⟩, ⟨2, 2, [0xBB]⟩],
    oldMACKeys := [[0xCC]] }

example : WF Keys.example1 :=
  ⟨by decide, by decide, ⟨by decide, by decide⟩, ⟨by decide, by decide⟩⟩

example : WF (Keys.postAKE ⟨7, [1]⟩ ⟨5, [2]⟩ 11) := wf_postAKE _ _ _

/-- a fresh counter under the pair (2, 2) is accepted; so is a first message under (3, 2) -/
example : Keys.example1.accepts Crypto.dummy 2 2 3 := ⟨⟨_, rfl⟩, by decide⟩
example : Keys.example1.accepts Crypto.dummy 3 2 1 := ⟨⟨_, rfl⟩, by decide⟩
/-- a stale counter is not -/
example : ¬ Keys.example1.accepts Crypto.dummy 2 2 2 := fun h => absurd h.2 (by decide)
/-- a send is possible -/
example : ∃ sk, Keys.example1.deriveSessionKeys Crypto.dummy
    (Keys.example1.ourKeyID - 1) Keys.example1.theirKeyID = .ok sk := ⟨_, rfl⟩

/-- accepting (3, 2) rotates both axes: ids 4 and 3; the entries of our key 2 — (2,1) and (2,2) —
    are disclosed, the entry of the message itself is kept -/
example : (Keys.example1.afterAccept Crypto.dummy 3 2 1 13 [9]).ourKeyID = 4 ∧
    (Keys.example1.afterAccept Crypto.dummy 3 2 1 13 [9]).theirKeyID = 3 ∧
    (Keys.example1.afterAccept Crypto.dummy 3 2 1 13 [9]).oldMACKeys = [[0xCC], [0xAA], [0xBB]] ∧
    (Keys.example1.afterAccept Crypto.dummy 3 2 1 13 [9]).macHistory = [⟨3, 2, []⟩] ∧
    (Keys.example1.afterAccept Crypto.dummy 3 2 1 13 [9]).counters = [⟨3, 2, 0, 1⟩] := by
  decide

/-- an instance of `c05_no_replay`: whatever happens after accepting (2, 2, 3), it is not accepted again -/
example (k2 : Keys) (h : KSteps Crypto.dummy (Keys.example1.afterAccept Crypto.dummy 2 2 3 13 [9]) k2) :
    ¬ k2.accepts Crypto.dummy 2 2 3 :=
  c05_no_replay (k := Keys.example1) ⟨⟨_, rfl⟩, by decide⟩ rfl h

end Otr

namespace Otr

/-- repaired code: a rotation that cannot draw its new key changes nothing — no MAC key is queued for
    disclosure, no counter is forgotten, the key generations stay as they were -/
theorem rotateOurKeys_fail_unchanged (K : Crypto) (k : Keys) (r : Nat) :
    k.rotateOurKeys K r none = (k, if r = k.ourKeyID then some .shortRandom else none) := by
  unfold Keys.rotateOurKeys
  split <;> rfl

end Otr
