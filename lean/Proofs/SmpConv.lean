/-
  Proofs.SmpConv — property C11 AT CONVERSATION LEVEL: the six steps of an honest SMP run chained over the functions
  of Otr.Conv that produce / consume TLVs, for two conversation states A (initiator) and B (responder).
  Builds on Proofs.Smp (algebra: `smp_honest_run`, `c11_equal_success`, `c11_unequal_fail`) and Proofs.SmpMachine
  (exact runs of `startAuthenticate`, the first message, `continueSMP`).

  0  randomness    : `randMPIs_run_reloc`, `randRead_run_reloc` (a successful read is the same read from any state
                     with the same tape)
  1  exact runs    : `processSMPTLV_smp2_run` (second message accepted: EXPECT4, third message, `smp:5:60`),
                     `processSMPTLV_smp3_success_run` / `_failure_run` (third message accepted: success + fourth
                     message + wipe, or failure + abort TLV), `processSMPTLV_smp4_success_run`; every `K`
  2  user call     : `provideAuthenticationSecret_run` (exact, in a session that can send)
  3  round trips   : `smpWireFit`, `smpMsg1Of_fresh` (first message with / without question parses back)
  4  first 4 steps : `SmpPair`, `smpSecretOf_session`, `smp_conv_chain_core` (every `K`; verifications and parses
                     are hypotheses)
  5  full chain    : `smp_conv_equal_success`, `smp_conv_unequal_no_success`,
                     `smp_conv_different_session_no_success_partial` (under `K.ArithOK`)
  6  witnesses     : `exSmpA`, `exSmpB ssid`, `exSmp_pair`, tapes

  FORM PROVED.  The steps are `startAuthenticate` (user call, returns the data message `smpWire … [t1]` whose only
  TLV is `t1`), `processSMPTLV K t` (consumer), `provideAuthenticationSecret` (user call, data message with only
  TLV `t2`).  The TLV VALUE a step emits (`m.tlv : Tlv`) is handed to the peer's `processSMPTLV` AS IT IS — no
  `Tlv.serialize`/`parseTlvs` in between (that and the data-message wrapping are C02/C04: `tlv_roundtrip`,
  `plainDataMsg_roundtrip` of Proofs.Msg).  `processSMPTLV` itself re-parses the MPI payload (`toSmp1/1Q/2/3/4
  t.value`), so the MPI-level round trip IS part of the chain: `smp1_roundtrip`, `smp1q_roundtrip`, … under
  `smpWireFit` (every MPI shorter than 2^32 bytes — true of `Crypto.real`: group elements < p, exponents < q, hashes
  32 bytes; for an arbitrary `K` the hash length is unconstrained, hence the hypothesis).
-/
import Proofs.SmpMachine
set_option linter.unusedSimpArgs false
set_option linter.unusedVariables false
namespace Otr

/-! ## 0. randomness reads from a state with another conversation / log -/

theorem randMPIs_run_reloc (k len : Nat) (s s1 : MState) (vs : List (Option Nat)) (c : Conv) (e : List String)
    (h : runM (randMPIs k len) s = .ok (.ok vs, s1)) :
    runM (randMPIs k len) { s with conv := c, events := e } = .ok (.ok vs, { s1 with conv := c, events := e }) := by
  rw [randMPIs_reloc, h]; rfl

theorem randRead_run_reloc (len : Nat) (s s1 : MState) (r : Option Bytes) (c : Conv) (e : List String)
    (h : runM (randRead len) s = .ok (.ok r, s1)) :
    runM (randRead len) { s with conv := c, events := e } = .ok (.ok r, { s1 with conv := c, events := e }) := by
  rw [randRead_reloc, h]; rfl

theorem smpSuccessEvent_eq : smpSuccessEvent = smpEv smpSuccess 100 := rfl

local macro "smp_typ" ht:ident : tactic => `(tactic|
  simp (config := { decide := true }) only [$ht:ident, tlvTypeSMPAbort, tlvTypeSMP1, tlvTypeSMP2, tlvTypeSMP3,
    tlvTypeSMP4, tlvTypeSMP1WithQuestion, ↓reduceIte, or_self, or_false, false_or, or_true, true_or])

/-! ## 1. exact runs of the accepted second, third and fourth message -/

/-- the conversation of the initiator once the second message has been accepted -/
def Conv.smpGot2 (c : Conv) (s3 : Smp3State) : Conv :=
  { c with smp := { c.smp with s3 := some s3, state := some .expect4 } }

/-- the conversation once a run has ended with a wipe -/
def Conv.smpDone (c : Conv) : Conv := { c with smp := { state := some .expect1 } }

theorem processSMPTLV_smp2_run (K : Crypto) (t : Tlv) (s s' : MState) (v : Version) (m : Smp2Msg) (s1 : Smp1State)
    (s3 : Smp3State) (x r4 r5 r6 r7 : Nat)
    (ht : t.typ = 3) (hm : toSmp2 t.value = some m)
    (hst : s.conv.smp.state = some .expect2) (hv : s.conv.version = some v)
    (h1 : s.conv.smp.s1 = some s1) (hx : s.conv.smp.secret = some x)
    (hver : smp2Verify K (smpGE (some v)) s1 m = true)
    (hr : runM (randMPIs 4 v.parameterLength) s = .ok (.ok [some r4, some r5, some r6, some r7], s'))
    (hg : smp3Gen K x s1 m r4 r5 r6 r7 = .ok s3) :
    runM (processSMPTLV K t) s =
      .ok (.ok (some s3.msg.tlv),
        { s' with conv := s.conv.smpGot2 s3, events := s.events ++ [smpEv smpInProgress 60] }) := by
  have he : ensureSmpConv s.conv = s.conv := ensureSmpConv_of_some _ _ hst
  obtain ⟨-, hc, hev⟩ := randMPIs_run_conv 4 _ s s' _ s.conv hr
  rw [processSMPTLV_head, hv]
  simp only [he, hst, Option.getD_some]
  unfold ConvData.smpBody
  smp_typ ht
  simp only [hm, runM_bind, runM_getc, bindM_ok, h1, hver, Bool.not_true, Bool.false_eq_true, ↓reduceIte, paramLen,
    hv, runM_pure, hr, allSome, Option.map_some, hx, optNat, hg, smpEvent_eq, runM_ev, runM_modc, setSmpState,
    hc, hev, Conv.smpGot2]

theorem processSMPTLV_smp3_success_run (K : Crypto) (t : Tlv) (s s' : MState) (v : Version) (m : Smp3Msg)
    (s2 : Smp2State) (m4 : Smp4Msg) (r7 : Bytes)
    (ht : t.typ = 4) (hm : toSmp3 t.value = some m)
    (hst : s.conv.smp.state = some .expect3) (hv : s.conv.version = some v)
    (h2 : s.conv.smp.s2 = some s2)
    (hver : smp3Verify K (smpGE (some v)) s2 m = .ok true) (hsuc : smp3Success K s2 m = .ok true)
    (hr : runM (randRead v.parameterLength) s = .ok (.ok (some r7), s'))
    (hg : smp4Gen K s2 m (bytesToNat r7) = .ok m4) :
    runM (processSMPTLV K t) s =
      .ok (.ok (some m4.tlv), { s' with conv := s.conv.smpDone, events := s.events ++ [smpSuccessEvent] }) := by
  have he : ensureSmpConv s.conv = s.conv := ensureSmpConv_of_some _ _ hst
  have hr' := randRead_run_reloc _ s s' _ s.conv (s.events ++ [smpSuccessEvent]) hr
  rw [processSMPTLV_head, hv]
  simp only [he, hst, Option.getD_some]
  unfold ConvData.smpBody
  smp_typ ht
  simp only [hm, runM_bind, runM_getc, bindM_ok, h2, hver, hsuc, paramLen,
    hv, runM_pure, smpEvent_eq, runM_ev, runM_modc, setSmpState, smpWipe, ← smpSuccessEvent_eq, hr', hg,
    Conv.smpDone]

theorem processSMPTLV_smp3_failure_run (K : Crypto) (t : Tlv) (s : MState) (v : Version) (m : Smp3Msg)
    (s2 : Smp2State)
    (ht : t.typ = 4) (hm : toSmp3 t.value = some m)
    (hst : s.conv.smp.state = some .expect3) (hv : s.conv.version = some v)
    (h2 : s.conv.smp.s2 = some s2)
    (hver : smp3Verify K (smpGE (some v)) s2 m = .ok true) (hsuc : smp3Success K s2 m = .ok false) :
    runM (processSMPTLV K t) s =
      .ok (.ok (some smpAbortTlv),
        { s with conv := s.conv.withSmpState .expect1, events := s.events ++ [smpEv smpFailure 100] }) := by
  have he : ensureSmpConv s.conv = s.conv := ensureSmpConv_of_some _ _ hst
  rw [processSMPTLV_head, hv]
  simp only [he, hst, Option.getD_some]
  unfold ConvData.smpBody
  smp_typ ht
  simp only [hm, runM_bind, runM_getc, bindM_ok, h2, hver, hsuc,
    runM_pure, smpEvent_eq, runM_ev, runM_modc, setSmpState, Conv.withSmpState]

theorem processSMPTLV_smp4_success_run (K : Crypto) (t : Tlv) (s : MState) (v : Version) (m : Smp4Msg)
    (s1 : Smp1State) (s3 : Smp3State)
    (ht : t.typ = 5) (hm : toSmp4 t.value = some m)
    (hst : s.conv.smp.state = some .expect4) (hv : s.conv.version = some v)
    (h1 : s.conv.smp.s1 = some s1) (h3 : s.conv.smp.s3 = some s3)
    (hver : smp4Verify K (smpGE (some v)) s3 m = true) (hsuc : smp4Success K s1 s3 m = true) :
    runM (processSMPTLV K t) s =
      .ok (.ok none, { s with conv := s.conv.smpDone, events := s.events ++ [smpSuccessEvent] }) := by
  have he : ensureSmpConv s.conv = s.conv := ensureSmpConv_of_some _ _ hst
  rw [processSMPTLV_head, hv]
  simp only [he, hst, Option.getD_some]
  unfold ConvData.smpBody
  smp_typ ht
  simp only [hm, runM_bind, runM_getc, bindM_ok, h1, h3, hver, hsuc, Bool.not_true, Bool.false_eq_true, ↓reduceIte,
    runM_pure, smpEvent_eq, runM_ev, runM_modc, setSmpState, smpWipe, ← smpSuccessEvent_eq, Conv.smpDone]

/-! ## 2. the responder's answer as a user call -/

/-- the conversation of the responder once the secret has been provided -/
def Conv.smpAnswered (c : Conv) (y : Nat) (s2 : Smp2State) : Conv :=
  { c with smp := { c.smp with secret := some y, s2 := some s2, state := some .expect3 } }

/-- **exact: `ProvideAuthenticationSecret` while waiting for the secret**, in a session that can send, seven
    successful reads: one data message whose only TLV is the second message -/
theorem provideAuthenticationSecret_run (K : Crypto) (secret : Bytes) (s s1 : MState) (tk ok : DsaPub) (v : Version)
    (m1 : Smp1Msg) (b2 b3 r2 r3 r4 r5 r6 : Nat)
    (hst : s.conv.smp.state = some (.waitingForSecret m1))
    (hs : SendReady K s.conv) (htk : s.conv.theirKey = some tk) (hok : s.conv.ourCurrentKey = some ok)
    (hv : s.conv.version = some v)
    (hr : runM (randMPIs 7 v.parameterLength) s =
      .ok (.ok [some b2, some b3, some r2, some r3, some r4, some r5, some r6], s1)) :
    runM (provideAuthenticationSecret K secret) s =
      .ok (.ok (smpWire K s.conv
          [(smp2Gen K (smpSecretOf K s.conv tk ok false secret) m1 b2 b3 r2 r3 r4 r5 r6).msg.tlv]),
        { s1 with conv := Conv.afterDataSent K (s.conv.smpAnswered (smpSecretOf K s.conv tk ok false secret)
            (smp2Gen K (smpSecretOf K s.conv tk ok false secret) m1 b2 b3 r2 r3 r4 r5 r6)) [] s1.env.now }) := by
  unfold provideAuthenticationSecret
  simp only [runM_bind, continueSMP_run K secret s s1 tk ok v m1 b2 b3 r2 r3 r4 r5 r6 hst hs.enc htk hok hv hr,
    bindM_ok]
  have := createSerializedDataMessage_ready K [] messageFlagIgnoreUnreadable
    [(smp2Gen K (smpSecretOf K s.conv tk ok false secret) m1 b2 b3 r2 r3 r4 r5 r6).msg.tlv]
    { s1 with conv := (s.conv.smpAnswered (smpSecretOf K s.conv tk ok false secret) (smp2Gen K (smpSecretOf K s.conv tk ok false secret) m1 b2 b3 r2 r3 r4 r5 r6)) }
    (hs.of_smp _)
  simp only [Conv.smpAnswered] at this
  simp only [this, bindM_ok, runM_pure]
  rfl

/-! ## 3. TLV round trips of the honest messages -/

/-- every MPI of the four messages fits the 32-bit length prefix of the MPI encoding (for numbers below
    `256 ^ 4294967295`, e.g. whenever the hash is at most that many bytes long) -/
def smpWireFit (m1 : Smp1Msg) (m2 : Smp2Msg) (m3 : Smp3Msg) (m4 : Smp4Msg) : Prop :=
  mpisFit [m1.g2a, m1.c2, m1.d2, m1.g3a, m1.c3, m1.d3] ∧
  mpisFit [m2.g2b, m2.c2, m2.d2, m2.g3b, m2.c3, m2.d3, m2.pb, m2.qb, m2.cp, m2.d5, m2.d6] ∧
  mpisFit [m3.pa, m3.qa, m3.cp, m3.d5, m3.d6, m3.ra, m3.cr, m3.d7] ∧
  mpisFit [m4.rb, m4.cr, m4.d7]

theorem nulfree_of_contains {q : Bytes} (h : q.contains 0 = false) : ∀ x ∈ q, x ≠ 0 := by
  intro x hx h0
  subst h0
  have : q.contains 0 = true := List.contains_iff_mem.mpr hx
  rw [h] at this
  cases this

/-- the first message of a fresh run parses back (type 2 without, type 7 with a question) -/
theorem smpMsg1Of_fresh (K : Crypto) (q : Bytes) (a2 a3 r2 r3 : Nat) (hq : q.contains 0 = false)
    (hfit : mpisFit [(smp1Gen K a2 a3 r2 r3).msg.g2a, (smp1Gen K a2 a3 r2 r3).msg.c2, (smp1Gen K a2 a3 r2 r3).msg.d2,
      (smp1Gen K a2 a3 r2 r3).msg.g3a, (smp1Gen K a2 a3 r2 r3).msg.c3, (smp1Gen K a2 a3 r2 r3).msg.d3]) :
    smpMsg1Of (smp1Fresh K q a2 a3 r2 r3).msg.tlv = some (smp1Fresh K q a2 a3 r2 r3).msg ∧
    ((smp1Fresh K q a2 a3 r2 r3).msg.tlv.typ = tlvTypeSMP1 ∨
      (smp1Fresh K q a2 a3 r2 r3).msg.tlv.typ = tlvTypeSMP1WithQuestion) := by
  unfold smp1Fresh
  by_cases hqe : q.isEmpty = true
  · simp only [hqe, ↓reduceIte]
    have ht : (smp1Gen K a2 a3 r2 r3).msg.tlv.typ = tlvTypeSMP1 := rfl
    refine ⟨?_, Or.inl ht⟩
    unfold smpMsg1Of
    rw [if_pos ht]
    exact smp1_roundtrip _ rfl rfl hfit
  · simp only [hqe, Bool.false_eq_true, ↓reduceIte]
    have ht : ({ (smp1Gen K a2 a3 r2 r3).msg with hasQuestion := true, question := q } : Smp1Msg).tlv.typ =
        tlvTypeSMP1WithQuestion := rfl
    refine ⟨?_, Or.inr ht⟩
    unfold smpMsg1Of
    rw [if_neg (by rw [ht]; decide)]
    exact smp1q_roundtrip _ rfl (nulfree_of_contains hq) hfit

/-! ## 4. the chain: the first four steps, every `K` -/

/-- two conversation states that can run SMP with each other: each can send, each holds its own long-term key and
    the other's, same version, both SMP state machines idle (nil or EXPECT1).  (Same session = in addition the same
    `ssid`; kept apart because the unequal-secret statements do not need it.) -/
structure SmpPair (K : Crypto) (sA sB : MState) (kA kB : DsaPub) (v : Version) : Prop where
  readyA : SendReady K sA.conv
  readyB : SendReady K sB.conv
  keyA : sA.conv.ourCurrentKey = some kA
  peerA : sA.conv.theirKey = some kB
  keyB : sB.conv.ourCurrentKey = some kB
  peerB : sB.conv.theirKey = some kA
  verA : sA.conv.version = some v
  verB : sB.conv.version = some v
  idleA : sA.conv.smp.state = none ∨ sA.conv.smp.state = some .expect1
  idleB : sB.conv.smp.state = none ∨ sB.conv.smp.state = some .expect1

/-- in one session (same `ssid`) equal user secrets give equal SMP secrets -/
theorem smpSecretOf_session (K : Crypto) (cA cB : Conv) (kA kB : DsaPub) (sec : Bytes) (h : cA.ssid = cB.ssid) :
    smpSecretOf K cA kB kA true sec = smpSecretOf K cB kA kB false sec := by
  unfold smpSecretOf
  simp only [h, ↓reduceIte, Bool.false_eq_true]

/-- **the first four steps of a run between two states, every `K`** (pure decision logic: the two verifications and
    the two parses are hypotheses).  A starts, B is asked, B answers, A accepts the answer and emits the third
    message.  The TLV a step emits is handed to the next step as it is. -/
theorem smp_conv_chain_core (K : Crypto) (q secA secB : Bytes) (sA sB sA1 sA2 sB1 : MState) (kA kB : DsaPub)
    (v : Version) (a2 a3 r2 r3 b2 b3 r2' r3' r4 r5 r6 r4' r5' r6' r7 : Nat) (s3 : Smp3State)
    (P : SmpPair K sA sB kA kB v)
    (hq1 : q.contains 0 = false) (hq2 : q.length ≤ maxSMPQuestionLength)
    (rA1 : runM (randMPIs 4 v.parameterLength) sA = .ok (.ok [some a2, some a3, some r2, some r3], sA1))
    (rA2 : runM (randMPIs 4 v.parameterLength) sA1 = .ok (.ok [some r4', some r5', some r6', some r7], sA2))
    (rB1 : runM (randMPIs 7 v.parameterLength) sB =
      .ok (.ok [some b2, some b3, some r2', some r3', some r4, some r5, some r6], sB1))
    (hg3 : smp3Gen K (smpSecretOf K sA.conv kB kA true secA) (smp1Fresh K q a2 a3 r2 r3)
      (smp2Gen K (smpSecretOf K sB.conv kA kB false secB) (smp1Fresh K q a2 a3 r2 r3).msg b2 b3 r2' r3' r4 r5 r6).msg
      r4' r5' r6' r7 = .ok s3)
    (v1 : smp1Verify K (smpGE (some v)) (smp1Fresh K q a2 a3 r2 r3).msg = true)
    (v2 : smp2Verify K (smpGE (some v)) (smp1Fresh K q a2 a3 r2 r3)
      (smp2Gen K (smpSecretOf K sB.conv kA kB false secB) (smp1Fresh K q a2 a3 r2 r3).msg b2 b3 r2' r3' r4 r5 r6).msg
        = true)
    (p1 : smpMsg1Of (smp1Fresh K q a2 a3 r2 r3).msg.tlv = some (smp1Fresh K q a2 a3 r2 r3).msg)
    (pt : (smp1Fresh K q a2 a3 r2 r3).msg.tlv.typ = tlvTypeSMP1 ∨
      (smp1Fresh K q a2 a3 r2 r3).msg.tlv.typ = tlvTypeSMP1WithQuestion)
    (p2 : toSmp2 (smp2Gen K (smpSecretOf K sB.conv kA kB false secB) (smp1Fresh K q a2 a3 r2 r3).msg b2 b3 r2' r3'
      r4 r5 r6).msg.tlv.value = some (smp2Gen K (smpSecretOf K sB.conv kA kB false secB)
        (smp1Fresh K q a2 a3 r2 r3).msg b2 b3 r2' r3' r4 r5 r6).msg) :
    ∃ A1 B1 B2 A2 : MState,
      runM (startAuthenticate K q secA) sA =
        .ok (.ok (smpWire K sA.conv [(smp1Fresh K q a2 a3 r2 r3).msg.tlv]), A1) ∧
      runM (processSMPTLV K (smp1Fresh K q a2 a3 r2 r3).msg.tlv) sB = .ok (.ok none, B1) ∧
      B1.conv.smp.state = some (.waitingForSecret (smp1Fresh K q a2 a3 r2 r3).msg) ∧
      runM (provideAuthenticationSecret K secB) B1 =
        .ok (.ok (smpWire K sB.conv [(smp2Gen K (smpSecretOf K sB.conv kA kB false secB)
          (smp1Fresh K q a2 a3 r2 r3).msg b2 b3 r2' r3' r4 r5 r6).msg.tlv]), B2) ∧
      runM (processSMPTLV K (smp2Gen K (smpSecretOf K sB.conv kA kB false secB)
          (smp1Fresh K q a2 a3 r2 r3).msg b2 b3 r2' r3' r4 r5 r6).msg.tlv) A1 = .ok (.ok (some s3.msg.tlv), A2) ∧
      (A2.conv.smp.state = some .expect4 ∧ A2.conv.version = some v ∧
        A2.conv.smp.s1 = some (smp1Fresh K q a2 a3 r2 r3) ∧ A2.conv.smp.s3 = some s3 ∧
        A2.events = sA.events ++ [smpEv smpInProgress 60]) ∧
      (B2.conv.smp.state = some .expect3 ∧ B2.conv.version = some v ∧
        B2.conv.smp.s2 = some (smp2Gen K (smpSecretOf K sB.conv kA kB false secB)
          (smp1Fresh K q a2 a3 r2 r3).msg b2 b3 r2' r3' r4 r5 r6) ∧
        B2.events = sB.events ++ [smpEvtStr (smp1Fresh K q a2 a3 r2 r3).msg.tlv .ask] ∧
        ∀ r s', runM (randRead v.parameterLength) sB1 = .ok (.ok r, s') →
          runM (randRead v.parameterLength) B2 = .ok (.ok r, { s' with conv := B2.conv, events := B2.events })) := by
  -- step 1
  have hA1 := startAuthenticate_run K q secA sA sA1 kB kA v a2 a3 r2 r3 P.readyA P.peerA P.keyA P.verA hq1 hq2 rA1
  have hpre : smpStartPrefix sA.conv.smp.state = [] := by
    rcases P.idleA with h | h <;> rw [h] <;> rfl
  rw [hpre, List.nil_append] at hA1
  have hevA : sA1.events = sA.events := (randMPIs_run_conv 4 _ sA sA1 _ sA.conv rA1).2.2
  -- step 2
  have hB1 := processSMPTLV_smp1_run K _ sB v _ pt P.idleB P.verB p1
  rw [if_pos v1] at hB1
  -- step 3
  have hrB := randMPIs_run_reloc 7 _ sB sB1 _ (sB.conv.smpAsked (smp1Fresh K q a2 a3 r2 r3).msg)
    (sB.events ++ [smpEvtStr (smp1Fresh K q a2 a3 r2 r3).msg.tlv .ask]) rB1
  have hB2 := provideAuthenticationSecret_run K secB
    { sB with conv := sB.conv.smpAsked (smp1Fresh K q a2 a3 r2 r3).msg,
              events := sB.events ++ [smpEvtStr (smp1Fresh K q a2 a3 r2 r3).msg.tlv .ask] } _ kA kB v (smp1Fresh K q a2 a3 r2 r3).msg b2 b3 r2' r3' r4 r5 r6
    rfl (P.readyB.of_smp _) P.peerB P.keyB P.verB hrB
  -- step 4
  have hrA := (randMPIs_run_conv 4 _ sA1 sA2 _ ((sA.conv.smpStarted (smpSecretOf K sA.conv kB kA true secA)
    (smp1Fresh K q a2 a3 r2 r3)).afterDataSent K [] sA1.env.now) rA2).1
  have hA2 := processSMPTLV_smp2_run K _
    { sA1 with conv := Conv.afterDataSent K (sA.conv.smpStarted (smpSecretOf K sA.conv kB kA true secA) (smp1Fresh K q a2 a3 r2 r3)) [] sA1.env.now }
    _ v _ (smp1Fresh K q a2 a3 r2 r3) s3
    (smpSecretOf K sA.conv kB kA true secA) r4' r5' r6' r7 rfl p2 rfl P.verA rfl rfl v2 hrA hg3
  refine ⟨_, _, _, _, hA1, hB1, rfl, hB2, hA2, ⟨rfl, P.verA, rfl, rfl, ?_⟩, ⟨rfl, P.verB, rfl, rfl, ?_⟩⟩
  · simp only [hevA]
  · intro r s' h
    exact randRead_run_reloc _ sB1 s' r _ _ h

/-! ## 5. the full chain -/

theorem smpAsk_ne_success (t : Tlv) : smpEvtStr t .ask ≠ smpSuccessEvent := by
  simp only [smpEvtStr]
  cases smpMsg1Of t with
  | none => decide
  | some m =>
    simp only
    split
    · exact fun h => SmpWP.ev_ne_answer _ h.symm
    · exact fun h => SmpWP.ev_ne_secret h.symm

theorem smpInProgress_ne_success : smpEv smpInProgress 60 ≠ smpSuccessEvent := by decide
theorem smpFailure_ne_success : smpEv smpFailure 100 ≠ smpSuccessEvent := by decide

/-- **C11 at conversation level, equal secrets.**  `sA` (initiator) and `sB` (responder) are in one session
    (`SmpPair` and the same `ssid`), both SMP machines idle.  The honest exponents are whatever the two tapes yield
    (`rA1`, `rA2`, `rB1`, `rB2`: successful reads).  Both users type the same secret `sec`; the question `q` is any
    byte string without NUL that fits a TLV.  Then the third and fourth messages are generated without panic and,
    under the side conditions of `c11_equal_success` (the version's group test accepts the ten transmitted elements,
    the ten transmitted proof exponents are nonzero) and `smpWireFit` (each MPI fits its 32-bit length prefix), the
    six steps run exactly as written, each TLV handed to the peer's `processSMPTLV` as emitted, BOTH logs gain the
    success event, and both SMP components end wiped in EXPECT1. -/
theorem smp_conv_equal_success {K : Crypto} (A : K.ArithOK) (q sec : Bytes) (sA sB sA1 sA2 sB1 sB2 : MState)
    (kA kB : DsaPub) (v : Version) (a2 a3 r2 r3 b2 b3 r2' r3' r4 r5 r6 r4' r5' r6' r7 : Nat) (r7b : Bytes)
    (P : SmpPair K sA sB kA kB v) (hss : sA.conv.ssid = sB.conv.ssid)
    (hq1 : q.contains 0 = false) (hq2 : q.length ≤ maxSMPQuestionLength)
    (rA1 : runM (randMPIs 4 v.parameterLength) sA = .ok (.ok [some a2, some a3, some r2, some r3], sA1))
    (rA2 : runM (randMPIs 4 v.parameterLength) sA1 = .ok (.ok [some r4', some r5', some r6', some r7], sA2))
    (rB1 : runM (randMPIs 7 v.parameterLength) sB =
      .ok (.ok [some b2, some b3, some r2', some r3', some r4, some r5, some r6], sB1))
    (rB2 : runM (randRead v.parameterLength) sB1 = .ok (.ok (some r7b), sB2)) :
    let x := smpSecretOf K sA.conv kB kA true sec
    let s1 := smp1Fresh K q a2 a3 r2 r3
    let s2 := smp2Gen K x s1.msg b2 b3 r2' r3' r4 r5 r6
    ∃ s3 m4, smp3Gen K x s1 s2.msg r4' r5' r6' r7 = .ok s3 ∧ smp4Gen K s2 s3.msg (bytesToNat r7b) = .ok m4 ∧
      ((∀ n ∈ smpTransmitted (smp1Gen K a2 a3 r2 r3) s2 s3 m4, smpGE (some v) n = true) →
       (∀ d ∈ smpExponents (smp1Gen K a2 a3 r2 r3) s2 s3 m4, 1 ≤ d) →
       smpWireFit (smp1Gen K a2 a3 r2 r3).msg s2.msg s3.msg m4 →
       ∃ A1 B1 B2 A2 B3 A3 : MState,
        runM (startAuthenticate K q sec) sA = .ok (.ok (smpWire K sA.conv [s1.msg.tlv]), A1) ∧
        runM (processSMPTLV K s1.msg.tlv) sB = .ok (.ok none, B1) ∧
        B1.conv.smp.state = some (.waitingForSecret s1.msg) ∧
        runM (provideAuthenticationSecret K sec) B1 = .ok (.ok (smpWire K sB.conv [s2.msg.tlv]), B2) ∧
        runM (processSMPTLV K s2.msg.tlv) A1 = .ok (.ok (some s3.msg.tlv), A2) ∧
        runM (processSMPTLV K s3.msg.tlv) B2 = .ok (.ok (some m4.tlv), B3) ∧
        runM (processSMPTLV K m4.tlv) A2 = .ok (.ok none, A3) ∧
        A3.events = sA.events ++ [smpEv smpInProgress 60, smpSuccessEvent] ∧
        B3.events = sB.events ++ [smpEvtStr s1.msg.tlv .ask, smpSuccessEvent] ∧
        smpSuccessEvent ∈ A3.events ∧ smpSuccessEvent ∈ B3.events ∧
        A3.conv.smp = { state := some .expect1 } ∧ B3.conv.smp = { state := some .expect1 }) := by
  intro x s1 s2
  obtain ⟨e1, e2, e3, e4, e5⟩ := smp1Fresh_as_smp1Gen K q a2 a3 r2 r3
  obtain ⟨s3, m4, h3, h4, hall⟩ := c11_equal_success A (smpGE (some v)) x a2 a3 r2 r3 b2 b3 r2' r3' r4 r5 r6
    r4' r5' r6' r7 (bytesToNat r7b)
  have hs2 : s2 = smp2Gen K x (smp1Gen K a2 a3 r2 r3).msg b2 b3 r2' r3' r4 r5 r6 := e2 _ _ _ _ _ _ _ _
  have hxy : smpSecretOf K sB.conv kA kB false sec = x := (smpSecretOf_session K sA.conv sB.conv kA kB sec hss).symm
  have h3' : smp3Gen K x s1 s2.msg r4' r5' r6' r7 = .ok s3 := by
    rw [show smp3Gen K x s1 s2.msg r4' r5' r6' r7 = smp3Gen K x (smp1Gen K a2 a3 r2 r3) s2.msg r4' r5' r6' r7 from
      e4 _ _ _ _ _ _, hs2]
    exact h3
  have h4' : smp4Gen K s2 s3.msg (bytesToNat r7b) = .ok m4 := by rw [hs2]; exact h4
  refine ⟨s3, m4, h3', h4', ?_⟩
  intro hT hE hF
  obtain ⟨f1, f2, f3, f4⟩ := hF
  rw [hs2] at hT hE
  obtain ⟨v1, v2, v3, w3, v4, w4⟩ := hall hT hE
  rw [← hs2] at v2 v3 w3
  have v1' : smp1Verify K (smpGE (some v)) s1.msg = true := by rw [e1]; exact v1
  have v2' : smp2Verify K (smpGE (some v)) s1 s2.msg = true := by rw [e3]; exact v2
  have w4' : smp4Success K s1 s3 m4 = true := by rw [e5]; exact w4
  obtain ⟨p1, pt⟩ := smpMsg1Of_fresh K q a2 a3 r2 r3 hq1 f1
  have p2 := smp2_roundtrip s2.msg f2
  have p3 := smp3_roundtrip s3.msg f3
  have p4 := smp4_roundtrip m4 f4
  obtain ⟨A1, B1, B2, A2, hA1, hB1, hw, hB2, hA2, ⟨a_st, a_v, a_s1, a_s3, a_ev⟩, ⟨b_st, b_v, b_s2, b_ev, b_rd⟩⟩ :=
    smp_conv_chain_core K q sec sec sA sB sA1 sA2 sB1 kA kB v a2 a3 r2 r3 b2 b3 r2' r3' r4 r5 r6 r4' r5' r6' r7 s3
      P hq1 hq2 rA1 rA2 rB1 (by rw [hxy]; exact h3') v1' (by rw [hxy]; exact v2') p1 pt (by rw [hxy]; exact p2)
  rw [hxy] at hB2 hA2 b_s2
  have hB3 := processSMPTLV_smp3_success_run K s3.msg.tlv B2 _ v s3.msg s2 m4 r7b rfl p3 b_st b_v b_s2 v3 w3
    (b_rd _ _ rB2) h4'
  have hA3 := processSMPTLV_smp4_success_run K m4.tlv A2 v m4 s1 s3 rfl p4 a_st a_v a_s1 a_s3 v4 w4'
  refine ⟨A1, B1, B2, A2, _, _, hA1, hB1, hw, hB2, hA2, hB3, hA3, ?_, ?_, ?_, ?_, rfl, rfl⟩
  · rw [a_ev, List.append_assoc]; rfl
  · rw [b_ev, List.append_assoc]; rfl
  · simp only [List.mem_append, List.mem_cons, true_or, or_true]
  · simp only [List.mem_append, List.mem_cons, true_or, or_true]

/-- **C11 at conversation level, different secrets.**  Same setting, but nothing is assumed about `ssid` or the
    typed secrets: the hypothesis is on the HASHED secrets `x` (A's) and `y` (B's) — different residues below `q`
    (the form of `c11_unequal_fail`; `dhP`, `dhQ` prime; the four long-term exponents nonzero mod `q`).  With the
    side conditions of the honest run (group test, nonzero proof exponents, `smpWireFit`; `r7'` is the exponent B
    WOULD use for a fourth message — it is never drawn, it only names the hypothetical `m4` of the side-condition
    lists) the first four steps run as in the equal case; at step 5 B's checks pass but its success test fails: B
    logs the FAILURE event `smp:7:100`, resets to EXPECT1 and answers with the abort TLV; A, on that abort TLV,
    logs the abort event `smp:1:0` and resets to EXPECT1.  Neither log gains the success event. -/
theorem smp_conv_unequal_no_success {K : Crypto} (A : K.ArithOK) (hp : Nat.Prime dhP) (hqp : Nat.Prime dhQ)
    (q secA secB : Bytes) (sA sB sA1 sA2 sB1 : MState)
    (kA kB : DsaPub) (v : Version) (a2 a3 r2 r3 b2 b3 r2' r3' r4 r5 r6 r4' r5' r6' r7 r7' : Nat)
    (P : SmpPair K sA sB kA kB v)
    (hq1 : q.contains 0 = false) (hq2 : q.length ≤ maxSMPQuestionLength)
    (rA1 : runM (randMPIs 4 v.parameterLength) sA = .ok (.ok [some a2, some a3, some r2, some r3], sA1))
    (rA2 : runM (randMPIs 4 v.parameterLength) sA1 = .ok (.ok [some r4', some r5', some r6', some r7], sA2))
    (rB1 : runM (randMPIs 7 v.parameterLength) sB =
      .ok (.ok [some b2, some b3, some r2', some r3', some r4, some r5, some r6], sB1))
    (hx : smpSecretOf K sA.conv kB kA true secA < dhQ) (hy : smpSecretOf K sB.conv kA kB false secB < dhQ)
    (hxy : smpSecretOf K sA.conv kB kA true secA ≠ smpSecretOf K sB.conv kA kB false secB)
    (ha2 : a2 % dhQ ≠ 0) (ha3 : a3 % dhQ ≠ 0) (hb2 : b2 % dhQ ≠ 0) (hb3 : b3 % dhQ ≠ 0) :
    let x := smpSecretOf K sA.conv kB kA true secA
    let y := smpSecretOf K sB.conv kA kB false secB
    let s1 := smp1Fresh K q a2 a3 r2 r3
    let s2 := smp2Gen K y s1.msg b2 b3 r2' r3' r4 r5 r6
    ∃ s3 m4, smp3Gen K x s1 s2.msg r4' r5' r6' r7 = .ok s3 ∧ smp4Gen K s2 s3.msg r7' = .ok m4 ∧
      ((∀ n ∈ smpTransmitted (smp1Gen K a2 a3 r2 r3) s2 s3 m4, smpGE (some v) n = true) →
       (∀ d ∈ smpExponents (smp1Gen K a2 a3 r2 r3) s2 s3 m4, 1 ≤ d) →
       smpWireFit (smp1Gen K a2 a3 r2 r3).msg s2.msg s3.msg m4 →
       ∃ A1 B1 B2 A2 B3 A3 : MState,
        runM (startAuthenticate K q secA) sA = .ok (.ok (smpWire K sA.conv [s1.msg.tlv]), A1) ∧
        runM (processSMPTLV K s1.msg.tlv) sB = .ok (.ok none, B1) ∧
        B1.conv.smp.state = some (.waitingForSecret s1.msg) ∧
        runM (provideAuthenticationSecret K secB) B1 = .ok (.ok (smpWire K sB.conv [s2.msg.tlv]), B2) ∧
        runM (processSMPTLV K s2.msg.tlv) A1 = .ok (.ok (some s3.msg.tlv), A2) ∧
        runM (processSMPTLV K s3.msg.tlv) B2 = .ok (.ok (some smpAbortTlv), B3) ∧
        runM (processSMPTLV K smpAbortTlv) A2 = .ok (.ok none, A3) ∧
        A3.events = sA.events ++ [smpEv smpInProgress 60, smpEv smpAbort 0] ∧
        B3.events = sB.events ++ [smpEvtStr s1.msg.tlv .ask, smpEv smpFailure 100] ∧
        smpSuccessEvent ∉ [smpEv smpInProgress 60, smpEv smpAbort 0] ∧
        smpSuccessEvent ∉ [smpEvtStr s1.msg.tlv .ask, smpEv smpFailure 100] ∧
        A3.conv.smp.state = some .expect1 ∧ B3.conv.smp.state = some .expect1) := by
  intro x y s1 s2
  obtain ⟨e1, e2, e3, e4, e5⟩ := smp1Fresh_as_smp1Gen K q a2 a3 r2 r3
  obtain ⟨s3, m4, h3, h4, -, -, hver, -, -⟩ := smp_honest_run A (smpGE (some v)) x y a2 a3 r2 r3 b2 b3 r2' r3' r4 r5 r6
    r4' r5' r6' r7 r7'
  obtain ⟨s3', m4', h3f, h4f, f3, -⟩ := c11_unequal_fail A hp hqp x y a2 a3 r2 r3 b2 b3 r2' r3' r4 r5 r6
    r4' r5' r6' r7 r7' hx hy hxy ha2 ha3 hb2 hb3
  rw [h3] at h3f
  cases h3f
  have hs2 : s2 = smp2Gen K y (smp1Gen K a2 a3 r2 r3).msg b2 b3 r2' r3' r4 r5 r6 := e2 _ _ _ _ _ _ _ _
  have h3' : smp3Gen K x s1 s2.msg r4' r5' r6' r7 = .ok s3 := by
    rw [show smp3Gen K x s1 s2.msg r4' r5' r6' r7 = smp3Gen K x (smp1Gen K a2 a3 r2 r3) s2.msg r4' r5' r6' r7 from
      e4 _ _ _ _ _ _, hs2]
    exact h3
  have h4' : smp4Gen K s2 s3.msg r7' = .ok m4 := by rw [hs2]; exact h4
  refine ⟨s3, m4, h3', h4', ?_⟩
  intro hT hE hF
  obtain ⟨f1, f2, f3', f4⟩ := hF
  rw [hs2] at hT hE
  obtain ⟨v1, v2, v3, v4⟩ := hver hT hE
  rw [← hs2] at v2 v3 f3
  have v1' : smp1Verify K (smpGE (some v)) s1.msg = true := by rw [e1]; exact v1
  have v2' : smp2Verify K (smpGE (some v)) s1 s2.msg = true := by rw [e3]; exact v2
  obtain ⟨p1, pt⟩ := smpMsg1Of_fresh K q a2 a3 r2 r3 hq1 f1
  have p2 := smp2_roundtrip s2.msg f2
  have p3 := smp3_roundtrip s3.msg f3'
  obtain ⟨A1, B1, B2, A2, hA1, hB1, hw, hB2, hA2, ⟨a_st, a_v, a_s1, a_s3, a_ev⟩, ⟨b_st, b_v, b_s2, b_ev, b_rd⟩⟩ :=
    smp_conv_chain_core K q secA secB sA sB sA1 sA2 sB1 kA kB v a2 a3 r2 r3 b2 b3 r2' r3' r4 r5 r6 r4' r5' r6' r7 s3
      P hq1 hq2 rA1 rA2 rB1 h3' v1' v2' p1 pt p2
  have hB3 := processSMPTLV_smp3_failure_run K s3.msg.tlv B2 v s3.msg s2 rfl p3 b_st b_v b_s2 v3 f3
  have hA3 := processSMPTLV_abort_run K smpAbortTlv A2 v rfl a_v
  refine ⟨A1, B1, B2, A2, _, _, hA1, hB1, hw, hB2, hA2, hB3, hA3, ?_, ?_, ?_, ?_, rfl, rfl⟩
  · rw [a_ev, List.append_assoc]; rfl
  · rw [b_ev, List.append_assoc]; rfl
  · decide
  · intro hmem
    rcases List.mem_cons.mp hmem with h | h
    · exact smpAsk_ne_success _ h.symm
    · rcases List.mem_cons.mp h with h | h
      · exact smpFailure_ne_success h.symm
      · cases h

/-- **C11 at conversation level, two different sessions (partial).**  A relay between two separately keyed sessions:
    `sA.conv.ssid ≠ sB.conv.ssid`.  The hashed secrets are SHA-256 of strings that differ in the `ssid` part, so
    they differ unless SHA-256 collides; COLLISION RESISTANCE is not modelled, therefore the inequality of the
    hashed secrets stays an explicit hypothesis (`hxy`) and the result is `smp_conv_unequal_no_success` — even if
    both users type the SAME secret.  (`hss` is not used by the proof; it documents the setting.) -/
theorem smp_conv_different_session_no_success_partial {K : Crypto} (A : K.ArithOK) (hp : Nat.Prime dhP)
    (hqp : Nat.Prime dhQ) (q sec : Bytes) (sA sB sA1 sA2 sB1 : MState)
    (kA kB : DsaPub) (v : Version) (a2 a3 r2 r3 b2 b3 r2' r3' r4 r5 r6 r4' r5' r6' r7 r7' : Nat)
    (P : SmpPair K sA sB kA kB v) (hss : sA.conv.ssid ≠ sB.conv.ssid)
    (hq1 : q.contains 0 = false) (hq2 : q.length ≤ maxSMPQuestionLength)
    (rA1 : runM (randMPIs 4 v.parameterLength) sA = .ok (.ok [some a2, some a3, some r2, some r3], sA1))
    (rA2 : runM (randMPIs 4 v.parameterLength) sA1 = .ok (.ok [some r4', some r5', some r6', some r7], sA2))
    (rB1 : runM (randMPIs 7 v.parameterLength) sB =
      .ok (.ok [some b2, some b3, some r2', some r3', some r4, some r5, some r6], sB1))
    (hx : smpSecretOf K sA.conv kB kA true sec < dhQ) (hy : smpSecretOf K sB.conv kA kB false sec < dhQ)
    (hxy : smpSecretOf K sA.conv kB kA true sec ≠ smpSecretOf K sB.conv kA kB false sec)
    (ha2 : a2 % dhQ ≠ 0) (ha3 : a3 % dhQ ≠ 0) (hb2 : b2 % dhQ ≠ 0) (hb3 : b3 % dhQ ≠ 0) :
    let x := smpSecretOf K sA.conv kB kA true sec
    let y := smpSecretOf K sB.conv kA kB false sec
    let s1 := smp1Fresh K q a2 a3 r2 r3
    let s2 := smp2Gen K y s1.msg b2 b3 r2' r3' r4 r5 r6
    ∃ s3 m4, smp3Gen K x s1 s2.msg r4' r5' r6' r7 = .ok s3 ∧ smp4Gen K s2 s3.msg r7' = .ok m4 ∧
      ((∀ n ∈ smpTransmitted (smp1Gen K a2 a3 r2 r3) s2 s3 m4, smpGE (some v) n = true) →
       (∀ d ∈ smpExponents (smp1Gen K a2 a3 r2 r3) s2 s3 m4, 1 ≤ d) →
       smpWireFit (smp1Gen K a2 a3 r2 r3).msg s2.msg s3.msg m4 →
       ∃ A1 B1 B2 A2 B3 A3 : MState,
        runM (startAuthenticate K q sec) sA = .ok (.ok (smpWire K sA.conv [s1.msg.tlv]), A1) ∧
        runM (processSMPTLV K s1.msg.tlv) sB = .ok (.ok none, B1) ∧
        B1.conv.smp.state = some (.waitingForSecret s1.msg) ∧
        runM (provideAuthenticationSecret K sec) B1 = .ok (.ok (smpWire K sB.conv [s2.msg.tlv]), B2) ∧
        runM (processSMPTLV K s2.msg.tlv) A1 = .ok (.ok (some s3.msg.tlv), A2) ∧
        runM (processSMPTLV K s3.msg.tlv) B2 = .ok (.ok (some smpAbortTlv), B3) ∧
        runM (processSMPTLV K smpAbortTlv) A2 = .ok (.ok none, A3) ∧
        A3.events = sA.events ++ [smpEv smpInProgress 60, smpEv smpAbort 0] ∧
        B3.events = sB.events ++ [smpEvtStr s1.msg.tlv .ask, smpEv smpFailure 100] ∧
        smpSuccessEvent ∉ [smpEv smpInProgress 60, smpEv smpAbort 0] ∧
        smpSuccessEvent ∉ [smpEvtStr s1.msg.tlv .ask, smpEv smpFailure 100] ∧
        A3.conv.smp.state = some .expect1 ∧ B3.conv.smp.state = some .expect1) :=
  smp_conv_unequal_no_success A hp hqp q sec sec sA sB sA1 sA2 sB1 kA kB v a2 a3 r2 r3 b2 b3 r2' r3' r4 r5 r6
    r4' r5' r6' r7 r7' P hq1 hq2 rA1 rA2 rB1 hx hy hxy ha2 ha3 hb2 hb3

/-! ## 6. the hypotheses are satisfiable -/

def exTape (l : List UInt8) : List (Option Bytes) := l.map fun i => some (List.replicate 16 i)

/-- the initiator: `exSmpSession {}` with eight reads on the tape -/
def exSmpA : MState := { exSmpSession {} with env := { rand := exTape [1, 2, 3, 4, 5, 6, 7, 8] } }

/-- the responder of the same session: the two long-term keys swapped, `ssid` as given, eight reads on the tape -/
def exSmpB (ssid : Bytes) : MState :=
  ⟨{ version := some .v2, msgState := .encrypted, keys := Keys.example1, theirKey := some ⟨5, 5, 5, 5⟩,
     ourCurrentKey := some ⟨7, 7, 7, 7⟩, ssid := ssid },
   { rand := exTape [11, 12, 13, 14, 15, 16, 17, 18] }, [], []⟩

theorem exSmpB_ready (K : Crypto) (ssid : Bytes) : SendReady K (exSmpB ssid).conv :=
  ⟨rfl, ⟨by simp [exSmpB], fun _ => by simp [exSmpB, Keys.example1]⟩, Or.inl rfl, ⟨_, rfl⟩⟩

theorem exSmp_pair (K : Crypto) (ssid : Bytes) : SmpPair K exSmpA (exSmpB ssid) ⟨5, 5, 5, 5⟩ ⟨7, 7, 7, 7⟩ .v2 :=
  ⟨exSmpSession_ready K {}, exSmpB_ready K ssid, rfl, rfl, rfl, rfl, rfl, rfl, Or.inl rfl, Or.inl rfl⟩

theorem exSmp_sameSession : exSmpA.conv.ssid = (exSmpB (List.replicate 8 0)).conv.ssid := rfl
theorem exSmp_otherSession : exSmpA.conv.ssid ≠ (exSmpB [1]).conv.ssid := by decide

def exN (i : UInt8) : Nat := bytesToNat (List.replicate 16 i)

theorem exSmpA_rand1 : runM (randMPIs 4 Version.v2.parameterLength) exSmpA =
    .ok (.ok [some (exN 1), some (exN 2), some (exN 3), some (exN 4)],
      { exSmpA with env := { rand := exTape [5, 6, 7, 8] } }) := rfl
theorem exSmpA_rand2 : runM (randMPIs 4 Version.v2.parameterLength)
      { exSmpA with env := { rand := exTape [5, 6, 7, 8] } } =
    .ok (.ok [some (exN 5), some (exN 6), some (exN 7), some (exN 8)], { exSmpA with env := { rand := [] } }) := rfl
theorem exSmpB_rand1 (ssid : Bytes) : runM (randMPIs 7 Version.v2.parameterLength) (exSmpB ssid) =
    .ok (.ok [some (exN 11), some (exN 12), some (exN 13), some (exN 14), some (exN 15), some (exN 16),
        some (exN 17)], { exSmpB ssid with env := { rand := exTape [18] } }) := rfl
theorem exSmpB_rand2 (ssid : Bytes) : runM (randRead Version.v2.parameterLength)
      { exSmpB ssid with env := { rand := exTape [18] } } =
    .ok (.ok (some (List.replicate 16 18)), { exSmpB ssid with env := { rand := [] } }) := rfl

/-- `smp_conv_equal_success` applies to `exSmpA` / `exSmpB (List.replicate 8 0)`, question "?", secrets "a" / "a", for EVERY `K` with
    `K.ArithOK` (e.g. `Crypto.real`): all hypotheses but the three side conditions are discharged here; the side
    conditions are those of `c11_equal_success` (satisfiable: last examples of Proofs.Smp) and `smpWireFit` -/
example {K : Crypto} (A : K.ArithOK) :
    let x := smpSecretOf K exSmpA.conv ⟨7, 7, 7, 7⟩ ⟨5, 5, 5, 5⟩ true [97]
    let s1 := smp1Fresh K [63] (exN 1) (exN 2) (exN 3) (exN 4)
    let s2 := smp2Gen K x s1.msg (exN 11) (exN 12) (exN 13) (exN 14) (exN 15) (exN 16) (exN 17)
    ∃ s3 m4, smp3Gen K x s1 s2.msg (exN 5) (exN 6) (exN 7) (exN 8) = .ok s3 ∧
      smp4Gen K s2 s3.msg (exN 18) = .ok m4 ∧
      ((∀ n ∈ smpTransmitted (smp1Gen K (exN 1) (exN 2) (exN 3) (exN 4)) s2 s3 m4, smpGE (some .v2) n = true) →
       (∀ d ∈ smpExponents (smp1Gen K (exN 1) (exN 2) (exN 3) (exN 4)) s2 s3 m4, 1 ≤ d) →
       smpWireFit (smp1Gen K (exN 1) (exN 2) (exN 3) (exN 4)).msg s2.msg s3.msg m4 →
       ∃ A3 B3 : MState, smpSuccessEvent ∈ A3.events ∧ smpSuccessEvent ∈ B3.events ∧
         A3.conv.smp.state = some .expect1 ∧ B3.conv.smp.state = some .expect1) := by
  intro x s1 s2
  obtain ⟨s3, m4, h3, h4, h⟩ := smp_conv_equal_success A [63] [97] exSmpA (exSmpB (List.replicate 8 0)) _ _ _ _ ⟨5, 5, 5, 5⟩ ⟨7, 7, 7, 7⟩
    .v2 _ _ _ _ _ _ _ _ _ _ _ _ _ _ _ _ (exSmp_pair K _) exSmp_sameSession (by decide) (by decide)
    exSmpA_rand1 exSmpA_rand2 (exSmpB_rand1 _) (exSmpB_rand2 _)
  refine ⟨s3, m4, h3, h4, fun hT hE hF => ?_⟩
  obtain ⟨_, _, _, _, B3, A3, -, -, -, -, -, -, -, -, -, hA, hB, hsA, hsB⟩ := h hT hE hF
  exact ⟨A3, B3, hA, hB, by rw [hsA], by rw [hsB]⟩

end Otr
