/-
  Proofs.VersionEmitDec — groundwork for Proofs.VersionEmit2 (property C16, emission): wire forms (`WireOf`),
  `toSendEncoded`, `processAKE` never throws, the frame `Carry`, `receiveDecoded`.
-/
import Proofs.VersionEmitAke
set_option linter.unusedSimpArgs false
set_option linter.unusedVariables false
namespace Otr

/-! ## 1. what goes on the wire -/

/-- the wire forms of the message `raw` in a conversation of version `v`: the armoured message
    "?OTR:" ‖ base64(raw) ‖ ".", or one of the pieces "?OTR,n,total,…," (v2) / "?OTR|tag|tag,n,total,…," (v3)
    of that armoured message -/
def WireOf (v : Version) (raw y : Bytes) : Prop :=
  y = armour raw ∨ ∃ j num its itr r, y = fragmentPrefix v j num its itr ++ chunk (armour raw) r j ++ [44]

theorem fragEncode_wireOf (raw : Bytes) (s s' : MState) (l : List Bytes) (v : Version)
    (hv : s.conv.version = some v) (hr : runM (fragEncode raw) s = .ok (.ok l, s')) :
    s' = s ∧ ∀ y ∈ l, WireOf v raw y := by
  unfold fragEncode at hr
  simp only [runM_bind, runM_getc, bindM_ok] at hr
  split at hr
  · simp only [runM_pure, Res.ok.injEq, Prod.mk.injEq, Except.ok.injEq] at hr
    refine ⟨hr.2.symm, fun y hy => ?_⟩
    rw [← hr.1] at hy
    simp only [List.mem_singleton] at hy
    exact Or.inl hy
  · simp only [hv, runM_pure, Res.ok.injEq, Prod.mk.injEq, Except.ok.injEq] at hr
    refine ⟨hr.2.symm, fun y hy => ?_⟩
    rw [← hr.1] at hy
    unfold fragment at hy
    dsimp only at hy
    split at hy
    · simp only [List.mem_singleton] at hy; exact Or.inl hy
    · split at hy
      · simp only [List.mem_singleton] at hy; exact Or.inl hy
      · split at hy
        · simp only [List.mem_singleton] at hy; exact Or.inl hy
        · obtain ⟨j, -, -, hj⟩ := fragmentPieces_mem _ _ _ _ _ _ _ _ _ hy
          exact Or.inr ⟨j, _, _, _, _, hj⟩

/-- the encoding loop of `toSendEncoded` -/
theorem encodeLoop_wire (ts : List Bytes) : ∀ (init : List Bytes) (s s' : MState) (l : List Bytes),
    AllVer s.conv.version ts →
    (∀ y ∈ init, ∃ v raw, s.conv.version = some v ∧ HasVer v raw ∧ WireOf v raw y) →
    runM (forIn ts init fun ts __s => do
        let __do_lift ← fragEncode ts
        pure (ForInStep.yield (__s ++ __do_lift))) s = .ok (.ok l, s') →
    s' = s ∧ ∀ y ∈ l, ∃ v raw, s.conv.version = some v ∧ HasVer v raw ∧ WireOf v raw y := by
  induction ts with
  | nil =>
    intro init s s' l _ h0 hr
    simp only [List.forIn_nil, runM_pure, Res.ok.injEq, Prod.mk.injEq, Except.ok.injEq] at hr
    exact ⟨hr.2.symm, by rw [← hr.1]; exact h0⟩
  | cons t rest ih =>
    intro init s s' l hver h0 hr
    rw [List.forIn_cons, runM_bind] at hr
    obtain ⟨st, s1, h1, h2⟩ := bindM_ok_inv hr
    rw [runM_bind] at h1
    obtain ⟨fr, s2, h3, h4⟩ := bindM_ok_inv h1
    simp only [runM_pure, Res.ok.injEq, Prod.mk.injEq, Except.ok.injEq] at h4
    obtain ⟨v, hv, hh⟩ := hver t (List.mem_cons_self)
    obtain ⟨hs2, hfr⟩ := fragEncode_wireOf t s s2 fr v hv h3
    have hs1 : s1 = s := by rw [← h4.2, hs2]
    subst hs1
    rw [← h4.1] at h2
    dsimp only at h2
    refine ih (init ++ fr) s1 s' l (fun y hy => hver y (List.mem_cons_of_mem _ hy)) ?_ h2
    intro y hy
    rw [List.mem_append] at hy
    rcases hy with hy | hy
    · exact h0 y hy
    · exact ⟨v, t, hv, hh, hfr y hy⟩

theorem toSendEncoded_wire (ts : List Bytes) (err : Option Err) (s s' : MState) (l : List Bytes)
    (hver : AllVer s.conv.version ts) (hr : runM (toSendEncoded ts err) s = .ok (.ok l, s')) :
    s' = s ∧ ∀ y ∈ l, ∃ v raw, s.conv.version = some v ∧ HasVer v raw ∧ WireOf v raw y := by
  unfold toSendEncoded at hr
  split at hr
  · simp only [runM_pure, Res.ok.injEq, Prod.mk.injEq, Except.ok.injEq] at hr
    exact ⟨hr.2.symm, by rw [← hr.1]; exact fun y hy => by cases hy⟩
  · split at hr
    · simp only [runM_pure, Res.ok.injEq, Prod.mk.injEq, Except.ok.injEq] at hr
      exact ⟨hr.2.symm, by rw [← hr.1]; exact fun y hy => by cases hy⟩
    · split at hr
      · simp only [runM_pure, Res.ok.injEq, Prod.mk.injEq, Except.ok.injEq] at hr
        exact ⟨hr.2.symm, by rw [← hr.1]; exact fun y hy => by cases hy⟩
      · dsimp only at hr
        rw [runM_bind] at hr
        obtain ⟨out, s1, h1, h2⟩ := bindM_ok_inv hr
        simp only [runM_pure, Res.ok.injEq, Prod.mk.injEq, Except.ok.injEq] at h2
        obtain ⟨hs, hl⟩ := encodeLoop_wire _ [] s s1 out hver (fun y hy => by cases hy) h1
        rw [← h2.1, ← h2.2]
        exact ⟨hs, hl⟩

/-! ## 2. `processAKE` never throws (its errors are values) -/

def NT {α} (x : M α) : Prop := ∀ s e s', runM x s ≠ .ok (.error e, s')

section NTRules
variable {α β : Type}

theorem NT.pure (a : α) : NT (pure a : M α) := by
  intro s e s' h; simp only [runM_pure, Res.ok.injEq, Prod.mk.injEq, reduceCtorEq, false_and] at h
theorem NT.goPanic (site : String) : NT (goPanic site : M α) := by
  intro s e s' h; simp only [runM_goPanic, reduceCtorEq] at h
theorem NT.getc : NT getc := by
  intro s e s' h; simp only [runM_getc, Res.ok.injEq, Prod.mk.injEq, reduceCtorEq, false_and] at h
theorem NT.now : NT now := by
  intro s e s' h; simp only [runM_now, Res.ok.injEq, Prod.mk.injEq, reduceCtorEq, false_and] at h
theorem NT.modc (f : Conv → Conv) : NT (modc f) := by
  intro s e s' h; simp only [runM_modc, Res.ok.injEq, Prod.mk.injEq, reduceCtorEq, false_and] at h
theorem NT.ev (e0 : String) : NT (ev e0) := by
  intro s e s' h; simp only [runM_ev, Res.ok.injEq, Prod.mk.injEq, reduceCtorEq, false_and] at h

theorem NT.bind {x : M α} {f : α → M β} (hx : NT x) (hf : ∀ a, NT (f a)) : NT (x >>= f) := by
  intro s e s' h
  rw [runM_bind] at h
  rcases bindM_inv h with ⟨e1, h1, -⟩ | ⟨a, s1, -, h2⟩
  · exact hx s e1 s' h1
  · exact hf a s1 e s' h2

theorem NT.tryCatch {x : M α} {h : Err → M α} (hh : ∀ e, NT (h e)) : NT (tryCatch x h) := by
  intro s e s' hr
  rw [runM_tryCatch] at hr
  cases hx : runM x s with
  | panic p => rw [hx] at hr; cases hr
  | ok v =>
    obtain ⟨v, s1⟩ := v
    rw [hx] at hr
    cases v with
    | ok a => simp only [catchM_ok, Res.ok.injEq, Prod.mk.injEq, reduceCtorEq, false_and] at hr
    | error e1 => exact hh e1 s1 e s' hr

theorem NT.ite {c : Prop} [Decidable c] {x y : M α} (hx : NT x) (hy : NT y) : NT (if c then x else y) := by
  split <;> assumption

theorem NT.forIn {γ σ : Type} (l : List γ) (init : σ) (f : γ → σ → M (ForInStep σ))
    (hf : ∀ a b, NT (f a b)) : NT (forIn l init f) := by
  induction l generalizing init with
  | nil => exact NT.pure _
  | cons a l ih =>
    rw [List.forIn_cons]
    refine NT.bind (hf a init) ?_
    intro r
    cases r with
    | done b => exact NT.pure _
    | yield b => exact ih b

end NTRules

macro "nt_core" : tactic => `(tactic| first
  | exact NT.pure _ | exact NT.goPanic _ | exact NT.getc | exact NT.now | exact NT.modc _ | exact NT.ev _
  | with_reducible apply NT.tryCatch
  | with_reducible apply NT.bind
  | with_reducible apply NT.ite
  | with_reducible apply NT.forIn)

syntax "nt_walk" "[" term,* "]" : tactic
macro_rules
  | `(tactic| nt_walk [$ls,*]) => do
    let tacs ← ls.getElems.mapM fun l => `(tactic| with_reducible apply $l)
    `(tactic| repeat' (first | nt_core $[| $tacs:tactic]* | with_reducible intro _ | split | dsimp only))

theorem getAke_nt : NT getAke := by
  unfold getAke; nt_walk []
theorem modAke_nt (f : Ake → Ake) : NT (modAke f) := by
  unfold modAke; nt_walk []
theorem optNat_nt (site : String) (v : Option Nat) : NT (optNat site v) := by
  unfold optNat; nt_walk []
theorem msgEvent_nt (n : Nat) : NT (msgEvent n) := by
  unfold msgEvent; nt_walk []
theorem updateLastSent_nt : NT updateLastSent := by
  unfold updateLastSent; nt_walk []
theorem initAKE_nt : NT initAKE := by
  unfold initAKE; nt_walk []
theorem recvDHCommitNone_nt (K : Crypto) (m : Bytes) : NT (recvDHCommitNone K m) := by
  unfold recvDHCommitNone akeTry; nt_walk []
theorem recvDHCommit_nt (K : Crypto) (st : AuthState) (m : Bytes) : NT (recvDHCommit K st m) := by
  unfold recvDHCommit akeTry; nt_walk [recvDHCommitNone_nt, getAke_nt, optNat_nt]
theorem recvDHKey_nt (K : Crypto) (st : AuthState) (m : Bytes) : NT (recvDHKey K st m) := by
  unfold recvDHKey akeTry; nt_walk []
theorem recvRevealSig_nt (K : Crypto) (st : AuthState) (m : Bytes) : NT (recvRevealSig K st m) := by
  unfold recvRevealSig akeTry; nt_walk []
theorem recvSig_nt (K : Crypto) (st : AuthState) (m : Bytes) : NT (recvSig K st m) := by
  unfold recvSig akeTry; nt_walk []
theorem retransmit_nt (K : Crypto) : NT (retransmit K) := by
  unfold retransmit; nt_walk [msgEvent_nt, updateLastSent_nt]
theorem maybeRetransmit_nt (K : Crypto) : NT (maybeRetransmit K) := by
  unfold maybeRetransmit; nt_walk [retransmit_nt]
theorem retransmitAfterCompletedExchange_nt (K : Crypto) (b a : AuthState) (e : Option Err) :
    NT (retransmitAfterCompletedExchange K b a e) := by
  unfold retransmitAfterCompletedExchange; nt_walk [maybeRetransmit_nt]
theorem akeDispatch_nt (K : Crypto) (t : Nat) (m : Bytes) (st : AuthState) : NT (akeDispatch K t m st) := by
  unfold akeDispatch
  nt_walk [modAke_nt, recvDHCommit_nt, recvDHKey_nt, recvRevealSig_nt, recvSig_nt,
    retransmitAfterCompletedExchange_nt]
theorem akeStamp_nt (st : AuthState) (single : Option Bytes) (err : Option Err) : NT (akeStamp st single err) := by
  unfold akeStamp
  nt_walk [getAke_nt, modAke_nt]
theorem akeRest_nt (K : Crypto) (t : Nat) (m : Bytes) (st : AuthState) : NT (akeRest K t m st) := by
  unfold akeRest
  nt_walk [akeDispatch_nt, akeStamp_nt]
theorem processAKE_nt (K : Crypto) (t : Nat) (m : Bytes) : NT (processAKE K t m) := by
  intro s e s' h
  cases ha : s.conv.ake with
  | none =>
    rw [processAKE_run_none K t m s ha] at h
    exact akeRest_nt K t m .none _ e s' h
  | some a =>
    rw [processAKE_run_some K t m s a ha] at h
    exact akeRest_nt K t m a.state s e s' h

/-! ## 3. the frame `Carry`: the invariant is kept, the policies stay, the injection queue grows by error replies -/

def InjGrow (s s' : MState) : Prop := ∀ y ∈ s'.conv.injections, y ∈ s.conv.injections ∨ IsErrReply y

def Carry (s s' : MState) : Prop :=
  (EmitInv s.conv → EmitInv s'.conv) ∧ s'.conv.policies = s.conv.policies ∧ InjGrow s s'

theorem InjGrow.trans {a b c : MState} (h1 : InjGrow a b) (h2 : InjGrow b c) : InjGrow a c := by
  intro y hy
  rcases h2 y hy with h | h
  · exact h1 y h
  · exact Or.inr h

instance : Frame Carry where
  refl _ := ⟨id, rfl, fun _ h => Or.inl h⟩
  trans h1 h2 := ⟨fun h => h2.1 (h1.1 h), h2.2.1.trans h1.2.1, InjGrow.trans h1.2.2 h2.2.2⟩

theorem Stable.carry {α} {x : M α} (h1 : Stable EB x) (h2 : Stable VerF x) (h3 : ∀ v, Stable (St v) x) :
    Stable Carry x := by
  intro s r s' hr
  have hv := vstep_of h2 h3 hr
  have heb := h1 s r s' hr
  exact ⟨fun hi => hi.step heb hv, hv.1, heb.2.2⟩

theorem Stable.carry_vp {α} {x : M α} (h1 : Stable EB x) (h2 : Stable VPFrame x) : Stable Carry x :=
  Stable.carry h1 h2.ofVP (fun v => h2.ofVP)

theorem processAKE_carry (K : Crypto) (t : Nat) (m : Bytes) : Stable Carry (processAKE K t m) := by
  intro s r s' hr
  have hp : s'.conv.policies = s.conv.policies := congrArg Prod.snd (processAKE_vp K t m s _ s' hr)
  have hinj : s'.conv.injections = s.conv.injections := processAKE_ki K t m s r s' hr
  refine ⟨fun hi => ?_, hp, fun y hy => Or.inl (hinj ▸ hy)⟩
  cases r with
  | error e => exact absurd hr (processAKE_nt K t m s e s')
  | ok a => exact (processAKE_inv2 K t m s s' a.1 a.2 hi hr).1

theorem sendDHCommit_carry (K : Crypto) : Stable Carry (sendDHCommit K) := by
  intro s r s' hr
  have hp : s'.conv.policies = s.conv.policies := congrArg Prod.snd (sendDHCommit_vp K s _ s' hr)
  have hinj : s'.conv.injections = s.conv.injections := sendDHCommit_ki K s r s' hr
  exact ⟨fun hi => (sendDHCommit_inv2 K s r s' hi hr).1, hp, fun y hy => Or.inl (hinj ▸ hy)⟩

theorem modc_carry (f : Conv → Conv) (h1 : Stable EB (modc f)) (h2 : Stable VPFrame (modc f)) :
    Stable Carry (modc f) := Stable.carry_vp h1 h2
theorem mism_carry (e : String) : Stable Carry (mism e) :=
  Stable.carry_vp (by eb_leaf) (by vp_leaf)
theorem ev_carry (e : String) : Stable Carry (ev e) :=
  Stable.carry_vp (by eb_leaf) (by vp_leaf)

macro "carry_leaf" : tactic => `(tactic| first
  | exact mism_carry _ | exact ev_carry _
  | (with_reducible apply modc_carry
     · eb_leaf
     · vp_leaf))

syntax "carry_walk" "[" term,* "]" : tactic
macro_rules
  | `(tactic| carry_walk [$ls,*]) => do
    let tacs ← ls.getElems.mapM fun l => `(tactic| with_reducible apply $l)
    `(tactic| repeat' (first
      | exact Stable.pure _ | exact Stable.throw _ | exact Stable.goPanic _
      | exact Stable.getc | exact Stable.get | exact Stable.now
      | carry_leaf
      | with_reducible apply Stable.bind | with_reducible apply Stable.tryCatch
      | with_reducible apply Stable.ite | with_reducible apply Stable.map
      | with_reducible apply Stable.forIn
      $[| $tacs:tactic]* | with_reducible intro _ | split | dsimp only))

theorem msgEvent_carry (n : Nat) : Stable Carry (msgEvent n) := Stable.carry_vp (msgEvent_eb n) (msgEvent_vp n)
theorem msgEventErr_carry (n : Nat) : Stable Carry (msgEventErr n) :=
  Stable.carry_vp (msgEventErr_eb n) (msgEventErr_vp n)
theorem checkVersion_carry (m : Bytes) : Stable Carry (checkVersion m) :=
  Stable.carry (checkVersion_eb m) (checkVersion_vr commitToVersionFrom_verF m)
    (fun v => checkVersion_vr (commitToVersionFrom_st v) m)
theorem commitToVersionFrom_carry (vs : Nat) : Stable Carry (commitToVersionFrom vs) :=
  Stable.carry (commitToVersionFrom_eb vs) (commitToVersionFrom_verF vs) (fun v => commitToVersionFrom_st v vs)
theorem parseMessageHeader_carry (m : Bytes) : Stable Carry (parseMessageHeader m) :=
  Stable.carry_vp (parseMessageHeader_eb m) (parseMessageHeader_vp m)
theorem receiveDataMessage_carry (K : Crypto) (h b : Bytes) : Stable Carry (receiveDataMessage K h b) :=
  Stable.carry_vp (receiveDataMessage_eb K h b) (receiveDataMessage_vp K h b)
theorem receiveFragment_carry (b : FragCtx) (d : Bytes) : Stable Carry (receiveFragment b d) :=
  Stable.carry (receiveFragment_eb b d) (receiveFragment_verF b d) (fun v => receiveFragment_st v b d)
theorem checkPlaintextPolicies_carry (p : Bytes) : Stable Carry (checkPlaintextPolicies p) :=
  Stable.carry_vp (checkPlaintextPolicies_eb p) (checkPlaintextPolicies_vp p)
theorem receiveErrorMessage_carry (m : Bytes) : Stable Carry (receiveErrorMessage m) :=
  Stable.carry_vp (receiveErrorMessage_eb m) (receiveErrorMessage_vp m)
theorem toSendEncoded_carry (ts : List Bytes) (e : Option Err) : Stable Carry (toSendEncoded ts e) :=
  Stable.carry_vp (toSendEncoded_eb ts e) (toSendEncoded_vp ts e)
theorem withInjects_carry (vms : List Bytes) : Stable Carry (withInjects vms) :=
  Stable.carry_vp (withInjects_eb vms) (withInjects_vp vms)

theorem receiveDecodedCore_carry (K : Crypto) (m : Bytes) : Stable Carry (receiveDecodedCore K m) := by
  unfold receiveDecodedCore
  carry_walk [checkVersion_carry, parseMessageHeader_carry, receiveDataMessage_carry, processAKE_carry,
    msgEventErr_carry]

theorem receiveQueryMessage_carry (K : Crypto) (m : Bytes) : Stable Carry (receiveQueryMessage K m) := by
  unfold receiveQueryMessage
  carry_walk [commitToVersionFrom_carry, sendDHCommit_carry, msgEventErr_carry]

theorem receiveTaggedPlaintext_carry (K : Crypto) (m : Bytes) : Stable Carry (receiveTaggedPlaintext K m) := by
  unfold receiveTaggedPlaintext
  carry_walk [commitToVersionFrom_carry, sendDHCommit_carry, msgEventErr_carry, checkPlaintextPolicies_carry]

/-! ## 4. `receiveDecoded` -/

/-- no key exchange in progress, not encrypted -/
def Low (s : MState) : Prop := authStateOf s.conv = .none ∧ s.conv.msgState ≠ .encrypted

theorem Low.eb {s s' : MState} (h : Low s) (heb : EB s s') : Low s' :=
  ⟨heb.1.elim (fun h' => h'.trans h.1) id, fun he => h.2 (heb.2.1 he)⟩

theorem EmitInv.low {s : MState} (hi : EmitInv s.conv) (hn : s.conv.version = none) : Low s :=
  ⟨hi.auth_none hn, hi.not_enc hn⟩

theorem attempt_inv {α β} {x : M α} {g : α → β} {h : Err → β} {s : MState} {b : β} {s' : MState}
    (hr : runM (tryCatch (do let a ← x; pure (g a)) (fun e => pure (h e))) s = .ok (.ok b, s')) :
    (∃ a, runM x s = .ok (.ok a, s') ∧ b = g a) ∨ (∃ e, runM x s = .ok (.error e, s') ∧ b = h e) := by
  rw [runM_tryCatch, runM_bind] at hr
  cases hx : runM x s with
  | panic p => rw [hx] at hr; cases hr
  | ok v =>
    obtain ⟨v, s1⟩ := v
    rw [hx] at hr
    cases v with
    | ok a =>
      simp only [bindM_ok, runM_pure, catchM_ok, Res.ok.injEq, Prod.mk.injEq, Except.ok.injEq] at hr
      exact Or.inl ⟨a, by rw [hr.2], hr.1.symm⟩
    | error e =>
      simp only [bindM_error, catchM_error, runM_pure, Res.ok.injEq, Prod.mk.injEq, Except.ok.injEq] at hr
      exact Or.inr ⟨e, by rw [hr.2], hr.1.symm⟩

theorem authStateOf_of_toNat {c : Conv} (h : (match c.ake with | some a => a.state.toNat | none => 0) = 0) :
    authStateOf c = .none := by
  unfold authStateOf
  cases ha : c.ake with
  | none => rfl
  | some a =>
    rw [ha] at h
    dsimp only at h ⊢
    cases hs : a.state <;> rw [hs] at h <;> first | rfl | cases h

theorem receiveDecodedCore_emits (K : Crypto) (m : Bytes) (s s1 : MState) (p : Option Bytes) (ts : List Bytes)
    (err : Option Err) (rej : Bool) (hi : EmitInv s.conv)
    (hr : runM (receiveDecodedCore K m) s = .ok (.ok (p, ts, err, rej), s1)) :
    AllVer s1.conv.version ts ∧
    (s.conv.version = none → (err.isSome = true ∨ rej = true) → ts = [] ∧ Low s1) := by
  unfold receiveDecodedCore at hr
  rw [runM_bind, runM_getc, bindM_ok, runM_bind] at hr
  obtain ⟨r1, sA, h1, h2⟩ := bindM_ok_inv hr
  rcases attempt_inv h1 with ⟨_, hA, rfl⟩ | ⟨e, hA, rfl⟩
  · -- the version check passed
    have hcA := checkVersion_carry m s _ sA hA
    have hebA := checkVersion_eb m s _ sA hA
    dsimp only at h2
    rw [runM_bind] at h2
    obtain ⟨r2, sB, h3, h4⟩ := bindM_ok_inv h2
    rcases attempt_inv h3 with ⟨⟨header, body⟩, hB, rfl⟩ | ⟨e, hB, rfl⟩
    · have hcB := parseMessageHeader_carry m sA _ sB hB
      have hebB := EB.trans hebA (parseMessageHeader_eb m sA _ sB hB)
      have hiB : EmitInv sB.conv := hcB.1 (hcA.1 hi)
      dsimp only at h4
      split at h4
      · -- data message
        rw [runM_bind] at h4
        obtain ⟨⟨p', ts', err'⟩, sC, h5, h6⟩ := bindM_ok_inv h4
        simp only [runM_pure, Res.ok.injEq, Prod.mk.injEq, Except.ok.injEq] at h6
        obtain ⟨⟨rfl, rfl, rfl, rfl⟩, rfl⟩ := h6
        have hvC : sC.conv.version = sB.conv.version := vp_version (receiveDataMessage_vp K _ _) h5
        have hebC := EB.trans hebB (receiveDataMessage_eb K _ _ sB _ sC h5)
        refine ⟨?_, fun hn _ => ?_⟩
        · rw [hvC]; exact receiveDataMessage_yields K _ _ _ sB _ sC rfl h5
        · have hl := hi.low hn
          exact ⟨receiveDataMessage_notEncrypted K _ _ sB sC _ _ _ (hl.eb hebB).2 h5, hl.eb hebC⟩
      · -- key exchange message
        rw [runM_bind, runM_getc, bindM_ok, runM_bind] at h4
        obtain ⟨⟨msgs, err'⟩, sC, h5, h6⟩ := bindM_ok_inv h4
        obtain ⟨hiC, hmC⟩ := processAKE_inv2 K _ _ sB sC msgs err' hiB h5
        dsimp only at h6
        have key : s1.conv = sC.conv ∧ ts = msgs ∧ err = err' ∧
            rej = (err'.isNone && msgs.isEmpty &&
              ((match sC.conv.ake with | some a => a.state.toNat | none => 0) ==
                (match sB.conv.ake with | some a => a.state.toNat | none => 0))) := by
          split at h6
          · simp only [msgEventErr, runM_bind, runM_ev, bindM_ok, runM_getc, runM_pure, Res.ok.injEq,
              Prod.mk.injEq, Except.ok.injEq] at h6
            obtain ⟨⟨-, rfl, rfl, rfl⟩, rfl⟩ := h6
            exact ⟨rfl, rfl, rfl, rfl⟩
          · simp only [runM_bind, bindM_ok, runM_getc, runM_pure, Res.ok.injEq,
              Prod.mk.injEq, Except.ok.injEq] at h6
            obtain ⟨⟨-, rfl, rfl, rfl⟩, rfl⟩ := h6
            exact ⟨rfl, rfl, rfl, rfl⟩
        obtain ⟨hDC, rfl, rfl, hrejeq⟩ := key
        refine ⟨by rw [hDC]; exact hmC, fun hn hrej => ?_⟩
        have hlB : Low sB := (hi.low hn).eb hebB
        have hq := processAKE_quiet K _ _ sB _ sC h5 (by rw [hlB.1]; exact not_finishing_none _)
        have hms : sC.conv.msgState = sB.conv.msgState := congrArg Prod.fst hq
        have hmsD : s1.conv.msgState ≠ .encrypted := by rw [hDC, hms]; exact hlB.2
        have h0 : ∀ a, sB.conv.ake = some a → a.state = .none := by
          intro a ha
          have := hlB.1
          unfold authStateOf at this
          rw [ha] at this
          exact this
        cases herr : err with
        | some e =>
          obtain ⟨hm0, hst⟩ := processAKE_none_rejected K _ _ sB sC ts e h0 (herr ▸ h5)
          refine ⟨hm0, ?_, hmsD⟩
          rw [hDC]
          unfold authStateOf
          cases ha : sC.conv.ake with
          | none => rfl
          | some a => exact hst a ha
        | none =>
          rw [herr] at hrej
          rcases hrej with hrej | hrej
          · cases hrej
          · rw [hrejeq, herr] at hrej
            simp only [Option.isNone_none, Bool.true_and, Bool.and_eq_true, beq_iff_eq] at hrej
            refine ⟨List.isEmpty_iff.mp hrej.1, ?_, hmsD⟩
            have hkB : (match sB.conv.ake with | some a => a.state.toNat | none => 0) = 0 := by
              cases ha : sB.conv.ake with
              | none => rfl
              | some a => dsimp only; rw [h0 a ha]; rfl
            have := authStateOf_of_toNat (c := sC.conv) (hrej.2.trans hkB)
            unfold authStateOf at this ⊢
            rw [hDC]; exact this
    · -- header rejected
      simp only [runM_pure, Res.ok.injEq, Prod.mk.injEq, Except.ok.injEq] at h4
      obtain ⟨⟨rfl, rfl, rfl, rfl⟩, rfl⟩ := h4
      have hebB := EB.trans hebA (parseMessageHeader_eb m sA _ sB hB)
      exact ⟨AllVer.nil _, fun hn _ => ⟨rfl, (hi.low hn).eb hebB⟩⟩
  · -- version check failed
    simp only [runM_pure, Res.ok.injEq, Prod.mk.injEq, Except.ok.injEq] at h2
    obtain ⟨⟨rfl, rfl, rfl, rfl⟩, rfl⟩ := h2
    exact ⟨AllVer.nil _, fun hn _ => ⟨rfl, (hi.low hn).eb (checkVersion_eb m s _ sA hA)⟩⟩

theorem EmitInv.congr {c c' : Conv} (h1 : c'.version = c.version) (h2 : c'.policies = c.policies)
    (h3 : c'.ake = c.ake) (h4 : c'.msgState = c.msgState) (hi : EmitInv c) : EmitInv c' := by
  refine ⟨?_, fun v hv => ?_, fun he => ?_⟩
  · have := hi.stored
    unfold StoredVer authStateOf at this ⊢
    rw [h1, h3]; exact this
  · rw [h2]; rw [h1] at hv; exact hi.allowed v hv
  · rw [h1]; rw [h4] at he; exact hi.enc he

theorem receiveDecoded_core (K : Crypto) (m : Bytes) (s : MState) (r : Except Err (Option Bytes × List Bytes × Option Err))
    (s2 : MState) (hr : runM (receiveDecoded K m) s = .ok (r, s2)) :
    Carry s s2 ∧ (EmitInv s.conv → ∀ p ts err, r = .ok (p, ts, err) → AllVer s2.conv.version ts) := by
  unfold receiveDecoded at hr
  rw [runM_bind, runM_getc, bindM_ok, runM_bind] at hr
  rcases bindM_inv hr with ⟨e, h1, rfl⟩ | ⟨⟨p, ts, err, rej⟩, s1, h1, h2⟩
  · exact ⟨receiveDecodedCore_carry K m s _ s2 h1, fun _ p ts err h => by cases h⟩
  · have hc1 := receiveDecodedCore_carry K m s _ s1 h1
    dsimp only at h2
    split at h2
    · -- the roll-back
      simp only [runM_bind, runM_modc, bindM_ok, runM_pure, Res.ok.injEq, Prod.mk.injEq] at h2
      obtain ⟨rfl, rfl⟩ := h2
      rename_i hcond
      cases hv0 : s.conv.version with
      | some v =>
        refine ⟨⟨fun hi => ?_, hc1.2.1, hc1.2.2⟩, fun hi p' ts' err' h => ?_⟩
        · exact EmitInv.congr (c := s1.conv)
            (by simp only [hv0, Option.isNone_some, Bool.false_eq_true, if_false]) rfl rfl rfl (hc1.1 hi)
        · simp only [Except.ok.injEq, Prod.mk.injEq] at h
          obtain ⟨-, rfl, -⟩ := h
          simp only [hv0, Option.isNone_some, Bool.false_eq_true, if_false]
          exact (receiveDecodedCore_emits K m s s1 p ts err rej hi h1).1
      | none =>
        have hcond' : err.isSome = true ∨ rej = true := by
          simpa only [Bool.or_eq_true] using hcond
        refine ⟨⟨fun hi => ?_, hc1.2.1, hc1.2.2⟩, fun hi p' ts' err' h => ?_⟩
        · obtain ⟨-, hlow⟩ := (receiveDecodedCore_emits K m s s1 p ts err rej hi h1).2 hv0 hcond'
          refine ⟨?_, fun v hv => ?_, fun he => absurd he hlow.2⟩
          · have h0 : authStateOf s1.conv = .none := hlow.1
            unfold StoredVer
            unfold authStateOf at h0 ⊢
            dsimp only
            rw [h0]; trivial
          · simp only [hv0, Option.isNone_none, if_true, reduceCtorEq] at hv
        · simp only [Except.ok.injEq, Prod.mk.injEq] at h
          obtain ⟨-, rfl, -⟩ := h
          rw [((receiveDecodedCore_emits K m s s1 p ts err rej hi h1).2 hv0 hcond').1]
          exact AllVer.nil _
    · simp only [runM_bind, runM_pure, bindM_ok, Res.ok.injEq, Prod.mk.injEq] at h2
      obtain ⟨rfl, rfl⟩ := h2
      refine ⟨hc1, fun hi p' ts' err' h => ?_⟩
      simp only [Except.ok.injEq, Prod.mk.injEq] at h
      obtain ⟨-, rfl, -⟩ := h
      exact (receiveDecodedCore_emits K m s s1 p ts err rej hi h1).1

theorem receiveDecoded_carry (K : Crypto) (m : Bytes) : Stable Carry (receiveDecoded K m) :=
  fun s r s' hr => (receiveDecoded_core K m s r s' hr).1

/-! ## 5. every `Receive` keeps the invariant -/

theorem finish_carry (cond : Prop) [Decidable cond] (plain : Option Bytes) (toSend : List Bytes) (err : Option Err) :
    Stable Carry (if cond then do
          modc fun c => { c with fragCtx := FragCtx.empty }
          let enc ← toSendEncoded toSend err
          let l ← withInjects enc
          pure ({ plain := plain, toSend := l, err := err } : RecvResult)
        else do
          let enc ← toSendEncoded toSend err
          let l ← withInjects enc
          pure ({ plain := plain, toSend := l, err := err } : RecvResult)) := by
  carry_walk [toSendEncoded_carry, withInjects_carry]

/-- as `carry_walk`, the given lemmas first (so that the inlined `finish` is closed in one step) -/
syntax "carry_walk2" "[" term,* "]" : tactic
macro_rules
  | `(tactic| carry_walk2 [$ls,*]) => do
    let tacs ← ls.getElems.mapM fun l => `(tactic| with_reducible apply $l)
    `(tactic| repeat' (first
      | exact Stable.pure _ | exact Stable.throw _ | exact Stable.getc
      $[| $tacs:tactic]*
      | with_reducible apply Stable.bind | with_reducible apply Stable.tryCatch
      | with_reducible apply Stable.ite
      | carry_leaf
      | with_reducible intro _ | split | dsimp only))

theorem receiveUnit_carry (K : Crypto) : ∀ (fuel : Nat) (m : Bytes) (fg : Bool), Stable Carry (receiveUnit K fuel m fg) := by
  intro fuel
  induction fuel with
  | zero =>
    intro m fg
    rw [receiveUnit]
    carry_walk []
  | succ fuel ih =>
    intro m fg
    rw [receiveUnit]
    refine Stable.bind Stable.getc fun c => ?_
    split
    · exact Stable.pure _
    · dsimp only
      split
      all_goals
        carry_walk2 [finish_carry, ih, receiveFragment_carry, receiveDecoded_carry, receiveQueryMessage_carry,
          receiveTaggedPlaintext_carry, receiveErrorMessage_carry, withInjects_carry, checkPlaintextPolicies_carry,
          toSendEncoded_carry, msgEvent_carry]

theorem receive_carry (K : Crypto) (m : Bytes) : Stable Carry (receive K m) :=
  receiveUnit_carry K _ m true


end Otr
