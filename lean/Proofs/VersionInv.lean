/-
  Proofs.VersionInv — property C16 at the level of whole API histories: "a conversation never emits, and never
  acts on, a message of a version its policy forbids".

  §1  (in Proofs.VersionVP) the frame `VPFrame` (protocol version and policies unchanged) and a walk through every
      function of the model that does not choose a version;
  §2  the frame `VerF` (policies unchanged; a version that is set afterwards was set before, or is allowed by the
      policy) for the functions that do: `commitToVersionFrom`, `checkVersion`, `parseFragmentPrefix`,
      `receiveFragment`, `receiveDecoded`, `receiveQueryMessage`, `receiveTaggedPlaintext`, `receiveUnit`;
  §3  the frame `Sticky v` (a conversation committed to `v` stays committed to `v`), with the two places where the
      model takes a version back (`receiveFragment`, `receiveDecoded`) treated from the state before the call;
  §4  the API level: `apiCall_policies_const`, `apiCall_version`, `runApi_version`, `api_version_allowed`,
      `api_version_sticky`, `api_disabled_*`.
-/
import Proofs.VersionVP
set_option linter.unusedSimpArgs false
set_option linter.unusedVariables false
namespace Otr

/-! ## 2. frames that contain the version-neutral steps; the functions that choose a version -/

/-- `R` contains every step that leaves version and policies alone -/
class VPre (R : MState → MState → Prop) : Prop where
  ofVP : ∀ {s s'}, VPFrame s s' → R s s'

theorem Stable.ofVP {α} {R : MState → MState → Prop} [VPre R] {x : M α} (h : Stable VPFrame x) : Stable R x :=
  Stable.mono (fun _ _ => VPre.ofVP) h

macro "vr_core" : tactic => `(tactic| first
  | exact Stable.pure _ | exact Stable.throw _ | exact Stable.goPanic _
  | exact Stable.getc | exact Stable.get | exact Stable.now
  | exact Stable.ofVP (by vp_leaf)
  | with_reducible apply Stable.bind | with_reducible apply Stable.tryCatch
  | with_reducible apply Stable.ite | with_reducible apply Stable.map
  | with_reducible apply Stable.forIn)

syntax "vr_walk" "[" term,* "]" : tactic
macro_rules
  | `(tactic| vr_walk [$ls,*]) => do
    let tacs ← ls.getElems.mapM fun l => `(tactic| with_reducible apply $l)
    `(tactic| repeat' (first | vr_core $[| $tacs:tactic]* | with_reducible intro _ | split | dsimp only))

section Generic
variable {R : MState → MState → Prop} [Frame R] [VPre R]

omit [VPre R] in
theorem checkVersion_vr (hc : ∀ vs, Stable R (commitToVersionFrom vs)) (m : Bytes) : Stable R (checkVersion m) := by
  unfold checkVersion; vr_walk [hc]

theorem parseFragmentPrefix_vr (hc : ∀ vs, Stable R (commitToVersionFrom vs)) (d : Bytes) :
    Stable R (parseFragmentPrefix d) := by
  unfold parseFragmentPrefix; vr_walk [hc, (verifyInstanceTags_vp _ _).ofVP]

theorem receiveDecodedCore_vr (hc : ∀ vs, Stable R (commitToVersionFrom vs)) (K : Crypto) (m : Bytes) :
    Stable R (receiveDecodedCore K m) := by
  unfold receiveDecodedCore
  vr_walk [checkVersion_vr hc, (parseMessageHeader_vp _).ofVP, (receiveDataMessage_vp _ _ _).ofVP,
    (processAKE_vp _ _ _).ofVP, (msgEventErr_vp _).ofVP]

theorem receiveQueryMessage_vr (hc : ∀ vs, Stable R (commitToVersionFrom vs)) (K : Crypto) (m : Bytes) :
    Stable R (receiveQueryMessage K m) := by
  unfold receiveQueryMessage
  vr_walk [hc, (sendDHCommit_vp _).ofVP, (msgEventErr_vp _).ofVP]

theorem receiveTaggedPlaintext_vr (hc : ∀ vs, Stable R (commitToVersionFrom vs)) (K : Crypto) (m : Bytes) :
    Stable R (receiveTaggedPlaintext K m) := by
  unfold receiveTaggedPlaintext
  vr_walk [hc, (sendDHCommit_vp _).ofVP, (msgEventErr_vp _).ofVP, (checkPlaintextPolicies_vp _).ofVP]

omit [Frame R] in
/-- the local function `finish` of `receiveUnit` -/
theorem finish_vr (cond : Prop) [Decidable cond] (plain : Option Bytes) (toSend : List Bytes) (err : Option Err) :
    Stable R (if cond then do
          modc fun c => { c with fragCtx := FragCtx.empty }
          let enc ← toSendEncoded toSend err
          let l ← withInjects enc
          pure ({ plain := plain, toSend := l, err := err } : RecvResult)
        else do
          let enc ← toSendEncoded toSend err
          let l ← withInjects enc
          pure ({ plain := plain, toSend := l, err := err } : RecvResult)) := by
  refine Stable.ofVP ?_
  vp_walk [toSendEncoded_vp, withInjects_vp]

set_option maxHeartbeats 400000 in
theorem receiveUnit_vr (hc : ∀ vs, Stable R (commitToVersionFrom vs))
    (hf : ∀ b d, Stable R (receiveFragment b d)) (hd : ∀ K m, Stable R (receiveDecoded K m)) (K : Crypto) :
    ∀ (fuel : Nat) (m : Bytes) (fg : Bool), Stable R (receiveUnit K fuel m fg) := by
  intro fuel
  induction fuel with
  | zero =>
    intro m fg
    rw [receiveUnit]
    vr_walk []
  | succ fuel ih =>
    intro m fg
    rw [receiveUnit]
    refine Stable.bind Stable.getc fun c => ?_
    split
    · exact Stable.pure _
    · dsimp only
      split
      all_goals
        vr_walk [finish_vr, ih, hf, hd, receiveQueryMessage_vr hc, receiveTaggedPlaintext_vr hc,
          (receiveErrorMessage_vp _).ofVP, (withInjects_vp _).ofVP, (checkPlaintextPolicies_vp _).ofVP,
          (toSendEncoded_vp _ _).ofVP, (msgEvent_vp _).ofVP]

end Generic

/-! ### `VerF`: the policies stay; a version that is set was set before or is allowed -/

/-- does the policy allow the protocol version? -/
def allowsVersion (p : Policies) : Version → Bool
  | .v2 => polHas p allowV2
  | .v3 => polHas p allowV3

def VerF (s s' : MState) : Prop :=
  s'.conv.policies = s.conv.policies ∧
  ∀ v, s'.conv.version = some v → s.conv.version = some v ∨ allowsVersion s.conv.policies v = true

instance : Frame VerF where
  refl _ := ⟨rfl, fun _ h => Or.inl h⟩
  trans {a b c} h1 h2 := ⟨h2.1.trans h1.1, fun v hv => by
    rcases h2.2 v hv with h | h
    · exact h1.2 v h
    · rw [h1.1] at h; exact Or.inr h⟩

instance : VPre VerF where
  ofVP {s s'} h := by
    have h2 : (s'.conv.version, s'.conv.policies) = (s.conv.version, s.conv.policies) := h
    simp only [Prod.mk.injEq] at h2
    exact ⟨h2.2, fun v hv => Or.inl (by rw [← h2.1]; exact hv)⟩

theorem allowsVersion_of_choose {p : Policies} {vs : Nat} {v : Version} (h : chooseVersion p vs = some v) :
    allowsVersion p v = true := by
  have hs := chooseVersion_sound _ _ _ h
  cases v with
  | v2 => exact (hs.2 rfl).1
  | v3 => exact (hs.1 rfl).1

theorem commitToVersionFrom_verF (vs : Nat) : Stable VerF (commitToVersionFrom vs) := by
  intro s r s' h
  rw [commitToVersionFrom_run] at h
  cases hv : s.conv.version with
  | some v =>
    simp only [hv, Res.ok.injEq, Prod.mk.injEq] at h
    rw [← h.2]; exact Frame.refl s
  | none =>
    simp only [hv] at h
    cases hc : chooseVersion s.conv.policies vs with
    | none =>
      simp only [hc, Res.ok.injEq, Prod.mk.injEq] at h
      rw [← h.2]; exact Frame.refl s
    | some v =>
      have ha := allowsVersion_of_choose hc
      simp only [hc] at h
      cases hk : s.conv.ourKeys with
      | nil =>
        simp only [hk, Res.ok.injEq, Prod.mk.injEq] at h
        rw [← h.2]
        exact ⟨rfl, fun w hw => Or.inr (by cases hw; exact ha)⟩
      | cons k ks =>
        simp only [hk, Res.ok.injEq, Prod.mk.injEq] at h
        rw [← h.2]
        exact ⟨rfl, fun w hw => Or.inr (by cases hw; exact ha)⟩

/-- taking back a version (or not) is a `VerF` step, whatever the state `c0` the decision is based on -/
theorem unbind_verF (c0 : Conv) : Stable VerF (modc fun c =>
    { c with version := if c0.version.isNone then none else c.version,
             ourCurrentKey := if c0.version.isNone then c0.ourCurrentKey else c.ourCurrentKey,
             theirTag := c0.theirTag }) := by
  refine Stable.modc _ (fun s => ⟨rfl, fun v hv => Or.inl ?_⟩)
  dsimp only at hv
  split at hv
  · cases hv
  · exact hv

theorem receiveFragment_verF (b : FragCtx) (d : Bytes) : Stable VerF (receiveFragment b d) := by
  unfold receiveFragment
  vr_walk [parseFragmentPrefix_vr commitToVersionFrom_verF, unbind_verF, (msgEvent_vp _).ofVP]

theorem receiveDecoded_verF (K : Crypto) (m : Bytes) : Stable VerF (receiveDecoded K m) := by
  unfold receiveDecoded
  vr_walk [receiveDecodedCore_vr commitToVersionFrom_verF, unbind_verF]

theorem receive_verF (K : Crypto) (m : Bytes) : Stable VerF (receive K m) :=
  receiveUnit_vr commitToVersionFrom_verF receiveFragment_verF receiveDecoded_verF K _ m true

/-! ## 3. `St v`: a conversation committed to `v` stays committed to `v` -/

def St (v : Version) (s s' : MState) : Prop := s.conv.version = some v → s'.conv.version = some v

instance (v : Version) : Frame (St v) where
  refl _ := id
  trans h1 h2 := fun h => h2 (h1 h)

instance (v : Version) : VPre (St v) where
  ofVP {s s'} h := by
    have h2 : (s'.conv.version, s'.conv.policies) = (s.conv.version, s.conv.policies) := h
    simp only [Prod.mk.injEq] at h2
    intro hv; rw [h2.1]; exact hv

theorem commitToVersionFrom_st (v : Version) (vs : Nat) : Stable (St v) (commitToVersionFrom vs) := by
  intro s r s' h hv
  rw [commitToVersionFrom_sticky vs s v hv] at h
  simp only [Res.ok.injEq, Prod.mk.injEq] at h
  rw [← h.2]; exact hv

/-- the step that takes a version back does nothing to it when the decision is based on a committed state -/
theorem unbind_st (v : Version) (c0 : Conv) (h0 : c0.version = some v) : Stable (St v) (modc fun c =>
    { c with version := if c0.version.isNone then none else c.version,
             ourCurrentKey := if c0.version.isNone then c0.ourCurrentKey else c.ourCurrentKey,
             theirTag := c0.theirTag }) := by
  refine Stable.modc _ (fun s hv => ?_)
  simp only [h0, Option.isNone_some, Bool.false_eq_true, if_false]
  exact hv

theorem receiveFragment_st (v : Version) (b : FragCtx) (d : Bytes) : Stable (St v) (receiveFragment b d) := by
  intro s r s' h hv
  unfold receiveFragment at h
  rw [runM_bind, runM_getc, bindM_ok] at h
  refine (?_ : Stable (St v) _) s r s' h hv
  vr_walk [parseFragmentPrefix_vr (commitToVersionFrom_st v), unbind_st v s.conv hv, (msgEvent_vp _).ofVP]

theorem receiveDecoded_st (v : Version) (K : Crypto) (m : Bytes) : Stable (St v) (receiveDecoded K m) := by
  intro s r s' h hv
  unfold receiveDecoded at h
  rw [runM_bind, runM_getc, bindM_ok] at h
  refine (?_ : Stable (St v) _) s r s' h hv
  vr_walk [receiveDecodedCore_vr (commitToVersionFrom_st v), unbind_st v s.conv hv]

theorem receive_st (v : Version) (K : Crypto) (m : Bytes) : Stable (St v) (receive K m) :=
  receiveUnit_vr (commitToVersionFrom_st v) (receiveFragment_st v) (receiveDecoded_st v) K _ m true

/-! ## 4. whole API calls and sequences of them -/

/-- every API call respects every frame that contains the version-neutral steps and `receive` -/
theorem apiCall_vr {R : MState → MState → Prop} [Frame R] [VPre R] (K : Crypto)
    (hr : ∀ m, Stable R (receive K m)) (call : ApiCall) : Stable R (call.run K) := by
  cases call with
  | receive m => exact Stable.bind (hr m) (fun _ => Stable.pure _)
  | send m => exact Stable.bind (send_vp K m).ofVP (fun _ => Stable.pure _)
  | endSession => exact Stable.bind (endSession_vp K).ofVP (fun _ => Stable.pure _)
  | smpStart q sec => exact Stable.bind (startAuthenticate_vp K q sec).ofVP (fun _ => Stable.pure _)
  | smpSecret sec => exact Stable.bind (provideAuthenticationSecret_vp K sec).ofVP (fun _ => Stable.pure _)
  | smpAbort => exact Stable.bind (abortAuthentication_vp K).ofVP (fun _ => Stable.pure _)
  | extraKey u d => exact Stable.bind (useExtraSymmetricKey_vp K u d).ofVP (fun _ => Stable.pure _)
  | sendTlvs text flag tlvs =>
    exact Stable.bind (createSerializedDataMessage_vp K text flag tlvs).ofVP (fun _ => Stable.pure _)
  | setFragmentSize n =>
    exact Stable.ofVP (show Stable VPFrame (modc fun c => { c with fragmentSize := n }) from
      Stable.modc _ (fun _ => rfl))

/-- the version rule of one step: the policies stay; a committed version stays; an uncommitted conversation stays
    uncommitted or commits to a version its policy allows -/
def VStep (c c' : Conv) : Prop :=
  c'.policies = c.policies ∧ (∀ v, c.version = some v → c'.version = some v) ∧
  (c.version = none → ∀ v, c'.version = some v → allowsVersion c.policies v = true)

theorem VStep.refl (c : Conv) : VStep c c := ⟨rfl, fun _ h => h, fun h v hv => by rw [h] at hv; cases hv⟩

theorem VStep.trans {a b c : Conv} (h1 : VStep a b) (h2 : VStep b c) : VStep a c := by
  refine ⟨h2.1.trans h1.1, fun v hv => h2.2.1 v (h1.2.1 v hv), fun ha v hv => ?_⟩
  cases hb : b.version with
  | none => rw [← h1.1]; exact h2.2.2 hb v hv
  | some w =>
    have hvw : w = v := by
      have := h2.2.1 w hb
      rw [this] at hv; exact Option.some.inj hv
    subst hvw
    exact h1.2.2 ha w hb

/-- **policies never change**: no API call, whatever its arguments and environment, touches the policies -/
theorem apiCall_policies_const (K : Crypto) (call : ApiCall) (s : MState) (r : Except Err Unit) (s' : MState)
    (h : runM (call.run K) s = .ok (r, s')) : s'.conv.policies = s.conv.policies :=
  (apiCall_vr K (receive_verF K) call s r s' h).1

/-- **one API call**: the version rule `VStep` holds between the conversation before and after -/
theorem apiCall_version (K : Crypto) (call : ApiCall) (s : MState) (r : Except Err Unit) (s' : MState)
    (h : runM (call.run K) s = .ok (r, s')) : VStep s.conv s'.conv := by
  have h1 := apiCall_vr K (receive_verF K) call s r s' h
  refine ⟨h1.1, fun v hv => apiCall_vr K (receive_st v K) call s r s' h hv, fun hn v hv => ?_⟩
  rcases h1.2 v hv with h2 | h2
  · rw [hn] at h2; cases h2
  · exact h2

/-- sequences of API calls: the version rule is transitive -/
theorem runApi_version (K : Crypto) (steps : List ApiStep) : ∀ (c c' : Conv), runApi K c steps = .ok c' → VStep c c' := by
  induction steps with
  | nil => intro c c' h; simp only [runApi, Res.ok.injEq] at h; rw [← h]; exact VStep.refl c
  | cons st rest ih =>
    intro c c' h
    unfold runApi at h
    cases hr : runM (st.call.run K) { conv := c, env := st.env } with
    | panic site => rw [hr] at h; cases h
    | ok x =>
      obtain ⟨r, s'⟩ := x
      rw [hr] at h
      exact VStep.trans (apiCall_version K st.call _ r s' hr) (ih _ _ h)

theorem runApi_app (K : Crypto) (xs ys : List ApiStep) : ∀ c : Conv,
    runApi K c (xs ++ ys) = match runApi K c xs with | .ok c1 => runApi K c1 ys | .panic p => .panic p := by
  induction xs with
  | nil => intro c; rfl
  | cons st rest ih =>
    intro c
    simp only [List.cons_append, runApi]
    cases runM (st.call.run K) { conv := c, env := st.env } with
    | panic site => rfl
    | ok x => exact ih _

/-- the policy allows the version the conversation is committed to, if any -/
def VersionAllowed (c : Conv) : Prop := ∀ v, c.version = some v → allowsVersion c.policies v = true

theorem versionAllowed_iff_versionOK (c : Conv) : VersionAllowed c ↔ VersionOK c := by
  unfold VersionAllowed VersionOK
  constructor
  · intro h v hv
    have := h v hv
    constructor
    · rintro rfl; exact this
    · rintro rfl; exact this
  · intro h v hv
    cases v with
    | v2 => exact (h _ hv).2 rfl
    | v3 => exact (h _ hv).1 rfl

theorem VStep.allowed {c c' : Conv} (h : VStep c c') (hc : VersionAllowed c) : VersionAllowed c' := by
  intro v hv
  rw [h.1]
  cases hc0 : c.version with
  | none => exact h.2.2 hc0 v hv
  | some w =>
    have hvw : w = v := by
      have := h.2.1 w hc0
      rw [this] at hv; exact Option.some.inj hv
    subst hvw
    exact hc w hc0

/-! ## 5. a message of a version the conversation may not speak is not acted upon -/

/-- what `Receive` does to the state when it refuses a message before looking at it: pending fragments are
    forgotten and the queued injections (error replies) are handed out -/
def refusedState (s : MState) : MState :=
  { s with conv := { s.conv with fragCtx := FragCtx.empty, injections := [] } }

/-- is the message one of the five armoured kinds (`?OTR:AA[MI][CKRS]`, `?OTR:AA[EIM]D`)? -/
def isArmoured (m : Bytes) : Bool :=
  match guessMessageType m with
  | .dhCommit | .dhKey | .revealSig | .signature | .data => true
  | _ => false

theorem receiveDecoded_refused_of_checkVersion (K : Crypto) (msg : Bytes) (s : MState) (e : Err)
    (h : runM (checkVersion msg) s = .ok (.error e, s)) :
    runM (receiveDecoded K msg) s = .ok (.ok (none, [], some e), s) := by
  unfold receiveDecoded receiveDecodedCore
  simp only [runM_bind, runM_getc, bindM_ok, runM_tryCatch, h, bindM_error, catchM_error, runM_pure,
    Option.isSome_some, Bool.true_or, if_true, runM_modc, Res.ok.injEq, Prod.mk.injEq, true_and]
  cases hv : s.conv.version <;> simp [hv] <;>
    (obtain ⟨c, env, evs, mm⟩ := s; cases c; simp only at hv; subst hv; rfl)

/-- the tail of `receiveUnit` for an armoured message that `receiveDecoded` refuses with `e` without a state change -/
theorem receive_refused_of_decoded (K : Crypto) (m decoded : Bytes) (s : MState) (e : Err)
    (hen : isOTREnabled s.conv.policies = true) (hg : isArmoured m = true)
    (hd : decodeEnvelope m = some decoded) (he : e ≠ .otherInstance)
    (h : runM (receiveDecoded K decoded) s = .ok (.ok (none, [], some e), s)) :
    runM (receive K m) s = .ok (.ok ⟨none, s.conv.injections, some e⟩, refusedState s) := by
  have hne : (some e == some Err.otherInstance) = false := by
    cases e <;> first | rfl | exact absurd rfl he | decide
  unfold receive
  rw [receiveUnit]
  unfold isArmoured at hg
  simp only [runM_bind, runM_getc, bindM_ok, hen, Bool.not_true, Bool.false_eq_true, if_false]
  split at hg <;> first | cases hg | skip
  all_goals
    rename_i hgm
    simp only [hgm, hd, runM_bind, h, bindM_ok, hne, Bool.false_eq_true, if_false, Bool.and_self, if_true,
      runM_modc, toSendEncoded, Option.isSome_some, runM_pure, withInjects, runM_getc, List.nil_append, refusedState]

/-- **(3), uncommitted conversation.**  A conversation without a version whose policy forbids the version `w`
    in the header of an armoured (non-fragment) message does not act on it: `errUnsupportedOTRVersion`, no
    plaintext, nothing to send beyond the injections that were already queued, no event; of the state only the
    pending fragments (forgotten) and the injection queue (handed out) change -/
theorem receive_acts_only_on_allowed_version_partial (K : Crypto) (m : Bytes) (a b : UInt8) (rest : Bytes)
    (s : MState) (hen : isOTREnabled s.conv.policies = true) (hg : isArmoured m = true)
    (hd : decodeEnvelope m = some (a :: b :: rest)) (hv : s.conv.version = none)
    (h3 : de16 a b = 3 → polHas s.conv.policies allowV3 = false)
    (h2 : de16 a b = 2 → polHas s.conv.policies allowV2 = false) :
    runM (receive K m) s =
      .ok (.ok ⟨none, s.conv.injections, some .unsupportedVersion⟩, refusedState s) :=
  receive_refused_of_decoded K m _ s _ hen hg hd (by decide)
    (receiveDecoded_refused_of_checkVersion K _ s _ (checkVersion_forbidden a b rest s hv h3 h2))

/-- **(3), committed conversation.**  A conversation committed to `v` does not act on an armoured message whose
    header carries another version: `errWrongProtocolVersion`, otherwise as above -/
theorem receive_wrong_version (K : Crypto) (m : Bytes) (a b : UInt8) (rest : Bytes) (v : Version)
    (s : MState) (hen : isOTREnabled s.conv.policies = true) (hg : isArmoured m = true)
    (hd : decodeEnvelope m = some (a :: b :: rest)) (hv : s.conv.version = some v) (hw : v.num ≠ de16 a b) :
    runM (receive K m) s = .ok (.ok ⟨none, s.conv.injections, some .wrongVersion⟩, refusedState s) :=
  receive_refused_of_decoded K m _ s _ hen hg hd (by decide)
    (receiveDecoded_refused_of_checkVersion K _ s _ (by rw [checkVersion_committed a b rest s v hv, if_neg hw]))

/-! ## 6. the theorems over whole API histories -/

/-- **(1) every reachable state, from any conversation.**  Whatever sequence of API calls is run from a
    conversation whose version (if any) its policy allows, the policies are the same at the end and the version
    (if any) is allowed -/
theorem runApi_version_allowed (K : Crypto) (steps : List ApiStep) (c c' : Conv) (hc : VersionAllowed c)
    (h : runApi K c steps = .ok c') : c'.policies = c.policies ∧ VersionAllowed c' :=
  ⟨(runApi_version K steps c c' h).1, (runApi_version K steps c c' h).allowed hc⟩

/-- **(1) from a fresh conversation**: every sequence of API calls ends (no panic: Proofs.NoPanic), the policies
    are those the conversation was created with, and the version, if the conversation has one, is allowed -/
theorem api_version_allowed (K : Crypto) (hK : CryptoOK K) (version : Option Version) (policies : Policies)
    (keys : List DsaPub) (fragmentSize : Nat) (errHandler : Bool) (friendlyQuery : Bytes) (ourTag : Nat)
    (hpre : ∀ v, version = some v → allowsVersion policies v = true) (steps : List ApiStep) :
    ∃ c', runApi K (freshConv version policies keys fragmentSize errHandler friendlyQuery ourTag) steps = .ok c' ∧
      c'.policies = policies ∧ (∀ v, c'.version = some v → allowsVersion policies v = true) ∧ VersionOK c' := by
  obtain ⟨c', hr, -⟩ := api_sequence_no_panic_fresh K hK version policies keys fragmentSize errHandler
    friendlyQuery ourTag steps
  obtain ⟨hp, ha⟩ := runApi_version_allowed K steps _ c' (fun v hv => hpre v hv) hr
  refine ⟨c', hr, hp, fun v hv => ?_, (versionAllowed_iff_versionOK c').1 ha⟩
  have := ha v hv
  rw [hp] at this
  exact this

/-- **(2) the exact rule, any conversation.**  Between any two points of any API history (`c1` after `pre`, `c2`
    after the further calls `post`): a version `c1` is committed to is the version of `c2` — no call resets it
    (not `End`, not a rejected message, not a disconnect) or replaces it —; and if `c1` has none, `c2` has none
    or one the policy allows -/
theorem runApi_version_sticky (K : Crypto) (c c1 c2 : Conv) (pre post : List ApiStep)
    (h1 : runApi K c pre = .ok c1) (h2 : runApi K c1 post = .ok c2) :
    runApi K c (pre ++ post) = .ok c2 ∧ (∀ v, c1.version = some v → c2.version = some v) ∧
    (c1.version = none → ∀ v, c2.version = some v → allowsVersion c.policies v = true) := by
  have hs := runApi_version K post c1 c2 h2
  refine ⟨by rw [runApi_app, h1]; exact h2, hs.2.1, fun hn v hv => ?_⟩
  rw [← (runApi_version K pre c c1 h1).1]
  exact hs.2.2 hn v hv

/-- **(2) from a fresh conversation** (with the guarantee that every history ends) -/
theorem api_version_sticky (K : Crypto) (hK : CryptoOK K) (version : Option Version) (policies : Policies)
    (keys : List DsaPub) (fragmentSize : Nat) (errHandler : Bool) (friendlyQuery : Bytes) (ourTag : Nat)
    (pre post : List ApiStep) :
    ∃ c1 c2,
      runApi K (freshConv version policies keys fragmentSize errHandler friendlyQuery ourTag) pre = .ok c1 ∧
      runApi K c1 post = .ok c2 ∧
      runApi K (freshConv version policies keys fragmentSize errHandler friendlyQuery ourTag) (pre ++ post) = .ok c2 ∧
      (∀ v, c1.version = some v → c2.version = some v) ∧
      (c1.version = none → ∀ v, c2.version = some v → allowsVersion policies v = true) := by
  obtain ⟨c1, h1, -⟩ := api_sequence_no_panic_fresh K hK version policies keys fragmentSize errHandler
    friendlyQuery ourTag pre
  obtain ⟨c2, h2, -⟩ := api_sequence_no_panic_fresh K hK version policies keys fragmentSize errHandler
    friendlyQuery ourTag (pre ++ post)
  have h12 : runApi K c1 post = .ok c2 := by
    rw [runApi_app, h1] at h2; exact h2
  obtain ⟨-, hs, hn⟩ := runApi_version_sticky K _ c1 c2 pre post h1 h12
  exact ⟨c1, c2, h1, h12, h2, hs, hn⟩

/-- **(5) no version allowed.**  If the policy allows no version, then after ANY sequence of API calls every
    `Receive` hands its argument through as plaintext with nothing to send, every `Send` returns its argument as
    the only message, and neither changes anything (state, events) -/
theorem api_disabled (K : Crypto) (c c1 : Conv) (hp : isOTREnabled c.policies = false) (pre : List ApiStep)
    (h : runApi K c pre = .ok c1) (m : Bytes) (s : MState) (hs : s.conv = c1) :
    runM (receive K m) s = .ok (.ok ⟨some m, [], none⟩, s) ∧ runM (send K m) s = .ok (.ok ([m], none), s) := by
  have hp1 : isOTREnabled s.conv.policies = false := by
    rw [hs, (runApi_version K pre c c1 h).1]; exact hp
  exact ⟨receive_disabled K m s hp1, send_disabled K m s hp1⟩

/-- (5), the call inside a sequence: a `Receive`/`Send` step anywhere in a history of a conversation whose policy
    allows no version leaves the conversation as it is -/
theorem api_disabled_step (K : Crypto) (c c1 : Conv) (hp : isOTREnabled c.policies = false) (pre : List ApiStep)
    (h : runApi K c pre = .ok c1) (m : Bytes) (env : Env) (post : List ApiStep) :
    runApi K c (pre ++ ⟨.receive m, env⟩ :: post) = runApi K c1 post ∧
    runApi K c (pre ++ ⟨.send m, env⟩ :: post) = runApi K c1 post := by
  obtain ⟨hr, hs⟩ := api_disabled K c c1 hp pre h m { conv := c1, env := env } rfl
  constructor
  · rw [runApi_app, h]
    simp only [runApi, ApiCall.run, runM_bind, hr, bindM_ok, runM_pure]
  · rw [runApi_app, h]
    simp only [runApi, ApiCall.run, runM_bind, hs, bindM_ok, runM_pure]

/-! ## 7. the hypotheses are satisfiable; the cases of the rule occur -/

/-- constant cryptography for the examples -/
def vCrypto : Crypto where
  hash1 := fun _ => []
  hash2 := fun _ => []
  mac1 := fun _ _ => []
  mac2 := fun _ _ => []
  ctr := fun _ _ _ => none
  gexp := fun _ _ => 1
  modInv := fun _ _ => none
  dsaVerify := fun _ _ _ _ => false

/-- a fresh conversation allowing OTRv2 and OTRv3, with one long-term key -/
def vFresh23 : Conv := { policies := allowV2 + allowV3, ourKeys := [⟨7, 3, 2, 4⟩] }
/-- a fresh conversation allowing OTRv2 only -/
def vFresh2 : Conv := { policies := allowV2, ourKeys := [⟨7, 3, 2, 4⟩] }

/-- the randomness a DH-Commit message draws: secret exponent, r, instance tag -/
def vEnv : Env := { rand := [some (List.replicate 40 1), some (List.replicate 16 1), some [0, 0, 1, 0]] }

def vQuery23 : ApiStep := ⟨.receive (strBytes "?OTRv23?"), vEnv⟩

/-- a v3 DH-Commit message without a body, `?OTR:AAMC.` -/
def vCommitV3 : Bytes := strBytes "?OTR:AAMC."

def resCheck {α} (x : Res α) (p : α → Bool) : Bool :=
  match x with
  | .ok a => p a
  | .panic _ => false

/-- `VersionAllowed` holds of every conversation without a version, and of preset ones the policy allows -/
example : VersionAllowed vFresh23 := fun v hv => by cases hv
example : VersionAllowed { vFresh2 with version := some .v2 } := fun v hv => by cases hv; decide
/-- … and fails when a version is preset that the policy forbids (the hypothesis is not void) -/
example : ¬ VersionAllowed { vFresh2 with version := some .v3 } := fun h => by
  have := h .v3 rfl
  revert this; decide

/-- rule, case "none → allowed": a query message offering 2 and 3 commits the fresh conversation to OTRv3 -/
example : resCheck (runApi vCrypto vFresh23 [vQuery23]) (fun c => c.version == some .v3) = true := by
  decide +kernel

/-- rule, case "committed stays": `End` and a later query message offering only version 2 leave OTRv3 in place -/
example : resCheck (runApi vCrypto vFresh23 [vQuery23, ⟨.endSession, {}⟩, ⟨.receive (strBytes "?OTRv2?"), vEnv⟩])
    (fun c => c.version == some .v3) = true := by
  decide +kernel

/-- rule, case "none stays none": the v3 DH-Commit message is refused by the v2-only conversation -/
example : resCheck (runApi vCrypto vFresh2 [⟨.receive vCommitV3, vEnv⟩]) (fun c => c.version == none) = true := by
  decide +kernel

/-- the hypotheses of `receive_acts_only_on_allowed_version_partial` hold for that message and conversation -/
example : runM (receive vCrypto vCommitV3) ⟨vFresh2, vEnv, [], []⟩ =
    .ok (.ok ⟨none, [], some .unsupportedVersion⟩, refusedState ⟨vFresh2, vEnv, [], []⟩) :=
  receive_acts_only_on_allowed_version_partial vCrypto vCommitV3 0 3 [2] ⟨vFresh2, vEnv, [], []⟩
    (by decide) (by decide) (by decide +kernel) rfl (by decide) (by decide)

/-- … and those of `receive_wrong_version` for the same message and a conversation committed to OTRv2 -/
example : runM (receive vCrypto vCommitV3) ⟨{ vFresh2 with version := some .v2 }, vEnv, [], []⟩ =
    .ok (.ok ⟨none, [], some .wrongVersion⟩, refusedState ⟨{ vFresh2 with version := some .v2 }, vEnv, [], []⟩) :=
  receive_wrong_version vCrypto vCommitV3 0 3 [2] .v2 ⟨{ vFresh2 with version := some .v2 }, vEnv, [], []⟩
    (by decide) (by decide) (by decide +kernel) rfl (by decide)

/-- no version allowed: policies 0, or any set without ALLOW_V2 / ALLOW_V3 -/
example : isOTREnabled 0 = false ∧ isOTREnabled (requireEncryption + sendWhitespaceTag) = false := by decide

end Otr
