/-
  Proofs.FragKeep — the frame `KeepFrag` ("the fragment context is unchanged"): everything inside `receive` except
  the fragment branch itself, `send`, and every other API call keep `fragCtx` (`*_kf`); used by Proofs.FragBound.
-/
import Proofs.InjDrain
set_option linter.unusedSimpArgs false
set_option linter.unusedVariables false
namespace Otr

/-! ## 1. the frame "the fragment context is unchanged" -/

abbrev KeepFrag : MState → MState → Prop := Keeps (fun s => s.conv.fragCtx)

instance : OfBook KeepFrag := ⟨fun {s s'} h => by
  simp only [Keeps, bookKept, Prod.mk.injEq] at h
  exact h.2.2.2.2.1⟩

theorem Stable.book2_kf {α} {x : M α} (h : Stable Book2 x) : Stable KeepFrag x :=
  Stable.weaken (fun s s' h => by
    simp only [Keeps, book2Kept, Prod.mk.injEq] at h
    exact h.2.2.2.1) h

theorem Stable.send_kf {α} {x : M α} (h : Stable SendFrame x) : Stable KeepFrag x :=
  Stable.weaken (fun s s' h => by
    simp only [Keeps, sendKept, Prod.mk.injEq] at h
    exact h.2.2.2.2.2.2.2.2.2.2.2.2.2.2.2.2.2.2.1) h

macro "kf_leaf" : tactic => `(tactic| first
  | exact Stable.modc _ (fun _ => rfl)
  | (refine Stable.modc _ (fun s => ?_); show (_ : FragCtx) = _; dsimp only; split <;> rfl)
  | exact Stable.mism _ (fun _ => rfl)
  | exact Stable.ev _ (fun _ => rfl))

syntax "kf_walk" "[" term,* "]" : tactic
macro_rules
  | `(tactic| kf_walk [$ls,*]) => do
    let tacs ← ls.getElems.mapM fun l => `(tactic| with_reducible apply $l)
    `(tactic| repeat' (first
      | exact Stable.pure _ | exact Stable.throw _ | exact Stable.goPanic _
      | exact Stable.getc | exact Stable.get | exact Stable.now
      | kf_leaf
      | with_reducible apply Stable.bind | with_reducible apply Stable.tryCatch
      | with_reducible apply Stable.ite | with_reducible apply Stable.map
      | with_reducible apply Stable.forIn
      $[| $tacs:tactic]* | with_reducible intro _ | split | dsimp only))

theorem genDataMsgWithFlag_kf (K : Crypto) (m : Bytes) (f : Nat) (tlvs : List Tlv) :
    Stable KeepFrag (genDataMsgWithFlag K m f tlvs) := (genDataMsgWithFlag_sendFrame K m f tlvs).send_kf

theorem createSerializedDataMessage_kf (K : Crypto) (m : Bytes) (f : Nat) (tlvs : List Tlv) :
    Stable KeepFrag (createSerializedDataMessage K m f tlvs) :=
  (createSerializedDataMessage_sendFrame K m f tlvs).send_kf

theorem akeHasFinished_kf (K : Crypto) : Stable KeepFrag (akeHasFinished K) := by
  unfold akeHasFinished
  kf_walk [Stable.ofBook getAke_book, Stable.ofBook (modAke_book _), Stable.ofBook (randRead_book _),
    Stable.ofBook (secEvent_book _)]

theorem processDisconnectedTLV_kf : Stable KeepFrag processDisconnectedTLV := by
  unfold processDisconnectedTLV
  kf_walk [Stable.ofBook (secEvent_book _)]

theorem receiveErrorMessage_kf (m : Bytes) : Stable KeepFrag (receiveErrorMessage m) := by
  unfold receiveErrorMessage
  kf_walk [Stable.ofBook (msgEventMsg_book _ _)]

theorem retransmit_kf (K : Crypto) : Stable KeepFrag (retransmit K) := by
  unfold retransmit
  kf_walk [genDataMsgWithFlag_kf K _ _ _, Stable.ofBook (wrapMessageHeader_book _ _),
    Stable.ofBook (msgEvent_book _), Stable.ofBook updateLastSent_book]

theorem maybeRetransmit_kf (K : Crypto) : Stable KeepFrag (maybeRetransmit K) := by
  unfold maybeRetransmit
  kf_walk [retransmit_kf K]

theorem retransmitAfterCompletedExchange_kf (K : Crypto) (b a : AuthState) (e : Option Err) :
    Stable KeepFrag (retransmitAfterCompletedExchange K b a e) := by
  unfold retransmitAfterCompletedExchange
  kf_walk [maybeRetransmit_kf K, genDataMsgWithFlag_kf K _ _ _, Stable.ofBook (wrapMessageHeader_book _ _)]

theorem recvRevealSig_kf (K : Crypto) (st : AuthState) (m : Bytes) :
    Stable KeepFrag (recvRevealSig K st m) := by
  unfold recvRevealSig akeTry
  kf_walk [Stable.ofBook (processRevealSig_book _ _), Stable.ofBook (sigMessage_book _),
    Stable.ofBook (wrapMessageHeader_book _ _), Stable.ofBook akeSetTheirCurrent_book,
    Stable.ofBook akeSetOurCurrent_book, Stable.ofBook (modAke_book _), akeHasFinished_kf K]

theorem recvSig_kf (K : Crypto) (st : AuthState) (m : Bytes) : Stable KeepFrag (recvSig K st m) := by
  unfold recvSig akeTry
  kf_walk [Stable.ofBook (processSig_book _ _), Stable.ofBook akeSetTheirCurrent_book, akeHasFinished_kf K]

theorem processAKE_kf (K : Crypto) (t : Nat) (m : Bytes) : Stable KeepFrag (processAKE K t m) := by
  unfold processAKE
  kf_walk [Stable.ofBook initAKE_book, Stable.ofBook getAke_book, Stable.ofBook (modAke_book _),
    Stable.ofBook (recvDHCommit_book _ _ _), Stable.ofBook (recvDHKey_book _ _ _), recvRevealSig_kf K _ _,
    recvSig_kf K _ _, retransmitAfterCompletedExchange_kf K _ _ _]

theorem processTLVs_kf (K : Crypto) (tlvs : List Tlv) (x : Bytes) : Stable KeepFrag (processTLVs K tlvs x) := by
  unfold processTLVs
  kf_walk [processDisconnectedTLV_kf, Stable.ofBook (processExtraSymmetricKeyTLV_book _ _),
    Stable.ofBook (processSMPTLV_book _ _)]

theorem processDataMessageTail_kf (K : Crypto) (dm : DataMsg) (tlvs : List Tlv) (x : Bytes) :
    Stable KeepFrag (processDataMessageTail K dm tlvs x) := by
  unfold processDataMessageTail
  kf_walk [processTLVs_kf K _ _, Stable.ofBook (randRead_book _), genDataMsgWithFlag_kf K _ _ _,
    Stable.ofBook (wrapMessageHeader_book _ _)]

theorem processDataMessageRaw_kf (K : Crypto) (h m : Bytes) : Stable KeepFrag (processDataMessageRaw K h m) := by
  unfold processDataMessageRaw
  kf_walk [processDataMessageTail_kf K _ _ _, Stable.ofBook (msgEvent_book _)]

theorem potentialHeartbeat_kf (K : Crypto) (p : Option Bytes) : Stable KeepFrag (potentialHeartbeat K p) := by
  unfold potentialHeartbeat
  kf_walk [genDataMsgWithFlag_kf K _ _ _, Stable.ofBook (wrapMessageHeader_book _ _),
    Stable.ofBook updateLastSent_book, Stable.ofBook (msgEvent_book _)]

theorem endSession_kf (K : Crypto) : Stable KeepFrag (endSession K) := by
  unfold endSession
  kf_walk [Stable.ofBook smpWipe_book, createSerializedDataMessage_kf K _ _ _, Stable.ofBook (secEvent_book _)]

theorem startAuthenticate_kf (K : Crypto) (q sec : Bytes) : Stable KeepFrag (startAuthenticate K q sec) := by
  unfold startAuthenticate
  kf_walk [Stable.ofBook (startAuthenticateExpect1_book _ _ _), createSerializedDataMessage_kf K _ _ _]

theorem provideAuthenticationSecret_kf (K : Crypto) (sec : Bytes) :
    Stable KeepFrag (provideAuthenticationSecret K sec) := by
  unfold provideAuthenticationSecret
  kf_walk [Stable.ofBook (continueSMP_book _ _), createSerializedDataMessage_kf K _ _ _]

theorem abortAuthentication_kf (K : Crypto) : Stable KeepFrag (abortAuthentication K) := by
  unfold abortAuthentication
  kf_walk [createSerializedDataMessage_kf K _ _ _]

theorem useExtraSymmetricKey_kf (K : Crypto) (u : Nat) (d : Bytes) :
    Stable KeepFrag (useExtraSymmetricKey K u d) := by
  unfold useExtraSymmetricKey
  kf_walk [createSerializedDataMessage_kf K _ _ _]

theorem receiveDataMessage_kf (K : Crypto) (h b : Bytes) : Stable KeepFrag (receiveDataMessage K h b) := by
  unfold receiveDataMessage
  kf_walk [processDataMessageRaw_kf K _ _, potentialHeartbeat_kf K _, (notifyDataMessageError_book2 _).book2_kf]

theorem receiveDecodedCore_kf (K : Crypto) (m : Bytes) : Stable KeepFrag (receiveDecodedCore K m) := by
  unfold receiveDecodedCore
  kf_walk [Stable.ofBook (checkVersion_book _), (parseMessageHeader_book2 _).book2_kf,
    receiveDataMessage_kf K _ _, processAKE_kf K _ _, Stable.ofBook (msgEventErr_book _)]

theorem receiveDecoded_kf (K : Crypto) (m : Bytes) : Stable KeepFrag (receiveDecoded K m) := by
  unfold receiveDecoded
  kf_walk [receiveDecodedCore_kf K _]

theorem resendLater_kf (m : Bytes) : Stable KeepFrag (resendLater m) := by
  unfold resendLater
  kf_walk []

theorem send_kf (K : Crypto) (m : Bytes) : Stable KeepFrag (send K m) := by
  unfold send
  kf_walk [Stable.ofBook (msgEvent_book _), Stable.ofBook updateLastSent_book, resendLater_kf _,
    (withInjects_book2 _).book2_kf, Stable.ofBook (appendWhitespaceTag_book _),
    createSerializedDataMessage_kf K _ _ _, (generatePotentialErrorMessage_book2 _).book2_kf]

end Otr
