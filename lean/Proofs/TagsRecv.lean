/-
  Proofs.TagsRecv — property C15 at the level of the whole of `Conversation.Receive`: instance tags isolate a
  conversation from the other client instances of the peer (and of ourselves).

  0  inputs covered   : `headerTags` (bytes 3..10 of the decoded message)
  1  foreign, message : `receiveDecodedCore_foreign`, `receiveDecoded_foreign`, `receiveUnit_foreign` (exact)
  2  malformed        : `receiveDecoded_malformed`, `receiveUnit_malformed` (exact)
  3  whole `Receive`  : `receive_foreign_ignored`, **`receive_foreign_sender_ignored`** (1),
                        **`receive_foreign_receiver_ignored`** (2), `receive_foreign_conv_eq` (final conversation
                        = initial conversation), **`receive_malformed_tag_rejected`** (3),
                        `receive_malformed_tag_theirTag`; the armour: `decodeEnvelope_armour`, `armour_v3_known`,
                        `headerTags_be32`
  4  fragments        : `prefixPure_foreign`, `prefixPure_malformed`, `receiveUnit_foreign_fragment`,
                        **`receive_foreign_fragment_ignored`** (4), `receive_foreign_fragment_fragCtx`,
                        `receive_malformed_fragment_rejected`, `fragTag_covered`
  5  the binding      : frame `TT` (peer tag unchanged) for everything but `verifyInstanceTags` and the two unbind
                        steps; `verifyInstanceTags_adopt_wf`, `parseMessageHeader_adopt`,
                        `receiveDecodedCore_bind_guard`, `receiveDecoded_bind_guard`, `carriesTags`, `BindGuard`,
                        `recvEncoded_bind_guard`, `prefixPure_tag`, `fragSettledConv_tag`, `receiveUnit_other_tt`,
                        `receiveUnit_bind_guard` (induction over the fragment recursion),
                        **`receive_theirTag_change_guard`**, **`receive_binds_only_valid`** (5),
                        `receive_bound_stays`, `receive_malformed_never_binds`,
                        `receive_malformed_message_never_binds`, `receive_malformed_fragment_never_binds`
  6  witnesses        : the theorems instantiated on concrete states and byte strings; `tags_witness_binds`

  Hypotheses used throughout sections 1–4: OTR is enabled by the policies (otherwise `Receive` hands every input
  on as plaintext), the conversation is committed to OTRv3; for fragments: the fragmentation context of the
  conversation is not a finished one (`index > 0 ∧ index = len` never holds between calls: a finished context is
  delivered and forgotten at once; without the hypothesis the stale context would be delivered by an ignored
  fragment).  The hypotheses `ourTag ≥ 0x100`, `theirTag ≥ 0x100` of the informal statement are not needed:
  `theirTag ≠ 0` (bound) is.  Section 5 has no hypothesis on the state but the one on the context.
  No hypothesis on the cryptography `K`.
-/
import Proofs.RecvGuards
set_option linter.unusedSimpArgs false
set_option linter.unusedVariables false
namespace Otr
open ConvData

/-! ## 0. the inputs covered -/

/-- sender and receiver instance tag of a decoded message: bytes 3..6 and 7..10 (big endian), whatever the
    first three bytes (version, type) and whatever follows; `none` for fewer than 11 bytes -/
def headerTags : Bytes → Option (Nat × Nat)
  | _ :: _ :: _ :: a0 :: a1 :: a2 :: a3 :: b0 :: b1 :: b2 :: b3 :: _ =>
    some (de32 a0 a1 a2 a3, de32 b0 b1 b2 b3)
  | _ => none

theorem headerTags_some {d : Bytes} {S R : Nat} (h : headerTags d = some (S, R)) :
    ∃ h0 h1 h2 a0 a1 a2 a3 b0 b1 b2 b3 rest,
      d = h0 :: h1 :: h2 :: a0 :: a1 :: a2 :: a3 :: b0 :: b1 :: b2 :: b3 :: rest ∧
      S = de32 a0 a1 a2 a3 ∧ R = de32 b0 b1 b2 b3 := by
  unfold headerTags at h
  split at h
  · simp only [Option.some.injEq, Prod.mk.injEq] at h
    exact ⟨_, _, _, _, _, _, _, _, _, _, _, _, rfl, h.1.symm, h.2.symm⟩
  · cases h

/-! ## 1. a well-formed message for another instance -/

theorem checkVersion_v3_ok (s : MState) (hv : s.conv.version = some .v3) (rest : Bytes) :
    runM (checkVersion (0 :: 3 :: rest)) s = .ok (.ok (), s) := by
  rw [checkVersion_committed 0 3 rest s .v3 hv, if_pos (by decide)]

theorem receiveDecodedCore_foreign (K : Crypto) (s : MState) (ty a0 a1 a2 a3 b0 b1 b2 b3 : UInt8) (rest : Bytes)
    (hv : s.conv.version = some .v3)
    (hwf : tagsWellFormed (de32 a0 a1 a2 a3) (de32 b0 b1 b2 b3))
    (hf : tagsForeign s.conv (de32 a0 a1 a2 a3) (de32 b0 b1 b2 b3)) :
    runM (receiveDecodedCore K (0 :: 3 :: ty :: a0 :: a1 :: a2 :: a3 :: b0 :: b1 :: b2 :: b3 :: rest)) s =
      .ok (.ok (none, [], some .otherInstance, false), { s with events := s.events ++ ["msg:15"] }) := by
  have hph : runM (parseMessageHeader (0 :: 3 :: ty :: a0 :: a1 :: a2 :: a3 :: b0 :: b1 :: b2 :: b3 :: rest)) s =
      .ok (.error .otherInstance, { s with events := s.events ++ ["msg:15"] }) := by
    rw [parseMessageHeader_v3 s hv, verifyInstanceTags_foreign _ _ s hwf hf]
    rfl
  unfold receiveDecodedCore
  simp only [runM_bind, runM_getc, bindM_ok, runM_tryCatch, checkVersion_v3_ok s hv, runM_pure, catchM_ok,
    hph, bindM_error, catchM_error]

theorem receiveDecoded_foreign (K : Crypto) (s : MState) (ty a0 a1 a2 a3 b0 b1 b2 b3 : UInt8) (rest : Bytes)
    (hv : s.conv.version = some .v3)
    (hwf : tagsWellFormed (de32 a0 a1 a2 a3) (de32 b0 b1 b2 b3))
    (hf : tagsForeign s.conv (de32 a0 a1 a2 a3) (de32 b0 b1 b2 b3)) :
    runM (receiveDecoded K (0 :: 3 :: ty :: a0 :: a1 :: a2 :: a3 :: b0 :: b1 :: b2 :: b3 :: rest)) s =
      .ok (.ok (none, [], some .otherInstance), { s with events := s.events ++ ["msg:15"] }) := by
  rw [receiveDecoded_of_core K _ s _ _ _ _ _ (receiveDecodedCore_foreign K s ty a0 a1 a2 a3 b0 b1 b2 b3 rest hv hwf hf)]
  have hn : s.conv.version.isNone = false := by rw [hv]; rfl
  simp only [Option.isSome_some, Bool.true_or, ↓reduceIte, unbindState, hn, Bool.false_eq_true]

/-- **(1)/(2) at the level of `receiveUnit`, exact.**  OTR enabled, conversation committed to OTRv3; `msg` is
    classified as one of the five `?OTR:` message types, its armour decodes to `decoded`, a version-3 message
    (first two bytes `00 03`) of at least 11 bytes whose tags `S`, `R` are well formed (`S ≥ 0x100`, `R = 0 ∨ R ≥ 0x100`)
    and foreign (`R ∉ {0, ourTag}`, or the conversation is bound and `S` is not the peer's tag): no plaintext, no
    error, nothing to send but the injections that were pending; the conversation is what it was but for the
    injection queue handed out — the fragments collected so far are kept, whatever `forgetFragments` —, the log
    gains exactly `ReceivedMessageForOtherInstance` -/
theorem receiveUnit_foreign (K : Crypto) (fuel : Nat) (msg : Bytes) (fg : Bool) (s : MState) (decoded : Bytes)
    (S R : Nat)
    (hp : isOTREnabled s.conv.policies = true) (hv : s.conv.version = some .v3)
    (hg : (guessMessageType msg).isOtrMsg = true) (hd : decodeEnvelope msg = some decoded)
    (h3 : decoded.take 2 = [0, 3]) (ht : headerTags decoded = some (S, R))
    (hwf : tagsWellFormed S R) (hf : tagsForeign s.conv S R) :
    runM (receiveUnit K (fuel + 1) msg fg) s =
      .ok (.ok ⟨none, s.conv.injections, none⟩,
        { s with conv := { s.conv with injections := [] }, events := s.events ++ ["msg:15"] }) := by
  obtain ⟨h0, h1, ty, a0, a1, a2, a3, b0, b1, b2, b3, rest, rfl, rfl, rfl⟩ := headerTags_some ht
  simp only [List.take_succ_cons, List.take_zero, List.cons.injEq, and_true] at h3
  obtain ⟨rfl, rfl⟩ := h3
  rw [receiveUnit_encoded_eq K fuel msg fg s hp hg]
  unfold recvEncoded
  rw [hd]
  simp only [runM_bind, receiveDecoded_foreign K s ty a0 a1 a2 a3 b0 b1 b2 b3 rest hv hwf hf, bindM_ok]
  rw [if_pos (by decide)]
  simp only [finishR, Bool.false_and, Bool.false_eq_true, ↓reduceIte, toSendEncoded, Option.isSome_none,
    runM_bind, runM_pure, bindM_ok, withInjects, runM_getc, runM_modc, List.nil_append]

/-! ## 2. malformed tags -/

theorem afterMalformed_unbind (c : Conv) :
    ({ afterMalformed c with version := (afterMalformed c).version,
                             ourCurrentKey := (afterMalformed c).ourCurrentKey,
                             theirTag := c.theirTag } : Conv) = afterMalformed c := by
  unfold afterMalformed
  split <;> rfl

theorem afterMalformed_fields (c : Conv) :
    afterMalformed c =
      { c with injections := c.injections ++ (if c.errHandler then [malformedReply] else []) } := by
  unfold afterMalformed
  split
  · rfl
  · simp

theorem receiveDecodedCore_malformed (K : Crypto) (s : MState) (ty a0 a1 a2 a3 b0 b1 b2 b3 : UInt8) (rest : Bytes)
    (hv : s.conv.version = some .v3)
    (hm : ¬ tagsWellFormed (de32 a0 a1 a2 a3) (de32 b0 b1 b2 b3)) :
    runM (receiveDecodedCore K (0 :: 3 :: ty :: a0 :: a1 :: a2 :: a3 :: b0 :: b1 :: b2 :: b3 :: rest)) s =
      .ok (.ok (none, [], some .invalidMessage, false),
        { s with conv := afterMalformed s.conv, events := s.events ++ ["msg:9"] }) := by
  have hph : runM (parseMessageHeader (0 :: 3 :: ty :: a0 :: a1 :: a2 :: a3 :: b0 :: b1 :: b2 :: b3 :: rest)) s =
      .ok (.error .invalidMessage, { s with conv := afterMalformed s.conv, events := s.events ++ ["msg:9"] }) := by
    rw [parseMessageHeader_v3 s hv, verifyInstanceTags_run, if_pos hm]
    rfl
  unfold receiveDecodedCore
  simp only [runM_bind, runM_getc, bindM_ok, runM_tryCatch, checkVersion_v3_ok s hv, runM_pure, catchM_ok,
    hph, bindM_error, catchM_error]

theorem receiveDecoded_malformed (K : Crypto) (s : MState) (ty a0 a1 a2 a3 b0 b1 b2 b3 : UInt8) (rest : Bytes)
    (hv : s.conv.version = some .v3)
    (hm : ¬ tagsWellFormed (de32 a0 a1 a2 a3) (de32 b0 b1 b2 b3)) :
    runM (receiveDecoded K (0 :: 3 :: ty :: a0 :: a1 :: a2 :: a3 :: b0 :: b1 :: b2 :: b3 :: rest)) s =
      .ok (.ok (none, [], some .invalidMessage),
        { s with conv := afterMalformed s.conv, events := s.events ++ ["msg:9"] }) := by
  rw [receiveDecoded_of_core K _ s _ _ _ _ _ (receiveDecodedCore_malformed K s ty a0 a1 a2 a3 b0 b1 b2 b3 rest hv hm)]
  have hn : s.conv.version.isNone = false := by rw [hv]; rfl
  simp only [Option.isSome_some, Bool.true_or, ↓reduceIte, unbindState, hn, Bool.false_eq_true,
    afterMalformed_unbind]

/-- **(3) at the level of `receiveUnit`, exact.**  As `receiveUnit_foreign`, but the tags are malformed
    (`S < 0x100`, or `0 < R < 0x100`) — the conversation may be bound or not: the message is rejected with
    `invalidMessage`, no plaintext; the log gains exactly `ReceivedMessageMalformed`; what is sent is the
    pending injections followed, when an error-message handler is installed, by its reply `?OTR Error: E2`; the
    conversation is what it was but for the injection queue handed out and (for `forgetFragments`, as in
    `Receive`) the forgotten fragments.  In particular the peer tag is what it was: bound stays bound to the
    same instance, unbound stays unbound. -/
theorem receiveUnit_malformed (K : Crypto) (fuel : Nat) (msg : Bytes) (fg : Bool) (s : MState) (decoded : Bytes)
    (S R : Nat)
    (hp : isOTREnabled s.conv.policies = true) (hv : s.conv.version = some .v3)
    (hg : (guessMessageType msg).isOtrMsg = true) (hd : decodeEnvelope msg = some decoded)
    (h3 : decoded.take 2 = [0, 3]) (ht : headerTags decoded = some (S, R))
    (hm : ¬ tagsWellFormed S R) :
    runM (receiveUnit K (fuel + 1) msg fg) s =
      .ok (.ok ⟨none, s.conv.injections ++ (if s.conv.errHandler then [malformedReply] else []), some .invalidMessage⟩,
        { s with conv := { s.conv with injections := [],
                                       fragCtx := if fg then FragCtx.empty else s.conv.fragCtx },
                 events := s.events ++ ["msg:9"] }) := by
  obtain ⟨h0, h1, ty, a0, a1, a2, a3, b0, b1, b2, b3, rest, rfl, rfl, rfl⟩ := headerTags_some ht
  simp only [List.take_succ_cons, List.take_zero, List.cons.injEq, and_true] at h3
  obtain ⟨rfl, rfl⟩ := h3
  rw [receiveUnit_encoded_eq K fuel msg fg s hp hg]
  unfold recvEncoded
  rw [hd]
  simp only [runM_bind, receiveDecoded_malformed K s ty a0 a1 a2 a3 b0 b1 b2 b3 rest hv hm, bindM_ok]
  rw [if_neg (by decide)]
  rw [afterMalformed_fields]
  cases fg <;>
  simp only [finishR, Bool.true_and, Bool.and_false, Bool.and_true, Bool.false_eq_true, ↓reduceIte, toSendEncoded,
    Option.isSome_some, runM_bind, runM_pure, bindM_ok, withInjects, runM_getc, runM_modc, List.nil_append]

/-! ## 3. whole `Receive`, complete messages -/

/-- the sender tag is not the peer's (bound conversation), or the receiver tag is neither zero nor ours -/
theorem tagsForeign_of_sender (c : Conv) (S R : Nat) (hb : c.theirTag ≠ 0) (hne : S ≠ c.theirTag) :
    tagsForeign c S R := Or.inr ⟨hb, fun h => hne h.symm⟩

theorem tagsForeign_of_receiver (c : Conv) (S R : Nat) (h0 : R ≠ 0) (hne : R ≠ c.ourTag) :
    tagsForeign c S R := Or.inl ⟨h0, fun h => hne h.symm⟩

/-- **(1)+(2), one statement**: a well-formed message for another instance is ignored by `Receive` -/
theorem receive_foreign_ignored (K : Crypto) (msg : Bytes) (s : MState) (decoded : Bytes) (S R : Nat)
    (hp : isOTREnabled s.conv.policies = true) (hv : s.conv.version = some .v3)
    (hg : (guessMessageType msg).isOtrMsg = true) (hd : decodeEnvelope msg = some decoded)
    (h3 : decoded.take 2 = [0, 3]) (ht : headerTags decoded = some (S, R))
    (hwf : tagsWellFormed S R) (hf : tagsForeign s.conv S R) :
    runM (receive K msg) s =
      .ok (.ok ⟨none, s.conv.injections, none⟩,
        { s with conv := { s.conv with injections := [] }, events := s.events ++ ["msg:15"] }) :=
  receiveUnit_foreign K (msg.length + 1) msg true s decoded S R hp hv hg hd h3 ht hwf hf

/-- **(1) a message from another sender instance is ignored.**  The conversation is committed to OTRv3 and bound
    to a peer instance (`theirTag ≠ 0`); the message is a complete `?OTR:` message of one of the five known types
    whose armour decodes to a version-3 message with sender tag `S ≥ 0x100`, `S ≠ theirTag`, and any well-formed
    receiver tag.  `Receive` returns no plaintext and no error; it hands out the injections that were pending
    and nothing else; the log gains exactly `ReceivedMessageForOtherInstance` ("msg:15"); the conversation is
    the initial one but for the injection queue that was handed out. -/
theorem receive_foreign_sender_ignored (K : Crypto) (msg : Bytes) (s : MState) (decoded : Bytes) (S R : Nat)
    (hp : isOTREnabled s.conv.policies = true) (hv : s.conv.version = some .v3)
    (hg : (guessMessageType msg).isOtrMsg = true) (hd : decodeEnvelope msg = some decoded)
    (h3 : decoded.take 2 = [0, 3]) (ht : headerTags decoded = some (S, R))
    (hS : 0x100 ≤ S) (hR : R = 0 ∨ 0x100 ≤ R)
    (hb : s.conv.theirTag ≠ 0) (hne : S ≠ s.conv.theirTag) :
    runM (receive K msg) s =
      .ok (.ok ⟨none, s.conv.injections, none⟩,
        { s with conv := { s.conv with injections := [] }, events := s.events ++ ["msg:15"] }) :=
  receive_foreign_ignored K msg s decoded S R hp hv hg hd h3 ht (by unfold tagsWellFormed; omega)
    (tagsForeign_of_sender _ _ _ hb hne)

/-- **(2) a message for another receiver instance is ignored**: the same when the receiver tag `R ≥ 0x100` is not
    our tag (the conversation may be bound or not, the sender may be the peer or not) -/
theorem receive_foreign_receiver_ignored (K : Crypto) (msg : Bytes) (s : MState) (decoded : Bytes) (S R : Nat)
    (hp : isOTREnabled s.conv.policies = true) (hv : s.conv.version = some .v3)
    (hg : (guessMessageType msg).isOtrMsg = true) (hd : decodeEnvelope msg = some decoded)
    (h3 : decoded.take 2 = [0, 3]) (ht : headerTags decoded = some (S, R))
    (hS : 0x100 ≤ S) (hR : 0x100 ≤ R) (hne : R ≠ s.conv.ourTag) :
    runM (receive K msg) s =
      .ok (.ok ⟨none, s.conv.injections, none⟩,
        { s with conv := { s.conv with injections := [] }, events := s.events ++ ["msg:15"] }) :=
  receive_foreign_ignored K msg s decoded S R hp hv hg hd h3 ht (by unfold tagsWellFormed; omega)
    (tagsForeign_of_receiver _ _ _ (by omega) hne)

/-- with nothing pending in the injection queue: nothing at all to send, and the final conversation *equals*
    the initial one (fragments collected, keys, AKE and SMP state, … everything) -/
theorem receive_foreign_conv_eq (K : Crypto) (msg : Bytes) (s : MState) (decoded : Bytes) (S R : Nat)
    (hp : isOTREnabled s.conv.policies = true) (hv : s.conv.version = some .v3)
    (hg : (guessMessageType msg).isOtrMsg = true) (hd : decodeEnvelope msg = some decoded)
    (h3 : decoded.take 2 = [0, 3]) (ht : headerTags decoded = some (S, R))
    (hwf : tagsWellFormed S R) (hf : tagsForeign s.conv S R) (hi : s.conv.injections = []) :
    ∃ s', runM (receive K msg) s = .ok (.ok ⟨none, [], none⟩, s') ∧ s'.conv = s.conv ∧ s'.env = s.env ∧
      s'.events = s.events ++ ["msg:15"] := by
  refine ⟨{ s with conv := { s.conv with injections := [] }, events := s.events ++ ["msg:15"] }, ?_, ?_, rfl, rfl⟩
  · rw [receive_foreign_ignored K msg s decoded S R hp hv hg hd h3 ht hwf hf, hi]
  · show ({ s.conv with injections := [] } : Conv) = s.conv
    rw [← hi]

/-- **(3) a message with a malformed tag is rejected.**  Conversation committed to OTRv3, bound or not; the
    sender tag is below `0x100`, or the receiver tag is non-zero and below `0x100`: error `invalidMessage`, no
    plaintext, log `ReceivedMessageMalformed` ("msg:9"); sent: the pending injections and — with an error-message
    handler — the reply `?OTR Error: E2`; conversation afterwards: the initial one with the injection queue handed
    out and the collected fragments forgotten. -/
theorem receive_malformed_tag_rejected (K : Crypto) (msg : Bytes) (s : MState) (decoded : Bytes) (S R : Nat)
    (hp : isOTREnabled s.conv.policies = true) (hv : s.conv.version = some .v3)
    (hg : (guessMessageType msg).isOtrMsg = true) (hd : decodeEnvelope msg = some decoded)
    (h3 : decoded.take 2 = [0, 3]) (ht : headerTags decoded = some (S, R))
    (hm : S < 0x100 ∨ (0 < R ∧ R < 0x100)) :
    runM (receive K msg) s =
      .ok (.ok ⟨none, s.conv.injections ++ (if s.conv.errHandler then [malformedReply] else []), some .invalidMessage⟩,
        { s with conv := { s.conv with injections := [], fragCtx := FragCtx.empty },
                 events := s.events ++ ["msg:9"] }) :=
  receiveUnit_malformed K (msg.length + 1) msg true s decoded S R hp hv hg hd h3 ht
    (by unfold tagsWellFormed; omega)

/-- in particular the binding is what it was: bound to the same instance, or still unbound -/
theorem receive_malformed_tag_theirTag (K : Crypto) (msg : Bytes) (s s' : MState) (r : Except Err RecvResult)
    (decoded : Bytes) (S R : Nat)
    (hp : isOTREnabled s.conv.policies = true) (hv : s.conv.version = some .v3)
    (hg : (guessMessageType msg).isOtrMsg = true) (hd : decodeEnvelope msg = some decoded)
    (h3 : decoded.take 2 = [0, 3]) (ht : headerTags decoded = some (S, R))
    (hm : S < 0x100 ∨ (0 < R ∧ R < 0x100))
    (hr : runM (receive K msg) s = .ok (r, s')) :
    s'.conv.theirTag = s.conv.theirTag ∧ s'.conv.version = s.conv.version ∧ s'.conv.ourTag = s.conv.ourTag ∧
    (s.conv.theirTag = 0 → s'.conv.theirTag = 0) := by
  rw [receive_malformed_tag_rejected K msg s decoded S R hp hv hg hd h3 ht hm] at hr
  simp only [Res.ok.injEq, Prod.mk.injEq] at hr
  rw [← hr.2]
  exact ⟨rfl, rfl, rfl, fun h => h⟩

/-! ### the armour: which byte strings are covered -/

theorem msgMarker_eq : msgMarker = [63, 79, 84, 82, 58] := by decide

/-- the armour parser (`decodeEnvelope`): the first five bytes and the last byte are dropped *unseen* (the
    classification has looked at the first nine), the rest must be base64 (CR/LF skipped, padding checked by
    `b64decode`) -/
theorem decodeEnvelope_armour (e : Bytes) (x : UInt8) : decodeEnvelope (msgMarker ++ e ++ [x]) = b64decode e := by
  unfold decodeEnvelope
  rw [msgMarker_eq]
  simp only [List.cons_append, List.nil_append, List.length_cons, List.length_append, List.length_nil,
    List.drop_succ_cons, List.drop_zero, List.dropLast_concat]
  rw [if_neg (by omega)]

/-- the canonical armour of a version-3 message of a known type is classified as that type and decodes to it -/
theorem armour_v3_known (ty : UInt8) (body : Bytes)
    (hty : ty = 2 ∨ ty = 3 ∨ ty = 10 ∨ ty = 17 ∨ ty = 18) :
    (guessMessageType (msgMarker ++ b64encode (0 :: 3 :: ty :: body) ++ [46])).isOtrMsg = true ∧
    decodeEnvelope (msgMarker ++ b64encode (0 :: 3 :: ty :: body) ++ [46]) = some (0 :: 3 :: ty :: body) := by
  refine ⟨?_, by rw [decodeEnvelope_armour, b64decode_encode]⟩
  show (guessMessageType (strBytes "?OTR:" ++ b64encode (0 :: 3 :: ty :: body) ++ [46])).isOtrMsg = true
  rw [guessMessageType_b64_v3]
  rcases hty with h | h | h | h | h <;> subst h <;> rfl

theorem headerTags_be32 (h0 h1 h2 : UInt8) (S R : Nat) (rest : Bytes) (hS : S < 4294967296) (hR : R < 4294967296) :
    headerTags (h0 :: h1 :: h2 :: (be32 S ++ be32 R ++ rest)) = some (S, R) := by
  show some (de32 _ _ _ _, de32 _ _ _ _) = _
  rw [de32_be32 _ hS, de32_be32 _ hR]

/-! ## 4. fragments -/

theorem commitPure_committed (c : Conv) (v : Version) (hv : c.version = some v) (vs : Nat) :
    commitPure c vs = (true, c) := by
  unfold commitPure; rw [hv]

/-- the prefix of a v3 fragment for another instance: flagged "ignore", conversation untouched, one event -/
theorem prefixPure_foreign (c : Conv) (msg : Bytes) (S R n : Nat) (hv : c.version = some .v3)
    (hpp : v3PrefixParse msg = some (S, R, n)) (hwf : tagsWellFormed S R) (hf : tagsForeign c S R) :
    prefixPure c msg = ((msg, true, true), c, ["msg:15"]) := by
  unfold prefixPure
  simp only [commitPure_committed c .v3 hv, Bool.true_eq_false, ↓reduceIte, hv, hpp, hwf, not_true_eq_false, hf]

/-- … with a malformed tag: rejected, error reply queued (with a handler), one event -/
theorem prefixPure_malformed (c : Conv) (msg : Bytes) (S R n : Nat) (hv : c.version = some .v3)
    (hpp : v3PrefixParse msg = some (S, R, n)) (hm : ¬ tagsWellFormed S R) :
    prefixPure c msg = ((msg, false, false), afterMalformed c, ["msg:9"]) := by
  unfold prefixPure
  simp only [commitPure_committed c .v3 hv, Bool.true_eq_false, ↓reduceIte, hv, hpp, hm, not_false_eq_true]

theorem unbindConv_self (c : Conv) (v : Version) (hv : c.version = some v) : unbindConv c c = c := by
  have hn : c.version.isNone = false := by rw [hv]; rfl
  simp only [unbindConv, hn, Bool.false_eq_true, ↓reduceIte]

theorem unbindConv_afterMalformed (c : Conv) (v : Version) (hv : c.version = some v) :
    unbindConv c (afterMalformed c) = afterMalformed c := by
  have hn : c.version.isNone = false := by rw [hv]; rfl
  simp only [unbindConv, hn, Bool.false_eq_true, ↓reduceIte]
  exact afterMalformed_unbind c

theorem deliverStep_noArrival (ctx : FragCtx) (hfin : ctx.finished = false) :
    deliverStep (ctx, []) noArrival = (ctx, []) := by
  rw [deliverStep_nil, acceptStep_noArrival, hfin]
  rfl

/-- **(4) a v3 fragment for another instance is ignored — at the level of `receiveUnit`, exact.**  `msg` is
    classified as a fragment and its prefix `?OTR|S|R,` parses (`v3PrefixParse`: it contains a comma, the part
    before the first comma splits at `|` into at least three parts, the second and third are hexadecimal numbers
    below 2^32 — whatever follows the comma); the tags are well formed and foreign; the context of the
    conversation is not a finished one (it never is between calls).  No plaintext, no error, only the pending
    injections to send; the conversation — *including the fragments collected so far* — is what it was but for
    the injection queue handed out; the log gains `ReceivedMessageForOtherInstance` twice (once from
    `verifyInstanceTags`, once from `receiveFragment`). -/
theorem receiveUnit_foreign_fragment (K : Crypto) (fuel : Nat) (msg : Bytes) (fg : Bool) (s : MState) (S R n : Nat)
    (hp : isOTREnabled s.conv.policies = true) (hv : s.conv.version = some .v3)
    (hg : guessMessageType msg = .fragment) (hpp : v3PrefixParse msg = some (S, R, n))
    (hwf : tagsWellFormed S R) (hf : tagsForeign s.conv S R) (hfin : s.conv.fragCtx.finished = false) :
    runM (receiveUnit K (fuel + 1) msg fg) s =
      .ok (.ok ⟨none, s.conv.injections, none⟩,
        { s with conv := { s.conv with injections := [] }, events := s.events ++ ["msg:15", "msg:15"] }) := by
  have hpre := prefixPure_foreign s.conv msg S R n hv hpp hwf hf
  have hig : fragIgnored s.conv msg = true := by unfold fragIgnored; rw [hpre]
  have hpa : fragParsed s.conv msg = none := fragParsed_of_ignored _ _ hig
  have harr : fragArrival s.conv msg = noArrival := by unfold fragArrival; rw [hpa]; rfl
  have hst : fragStepOf s.conv s.conv.fragCtx msg = .ignore := by unfold fragStepOf; rw [if_pos hig]
  have hpc : fragPostConv s.conv s.conv.fragCtx msg = s.conv := by
    unfold fragPostConv
    rw [if_pos (Or.inl hig), hpre]
    exact unbindConv_self s.conv .v3 hv
  have hset : fragSettled s msg = { s with events := s.events ++ ["msg:15", "msg:15"] } := by
    unfold fragSettled fragSettledConv fragDeliver
    rw [hpc, harr, deliverStep_noArrival _ hfin, hst, hpre]
    simp only [↓reduceIte, List.append_assoc, List.cons_append, List.nil_append]
  have herr : fragErr s.conv msg = none := by unfold fragErr; rw [hst]; rfl
  rw [receiveUnit_fragment_refines K fuel msg fg s hp hg, harr, deliverStep_noArrival _ hfin, herr, hset]
  rfl

/-- **(4) for `Receive`** -/
theorem receive_foreign_fragment_ignored (K : Crypto) (msg : Bytes) (s : MState) (S R n : Nat)
    (hp : isOTREnabled s.conv.policies = true) (hv : s.conv.version = some .v3)
    (hg : guessMessageType msg = .fragment) (hpp : v3PrefixParse msg = some (S, R, n))
    (hwf : tagsWellFormed S R) (hf : tagsForeign s.conv S R) (hfin : s.conv.fragCtx.finished = false) :
    runM (receive K msg) s =
      .ok (.ok ⟨none, s.conv.injections, none⟩,
        { s with conv := { s.conv with injections := [] }, events := s.events ++ ["msg:15", "msg:15"] }) :=
  receiveUnit_foreign_fragment K (msg.length + 1) msg true s S R n hp hv hg hpp hwf hf hfin

/-- the two readings of "foreign", and the collected fragments spelled out -/
theorem receive_foreign_fragment_fragCtx (K : Crypto) (msg : Bytes) (s s' : MState) (r : Except Err RecvResult)
    (S R n : Nat)
    (hp : isOTREnabled s.conv.policies = true) (hv : s.conv.version = some .v3)
    (hg : guessMessageType msg = .fragment) (hpp : v3PrefixParse msg = some (S, R, n))
    (hS : 0x100 ≤ S) (hR : R = 0 ∨ 0x100 ≤ R)
    (hf : (s.conv.theirTag ≠ 0 ∧ S ≠ s.conv.theirTag) ∨ (R ≠ 0 ∧ R ≠ s.conv.ourTag))
    (hfin : s.conv.fragCtx.finished = false)
    (hr : runM (receive K msg) s = .ok (r, s')) :
    r = .ok ⟨none, s.conv.injections, none⟩ ∧ s'.conv = { s.conv with injections := [] } ∧
    s'.conv.fragCtx = s.conv.fragCtx ∧ s'.conv.theirTag = s.conv.theirTag ∧ s'.env = s.env := by
  have hforeign : tagsForeign s.conv S R := by
    rcases hf with ⟨h1, h2⟩ | ⟨h1, h2⟩
    · exact tagsForeign_of_sender _ _ _ h1 h2
    · exact tagsForeign_of_receiver _ _ _ h1 h2
  rw [receive_foreign_fragment_ignored K msg s S R n hp hv hg hpp (by unfold tagsWellFormed; omega) hforeign hfin] at hr
  simp only [Res.ok.injEq, Prod.mk.injEq] at hr
  rw [← hr.1, ← hr.2]
  exact ⟨rfl, rfl, rfl, rfl, rfl⟩

/-- **(4), malformed tags in a fragment prefix**: rejected with `invalid OTR fragment`; log
    `ReceivedMessageMalformed`; sent: the pending injections and — with an error-message handler — `?OTR Error: E2`;
    the conversation is what it was but for the injection queue: the collected fragments are *kept* (unlike for a
    complete message with a malformed tag), the binding is what it was -/
theorem receiveUnit_malformed_fragment (K : Crypto) (fuel : Nat) (msg : Bytes) (fg : Bool) (s : MState) (S R n : Nat)
    (hp : isOTREnabled s.conv.policies = true) (hv : s.conv.version = some .v3)
    (hg : guessMessageType msg = .fragment) (hpp : v3PrefixParse msg = some (S, R, n))
    (hm : ¬ tagsWellFormed S R) (hfin : s.conv.fragCtx.finished = false) :
    runM (receiveUnit K (fuel + 1) msg fg) s =
      .ok (.ok ⟨none, s.conv.injections ++ (if s.conv.errHandler then [malformedReply] else []),
            some invalidFragmentErr⟩,
        { s with conv := { s.conv with injections := [] }, events := s.events ++ ["msg:9"] }) := by
  have hpre := prefixPure_malformed s.conv msg S R n hv hpp hm
  have hig : fragIgnored s.conv msg = false := by unfold fragIgnored; rw [hpre]
  have hpa : fragParsed s.conv msg = none := by
    unfold fragParsed; rw [hig, hpre]; rfl
  have harr : fragArrival s.conv msg = noArrival := by unfold fragArrival; rw [hpa]; rfl
  have hst : fragStepOf s.conv s.conv.fragCtx msg = .invalid := by
    unfold fragStepOf; rw [hig, hpa]; rfl
  have hrej : fragRejected s.conv msg := ⟨hig, harr ▸ noArrival_invalid⟩
  have hpc : fragPostConv s.conv s.conv.fragCtx msg = afterMalformed s.conv := by
    unfold fragPostConv
    have hd : fragDiscarded s.conv s.conv.fragCtx msg := Or.inl hrej
    rw [if_pos (Or.inr hd), hpre]
    exact unbindConv_afterMalformed s.conv .v3 hv
  have hset : fragSettled s msg = { s with conv := afterMalformed s.conv, events := s.events ++ ["msg:9"] } := by
    unfold fragSettled fragSettledConv fragDeliver
    rw [hpc, harr, deliverStep_noArrival _ hfin, hst, hpre]
    simp only [reduceCtorEq, ↓reduceIte, List.append_nil]
    congr 1
    unfold afterMalformed
    split <;> rfl
  have herr : fragErr s.conv msg = some invalidFragmentErr := by unfold fragErr; rw [hst]; rfl
  rw [receiveUnit_fragment_refines K fuel msg fg s hp hg, harr, deliverStep_noArrival _ hfin, herr, hset]
  simp only [clearInj]
  rw [afterMalformed_fields]

theorem receive_malformed_fragment_rejected (K : Crypto) (msg : Bytes) (s : MState) (S R n : Nat)
    (hp : isOTREnabled s.conv.policies = true) (hv : s.conv.version = some .v3)
    (hg : guessMessageType msg = .fragment) (hpp : v3PrefixParse msg = some (S, R, n))
    (hm : S < 0x100 ∨ (0 < R ∧ R < 0x100)) (hfin : s.conv.fragCtx.finished = false) :
    runM (receive K msg) s =
      .ok (.ok ⟨none, s.conv.injections ++ (if s.conv.errHandler then [malformedReply] else []),
            some invalidFragmentErr⟩,
        { s with conv := { s.conv with injections := [] }, events := s.events ++ ["msg:9"] }) :=
  receiveUnit_malformed_fragment K (msg.length + 1) msg true s S R n hp hv hg hpp
    (by unfold tagsWellFormed; omega) hfin

/-- the fragments a v3 sender writes (`fragTag`: `?OTR|%08x|%08x,`), followed by *anything*, are covered -/
theorem fragTag_covered (S R : Nat) (rest : Bytes) (hS : S < 4294967296) (hR : R < 4294967296) :
    guessMessageType (fragTag .v3 S R ++ rest) = .fragment ∧
    v3PrefixParse (fragTag .v3 S R ++ rest) = some (S, R, 23) :=
  ⟨guessMessageType_fragTag .v3 S R rest, v3PrefixParse_piece S R rest hS hR⟩

/-! ## 5. what binds an unbound conversation

  `theirTag` is written by `verifyInstanceTags` (adoption), by the two "unbind" steps and by nothing else:
  frame `TT` for everything else that `Receive` runs. -/

/-- frame: the peer instance tag is unchanged -/
abbrev TT : MState → MState → Prop := Keeps (fun s => s.conv.theirTag)

theorem Stable.vt_tt {α} {x : M α} (h : Stable VtFrame x) : Stable TT x :=
  Stable.mono (fun s s' (hs : VtFrame s s') => by
    have h2 : vtKept s' = vtKept s := hs
    simp only [vtKept, Prod.mk.injEq] at h2
    exact h2.2.1) h

theorem commitToVersionFrom_tt (vs : Nat) : Stable TT (commitToVersionFrom vs) := by
  unfold commitToVersionFrom setKeyMatchingVersion
  stable []

theorem checkVersion_tt (m : Bytes) : Stable TT (checkVersion m) := by
  unfold checkVersion
  stable [commitToVersionFrom_tt]

theorem receiveErrorMessage_tt (m : Bytes) : Stable TT (receiveErrorMessage m) := by
  unfold receiveErrorMessage msgEventMsg
  stable []

theorem modAke_tt (f : Ake → Ake) : Stable TT (modAke f) := by
  unfold modAke
  stable []

theorem dhCommitMessage_tt (K : Crypto) : Stable TT (dhCommitMessage K) := by
  unfold dhCommitMessage initAKE setSecretExponent
  stable [(randomInto_vt _).vt_tt, modAke_tt, getAke_vt.vt_tt, (optNat_vt _ _).vt_tt, (akeEncrypt_vt K _ _).vt_tt,
    (serializeDHCommit_vt K).vt_tt]

theorem sendDHCommit_tt (K : Crypto) : Stable TT (sendDHCommit K) := by
  unfold sendDHCommit
  stable [dhCommitMessage_tt, (wrapMessageHeader_vt _ _).vt_tt, modAke_tt]

theorem receiveQueryMessage_tt (K : Crypto) (m : Bytes) : Stable TT (receiveQueryMessage K m) := by
  unfold receiveQueryMessage msgEventErr
  stable [commitToVersionFrom_tt, sendDHCommit_tt]

theorem receiveTaggedPlaintext_tt (K : Crypto) (m : Bytes) : Stable TT (receiveTaggedPlaintext K m) := by
  unfold receiveTaggedPlaintext msgEventErr
  stable [commitToVersionFrom_tt, sendDHCommit_tt, (checkPlaintextPolicies_vt _).vt_tt]

/-! the data path -/

theorem processSMPTLV_tt (K : Crypto) (t : Tlv) : Stable TT (processSMPTLV K t) := by
  intro s r s' hr
  have h := ConvData.processSMPTLV_frame K t s
  unfold ConvData.wp at h
  rw [show ConvData.run' (processSMPTLV K t) s = runM (processSMPTLV K t) s from rfl, hr] at h
  unfold ConvData.SmpFrame at h
  show s'.conv.theirTag = s.conv.theirTag
  rw [h]

theorem processTLVs_tt (K : Crypto) (tlvs : List Tlv) (x : Bytes) : Stable TT (processTLVs K tlvs x) := by
  unfold processTLVs processDisconnectedTLV processExtraSymmetricKeyTLV secEvent
  stable [processSMPTLV_tt]

theorem processDataMessageTail_tt (K : Crypto) (dm : DataMsg) (tlvs : List Tlv) (x : Bytes) :
    Stable TT (processDataMessageTail K dm tlvs x) := by
  unfold processDataMessageTail
  stable [(randRead_vt _).vt_tt, processTLVs_tt, (genDataMsgWithFlag_vt K _ _ _).vt_tt, (wrapMessageHeader_vt _ _).vt_tt]

theorem processDataMessageRaw_tt (K : Crypto) (header msg : Bytes) :
    Stable TT (processDataMessageRaw K header msg) := by
  unfold processDataMessageRaw msgEvent
  stable [processDataMessageTail_tt]

theorem potentialHeartbeat_tt (K : Crypto) (plain : Option Bytes) : Stable TT (potentialHeartbeat K plain) := by
  unfold potentialHeartbeat updateLastSent msgEvent
  stable [(genDataMsgWithFlag_vt K _ _ _).vt_tt, (wrapMessageHeader_vt _ _).vt_tt]

theorem notifyDataMessageError_tt (e : Err) : Stable TT (notifyDataMessageError e) := by
  unfold notifyDataMessageError generatePotentialErrorMessage msgEvent
  stable []

theorem receiveDataMessage_tt (K : Crypto) (header body : Bytes) :
    Stable TT (receiveDataMessage K header body) := by
  unfold receiveDataMessage
  stable [processDataMessageRaw_tt, potentialHeartbeat_tt, notifyDataMessageError_tt]

theorem finishR_tt (fg : Bool) (plain : Option Bytes) (toSend : List Bytes) (err : Option Err) (sf : Bool) :
    Stable TT (finishR fg plain toSend err sf) := by
  unfold finishR
  stable [(toSendEncoded_vt _ _).vt_tt, (withInjects_vt _).vt_tt]

/-- frame: our own instance tag is unchanged -/
abbrev OT : MState → MState → Prop := Keeps (fun s => s.conv.ourTag)

theorem checkVersion_ot (m : Bytes) : Stable OT (checkVersion m) := by
  unfold checkVersion commitToVersionFrom setKeyMatchingVersion
  stable []

theorem de16_eq_three {a b : UInt8} (h : de16 a b = 3) : a = 0 ∧ b = 3 := by
  unfold de16 at h
  have hb := b.toNat_lt
  constructor
  · apply UInt8.toNat_inj.mp
    show a.toNat = 0
    omega
  · apply UInt8.toNat_inj.mp
    show b.toNat = 3
    omega

/-- when `verifyInstanceTags` changes the peer tag: it was 0, both tags are well formed, the message is addressed
    to us or to nobody, the new value is the sender tag, and the call succeeds -/
theorem verifyInstanceTags_adopt_wf (their our : Nat) (s : MState) (r : Except Err Unit) (s' : MState)
    (hr : runM (verifyInstanceTags their our) s = .ok (r, s')) (hne : s'.conv.theirTag ≠ s.conv.theirTag) :
    s.conv.theirTag = 0 ∧ tagsWellFormed their our ∧ (our = 0 ∨ our = s.conv.ourTag) ∧
      s'.conv.theirTag = their ∧ r = .ok () := by
  obtain ⟨h1, h2, h3, h4, h5⟩ := verifyInstanceTags_adopt their our s r s' hr hne
  refine ⟨h1, ?_, h3, h4, h5⟩
  apply Decidable.byContradiction
  intro hwf
  rw [verifyInstanceTags_run, if_pos hwf] at hr
  simp only [Res.ok.injEq, Prod.mk.injEq] at hr
  rw [h5] at hr
  cases hr.1

/-- when `parseMessageHeader` changes the peer tag -/
theorem parseMessageHeader_adopt (msg : Bytes) (s : MState) (r : Except Err (Bytes × Bytes)) (s' : MState)
    (hr : runM (parseMessageHeader msg) s = .ok (r, s')) (hne : s'.conv.theirTag ≠ s.conv.theirTag) :
    s.conv.version = some .v3 ∧ s.conv.theirTag = 0 ∧
    ∃ R, headerTags msg = some (s'.conv.theirTag, R) ∧ tagsWellFormed s'.conv.theirTag R ∧
      (R = 0 ∨ R = s.conv.ourTag) ∧ ∃ hb, r = .ok hb := by
  cases hv : s.conv.version with
  | none =>
    unfold parseMessageHeader at hr
    simp only [runM_bind, runM_getc, bindM_ok, hv, runM_goPanic, reduceCtorEq] at hr
  | some v =>
    cases v with
    | v2 =>
      exfalso
      unfold parseMessageHeader at hr
      simp only [runM_bind, runM_getc, bindM_ok, hv, runM_ite, runM_throw, runM_pure] at hr
      split at hr <;>
      · simp only [bindM_ok, bindM_error, Res.ok.injEq, Prod.mk.injEq] at hr
        rw [← hr.2] at hne
        exact hne rfl
    | v3 =>
      by_cases hl : msg.length < 11
      · exfalso
        rw [parseMessageHeader_v3_short s hv msg hl] at hr
        simp only [Res.ok.injEq, Prod.mk.injEq] at hr
        rw [← hr.2] at hne
        apply hne
        show (afterMalformed s.conv).theirTag = _
        unfold afterMalformed
        split <;> rfl
      · obtain ⟨h0, h1, h2, a0, a1, a2, a3, b0, b1, b2, b3, body, hm, -, -⟩ :=
          exists_header_of_length msg (by omega)
        subst hm
        rw [parseMessageHeader_v3 s hv] at hr
        cases hvi : runM (verifyInstanceTags (de32 a0 a1 a2 a3) (de32 b0 b1 b2 b3)) s with
        | panic p => rw [hvi] at hr; cases hr
        | ok v =>
          obtain ⟨rv, s1⟩ := v
          rw [hvi] at hr
          have hs1 : s' = s1 := by
            cases rv with
            | error e => simp only [bindM_error, Res.ok.injEq, Prod.mk.injEq] at hr; exact hr.2.symm
            | ok u => simp only [bindM_ok, Res.ok.injEq, Prod.mk.injEq] at hr; exact hr.2.symm
          subst hs1
          obtain ⟨g1, g2, g3, g4, g5⟩ := verifyInstanceTags_adopt_wf _ _ s rv s' hvi hne
          subst g5
          simp only [bindM_ok, Res.ok.injEq, Prod.mk.injEq] at hr
          refine ⟨rfl, g1, de32 b0 b1 b2 b3, ?_, ?_, g3, _, hr.1.symm⟩
          · rw [g4]; rfl
          · rw [g4]; exact g2

/-- **the guard of the binding, `receiveDecodedCore`**: if the peer tag after the body of `receiveDecoded` differs
    from the one before, the conversation was unbound, the decoded bytes are a version-3 message whose header
    carries the new peer tag as sender and a receiver tag that is zero or ours, both well formed -/
theorem receiveDecodedCore_bind_guard (K : Crypto) (decoded : Bytes) (s s' : MState)
    (r : Except Err (Option Bytes × List Bytes × Option Err × Bool))
    (h : runM (receiveDecodedCore K decoded) s = .ok (r, s')) (hne : s'.conv.theirTag ≠ s.conv.theirTag) :
    s.conv.theirTag = 0 ∧ s.conv.version ≠ some .v2 ∧ decoded.take 2 = [0, 3] ∧
    ∃ R, headerTags decoded = some (s'.conv.theirTag, R) ∧ tagsWellFormed s'.conv.theirTag R ∧
      (R = 0 ∨ R = s.conv.ourTag) := by
  unfold receiveDecodedCore at h
  simp only [runM_bind, runM_getc, bindM_ok, runM_tryCatch] at h
  obtain ⟨rc, sc, hc, hcok⟩ := checkVersion_ok decoded s
  have ht1 : sc.conv.theirTag = s.conv.theirTag := checkVersion_tt decoded s rc sc hc
  have ho1 : sc.conv.ourTag = s.conv.ourTag := checkVersion_ot decoded s rc sc hc
  rw [hc] at h
  cases rc with
  | error e =>
    exfalso
    simp only [bindM_ok, bindM_error, catchM_ok, catchM_error, runM_pure, Res.ok.injEq, Prod.mk.injEq] at h
    rw [← h.2] at hne
    exact hne ht1
  | ok u =>
    obtain ⟨a, b, rest, v, hdec, hvs, hnum, -⟩ := hcok rfl
    simp only [bindM_ok, bindM_error, catchM_ok, catchM_error, runM_pure, runM_bind, runM_tryCatch] at h
    cases h2 : runM (parseMessageHeader decoded) sc with
    | panic p => rw [h2] at h; simp only [bindM_panic, catchM_panic] at h; cases h
    | ok v2 =>
      obtain ⟨v2, sB⟩ := v2
      rw [h2] at h
      have key : sB.conv.theirTag ≠ sc.conv.theirTag → s'.conv.theirTag = sB.conv.theirTag →
          s.conv.theirTag = 0 ∧ s.conv.version ≠ some .v2 ∧ decoded.take 2 = [0, 3] ∧
          ∃ R, headerTags decoded = some (s'.conv.theirTag, R) ∧ tagsWellFormed s'.conv.theirTag R ∧
            (R = 0 ∨ R = s.conv.ourTag) := by
        intro hneB heq
        obtain ⟨g1, g2, R, g3, g4, g5, -⟩ := parseMessageHeader_adopt decoded sc v2 sB h2 hneB
        have hnv2 : s.conv.version ≠ some .v2 := by
          intro hv2
          have hvs2 := (checkVersion_vset decoded s _ sc hc (by rw [hv2]; exact fun e => by cases e)).1
          rw [hv2, g1] at hvs2
          cases hvs2
        rw [g1] at hvs
        simp only [Option.some.injEq] at hvs
        subst hvs
        obtain ⟨ha, hb⟩ := de16_eq_three hnum.symm
        subst ha hb
        refine ⟨ht1 ▸ g2, hnv2, by rw [hdec]; rfl, R, ?_, ?_, ?_⟩
        · rw [heq]; exact g3
        · rw [heq]; exact g4
        · rw [← ho1]; exact g5
      cases v2 with
      | error e =>
        simp only [bindM_ok, bindM_error, catchM_ok, catchM_error, runM_pure, Res.ok.injEq, Prod.mk.injEq] at h
        have hs : s' = sB := h.2.symm
        subst hs
        exact key (fun hh => hne (hh.trans ht1)) rfl
      | ok hb =>
        obtain ⟨header, body⟩ := hb
        simp only [bindM_ok, bindM_error, catchM_ok, catchM_error, runM_pure] at h
        have hst : s'.conv.theirTag = sB.conv.theirTag := by
          simp only [msgEventErr] at h
          exact (by stable [receiveDataMessage_tt, (processAKE_vt K _ _).vt_tt] : Stable TT _) _ _ _ h
        exact key (fun hh => hne (hst.trans (hh.trans ht1))) hst

/-- **the guard of the binding, `receiveDecoded`**: moreover the message was not rejected — the call reports no
    error (a rejected or ignored message is unbound again) -/
theorem receiveDecoded_bind_guard (K : Crypto) (decoded : Bytes) (s s' : MState)
    (r : Except Err (Option Bytes × List Bytes × Option Err))
    (h : runM (receiveDecoded K decoded) s = .ok (r, s')) (hne : s'.conv.theirTag ≠ s.conv.theirTag) :
    s.conv.theirTag = 0 ∧ s.conv.version ≠ some .v2 ∧ decoded.take 2 = [0, 3] ∧
    (∃ R, headerTags decoded = some (s'.conv.theirTag, R) ∧ tagsWellFormed s'.conv.theirTag R ∧
      (R = 0 ∨ R = s.conv.ourTag)) ∧
    ∀ x, r = .ok x → x.2.2 = none := by
  have h0 := h
  unfold receiveDecoded at h0
  rw [runM_bind, runM_getc, bindM_ok, runM_bind] at h0
  cases h1 : runM (receiveDecodedCore K decoded) s with
  | panic p => rw [h1] at h0; cases h0
  | ok v1 =>
    obtain ⟨v1, sA⟩ := v1
    cases v1 with
    | error e =>
      rw [h1] at h0
      simp only [bindM_error, Res.ok.injEq, Prod.mk.injEq] at h0
      obtain ⟨hr, hs⟩ := h0
      subst hr hs
      obtain ⟨g1, g0, g2, g3⟩ := receiveDecodedCore_bind_guard K decoded s sA _ h1 hne
      exact ⟨g1, g0, g2, g3, fun x hx => by cases hx⟩
    | ok x1 =>
      obtain ⟨p, ts, err, rej⟩ := x1
      rw [receiveDecoded_of_core K decoded s sA p ts err rej h1] at h
      simp only [Res.ok.injEq, Prod.mk.injEq] at h
      obtain ⟨hr, hs⟩ := h
      by_cases hc : (err.isSome || rej) = true
      · exfalso
        rw [if_pos hc] at hs
        rw [← hs] at hne
        exact hne rfl
      · rw [if_neg hc] at hs
        subst hs hr
        obtain ⟨g1, g0, g2, g3⟩ := receiveDecodedCore_bind_guard K decoded s sA _ h1 hne
        refine ⟨g1, g0, g2, g3, fun x hx => ?_⟩
        simp only [Except.ok.injEq] at hx
        subst hx
        cases err with
        | none => rfl
        | some e => simp at hc

/-- the tags a byte string carries where `Receive` looks for them: in the header of the decoded version-3
    message for a complete `?OTR:` message of a known type, in the prefix `?OTR|S|R,` for a fragment -/
def carriesTags (msg : Bytes) (S R : Nat) : Prop :=
  ((guessMessageType msg).isOtrMsg = true ∧
    ∃ decoded, decodeEnvelope msg = some decoded ∧ decoded.take 2 = [0, 3] ∧ headerTags decoded = some (S, R)) ∨
  (guessMessageType msg = .fragment ∧ ∃ n, v3PrefixParse msg = some (S, R, n))

/-- what the binding of an unbound conversation guarantees -/
def BindGuard (s : MState) (msg : Bytes) (r : Except Err RecvResult) (s' : MState) : Prop :=
  s.conv.theirTag = 0 ∧ s.conv.version ≠ some .v2 ∧
  (∃ R, carriesTags msg s'.conv.theirTag R ∧ tagsWellFormed s'.conv.theirTag R ∧ (R = 0 ∨ R = s.conv.ourTag)) ∧
  (guessMessageType msg ≠ .fragment → ∀ rr, r = .ok rr → rr.err = none)

theorem finishR_err (fg : Bool) (plain : Option Bytes) (toSend : List Bytes) (err : Option Err) (sf : Bool) :
    ResultOnly (fun rr : RecvResult => rr.err = err) (finishR fg plain toSend err sf) := by
  unfold finishR
  repeat' (first | exact ResultOnly.pure rfl | refine ResultOnly.bind fun _ => ?_ | split)

/-- the branch of `receiveUnit` for complete `?OTR:` messages -/
theorem recvEncoded_bind_guard (K : Crypto) (msg : Bytes) (fg : Bool) (s s' : MState) (r : Except Err RecvResult)
    (hg : (guessMessageType msg).isOtrMsg = true)
    (h : runM (recvEncoded K msg fg) s = .ok (r, s')) (hne : s'.conv.theirTag ≠ s.conv.theirTag) :
    BindGuard s msg r s' := by
  unfold recvEncoded at h
  split at h
  · exact absurd (finishR_tt _ _ _ _ _ _ _ _ h) hne
  · rename_i decoded hdec
    rw [runM_bind] at h
    cases h1 : runM (receiveDecoded K decoded) s with
    | panic p => rw [h1] at h; cases h
    | ok v1 =>
      obtain ⟨v1, sA⟩ := v1
      rw [h1] at h
      cases v1 with
      | error e =>
        simp only [bindM_error, Res.ok.injEq, Prod.mk.injEq] at h
        obtain ⟨hr, hs⟩ := h
        subst hr hs
        obtain ⟨g1, g0, g2, ⟨R, g3, g4, g5⟩, -⟩ := receiveDecoded_bind_guard K decoded s sA _ h1 hne
        exact ⟨g1, g0, ⟨R, Or.inl ⟨hg, decoded, hdec, g2, g3⟩, g4, g5⟩, fun _ rr hx => by cases hx⟩
      | ok x1 =>
        obtain ⟨p, ts, err⟩ := x1
        simp only [bindM_ok] at h
        have htt : s'.conv.theirTag = sA.conv.theirTag := by
          split at h
          · exact finishR_tt _ _ _ _ _ _ _ _ h
          · exact finishR_tt _ _ _ _ _ _ _ _ h
        have hneA : sA.conv.theirTag ≠ s.conv.theirTag := fun hh => hne (htt.trans hh)
        obtain ⟨g1, g0, g2, ⟨R, g3, g4, g5⟩, g6⟩ := receiveDecoded_bind_guard K decoded s sA _ h1 hneA
        have herr : err = none := g6 _ rfl
        subst herr
        refine ⟨g1, g0, ⟨R, Or.inl ⟨hg, decoded, hdec, g2, by rw [htt]; exact g3⟩, by rw [htt]; exact g4, g5⟩,
          fun _ rr hx => ?_⟩
        subst hx
        split at h
        · exact finishR_err _ _ _ _ _ _ _ _ h
        · exact finishR_err _ _ _ _ _ _ _ _ h

/-! ### the fragment layer -/

theorem commitPure_tags (c : Conv) (vs : Nat) :
    (commitPure c vs).2.theirTag = c.theirTag ∧ (commitPure c vs).2.ourTag = c.ourTag := by
  rw [commitPure_frame]
  exact ⟨rfl, rfl⟩

/-- what the prefix of a fragment does to the peer tag: nothing — and then a prefix that is accepted belongs to an
    OTRv2 conversation or to a bound one —, or it binds an unbound conversation that is not committed to OTRv2 to
    the well-formed sender tag of a v3 prefix addressed to us or to nobody -/
theorem prefixPure_tag (c : Conv) (msg : Bytes) :
    ((prefixPure c msg).2.1.theirTag = c.theirTag ∧
      ((prefixPure c msg).1.2.1 = false → (prefixPure c msg).1.2.2 = true →
        (prefixPure c msg).2.1.version = some .v2 ∨ 0x100 ≤ c.theirTag)) ∨
    (c.theirTag = 0 ∧ c.version ≠ some .v2 ∧ ∃ S R n, v3PrefixParse msg = some (S, R, n) ∧
      (prefixPure c msg).2.1.theirTag = S ∧ tagsWellFormed S R ∧ (R = 0 ∨ R = c.ourTag)) := by
  have hct := commitPure_tags c (versionBit (versionFromFragment msg))
  have hcv : c.version = some .v2 →
      (commitPure c (versionBit (versionFromFragment msg))).2.version = some .v2 := by
    intro h; rw [commitPure_committed c .v2 h]; exact h
  unfold prefixPure
  generalize commitPure c (versionBit (versionFromFragment msg)) = cp at hct hcv
  obtain ⟨b, c1⟩ := cp
  obtain ⟨ht, ho⟩ := hct
  simp only at ht ho hcv
  cases b with
  | false =>
    simp only [↓reduceIte]
    exact Or.inl ⟨ht, fun h => by cases h⟩
  | true =>
    simp only [Bool.true_eq_false, ↓reduceIte]
    split
    · exact Or.inl ⟨ht, fun h => by cases h⟩
    · rename_i hv2
      split
      · exact Or.inl ⟨ht, fun _ h => by cases h⟩
      · exact Or.inl ⟨ht, fun _ _ => Or.inl hv2⟩
    · rename_i hv3
      split
      · exact Or.inl ⟨ht, fun _ h => by cases h⟩
      · rename_i sender receiver n hpp
        split
        · refine Or.inl ⟨?_, fun _ h => by cases h⟩
          show (afterMalformed c1).theirTag = _
          rw [← ht]
          unfold afterMalformed
          split <;> rfl
        · rename_i hwf
          simp only [Decidable.not_not] at hwf
          split
          · exact Or.inl ⟨ht, fun h => by cases h⟩
          · rename_i hnf
            by_cases hs : sender = c1.theirTag
            · refine Or.inl ⟨by show sender = _; rw [hs, ht], fun _ _ => Or.inr ?_⟩
              rw [← ht, ← hs]
              unfold tagsWellFormed at hwf
              omega
            · right
              unfold tagsForeign at hnf
              have h0 : c1.theirTag = 0 := by
                apply Decidable.byContradiction
                intro h0
                exact hnf (Or.inr ⟨h0, fun h => hs h.symm⟩)
              have hr : receiver = 0 ∨ receiver = c.ourTag := by
                by_cases hr0 : receiver = 0
                · exact Or.inl hr0
                · right
                  apply Decidable.byContradiction
                  intro hh
                  exact hnf (Or.inl ⟨hr0, fun h => hh (by rw [← ho, h])⟩)
              refine ⟨by rw [← ht]; exact h0, ?_, sender, receiver, n, hpp, rfl, hwf, hr⟩
              intro hv2
              rw [hcv hv2] at hv3
              cases hv3

theorem unbindConv_theirTag (c0 c : Conv) : (unbindConv c0 c).theirTag = c0.theirTag := rfl

theorem fragCtx_empty_not_finished : FragCtx.empty.finished = false := rfl

/-- the conversation in which a fragment leaves the call or in which the reassembled message is processed
    (`fragSettledConv`), as far as the binding goes -/
theorem fragSettledConv_tag (c : Conv) (msg : Bytes) (hfin : c.fragCtx.finished = false) :
    ((fragSettledConv c msg).theirTag = c.theirTag ∧
      (∀ a rest, (fragDeliver c msg).2 = a :: rest →
        (fragSettledConv c msg).version = some .v2 ∨ 0x100 ≤ (fragSettledConv c msg).theirTag)) ∨
    (c.theirTag = 0 ∧ c.version ≠ some .v2 ∧ ∃ S R n, v3PrefixParse msg = some (S, R, n) ∧
      (fragSettledConv c msg).theirTag = S ∧ tagsWellFormed S R ∧ (R = 0 ∨ R = c.ourTag)) := by
  show ((fragPostConv c c.fragCtx msg).theirTag = c.theirTag ∧
      (∀ a rest, (fragDeliver c msg).2 = a :: rest →
        (fragPostConv c c.fragCtx msg).version = some .v2 ∨ 0x100 ≤ (fragPostConv c c.fragCtx msg).theirTag)) ∨
    (c.theirTag = 0 ∧ c.version ≠ some .v2 ∧ ∃ S R n, v3PrefixParse msg = some (S, R, n) ∧
      (fragPostConv c c.fragCtx msg).theirTag = S ∧ tagsWellFormed S R ∧ (R = 0 ∨ R = c.ourTag))
  -- a delivery means: the fragment was parsed, accepted and in sequence
  have hdel : ∀ a rest, (fragDeliver c msg).2 = a :: rest →
      fragIgnored c msg = false ∧ (prefixPure c msg).1.2.2 = true ∧ ¬ fragDiscarded c c.fragCtx msg := by
    intro a rest hd
    have hf : (acceptStep c.fragCtx (fragArrival c msg)).finished = true := by
      rcases fragDeliver_cases c msg with ⟨_, h2⟩ | ⟨h1, _⟩
      · rw [h2] at hd; cases hd
      · exact h1
    rcases fragArrival_cases c c.fragCtx msg with ⟨_, harr⟩ | ⟨_, harr⟩ | ⟨d, ix, l, hpa, harr, _⟩
    · rw [harr, acceptStep_noArrival, hfin] at hf; cases hf
    · rw [harr, acceptStep_noArrival, hfin] at hf; cases hf
    · have hig : fragIgnored c msg = false := by
        cases hig : fragIgnored c msg with
        | false => rfl
        | true => rw [fragParsed_of_ignored _ _ hig] at hpa; cases hpa
      have hok : (prefixPure c msg).1.2.2 = true := by
        unfold fragParsed at hpa
        rw [hig] at hpa
        simp only [Bool.false_eq_true, ↓reduceIte] at hpa
        cases hok : (prefixPure c msg).1.2.2 with
        | true => rfl
        | false => rw [hok] at hpa; simp at hpa
      refine ⟨hig, hok, fun hdisc => ?_⟩
      rw [fragDiscarded_iff] at hdisc
      by_cases hinv : (fragArrival c msg).invalid
      · have : acceptStep c.fragCtx (fragArrival c msg) = c.fragCtx := by
          have hv' : (fragArrival c msg).2.1 = 0 ∨ (fragArrival c msg).2.2 = 0 ∨
              (fragArrival c msg).2.1 > (fragArrival c msg).2.2 := hinv
          unfold acceptStep fragAccept
          rw [if_pos hv']
        rw [this, hfin] at hf; cases hf
      · rcases hdisc.2 with h | h
        · exact hinv h
        · rw [acceptStep_outOfSeq _ _ hinv h, fragCtx_empty_not_finished] at hf; cases hf
  unfold fragPostConv
  split
  · rename_i hcond
    refine Or.inl ⟨unbindConv_theirTag _ _, fun a rest hd => ?_⟩
    obtain ⟨hig, _, hnd⟩ := hdel a rest hd
    rcases hcond with h | h
    · rw [hig] at h; cases h
    · exact absurd h hnd
  · rcases prefixPure_tag c msg with ⟨h1, h2⟩ | h
    · refine Or.inl ⟨h1, fun a rest hd => ?_⟩
      obtain ⟨hig, hok, _⟩ := hdel a rest hd
      rcases h2 hig hok with h | h
      · exact Or.inl h
      · exact Or.inr (by rw [h1]; exact h)
    · exact Or.inr h

/-! ### whole `Receive` -/

theorem msgEvent_tt (n : Nat) : Stable TT (msgEvent n) := by
  unfold msgEvent
  stable []

/-- every branch of `receiveUnit` but the fragment branch and the branch for complete `?OTR:` messages leaves the
    peer tag alone -/
theorem receiveUnit_other_tt (K : Crypto) (fuel : Nat) (msg : Bytes) (fg : Bool)
    (hg : guessMessageType msg ≠ .fragment) (hg2 : (guessMessageType msg).isOtrMsg = false) :
    Stable TT (receiveUnit K (fuel + 1) msg fg) := by
  rw [receiveUnit]
  refine Stable.bind Stable.getc fun c => ?_
  split
  · exact Stable.pure _
  · dsimp only
    split
    all_goals first
      | (rename_i heq; exact absurd heq hg)
      | (rename_i heq; rw [heq] at hg2; exact absurd hg2 (by decide))
      | (stable [receiveErrorMessage_tt, (withInjects_vt _).vt_tt, receiveQueryMessage_tt,
          receiveTaggedPlaintext_tt, (checkPlaintextPolicies_vt _).vt_tt, (toSendEncoded_vt _ _).vt_tt,
          msgEvent_tt]; done)

/-- **(5) the guard of the binding, `receiveUnit`** (induction over the recursion through reassembled fragments) -/
theorem receiveUnit_bind_guard (K : Crypto) : ∀ (fuel : Nat) (msg : Bytes) (fg : Bool) (s : MState)
    (r : Except Err RecvResult) (s' : MState), s.conv.fragCtx.finished = false →
    runM (receiveUnit K fuel msg fg) s = .ok (r, s') → s'.conv.theirTag ≠ s.conv.theirTag →
    BindGuard s msg r s' := by
  intro fuel
  induction fuel with
  | zero =>
    intro msg fg s r s' hfin h hne
    exfalso
    rw [receiveUnit] at h
    simp only [runM_bind, runM_mism, bindM_ok, runM_pure, Res.ok.injEq, Prod.mk.injEq] at h
    rw [← h.2] at hne
    exact hne rfl
  | succ fuel ih =>
    intro msg fg s r s' hfin h hne
    by_cases hp' : isOTREnabled s.conv.policies = false
    · exfalso
      rw [receiveUnit] at h
      simp only [runM_bind, runM_getc, bindM_ok, hp', Bool.not_false, ↓reduceIte, runM_pure, Res.ok.injEq,
        Prod.mk.injEq] at h
      rw [← h.2] at hne
      exact hne rfl
    have hp : isOTREnabled s.conv.policies = true := by
      cases hx : isOTREnabled s.conv.policies with
      | false => exact absurd hx hp'
      | true => rfl
    by_cases hgf : guessMessageType msg = .fragment
    · rw [receiveUnit_fragment_refines K fuel msg fg s hp hgf] at h
      change (match (fragDeliver s.conv msg).2 with
        | [] => _
        | a :: _ => _) = _ at h
      have hfs := fragSettledConv_tag s.conv msg hfin
      -- it suffices that the call ends with the peer tag of the settled conversation
      have fin : s'.conv.theirTag = (fragSettledConv s.conv msg).theirTag → BindGuard s msg r s' := by
        intro hst
        rcases hfs with ⟨h1, _⟩ | ⟨g1, g0, S, R, n, g2, g3, g4, g5⟩
        · exact absurd (hst.trans h1) hne
        · refine ⟨g1, g0, ⟨R, Or.inr ⟨hgf, n, ?_⟩, ?_, g5⟩, fun hh => absurd hgf hh⟩
          · rw [hst, g3]; exact g2
          · rw [hst, g3]; exact g4
      cases hd : (fragDeliver s.conv msg).2 with
      | nil =>
        rw [hd] at h
        simp only [Res.ok.injEq, Prod.mk.injEq] at h
        apply fin
        rw [← h.2]
        rfl
      | cons a rest =>
        obtain ⟨hemp, -, -, -⟩ := fragSettled_forgotten s msg a rest hd
        rw [hd] at h
        simp only at h
        cases hin : runM (receiveUnit K fuel a false) (fragSettled s msg) with
        | panic p => rw [hin] at h; cases h
        | ok v =>
          obtain ⟨ri, s2⟩ := v
          rw [hin] at h
          have hs' : s'.conv.theirTag = s2.conv.theirTag := by
            cases ri with
            | error e =>
              simp only [bindM_error, Res.ok.injEq, Prod.mk.injEq] at h
              rw [← h.2]
            | ok rr =>
              simp only [bindM_ok, Res.ok.injEq, Prod.mk.injEq] at h
              rw [← h.2]
              rfl
          have hinner : s2.conv.theirTag = (fragSettledConv s.conv msg).theirTag := by
            apply Decidable.byContradiction
            intro hc
            have hb := ih a false (fragSettled s msg) ri s2 (by rw [hemp]; rfl) hin hc
            obtain ⟨b1, b0, -⟩ := hb
            have b1' : (fragSettledConv s.conv msg).theirTag = 0 := b1
            have b0' : (fragSettledConv s.conv msg).version ≠ some .v2 := b0
            rcases hfs with ⟨_, h2⟩ | ⟨_, _, S, R, n, _, g3, g4, _⟩
            · rcases h2 a rest hd with hv | ht
              · exact b0' hv
              · omega
            · unfold tagsWellFormed at g4
              omega
          exact fin (hs'.trans hinner)
    · by_cases hgo : (guessMessageType msg).isOtrMsg = true
      · rw [receiveUnit_encoded_eq K fuel msg fg s hp hgo] at h
        exact recvEncoded_bind_guard K msg fg s s' r hgo h hne
      · exfalso
        have hgo' : (guessMessageType msg).isOtrMsg = false := by
          cases hx : (guessMessageType msg).isOtrMsg with
          | false => rfl
          | true => exact absurd hx hgo
        exact hne (receiveUnit_other_tt K fuel msg fg hgf hgo' s r s' h)

/-- **(5) `receive_binds_only_valid` / `receive_theirTag_change_guard`.**  Every conversation state (any version,
    message state, AKE and SMP state; the fragmentation context not a finished one — it never is between calls),
    every byte string, every outcome of `Receive` that is not a panic.  If the peer tag after the call differs from
    the peer tag before, then
    * the conversation was unbound (`theirTag = 0`) and not committed to OTRv2;
    * the input carries, where `Receive` looks for them (`carriesTags`: the header of the decoded version-3 message
      of a complete `?OTR:` message of a known type, or the prefix `?OTR|S|R,` of a fragment), a sender tag `S` that
      is the new peer tag and a receiver tag `R`; both are well formed (`S ≥ 0x100`, `R = 0 ∨ R ≥ 0x100`), and `R` is
      zero or our own tag;
    * a complete message was not rejected: the call reports no error.
    (For a fragment the last point does not hold: `c06_witness_fragment_binds_theirTag` of Proofs.RejectFrame.) -/
theorem receive_theirTag_change_guard (K : Crypto) (msg : Bytes) (s s' : MState) (r : Except Err RecvResult)
    (hfin : s.conv.fragCtx.finished = false)
    (hr : runM (receive K msg) s = .ok (r, s')) (hne : s'.conv.theirTag ≠ s.conv.theirTag) :
    s.conv.theirTag = 0 ∧ s.conv.version ≠ some .v2 ∧
    (∃ R, carriesTags msg s'.conv.theirTag R ∧ tagsWellFormed s'.conv.theirTag R ∧ (R = 0 ∨ R = s.conv.ourTag)) ∧
    (guessMessageType msg ≠ .fragment → ∀ rr, r = .ok rr → rr.err = none) :=
  receiveUnit_bind_guard K _ msg true s r s' hfin hr hne

/-- in the form asked: an unbound conversation that is bound to `t' ≠ 0` afterwards -/
theorem receive_binds_only_valid (K : Crypto) (msg : Bytes) (s s' : MState) (r : Except Err RecvResult)
    (hfin : s.conv.fragCtx.finished = false) (h0 : s.conv.theirTag = 0)
    (hr : runM (receive K msg) s = .ok (r, s')) (hb : s'.conv.theirTag ≠ 0) :
    0x100 ≤ s'.conv.theirTag ∧
    (∃ R, carriesTags msg s'.conv.theirTag R ∧ (R = 0 ∨ (R = s.conv.ourTag ∧ 0x100 ≤ R))) ∧
    (guessMessageType msg ≠ .fragment → ∀ rr, r = .ok rr → rr.err = none) := by
  obtain ⟨-, -, ⟨R, g1, g2, g3⟩, g4⟩ :=
    receive_theirTag_change_guard K msg s s' r hfin hr (by rw [h0]; exact hb)
  unfold tagsWellFormed at g2
  refine ⟨by omega, ⟨R, g1, ?_⟩, g4⟩
  rcases g3 with g3 | g3
  · exact Or.inl g3
  · by_cases hR : R = 0
    · exact Or.inl hR
    · exact Or.inr ⟨g3, by omega⟩

/-- a bound conversation stays bound to the same instance, whatever is received -/
theorem receive_bound_stays (K : Crypto) (msg : Bytes) (s s' : MState) (r : Except Err RecvResult)
    (hfin : s.conv.fragCtx.finished = false) (hb : s.conv.theirTag ≠ 0)
    (hr : runM (receive K msg) s = .ok (r, s')) : s'.conv.theirTag = s.conv.theirTag := by
  apply Decidable.byContradiction
  intro hne
  exact hb (receive_theirTag_change_guard K msg s s' r hfin hr hne).1

/-- malformed tags never bind, from any state: a complete message whose header tags are malformed, or a fragment
    whose prefix tags are malformed, leaves the peer tag as it was -/
theorem receive_malformed_never_binds (K : Crypto) (msg : Bytes) (s s' : MState) (r : Except Err RecvResult)
    (hfin : s.conv.fragCtx.finished = false)
    (hm : ∀ S R, carriesTags msg S R → ¬ tagsWellFormed S R)
    (hr : runM (receive K msg) s = .ok (r, s')) : s'.conv.theirTag = s.conv.theirTag := by
  apply Decidable.byContradiction
  intro hne
  obtain ⟨-, -, ⟨R, g1, g2, -⟩, -⟩ := receive_theirTag_change_guard K msg s s' r hfin hr hne
  exact hm _ _ g1 g2

/-- (3), from ANY state (any version, bound or not, OTR enabled or not): a complete message whose header tags are
    malformed leaves the peer tag as it was — in particular an unbound conversation stays unbound -/
theorem receive_malformed_message_never_binds (K : Crypto) (msg : Bytes) (s s' : MState)
    (r : Except Err RecvResult) (decoded : Bytes) (S R : Nat)
    (hfin : s.conv.fragCtx.finished = false)
    (hg : (guessMessageType msg).isOtrMsg = true) (hd : decodeEnvelope msg = some decoded)
    (ht : headerTags decoded = some (S, R)) (hm : S < 0x100 ∨ (0 < R ∧ R < 0x100))
    (hr : runM (receive K msg) s = .ok (r, s')) : s'.conv.theirTag = s.conv.theirTag := by
  refine receive_malformed_never_binds K msg s s' r hfin ?_ hr
  rintro S' R' (⟨-, d', hd', -, ht'⟩ | ⟨hf, -⟩)
  · rw [hd] at hd'
    simp only [Option.some.injEq] at hd'
    subst hd'
    rw [ht] at ht'
    simp only [Option.some.injEq, Prod.mk.injEq] at ht'
    obtain ⟨rfl, rfl⟩ := ht'
    unfold tagsWellFormed
    omega
  · rw [hf] at hg
    cases hg

/-- the same for a fragment whose prefix tags are malformed -/
theorem receive_malformed_fragment_never_binds (K : Crypto) (msg : Bytes) (s s' : MState)
    (r : Except Err RecvResult) (S R n : Nat)
    (hfin : s.conv.fragCtx.finished = false)
    (hg : guessMessageType msg = .fragment) (hpp : v3PrefixParse msg = some (S, R, n))
    (hm : S < 0x100 ∨ (0 < R ∧ R < 0x100))
    (hr : runM (receive K msg) s = .ok (r, s')) : s'.conv.theirTag = s.conv.theirTag := by
  refine receive_malformed_never_binds K msg s s' r hfin ?_ hr
  rintro S' R' (⟨ho, -⟩ | ⟨-, n', hpp'⟩)
  · rw [hg] at ho
    cases ho
  · rw [hpp] at hpp'
    simp only [Option.some.injEq, Prod.mk.injEq] at hpp'
    obtain ⟨rfl, rfl, -⟩ := hpp'
    unfold tagsWellFormed
    omega

/-! ## 6. witnesses: the hypotheses are satisfiable, the theorems say something -/

/-- a conversation committed to OTRv3, bound to the peer instance `0x100`, own tag `0x101`, that has collected the
    first of two fragments -/
def wBound : MState :=
  ⟨{ version := some .v3, policies := allowV3, ourTag := 0x101, theirTag := 0x100, fragCtx := ⟨[65], 1, 2⟩ },
   {}, [], []⟩

/-- a v3 data message (type 3, arbitrary rest `09 09`) from sender `S` to receiver `R` -/
def wDataBody (S R : Nat) : Bytes := 0 :: 3 :: 3 :: (be32 S ++ be32 R ++ [9, 9])
def wDataMsg (S R : Nat) : Bytes := msgMarker ++ b64encode (wDataBody S R) ++ [46]

theorem wDataMsg_covered (S R : Nat) (hS : S < 4294967296) (hR : R < 4294967296) :
    (guessMessageType (wDataMsg S R)).isOtrMsg = true ∧ decodeEnvelope (wDataMsg S R) = some (wDataBody S R) ∧
    (wDataBody S R).take 2 = [0, 3] ∧ headerTags (wDataBody S R) = some (S, R) :=
  ⟨(armour_v3_known 3 _ (Or.inr (Or.inl rfl))).1, (armour_v3_known 3 _ (Or.inr (Or.inl rfl))).2, rfl,
    headerTags_be32 0 3 3 S R [9, 9] hS hR⟩

/-- (1) instantiated: a data message from the instance `0x200` to us -/
theorem tags_witness_foreign_sender :
    runM (receive Crypto.dummy (wDataMsg 0x200 0x101)) wBound =
      .ok (.ok ⟨none, [], none⟩, { wBound with events := ["msg:15"] }) := by
  obtain ⟨h1, h2, h3, h4⟩ := wDataMsg_covered 0x200 0x101 (by decide) (by decide)
  exact receive_foreign_sender_ignored Crypto.dummy _ wBound _ 0x200 0x101 (by decide) rfl h1 h2 h3 h4
    (by decide) (by decide) (by decide) (by decide)

/-- (2) instantiated: a data message from the peer to another instance `0x300` of ours -/
theorem tags_witness_foreign_receiver :
    runM (receive Crypto.dummy (wDataMsg 0x100 0x300)) wBound =
      .ok (.ok ⟨none, [], none⟩, { wBound with events := ["msg:15"] }) := by
  obtain ⟨h1, h2, h3, h4⟩ := wDataMsg_covered 0x100 0x300 (by decide) (by decide)
  exact receive_foreign_receiver_ignored Crypto.dummy _ wBound _ 0x100 0x300 (by decide) rfl h1 h2 h3 h4
    (by decide) (by decide) (by decide)

/-- (3) instantiated: sender tag `0x42`: rejected, and the collected fragment is gone -/
theorem tags_witness_malformed :
    runM (receive Crypto.dummy (wDataMsg 0x42 0x101)) wBound =
      .ok (.ok ⟨none, [], some .invalidMessage⟩,
        { wBound with conv := { wBound.conv with fragCtx := FragCtx.empty }, events := ["msg:9"] }) := by
  obtain ⟨h1, h2, h3, h4⟩ := wDataMsg_covered 0x42 0x101 (by decide) (by decide)
  exact receive_malformed_tag_rejected Crypto.dummy _ wBound _ 0x42 0x101 (by decide) rfl h1 h2 h3 h4
    (Or.inl (by decide))

/-- a piece (2 of 2) as the instance `0x200` would send it to us -/
def wForeignPiece : Bytes := fragTag .v3 0x200 0x101 ++ strBytes "00002,00002,QQ==,"

/-- (4) instantiated: the piece from another instance is ignored, the fragment collected from the peer is kept -/
theorem tags_witness_foreign_fragment :
    runM (receive Crypto.dummy wForeignPiece) wBound =
      .ok (.ok ⟨none, [], none⟩, { wBound with events := ["msg:15", "msg:15"] }) := by
  obtain ⟨h1, h2⟩ := fragTag_covered 0x200 0x101 (strBytes "00002,00002,QQ==,") (by decide) (by decide)
  exact receive_foreign_fragment_ignored Crypto.dummy _ wBound 0x200 0x101 23 (by decide) rfl h1 h2
    (by decide) (tagsForeign_of_sender _ _ _ (by decide) (by decide)) rfl

/-- an unbound conversation (own tag `0x101`, no version yet) with the randomness its DH-Key reply draws -/
def wUnbound : MState :=
  ⟨{ policies := allowV2 + allowV3, ourKeys := [wKey], ourTag := 0x101 },
   { rand := [some (List.replicate 40 1)] }, [], []⟩

/-- a v3 DH-Commit message from the instance `0x100` to the instance `0x101` -/
def wCommitV3 : Bytes :=
  msgMarker ++ b64encode (0 :: 3 :: 2 :: (be32 0x100 ++ be32 0x101 ++ [0, 0, 0, 1, 5, 0, 0, 0, 1, 7])) ++ [46]

/-- (5) is not vacuous: this message binds the unbound conversation to its sender `0x100` (accepted: no error,
    the DH-Key reply is sent) -/
theorem tags_witness_binds :
    ∃ (r : RecvResult) (s' : MState), runM (receive Crypto.dummy wCommitV3) wUnbound = .ok (.ok r, s') ∧
      (r.err = none ∧ r.toSend.length = 1 ∧ wUnbound.conv.theirTag = 0 ∧ s'.conv.theirTag = 0x100 ∧
       s'.conv.version = some .v3 ∧ wUnbound.conv.fragCtx.finished = false) :=
  run_witness (by decide +kernel)

end Otr
