/-
  Proofs.Events — property C18, "lifecycle and security events", at the level of whole API calls.

  The security events (`sec:0` GoneInsecure, `sec:1` GoneSecure, `sec:2` StillSecure) are recorded in the event
  log of the model state (`MState.events`).  The message state has three writers: `akeHasFinished`,
  `endSession`, `processDisconnectedTLV`.  This file walks through every function reachable from an API call
  and shows that each non-panicking run is of one of four kinds (relations between start and final state):

    Life  — "quiet": message state, its time stamp `lastMessageStateChange` and the clock unchanged, the events
            appended contain no security event (everything except the three writers);
    Down  — quiet steps and peer disconnects: message state unchanged or → finished; the security events
            appended are [GoneInsecure] if the conversation was encrypted and is not any more, [] otherwise
            (transitive: a second disconnect TLV in the same message finds the state finished);
    Fin   — quiet; one `akeHasFinished`; quiet: message state → encrypted, stamped with the clock, security events
            appended: [StillSecure] if it was encrypted, [GoneSecure] otherwise;
    Ended — quiet; the tail of `endSession`: → plainText, stamp cleared, [GoneInsecure] iff it was encrypted.

  Main theorems: `apiCall_kind`, `apiCall_security_events` (+ `_fresh_clock`), `apiCall_msgState_edges`,
  `api_sequence_events_balance` (+ `_from`); the function `secEventsOf` with its case lemmas
  `secEventsOf_*_iff`, `secEventsOf_length_le_one`; at the level of the AKE state machine
  `recvSig_completes`, `recvRevealSig_completes` (the exchange completes iff the handler returns the next
  authentication state `none`).  None of them needs the invariant or `CryptoOK`: the
  hypothesis is just that the call does not panic (which `Proofs.NoPanic` guarantees from `Inv`; the combination
  is in Proofs.EventsFresh, which cannot be imported together with Proofs.Fixes2 / Props.C18: `Otr.Inv` of
  Proofs.NoPanicBase and of Proofs.Ratchet exclude each other; for the same reason this file does not import
  Proofs.AkeGuard and has its own `isSecTag`, the same function as `isSecEvent` there).
-/
import Proofs.Api
import Proofs.ConvData
set_option linter.unusedSimpArgs false
set_option linter.unusedVariables false
namespace Otr

/-! ## 1. security events in the log -/

/-- the log entries that are security events: GoneInsecure, GoneSecure, StillSecure -/
def isSecTag (e : String) : Bool := e == "sec:0" || e == "sec:1" || e == "sec:2"

theorem Stable.weaken {α} {R Q : MState → MState → Prop} (h : ∀ s s', R s s' → Q s s') {x : M α}
    (hx : Stable R x) : Stable Q x := fun s r s' hr => h s s' (hx s r s' hr)

inductive SecurityEvent where
  | goneInsecure | goneSecure | stillSecure
  deriving Repr, DecidableEq, Inhabited

/-- the log entry of a security event (Otr/Conv.lean: `secEvent n` writes `sec:n`) -/
def SecurityEvent.tag : SecurityEvent → String
  | .goneInsecure => "sec:0" | .goneSecure => "sec:1" | .stillSecure => "sec:2"

def SecurityEvent.ofTag (e : String) : Option SecurityEvent :=
  if e = "sec:0" then some .goneInsecure else if e = "sec:1" then some .goneSecure
  else if e = "sec:2" then some .stillSecure else none

/-- the security events among the entries of an event log, in order -/
def secEventsIn (evs : List String) : List SecurityEvent := evs.filterMap SecurityEvent.ofTag

/-- **which security events a transition of the message state raises.**  `completed`: a key exchange completed. -/
def secEventsOf (before after : MsgState) (completed : Bool) : List SecurityEvent :=
  if before ≠ .encrypted ∧ after = .encrypted then [.goneSecure]
  else if before = .encrypted ∧ after = .encrypted ∧ completed = true then [.stillSecure]
  else if before = .encrypted ∧ after ≠ .encrypted then [.goneInsecure]
  else []

theorem secEventsIn_append (a b : List String) : secEventsIn (a ++ b) = secEventsIn a ++ secEventsIn b :=
  List.filterMap_append

theorem ofTag_isSome (e : String) : (SecurityEvent.ofTag e).isSome = isSecTag e := by
  unfold SecurityEvent.ofTag isSecTag
  by_cases h0 : e = "sec:0"
  · subst h0; rfl
  · by_cases h1 : e = "sec:1"
    · subst h1; rfl
    · by_cases h2 : e = "sec:2"
      · subst h2; rfl
      · simp [h0, h1, h2]

theorem secEventsIn_eq_filter (evs : List String) :
    secEventsIn evs = secEventsIn (evs.filter isSecTag) := by
  induction evs with
  | nil => rfl
  | cons e l ih =>
    unfold secEventsIn at *
    rw [List.filter_cons]
    cases h : isSecTag e with
    | true =>
      simp only [if_true, List.filterMap_cons]
      rw [ih]
    | false =>
      have : SecurityEvent.ofTag e = none := by
        have := ofTag_isSome e
        rw [h] at this
        cases h' : SecurityEvent.ofTag e with
        | none => rfl
        | some v => rw [h'] at this; cases this
      simp only [Bool.false_eq_true, if_false, List.filterMap_cons, this]
      exact ih

theorem isSecTag_false_of_take (e : String) (h : e.toList.take 2 ≠ ['s', 'e']) : isSecTag e = false := by
  unfold isSecTag
  cases h0 : (e == "sec:0") with
  | true => rw [beq_iff_eq] at h0; subst h0; exact absurd (by decide) h
  | false =>
  cases h1 : (e == "sec:1") with
  | true => rw [beq_iff_eq] at h1; subst h1; exact absurd (by decide) h
  | false =>
  cases h2 : (e == "sec:2") with
  | true => rw [beq_iff_eq] at h2; subst h2; exact absurd (by decide) h
  | false => rfl

theorem isSecTag_prefix (p x : String) (a b : Char) (l : List Char) (hp : p.toList = a :: b :: l)
    (hab : [a, b] ≠ ['s', 'e']) : isSecTag (p ++ x) = false := by
  apply isSecTag_false_of_take
  rw [String.toList_append, hp]
  exact hab

/-- message, extra-key and SMP events are not security events, whatever their arguments -/
theorem notSec_msg (x : String) : isSecTag ("msg:" ++ x) = false :=
  isSecTag_prefix "msg:" x 'm' 's' ['g', ':'] (by decide) (by decide)
theorem notSec_key (x : String) : isSecTag ("key:" ++ x) = false :=
  isSecTag_prefix "key:" x 'k' 'e' ['y', ':'] (by decide) (by decide)
theorem notSec_smp (x : String) : isSecTag ("smp:" ++ x) = false :=
  isSecTag_prefix "smp:" x 's' 'm' ['p', ':'] (by decide) (by decide)

/-! ## 2. the quiet frame `Life` -/

/-- a quiet step: message state, its stamp and the clock unchanged; events only appended, no security event -/
def Life (s s' : MState) : Prop :=
  s'.conv.msgState = s.conv.msgState ∧ s'.conv.lastMessageStateChange = s.conv.lastMessageStateChange ∧
  s'.env.now = s.env.now ∧ ∃ evs, s'.events = s.events ++ evs ∧ evs.filter isSecTag = []

theorem Life.refl (s : MState) : Life s s := ⟨rfl, rfl, rfl, [], by simp, rfl⟩

theorem Life.trans {a b c : MState} (h1 : Life a b) (h2 : Life b c) : Life a c := by
  obtain ⟨m1, l1, n1, e1, he1, hf1⟩ := h1
  obtain ⟨m2, l2, n2, e2, he2, hf2⟩ := h2
  refine ⟨m2.trans m1, l2.trans l1, n2.trans n1, e1 ++ e2, ?_, ?_⟩
  · rw [he2, he1, List.append_assoc]
  · rw [List.filter_append, hf1, hf2]; rfl

instance : Frame Life where
  refl := Life.refl
  trans := Life.trans

/-- a change of the conversation that leaves message state and stamp alone -/
theorem Life.conv {s : MState} {c : Conv} (h1 : c.msgState = s.conv.msgState)
    (h2 : c.lastMessageStateChange = s.conv.lastMessageStateChange) : Life s { s with conv := c } :=
  ⟨h1, h2, rfl, [], by simp, rfl⟩

theorem Life.mism (s : MState) (e : String) : Life s { s with mismatch := s.mismatch ++ [e] } :=
  ⟨rfl, rfl, rfl, [], by simp, rfl⟩

theorem Life.ev (s : MState) (e : String) (he : isSecTag e = false) :
    Life s { s with events := s.events ++ [e] } :=
  ⟨rfl, rfl, rfl, [e], rfl, by simp [List.filter_cons, he]⟩

/-- consuming randomness / signing-oracle answers, diagnostics -/
theorem Life.env {s : MState} {env' : Env} {mm' : List String} (h : env'.now = s.env.now) :
    Life s { s with env := env', mismatch := mm' } :=
  ⟨rfl, rfl, h, [], by simp, rfl⟩

/-- a frame that keeps the whole event log, the clock, message state and stamp is quiet -/
theorem Life.of_eq {s s' : MState} (hm : s'.conv.msgState = s.conv.msgState)
    (hl : s'.conv.lastMessageStateChange = s.conv.lastMessageStateChange) (hn : s'.env.now = s.env.now)
    (he : s'.events = s.events) : Life s s' :=
  ⟨hm, hl, hn, [], by simp [he], rfl⟩

theorem ev_life (e : String) (he : isSecTag e = false) : Stable Life (ev e) :=
  Stable.ev _ (fun s => Life.ev s e he)

/-- side condition of an `ev`: the entry is not a security event -/
macro "not_sec" : tactic => `(tactic| first
  | decide
  | (simp only [toString, String.append_assoc, notSec_msg, notSec_key, notSec_smp]; done)
  | (simp only [msgEvent, msgEventMsg, msgEventErr, smpEvent, smpEventQ, toString, String.append_assoc,
      notSec_msg, notSec_key, notSec_smp]; done))

/-- the leaves of a walk: state updates and events -/
macro "life_leaf" : tactic => `(tactic| first
  | exact Stable.modc _ (fun _ => Life.conv rfl rfl)
  | (refine Stable.modc _ (fun s => Life.conv ?_ ?_) <;> ((try dsimp only); split <;> rfl))
  | exact Stable.mism _ (fun s => Life.mism s _)
  | exact ev_life _ (by not_sec))

macro "life_core" : tactic => `(tactic| first
  | exact Stable.pure _ | exact Stable.throw _ | exact Stable.goPanic _
  | exact Stable.getc | exact Stable.get | exact Stable.now
  | life_leaf
  | with_reducible apply Stable.bind | with_reducible apply Stable.tryCatch
  | with_reducible apply Stable.ite | with_reducible apply Stable.map
  | with_reducible apply Stable.forIn)

/-- `life_walk [lemmas]`: as `stable [lemmas]`, for the frame `Life` -/
syntax "life_walk" "[" term,* "]" : tactic
macro_rules
  | `(tactic| life_walk [$ls,*]) => do
    let tacs ← ls.getElems.mapM fun l => `(tactic| with_reducible apply $l)
    `(tactic| repeat' (first | life_core $[| $tacs:tactic]* | with_reducible intro _ | split | dsimp only))

theorem Life.ofSendFrame {α} {x : M α} (h : Stable SendFrame x) : Stable Life x := by
  intro s r s' hr
  have hk := h s r s' hr
  simp only [Keeps, sendKept, Prod.mk.injEq] at hk
  exact Life.of_eq hk.2.2.2.2.1 hk.2.2.2.2.2.2.1 hk.2.1 hk.1

/-! ### events -/

theorem msgEvent_life (n : Nat) : Stable Life (msgEvent n) := by
  unfold msgEvent; life_walk []
theorem msgEventMsg_life (n : Nat) (m : Bytes) : Stable Life (msgEventMsg n m) := by
  unfold msgEventMsg; life_walk []
theorem msgEventErr_life (n : Nat) : Stable Life (msgEventErr n) := by
  unfold msgEventErr; life_walk []
theorem smpEvent_life (n p : Nat) : Stable Life (smpEvent n p) := by
  unfold smpEvent; life_walk []
theorem smpEventQ_life (n p : Nat) (q : Bytes) : Stable Life (smpEventQ n p q) := by
  unfold smpEventQ; life_walk []

/-! ### randomness, headers, the sending path -/

theorem randRead_life (n : Nat) : Stable Life (randRead n) :=
  randRead_stable (fun s env' mm' h => Life.env h.1) n

theorem randomInto_life (n : Nat) : Stable Life (randomInto n) := by
  unfold randomInto; life_walk [randRead_life]

theorem signOracle_life (mb : Bytes) : Stable Life (signOracle mb) := by
  intro s r s' h
  unfold signOracle at h
  simp only [runM_bind, runM_get, bindM_ok] at h
  split at h
  · simp only [runM_bind, runM_mism, bindM_ok, runM_pure, Res.ok.injEq, Prod.mk.injEq] at h
    rw [← h.2]; exact Life.mism s _
  · simp only [runM_bind, runM_set, bindM_ok] at h
    split at h
    · simp only [runM_bind, runM_mism, bindM_ok, runM_pure, Res.ok.injEq, Prod.mk.injEq] at h
      rw [← h.2]
      exact ⟨rfl, rfl, rfl, [], by simp, rfl⟩
    · simp only [runM_pure, bindM_ok, Res.ok.injEq, Prod.mk.injEq] at h
      rw [← h.2]
      exact ⟨rfl, rfl, rfl, [], by simp, rfl⟩

theorem messageHeader_life (t : Nat) : Stable Life (messageHeader t) :=
  Life.ofSendFrame (messageHeader_sendFrame t)

theorem wrapMessageHeader_life (t : Nat) (m : Bytes) : Stable Life (wrapMessageHeader t m) := by
  unfold wrapMessageHeader; life_walk [messageHeader_life]

theorem genDataMsgWithFlag_life (K : Crypto) (m : Bytes) (f : Nat) (tlvs : List Tlv) :
    Stable Life (genDataMsgWithFlag K m f tlvs) :=
  Life.ofSendFrame (genDataMsgWithFlag_sendFrame K m f tlvs)

theorem createSerializedDataMessage_life (K : Crypto) (m : Bytes) (f : Nat) (tlvs : List Tlv) :
    Stable Life (createSerializedDataMessage K m f tlvs) :=
  Life.ofSendFrame (createSerializedDataMessage_sendFrame K m f tlvs)

theorem updateLastSent_life : Stable Life updateLastSent := by
  unfold updateLastSent; life_walk []

theorem fragEncode_life (msg : Bytes) : Stable Life (fragEncode msg) := by
  unfold fragEncode; life_walk []

theorem withInjects_life (vms : List Bytes) : Stable Life (withInjects vms) := by
  unfold withInjects; life_walk []

theorem generatePotentialErrorMessage_life (code : Nat) : Stable Life (generatePotentialErrorMessage code) := by
  unfold generatePotentialErrorMessage; life_walk []

theorem malformedMessage_life : Stable Life malformedMessage := by
  unfold malformedMessage; life_walk [msgEvent_life, generatePotentialErrorMessage_life]

theorem resendLater_life (m : Bytes) : Stable Life (resendLater m) := by
  unfold resendLater; life_walk []

theorem resendLast_life (m : Bytes) : Stable Life (resendLast m) := by
  unfold resendLast; life_walk []

/-! ### version, instance tags, headers -/

theorem setKeyMatchingVersion_life : Stable Life setKeyMatchingVersion := by
  unfold setKeyMatchingVersion; life_walk []

theorem commitToVersionFrom_life (vs : Nat) : Stable Life (commitToVersionFrom vs) := by
  unfold commitToVersionFrom; life_walk [setKeyMatchingVersion_life]

theorem checkVersion_life (m : Bytes) : Stable Life (checkVersion m) := by
  unfold checkVersion; life_walk [commitToVersionFrom_life]

theorem verifyInstanceTags_life (their our : Nat) : Stable Life (verifyInstanceTags their our) := by
  unfold verifyInstanceTags; life_walk [malformedMessage_life, msgEvent_life]

theorem parseMessageHeader_life (m : Bytes) : Stable Life (parseMessageHeader m) := by
  unfold parseMessageHeader; life_walk [malformedMessage_life, verifyInstanceTags_life]

/-! ### fragments -/

theorem parseFragmentPrefix_life (d : Bytes) : Stable Life (parseFragmentPrefix d) := by
  unfold parseFragmentPrefix; life_walk [commitToVersionFrom_life, verifyInstanceTags_life]

theorem receiveFragment_life (b : FragCtx) (d : Bytes) : Stable Life (receiveFragment b d) := by
  unfold receiveFragment; life_walk [parseFragmentPrefix_life, msgEvent_life]

theorem toSendEncoded_life (ts : List Bytes) (e : Option Err) : Stable Life (toSendEncoded ts e) := by
  unfold toSendEncoded; life_walk [fragEncode_life]

/-! ### the AKE, everything except `akeHasFinished` -/

theorem getAke_life : Stable Life getAke := by
  unfold getAke; life_walk []
theorem modAke_life (f : Ake → Ake) : Stable Life (modAke f) := by
  unfold modAke; life_walk []
theorem optNat_life (site : String) (v : Option Nat) : Stable Life (optNat site v) := by
  unfold optNat; life_walk []
theorem akeEncrypt_life (K : Crypto) (key data : Bytes) : Stable Life (akeEncrypt K key data) := by
  unfold akeEncrypt; life_walk []
theorem resToM_life {α} (r : Res α) : Stable Life (resToM r) := by
  unfold resToM; life_walk []
theorem initAKE_life : Stable Life initAKE := by
  unfold initAKE; life_walk []
theorem setSecretExponent_life (K : Crypto) (x : Bytes) : Stable Life (setSecretExponent K x) := by
  unfold setSecretExponent; life_walk [modAke_life]

theorem generateEncryptedSignature_life (K : Crypto) (key : AkeKeys) :
    Stable Life (generateEncryptedSignature K key) := by
  unfold generateEncryptedSignature
  life_walk [getAke_life, optNat_life, signOracle_life, akeEncrypt_life]

theorem calcAKEKeys_life (K : Crypto) : Stable Life (calcAKEKeys K) := by
  unfold calcAKEKeys; life_walk [getAke_life, optNat_life, modAke_life]

theorem serializeDHCommit_life (K : Crypto) : Stable Life (serializeDHCommit K) := by
  unfold serializeDHCommit; life_walk [getAke_life, optNat_life]
theorem serializeDHKey_life : Stable Life serializeDHKey := by
  unfold serializeDHKey; life_walk [getAke_life, optNat_life]

theorem dhCommitMessage_life (K : Crypto) : Stable Life (dhCommitMessage K) := by
  unfold dhCommitMessage
  life_walk [initAKE_life, randomInto_life, setSecretExponent_life, modAke_life, getAke_life, optNat_life,
    akeEncrypt_life, serializeDHCommit_life]

theorem dhKeyMessage_life (K : Crypto) : Stable Life (dhKeyMessage K) := by
  unfold dhKeyMessage
  life_walk [initAKE_life, randomInto_life, setSecretExponent_life, serializeDHKey_life]

theorem revealSigMessage_life (K : Crypto) : Stable Life (revealSigMessage K) := by
  unfold revealSigMessage
  life_walk [calcAKEKeys_life, modAke_life, getAke_life, generateEncryptedSignature_life, resToM_life]

theorem sigMessage_life (K : Crypto) : Stable Life (sigMessage K) := by
  unfold sigMessage
  life_walk [modAke_life, getAke_life, generateEncryptedSignature_life, resToM_life]

theorem processDHCommit_life (m : Bytes) : Stable Life (processDHCommit m) := by
  unfold processDHCommit; life_walk [modAke_life]

theorem processDHKey_life (m : Bytes) : Stable Life (processDHKey m) := by
  unfold processDHKey; life_walk [modAke_life, getAke_life]

theorem processEncryptedSig_life (K : Crypto) (es tm : Bytes) (keys : AkeKeys) :
    Stable Life (processEncryptedSig K es tm keys) := by
  unfold processEncryptedSig; life_walk [modAke_life, getAke_life, optNat_life]

theorem processRevealSig_life (K : Crypto) (m : Bytes) : Stable Life (processRevealSig K m) := by
  unfold processRevealSig
  life_walk [modAke_life, getAke_life, calcAKEKeys_life, processEncryptedSig_life]

theorem processSig_life (K : Crypto) (m : Bytes) : Stable Life (processSig K m) := by
  unfold processSig; life_walk [getAke_life, processEncryptedSig_life]

theorem akeSetTheirCurrent_life : Stable Life akeSetTheirCurrent := by
  unfold akeSetTheirCurrent; life_walk [modAke_life, getAke_life, optNat_life]
theorem akeSetOurCurrent_life : Stable Life akeSetOurCurrent := by
  unfold akeSetOurCurrent; life_walk [modAke_life, getAke_life, optNat_life]

theorem recvDHCommitNone_life (K : Crypto) (m : Bytes) : Stable Life (recvDHCommitNone K m) := by
  unfold recvDHCommitNone akeTry
  life_walk [modAke_life, dhKeyMessage_life, wrapMessageHeader_life, processDHCommit_life]

theorem recvDHCommit_life (K : Crypto) (st : AuthState) (m : Bytes) : Stable Life (recvDHCommit K st m) := by
  unfold recvDHCommit akeTry
  life_walk [recvDHCommitNone_life, modAke_life, processDHCommit_life, wrapMessageHeader_life, serializeDHKey_life,
    serializeDHCommit_life, getAke_life, optNat_life]

theorem recvDHKey_life (K : Crypto) (st : AuthState) (m : Bytes) : Stable Life (recvDHKey K st m) := by
  unfold recvDHKey akeTry
  life_walk [processDHKey_life, revealSigMessage_life, wrapMessageHeader_life, akeSetTheirCurrent_life,
    akeSetOurCurrent_life, modAke_life]

theorem sendDHCommit_life (K : Crypto) : Stable Life (sendDHCommit K) := by
  unfold sendDHCommit
  life_walk [dhCommitMessage_life, wrapMessageHeader_life, modAke_life]

theorem retransmit_life (K : Crypto) : Stable Life (retransmit K) := by
  unfold retransmit
  life_walk [genDataMsgWithFlag_life, wrapMessageHeader_life, msgEvent_life, updateLastSent_life]

theorem maybeRetransmit_life (K : Crypto) : Stable Life (maybeRetransmit K) := by
  unfold maybeRetransmit; life_walk [retransmit_life]

theorem retransmitAfterCompletedExchange_life (K : Crypto) (b a : AuthState) (e : Option Err) :
    Stable Life (retransmitAfterCompletedExchange K b a e) := by
  unfold retransmitAfterCompletedExchange
  life_walk [maybeRetransmit_life, genDataMsgWithFlag_life, wrapMessageHeader_life]

/-! ### SMP -/

theorem smpSecretFor_life (K : Crypto) (i : Bool) (sec : Bytes) : Stable Life (smpSecretFor K i sec) := by
  unfold smpSecretFor; life_walk []
theorem paramLen_life : Stable Life paramLen := by
  unfold paramLen; life_walk []
theorem randMPIs_life (k len : Nat) : Stable Life (randMPIs k len) := by
  induction k with
  | zero => unfold randMPIs; life_walk []
  | succ k ih => unfold randMPIs; life_walk [randRead_life, ih]
theorem smpIsGroupElement_life : Stable Life smpIsGroupElement := by
  unfold smpIsGroupElement; life_walk []
theorem smpWipe_life : Stable Life smpWipe := by
  unfold smpWipe; life_walk []
theorem setSmpState_life (st : SmpState) : Stable Life (setSmpState st) := by
  unfold setSmpState; life_walk []
theorem smpAbortWith_life (n : Nat) : Stable Life (smpAbortWith n) := by
  unfold smpAbortWith; life_walk [smpEvent_life, setSmpState_life]

theorem startAuthenticateExpect1_life (K : Crypto) (q sec : Bytes) :
    Stable Life (startAuthenticateExpect1 K q sec) := by
  unfold startAuthenticateExpect1
  life_walk [smpSecretFor_life, paramLen_life, randMPIs_life]

theorem startAuthenticate_life (K : Crypto) (q sec : Bytes) : Stable Life (startAuthenticate K q sec) := by
  unfold startAuthenticate
  life_walk [startAuthenticateExpect1_life, createSerializedDataMessage_life]

theorem continueSMP_life (K : Crypto) (sec : Bytes) : Stable Life (continueSMP K sec) := by
  unfold continueSMP
  life_walk [smpSecretFor_life, paramLen_life, randMPIs_life, smpEvent_life]

theorem provideAuthenticationSecret_life (K : Crypto) (sec : Bytes) :
    Stable Life (provideAuthenticationSecret K sec) := by
  unfold provideAuthenticationSecret
  life_walk [continueSMP_life, createSerializedDataMessage_life]

theorem abortAuthentication_life (K : Crypto) : Stable Life (abortAuthentication K) := by
  unfold abortAuthentication
  life_walk [createSerializedDataMessage_life]

open ConvData in
theorem smpBody_life (K : Crypto) (t : Tlv) (st : SmpState) (isGE : Nat → Bool) :
    Stable Life (smpBody K t st isGE) := by
  unfold smpBody
  life_walk [setSmpState_life, smpEvent_life, smpEventQ_life, smpAbortWith_life, paramLen_life,
    randMPIs_life, randRead_life, optNat_life, smpWipe_life]

open ConvData in
theorem processSMPTLV_life (K : Crypto) (t : Tlv) : Stable Life (processSMPTLV K t) := by
  rw [processSMPTLV_eq]
  life_walk [setSmpState_life, smpIsGroupElement_life, smpBody_life]

/-! ### query, whitespace tag, error message, plaintext -/

theorem checkPlaintextPolicies_life (p : Bytes) : Stable Life (checkPlaintextPolicies p) := by
  unfold checkPlaintextPolicies; life_walk [msgEventMsg_life]

theorem receiveQueryMessage_life (K : Crypto) (m : Bytes) : Stable Life (receiveQueryMessage K m) := by
  unfold receiveQueryMessage
  life_walk [commitToVersionFrom_life, sendDHCommit_life, msgEventErr_life]

theorem receiveTaggedPlaintext_life (K : Crypto) (m : Bytes) : Stable Life (receiveTaggedPlaintext K m) := by
  unfold receiveTaggedPlaintext
  life_walk [commitToVersionFrom_life, sendDHCommit_life, msgEventErr_life, checkPlaintextPolicies_life]

theorem receiveErrorMessage_life (m : Bytes) : Stable Life (receiveErrorMessage m) := by
  unfold receiveErrorMessage; life_walk [msgEventMsg_life]

/-! ### send, the extra key -/

theorem appendWhitespaceTag_life (m : Bytes) : Stable Life (appendWhitespaceTag m) := by
  unfold appendWhitespaceTag; life_walk []

theorem send_life (K : Crypto) (m : Bytes) : Stable Life (send K m) := by
  unfold send
  life_walk [msgEvent_life, updateLastSent_life, resendLater_life, withInjects_life, appendWhitespaceTag_life,
    createSerializedDataMessage_life, generatePotentialErrorMessage_life]

theorem useExtraSymmetricKey_life (K : Crypto) (u : Nat) (d : Bytes) : Stable Life (useExtraSymmetricKey K u d) := by
  unfold useExtraSymmetricKey
  life_walk [createSerializedDataMessage_life]

/-! ## 3. peer disconnects: the frame `Down` -/

/-- quiet steps and peer disconnects -/
def Down (s s' : MState) : Prop :=
  (s'.conv.msgState = s.conv.msgState ∨ s'.conv.msgState = .finished) ∧
  (s'.conv.msgState = .encrypted → s'.conv.lastMessageStateChange = s.conv.lastMessageStateChange) ∧
  s'.env.now = s.env.now ∧
  ∃ evs, s'.events = s.events ++ evs ∧
    evs.filter isSecTag =
      if s.conv.msgState = .encrypted ∧ s'.conv.msgState ≠ .encrypted then ["sec:0"] else []

theorem Life.down {s s' : MState} (h : Life s s') : Down s s' := by
  obtain ⟨hm, hl, hn, evs, he, hf⟩ := h
  refine ⟨Or.inl hm, fun _ => hl, hn, evs, he, ?_⟩
  rw [hf, hm]
  split
  · rename_i h; exact absurd h.1 h.2
  · rfl

theorem Down.trans {a b c : MState} (h1 : Down a b) (h2 : Down b c) : Down a c := by
  obtain ⟨m1, l1, n1, e1, he1, hf1⟩ := h1
  obtain ⟨m2, l2, n2, e2, he2, hf2⟩ := h2
  refine ⟨?_, ?_, n2.trans n1, e1 ++ e2, by rw [he2, he1, List.append_assoc], ?_⟩
  · rcases m2 with m2 | m2
    · rw [m2]; exact m1
    · exact Or.inr m2
  · intro hc
    have hb : b.conv.msgState = .encrypted := by
      rcases m2 with m2 | m2
      · rw [← m2]; exact hc
      · rw [m2] at hc; cases hc
    rw [l2 hc, l1 hb]
  · rw [List.filter_append, hf1, hf2]
    cases ha : a.conv.msgState <;> cases hb : b.conv.msgState <;> cases hc : c.conv.msgState <;>
      simp_all

instance : Frame Down where
  refl s := (Life.refl s).down
  trans := Down.trans

theorem Stable.life_down {α} {x : M α} (h : Stable Life x) : Stable Down x :=
  Stable.weaken (fun _ _ => Life.down) h

theorem processDisconnectedTLV_down : Stable Down processDisconnectedTLV := by
  intro s r s' h
  rw [processDisconnectedTLV_run] at h
  simp only [Res.ok.injEq, Prod.mk.injEq] at h
  rw [← h.2]
  refine ⟨Or.inr rfl, ?_, rfl, _, rfl, ?_⟩
  · intro hc; cases hc
  · by_cases he : s.conv.msgState = .encrypted <;> simp [he] <;> decide

theorem processExtraSymmetricKeyTLV_life (t : Tlv) (x : Bytes) : Stable Life (processExtraSymmetricKeyTLV t x) := by
  unfold processExtraSymmetricKeyTLV; life_walk []

theorem processTLVs_down (K : Crypto) (tlvs : List Tlv) (x : Bytes) : Stable Down (processTLVs K tlvs x) := by
  unfold processTLVs
  stable [processDisconnectedTLV_down, (processExtraSymmetricKeyTLV_life _ _).life_down,
    (processSMPTLV_life _ _).life_down]

/-! ### relations that absorb quiet steps -/

/-- `R` contains the quiet steps and absorbs a quiet step in front -/
class LifePre (R : MState → MState → Prop) : Prop where
  ofLife : ∀ {a b}, Life a b → R a b
  pre : ∀ {a b c}, Life a b → R b c → R a c

/-- `R` absorbs a quiet step at the end -/
class LifePost (R : MState → MState → Prop) : Prop where
  post : ∀ {a b c}, R a b → Life b c → R a c

instance : LifePre Life := ⟨id, Life.trans⟩
instance : LifePost Life := ⟨Life.trans⟩
instance : LifePre Down := ⟨Life.down, fun h1 h2 => Down.trans h1.down h2⟩
instance : LifePost Down := ⟨fun h1 h2 => Down.trans h1 h2.down⟩

section Absorb
variable {R : MState → MState → Prop} {α β : Type}

theorem Stable.ofLife [LifePre R] {x : M α} (h : Stable Life x) : Stable R x :=
  Stable.weaken (fun _ _ => LifePre.ofLife) h

theorem Stable.pre_bind [LifePre R] {x : M α} {f : α → M β} (hx : Stable Life x) (hf : ∀ a, Stable R (f a)) :
    Stable R (x >>= f) := by
  intro s r s' h
  rw [runM_bind] at h
  cases hx' : runM x s with
  | panic p => rw [hx'] at h; cases h
  | ok v =>
    obtain ⟨v, s1⟩ := v
    rw [hx'] at h
    have h1 := hx s v s1 hx'
    cases v with
    | error e =>
      simp only [bindM_error, Res.ok.injEq, Prod.mk.injEq] at h
      rw [← h.2]; exact LifePre.ofLife h1
    | ok a =>
      simp only [bindM_ok] at h
      exact LifePre.pre h1 (hf a s1 r s' h)

theorem Stable.post_bind [LifePost R] {x : M α} {f : α → M β} (hx : Stable R x) (hf : ∀ a, Stable Life (f a)) :
    Stable R (x >>= f) := by
  intro s r s' h
  rw [runM_bind] at h
  cases hx' : runM x s with
  | panic p => rw [hx'] at h; cases h
  | ok v =>
    obtain ⟨v, s1⟩ := v
    rw [hx'] at h
    have h1 := hx s v s1 hx'
    cases v with
    | error e =>
      simp only [bindM_error, Res.ok.injEq, Prod.mk.injEq] at h
      rw [← h.2]; exact h1
    | ok a =>
      simp only [bindM_ok] at h
      exact LifePost.post h1 (hf a s1 r s' h)

theorem Stable.pre_catch [LifePre R] {x : M α} {h : Err → M α} (hx : Stable Life x) (hh : ∀ e, Stable R (h e)) :
    Stable R (MonadExcept.tryCatch x h) := by
  intro s r s' hr
  rw [runM_tryCatch] at hr
  cases hx' : runM x s with
  | panic p => rw [hx'] at hr; cases hr
  | ok v =>
    obtain ⟨v, s1⟩ := v
    rw [hx'] at hr
    have h1 := hx s v s1 hx'
    cases v with
    | ok a =>
      simp only [catchM_ok, Res.ok.injEq, Prod.mk.injEq] at hr
      rw [← hr.2]; exact LifePre.ofLife h1
    | error e =>
      simp only [catchM_error] at hr
      exact LifePre.pre h1 (hh e s1 r s' hr)

theorem Stable.post_catch [LifePost R] {x : M α} {h : Err → M α} (hx : Stable R x) (hh : ∀ e, Stable Life (h e)) :
    Stable R (MonadExcept.tryCatch x h) := by
  intro s r s' hr
  rw [runM_tryCatch] at hr
  cases hx' : runM x s with
  | panic p => rw [hx'] at hr; cases hr
  | ok v =>
    obtain ⟨v, s1⟩ := v
    rw [hx'] at hr
    have h1 := hx s v s1 hx'
    cases v with
    | ok a =>
      simp only [catchM_ok, Res.ok.injEq, Prod.mk.injEq] at hr
      rw [← hr.2]; exact h1
    | error e =>
      simp only [catchM_error] at hr
      exact LifePost.post h1 (hh e s1 r s' hr)

end Absorb

/-- leaves of a walk for a transitive frame that contains the quiet steps -/
macro "framed_core" : tactic => `(tactic| first
  | exact Stable.pure _ | exact Stable.throw _ | exact Stable.goPanic _
  | exact Stable.getc | exact Stable.get | exact Stable.now
  | exact Stable.ofLife (by life_leaf)
  | with_reducible apply Stable.bind | with_reducible apply Stable.tryCatch
  | with_reducible apply Stable.ite | with_reducible apply Stable.map
  | with_reducible apply Stable.forIn)

syntax "framed_walk" "[" term,* "]" : tactic
macro_rules
  | `(tactic| framed_walk [$ls,*]) => do
    let tacs ← ls.getElems.mapM fun l => `(tactic| with_reducible apply $l)
    `(tactic| repeat' (first | framed_core $[| $tacs:tactic]* | with_reducible intro _ | split | dsimp only))

/-! ### data messages -/

theorem processDataMessageTail_down (K : Crypto) (dm : DataMsg) (tlvs : List Tlv) (x : Bytes) :
    Stable Down (processDataMessageTail K dm tlvs x) := by
  unfold processDataMessageTail
  framed_walk [processTLVs_down, (randRead_life _).life_down, (genDataMsgWithFlag_life _ _ _ _).life_down,
    (wrapMessageHeader_life _ _).life_down]

theorem processDataMessageRaw_down (K : Crypto) (h m : Bytes) : Stable Down (processDataMessageRaw K h m) := by
  unfold processDataMessageRaw
  framed_walk [processDataMessageTail_down, (msgEvent_life _).life_down]

theorem potentialHeartbeat_life (K : Crypto) (p : Option Bytes) : Stable Life (potentialHeartbeat K p) := by
  unfold potentialHeartbeat
  life_walk [genDataMsgWithFlag_life, wrapMessageHeader_life, updateLastSent_life, msgEvent_life]

theorem notifyDataMessageError_life (e : Err) : Stable Life (notifyDataMessageError e) := by
  unfold notifyDataMessageError
  life_walk [msgEvent_life, generatePotentialErrorMessage_life]

theorem receiveDataMessage_down (K : Crypto) (h b : Bytes) : Stable Down (receiveDataMessage K h b) := by
  unfold receiveDataMessage
  framed_walk [processDataMessageRaw_down, (potentialHeartbeat_life _ _).life_down,
    (notifyDataMessageError_life _).life_down]

/-! ## 4. a completed key exchange: `Fin` -/

/-- quiet steps around exactly one `akeHasFinished` -/
def Fin (s s' : MState) : Prop :=
  s'.conv.msgState = .encrypted ∧ s'.conv.lastMessageStateChange = some s.env.now ∧ s'.env.now = s.env.now ∧
  ∃ evs, s'.events = s.events ++ evs ∧
    evs.filter isSecTag = [if s.conv.msgState = .encrypted then "sec:2" else "sec:1"]

theorem Fin.pre {a b c : MState} (h1 : Life a b) (h2 : Fin b c) : Fin a c := by
  obtain ⟨m1, l1, n1, e1, he1, hf1⟩ := h1
  obtain ⟨m2, l2, n2, e2, he2, hf2⟩ := h2
  refine ⟨m2, by rw [l2, n1], n2.trans n1, e1 ++ e2, by rw [he2, he1, List.append_assoc], ?_⟩
  rw [List.filter_append, hf1, hf2, m1]; rfl

theorem Fin.post {a b c : MState} (h1 : Fin a b) (h2 : Life b c) : Fin a c := by
  obtain ⟨m1, l1, n1, e1, he1, hf1⟩ := h1
  obtain ⟨m2, l2, n2, e2, he2, hf2⟩ := h2
  refine ⟨m2.trans m1, l2.trans l1, n2.trans n1, e1 ++ e2, by rw [he2, he1, List.append_assoc], ?_⟩
  rw [List.filter_append, hf1, hf2]; rfl

instance : LifePost Fin := ⟨Fin.post⟩

theorem akeHasFinished_fin (K : Crypto) : Stable Fin (akeHasFinished K) := by
  intro s r s' h
  cases ha : s.conv.ake with
  | none => rw [akeHasFinished_none K s ha] at h; cases h
  | some a =>
    obtain ⟨r0, env', mm', hs, h'⟩ := akeHasFinished_run K s a ha
    rw [h'] at h
    simp only [Res.ok.injEq, Prod.mk.injEq] at h
    rw [← h.2]
    refine ⟨rfl, rfl, hs.1, _, rfl, ?_⟩
    by_cases he : s.conv.msgState = .encrypted <;> simp [he] <;> decide

/-- what an AKE message does: quiet, or a completed exchange -/
def Up (s s' : MState) : Prop := Life s s' ∨ Fin s s'

instance : LifePre Up :=
  ⟨Or.inl, fun h1 h2 => h2.elim (fun h => Or.inl (Life.trans h1 h)) (fun h => Or.inr (Fin.pre h1 h))⟩
instance : LifePost Up :=
  ⟨fun h1 h2 => h1.elim (fun h => Or.inl (Life.trans h h2)) (fun h => Or.inr (Fin.post h h2))⟩

theorem Stable.fin_up {α} {x : M α} (h : Stable Fin x) : Stable Up x := Stable.weaken (fun _ _ => Or.inr) h

macro "fin_life" : tactic => `(tactic|
  (life_walk [processRevealSig_life, sigMessage_life, wrapMessageHeader_life, akeSetTheirCurrent_life,
     akeSetOurCurrent_life, modAke_life, processSig_life]; done))

theorem recvRevealSig_up (K : Crypto) (st : AuthState) (m : Bytes) : Stable Up (recvRevealSig K st m) := by
  unfold recvRevealSig akeTry
  split
  · refine Stable.post_catch ?_ (fun e => Stable.pure _)
    repeat' (first
      | (with_reducible apply Stable.pre_bind; focus fin_life)
      | (refine Stable.post_bind (akeHasFinished_fin K).fin_up (fun _ => ?_); fin_life)
      | with_reducible intro _ | dsimp only)
  · exact Stable.ofLife (Stable.pure _)

theorem recvSig_up (K : Crypto) (st : AuthState) (m : Bytes) : Stable Up (recvSig K st m) := by
  unfold recvSig akeTry
  split
  · refine Stable.post_catch ?_ (fun e => Stable.pure _)
    repeat' (first
      | (with_reducible apply Stable.pre_bind; focus fin_life)
      | (refine Stable.post_bind (akeHasFinished_fin K).fin_up (fun _ => ?_); fin_life)
      | with_reducible intro _ | dsimp only)
  · exact Stable.ofLife (Stable.pure _)

macro "ake_life" : tactic => `(tactic|
  (life_walk [initAKE_life, getAke_life, modAke_life, recvDHCommit_life, recvDHKey_life,
     retransmitAfterCompletedExchange_life]; done))

theorem processAKE_up (K : Crypto) (t : Nat) (m : Bytes) : Stable Up (processAKE K t m) := by
  unfold processAKE
  repeat' (first
    | (with_reducible apply Stable.pre_bind; focus ake_life)
    | (refine Stable.post_bind (recvRevealSig_up K _ m) (fun _ => ?_); ake_life)
    | (refine Stable.post_bind (recvSig_up K _ m) (fun _ => ?_); ake_life)
    | with_reducible intro _ | split | dsimp only
    | (refine Stable.ofLife ?_; ake_life))

/-! ## 5. `receive` -/

/-- quiet steps and disconnects, the latter only out of the encrypted state -/
def DownE (s s' : MState) : Prop := Down s s' ∧ (s'.conv.msgState = s.conv.msgState ∨ s.conv.msgState = .encrypted)

instance : LifePre DownE :=
  ⟨fun h => ⟨h.down, Or.inl h.1⟩,
   fun h1 h2 => ⟨LifePre.pre h1 h2.1, h2.2.elim (fun h => Or.inl (h.trans h1.1)) (fun h => Or.inr (h1.1 ▸ h))⟩⟩
instance : LifePost DownE :=
  ⟨fun h1 h2 => ⟨LifePost.post h1.1 h2, h1.2.elim (fun h => Or.inl (h2.1.trans h)) Or.inr⟩⟩

open ConvData in
theorem processDataMessageRaw_downE (K : Crypto) (h m : Bytes) : Stable DownE (processDataMessageRaw K h m) := by
  intro s r s' hr
  by_cases he : s.conv.msgState = .encrypted
  · exact ⟨processDataMessageRaw_down K h m s r s' hr, Or.inr he⟩
  · have h0 : runM (processDataMessageRaw K h m) s = _ := c02_not_encrypted K h m s he
    rw [hr] at h0
    simp only [Res.ok.injEq, Prod.mk.injEq] at h0
    rw [h0.2]
    exact LifePre.ofLife (Life.ev s _ (by decide))

theorem receiveDataMessage_downE (K : Crypto) (h b : Bytes) : Stable DownE (receiveDataMessage K h b) := by
  unfold receiveDataMessage
  refine Stable.post_bind (processDataMessageRaw_downE K h _) fun x => ?_
  life_walk [potentialHeartbeat_life, notifyDataMessageError_life]

/-- what a received message does: quiet steps and a disconnect, or a completed exchange -/
def Recv (s s' : MState) : Prop := DownE s s' ∨ Fin s s'

instance : LifePre Recv :=
  ⟨fun h => Or.inl (LifePre.ofLife h),
   fun h1 h2 => h2.elim (fun h => Or.inl (LifePre.pre h1 h)) (fun h => Or.inr (Fin.pre h1 h))⟩
instance : LifePost Recv :=
  ⟨fun h1 h2 => h1.elim (fun h => Or.inl (LifePost.post h h2)) (fun h => Or.inr (Fin.post h h2))⟩

theorem Stable.down_recv {α} {x : M α} (h : Stable DownE x) : Stable Recv x := Stable.weaken (fun _ _ => Or.inl) h
theorem Stable.up_recv {α} {x : M α} (h : Stable Up x) : Stable Recv x :=
  Stable.weaken (fun _ _ h => h.elim (fun h => Or.inl (LifePre.ofLife h)) Or.inr) h

theorem receiveDecodedCore_recv (K : Crypto) (m : Bytes) : Stable Recv (receiveDecodedCore K m) := by
  unfold receiveDecodedCore
  refine Stable.pre_bind Stable.getc fun c => ?_
  refine Stable.pre_bind (by life_walk [checkVersion_life]) fun r => ?_
  split
  · exact Stable.ofLife (Stable.pure _)
  · refine Stable.pre_bind (by life_walk [parseMessageHeader_life]) fun r => ?_
    split
    · exact Stable.ofLife (Stable.pure _)
    · dsimp only
      split
      · refine Stable.post_bind (receiveDataMessage_downE K _ _).down_recv fun x => ?_
        life_walk []
      · refine Stable.pre_bind Stable.getc fun c1 => ?_
        refine Stable.post_bind (processAKE_up K _ _).up_recv fun x => ?_
        life_walk [msgEventErr_life]

theorem receiveDecoded_recv (K : Crypto) (m : Bytes) : Stable Recv (receiveDecoded K m) := by
  unfold receiveDecoded
  refine Stable.pre_bind Stable.getc fun c => ?_
  refine Stable.post_bind (receiveDecodedCore_recv K m) fun x => ?_
  life_walk []

/-- the quiet pieces of `receiveUnit` -/
macro "recv_life" : tactic => `(tactic|
  (life_walk [receiveErrorMessage_life, withInjects_life, receiveQueryMessage_life, receiveTaggedPlaintext_life,
     checkPlaintextPolicies_life, toSendEncoded_life, receiveFragment_life, msgEvent_life]; done))

theorem receiveUnit_recv (K : Crypto) : ∀ (fuel : Nat) (m : Bytes) (fg : Bool),
    Stable Recv (receiveUnit K fuel m fg) := by
  intro fuel
  induction fuel with
  | zero =>
    intro m fg
    rw [receiveUnit]
    exact Stable.ofLife (by life_walk [])
  | succ fuel ih =>
    intro m fg
    rw [receiveUnit]
    refine Stable.pre_bind Stable.getc fun c => ?_
    split
    · exact Stable.ofLife (Stable.pure _)
    · dsimp only
      split
      all_goals
        repeat' (first
          | (with_reducible apply Stable.pre_bind; focus recv_life)
          | (refine Stable.post_bind (receiveDecoded_recv K _) (fun _ => ?_); recv_life)
          | (refine Stable.post_bind (ih _ _) (fun _ => ?_); recv_life)
          | with_reducible intro _ | split | dsimp only
          | (refine Stable.ofLife ?_; recv_life))

theorem receive_recv (K : Crypto) (m : Bytes) : Stable Recv (receive K m) := receiveUnit_recv K _ m true

/-! ## 6. `End` -/

/-- the effect of `endSession` -/
def Ended (s s' : MState) : Prop :=
  s'.conv.msgState = .plainText ∧ s'.conv.lastMessageStateChange = none ∧ s'.env.now = s.env.now ∧
  ∃ evs, s'.events = s.events ++ evs ∧
    evs.filter isSecTag = if s.conv.msgState = .encrypted then ["sec:0"] else []

theorem endSession_ended (K : Crypto) : Stable Ended (endSession K) := by
  intro s r s' h
  by_cases he : s.conv.msgState = .encrypted
  · rw [endSession_encrypted_run K s he] at h
    cases hx : runM (createSerializedDataMessage K [] messageFlagIgnoreUnreadable
        [{ typ := tlvTypeDisconnected, len := 0, value := [] }]) { s with conv := { s.conv with smp := {} } } with
    | panic p => rw [hx] at h; cases h
    | ok v =>
      obtain ⟨v, s2⟩ := v
      obtain ⟨-, -, hn, evs, hev, hf⟩ := createSerializedDataMessage_life K _ _ _ _ _ _ hx
      rw [hx] at h
      simp only [Res.ok.injEq, Prod.mk.injEq] at h
      rw [← h.2]
      refine ⟨rfl, rfl, hn, evs ++ ["sec:0"], ?_, ?_⟩
      · show s2.events ++ _ = _
        rw [hev]; simp
      · rw [List.filter_append, hf, if_pos he]; decide
  · rw [endSession_notEncrypted_run K s he] at h
    simp only [Res.ok.injEq, Prod.mk.injEq] at h
    rw [← h.2]
    exact ⟨rfl, rfl, rfl, [], by simp, by rw [if_neg he]; rfl⟩

/-! ## 7. whole API calls -/

theorem runM_drop {α} (x : M α) (s : MState) (r : Except Err Unit) (s' : MState)
    (h : runM (do let _ ← x) s = .ok (r, s')) : ∃ r0, runM x s = .ok (r0, s') := by
  rw [runM_bind] at h
  cases hx : runM x s with
  | panic p => rw [hx] at h; cases h
  | ok v =>
    obtain ⟨v, s1⟩ := v
    rw [hx] at h
    cases v with
    | error e =>
      simp only [bindM_error, Res.ok.injEq, Prod.mk.injEq] at h
      exact ⟨_, by rw [h.2]⟩
    | ok a =>
      simp only [bindM_ok, runM_pure, Res.ok.injEq, Prod.mk.injEq] at h
      exact ⟨_, by rw [h.2]⟩

/-- the kind of step a call makes -/
def ApiCall.Kind : ApiCall → MState → MState → Prop
  | .receive _ => Recv
  | .endSession => Ended
  | _ => Life

/-- **every API call, classified.**  A non-panicking `receive` is quiet up to one disconnect (out of the encrypted
    state only) or contains exactly one completed key exchange; `endSession` ends; every other call is quiet. -/
theorem apiCall_kind (K : Crypto) (call : ApiCall) (s : MState) (r : Except Err Unit) (s' : MState)
    (h : runM (call.run K) s = .ok (r, s')) : call.Kind s s' := by
  cases call with
  | receive m => obtain ⟨r0, h0⟩ := runM_drop _ _ _ _ h; exact receive_recv K m _ _ _ h0
  | send m => obtain ⟨r0, h0⟩ := runM_drop _ _ _ _ h; exact send_life K m _ _ _ h0
  | endSession => obtain ⟨r0, h0⟩ := runM_drop _ _ _ _ h; exact endSession_ended K _ _ _ h0
  | smpStart q sec => obtain ⟨r0, h0⟩ := runM_drop _ _ _ _ h; exact startAuthenticate_life K q sec _ _ _ h0
  | smpSecret sec => obtain ⟨r0, h0⟩ := runM_drop _ _ _ _ h; exact provideAuthenticationSecret_life K sec _ _ _ h0
  | smpAbort => obtain ⟨r0, h0⟩ := runM_drop _ _ _ _ h; exact abortAuthentication_life K _ _ _ h0
  | extraKey u d => obtain ⟨r0, h0⟩ := runM_drop _ _ _ _ h; exact useExtraSymmetricKey_life K u d _ _ _ h0
  | sendTlvs text flag tlvs =>
    obtain ⟨r0, h0⟩ := runM_drop _ _ _ _ h; exact createSerializedDataMessage_life K text flag tlvs _ _ _ h0
  | setFragmentSize n =>
    have : Stable Life (modc fun c => { c with fragmentSize := n }) := by life_walk []
    exact this _ _ _ h

/-! ### the function `secEventsOf` -/

theorem secEventsOf_goneSecure_iff (b a : MsgState) (c : Bool) :
    secEventsOf b a c = [.goneSecure] ↔ b ≠ .encrypted ∧ a = .encrypted := by
  cases b <;> cases a <;> cases c <;> decide

theorem secEventsOf_stillSecure_iff (b a : MsgState) (c : Bool) :
    secEventsOf b a c = [.stillSecure] ↔ b = .encrypted ∧ a = .encrypted ∧ c = true := by
  cases b <;> cases a <;> cases c <;> decide

theorem secEventsOf_goneInsecure_iff (b a : MsgState) (c : Bool) :
    secEventsOf b a c = [.goneInsecure] ↔ b = .encrypted ∧ a ≠ .encrypted := by
  cases b <;> cases a <;> cases c <;> decide

theorem secEventsOf_nil_iff (b a : MsgState) (c : Bool) :
    secEventsOf b a c = [] ↔ (b ≠ .encrypted ∧ a ≠ .encrypted) ∨ (b = .encrypted ∧ a = .encrypted ∧ c = false) := by
  cases b <;> cases a <;> cases c <;> decide

/-- a transition raises at most one security event -/
theorem secEventsOf_length_le_one (b a : MsgState) (c : Bool) : (secEventsOf b a c).length ≤ 1 := by
  cases b <;> cases a <;> cases c <;> decide

/-- no change of the message state and no completed exchange: no security event -/
theorem secEventsOf_same (b : MsgState) : secEventsOf b b false = [] := by
  cases b <;> decide

theorem secEventsOf_notEncrypted (b a : MsgState) (c c' : Bool) (h : a ≠ .encrypted) :
    secEventsOf b a c = secEventsOf b a c' := by
  cases b <;> cases a <;> cases c <;> cases c' <;> first | rfl | exact absurd rfl h

theorem secEventsIn_filter {evs l : List String} (h : evs.filter isSecTag = l) : secEventsIn evs = secEventsIn l := by
  rw [secEventsIn_eq_filter, h]

/-! ### the main theorems -/

/-- **C18, security events of a whole API call.**  For every API call (receive of arbitrary bytes, send, End, the
    SMP calls, the extra key, the harness hook `sendTlvs`, `setFragmentSize`), every crypto instance, every start
    state (conversation, randomness and signing-oracle tapes, clock, event log) — if the call does not panic, then
    the event log only grows, and the security events among the new entries are exactly
    `secEventsOf before after completed`:
      [GoneSecure]   iff the message state was not encrypted and is encrypted now,
      [StillSecure]  iff it was encrypted, is encrypted, and a key exchange completed in this call,
      [GoneInsecure] iff it was encrypted and is not any more,
      []             otherwise
    (`secEventsOf_*_iff`); never two events in one call (`secEventsOf_length_le_one`).
    `completed` is pinned to the state: a completed exchange happens only in `receive`, leaves the conversation
    encrypted and stamps it with the clock of the call (`lastMessageStateChange`, the field `akeHasFinished`
    writes); without a completed exchange an encrypted conversation was encrypted before and keeps its stamp. -/
theorem apiCall_security_events (K : Crypto) (call : ApiCall) (s : MState) (r : Except Err Unit) (s' : MState)
    (h : runM (call.run K) s = .ok (r, s')) :
    ∃ (evs : List String) (completed : Bool),
      s'.events = s.events ++ evs ∧
      secEventsIn evs = secEventsOf s.conv.msgState s'.conv.msgState completed ∧
      (completed = true → (∃ m, call = .receive m) ∧ s'.conv.msgState = .encrypted ∧
        s'.conv.lastMessageStateChange = some s.env.now) ∧
      (completed = false → s'.conv.msgState = .encrypted →
        s.conv.msgState = .encrypted ∧ s'.conv.lastMessageStateChange = s.conv.lastMessageStateChange) := by
  have hk := apiCall_kind K call s r s' h
  have hlife : Life s s' → ∃ (evs : List String) (completed : Bool),
      s'.events = s.events ++ evs ∧
      secEventsIn evs = secEventsOf s.conv.msgState s'.conv.msgState completed ∧
      (completed = true → (∃ m, call = .receive m) ∧ s'.conv.msgState = .encrypted ∧
        s'.conv.lastMessageStateChange = some s.env.now) ∧
      (completed = false → s'.conv.msgState = .encrypted →
        s.conv.msgState = .encrypted ∧ s'.conv.lastMessageStateChange = s.conv.lastMessageStateChange) := by
    rintro ⟨hm, hl, -, evs, hev, hf⟩
    refine ⟨evs, false, hev, ?_, (fun hc => by cases hc), fun _ he => ⟨hm ▸ he, hl⟩⟩
    rw [secEventsIn_filter hf, hm, secEventsOf_same]; rfl
  cases call with
  | receive m =>
    rcases hk with ⟨⟨hm, hl, -, evs, hev, hf⟩, hedge⟩ | ⟨hm, hl, -, evs, hev, hf⟩
    · refine ⟨evs, false, hev, ?_, (fun hc => by cases hc), fun _ he => ?_⟩
      · rw [secEventsIn_filter hf]
        rcases hm with hm | hm
        · rw [hm, secEventsOf_same]
          rw [if_neg (fun hh => hh.2 (hm ▸ hh.1))]; rfl
        · rw [hm]
          by_cases he : s.conv.msgState = .encrypted
          · rw [he, if_pos ⟨rfl, by decide⟩]; decide
          · rw [if_neg (fun hh => he hh.1)]
            cases hb : s.conv.msgState <;> first | rfl | exact absurd hb he
      · have hb : s.conv.msgState = .encrypted := by
          rcases hedge with hh | hh
          · rw [← hh]; exact he
          · exact hh
        exact ⟨hb, hl he⟩
    · refine ⟨evs, true, hev, ?_, fun _ => ⟨⟨m, rfl⟩, hm, hl⟩, fun hc => by cases hc⟩
      rw [secEventsIn_filter hf, hm]
      by_cases he : s.conv.msgState = .encrypted
      · rw [he, if_pos rfl]; decide
      · rw [if_neg he]
        cases hb : s.conv.msgState <;> first | rfl | exact absurd hb he
  | endSession =>
    obtain ⟨hm, hl, -, evs, hev, hf⟩ := hk
    refine ⟨evs, false, hev, ?_, (fun hc => by cases hc), fun _ he => by rw [hm] at he; cases he⟩
    rw [secEventsIn_filter hf, hm]
    by_cases he : s.conv.msgState = .encrypted
    · rw [he, if_pos rfl]; decide
    · rw [if_neg he]
      cases hb : s.conv.msgState <;> first | rfl | exact absurd hb he
  | send m => exact hlife hk
  | smpStart q sec => exact hlife hk
  | smpSecret sec => exact hlife hk
  | smpAbort => exact hlife hk
  | extraKey u d => exact hlife hk
  | sendTlvs text flag tlvs => exact hlife hk
  | setFragmentSize n => exact hlife hk

/-- the same with `completed` eliminated, when the clock has moved since the last change of the message state
    (so that the stamp written by `akeHasFinished` is recognisable): an exchange completed iff the conversation
    is encrypted and carries the stamp of this call -/
theorem apiCall_security_events_fresh_clock (K : Crypto) (call : ApiCall) (s : MState) (r : Except Err Unit)
    (s' : MState) (h : runM (call.run K) s = .ok (r, s'))
    (hclock : s.conv.lastMessageStateChange ≠ some s.env.now) :
    ∃ evs, s'.events = s.events ++ evs ∧
      secEventsIn evs = secEventsOf s.conv.msgState s'.conv.msgState
        (decide (s'.conv.msgState = .encrypted ∧ s'.conv.lastMessageStateChange = some s.env.now)) := by
  obtain ⟨evs, completed, hev, hsec, hc1, hc2⟩ := apiCall_security_events K call s r s' h
  refine ⟨evs, hev, ?_⟩
  rw [hsec]
  cases completed with
  | true =>
    obtain ⟨-, he, hl⟩ := hc1 rfl
    rw [decide_eq_true ⟨he, hl⟩]
  | false =>
    by_cases he : s'.conv.msgState = .encrypted
    · obtain ⟨-, hl⟩ := hc2 rfl he
      have : ¬ (s'.conv.msgState = .encrypted ∧ s'.conv.lastMessageStateChange = some s.env.now) :=
        fun hh => hclock (hl ▸ hh.2)
      rw [decide_eq_false this]
    · exact secEventsOf_notEncrypted _ _ _ _ he

/-- **C18, the edges of the message state.**  A non-panicking API call leaves the message state unchanged
    (this includes encrypted → encrypted by a new exchange), or moves it along plaintext → encrypted or
    finished → encrypted (receive only), encrypted → finished (receive only), anything → plaintext (End only). -/
theorem apiCall_msgState_edges (K : Crypto) (call : ApiCall) (s : MState) (r : Except Err Unit) (s' : MState)
    (h : runM (call.run K) s = .ok (r, s')) :
    s'.conv.msgState = s.conv.msgState ∨
    (s.conv.msgState ≠ .encrypted ∧ s'.conv.msgState = .encrypted ∧ ∃ m, call = .receive m) ∨
    (s.conv.msgState = .encrypted ∧ s'.conv.msgState = .finished ∧ ∃ m, call = .receive m) ∨
    (s'.conv.msgState = .plainText ∧ call = .endSession) := by
  have hk := apiCall_kind K call s r s' h
  cases call with
  | receive m =>
    rcases hk with ⟨⟨hm, -⟩, hedge⟩ | ⟨hm, -⟩
    · rcases hm with hm | hm
      · exact Or.inl hm
      · rcases hedge with hh | hh
        · exact Or.inl hh
        · exact Or.inr (Or.inr (Or.inl ⟨hh, hm, m, rfl⟩))
    · by_cases he : s.conv.msgState = .encrypted
      · exact Or.inl (hm.trans he.symm)
      · exact Or.inr (Or.inl ⟨he, hm, m, rfl⟩)
  | endSession => exact Or.inr (Or.inr (Or.inr ⟨hk.1, rfl⟩))
  | send m => exact Or.inl hk.1
  | smpStart q sec => exact Or.inl hk.1
  | smpSecret sec => exact Or.inl hk.1
  | smpAbort => exact Or.inl hk.1
  | extraKey u d => exact Or.inl hk.1
  | sendTlvs text flag tlvs => exact Or.inl hk.1
  | setFragmentSize n => exact Or.inl hk.1

/-- the hypothesis of the three theorems (the call returns) is satisfiable, also with a transition: End from an
    encrypted conversation without usable keys returns (the disconnect message cannot be built), the state is
    plaintext and the log has exactly GoneInsecure; a change of the fragment size returns and is quiet -/
example (K : Crypto) : ∃ r s', runM (ApiCall.endSession.run K) ⟨{ msgState := .encrypted }, {}, [], []⟩ = .ok (r, s') ∧
    s'.events = ["sec:0"] ∧ s'.conv.msgState = .plainText := ⟨_, _, rfl, rfl, rfl⟩
example (K : Crypto) : runM ((ApiCall.setFragmentSize 5).run K) ⟨{}, {}, [], []⟩ =
    .ok (.ok (), ⟨{ fragmentSize := 5 }, {}, [], []⟩) := rfl
/-- … and of `apiCall_security_events_fresh_clock`: a conversation that never changed its message state -/
example : ({} : Conv).lastMessageStateChange ≠ some ({} : Env).now := by decide

/-! ## 8. sequences of API calls -/

/-- the event log of a session run by `runApi`: the log entries of the successive calls, concatenated (as in
    `runApi`, every call starts from the conversation the previous one left, with its own environment) -/
def runApiEvents (K : Crypto) : Conv → List ApiStep → List String
  | _, [] => []
  | c, st :: rest =>
    match runM (st.call.run K) { conv := c, env := st.env } with
    | .panic _ => []
    | .ok (_, s') => s'.events ++ runApiEvents K s'.conv rest

theorem secEventsOf_balance (b a : MsgState) (c : Bool) :
    (secEventsOf b a c).count .goneSecure + (if b = .encrypted then 1 else 0) =
    (secEventsOf b a c).count .goneInsecure + (if a = .encrypted then 1 else 0) := by
  cases b <;> cases a <;> cases c <;> decide

/-- the balance over any sequence of API calls from any conversation: every GoneSecure is matched by a later
    GoneInsecure, except the one of the session that is still open at the end -/
theorem api_sequence_events_balance_from (K : Crypto) (steps : List ApiStep) :
    ∀ (c c' : Conv), runApi K c steps = .ok c' →
      (secEventsIn (runApiEvents K c steps)).count .goneSecure + (if c.msgState = .encrypted then 1 else 0) =
      (secEventsIn (runApiEvents K c steps)).count .goneInsecure + (if c'.msgState = .encrypted then 1 else 0) := by
  induction steps with
  | nil =>
    intro c c' h
    simp only [runApi, Res.ok.injEq] at h
    subst h
    rfl
  | cons st rest ih =>
    intro c c' h
    unfold runApi at h
    unfold runApiEvents
    cases hr : runM (st.call.run K) { conv := c, env := st.env } with
    | panic site => rw [hr] at h; cases h
    | ok v =>
      obtain ⟨r, s'⟩ := v
      rw [hr] at h
      simp only at h ⊢
      have h2 := ih s'.conv c' h
      obtain ⟨evs, completed, hev, hsec, -, -⟩ := apiCall_security_events K st.call _ r s' hr
      have hev' : s'.events = evs := by rw [hev]; rfl
      have h1 := secEventsOf_balance c.msgState s'.conv.msgState completed
      rw [← hsec, ← hev'] at h1
      simp only [secEventsIn_append, List.count_append]
      omega

/-- **C18, balance of security events over a session.**  For every sequence of API calls (arbitrary arguments,
    randomness and signing-oracle tapes, clocks) that does not panic, from a conversation that is not encrypted
    — in particular a fresh one —: the number of GoneSecure events in the log is the number of GoneInsecure
    events, plus one if the conversation is encrypted at the end. -/
theorem api_sequence_events_balance (K : Crypto) (steps : List ApiStep) (c c' : Conv)
    (hc : c.msgState ≠ .encrypted) (h : runApi K c steps = .ok c') :
    (secEventsIn (runApiEvents K c steps)).count .goneSecure =
    (secEventsIn (runApiEvents K c steps)).count .goneInsecure + (if c'.msgState = .encrypted then 1 else 0) := by
  have := api_sequence_events_balance_from K steps c c' h
  rw [if_neg hc] at this
  exact this

/-- the hypotheses are satisfiable: the zero conversation is in plaintext, and a session of three calls (a send,
    an End, a change of the fragment size) runs without panic -/
example (K : Crypto) : ({} : Conv).msgState ≠ .encrypted ∧
    ∃ c', runApi K {} [⟨.send [104, 105], {}⟩, ⟨.endSession, {}⟩, ⟨.setFragmentSize 100, {}⟩] = .ok c' :=
  ⟨by decide, _, rfl⟩

/-! ## 9. which AKE messages complete an exchange -/

/-- a step of the AKE state machine that either returns the next state `none` after exactly one `akeHasFinished`,
    or throws after quiet steps only -/
def FinOrThrow (y : M (AuthState × Option Bytes × Option Err)) : Prop :=
  ∀ s r s', runM y s = .ok (r, s') →
    match r with
    | .ok v => v.1 = .none ∧ Fin s s'
    | .error _ => Life s s'

theorem FinOrThrow.pre_bind {α} {x : M α} {f : α → M (AuthState × Option Bytes × Option Err)}
    (hx : Stable Life x) (hf : ∀ a, FinOrThrow (f a)) : FinOrThrow (x >>= f) := by
  intro s r s' h
  rw [runM_bind] at h
  cases hx' : runM x s with
  | panic p => rw [hx'] at h; cases h
  | ok v =>
    obtain ⟨v, s1⟩ := v
    rw [hx'] at h
    have h1 := hx s v s1 hx'
    cases v with
    | error e =>
      simp only [bindM_error, Res.ok.injEq, Prod.mk.injEq] at h
      obtain ⟨rfl, rfl⟩ := h
      exact h1
    | ok a =>
      simp only [bindM_ok] at h
      have h2 := hf a s1 r s' h
      cases r with
      | ok w => exact ⟨h2.1, Fin.pre h1 h2.2⟩
      | error e => exact Life.trans h1 h2

theorem akeHasFinished_finOrThrow (K : Crypto) (m : Option Bytes) :
    FinOrThrow (akeHasFinished K >>= fun e => pure (AuthState.none, m, e)) := by
  intro s r s' h
  rw [runM_bind] at h
  cases hx' : runM (akeHasFinished K) s with
  | panic p => rw [hx'] at h; cases h
  | ok v =>
    obtain ⟨v, s1⟩ := v
    rw [hx'] at h
    have h1 := akeHasFinished_fin K s v s1 hx'
    obtain ⟨⟨e, he⟩, -⟩ := akeHasFinished_spec K s v s1 hx'
    subst he
    simp only [bindM_ok, runM_pure, Res.ok.injEq, Prod.mk.injEq] at h
    obtain ⟨rfl, rfl⟩ := h
    exact ⟨rfl, h1⟩

/-- a quiet step is not a completed exchange -/
theorem Fin.not_life {s s' : MState} (h1 : Fin s s') (h2 : Life s s') : False := by
  obtain ⟨-, -, -, e1, he1, hf1⟩ := h1
  obtain ⟨-, -, -, e2, he2, hf2⟩ := h2
  have : e1 = e2 := List.append_cancel_left (he1.symm.trans he2)
  rw [this, hf2] at hf1
  cases hf1

theorem finOrThrow_catch {y : M (AuthState × Option Bytes × Option Err)} (hy : FinOrThrow y) (st : AuthState)
    (s s' : MState) (st' : AuthState) (reply : Option Bytes) (err : Option Err)
    (h : runM (akeTry st y) s = .ok (.ok (st', reply, err), s')) :
    (st' = .none ∧ Fin s s') ∨ (st' = st ∧ Life s s') := by
  unfold akeTry at h
  rw [runM_tryCatch] at h
  cases hb : runM y s with
  | panic p => rw [hb] at h; cases h
  | ok v =>
    obtain ⟨v, s1⟩ := v
    rw [hb] at h
    have h1 := hy s v s1 hb
    cases v with
    | ok w =>
      simp only [catchM_ok, Res.ok.injEq, Prod.mk.injEq, Except.ok.injEq] at h
      obtain ⟨hw, rfl⟩ := h
      subst hw
      exact Or.inl h1
    | error e =>
      simp only [catchM_error, runM_pure, Res.ok.injEq, Prod.mk.injEq, Except.ok.injEq] at h
      obtain ⟨⟨rfl, -, -⟩, rfl⟩ := h
      exact Or.inr ⟨rfl, h1⟩

/-- **a Signature message in `awaitingSig`** completes the exchange exactly when the step returns the next
    authentication state `none`; otherwise (any guard failed) the state stays `awaitingSig` and the step was
    quiet -/
theorem recvSig_completes (K : Crypto) (rs m : Bytes) (s s' : MState) (st' : AuthState) (reply : Option Bytes)
    (err : Option Err) (h : runM (recvSig K (.awaitingSig rs) m) s = .ok (.ok (st', reply, err), s')) :
    (st' = .none ∧ Fin s s') ∨ (st' = .awaitingSig rs ∧ Life s s') := by
  refine finOrThrow_catch ?_ _ s s' st' reply err h
  refine FinOrThrow.pre_bind (processSig_life K m) fun _ => ?_
  refine FinOrThrow.pre_bind akeSetTheirCurrent_life fun _ => ?_
  exact akeHasFinished_finOrThrow K none

/-- **a Reveal-Signature message in `awaitingRevealSig`**, likewise -/
theorem recvRevealSig_completes (K : Crypto) (m : Bytes) (s s' : MState) (st' : AuthState) (reply : Option Bytes)
    (err : Option Err) (h : runM (recvRevealSig K .awaitingRevealSig m) s = .ok (.ok (st', reply, err), s')) :
    (st' = .none ∧ Fin s s') ∨ (st' = .awaitingRevealSig ∧ Life s s') := by
  refine finOrThrow_catch ?_ _ s s' st' reply err h
  repeat' (first
    | exact akeHasFinished_finOrThrow K _
    | (with_reducible apply FinOrThrow.pre_bind; focus fin_life)
    | with_reducible intro _ | dsimp only)

/-- in every other combination of message and authentication state these two handlers do nothing -/
theorem recvSig_other_life (K : Crypto) (st : AuthState) (m : Bytes) (h : ∀ rs, st ≠ .awaitingSig rs) :
    Stable Life (recvSig K st m) := by
  unfold recvSig
  split
  · exact absurd rfl (h _)
  · exact Stable.pure _

theorem recvRevealSig_other_life (K : Crypto) (st : AuthState) (m : Bytes) (h : st ≠ .awaitingRevealSig) :
    Stable Life (recvRevealSig K st m) := by
  unfold recvRevealSig
  split
  · exact absurd rfl h
  · exact Stable.pure _

end Otr
