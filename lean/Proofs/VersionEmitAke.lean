/-
  Proofs.VersionEmitAke — groundwork for Proofs.VersionEmit2 (property C16, emission): the invariant `StoredVer`
  / `EmitInv`, the replies of `processAKE` (`processAKE_emits`), of `receiveDataMessage`, and `sendDHCommit`.
-/
import Proofs.VersionEmitFrame
set_option linter.unusedSimpArgs false
set_option linter.unusedVariables false
namespace Otr

/-! ## 1. the invariant for the stored Reveal-Signature message -/

/-- the authentication state fits the committed version: no exchange is in progress in a conversation without a
    version, and the Reveal-Signature message stored in AWAITING_SIG starts with the field of the committed version -/
def StoredVer (c : Conv) : Prop := Good c.version (authStateOf c)

theorem StoredVer.awaitingSig {c : Conv} (h : StoredVer c) (rs : Bytes) (ha : authStateOf c = .awaitingSig rs) :
    ∃ v, c.version = some v ∧ HasVer v rs := by
  unfold StoredVer at h; rw [ha] at h; exact h

theorem StoredVer.isSome {c : Conv} (h : StoredVer c) (ha : authStateOf c ≠ .none) : c.version.isSome = true :=
  Good.isSome h ha

theorem Good.of_or {ver : Option Version} {st x : AuthState} (h : Good ver st) (hx : x = st ∨ x = .none) :
    Good ver x := by
  rcases hx with hx | hx <;> rw [hx]
  · exact h
  · trivial

theorem auth_after_setState (c : Conv) (st' : AuthState) :
    authStateOf { c with ake := c.ake.map fun a => { a with state := st' } } = st' ∨
    authStateOf { c with ake := c.ake.map fun a => { a with state := st' } } = .none := by
  cases h : c.ake with
  | none => right; simp [authStateOf, h]
  | some a => left; simp [authStateOf, h]

/-! ## 2. `processAKE` -/

theorem akeDispatch_emits (K : Crypto) (t : Nat) (msg : Bytes) (st : AuthState) (s s1 : MState)
    (single : Option Bytes) (extra : List Bytes) (err : Option Err) (hg : Good s.conv.version st)
    (hst : authStateOf s.conv = st)
    (hr : runM (akeDispatch K t msg st) s = .ok (.ok (single, extra, err), s1)) :
    (∀ y, single = some y → VerMsg s.conv.version y) ∧ AllVer s.conv.version extra ∧
      Good s.conv.version (authStateOf s1.conv) := by
  unfold akeDispatch at hr
  have short : ∀ (x : M (AuthState × Option Bytes × Option Err)),
      Yields s.conv.version (RecvQ s.conv.version st) x → Stable VPFrame x →
      runM (do let (s', m, e) ← x; modAke fun a => { a with state := s' }; pure (m, ([] : List Bytes), e)) s =
        .ok (.ok (single, extra, err), s1) →
      (∀ y, single = some y → VerMsg s.conv.version y) ∧ AllVer s.conv.version extra ∧
        Good s.conv.version (authStateOf s1.conv) := by
    intro x hx hv h
    rw [runM_bind] at h
    obtain ⟨⟨st', m, e⟩, sa, h1, h2⟩ := bindM_ok_inv h
    obtain ⟨hg', hm⟩ := hx s _ sa rfl h1 hg
    simp only [modAke, runM_bind, runM_modc, bindM_ok, runM_pure, Res.ok.injEq, Prod.mk.injEq,
      Except.ok.injEq] at h2
    obtain ⟨⟨rfl, rfl, rfl⟩, rfl⟩ := h2
    exact ⟨hm, AllVer.nil _, Good.of_or hg' (auth_after_setState sa.conv st')⟩
  have long : ∀ (x : M (AuthState × Option Bytes × Option Err)),
      Yields s.conv.version (RecvQ s.conv.version st) x → Stable VPFrame x →
      runM (do let (s', m, e) ← x; modAke fun a => { a with state := s' }
               let extra ← retransmitAfterCompletedExchange K st s' e; pure (m, extra, e)) s =
        .ok (.ok (single, extra, err), s1) →
      (∀ y, single = some y → VerMsg s.conv.version y) ∧ AllVer s.conv.version extra ∧
        Good s.conv.version (authStateOf s1.conv) := by
    intro x hx hv h
    rw [runM_bind] at h
    obtain ⟨⟨st', m, e⟩, sa, h1, h2⟩ := bindM_ok_inv h
    obtain ⟨hg', hm⟩ := hx s _ sa rfl h1 hg
    have hva : sa.conv.version = s.conv.version := vp_version hv h1
    simp only [modAke, runM_bind, runM_modc, bindM_ok] at h2
    obtain ⟨ex, sc, h3, h4⟩ := bindM_ok_inv h2
    simp only [runM_pure, Res.ok.injEq, Prod.mk.injEq, Except.ok.injEq] at h4
    obtain ⟨⟨rfl, rfl, rfl⟩, rfl⟩ := h4
    have hex := (fun hv' => retransmitAfterCompletedExchange_yields K st st' e s.conv.version _ _ _ hv' h3) hva
    have heb := (retransmitAfterCompletedExchange_eb K st st' e _ _ _ h3).1
    refine ⟨hm, hex, Good.of_or hg' ?_⟩
    rcases heb with h | h
    · rw [h]; exact auth_after_setState sa.conv st'
    · exact Or.inr h
  by_cases h1 : t = msgTypeDHCommit
  · rw [if_pos h1] at hr
    exact short _ (recvDHCommit_yields K st msg _) (recvDHCommit_vp K st msg) hr
  · rw [if_neg h1] at hr
    by_cases h2 : t = msgTypeDHKey
    · rw [if_pos h2] at hr
      exact short _ (recvDHKey_yields K st msg _) (recvDHKey_vp K st msg) hr
    · rw [if_neg h2] at hr
      by_cases h3 : t = msgTypeRevealSig
      · rw [if_pos h3] at hr
        exact long _ (recvRevealSig_yields K st msg _) (recvRevealSig_vp K st msg) hr
      · rw [if_neg h3] at hr
        by_cases h4 : t = msgTypeSig
        · rw [if_pos h4] at hr
          exact long _ (recvSig_yields K st msg _) (recvSig_vp K st msg) hr
        · rw [if_neg h4] at hr
          simp only [runM_pure, Res.ok.injEq, Prod.mk.injEq, Except.ok.injEq] at hr
          obtain ⟨⟨rfl, rfl, rfl⟩, rfl⟩ := hr
          refine ⟨fun y hy => ?_, AllVer.nil _, ?_⟩
          · cases hy
          · rw [hst]; exact hg

theorem akeRest_emits (K : Crypto) (t : Nat) (msg : Bytes) (st : AuthState) (s s' : MState)
    (msgs : List Bytes) (err : Option Err) (hg : Good s.conv.version st) (hst : authStateOf s.conv = st)
    (hr : runM (akeRest K t msg st) s = .ok (.ok (msgs, err), s')) :
    AllVer s.conv.version msgs ∧ Good s.conv.version (authStateOf s'.conv) := by
  unfold akeRest at hr
  rw [runM_bind] at hr
  obtain ⟨⟨single, extra, e⟩, s1, h1, h2⟩ := bindM_ok_inv hr
  obtain ⟨hsingle, hextra, hg1⟩ := akeDispatch_emits K t msg st s s1 single extra e hg hst h1
  dsimp only at h2
  rw [runM_bind] at h2
  obtain ⟨_, s2, h3, h4⟩ := bindM_ok_inv h2
  simp only [runM_pure, Res.ok.injEq, Prod.mk.injEq, Except.ok.injEq] at h4
  obtain ⟨⟨rfl, rfl⟩, rfl⟩ := h4
  constructor
  · intro y hy
    rw [List.mem_append] at hy
    rcases hy with hy | hy
    · cases single with
      | none => cases hy
      | some m => rw [List.mem_singleton] at hy; exact hsingle y (by rw [hy])
    · exact hextra y hy
  · cases ha : s1.conv.ake with
    | none => rw [akeStamp_run_none _ _ _ _ ha] at h3; cases h3
    | some a1 =>
      rw [akeStamp_run _ _ _ _ _ ha] at h3
      simp only [Res.ok.injEq, Prod.mk.injEq] at h3
      rw [← h3.2]
      have : authStateOf s1.conv = a1.state := by unfold authStateOf; rw [ha]
      rw [this] at hg1
      show Good _ (stampAke st single e s1.env.now a1).state
      rw [stampAke_state]; exact hg1

/-- **(2) the replies of `processAKE`.**  From any state that satisfies the invariant, whatever the message:
    the version is untouched, every message handed back (D-H Key, D-H Commit, Reveal Signature — also the
    stored one that is retransmitted —, Signature, the data messages retransmitted or revealing MAC keys after
    a completed exchange) starts with the version field of the committed version, and the invariant holds
    afterwards (in particular for a Reveal-Signature message stored by this call) -/
theorem processAKE_emits (K : Crypto) (t : Nat) (msg : Bytes) (s s' : MState) (msgs : List Bytes)
    (err : Option Err) (hg : StoredVer s.conv)
    (hr : runM (processAKE K t msg) s = .ok (.ok (msgs, err), s')) :
    s'.conv.version = s.conv.version ∧ AllVer s'.conv.version msgs ∧ StoredVer s'.conv := by
  have hv : s'.conv.version = s.conv.version := vp_version (processAKE_vp K t msg) hr
  unfold StoredVer
  rw [hv]
  cases ha : s.conv.ake with
  | none =>
    rw [processAKE_run_none K t msg s ha] at hr
    have h0 := akeRest_emits K t msg .none _ s' msgs err trivial rfl hr
    exact ⟨rfl, h0⟩
  | some a =>
    rw [processAKE_run_some K t msg s a ha] at hr
    have hst : authStateOf s.conv = a.state := by unfold authStateOf; rw [ha]
    exact ⟨rfl, akeRest_emits K t msg a.state s s' msgs err (hst ▸ hg) hst hr⟩

/-! ## 3. data messages: the replies of `receiveDataMessage` -/

/-- an optional reply carries the version -/
def OptVer (ver : Option Version) (r : Option Bytes) : Prop := ∀ y, r = some y → VerMsg ver y

theorem OptVer.none (ver : Option Version) : OptVer ver none := fun y hy => by cases hy

/-- walk through a computation whose optional reply, if any, comes from `wrapMessageHeader` (matching is done
    with reducible transparency, so that the walk does not depend on the exact shape of the function) -/
macro "yields_opt" : tactic => `(tactic| repeat' (first
  | ((with_reducible refine Yields.pure ?_); exact OptVer.none _)
  | ((with_reducible refine Yields.pure ?_); intro y hy; cases hy; assumption)
  | with_reducible exact Yields.throw _ | with_reducible exact Yields.throw_bind _ _
  | with_reducible exact Yields.goPanic _
  | ((with_reducible refine Yields.bind (Yields.wrap _ _) ?_ (fun m hm => ?_)); vp_all)
  | ((with_reducible refine Yields.bind' ?_ (fun _ => ?_)); vp_all)
  | split | dsimp only))

theorem processDataMessageTail_yields (K : Crypto) (dm : DataMsg) (tlvs : List Tlv) (x : Bytes)
    (ver : Option Version) : Yields ver (OptVer ver) (processDataMessageTail K dm tlvs x) := by
  unfold processDataMessageTail
  yields_opt

theorem potentialHeartbeat_yields (K : Crypto) (plain : Option Bytes) (ver : Option Version) :
    Yields ver (OptVer ver) (potentialHeartbeat K plain) := by
  unfold potentialHeartbeat
  yields_opt

theorem processDataMessageRaw_yields (K : Crypto) (header msg : Bytes) (ver : Option Version) :
    Yields ver (fun r => OptVer ver r.2.1) (processDataMessageRaw K header msg) := by
  have jp : ∀ dm tlvs x (plain : Option Bytes), Yields ver (fun r => OptVer ver r.2.1)
      (tryCatch (do let ts ← processDataMessageTail K dm tlvs x; pure (plain, ts, none))
        (fun e => pure (plain, none, some e))) := by
    intro dm tlvs x plain
    refine Yields.tryCatch ?_ (by vp_all) (fun e => Yields.pure (OptVer.none _))
    exact Yields.bind (processDataMessageTail_yields _ _ _ _ _) (by vp_all) (fun ts hts => Yields.pure hts)
  unfold processDataMessageRaw
  refine Yields.bind' (by vp_all) (fun c => ?_)
  split
  · refine Yields.bind' (by vp_all) (fun _ => ?_)
    exact Yields.pure (OptVer.none _)
  · split
    · exact Yields.pure (OptVer.none _)
    · split
      · exact Yields.pure (OptVer.none _)
      · refine Yields.ite (Yields.pure (OptVer.none _)) ?_
        split
        refine Yields.bind' (by vp_all) (fun _ => ?_)
        split
        · exact Yields.pure (OptVer.none _)
        · refine Yields.bind' (by vp_all) (fun _ => ?_)
          dsimp only
          split
          all_goals
            split
            · refine Yields.bind' (by vp_all) (fun _ => ?_)
              refine Yields.bind' (by vp_all) (fun _ => ?_)
              exact jp _ _ _ _
            · refine Yields.bind' (by vp_all) (fun _ => ?_)
              exact jp _ _ _ _

theorem OptVer.toList {ver : Option Version} {r : Option Bytes} (h : OptVer ver r) : AllVer ver r.toList := by
  intro y hy
  cases r with
  | none => cases hy
  | some m => rw [Option.toList_some, List.mem_singleton] at hy; exact h y (by rw [hy])

theorem AllVer.append {ver : Option Version} {a b : List Bytes} (ha : AllVer ver a) (hb : AllVer ver b) :
    AllVer ver (a ++ b) := by
  intro y hy
  rw [List.mem_append] at hy
  exact hy.elim (ha y) (hb y)

theorem receiveDataMessage_yields (K : Crypto) (header body : Bytes) (ver : Option Version) :
    Yields ver (fun r => AllVer ver r.2.1) (receiveDataMessage K header body) := by
  unfold receiveDataMessage
  refine Yields.bind (processDataMessageRaw_yields K header body ver) (by vp_all) fun r hr => ?_
  obtain ⟨plain, toSend, err⟩ := r
  dsimp only
  split
  · refine Yields.bind' (by vp_all) fun _ => ?_
    exact Yields.pure (AllVer.nil _)
  · refine Yields.bind (P := fun hb => ∀ h, hb = Except.ok h → OptVer ver h) ?_ (by vp_all) fun hb hhb => ?_
    · refine Yields.tryCatch ?_ (by vp_all) (fun e => Yields.pure (fun h hh => by cases hh))
      exact Yields.bind (potentialHeartbeat_yields K plain ver) (by vp_all)
        (fun h hh => Yields.pure (fun h' he => by cases he; exact hh))
    · split
      · exact Yields.pure (AllVer.append (OptVer.toList hr) (OptVer.toList (hhb _ rfl)))
      · refine Yields.bind' (by vp_all) fun _ => ?_
        exact Yields.pure (OptVer.toList hr)

theorem processDataMessageRaw_notEncrypted (K : Crypto) (header msg : Bytes) (s s' : MState)
    (r : Option Bytes × Option Bytes × Option Err) (hne : s.conv.msgState ≠ .encrypted)
    (hr : runM (processDataMessageRaw K header msg) s = .ok (.ok r, s')) :
    r = (none, none, some .notInPrivate) := by
  unfold processDataMessageRaw at hr
  simp only [runM_bind, runM_getc, bindM_ok, if_pos hne, runM_msgEvent, runM_pure, Res.ok.injEq, Prod.mk.injEq,
    Except.ok.injEq] at hr
  exact hr.1.symm

/-- a data message that reaches a conversation which is not encrypted is answered by nothing -/
theorem receiveDataMessage_notEncrypted (K : Crypto) (header body : Bytes) (s s' : MState)
    (p : Option Bytes) (ts : List Bytes) (err : Option Err) (hne : s.conv.msgState ≠ .encrypted)
    (hr : runM (receiveDataMessage K header body) s = .ok (.ok (p, ts, err), s')) : ts = [] := by
  unfold receiveDataMessage at hr
  rw [runM_bind] at hr
  obtain ⟨⟨pl, to, er⟩, s1, h1, h2⟩ := bindM_ok_inv hr
  have := processDataMessageRaw_notEncrypted K header body s s1 _ hne h1
  simp only [Prod.mk.injEq] at this
  obtain ⟨rfl, rfl, rfl⟩ := this
  dsimp only at h2
  split at h2
  · rw [runM_bind] at h2
    obtain ⟨_, s2, -, h3⟩ := bindM_ok_inv h2
    simp only [runM_pure, Res.ok.injEq, Prod.mk.injEq, Except.ok.injEq] at h3
    exact h3.1.2.1.symm
  · simp only [potentialHeartbeat, Option.isNone_none, if_true, runM_bind, runM_tryCatch, runM_pure, bindM_ok,
      catchM_ok, Option.toList_none, List.append_nil, Res.ok.injEq, Prod.mk.injEq, Except.ok.injEq] at h2
    exact h2.1.2.1.symm

/-! ## 4. the invariant of the emission theorems -/

/-- `StoredVer`, the committed version is allowed, and an encrypted conversation has a version -/
structure EmitInv (c : Conv) : Prop where
  stored : StoredVer c
  allowed : VersionAllowed c
  enc : c.msgState = .encrypted → c.version.isSome = true

theorem vstep_of {α} {x : M α} (h1 : Stable VerF x) (h2 : ∀ v, Stable (St v) x) {s : MState} {r : Except Err α}
    {s' : MState} (hr : runM x s = .ok (r, s')) : VStep s.conv s'.conv := by
  have hf := h1 s r s' hr
  refine ⟨hf.1, fun v hv => h2 v s r s' hr hv, fun hn v hv => ?_⟩
  rcases hf.2 v hv with h | h
  · rw [hn] at h; cases h
  · exact h

theorem vstep_of_vp {α} {x : M α} (h : Stable VPFrame x) {s : MState} {r : Except Err α}
    {s' : MState} (hr : runM x s = .ok (r, s')) : VStep s.conv s'.conv :=
  vstep_of h.ofVP (fun v => h.ofVP) hr

/-- the invariant survives every step that keeps the authentication state (or drops it), does not turn the
    conversation encrypted, and respects the version rule -/
theorem EmitInv.step {s s' : MState} (hi : EmitInv s.conv) (heb : EB s s') (hv : VStep s.conv s'.conv) :
    EmitInv s'.conv := by
  refine ⟨?_, hv.allowed hi.allowed, fun he => ?_⟩
  · unfold StoredVer
    cases hs : s.conv.version with
    | some v =>
      rw [hv.2.1 v hs]
      have := hi.stored
      unfold StoredVer at this
      rw [hs] at this
      exact Good.of_or this heb.1
    | none =>
      have h0 : authStateOf s.conv = .none := by
        have := hi.stored
        unfold StoredVer at this
        rw [hs] at this
        cases ha : authStateOf s.conv with
        | none => rfl
        | awaitingSig rs => rw [ha] at this; obtain ⟨v, hv', -⟩ := this; cases hv'
        | awaitingDHKey => rw [ha] at this; cases this
        | awaitingRevealSig => rw [ha] at this; cases this
      have h1 : authStateOf s'.conv = .none := by
        rcases heb.1 with h | h
        · rw [h, h0]
        · exact h
      rw [h1]; trivial
  · have h0 := hi.enc (heb.2.1 he)
    cases hs : s.conv.version with
    | some v => rw [hv.2.1 v hs]; rfl
    | none => rw [hs] at h0; cases h0

theorem EmitInv.auth_none {c : Conv} (hi : EmitInv c) (hn : c.version = none) : authStateOf c = .none := by
  have := hi.stored
  unfold StoredVer at this
  rw [hn] at this
  cases ha : authStateOf c with
  | none => rfl
  | awaitingSig rs => rw [ha] at this; obtain ⟨v, hv', -⟩ := this; cases hv'
  | awaitingDHKey => rw [ha] at this; cases this
  | awaitingRevealSig => rw [ha] at this; cases this

theorem EmitInv.not_enc {c : Conv} (hi : EmitInv c) (hn : c.version = none) : c.msgState ≠ .encrypted := by
  intro he
  have := hi.enc he
  rw [hn] at this; cases this

/-- the invariant holds of every conversation as it is created: no AKE context, no version or an allowed one -/
theorem EmitInv.fresh (version : Option Version) (policies : Policies) (keys : List DsaPub) (fragmentSize : Nat)
    (errHandler : Bool) (friendlyQuery : Bytes) (ourTag : Nat)
    (hpre : ∀ v, version = some v → allowsVersion policies v = true) :
    EmitInv (freshConv version policies keys fragmentSize errHandler friendlyQuery ourTag) :=
  ⟨trivial, fun v hv => hpre v hv, fun h => by cases h⟩

/-! ## 5. `processAKE` and `sendDHCommit` keep the invariant -/

theorem not_finishing_none (t : Nat) : ¬ finishingCombination t .none := by
  rintro (⟨_, h⟩ | ⟨_, rs, h⟩) <;> cases h

theorem processAKE_inv2 (K : Crypto) (t : Nat) (msg : Bytes) (s s' : MState) (msgs : List Bytes)
    (err : Option Err) (hi : EmitInv s.conv)
    (hr : runM (processAKE K t msg) s = .ok (.ok (msgs, err), s')) :
    EmitInv s'.conv ∧ AllVer s'.conv.version msgs := by
  obtain ⟨hv, hm, hs⟩ := processAKE_emits K t msg s s' msgs err hi.stored hr
  have hp : s'.conv.policies = s.conv.policies := congrArg Prod.snd (processAKE_vp K t msg s _ s' hr)
  refine ⟨⟨hs, fun v hv' => ?_, fun he => ?_⟩, hm⟩
  · rw [hp]; rw [hv] at hv'; exact hi.allowed v hv'
  · rw [hv]
    by_cases ha : authStateOf s.conv = .none
    · have hq := processAKE_quiet K t msg s _ s' hr (by rw [ha]; exact not_finishing_none t)
      have hms : s'.conv.msgState = s.conv.msgState := congrArg Prod.fst hq
      exact hi.enc (by rw [← hms]; exact he)
    · exact hi.stored.isSome ha

theorem bindM_inv {α β} {x : Out α} {f : α → MState → Out β} {r : Except Err β} {s' : MState}
    (h : bindM x f = .ok (r, s')) :
    (∃ e, x = .ok (.error e, s') ∧ r = .error e) ∨ (∃ a s1, x = .ok (.ok a, s1) ∧ f a s1 = .ok (r, s')) := by
  cases x with
  | panic p => cases h
  | ok v =>
    obtain ⟨v, s1⟩ := v
    cases v with
    | error e =>
      simp only [bindM_error, Res.ok.injEq, Prod.mk.injEq] at h
      exact Or.inl ⟨e, by rw [h.2], h.1.symm⟩
    | ok a => exact Or.inr ⟨a, s1, rfl, h⟩

theorem modAke_eb (f : Ake → Ake) (hf : ∀ a, (f a).state = a.state) : Stable EB (modAke f) := by
  unfold modAke
  refine Stable.modc _ (fun s => EB.mk (Or.inl ?_) id (fun _ h => Or.inl h))
  show authStateOf { s.conv with ake := s.conv.ake.map f } = authStateOf s.conv
  unfold authStateOf
  cases s.conv.ake <;> simp [hf]

theorem getAke_eb : Stable EB getAke := by
  unfold getAke; eb_walk []
theorem optNat_eb (site : String) (v : Option Nat) : Stable EB (optNat site v) := by
  unfold optNat; eb_walk []
theorem akeEncrypt_eb (K : Crypto) (key data : Bytes) : Stable EB (akeEncrypt K key data) := by
  unfold akeEncrypt; eb_walk []
theorem initAKE_eb : Stable EB initAKE := by
  unfold initAKE
  exact Stable.modc _ (fun _ => EB.mk (Or.inr rfl) id (fun _ h => Or.inl h))
theorem setSecretExponent_eb (K : Crypto) (x : Bytes) : Stable EB (setSecretExponent K x) := by
  unfold setSecretExponent; exact modAke_eb _ (fun _ => rfl)
theorem serializeDHCommit_eb (K : Crypto) : Stable EB (serializeDHCommit K) := by
  unfold serializeDHCommit; eb_walk [getAke_eb, optNat_eb]
theorem dhCommitMessage_eb (K : Crypto) : Stable EB (dhCommitMessage K) := by
  unfold dhCommitMessage
  eb_walk [initAKE_eb, randomInto_eb, setSecretExponent_eb, getAke_eb, optNat_eb,
    akeEncrypt_eb, serializeDHCommit_eb]
  all_goals exact modAke_eb _ (fun _ => rfl)

/-- the D-H Commit message that starts an exchange: invariant kept (on every outcome), the message carries the
    committed version, the injection queue and the policies are untouched -/
theorem sendDHCommit_inv2 (K : Crypto) (s : MState) (r : Except Err Bytes) (s' : MState) (hi : EmitInv s.conv)
    (hr : runM (sendDHCommit K) s = .ok (r, s')) :
    EmitInv s'.conv ∧ (∀ x, r = .ok x → VerMsg s'.conv.version x) ∧
      s'.conv.injections = s.conv.injections ∧ s'.conv.policies = s.conv.policies ∧
      s'.conv.version = s.conv.version := by
  have hvp := sendDHCommit_vp K s r s' hr
  have hv : s'.conv.version = s.conv.version := congrArg Prod.fst hvp
  have hp : s'.conv.policies = s.conv.policies := congrArg Prod.snd hvp
  have hinj : s'.conv.injections = s.conv.injections := sendDHCommit_ki K s r s' hr
  have hall : VersionAllowed s'.conv := fun v hv' => by rw [hp]; rw [hv] at hv'; exact hi.allowed v hv'
  have hmsg : ∀ x, r = .ok x → VerMsg s'.conv.version x := by
    intro x hx; subst hx
    obtain ⟨v, -, hv', hh⟩ := sendDHCommit_ver K s s' x hr
    exact ⟨v, hv', hh⟩
  -- authentication state and message state
  have key : (s'.conv.msgState = .encrypted → s.conv.msgState = .encrypted) ∧
      (authStateOf s'.conv = .none ∨ (authStateOf s'.conv = .awaitingDHKey ∧ ∃ x, r = .ok x)) := by
    unfold sendDHCommit at hr
    simp only [runM_bind, runM_modc, bindM_ok] at hr
    generalize hs0 : ({ s with conv := { s.conv with ake := none } } : MState) = s0 at hr
    have h0a : authStateOf s0.conv = .none := by rw [← hs0]; rfl
    have h0m : s0.conv.msgState = s.conv.msgState := by rw [← hs0]
    rcases bindM_inv hr with ⟨e, h1, rfl⟩ | ⟨m0, s1, h1, h2⟩
    · have heb := dhCommitMessage_eb K s0 _ s' h1
      exact ⟨fun h => h0m ▸ heb.2.1 h, Or.inl (heb.1.elim (fun h => h.trans h0a) id)⟩
    · have heb1 := dhCommitMessage_eb K s0 _ s1 h1
      rcases bindM_inv h2 with ⟨e, h3, rfl⟩ | ⟨m1, s2, h3, h4⟩
      · have heb2 := wrapMessageHeader_eb _ _ s1 _ s' h3
        have heb := EB.trans heb1 heb2
        exact ⟨fun h => h0m ▸ heb.2.1 h, Or.inl (heb.1.elim (fun h => h.trans h0a) id)⟩
      · have heb2 := wrapMessageHeader_eb _ _ s1 _ s2 h3
        have heb := EB.trans heb1 heb2
        simp only [modAke, runM_modc, bindM_ok, runM_pure, Res.ok.injEq, Prod.mk.injEq] at h4
        obtain ⟨rfl, rfl⟩ := h4
        refine ⟨fun h => h0m ▸ heb.2.1 h, ?_⟩
        rcases auth_after_setState s2.conv .awaitingDHKey with h | h
        · exact Or.inr ⟨h, m1, rfl⟩
        · exact Or.inl h
  refine ⟨⟨?_, hall, fun he => ?_⟩, hmsg, hinj, hp, hv⟩
  · unfold StoredVer
    rcases key.2 with h | ⟨h, x, hx⟩
    · rw [h]; trivial
    · rw [h]; exact (hmsg x hx).isSome
  · rw [hv]; exact hi.enc (key.1 he)

end Otr
