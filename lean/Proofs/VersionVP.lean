/-
  Proofs.VersionVP — the frame `VPFrame` (protocol version and policies unchanged) and a walk through every
  function of the conversation model that does not choose a version: everything except `commitToVersionFrom` and
  its callers (`checkVersion`, `parseFragmentPrefix`, `receiveFragment`, `receiveDecodedCore`, `receiveDecoded`,
  `receiveQueryMessage`, `receiveTaggedPlaintext`, `receiveUnit`), which Proofs.VersionInv treats.
  (Imports Proofs.NoPanic, hence the `Otr.Inv` of Proofs.NoPanicBase: cannot be imported together with
  Proofs.Ratchet / SendShape / Fixes2..)
-/
import Proofs.NoPanic
set_option linter.unusedSimpArgs false
set_option linter.unusedVariables false
namespace Otr

/-! ## 1. the frame "version and policies unchanged" -/

def vpKept (s : MState) := (s.conv.version, s.conv.policies)
abbrev VPFrame : MState → MState → Prop := Keeps vpKept

macro "vp_leaf" : tactic => `(tactic| first
  | exact Stable.modc _ (fun _ => rfl)
  | (refine Stable.modc _ (fun s => ?_); show vpKept _ = vpKept _; unfold vpKept; (try dsimp only);
     split <;> rfl)
  | exact Stable.mism _ (fun _ => rfl)
  | exact Stable.ev _ (fun _ => rfl))

macro "vp_core" : tactic => `(tactic| first
  | exact Stable.pure _ | exact Stable.throw _ | exact Stable.goPanic _
  | exact Stable.getc | exact Stable.get | exact Stable.now
  | vp_leaf
  | with_reducible apply Stable.bind | with_reducible apply Stable.tryCatch
  | with_reducible apply Stable.ite | with_reducible apply Stable.map
  | with_reducible apply Stable.forIn)

syntax "vp_walk" "[" term,* "]" : tactic
macro_rules
  | `(tactic| vp_walk [$ls,*]) => do
    let tacs ← ls.getElems.mapM fun l => `(tactic| with_reducible apply $l)
    `(tactic| repeat' (first | vp_core $[| $tacs:tactic]* | with_reducible intro _ | split | dsimp only))

theorem Stable.send_vp {α} {x : M α} (h : Stable SendFrame x) : Stable VPFrame x :=
  Stable.mono (fun s s' hs => by
    have h2 : sendKept s' = sendKept s := hs
    unfold sendKept at h2
    simp only [Prod.mk.injEq] at h2
    show (s'.conv.version, s'.conv.policies) = (s.conv.version, s.conv.policies)
    rw [h2.2.2.2.1, h2.2.2.2.2.2.2.2.2.2.2.2.2.2.2.1]) h

/-! ### events -/

theorem msgEvent_vp (n : Nat) : Stable VPFrame (msgEvent n) := by
  unfold msgEvent; vp_walk []
theorem msgEventMsg_vp (n : Nat) (m : Bytes) : Stable VPFrame (msgEventMsg n m) := by
  unfold msgEventMsg; vp_walk []
theorem msgEventErr_vp (n : Nat) : Stable VPFrame (msgEventErr n) := by
  unfold msgEventErr; vp_walk []
theorem secEvent_vp (n : Nat) : Stable VPFrame (secEvent n) := by
  unfold secEvent; vp_walk []
theorem smpEvent_vp (n p : Nat) : Stable VPFrame (smpEvent n p) := by
  unfold smpEvent; vp_walk []
theorem smpEventQ_vp (n p : Nat) (q : Bytes) : Stable VPFrame (smpEventQ n p q) := by
  unfold smpEventQ; vp_walk []

/-! ### randomness, headers, the sending path -/

theorem randRead_vp (n : Nat) : Stable VPFrame (randRead n) := (randRead_sendFrame n).send_vp
theorem randomInto_vp (n : Nat) : Stable VPFrame (randomInto n) := (randomInto_sendFrame n).send_vp

theorem signOracle_vp (mb : Bytes) : Stable VPFrame (signOracle mb) := by
  intro s r s' h
  obtain ⟨r0, env', mm', hr⟩ := signOracle_run mb s
  rw [hr] at h
  simp only [Res.ok.injEq, Prod.mk.injEq] at h
  rw [← h.2]; rfl

theorem messageHeader_vp (t : Nat) : Stable VPFrame (messageHeader t) := (messageHeader_sendFrame t).send_vp

theorem wrapMessageHeader_vp (t : Nat) (m : Bytes) : Stable VPFrame (wrapMessageHeader t m) := by
  unfold wrapMessageHeader; vp_walk [messageHeader_vp]

theorem genDataMsgWithFlag_vp (K : Crypto) (m : Bytes) (f : Nat) (tlvs : List Tlv) :
    Stable VPFrame (genDataMsgWithFlag K m f tlvs) := (genDataMsgWithFlag_sendFrame K m f tlvs).send_vp

theorem createSerializedDataMessage_vp (K : Crypto) (m : Bytes) (f : Nat) (tlvs : List Tlv) :
    Stable VPFrame (createSerializedDataMessage K m f tlvs) :=
  (createSerializedDataMessage_sendFrame K m f tlvs).send_vp

theorem updateLastSent_vp : Stable VPFrame updateLastSent := by
  unfold updateLastSent; vp_walk []
theorem fragEncode_vp (msg : Bytes) : Stable VPFrame (fragEncode msg) := by
  unfold fragEncode; vp_walk []
theorem withInjects_vp (vms : List Bytes) : Stable VPFrame (withInjects vms) := by
  unfold withInjects; vp_walk []
theorem generatePotentialErrorMessage_vp (code : Nat) : Stable VPFrame (generatePotentialErrorMessage code) := by
  unfold generatePotentialErrorMessage; vp_walk []
theorem malformedMessage_vp : Stable VPFrame malformedMessage := by
  unfold malformedMessage; vp_walk [msgEvent_vp, generatePotentialErrorMessage_vp]
theorem resendLater_vp (m : Bytes) : Stable VPFrame (resendLater m) := by
  unfold resendLater; vp_walk []
theorem resendLast_vp (m : Bytes) : Stable VPFrame (resendLast m) := by
  unfold resendLast; vp_walk []

theorem verifyInstanceTags_vp (their our : Nat) : Stable VPFrame (verifyInstanceTags their our) := by
  unfold verifyInstanceTags; vp_walk [malformedMessage_vp, msgEvent_vp]
theorem parseMessageHeader_vp (m : Bytes) : Stable VPFrame (parseMessageHeader m) := by
  unfold parseMessageHeader; vp_walk [malformedMessage_vp, verifyInstanceTags_vp]
theorem toSendEncoded_vp (ts : List Bytes) (e : Option Err) : Stable VPFrame (toSendEncoded ts e) := by
  unfold toSendEncoded; vp_walk [fragEncode_vp]

/-! ### the AKE -/

theorem getAke_vp : Stable VPFrame getAke := by
  unfold getAke; vp_walk []
theorem modAke_vp (f : Ake → Ake) : Stable VPFrame (modAke f) := by
  unfold modAke; vp_walk []
theorem optNat_vp (site : String) (v : Option Nat) : Stable VPFrame (optNat site v) := by
  unfold optNat; vp_walk []
theorem akeEncrypt_vp (K : Crypto) (key data : Bytes) : Stable VPFrame (akeEncrypt K key data) := by
  unfold akeEncrypt; vp_walk []
theorem resToM_vp {α} (r : Res α) : Stable VPFrame (resToM r) := by
  unfold resToM; vp_walk []
theorem initAKE_vp : Stable VPFrame initAKE := by
  unfold initAKE; vp_walk []
theorem setSecretExponent_vp (K : Crypto) (x : Bytes) : Stable VPFrame (setSecretExponent K x) := by
  unfold setSecretExponent; vp_walk [modAke_vp]

theorem generateEncryptedSignature_vp (K : Crypto) (key : AkeKeys) :
    Stable VPFrame (generateEncryptedSignature K key) := by
  unfold generateEncryptedSignature
  vp_walk [getAke_vp, optNat_vp, signOracle_vp, akeEncrypt_vp]

theorem calcAKEKeys_vp (K : Crypto) : Stable VPFrame (calcAKEKeys K) := by
  unfold calcAKEKeys; vp_walk [getAke_vp, optNat_vp, modAke_vp]

theorem serializeDHCommit_vp (K : Crypto) : Stable VPFrame (serializeDHCommit K) := by
  unfold serializeDHCommit; vp_walk [getAke_vp, optNat_vp]
theorem serializeDHKey_vp : Stable VPFrame serializeDHKey := by
  unfold serializeDHKey; vp_walk [getAke_vp, optNat_vp]

theorem dhCommitMessage_vp (K : Crypto) : Stable VPFrame (dhCommitMessage K) := by
  unfold dhCommitMessage
  vp_walk [initAKE_vp, randomInto_vp, setSecretExponent_vp, modAke_vp, getAke_vp, optNat_vp,
    akeEncrypt_vp, serializeDHCommit_vp]

theorem dhKeyMessage_vp (K : Crypto) : Stable VPFrame (dhKeyMessage K) := by
  unfold dhKeyMessage
  vp_walk [initAKE_vp, randomInto_vp, setSecretExponent_vp, serializeDHKey_vp]

theorem revealSigMessage_vp (K : Crypto) : Stable VPFrame (revealSigMessage K) := by
  unfold revealSigMessage
  vp_walk [calcAKEKeys_vp, modAke_vp, getAke_vp, generateEncryptedSignature_vp, resToM_vp]

theorem sigMessage_vp (K : Crypto) : Stable VPFrame (sigMessage K) := by
  unfold sigMessage
  vp_walk [modAke_vp, getAke_vp, generateEncryptedSignature_vp, resToM_vp]

theorem processDHCommit_vp (m : Bytes) : Stable VPFrame (processDHCommit m) := by
  unfold processDHCommit; vp_walk [modAke_vp]

theorem processDHKey_vp (m : Bytes) : Stable VPFrame (processDHKey m) := by
  unfold processDHKey; vp_walk [modAke_vp, getAke_vp]

theorem processEncryptedSig_vp (K : Crypto) (es tm : Bytes) (keys : AkeKeys) :
    Stable VPFrame (processEncryptedSig K es tm keys) := by
  unfold processEncryptedSig; vp_walk [modAke_vp, getAke_vp, optNat_vp]

theorem processRevealSig_vp (K : Crypto) (m : Bytes) : Stable VPFrame (processRevealSig K m) := by
  unfold processRevealSig
  vp_walk [modAke_vp, getAke_vp, calcAKEKeys_vp, processEncryptedSig_vp]

theorem processSig_vp (K : Crypto) (m : Bytes) : Stable VPFrame (processSig K m) := by
  unfold processSig; vp_walk [getAke_vp, processEncryptedSig_vp]

theorem akeSetTheirCurrent_vp : Stable VPFrame akeSetTheirCurrent := by
  unfold akeSetTheirCurrent; vp_walk [modAke_vp, getAke_vp, optNat_vp]
theorem akeSetOurCurrent_vp : Stable VPFrame akeSetOurCurrent := by
  unfold akeSetOurCurrent; vp_walk [modAke_vp, getAke_vp, optNat_vp]

theorem akeHasFinished_vp (K : Crypto) : Stable VPFrame (akeHasFinished K) := by
  intro s r s' h
  cases ha : s.conv.ake with
  | none => rw [akeHasFinished_none K s ha] at h; cases h
  | some a =>
    obtain ⟨r0, env', mm', hs, h'⟩ := akeHasFinished_run K s a ha
    rw [h'] at h
    simp only [Res.ok.injEq, Prod.mk.injEq] at h
    rw [← h.2]; rfl

theorem recvDHCommitNone_vp (K : Crypto) (m : Bytes) : Stable VPFrame (recvDHCommitNone K m) := by
  unfold recvDHCommitNone akeTry
  vp_walk [modAke_vp, dhKeyMessage_vp, wrapMessageHeader_vp, processDHCommit_vp]

theorem recvDHCommit_vp (K : Crypto) (st : AuthState) (m : Bytes) : Stable VPFrame (recvDHCommit K st m) := by
  unfold recvDHCommit akeTry
  vp_walk [recvDHCommitNone_vp, modAke_vp, processDHCommit_vp, wrapMessageHeader_vp, serializeDHKey_vp,
    serializeDHCommit_vp, getAke_vp, optNat_vp]

theorem recvDHKey_vp (K : Crypto) (st : AuthState) (m : Bytes) : Stable VPFrame (recvDHKey K st m) := by
  unfold recvDHKey akeTry
  vp_walk [processDHKey_vp, revealSigMessage_vp, wrapMessageHeader_vp, akeSetTheirCurrent_vp,
    akeSetOurCurrent_vp, modAke_vp]

theorem recvRevealSig_vp (K : Crypto) (st : AuthState) (m : Bytes) : Stable VPFrame (recvRevealSig K st m) := by
  unfold recvRevealSig akeTry
  vp_walk [processRevealSig_vp, sigMessage_vp, wrapMessageHeader_vp, akeSetTheirCurrent_vp,
    akeSetOurCurrent_vp, modAke_vp, akeHasFinished_vp]

theorem recvSig_vp (K : Crypto) (st : AuthState) (m : Bytes) : Stable VPFrame (recvSig K st m) := by
  unfold recvSig akeTry
  vp_walk [processSig_vp, akeSetTheirCurrent_vp, akeHasFinished_vp]

theorem sendDHCommit_vp (K : Crypto) : Stable VPFrame (sendDHCommit K) := by
  unfold sendDHCommit
  vp_walk [dhCommitMessage_vp, wrapMessageHeader_vp, modAke_vp]

theorem retransmit_vp (K : Crypto) : Stable VPFrame (retransmit K) := by
  unfold retransmit
  vp_walk [genDataMsgWithFlag_vp, wrapMessageHeader_vp, msgEvent_vp, updateLastSent_vp]

theorem maybeRetransmit_vp (K : Crypto) : Stable VPFrame (maybeRetransmit K) := by
  unfold maybeRetransmit; vp_walk [retransmit_vp]

theorem retransmitAfterCompletedExchange_vp (K : Crypto) (b a : AuthState) (e : Option Err) :
    Stable VPFrame (retransmitAfterCompletedExchange K b a e) := by
  unfold retransmitAfterCompletedExchange
  vp_walk [maybeRetransmit_vp, genDataMsgWithFlag_vp, wrapMessageHeader_vp]

theorem processAKE_vp (K : Crypto) (t : Nat) (m : Bytes) : Stable VPFrame (processAKE K t m) := by
  unfold processAKE
  vp_walk [initAKE_vp, getAke_vp, modAke_vp, recvDHCommit_vp, recvDHKey_vp, recvRevealSig_vp, recvSig_vp,
    retransmitAfterCompletedExchange_vp]

/-! ### SMP -/

theorem smpSecretFor_vp (K : Crypto) (i : Bool) (sec : Bytes) : Stable VPFrame (smpSecretFor K i sec) := by
  unfold smpSecretFor; vp_walk []
theorem paramLen_vp : Stable VPFrame paramLen := by
  unfold paramLen; vp_walk []
theorem randMPIs_vp (k len : Nat) : Stable VPFrame (randMPIs k len) := by
  induction k with
  | zero => unfold randMPIs; vp_walk []
  | succ k ih => unfold randMPIs; vp_walk [randRead_vp, ih]
theorem smpWipe_vp : Stable VPFrame smpWipe := by
  unfold smpWipe; vp_walk []

theorem startAuthenticateExpect1_vp (K : Crypto) (q sec : Bytes) :
    Stable VPFrame (startAuthenticateExpect1 K q sec) := by
  unfold startAuthenticateExpect1
  vp_walk [smpSecretFor_vp, paramLen_vp, randMPIs_vp]

theorem startAuthenticate_vp (K : Crypto) (q sec : Bytes) : Stable VPFrame (startAuthenticate K q sec) := by
  unfold startAuthenticate
  vp_walk [startAuthenticateExpect1_vp, createSerializedDataMessage_vp]

theorem continueSMP_vp (K : Crypto) (sec : Bytes) : Stable VPFrame (continueSMP K sec) := by
  unfold continueSMP
  vp_walk [smpSecretFor_vp, paramLen_vp, randMPIs_vp, smpEvent_vp]

theorem provideAuthenticationSecret_vp (K : Crypto) (sec : Bytes) :
    Stable VPFrame (provideAuthenticationSecret K sec) := by
  unfold provideAuthenticationSecret
  vp_walk [continueSMP_vp, createSerializedDataMessage_vp]

theorem abortAuthentication_vp (K : Crypto) : Stable VPFrame (abortAuthentication K) := by
  unfold abortAuthentication
  vp_walk [createSerializedDataMessage_vp]

theorem processSMPTLV_vp (K : Crypto) (t : Tlv) : Stable VPFrame (processSMPTLV K t) := by
  intro s r s' hr
  have h := ConvData.processSMPTLV_frame K t s
  unfold ConvData.wp at h
  rw [show ConvData.run' (processSMPTLV K t) s = runM (processSMPTLV K t) s from rfl, hr] at h
  unfold ConvData.SmpFrame at h
  show (s'.conv.version, s'.conv.policies) = (s.conv.version, s.conv.policies)
  rw [h]

/-! ### TLVs, data messages -/

theorem processDisconnectedTLV_vp : Stable VPFrame processDisconnectedTLV := by
  unfold processDisconnectedTLV
  vp_walk [secEvent_vp]

theorem processExtraSymmetricKeyTLV_vp (t : Tlv) (x : Bytes) :
    Stable VPFrame (processExtraSymmetricKeyTLV t x) := by
  unfold processExtraSymmetricKeyTLV; vp_walk []

theorem processTLVs_vp (K : Crypto) (tlvs : List Tlv) (x : Bytes) : Stable VPFrame (processTLVs K tlvs x) := by
  unfold processTLVs
  vp_walk [processDisconnectedTLV_vp, processExtraSymmetricKeyTLV_vp, processSMPTLV_vp]

theorem processDataMessageTail_vp (K : Crypto) (dm : DataMsg) (tlvs : List Tlv) (x : Bytes) :
    Stable VPFrame (processDataMessageTail K dm tlvs x) := by
  unfold processDataMessageTail
  vp_walk [randRead_vp, processTLVs_vp, genDataMsgWithFlag_vp, wrapMessageHeader_vp]

theorem processDataMessageRaw_vp (K : Crypto) (header msg : Bytes) :
    Stable VPFrame (processDataMessageRaw K header msg) := by
  unfold processDataMessageRaw
  vp_walk [processDataMessageTail_vp, msgEvent_vp]

theorem potentialHeartbeat_vp (K : Crypto) (plain : Option Bytes) : Stable VPFrame (potentialHeartbeat K plain) := by
  unfold potentialHeartbeat
  vp_walk [genDataMsgWithFlag_vp, wrapMessageHeader_vp, updateLastSent_vp, msgEvent_vp]

theorem notifyDataMessageError_vp (e : Err) : Stable VPFrame (notifyDataMessageError e) := by
  unfold notifyDataMessageError
  vp_walk [msgEvent_vp, generatePotentialErrorMessage_vp]

theorem receiveDataMessage_vp (K : Crypto) (header body : Bytes) :
    Stable VPFrame (receiveDataMessage K header body) := by
  unfold receiveDataMessage
  vp_walk [processDataMessageRaw_vp, potentialHeartbeat_vp, notifyDataMessageError_vp]

/-! ### plaintext, error message, send, end, extra key -/

theorem checkPlaintextPolicies_vp (p : Bytes) : Stable VPFrame (checkPlaintextPolicies p) := by
  unfold checkPlaintextPolicies; vp_walk [msgEventMsg_vp]

theorem receiveErrorMessage_vp (m : Bytes) : Stable VPFrame (receiveErrorMessage m) := by
  unfold receiveErrorMessage; vp_walk [msgEventMsg_vp]

theorem appendWhitespaceTag_vp (m : Bytes) : Stable VPFrame (appendWhitespaceTag m) := by
  unfold appendWhitespaceTag; vp_walk []

theorem send_vp (K : Crypto) (m : Bytes) : Stable VPFrame (send K m) := by
  unfold send
  vp_walk [msgEvent_vp, updateLastSent_vp, resendLater_vp, withInjects_vp, appendWhitespaceTag_vp,
    createSerializedDataMessage_vp, generatePotentialErrorMessage_vp]

theorem endSession_vp (K : Crypto) : Stable VPFrame (endSession K) := by
  unfold endSession
  vp_walk [smpWipe_vp, createSerializedDataMessage_vp, secEvent_vp]

theorem useExtraSymmetricKey_vp (K : Crypto) (u : Nat) (d : Bytes) : Stable VPFrame (useExtraSymmetricKey K u d) := by
  unfold useExtraSymmetricKey
  vp_walk [createSerializedDataMessage_vp]

end Otr
