/-
  Proofs.Bytes — lemmas about big-endian integers and MPIs (math/big Bytes/SetBytes).
-/
import Otr.Bytes
namespace Otr

theorem bytesToNat_append_single (l : Bytes) (x : UInt8) :
    bytesToNat (l ++ [x]) = bytesToNat l * 256 + x.toNat := by
  simp [bytesToNat, List.foldl_append]

theorem bytesToNat_natToBytes (n : Nat) : bytesToNat (natToBytes n) = n := by
  induction n using Nat.strongRecOn with
  | _ n ih =>
    unfold natToBytes natToBytesLE
    split
    · subst_vars; simp [bytesToNat]
    · rename_i h
      have hlt : n / 256 < n := by omega
      have := ih (n / 256) hlt
      simp only [List.reverse_cons]
      rw [bytesToNat_append_single]
      unfold natToBytes at this
      rw [this]
      simp
      omega

/-- minimal form: the first byte of big.Int.Bytes() is never zero -/
theorem natToBytesLE_getLast_ne_zero (n : Nat) (h : n ≠ 0) :
    ∀ x, (natToBytesLE n).getLast? = some x → x ≠ 0 := by
  induction n using Nat.strongRecOn with
  | _ n ih =>
    intro x hx
    unfold natToBytesLE at hx
    simp only [h, ↓reduceDIte] at hx
    by_cases h2 : n / 256 = 0
    · have : natToBytesLE (n / 256) = [] := by unfold natToBytesLE; simp [h2]
      rw [this] at hx
      simp at hx
      subst hx
      intro hz
      have := congrArg UInt8.toNat hz
      simp at this
      omega
    · have hlt : n / 256 < n := by omega
      have hne : natToBytesLE (n / 256) ≠ [] := by
        unfold natToBytesLE; simp [h2]
      rw [List.getLast?_cons_of_ne_nil hne] at hx  
      exact ih (n / 256) hlt h2 x hx

theorem natToBytes_head_ne_zero (n : Nat) (x : UInt8) (h : (natToBytes n).head? = some x) : x ≠ 0 := by
  unfold natToBytes at h
  rw [List.head?_reverse] at h
  by_cases hn : n = 0
  · subst hn; unfold natToBytesLE at h; simp at h
  · exact natToBytesLE_getLast_ne_zero n hn x h

theorem natToBytes_zero : natToBytes 0 = [] := by
  unfold natToBytes natToBytesLE; simp

end Otr

namespace Otr

theorem natToBytesLE_length_le (k : Nat) : ∀ n, n < 256 ^ k → (natToBytesLE n).length ≤ k := by
  induction k with
  | zero => intro n h; simp at h; subst h; unfold natToBytesLE; simp
  | succ k ih =>
    intro n h
    unfold natToBytesLE
    split
    · simp
    · have : n / 256 < 256 ^ k := by
        rw [Nat.pow_succ] at h
        exact Nat.div_lt_of_lt_mul (by rw [Nat.mul_comm]; exact h)
      have := ih (n / 256) this
      simp; omega

theorem foldl_bytes_lt (l : Bytes) : ∀ acc : Nat,
    l.foldl (fun a x => a * 256 + x.toNat) acc < (acc + 1) * 256 ^ l.length := by
  induction l with
  | nil => intro acc; simp
  | cons x l ih =>
    intro acc
    have hx := x.toNat_lt
    have h1 := ih (acc * 256 + x.toNat)
    have h2 : acc * 256 + x.toNat + 1 ≤ (acc + 1) * 256 := by omega
    have h3 := Nat.mul_le_mul_right (256 ^ l.length) h2
    simp only [List.foldl_cons, List.length_cons, Nat.pow_succ]
    calc _ < (acc * 256 + x.toNat + 1) * 256 ^ l.length := h1
      _ ≤ (acc + 1) * 256 * 256 ^ l.length := h3
      _ = (acc + 1) * (256 ^ l.length * 256) := by rw [Nat.mul_assoc, Nat.mul_comm 256]

theorem bytesToNat_lt (l : Bytes) : bytesToNat l < 256 ^ l.length := by
  have := foldl_bytes_lt l 0
  simpa [bytesToNat] using this

/-- re-serialising a parsed integer never gets longer -/
theorem natToBytes_bytesToNat_length_le (l : Bytes) : (natToBytes (bytesToNat l)).length ≤ l.length := by
  unfold natToBytes
  rw [List.length_reverse]
  exact natToBytesLE_length_le _ _ (bytesToNat_lt l)

end Otr
