/-
  Proofs.AkeSkeletonBase — first half of the C07 state-machine skeleton (see Proofs.AkeSkeleton).

  §1  abstraction: `AuthState.abs`, `absAuth`, `absEnc`, `absHasAke`, message kinds `AkeKind` (`AkeKind.ofType`,
        `msgKind`), the finite table `allowedTransitions`, `recvAke_allowed`, `allowed_realised` (by `decide`) and
        `allowed_iff` (the table is exactly the image of `AkeAbs.recvAke` over all parties, both `weWin` values and
        all AKE messages).
  §2  frames: `AkeKept` (the AKE context is untouched: header, data message generation, retransmission),
        `AkeSome` (an existing AKE context is not lost), value post-conditions `RetV`, never-throws `NoThrowV`
        (recvDHCommit / recvDHKey / recvRevealSig / recvSig / retransmitAfterCompletedExchange).
-/
import Proofs.AkeGuard
import Otr.AkeAbs
set_option linter.unusedSimpArgs false
set_option linter.unusedVariables false
namespace Otr
open AkeAbs (Auth Party Msg recvAke)

/-! ## 1. the abstraction and the table of abstract transitions -/

/-- the kind of an authentication state (the stored Reveal-Signature message is forgotten) -/
def AuthState.abs : AuthState → Auth
  | .none => .none
  | .awaitingDHKey => .awaitDHKey
  | .awaitingRevealSig => .awaitRevealSig
  | .awaitingSig _ => .awaitSig

/-- `Party.auth` of a conversation: the state of its AKE context; `none` when there is no AKE context -/
def absAuth (c : Conv) : Auth := (authStateOf c).abs

/-- `Party.enc` of a conversation -/
def absEnc (c : Conv) : Bool := decide (c.msgState = .encrypted)

/-- `Party.hasAke` of a conversation -/
def absHasAke (c : Conv) : Bool := c.ake.isSome

theorem absAuth_some {c : Conv} {a : Ake} (h : c.ake = some a) : absAuth c = a.state.abs := by
  unfold absAuth; rw [authStateOf_some h]

theorem absAuth_none {c : Conv} (h : c.ake = none) : absAuth c = .none := by
  unfold absAuth; rw [authStateOf_none h]; rfl

/-- the four kinds of AKE messages -/
inductive AkeKind where
  | commit | key | reveal | sig
  deriving DecidableEq, Repr

/-- the kind of the message type byte `processAKE` dispatches on -/
def AkeKind.ofType (t : Nat) : Option AkeKind :=
  if t = msgTypeDHCommit then some .commit
  else if t = msgTypeDHKey then some .key
  else if t = msgTypeRevealSig then some .reveal
  else if t = msgTypeSig then some .sig
  else none

/-- the kind of an abstract message (`query` is not an AKE message) -/
def msgKind : Msg → Option AkeKind
  | .query => none
  | .commit _ => some .commit
  | .key _ => some .key
  | .reveal _ _ => some .reveal
  | .sig _ _ => some .sig

/-- a transition of the skeleton: (auth before, encrypted before, message kind, auth after, encrypted after) -/
abbrev Transition := Auth × Bool × AkeKind × Auth × Bool

/-- the transitions of `recvAke` from a party whose `enc` flag is `e` -/
def allowedFor (e : Bool) : List Transition :=
  [ -- DH-Commit: answered from every state (`commitFresh`, the re-sent DH-Key, the collision rule)
    (.none, e, .commit, .awaitRevealSig, e),
    (.awaitSig, e, .commit, .awaitRevealSig, e),
    (.awaitRevealSig, e, .commit, .awaitRevealSig, e),
    (.awaitDHKey, e, .commit, .awaitRevealSig, e),
    (.awaitDHKey, e, .commit, .awaitDHKey, e),
    -- DH-Key: only `awaitDHKey` moves
    (.awaitDHKey, e, .key, .awaitSig, e),
    (.awaitDHKey, e, .key, .awaitDHKey, e),
    (.awaitSig, e, .key, .awaitSig, e),
    (.none, e, .key, .none, e),
    (.awaitRevealSig, e, .key, .awaitRevealSig, e),
    -- Reveal-Signature: `finish` from `awaitRevealSig`, ignored otherwise
    (.awaitRevealSig, e, .reveal, .none, true),
    (.awaitRevealSig, e, .reveal, .awaitRevealSig, e),
    (.none, e, .reveal, .none, e),
    (.awaitDHKey, e, .reveal, .awaitDHKey, e),
    (.awaitSig, e, .reveal, .awaitSig, e),
    -- Signature: `finish` from `awaitSig`, ignored otherwise
    (.awaitSig, e, .sig, .none, true),
    (.awaitSig, e, .sig, .awaitSig, e),
    (.none, e, .sig, .none, e),
    (.awaitDHKey, e, .sig, .awaitDHKey, e),
    (.awaitRevealSig, e, .sig, .awaitRevealSig, e) ]

/-- the finite table of the abstract state machine -/
def allowedTransitions : List Transition := allowedFor false ++ allowedFor true

/-- what the skeleton observes of an abstract step -/
def absStep (weWin : Bool) (p : Party) (m : Msg) : Auth × Bool :=
  ((recvAke weWin p m).1.auth, (recvAke weWin p m).1.enc)

/-- every step of `recvAke` on an AKE message is in the table -/
theorem recvAke_allowed (weWin : Bool) (p : Party) (m : Msg) (k : AkeKind) (hk : msgKind m = some k) :
    (p.auth, p.enc, k, (absStep weWin p m).1, (absStep weWin p m).2) ∈ allowedTransitions := by
  obtain ⟨auth, enc, encRecent, session, ourX, theirPub, commitFrom, savedReveal, hasAke, akeStamped, nextId⟩ := p
  cases m with
  | query => cases hk
  | commit c =>
    cases hk
    cases auth <;> cases enc <;> cases weWin <;> cases ourX <;>
      simp [absStep, recvAke, AkeAbs.commitFresh, allowedTransitions, allowedFor]
  | key y =>
    cases hk
    cases auth <;> cases enc <;> cases ourX <;> cases theirPub <;>
      simp [absStep, recvAke, allowedTransitions, allowedFor] <;> split <;> simp
  | reveal x y =>
    cases hk
    cases auth <;> cases enc <;>
      simp [absStep, recvAke, AkeAbs.finish, allowedTransitions, allowedFor] <;> split <;> simp
  | sig y x =>
    cases hk
    cases auth <;> cases enc <;>
      simp [absStep, recvAke, AkeAbs.finish, allowedTransitions, allowedFor] <;> split <;> simp

/-- a party in which every guard of `recvAke` holds for the messages `stdMsg` -/
def goodParty (a : Auth) (e : Bool) : Party :=
  { auth := a, enc := e, ourX := some 0, theirPub := some 0, commitFrom := some 0 }

/-- a party in which every guard of `recvAke` fails -/
def badParty (a : Auth) (e : Bool) : Party := { auth := a, enc := e }

/-- one message of each kind -/
def stdMsg : AkeKind → Msg
  | .commit => .commit 0
  | .key => .key 0
  | .reveal => .reveal 0 0
  | .sig => .sig 0 0

/-- the candidates that realise the table -/
def candidates (a : Auth) (e : Bool) : List (Bool × Party) :=
  [(true, goodParty a e), (false, goodParty a e), (true, badParty a e)]

/-- every row of the table is a step of `recvAke` (checked row by row) -/
theorem allowed_realised :
    ∀ tr ∈ allowedTransitions, ∃ c ∈ candidates tr.1 tr.2.1,
      absStep c.1 c.2 (stdMsg tr.2.2.1) = (tr.2.2.2.1, tr.2.2.2.2) := by
  decide

/-- **the table is exactly the set of `recvAke` steps**: over all parties, both outcomes of the hash
    comparison and all AKE messages -/
theorem allowed_iff (a : Auth) (e : Bool) (k : AkeKind) (a' : Auth) (e' : Bool) :
    (a, e, k, a', e') ∈ allowedTransitions ↔
      ∃ (weWin : Bool) (p : Party) (m : Msg), p.auth = a ∧ p.enc = e ∧ msgKind m = some k ∧
        (recvAke weWin p m).1.auth = a' ∧ (recvAke weWin p m).1.enc = e' := by
  constructor
  · intro h
    obtain ⟨c, hc, hs⟩ := allowed_realised _ h
    simp only [candidates, List.mem_cons, List.not_mem_nil, or_false] at hc
    have hs' := Prod.mk.inj hs
    refine ⟨c.1, c.2, stdMsg k, ?_, ?_, by cases k <;> rfl, hs'.1, hs'.2⟩
    · rcases hc with rfl | rfl | rfl <;> rfl
    · rcases hc with rfl | rfl | rfl <;> rfl
  · rintro ⟨weWin, p, m, rfl, rfl, hk, rfl, rfl⟩
    exact recvAke_allowed weWin p m k hk

/-! ## 2. frames -/

section Frames

/-- the AKE context is untouched (headers, data message generation, retransmission) -/
abbrev AkeKept : MState → MState → Prop := Keeps (fun s => s.conv.ake)

theorem randRead_akeKept (n : Nat) : Stable AkeKept (randRead n) :=
  randRead_stable (fun s env' mm' h => rfl) n

theorem randomInto_akeKept (n : Nat) : Stable AkeKept (randomInto n) := by
  unfold randomInto
  stable [randRead_akeKept]

theorem generateInstanceTagAux_akeKept (fuel : Nat) : Stable AkeKept (generateInstanceTagAux fuel) := by
  induction fuel with
  | zero => unfold generateInstanceTagAux; stable []
  | succ n ih => unfold generateInstanceTagAux; stable [randomInto_akeKept, ih]

theorem generateInstanceTag_akeKept : Stable AkeKept generateInstanceTag := by
  unfold generateInstanceTag
  stable [generateInstanceTagAux_akeKept]

theorem messageHeader_akeKept (t : Nat) : Stable AkeKept (messageHeader t) := by
  unfold messageHeader
  stable [generateInstanceTag_akeKept]

theorem wrapMessageHeader_akeKept (t : Nat) (m : Bytes) : Stable AkeKept (wrapMessageHeader t m) := by
  unfold wrapMessageHeader
  stable [messageHeader_akeKept]

theorem genDataMsgWithFlag_akeKept (K : Crypto) (m : Bytes) (f : Nat) (tlvs : List Tlv) :
    Stable AkeKept (genDataMsgWithFlag K m f tlvs) := by
  unfold genDataMsgWithFlag encryptPlain resendLast
  stable [messageHeader_akeKept]

theorem retransmit_akeKept (K : Crypto) : Stable AkeKept (retransmit K) := by
  unfold retransmit updateLastSent msgEvent
  stable [genDataMsgWithFlag_akeKept, wrapMessageHeader_akeKept]

theorem maybeRetransmit_akeKept (K : Crypto) : Stable AkeKept (maybeRetransmit K) := by
  unfold maybeRetransmit
  stable [retransmit_akeKept]

theorem retransmitOrReveal_akeKept (K : Crypto) : Stable AkeKept (retransmitOrReveal K) := by
  unfold retransmitOrReveal
  stable [maybeRetransmit_akeKept, genDataMsgWithFlag_akeKept, wrapMessageHeader_akeKept]

theorem retransmitAfterCompletedExchange_akeKept (K : Crypto) (before after : AuthState) (e : Option Err) :
    Stable AkeKept (retransmitAfterCompletedExchange K before after e) := by
  by_cases h : before = .none ∨ after ≠ .none ∨ e ≠ none
  · rw [retransmitAfterCompletedExchange_skip K before after e h]; exact Stable.pure _
  · have hb : before ≠ .none := fun hb => h (Or.inl hb)
    have ha : after = .none := Classical.byContradiction fun ha => h (Or.inr (Or.inl ha))
    have he : e = none := Classical.byContradiction fun he => h (Or.inr (Or.inr he))
    subst ha he
    rw [retransmitAfterCompletedExchange_completed K before hb]
    exact retransmitOrReveal_akeKept K

/-- an AKE context that exists is not lost (it may be replaced: `initAKE`) -/
def AkeSome (s s' : MState) : Prop := s.conv.ake.isSome = true → s'.conv.ake.isSome = true

instance : Frame AkeSome where
  refl _ := fun h => h
  trans h1 h2 := fun h => h2 (h1 h)

theorem Stable.kept_some {α} {x : M α} (h : Stable AkeKept x) : Stable AkeSome x :=
  fun s r s' hr hs => by
    have := h s r s' hr
    simp only [Keeps] at this
    rw [this]; exact hs

theorem modAke_akeSome (f : Ake → Ake) : Stable AkeSome (modAke f) := by
  unfold modAke
  refine Stable.modc _ (fun s h => ?_)
  show (s.conv.ake.map f).isSome = true
  rw [Option.isSome_map]; exact h

theorem initAKE_akeSome : Stable AkeSome initAKE := by
  unfold initAKE
  exact Stable.modc _ (fun s h => rfl)

/-- leaves and combinators of a `Stable AkeSome x` goal -/
macro "akesome_core" : tactic => `(tactic| first
  | exact Stable.pure _ | exact Stable.throw _ | exact Stable.goPanic _
  | exact Stable.getc | exact Stable.get | exact Stable.now
  | exact modAke_akeSome _ | exact initAKE_akeSome
  | exact Stable.modc _ (fun _ h => h) | exact Stable.mism _ (fun _ h => h) | exact Stable.ev _ (fun _ h => h)
  | exact Stable.modc _ (fun _ h => by dsimp only; split <;> exact h)
  | with_reducible apply Stable.bind | with_reducible apply Stable.tryCatch
  | with_reducible apply Stable.ite | with_reducible apply Stable.map
  | with_reducible apply Stable.forIn)

syntax "akesome" "[" term,* "]" : tactic
macro_rules
  | `(tactic| akesome [$ls,*]) => do
    let tacs ← ls.getElems.mapM fun l => `(tactic| with_reducible apply $l)
    `(tactic| repeat' (first | akesome_core $[| $tacs:tactic]* | with_reducible intro _ | split | dsimp only))

theorem randomInto_akeSome (n : Nat) : Stable AkeSome (randomInto n) := (randomInto_akeKept n).kept_some
theorem wrapMessageHeader_akeSome (t : Nat) (m : Bytes) : Stable AkeSome (wrapMessageHeader t m) :=
  (wrapMessageHeader_akeKept t m).kept_some

theorem getAke_akeSome : Stable AkeSome getAke := by
  unfold getAke
  akesome []

theorem optNat_akeSome (site : String) (v : Option Nat) : Stable AkeSome (optNat site v) := by
  unfold optNat
  akesome []

theorem serializeDHKey_akeSome : Stable AkeSome serializeDHKey := by
  unfold serializeDHKey
  akesome [getAke_akeSome, optNat_akeSome]

theorem serializeDHCommit_akeSome (K : Crypto) : Stable AkeSome (serializeDHCommit K) := by
  unfold serializeDHCommit
  akesome [getAke_akeSome, optNat_akeSome]

theorem dhKeyMessage_akeSome (K : Crypto) : Stable AkeSome (dhKeyMessage K) := by
  unfold dhKeyMessage setSecretExponent
  akesome [randomInto_akeSome, serializeDHKey_akeSome]

theorem processDHCommit_akeSome (msg : Bytes) : Stable AkeSome (processDHCommit msg) := by
  unfold processDHCommit
  akesome []

theorem recvDHCommitNone_akeSome (K : Crypto) (msg : Bytes) : Stable AkeSome (recvDHCommitNone K msg) := by
  unfold recvDHCommitNone akeTry
  akesome [dhKeyMessage_akeSome, wrapMessageHeader_akeSome, processDHCommit_akeSome]

theorem recvDHCommit_akeSome (K : Crypto) (st : AuthState) (msg : Bytes) :
    Stable AkeSome (recvDHCommit K st msg) := by
  unfold recvDHCommit akeTry
  akesome [recvDHCommitNone_akeSome, wrapMessageHeader_akeSome, processDHCommit_akeSome, serializeDHKey_akeSome,
    serializeDHCommit_akeSome, getAke_akeSome, optNat_akeSome]

theorem processDHKey_akeSome (msg : Bytes) : Stable AkeSome (processDHKey msg) := by
  unfold processDHKey
  akesome [getAke_akeSome]

theorem signOracle_akeSome (mb : Bytes) : Stable AkeSome (signOracle mb) :=
  signOracle_stable (fun s env' mm' h => h) mb

theorem akeEncrypt_akeSome (K : Crypto) (key data : Bytes) : Stable AkeSome (akeEncrypt K key data) := by
  unfold akeEncrypt
  akesome []

theorem resToM_akeSome {α} (r : Res α) : Stable AkeSome (resToM r) := by
  unfold resToM
  akesome []

theorem generateEncryptedSignature_akeSome (K : Crypto) (key : AkeKeys) :
    Stable AkeSome (generateEncryptedSignature K key) := by
  unfold generateEncryptedSignature
  akesome [getAke_akeSome, optNat_akeSome, signOracle_akeSome, akeEncrypt_akeSome]

theorem calcAKEKeys_akeSome (K : Crypto) : Stable AkeSome (calcAKEKeys K) := by
  unfold calcAKEKeys
  akesome [getAke_akeSome, optNat_akeSome]

theorem revealSigMessage_akeSome (K : Crypto) : Stable AkeSome (revealSigMessage K) := by
  unfold revealSigMessage
  akesome [calcAKEKeys_akeSome, getAke_akeSome, generateEncryptedSignature_akeSome, resToM_akeSome]

theorem akeSetTheirCurrent_akeSome : Stable AkeSome akeSetTheirCurrent := by
  unfold akeSetTheirCurrent
  akesome [getAke_akeSome, optNat_akeSome]

theorem akeSetOurCurrent_akeSome : Stable AkeSome akeSetOurCurrent := by
  unfold akeSetOurCurrent
  akesome [getAke_akeSome, optNat_akeSome]

theorem recvDHKey_akeSome (K : Crypto) (st : AuthState) (msg : Bytes) : Stable AkeSome (recvDHKey K st msg) := by
  unfold recvDHKey akeTry
  akesome [processDHKey_akeSome, revealSigMessage_akeSome, wrapMessageHeader_akeSome, akeSetTheirCurrent_akeSome,
    akeSetOurCurrent_akeSome]

/-- a property of every value `x` returns normally -/
def RetV {α} (P : α → Prop) (x : M α) : Prop := ∀ s a s', runM x s = .ok (.ok a, s') → P a

theorem RetV.pure {α} {P : α → Prop} {a : α} (h : P a) : RetV P (pure a : M α) := by
  intro s b s' hr
  simp only [runM_pure, Res.ok.injEq, Prod.mk.injEq, Except.ok.injEq] at hr
  rw [← hr.1]; exact h

theorem RetV.throw {α} {P : α → Prop} (e : Err) : RetV P (throw e : M α) := by
  intro s b s' hr
  simp only [runM_throw, Res.ok.injEq, Prod.mk.injEq, reduceCtorEq, false_and] at hr

theorem RetV.bind {α β} {P : β → Prop} {x : M α} {f : α → M β} (hf : ∀ a, RetV P (f a)) : RetV P (x >>= f) := by
  intro s b s' hr
  rw [runM_bind] at hr
  obtain ⟨a, s1, -, h2⟩ := bindM_ok_inv hr
  exact hf a s1 b s' h2

theorem RetV.tryCatch {α} {P : α → Prop} {x : M α} {h : Err → M α} (hx : RetV P x) (hh : ∀ e, RetV P (h e)) :
    RetV P (tryCatch x h) := by
  intro s b s' hr
  rw [runM_tryCatch] at hr
  cases hx' : runM x s with
  | panic p => rw [hx'] at hr; cases hr
  | ok v =>
    obtain ⟨v, s1⟩ := v
    rw [hx'] at hr
    cases v with
    | ok a =>
      simp only [catchM_ok, Res.ok.injEq, Prod.mk.injEq, Except.ok.injEq] at hr
      rw [← hr.1]; exact hx s a s1 hx'
    | error e =>
      simp only [catchM_error] at hr
      exact hh e s1 b s' hr

/-- `x` never throws: every non-panicking run returns a value -/
def NoThrowV {α} (x : M α) : Prop := ∀ s e s', runM x s ≠ .ok (.error e, s')

theorem NoThrowV.pure {α} (a : α) : NoThrowV (pure a : M α) := by
  intro s e s' h; simp only [runM_pure, Res.ok.injEq, Prod.mk.injEq, reduceCtorEq, false_and] at h

theorem NoThrowV.goPanic {α} (site : String) : NoThrowV (goPanic site : M α) := by
  intro s e s' h; simp only [runM_goPanic] at h; cases h

theorem NoThrowV.getc : NoThrowV getc := by
  intro s e s' h; simp only [runM_getc, Res.ok.injEq, Prod.mk.injEq, reduceCtorEq, false_and] at h

theorem NoThrowV.now : NoThrowV now := by
  intro s e s' h; simp only [runM_now, Res.ok.injEq, Prod.mk.injEq, reduceCtorEq, false_and] at h

theorem NoThrowV.modc (f : Conv → Conv) : NoThrowV (modc f) := by
  intro s e s' h; simp only [runM_modc, Res.ok.injEq, Prod.mk.injEq, reduceCtorEq, false_and] at h

theorem NoThrowV.ev (e : String) : NoThrowV (ev e) := by
  intro s e s' h; simp only [runM_ev, Res.ok.injEq, Prod.mk.injEq, reduceCtorEq, false_and] at h

theorem NoThrowV.bind {α β} {x : M α} {f : α → M β} (hx : NoThrowV x) (hf : ∀ a, NoThrowV (f a)) :
    NoThrowV (x >>= f) := by
  intro s e s' h
  rw [runM_bind] at h
  rcases bindM_error_inv h with h1 | ⟨a, s1, -, h2⟩
  · exact hx _ _ _ h1
  · exact hf a _ _ _ h2

theorem NoThrowV.tryCatch {α} {x : M α} {h : Err → M α} (hh : ∀ e, NoThrowV (h e)) : NoThrowV (tryCatch x h) := by
  intro s e s' hr
  rw [runM_tryCatch] at hr
  cases hx : runM x s with
  | panic p => rw [hx] at hr; cases hr
  | ok v =>
    obtain ⟨v, s1⟩ := v
    rw [hx] at hr
    cases v with
    | ok a => simp only [catchM_ok, Res.ok.injEq, Prod.mk.injEq, reduceCtorEq, false_and] at hr
    | error er => simp only [catchM_error] at hr; exact hh er _ _ _ hr

theorem NoThrowV.forIn {γ σ : Type} (l : List γ) (init : σ) (f : γ → σ → M (ForInStep σ))
    (hf : ∀ a b, NoThrowV (f a b)) : NoThrowV (forIn l init f) := by
  induction l generalizing init with
  | nil => exact NoThrowV.pure _
  | cons a l ih =>
    rw [List.forIn_cons]
    refine NoThrowV.bind (hf a init) ?_
    intro r
    cases r with
    | done b => exact NoThrowV.pure _
    | yield b => exact ih b

theorem NoThrowV.getAke : NoThrowV getAke := by
  unfold Otr.getAke
  refine NoThrowV.bind NoThrowV.getc fun c => ?_
  split
  · exact NoThrowV.pure _
  · exact NoThrowV.goPanic _

theorem NoThrowV.optNat (site : String) (v : Option Nat) : NoThrowV (optNat site v) := by
  unfold Otr.optNat
  split
  · exact NoThrowV.pure _
  · exact NoThrowV.goPanic _

theorem NoThrowV.modAke (f : Ake → Ake) : NoThrowV (modAke f) := NoThrowV.modc _

/-- decompose a `NoThrowV x` goal along the structure of `x` -/
macro "nothrow" : tactic => `(tactic| repeat' (first
  | exact NoThrowV.pure _ | exact NoThrowV.goPanic _ | exact NoThrowV.getc | exact NoThrowV.modc _
  | exact NoThrowV.now | exact NoThrowV.ev _ | exact NoThrowV.getAke | exact NoThrowV.optNat _ _
  | exact NoThrowV.modAke _
  | with_reducible apply NoThrowV.tryCatch | with_reducible apply NoThrowV.bind
  | with_reducible apply NoThrowV.forIn
  | with_reducible intro _ | split | dsimp only))

theorem recvDHCommit_noThrow (K : Crypto) (st : AuthState) (msg : Bytes) : NoThrowV (recvDHCommit K st msg) := by
  unfold recvDHCommit recvDHCommitNone akeTry
  nothrow

theorem recvDHKey_noThrow (K : Crypto) (st : AuthState) (msg : Bytes) : NoThrowV (recvDHKey K st msg) := by
  unfold recvDHKey akeTry
  nothrow

theorem recvRevealSig_noThrow (K : Crypto) (st : AuthState) (msg : Bytes) : NoThrowV (recvRevealSig K st msg) := by
  unfold recvRevealSig akeTry
  nothrow

theorem recvSig_noThrow (K : Crypto) (st : AuthState) (msg : Bytes) : NoThrowV (recvSig K st msg) := by
  unfold recvSig akeTry
  nothrow

theorem retransmit_noThrow (K : Crypto) : NoThrowV (retransmit K) := by
  unfold retransmit updateLastSent msgEvent
  nothrow

theorem maybeRetransmit_noThrow (K : Crypto) : NoThrowV (maybeRetransmit K) := by
  unfold maybeRetransmit
  refine NoThrowV.bind NoThrowV.getc fun c => ?_
  split
  · exact retransmit_noThrow K
  · exact NoThrowV.pure _

theorem retransmitAfterCompletedExchange_noThrow (K : Crypto) (before after : AuthState) (e : Option Err) :
    NoThrowV (retransmitAfterCompletedExchange K before after e) := by
  by_cases h : before = .none ∨ after ≠ .none ∨ e ≠ none
  · rw [retransmitAfterCompletedExchange_skip K before after e h]; exact NoThrowV.pure _
  · have hb : before ≠ .none := fun hb => h (Or.inl hb)
    have ha : after = .none := Classical.byContradiction fun ha => h (Or.inr (Or.inl ha))
    have he : e = none := Classical.byContradiction fun he => h (Or.inr (Or.inr he))
    subst ha he
    rw [retransmitAfterCompletedExchange_completed K before hb]
    unfold retransmitOrReveal
    refine NoThrowV.bind (maybeRetransmit_noThrow K) fun toSend => ?_
    nothrow

end Frames

end Otr
