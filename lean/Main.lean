/-
  otrm — model driver. Reads an ops file (one op per line), prints one result line per op.
  Usage: otrm <opsfile>
-/
import Otr.Driver

def main (args : List String) : IO UInt32 := do
  match args with
  | [path] =>
    let content ← IO.FS.readFile path
    let out ← IO.getStdout
    let lines := (content.splitOn "\n")
    let lines := if lines.getLast? == some "" then lines.dropLast else lines
    let _ ← Otr.Driver.runAll lines (fun s => out.putStrLn s)
    out.flush
    return 0
  | _ =>
    IO.eprintln "usage: otrm <opsfile>"
    return 2
