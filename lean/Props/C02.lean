/-
  Props.C02 — only authentic, unmodified data messages of this session are delivered.

  `c02_guard` (decision logic, every K, every state, every byte string): `processDataMessageRaw`
  yields a plaintext, a reply, an SMP/extra-key/security event or any change of SMP or message state
  ONLY IF the conversation is encrypted, the message parsed, both key ids are inside the
  two-generation window, `mac1 recvMACkey (header ‖ authenticated bytes exactly as received) =
  authenticator`, the counter is fresh — and the plaintext is the NUL-terminated prefix of the
  AES-CTR decryption. `c02_not_encrypted/unparsable/bad_keys/bad_mac/replayed_counter`: in each
  failure case the result is (no plaintext, no reply, error) and — `c06_*` — the state is unchanged.
  `c02_tamper`: whatever bytes arrive, acceptance goes through the MAC equation over exactly the
  parsed authenticated prefix and the header bytes (so a change in any authenticated byte, a
  truncation or extension inside that range has to produce a new valid MAC).
  Unencrypted text while a session exists is flagged (`checkPlaintextPolicies`, compared by the
  correspondence profiles: event msg:13 carries the same bytes).
  Ideal-crypto part (a MAC valid under a key that was never disclosed was made by the peer;
  forgeries from disclosed keys are useless because disclosed keys are retired: Props.C09) is the
  standard HMAC assumption, not a theorem; the `reject` profile's Go oracle injects mutated, truncated
  and forged data messages at random session states and checks nothing is delivered or acted upon.
-/

import Proofs.ConvData
namespace Otr.C02
open Otr

theorem c02_guard : type_of% @Otr.c02_guard := @Otr.c02_guard

theorem c02_tamper : type_of% @Otr.c02_tamper := @Otr.c02_tamper

theorem c02_not_encrypted : type_of% @Otr.c02_not_encrypted := @Otr.c02_not_encrypted

theorem c02_unparsable : type_of% @Otr.c02_unparsable := @Otr.c02_unparsable

theorem c02_bad_keys : type_of% @Otr.c02_bad_keys := @Otr.c02_bad_keys

theorem c02_bad_mac : type_of% @Otr.c02_bad_mac := @Otr.c02_bad_mac

theorem c02_replayed_counter : type_of% @Otr.c02_replayed_counter := @Otr.c02_replayed_counter

end Otr.C02
