/-
  Props.C09 — MAC keys are disclosed only once retired, and then they are disclosed.

  `c09_disclosed_retired`: along any run of the key-management context from a state with an empty
  reveal queue, every key in the reveal field of the next outgoing data message is the receiving MAC
  key of a recorded pair that is retired at that moment — `deriveSessionKeys` fails for it now and in
  every later state, so the discloser can no longer accept anything under it.
  `c09_used_then_disclosed`: a recorded receiving MAC key whose pair leaves the window in a step is
  in the reveal queue after that step; `c09_send_discloses_all`: the next data message carries the
  whole queue and empties it. Tied to the code by the `sched` profile, whose Go oracle recomputes all
  MAC keys of the discloser's window independently and tracks keys used to accept messages.
  `akeHasFinished_carries_mac_keys` / `akeHasFinished_oldMACKeys` (repaired code): a key exchange that
  completes while a session exists replaces the key-management context; the MAC keys of the session
  that ends (its reveal queue and the keys of its MAC history) are carried into the reveal queue of
  the new session, so the next data message discloses them.
  API level (Proofs.KeysRefine): `khist_queue_provenance` / `api_c09_queue_provenance` — along every history
  of the key context of a conversation driven through its API from a fresh state (steps and session
  boundaries: key exchanges, `End`, disconnects), every key waiting in the reveal queue is the key of an
  entry the MAC history held in an earlier state of that history: nothing else is ever disclosed.
  Peer's disconnect (repaired code, Proofs.Fixes5): `processDisconnectedTLV_keeps_keys_to_reveal` — after the
  disconnect TLV the key context has no DH keys, key ids 0, no counters, no MAC history, and its reveal
  queue is the old queue followed by the keys of the old MAC history (before the repair all of them were
  dropped and never disclosed); `disconnect_then_ake_reveals`: after a peer disconnect followed by a
  completed key exchange they are all in the reveal queue of the new conversation (hence in the reveal
  field of its first data message: Props.C19 `disconnect_then_ake_next_message_reveals`);
  `disc_queue_kept_histE`: nothing short of a completed key exchange touches the queue in between.
  `khist_mac_keys_never_lost` / `runApi_mac_keys_never_lost` / `api_mac_keys_never_lost`: along EVERY history
  of the key context (steps, key exchanges, `End`, disconnects) — for all API call sequences from a fresh
  conversation — a MAC key waiting in the reveal queue or in the MAC history (`Keys.Pending`) keeps waiting
  until a completely generated data message carries it in its reveal field (`RevealedIn`).
-/

import Proofs.Keys
import Proofs.ConvLife
import Proofs.KeysRefineApi
import Proofs.Fixes5
import Proofs.Fixes5Api
namespace Otr.C09
open Otr

theorem c09_disclosed_retired {K} {k0 k : Keys} (h0 : k0.oldMACKeys = []) (hs : KSteps K k0 k) :
    ∃ g : List MacUse,
      g.map (·.key) = k.revealMACKeys.1 ∧
      (∀ u ∈ g, ∃ k1, KSteps K k0 k1 ∧ KSteps K k1 k ∧ u ∈ k1.macHistory) ∧
      ∀ u ∈ g, k.Retired u.ourKeyID u.theirKeyID ∧
        ∀ k', KSteps K k k' → (∃ e, k'.deriveSessionKeys K u.ourKeyID u.theirKeyID = .error e) ∧
          ∀ n, ¬ k'.accepts K u.ourKeyID u.theirKeyID n := by
  first | exact Otr.c09_disclosed_retired | exact @Otr.c09_disclosed_retired | (apply Otr.c09_disclosed_retired <;> assumption) | (intros; apply Otr.c09_disclosed_retired <;> assumption)

theorem c09_used_then_disclosed {K} {k k' : Keys} {u : MacUse} (hwf : WF k) (hu : u ∈ k.macHistory)
    (hs : KStep K k k') (hout : ¬ InWin k'.ourKeyID k'.theirKeyID u.ourKeyID u.theirKeyID) :
    u.key ∈ k'.oldMACKeys := by
  first | exact Otr.c09_used_then_disclosed | exact @Otr.c09_used_then_disclosed | (apply Otr.c09_used_then_disclosed <;> assumption) | (intros; apply Otr.c09_used_then_disclosed <;> assumption)

theorem c09_send_discloses_all {K} (k : Keys) :
    k.revealMACKeys.1 = k.oldMACKeys ∧ k.revealMACKeys.2.oldMACKeys = [] ∧
    (k.recordMac (k.ourKeyID - 1) k.theirKeyID (k.recvMACOf K (k.ourKeyID - 1) k.theirKeyID)).bumpOur.revealMACKeys.1
      = k.oldMACKeys ∧
    (k.afterSend K).oldMACKeys = [] := by
  first | exact Otr.c09_send_discloses_all | exact @Otr.c09_send_discloses_all | (apply Otr.c09_send_discloses_all <;> assumption) | (intros; apply Otr.c09_send_discloses_all <;> assumption)

theorem c09_rotateOur_retires {K} (k : Keys) (p : Bytes) (ho : 1 ≤ k.ourKeyID) {u : MacUse}
    (hu : u ∈ k.macHistory.filter (fun u => u.ourKeyID == k.ourKeyID - 1)) :
    u ∈ k.macHistory ∧
    (k.rotateOurKeys K k.ourKeyID (some p)).1.Retired u.ourKeyID u.theirKeyID := by
  first | exact Otr.c09_rotateOur_retires | exact @Otr.c09_rotateOur_retires | (apply Otr.c09_rotateOur_retires <;> assumption) | (intros; apply Otr.c09_rotateOur_retires <;> assumption)

theorem c09_rotateTheir_retires (k : Keys) (y : Nat) (ht : 1 ≤ k.theirKeyID) {u : MacUse}
    (hu : u ∈ k.macHistory.filter (fun u => u.theirKeyID == k.theirKeyID - 1)) :
    u ∈ k.macHistory ∧ (k.rotateTheirKey k.theirKeyID y).Retired u.ourKeyID u.theirKeyID := by
  first | exact Otr.c09_rotateTheir_retires | exact @Otr.c09_rotateTheir_retires | (apply Otr.c09_rotateTheir_retires <;> assumption) | (intros; apply Otr.c09_rotateTheir_retires <;> assumption)

theorem derive_retired {K} (k : Keys) (i j : Nat) (h : i + 1 < k.ourKeyID ∨ j + 1 < k.theirKeyID) :
    ∃ e, k.deriveSessionKeys K i j = .error e := by
  first | exact Otr.derive_retired | exact @Otr.derive_retired | (apply Otr.derive_retired <;> assumption) | (intros; apply Otr.derive_retired <;> assumption)

/-- repaired code: a rotation that cannot draw its new key changes nothing — no MAC key queued for
    disclosure, no counter forgotten (before the repair the previous generation stayed valid while its
    counters were forgotten and its MAC keys revealed: replay accepted after a randomness failure) -/
theorem rotateOurKeys_fail_unchanged (K : Crypto) (k : Keys) (r : Nat) :
    k.rotateOurKeys K r none = (k, if r = k.ourKeyID then some .shortRandom else none) :=
  Otr.rotateOurKeys_fail_unchanged K k r

theorem akeHasFinished_carries_mac_keys : type_of% @Otr.akeHasFinished_carries_mac_keys :=
  @Otr.akeHasFinished_carries_mac_keys

theorem akeHasFinished_oldMACKeys : type_of% @Otr.akeHasFinished_oldMACKeys := @Otr.akeHasFinished_oldMACKeys

/-- provenance of the reveal queue along histories with session boundaries -/
theorem khist_queue_provenance : type_of% @Otr.khist_queue_provenance := @Otr.khist_queue_provenance

/-- provenance of the reveal queue along an API history (no hypothesis on the cryptography) -/
theorem runApi_c09_queue_provenance : type_of% @Otr.runApi_c09_queue_provenance := @Otr.runApi_c09_queue_provenance

/-- provenance of the reveal queue in every conversation reached through the API from a fresh one -/
theorem api_c09_queue_provenance : type_of% @Otr.api_c09_queue_provenance := @Otr.api_c09_queue_provenance

/-- repaired code: the peer's disconnect wipes DH keys, key ids, counters and MAC history and keeps the MAC keys
    that are still to be revealed -/
theorem processDisconnectedTLV_keeps_keys_to_reveal (s : MState) (r : Except Err Unit) (s' : MState)
    (h : runM processDisconnectedTLV s = .ok (r, s')) :
    s'.conv.keys.ourCur = none ∧ s'.conv.keys.ourPrev = none ∧
    s'.conv.keys.theirCur = none ∧ s'.conv.keys.theirPrev = none ∧
    s'.conv.keys.ourKeyID = 0 ∧ s'.conv.keys.theirKeyID = 0 ∧
    s'.conv.keys.counters = [] ∧ s'.conv.keys.macHistory = [] ∧
    s'.conv.keys.oldMACKeys =
      s.conv.keys.oldMACKeys ++ s.conv.keys.macHistory.map (fun u : MacUse => u.key) := by
  first | exact Otr.processDisconnectedTLV_keeps_keys_to_reveal | exact @Otr.processDisconnectedTLV_keeps_keys_to_reveal | (apply Otr.processDisconnectedTLV_keeps_keys_to_reveal <;> assumption) | (intros; apply Otr.processDisconnectedTLV_keeps_keys_to_reveal <;> assumption)

/-- the exact key context after the peer's disconnect -/
theorem processDisconnectedTLV_keys : type_of% @Otr.processDisconnectedTLV_keys := @Otr.processDisconnectedTLV_keys

theorem processDisconnectedTLV_loses_no_mac_key : type_of% @Otr.processDisconnectedTLV_loses_no_mac_key :=
  @Otr.processDisconnectedTLV_loses_no_mac_key

/-- repaired code: peer disconnect, then a completed key exchange — the old reveal queue and every key of the old
    MAC history are in the reveal queue of the new conversation -/
theorem disconnect_then_ake_reveals (K : Crypto) (s s1 s2 s3 : MState) (r1 : Except Err Unit) (a : Ake)
    (r3 : Except Err (Option Err))
    (h1 : runM processDisconnectedTLV s = .ok (r1, s1))
    (hq : ∀ b ∈ s1.conv.keys.oldMACKeys, b ∈ s2.conv.keys.oldMACKeys)
    (ha : s2.conv.ake = some a)
    (h3 : runM (akeHasFinished K) s2 = .ok (r3, s3)) :
    (∀ k ∈ s.conv.keys.oldMACKeys, k ∈ s3.conv.keys.oldMACKeys) ∧
    (∀ u ∈ s.conv.keys.macHistory, u.key ∈ s3.conv.keys.oldMACKeys) := by
  first | exact Otr.disconnect_then_ake_reveals | exact @Otr.disconnect_then_ake_reveals | (apply Otr.disconnect_then_ake_reveals <;> assumption) | (intros; apply Otr.disconnect_then_ake_reveals <;> assumption)

/-- after the disconnect nothing short of a completed key exchange touches the reveal queue -/
theorem disc_queue_kept_histE : type_of% @Otr.disc_queue_kept_histE := @Otr.disc_queue_kept_histE

/-- one step / one boundary: a pending MAC key stays pending unless a complete send has just revealed it -/
theorem KStep'_pending : type_of% @Otr.KStep'.pending := @Otr.KStep'.pending
theorem SessionBoundary_pending : type_of% @Otr.SessionBoundary.pending := @Otr.SessionBoundary.pending
theorem SessionBoundary_queued : type_of% @Otr.SessionBoundary.queued := @Otr.SessionBoundary.queued

/-- no MAC key that is to be disclosed is ever lost, along every history with session boundaries -/
theorem khist_mac_keys_never_lost : type_of% @Otr.khist_mac_keys_never_lost := @Otr.khist_mac_keys_never_lost

/-- … along an API history (no hypothesis on the cryptography) -/
theorem runApi_mac_keys_never_lost : type_of% @Otr.runApi_mac_keys_never_lost := @Otr.runApi_mac_keys_never_lost

/-- … for all API call sequences from a fresh conversation -/
theorem api_mac_keys_never_lost : type_of% @Otr.api_mac_keys_never_lost := @Otr.api_mac_keys_never_lost

end Otr.C09
