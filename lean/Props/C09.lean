/-
  Props.C09 — MAC keys are disclosed only once retired, and then they are disclosed.

  `c09_disclosed_retired`: along any run of the key-management context from a state with an empty
  reveal queue, every key in the reveal field of the next outgoing data message is the receiving MAC
  key of a recorded pair that is retired at that moment — `deriveSessionKeys` fails for it now and in
  every later state, so the discloser can no longer accept anything under it.
  `c09_used_then_disclosed`: a recorded receiving MAC key whose pair leaves the window in a step is
  in the reveal queue after that step; `c09_send_discloses_all`: the next data message carries the
  whole queue and empties it. Tied to the code by the `sched` profile, whose Go oracle recomputes all
  MAC keys of the discloser's window independently and tracks keys used to accept messages.
  `akeHasFinished_carries_mac_keys` / `akeHasFinished_oldMACKeys` (repaired code): a key exchange that
  completes while a session exists replaces the key-management context; the MAC keys of the session
  that ends (its reveal queue and the keys of its MAC history) are carried into the reveal queue of
  the new session, so the next data message discloses them.
  API level (Proofs.KeysRefine): `khist_queue_provenance` / `api_c09_queue_provenance` — along every history
  of the key context of a conversation driven through its API from a fresh state (steps and session
  boundaries: key exchanges, `End`, disconnects), every key waiting in the reveal queue is the key of an
  entry the MAC history held in an earlier state of that history: nothing else is ever disclosed.
-/

import Proofs.Keys
import Proofs.ConvLife
import Proofs.KeysRefineApi
namespace Otr.C09
open Otr

theorem c09_disclosed_retired {K} {k0 k : Keys} (h0 : k0.oldMACKeys = []) (hs : KSteps K k0 k) :
    ∃ g : List MacUse,
      g.map (·.key) = k.revealMACKeys.1 ∧
      (∀ u ∈ g, ∃ k1, KSteps K k0 k1 ∧ KSteps K k1 k ∧ u ∈ k1.macHistory) ∧
      ∀ u ∈ g, k.Retired u.ourKeyID u.theirKeyID ∧
        ∀ k', KSteps K k k' → (∃ e, k'.deriveSessionKeys K u.ourKeyID u.theirKeyID = .error e) ∧
          ∀ n, ¬ k'.accepts K u.ourKeyID u.theirKeyID n := by
  first | exact Otr.c09_disclosed_retired | exact @Otr.c09_disclosed_retired | (apply Otr.c09_disclosed_retired <;> assumption) | (intros; apply Otr.c09_disclosed_retired <;> assumption)

theorem c09_used_then_disclosed {K} {k k' : Keys} {u : MacUse} (hwf : WF k) (hu : u ∈ k.macHistory)
    (hs : KStep K k k') (hout : ¬ InWin k'.ourKeyID k'.theirKeyID u.ourKeyID u.theirKeyID) :
    u.key ∈ k'.oldMACKeys := by
  first | exact Otr.c09_used_then_disclosed | exact @Otr.c09_used_then_disclosed | (apply Otr.c09_used_then_disclosed <;> assumption) | (intros; apply Otr.c09_used_then_disclosed <;> assumption)

theorem c09_send_discloses_all {K} (k : Keys) :
    k.revealMACKeys.1 = k.oldMACKeys ∧ k.revealMACKeys.2.oldMACKeys = [] ∧
    (k.recordMac (k.ourKeyID - 1) k.theirKeyID (k.recvMACOf K (k.ourKeyID - 1) k.theirKeyID)).bumpOur.revealMACKeys.1
      = k.oldMACKeys ∧
    (k.afterSend K).oldMACKeys = [] := by
  first | exact Otr.c09_send_discloses_all | exact @Otr.c09_send_discloses_all | (apply Otr.c09_send_discloses_all <;> assumption) | (intros; apply Otr.c09_send_discloses_all <;> assumption)

theorem c09_rotateOur_retires {K} (k : Keys) (p : Bytes) (ho : 1 ≤ k.ourKeyID) {u : MacUse}
    (hu : u ∈ k.macHistory.filter (fun u => u.ourKeyID == k.ourKeyID - 1)) :
    u ∈ k.macHistory ∧
    (k.rotateOurKeys K k.ourKeyID (some p)).1.Retired u.ourKeyID u.theirKeyID := by
  first | exact Otr.c09_rotateOur_retires | exact @Otr.c09_rotateOur_retires | (apply Otr.c09_rotateOur_retires <;> assumption) | (intros; apply Otr.c09_rotateOur_retires <;> assumption)

theorem c09_rotateTheir_retires (k : Keys) (y : Nat) (ht : 1 ≤ k.theirKeyID) {u : MacUse}
    (hu : u ∈ k.macHistory.filter (fun u => u.theirKeyID == k.theirKeyID - 1)) :
    u ∈ k.macHistory ∧ (k.rotateTheirKey k.theirKeyID y).Retired u.ourKeyID u.theirKeyID := by
  first | exact Otr.c09_rotateTheir_retires | exact @Otr.c09_rotateTheir_retires | (apply Otr.c09_rotateTheir_retires <;> assumption) | (intros; apply Otr.c09_rotateTheir_retires <;> assumption)

theorem derive_retired {K} (k : Keys) (i j : Nat) (h : i + 1 < k.ourKeyID ∨ j + 1 < k.theirKeyID) :
    ∃ e, k.deriveSessionKeys K i j = .error e := by
  first | exact Otr.derive_retired | exact @Otr.derive_retired | (apply Otr.derive_retired <;> assumption) | (intros; apply Otr.derive_retired <;> assumption)

/-- repaired code: a rotation that cannot draw its new key changes nothing — no MAC key queued for
    disclosure, no counter forgotten (before the repair the previous generation stayed valid while its
    counters were forgotten and its MAC keys revealed: replay accepted after a randomness failure) -/
theorem rotateOurKeys_fail_unchanged (K : Crypto) (k : Keys) (r : Nat) :
    k.rotateOurKeys K r none = (k, if r = k.ourKeyID then some .shortRandom else none) :=
  Otr.rotateOurKeys_fail_unchanged K k r

theorem akeHasFinished_carries_mac_keys : type_of% @Otr.akeHasFinished_carries_mac_keys :=
  @Otr.akeHasFinished_carries_mac_keys

theorem akeHasFinished_oldMACKeys : type_of% @Otr.akeHasFinished_oldMACKeys := @Otr.akeHasFinished_oldMACKeys

/-- provenance of the reveal queue along histories with session boundaries -/
theorem khist_queue_provenance : type_of% @Otr.khist_queue_provenance := @Otr.khist_queue_provenance

/-- provenance of the reveal queue along an API history (no hypothesis on the cryptography) -/
theorem runApi_c09_queue_provenance : type_of% @Otr.runApi_c09_queue_provenance := @Otr.runApi_c09_queue_provenance

/-- provenance of the reveal queue in every conversation reached through the API from a fresh one -/
theorem api_c09_queue_provenance : type_of% @Otr.api_c09_queue_provenance := @Otr.api_c09_queue_provenance

end Otr.C09
