/-
  Props.C19Queues — C19 / C06 / C14 over whole API histories: the queue of pending replies (`injections`) of the
  conversation (completes the partial statement `apiCall_injections_kept_partial` of Props.C18Hist).

  In plain words (all statements are for EVERY crypto record, every state / every sequence of API calls —
  Receive of arbitrary bytes, Send, End, the SMP calls, extra key, `sendtlvs`, fragment size — with arbitrary
  arguments, randomness and signing tapes and clocks; the only assumption on a single call is that it does not
  panic, which `CryptoOK K` guarantees for reachable states):

  * `receive_nt`, `send_nt`: `Receive` and `Send` never throw: whatever they report is in the returned error.
  * `receive_drains_injections`: a `Receive` run from ANY state returns a value; unless it returns at once
    (`receiveSkips`: OTR disabled by the policies, or a version-1 key exchange message — the two `return`s of the Go
    function in front of `withInjectionsPlain`) it ends with `injections = []`, and the messages it hands out
    contain, as one contiguous piece in their order, all replies that were pending when it started (whether or
    not it reports an error).  When it returns at once it hands out nothing and leaves `injections` untouched.
  * `send_drains_injections`: the same for `Send` (the only path that does not drain: OTR disabled; it hands out
    the text itself and leaves `injections` untouched), including the two error paths (encryption failed —
    its error reply goes out with this very call — and conversation finished).
  * `receive_injections_empty`, `send_injections_empty`, `apiCall_injections_empty`: a call that starts with no
    reply pending ends with no reply pending, on every path, returning or throwing.
  * `api_injections_empty` (assumes `CryptoOK K`, only to know that no call panics): from a fresh conversation
    every call sequence ends, and in the final conversation — hence between any two calls — NO reply is pending:
    replies to rejected traffic do not accumulate (C19) and a reply is never held back for a later call (C06).
    `api_injections_bounded` is the same fact as the bound `injections.length ≤ 0`.
  * `receive_fragCtx_bound` (C14/C19; every state, every input, every outcome that is not a panic): one `Receive`
    of `m` makes the bytes accumulated in the fragment context (`fragCtx.frag`) grow by at most `m.length` —
    also when the input completes a message whose reassembled content is again a fragment (nested calls).
  * `apiCall_fragCtx_kept`: every call other than `Receive` (Send, End, SMP calls, extra key, `sendtlvs`, fragment
    size; returning or throwing) leaves the fragment context exactly as it was.
  * `apiCall_fragCtx_bound`, `runApi_fragCtx_bound`: from ANY conversation, after any sequence of calls the context
    holds at most what it held before plus the bytes handed to `Receive` in between (`recvTotal`); started from a
    conversation whose context is empty this is "the `Receive` arguments since the context was last empty".
  * `api_fragCtx_bounded` (assumes `CryptoOK K`, only to know that no call panics): from a fresh conversation every
    call sequence ends and `fragCtx.frag.length ≤ recvTotal steps`: the only input-dependent storage besides the
    (empty, by `api_injections_empty`) reply queue and the retained texts (Props.C18Hist) is the single message
    under reassembly, and it is bounded by what the peer has actually sent.  That the context holds pieces of one
    stream only is Props C14 (Proofs.FragRefine), not restated here.
  Non-vacuity examples (Proofs/InjDrain.lean section 7, Proofs/FragBound.lean section 4) and the witnesses for the non-draining paths (a state with `injections = [[1, 2]]`, which
  by `api_injections_empty` no history reaches, and policies `0` resp. the input `?OTR:AAEK`) are in
  Proofs/InjDrain.lean, section 7.
-/
import Proofs.InjDrain
import Proofs.FragBound
namespace Otr.C19Queues
open Otr

theorem receive_nt : type_of% @Otr.receive_nt := @Otr.receive_nt
theorem send_nt : type_of% @Otr.send_nt := @Otr.send_nt
theorem receive_drains_injections : type_of% @Otr.receive_drains_injections := @Otr.receive_drains_injections
theorem send_drains_injections : type_of% @Otr.send_drains_injections := @Otr.send_drains_injections
theorem receive_injections_empty : type_of% @Otr.receive_injections_empty := @Otr.receive_injections_empty
theorem send_injections_empty : type_of% @Otr.send_injections_empty := @Otr.send_injections_empty
theorem apiCall_injections_empty : type_of% @Otr.apiCall_injections_empty := @Otr.apiCall_injections_empty
theorem runApi_injections_empty : type_of% @Otr.runApi_injections_empty := @Otr.runApi_injections_empty
theorem api_injections_empty : type_of% @Otr.api_injections_empty := @Otr.api_injections_empty
theorem api_injections_bounded : type_of% @Otr.api_injections_bounded := @Otr.api_injections_bounded
theorem receive_fragCtx_bound : type_of% @Otr.receive_fragCtx_bound := @Otr.receive_fragCtx_bound
theorem apiCall_fragCtx_kept : type_of% @Otr.apiCall_fragCtx_kept := @Otr.apiCall_fragCtx_kept
theorem apiCall_fragCtx_bound : type_of% @Otr.apiCall_fragCtx_bound := @Otr.apiCall_fragCtx_bound
theorem runApi_fragCtx_bound : type_of% @Otr.runApi_fragCtx_bound := @Otr.runApi_fragCtx_bound
theorem api_fragCtx_bounded : type_of% @Otr.api_fragCtx_bounded := @Otr.api_fragCtx_bounded

end Otr.C19Queues
