/-
  Props.C01Recv — C01 at the level of the whole of `Conversation.Receive` (continuation of Props.C01).

  Props.C01 states the guards for the inner functions: `c01_paths` / `c01_paths_keys` (inside `processAKE` only a
  Signature message in AWAITING_SIG or a Reveal-Signature message in AWAITING_REVEALSIG can establish the
  encrypted state), `c01_guard_responder` / `c01_guard_initiator` / `c01_guard_encsig` / `c01_guard_dhkey` (what
  such a step checks), `c01_finish_responder` / `c01_finish_initiator` and `c01_processAKE_sig` /
  `c01_processAKE_revealSig` (what it installs), `recvRevealSig_answer_fails_keeps_theirKey` (repaired code).
  This module lifts them to `Receive` — every state, every byte string, every crypto record, fragments included
  (Proofs.RecvGuards; a separate module because it needs Proofs.Events, Proofs.RejectFrame and
  Proofs.FragRefine besides the imports of Props.C01).

  Vocabulary (see Props.C02Recv for `receiveLeaf`, `LeafDecoded`): `newEvents s s'` the log entries the call
  appended; `completedIn s s'`: GoneSecure (`sec:1`) or StillSecure (`sec:2`) is among them — `completed` of
  `apiCall_security_events` (Props.C18).  `SigAccepted K c body c'`: in the conversation `c` the AKE context is
  in `awaitingSig`, `body` parses as a Signature message and satisfies `EncSigOK` (MAC over the encrypted
  signature under the stored keys of this exchange, well-formed `pubkey ‖ keyid ‖ 40-byte signature`, DSA
  signature by `pk` over MAC_m1(both DH values ‖ pk ‖ keyid)), and in `c'`: encrypted, `theirKey = pk`, the
  peer's DH key and key id are the verified ones, `ssid` / `sentRevealSig` are those of this exchange.
  `RevealSigAccepted K c body c'`: in `c` the AKE context is in `awaitingRevealSig`, `body` satisfies `RespGuards`
  (the revealed key opens the commitment, `2 ≤ g^x ≤ p−2`, `EncSigOK` under the keys derived from this exchange's
  secret), and in `c'`: encrypted, `theirKey = pk`, `ssid = hash2(0x00 ‖ mpi(g^x^ourSecret))[0:8]`,
  `sentRevealSig = false`.  `AkeLeafAccepted K c msg c'`: the leaf of `msg` is classified as Signature with type
  byte 0x12 and `SigAccepted` for its body, or as Reveal Signature with type byte 0x11 and `RevealSigAccepted`.

  `receive_gone_secure_guard_partial`: if the call made the conversation encrypted (`msgState` after = encrypted,
  before ≠ encrypted) or completed an exchange (`completedIn`), then `AkeLeafAccepted K s.conv msg s'.conv` —
  `theirKey` after the call is the key whose DSA signature was verified in this very call.
  PARTIAL with respect to the statement asked for ("`msgState` after ≠ before ∨ completed"): that one is false —
  `receive_gone_secure_guard_counterexample`: an authentic data message with the peer's disconnect TLV makes an
  encrypted conversation finished.  `receive_msgState_change_guard` is the true statement for every change of
  the message state: `AkeLeafAccepted`, or encrypted → finished by a data-message leaf that passed the five
  guards of C02 (`DataLeafAccepted`).
  `receive_theirKey_frame`: if no exchange completed in the call, `theirKey` is what it was — for every byte
  string, accepted, rejected or ignored (repaired code: also when a Reveal-Signature message passed every check
  and the Signature reply could not be built).  `receive_completed_iff`: a completed exchange is a guarded one and
  leaves the conversation encrypted.  `receive_cases` is the classification all of them are read off;
  `processAKE_core` the lifted step (`c01_processAKE_*` plus `Fin` of Proofs.Events: a guarded step contains
  exactly one `akeHasFinished`); `receiveDataMessage_tk`: the data path never writes `theirKey`.
  Hypotheses satisfiable: `wSigMsg_completes` (crypto record `wCryptoSig` of Proofs.RejectFrame),
  `gRevealMsg_completes` (`Crypto.lax`, the message `laxRevealSig` of Proofs.Fixes3: the peer key `(7,7,7,7)`
  known before is replaced by the verified key `(1,1,1,1)`).
-/

import Proofs.RecvGuards
namespace Otr.C01Recv
open Otr

/-- C01 lifted: going secure, or completing an exchange, happens only on a guarded Signature / Reveal-Signature leaf -/
theorem receive_gone_secure_guard_partial :
    type_of% @Otr.receive_gone_secure_guard_partial := @Otr.receive_gone_secure_guard_partial

/-- the statement with "`msgState` after ≠ before" as hypothesis is false: a concrete witness -/
theorem receive_gone_secure_guard_counterexample :
    type_of% @Otr.receive_gone_secure_guard_counterexample := @Otr.receive_gone_secure_guard_counterexample

/-- every change of the message state in `Receive` is guarded (C01 guards, or C02 guards for the peer's disconnect) -/
theorem receive_msgState_change_guard :
    type_of% @Otr.receive_msgState_change_guard := @Otr.receive_msgState_change_guard

/-- no completed exchange ⇒ the peer's long-term key is unchanged, for every byte string -/
theorem receive_theirKey_frame : type_of% @Otr.receive_theirKey_frame := @Otr.receive_theirKey_frame

/-- a completed exchange is a guarded one and leaves the conversation encrypted -/
theorem receive_completed_iff : type_of% @Otr.receive_completed_iff := @Otr.receive_completed_iff

/-- every `Receive` call, by what it did to the session -/
theorem receive_cases : type_of% @Otr.receive_cases := @Otr.receive_cases

/-- the key exchange step: a guarded completion (exactly one `akeHasFinished`) or quiet -/
theorem processAKE_core : type_of% @Otr.processAKE_core := @Otr.processAKE_core

/-- a data message, accepted or not, never changes the peer's long-term key -/
theorem receiveDataMessage_tk : type_of% @Otr.receiveDataMessage_tk := @Otr.receiveDataMessage_tk

/-- the hypotheses hold together: a completing Signature message (crypto record `wCryptoSig`) -/
theorem wSigMsg_completes : type_of% @Otr.wSigMsg_completes := @Otr.wSigMsg_completes

/-- … and a completing Reveal-Signature message (crypto record `Crypto.lax`); the peer key is replaced -/
theorem gRevealMsg_completes : type_of% @Otr.gRevealMsg_completes := @Otr.gRevealMsg_completes

end Otr.C01Recv
