/-
  Props.C18Api — C18 from the invariant and from a fresh conversation (continuation of Props.C18).

  A separate module: Proofs.EventsFresh imports Proofs.NoPanic (the invariant `Otr.Inv`, `apiCall_inv`,
  `api_sequence_no_panic_fresh`), which can not be imported together with Proofs.Fixes2 of Props.C18
  (Proofs.Ratchet declares another `Otr.Inv`).  Props.C18 states the event discipline under the
  hypothesis "the call does not panic"; here that hypothesis is discharged by C13.
  `apiCall_security_events_inv`: for every API call (`receive`, `send`, `End`, the SMP calls, extra key,
  `sendtlvs`, fragment size), all arguments, randomness / signing tapes and clocks, from every state
  satisfying `Inv` (and `CryptoOK`): the call ends (returns or throws), `Inv` holds again, the log only
  grows and the security events among the new entries are `secEventsOf before after completed` —
  [GoneSecure] iff not encrypted → encrypted, [StillSecure] iff encrypted → encrypted with a completed
  exchange, [GoneInsecure] iff encrypted → not encrypted, [] otherwise; `completed` implies receive,
  encrypted and the stamp of the clock of this call, its absence implies an encrypted state was
  encrypted before with the same stamp.
  `api_sequence_events_balance_fresh`: every sequence of API calls from a freshly created conversation
  (any version preset, policies, key list, fragment size, error handler, query text, own tag) ends
  without panic in a state satisfying `Inv`, and over its whole log
  #GoneSecure = #GoneInsecure + [encrypted at the end].
-/

import Proofs.EventsFresh
namespace Otr.C18Api
open Otr

/-- one call from the invariant: it ends, `Inv` holds again, and the security events it appends are exactly those of the transition of the message state -/
theorem apiCall_security_events_inv : type_of% @Otr.apiCall_security_events_inv := @Otr.apiCall_security_events_inv

/-- whole histories from a fresh conversation: no panic, `Inv` at the end, and #GoneSecure = #GoneInsecure + [encrypted at the end] -/
theorem api_sequence_events_balance_fresh : type_of% @Otr.api_sequence_events_balance_fresh := @Otr.api_sequence_events_balance_fresh

end Otr.C18Api
