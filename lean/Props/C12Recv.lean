/-
  Props.C12Recv — C12 (and the SMP event discipline of C11) at the level of the whole of `Conversation.Receive`
  and of the API calls (continuation of Props.C12).

  Props.C12 states the success guard for the TLV handler: `c12_success_event_guard` (`processSMPTLV` appends the
  success event `smp:6:100` only if in that very step the TLV was an SMP3 TLV met in EXPECT3 that parsed and passed
  `smp3Verify` and `smp3Success` against the stored second-message state, or an SMP4 TLV met in EXPECT4 that
  passed `smp4Verify` and `smp4Success`: `SmpSuccessGuard K t st`).  This module lifts it to `Receive` — every
  state, every byte string, every crypto record, fragments included, runs that return and runs that throw
  (Proofs.RecvSmp, on top of Proofs.RecvGuards; the only hypothesis on a run is that it does not panic).

  Vocabulary of Props.C02Recv: `receiveLeaf c msg` is the byte string a call finally classifies and processes (the
  input, or what the fragment layer reassembled), `LeafDecoded`, `DataGuards` (the five guards of `c02_guard` under
  message state and key context of a conversation), `newEvents s s'` (the log entries a call appended).
  `AuthenticLeaf K c msg dm sk`: the leaf is classified as a data message, decodes to `header ‖ body` with the data
  type byte, and header and body pass `DataGuards K c` with the parsed message `dm` and the session keys `sk`.
  `dataTlvs K sk dm`: the TLVs behind the text of the decryption.  `isSmpTag e`: the entry starts with `smp:`.

  `receive_smp_success_guard`: if the entries appended during `receive K msg` from `s` contain `smpSuccessEvent`
  then (a) `AuthenticLeaf K s.conv msg dm sk` — the message processed was a data message that passed the five guards
  under the state before the call: authentic, from the peer, no replay; (b) one of its TLVs, `t ∈ dataTlvs K sk dm`,
  was processed in a state `st` whose SMP component is `SmpReach`able from `s.conv.smp` and (c)
  `SmpSuccessGuard K t st`, the conclusion of `c12_success_event_guard`, holds for it.
  `SmpReach m m'` (what TLV processing inside one data message can make of the SMP component): `m' = m`; or `m'`
  is dead (`SmpDead`: nil, EXPECT1, waiting for the secret — no message leads from there to success without an API
  call); or `m` was in EXPECT2 and `m'` is `m` with a third-message state filled in, in EXPECT4 (an SMP2 TLV was
  accepted).  `processSMPTLV_reach`: every `processSMPTLV` step is such a step.
  `receive_smp_success_cases` spells (b), (c) out in terms of the SMP component before the call (`SuccessCases`):
  an SMP3 TLV — then the conversation was in EXPECT3 (only ProvideAuthenticationSecret leads there) and the TLV
  passed `smp3Verify`/`smp3Success` against the second-message state stored before the call; or an SMP4 TLV that
  passed `smp4Verify`/`smp4Success` against the stored first-message state and a third-message state which is the
  stored one (conversation in EXPECT4) or was generated while this very message was processed (conversation in
  EXPECT2, an accepted SMP2 TLV earlier in the same message).  The group-membership predicate is `smpGE v` for the
  protocol version `v` in force when the TLV was processed (not tied to the version before the call: `Pre` of
  Proofs.RecvGuards does not track it).  `receive_smp_success_states`: so no success unless the conversation
  was encrypted and in EXPECT2, EXPECT3 or EXPECT4.
  The EXPECT2 case is real in the model (and in the Go code, which processes the TLVs of a message in sequence):
  `wDataSmp24_success` — toy cryptography; with real arithmetic the sender of SMP2+SMP4 in one message would have
  to prove knowledge of a logarithm relative to `Qa/Qb`, which depends on randomness drawn in the same call.

  Conversely `receive_no_smp_event_unless_data`: a call whose leaf is not an authentic data message (`¬ ∃ dm sk,
  AuthenticLeaf …`: plaintext, query, error, rejected data messages, fragments that complete nothing, and key
  exchange messages in every authentication state) leaves `conv.smp` exactly as it was and appends no `smp:` entry.
  `processAKE_sq`: in particular a key exchange inside an encrypted conversation neither raises an SMP event nor
  resets an authentication in progress.

  API level (`ApiCall` of Proofs.Api): `apiCall_events` — StartAuthenticate, AbortAuthentication,
  UseExtraSymmetricKey, `sendtlvs`, `setfrag` append nothing to the log, ProvideAuthenticationSecret at most
  `smp:2:0` (cheated: its randomness ran short; attained: `wWaiting_cheated`), Send only `msg:0/1/2`, End only
  `sec:0` (`ApiCall.mayLog`); `api_smp_success_only_via_receive` — a call that appends the success event is a
  `receive` (to which `receive_smp_success_guard` applies).  In-progress, ask-for-secret/answer, failure, abort
  and error events are likewise raised by `receive` only.
  Hypotheses satisfiable: `wDataSmp4_success` (a concrete encrypted conversation in EXPECT4 and an authentic data
  message with an SMP4 TLV for which `receive` does raise success; cryptography `wCryptoMac` of Proofs.RejectFrame),
  `wDataSmp24_success`, `wWaiting_cheated`, and the examples at the end of Proofs.RecvSmp.
-/

import Proofs.RecvSmp
namespace Otr.C12Recv
open Otr

/-- C12 lifted: the success event is appended by `Receive` only for an authentic data message one of whose TLVs met the conclusion of `c12_success_event_guard` -/
theorem receive_smp_success_guard : type_of% @Otr.receive_smp_success_guard := @Otr.receive_smp_success_guard

/-- … in terms of the SMP component before the call: SMP3 in EXPECT3, SMP4 in EXPECT4 (or after an accepted SMP2 of the same message, from EXPECT2), all checks and the final comparison passed -/
theorem receive_smp_success_cases : type_of% @Otr.receive_smp_success_cases := @Otr.receive_smp_success_cases

/-- … so: encrypted, and in EXPECT2, EXPECT3 or EXPECT4 -/
theorem receive_smp_success_states : type_of% @Otr.receive_smp_success_states := @Otr.receive_smp_success_states

/-- from `SmpSuccessGuard` in a reachable state to `SuccessCases` -/
theorem successCases_of_guard : type_of% @Otr.successCases_of_guard := @Otr.successCases_of_guard

/-- a call whose leaf is not an authentic data message keeps the SMP component and appends no `smp:` entry -/
theorem receive_no_smp_event_unless_data :
    type_of% @Otr.receive_no_smp_event_unless_data := @Otr.receive_no_smp_event_unless_data

/-- every `processSMPTLV` step moves the SMP component along `SmpReach` -/
theorem processSMPTLV_reach : type_of% @Otr.processSMPTLV_reach := @Otr.processSMPTLV_reach

/-- `SmpReach` in EXPECT3: the component is the one the message found -/
theorem SmpReach_expect3 : type_of% @Otr.SmpReach.expect3 := @Otr.SmpReach.expect3

/-- `SmpReach` in EXPECT4: the one the message found, or EXPECT2 with a fresh third-message state -/
theorem SmpReach_expect4 : type_of% @Otr.SmpReach.expect4 := @Otr.SmpReach.expect4

/-- the data step of an accepted message: version kept, `SmpReach`, success only under `SuccessAt` -/
theorem receiveDataMessage_sg : type_of% @Otr.receiveDataMessage_sg := @Otr.receiveDataMessage_sg

/-- a key exchange message keeps the SMP component and raises no SMP event -/
theorem processAKE_sq : type_of% @Otr.processAKE_sq := @Otr.processAKE_sq

/-- what each API call other than `receive` can append to the log -/
theorem apiCall_events : type_of% @Otr.apiCall_events := @Otr.apiCall_events

/-- among the API calls only `receive` can append the SMP success event -/
theorem api_smp_success_only_via_receive :
    type_of% @Otr.api_smp_success_only_via_receive := @Otr.api_smp_success_only_via_receive

/-- satisfiable: `Receive` does raise success (EXPECT4, authentic data message with an SMP4 TLV) -/
theorem wDataSmp4_success : type_of% @Otr.wDataSmp4_success := @Otr.wDataSmp4_success

/-- the EXPECT2 case is attained: SMP2 and SMP4 TLV in one data message -/
theorem wDataSmp24_success : type_of% @Otr.wDataSmp24_success := @Otr.wDataSmp24_success

/-- ProvideAuthenticationSecret without randomness logs "cheated" -/
theorem wWaiting_cheated : type_of% @Otr.wWaiting_cheated := @Otr.wWaiting_cheated

end Otr.C12Recv
