/-
  Props.C11Conv — C11 at conversation level: a complete SMP run between two conversation states, step by step over
  the functions that produce and consume the SMP TLVs (continuation of Props.C11 = algebra of the pure functions, and
  Props.C12Machine = transition table / exact single steps).  Proofs in Proofs.SmpConv.

  SETTING (all three theorems).  `sA` is the initiator's whole model state, `sB` the responder's.
    `SmpPair K sA sB kA kB v` : both can send (`SendReady`: encrypted, version and instance tags set, session keys
        derivable), A holds `kA` as its own long-term key and `kB` as the peer's, B the other way round, both
        negotiated version `v`, both SMP machines idle (state nil or EXPECT1).
    tapes: `rA1` = A's first four reads succeed and give `a2 a3 r2 r3`; `rA2` = A's next four reads give
        `r4' r5' r6' r7`; `rB1` = B's seven reads give `b2 b3 r2' r3' r4 r5 r6`; (`rB2` = B's eighth read gives the
        bytes `r7b`).  These are the "honest exponents drawn from the randomness tapes".
    question `q`: no NUL byte, at most `maxSMPQuestionLength` bytes (may be empty: then TLV type 2, else type 7).
    The steps:  1  A: `startAuthenticate q secA`            → data message whose only TLV is t1 = first message
                2  B: `processSMPTLV t1`                     → no reply, B waits for the secret, log: ask-for-secret/answer
                3  B: `provideAuthenticationSecret secB`     → data message whose only TLV is t2
                4  A: `processSMPTLV t2`                     → reply t3, log `smp:5:60`, EXPECT4
                5  B: `processSMPTLV t3`                     → reply t4 (or the abort TLV)
                6  A: `processSMPTLV t4` (or the abort TLV)
    Each TLV is handed to the peer's `processSMPTLV` exactly as the previous step emitted it (as a `Tlv` value);
    `processSMPTLV` re-parses its MPI payload, so the MPI round trip is part of the statement; the TLV/data-message
    byte encoding in between is NOT (that is C02/C04).
    Every theorem first states that the third and fourth messages `s3`, `m4` are generated without panic, then —
    under three SIDE CONDITIONS on the numbers of this run —
        (i)   the version's group test `smpGE (some v)` accepts the ten transmitted group elements,
        (ii)  the ten transmitted proof exponents are nonzero      [(i),(ii): exactly those of `c11_equal_success`;
              they fail with probability ≈ 2^-1535, in which case the library, like libotr, rejects an honest message]
        (iii) `smpWireFit`: every transmitted MPI is shorter than 2^32 bytes (automatic when the hash is ≤ 2^32-1
              bytes; stated because `K` is arbitrary)
    — gives the exact six runs with all intermediate states existentially named.
    `K.ArithOK`: `K.gexp` is modular exponentiation, `K.modInv` the modular inverse (true of `Crypto.real`:
    `Crypto.real_arithOK`); nothing is assumed about the hash functions.

  `smp_conv_equal_success` — one session (`sA.conv.ssid = sB.conv.ssid`), both users type the same secret `sec`:
    all six steps succeed as listed, step 5 replies the fourth message, step 6 replies nothing;
    A's log gains exactly [`smp:5:60`, SUCCESS], B's log exactly [ask-for-secret/answer, SUCCESS]
    (`smpSuccessEvent` = `smp:6:100`), and both SMP components end wiped in EXPECT1.

  `smp_conv_unequal_no_success` — no assumption on ssid or typed secrets; instead the HASHED secrets
    `x = smpSecretOf … sA … secA`, `y = smpSecretOf … sB … secB` are different numbers below q, `dhP` and `dhQ` are
    prime, and `a2 a3 b2 b3` are nonzero mod q (the hypotheses of `c11_unequal_fail`).  (`r7'` only names the
    hypothetical fourth message in the side-condition lists; it is never drawn.)  Steps 1–4 as before; at step 5
    B's verification passes but the success test fails: B logs FAILURE `smp:7:100`, goes to EXPECT1 and replies the
    abort TLV; at step 6 A, given that abort TLV, logs `smp:1:0` and goes to EXPECT1.  A's log gains exactly
    [`smp:5:60`, `smp:1:0`], B's exactly [ask, `smp:7:100`]; the success event is in neither list.

  `smp_conv_different_session_no_success_partial` — the relay case: `sA.conv.ssid ≠ sB.conv.ssid` (two separately
    keyed sessions), both users type the SAME secret.  The hashed secrets are SHA-256 of byte strings that differ in
    the ssid part; that they are different numbers is COLLISION RESISTANCE of the hash, which the model does not have
    as a theorem — so it is the explicit hypothesis `hxy`, and the conclusion is that of the previous theorem.
    PARTIAL because of that hypothesis (`hss` itself is not used in the proof).

  Helper statements re-exported: the exact single steps `processSMPTLV_smp2_run`, `processSMPTLV_smp3_success_run`,
  `processSMPTLV_smp3_failure_run`, `processSMPTLV_smp4_success_run`, `provideAuthenticationSecret_run` (every `K`),
  `smp_conv_chain_core` (steps 1–4 for every `K`, verifications and parses as hypotheses), `smpSecretOf_session`
  (same ssid + same typed secret ⇒ same hashed secret), `smpAsk_ne_success`.

  NON-VACUITY: `exSmpA` (= `exSmpSession {}` of Proofs.SmpMachine with eight reads on the tape) and `exSmpB ssid`
  (same session data, long-term keys swapped, eight reads) satisfy `SmpPair` and the four tape hypotheses for every
  `K` (`exSmp_pair`, `exSmpA_rand1/2`, `exSmpB_rand1/2`); with `ssid := List.replicate 8 0` they are in one session,
  with `ssid := [1]` in different ones.  The examples below instantiate the theorems with question "?" and secrets
  "a"/"a", and show `hx hy hxy ha2 ha3 hb2 hb3` of the unequal theorems at `Crypto.real` for the different-session
  pair (kernel evaluation of SHA).  Satisfiability of side conditions (i), (ii) at `Crypto.real`: last examples of
  Proofs.Smp (small exponents); they are not re-evaluated for the witness tapes here.  `Nat.Prime dhP`, `Nat.Prime dhQ`
  are true but not proved in the project (as in Props.C11).
-/
import Proofs.SmpConv
namespace Otr.C11Conv
open Otr

/-- equal secrets in one session: both sides log success, both end in EXPECT1 -/
theorem smp_conv_equal_success : type_of% @Otr.smp_conv_equal_success := @Otr.smp_conv_equal_success

/-- different hashed secrets: B logs failure and aborts, A gets the abort, nobody logs success -/
theorem smp_conv_unequal_no_success : type_of% @Otr.smp_conv_unequal_no_success := @Otr.smp_conv_unequal_no_success

/-- two different sessions (relay), modulo collision resistance of SHA-256 (explicit hypothesis) -/
theorem smp_conv_different_session_no_success_partial :
    type_of% @Otr.smp_conv_different_session_no_success_partial := @Otr.smp_conv_different_session_no_success_partial

/-- steps 1–4 for every `K` -/
theorem smp_conv_chain_core : type_of% @Otr.smp_conv_chain_core := @Otr.smp_conv_chain_core

/-- same ssid and same typed secret give the same hashed secret -/
theorem smpSecretOf_session : type_of% @Otr.smpSecretOf_session := @Otr.smpSecretOf_session

theorem processSMPTLV_smp2_run : type_of% @Otr.processSMPTLV_smp2_run := @Otr.processSMPTLV_smp2_run
theorem processSMPTLV_smp3_success_run :
    type_of% @Otr.processSMPTLV_smp3_success_run := @Otr.processSMPTLV_smp3_success_run
theorem processSMPTLV_smp3_failure_run :
    type_of% @Otr.processSMPTLV_smp3_failure_run := @Otr.processSMPTLV_smp3_failure_run
theorem processSMPTLV_smp4_success_run :
    type_of% @Otr.processSMPTLV_smp4_success_run := @Otr.processSMPTLV_smp4_success_run
theorem provideAuthenticationSecret_run :
    type_of% @Otr.provideAuthenticationSecret_run := @Otr.provideAuthenticationSecret_run
theorem smpMsg1Of_fresh : type_of% @Otr.smpMsg1Of_fresh := @Otr.smpMsg1Of_fresh
theorem smpAsk_ne_success : type_of% @Otr.smpAsk_ne_success := @Otr.smpAsk_ne_success
theorem exSmp_pair : type_of% @Otr.exSmp_pair := @Otr.exSmp_pair

/-! non-vacuity -/

example : Crypto.real.ArithOK := Crypto.real_arithOK

/-- the structural hypotheses of all three theorems hold for the witness states, for every `K` -/
example (K : Crypto) :
    SmpPair K exSmpA (exSmpB (List.replicate 8 0)) ⟨5, 5, 5, 5⟩ ⟨7, 7, 7, 7⟩ .v2 ∧
    exSmpA.conv.ssid = (exSmpB (List.replicate 8 0)).conv.ssid ∧
    SmpPair K exSmpA (exSmpB [1]) ⟨5, 5, 5, 5⟩ ⟨7, 7, 7, 7⟩ .v2 ∧
    exSmpA.conv.ssid ≠ (exSmpB [1]).conv.ssid ∧
    ([63] : Bytes).contains 0 = false ∧ ([63] : Bytes).length ≤ maxSMPQuestionLength :=
  ⟨Otr.exSmp_pair K _, Otr.exSmp_sameSession, Otr.exSmp_pair K _, Otr.exSmp_otherSession, by decide, by decide⟩

/-- `smp_conv_equal_success` at the witness session, question "?", secrets "a"/"a": everything but the three side
    conditions on the numbers of the run is discharged -/
example {K : Crypto} (A : K.ArithOK) :
    let x := smpSecretOf K exSmpA.conv ⟨7, 7, 7, 7⟩ ⟨5, 5, 5, 5⟩ true [97]
    let s1 := smp1Fresh K [63] (exN 1) (exN 2) (exN 3) (exN 4)
    let s2 := smp2Gen K x s1.msg (exN 11) (exN 12) (exN 13) (exN 14) (exN 15) (exN 16) (exN 17)
    ∃ s3 m4, smp3Gen K x s1 s2.msg (exN 5) (exN 6) (exN 7) (exN 8) = .ok s3 ∧
      smp4Gen K s2 s3.msg (exN 18) = .ok m4 ∧
      ((∀ n ∈ smpTransmitted (smp1Gen K (exN 1) (exN 2) (exN 3) (exN 4)) s2 s3 m4, smpGE (some .v2) n = true) →
       (∀ d ∈ smpExponents (smp1Gen K (exN 1) (exN 2) (exN 3) (exN 4)) s2 s3 m4, 1 ≤ d) →
       smpWireFit (smp1Gen K (exN 1) (exN 2) (exN 3) (exN 4)).msg s2.msg s3.msg m4 →
       ∃ A3 B3 : MState, smpSuccessEvent ∈ A3.events ∧ smpSuccessEvent ∈ B3.events ∧
         A3.conv.smp.state = some .expect1 ∧ B3.conv.smp.state = some .expect1) := by
  intro x s1 s2
  obtain ⟨s3, m4, h3, h4, h⟩ := Otr.smp_conv_equal_success A [63] [97] exSmpA (exSmpB (List.replicate 8 0)) _ _ _ _
    ⟨5, 5, 5, 5⟩ ⟨7, 7, 7, 7⟩ .v2 _ _ _ _ _ _ _ _ _ _ _ _ _ _ _ _ (Otr.exSmp_pair K _) Otr.exSmp_sameSession
    (by decide) (by decide) Otr.exSmpA_rand1 Otr.exSmpA_rand2 (Otr.exSmpB_rand1 _) (Otr.exSmpB_rand2 _)
  refine ⟨s3, m4, h3, h4, fun hT hE hF => ?_⟩
  obtain ⟨_, _, _, _, B3, A3, -, -, -, -, -, -, -, -, -, hA, hB, hsA, hsB⟩ := h hT hE hF
  exact ⟨A3, B3, hA, hB, by rw [hsA], by rw [hsB]⟩

/-- the hypotheses `hx`, `hy`, `hxy` of the unequal / different-session theorems at the executable instance
    (real SHA-1 / SHA-256, evaluated by the kernel): the two witness states in DIFFERENT sessions (`ssid` = eight
    zero bytes vs `[1]`), both users typing "a" — the hashed secrets are different numbers below q -/
example : smpSecretOf Crypto.real exSmpA.conv ⟨7, 7, 7, 7⟩ ⟨5, 5, 5, 5⟩ true [97] ≠
      smpSecretOf Crypto.real (exSmpB [1]).conv ⟨5, 5, 5, 5⟩ ⟨7, 7, 7, 7⟩ false [97] ∧
    smpSecretOf Crypto.real exSmpA.conv ⟨7, 7, 7, 7⟩ ⟨5, 5, 5, 5⟩ true [97] < dhQ ∧
    smpSecretOf Crypto.real (exSmpB [1]).conv ⟨5, 5, 5, 5⟩ ⟨7, 7, 7, 7⟩ false [97] < dhQ := by decide +kernel

/-- … and the exponents the witness tapes yield are nonzero mod q (`ha2 ha3 hb2 hb3`) -/
example : exN 1 % dhQ ≠ 0 ∧ exN 2 % dhQ ≠ 0 ∧ exN 11 % dhQ ≠ 0 ∧ exN 12 % dhQ ≠ 0 := by decide +kernel

end Otr.C11Conv
