/-
  Props.C11 — SMP reports success exactly when the secrets match within one session.

  Arithmetic model Otr.Smp (tied to smp*.go by whole-session differential runs of honest and deviant
  SMP exchanges with real 1536-bit arithmetic). Theorems hold for every `K : Crypto` whose modular
  exponentiation and inverse are correct (`Crypto.ArithOK`, proved for the real instance:
  `Crypto.real_arithOK`); the hash is arbitrary. `two_pow_dhQ` (g^q ≡ 1 mod p) is proved by kernel
  evaluation. `smp_honest_run`: in an honest run, for ALL exponents and secrets, the ten transmitted
  proof exponents d = r − a·c mod q are < q, every generated proof verifies provided these exponents
  are nonzero (hypothesis `∀ d ∈ smpExponents …, 1 ≤ d`: the repaired code, like libotr, range-checks
  1 ≤ d < q on receipt and so rejects an honest message in the probability-2^-1535 event d = 0) and
  both final comparisons equal `g^(a2·b2·a3·b3·x) = g^(a2·b2·a3·b3·y)`.
  `c11_equal_success(_v2/_v3)`: equal secrets and nonzero transmitted proof exponents ⇒ success on
  both sides (OTRv3 under the further side condition that no transmitted element is 1 or p−1, which
  the v3 range check rejects — probability ≈ 2^-1535). `isExponent_subModQ_iff`: an honest exponent
  passes the range check iff it is nonzero.
  `c11_unequal_fail`: with p and q prime (hypotheses hp, hqp: not provable with the tools present) and
  the four blinding exponents nonzero mod q, different secrets x ≠ y < q ⇒ failure on both sides.
  Binding of the secret to both fingerprints and the SSID (what defeats a relay): the hashed secret is
  `hash2 (1 ‖ fpInitiator ‖ fpResponder ‖ ssid ‖ secret)` — model function `smpSecretFor`, compared
  byte for byte; that different (fp, fp, ssid) give different hashed secrets is collision resistance
  of SHA-256 (assumption). Relay scenario: Go oracle of the `smp` profile.
  `startAuthenticate_question_nul` (repaired code): a question with a NUL byte (the peer would see it cut
  short, and read the rest as MPIs) is refused before any SMP state is set up.
  `startAuthenticateExpect1_refused`, `startAuthenticateExpect1_short_random_keeps_smp`,
  `startAuthenticate_short_random_keeps_smp` (repaired code; Proofs.Fixes4): a StartAuthenticate that is refused —
  not encrypted, or one of the four randomness reads fails (`shortRandom`) — leaves the whole conversation, in
  particular the SMP component (secret, first-message state, state) of a run in progress, exactly as it was; only
  the randomness tape has advanced (at the API level a nil SMP state has become EXPECT1, `ensureSmpConv`).
  Before the repair the secret computed from the new argument had already replaced the one of the run in progress.
  `startAuthenticateExpect1_run_short_random`: the call is refused in this way whenever one of the four reads fails.
-/

import Proofs.Smp
import Proofs.ConvLife
import Proofs.Fixes4
namespace Otr.C11
open Otr

theorem Crypto_real_arithOK : type_of% @Otr.Crypto.real_arithOK := @Otr.Crypto.real_arithOK

theorem two_pow_dhQ : type_of% @Otr.two_pow_dhQ := @Otr.two_pow_dhQ

theorem zkp_complete : type_of% @Otr.zkp_complete := @Otr.zkp_complete

theorem zkp2_complete : type_of% @Otr.zkp2_complete := @Otr.zkp2_complete

theorem zkp4_complete : type_of% @Otr.zkp4_complete := @Otr.zkp4_complete

theorem isExponent_iff : type_of% @Otr.isExponent_iff := @Otr.isExponent_iff

theorem isExponent_subModQ_iff : type_of% @Otr.isExponent_subModQ_iff := @Otr.isExponent_subModQ_iff

theorem smp_honest_run : type_of% @Otr.smp_honest_run := @Otr.smp_honest_run

theorem c11_equal_success : type_of% @Otr.c11_equal_success := @Otr.c11_equal_success

theorem c11_equal_success_v2 : type_of% @Otr.c11_equal_success_v2 := @Otr.c11_equal_success_v2

theorem c11_equal_success_v3 : type_of% @Otr.c11_equal_success_v3 := @Otr.c11_equal_success_v3

theorem c11_unequal_fail : type_of% @Otr.c11_unequal_fail := @Otr.c11_unequal_fail

/-- repaired code: a question containing a NUL byte is refused, no SMP state is set up -/
theorem startAuthenticate_question_nul : type_of% @Otr.startAuthenticate_question_nul := @Otr.startAuthenticate_question_nul

/-- repaired code: a refused `startAuthenticateExpect1` (only `cantAuthenticate` or `shortRandom` are thrown) leaves conversation and log as they were; only the randomness tape advances -/
theorem startAuthenticateExpect1_refused (K : Crypto) (q secret : Bytes) (s s' : MState) (e : Err)
    (h : runM (startAuthenticateExpect1 K q secret) s = .ok (.error e, s')) :
    ∃ env' mm', s' = { s with env := env', mismatch := mm' } ∧ EnvStep s.env env' ∧
      ((e = .cantAuthenticate ∧ s.conv.msgState ≠ .encrypted ∧ s' = s) ∨
       (e = .shortRandom ∧ s.conv.msgState = .encrypted)) := by
  first | exact Otr.startAuthenticateExpect1_refused | exact @Otr.startAuthenticateExpect1_refused | (apply Otr.startAuthenticateExpect1_refused <;> assumption) | (intros; apply Otr.startAuthenticateExpect1_refused <;> assumption)

/-- repaired code: the randomness read fails (the call throws `shortRandom`) — the SMP component, the whole conversation and the log are exactly what they were -/
theorem startAuthenticateExpect1_short_random_keeps_smp (K : Crypto) (q secret : Bytes) (s s' : MState)
    (h : runM (startAuthenticateExpect1 K q secret) s = .ok (.error .shortRandom, s')) :
    s'.conv.smp = s.conv.smp ∧ s'.conv = s.conv ∧ s'.events = s.events ∧ EnvStep s.env s'.env := by
  first | exact Otr.startAuthenticateExpect1_short_random_keeps_smp | exact @Otr.startAuthenticateExpect1_short_random_keeps_smp | (apply Otr.startAuthenticateExpect1_short_random_keeps_smp <;> assumption) | (intros; apply Otr.startAuthenticateExpect1_short_random_keeps_smp <;> assumption)

/-- the call throws `shortRandom` whenever one of the four reads of `randMPIs 4 len` fails -/
theorem startAuthenticateExpect1_run_short_random (K : Crypto) (q secret : Bytes) (s s1 : MState)
    (tk ok : DsaPub) (v : Version) (vs : List (Option Nat))
    (hm : s.conv.msgState = .encrypted) (htk : s.conv.theirKey = some tk) (hok : s.conv.ourCurrentKey = some ok)
    (hv : s.conv.version = some v)
    (hr : runM (randMPIs 4 v.parameterLength) s = .ok (.ok vs, s1)) (hfail : allSome vs = none) :
    runM (startAuthenticateExpect1 K q secret) s = .ok (.error .shortRandom, s1) := by
  first | exact Otr.startAuthenticateExpect1_run_short_random | exact @Otr.startAuthenticateExpect1_run_short_random | (apply Otr.startAuthenticateExpect1_run_short_random <;> assumption) | (intros; apply Otr.startAuthenticateExpect1_run_short_random <;> assumption)

/-- repaired code, API level: the randomness read of `startAuthenticateExpect1` fails — `StartAuthenticate` throws `shortRandom`, sends nothing, and the conversation is what it was except that a nil SMP state has become EXPECT1 -/
theorem startAuthenticate_short_random_keeps_smp (K : Crypto) (q secret : Bytes) (s s1 : MState)
    (hq1 : q.contains 0 = false) (hq2 : q.length ≤ maxSMPQuestionLength)
    (h : runM (startAuthenticateExpect1 K q secret) { s with conv := ensureSmpConv s.conv } =
      .ok (.error .shortRandom, s1)) :
    runM (startAuthenticate K q secret) s = .ok (.error .shortRandom, s1) ∧
    s1.conv = ensureSmpConv s.conv ∧
    s1.conv.smp = { s.conv.smp with state := some (s.conv.smp.state.getD .expect1) } ∧
    (∀ st, s.conv.smp.state = some st → s1.conv.smp = s.conv.smp ∧ s1.conv = s.conv) ∧
    (s.conv.smp.state = none → s1.conv.smp = { s.conv.smp with state := some .expect1 }) ∧
    s1.events = s.events ∧ EnvStep s.env s1.env := by
  first | exact Otr.startAuthenticate_short_random_keeps_smp | exact @Otr.startAuthenticate_short_random_keeps_smp | (apply Otr.startAuthenticate_short_random_keeps_smp <;> assumption) | (intros; apply Otr.startAuthenticate_short_random_keeps_smp <;> assumption)

end Otr.C11
