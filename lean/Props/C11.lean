/-
  Props.C11 — SMP reports success exactly when the secrets match within one session.

  Arithmetic model Otr.Smp (tied to smp*.go by whole-session differential runs of honest and deviant
  SMP exchanges with real 1536-bit arithmetic). Theorems hold for every `K : Crypto` whose modular
  exponentiation and inverse are correct (`Crypto.ArithOK`, proved for the real instance:
  `Crypto.real_arithOK`); the hash is arbitrary. `two_pow_dhQ` (g^q ≡ 1 mod p) is proved by kernel
  evaluation. `smp_honest_run`: in an honest run, for ALL exponents and secrets, the ten transmitted
  proof exponents d = r − a·c mod q are < q, every generated proof verifies provided these exponents
  are nonzero (hypothesis `∀ d ∈ smpExponents …, 1 ≤ d`: the repaired code, like libotr, range-checks
  1 ≤ d < q on receipt and so rejects an honest message in the probability-2^-1535 event d = 0) and
  both final comparisons equal `g^(a2·b2·a3·b3·x) = g^(a2·b2·a3·b3·y)`.
  `c11_equal_success(_v2/_v3)`: equal secrets and nonzero transmitted proof exponents ⇒ success on
  both sides (OTRv3 under the further side condition that no transmitted element is 1 or p−1, which
  the v3 range check rejects — probability ≈ 2^-1535). `isExponent_subModQ_iff`: an honest exponent
  passes the range check iff it is nonzero.
  `c11_unequal_fail`: with p and q prime (hypotheses hp, hqp: not provable with the tools present) and
  the four blinding exponents nonzero mod q, different secrets x ≠ y < q ⇒ failure on both sides.
  Binding of the secret to both fingerprints and the SSID (what defeats a relay): the hashed secret is
  `hash2 (1 ‖ fpInitiator ‖ fpResponder ‖ ssid ‖ secret)` — model function `smpSecretFor`, compared
  byte for byte; that different (fp, fp, ssid) give different hashed secrets is collision resistance
  of SHA-256 (assumption). Relay scenario: Go oracle of the `smp` profile.
  `startAuthenticate_question_nul` (repaired code): a question with a NUL byte (the peer would see it cut
  short, and read the rest as MPIs) is refused before any SMP state is set up.
-/

import Proofs.Smp
import Proofs.ConvLife
namespace Otr.C11
open Otr

theorem Crypto_real_arithOK : type_of% @Otr.Crypto.real_arithOK := @Otr.Crypto.real_arithOK

theorem two_pow_dhQ : type_of% @Otr.two_pow_dhQ := @Otr.two_pow_dhQ

theorem zkp_complete : type_of% @Otr.zkp_complete := @Otr.zkp_complete

theorem zkp2_complete : type_of% @Otr.zkp2_complete := @Otr.zkp2_complete

theorem zkp4_complete : type_of% @Otr.zkp4_complete := @Otr.zkp4_complete

theorem isExponent_iff : type_of% @Otr.isExponent_iff := @Otr.isExponent_iff

theorem isExponent_subModQ_iff : type_of% @Otr.isExponent_subModQ_iff := @Otr.isExponent_subModQ_iff

theorem smp_honest_run : type_of% @Otr.smp_honest_run := @Otr.smp_honest_run

theorem c11_equal_success : type_of% @Otr.c11_equal_success := @Otr.c11_equal_success

theorem c11_equal_success_v2 : type_of% @Otr.c11_equal_success_v2 := @Otr.c11_equal_success_v2

theorem c11_equal_success_v3 : type_of% @Otr.c11_equal_success_v3 := @Otr.c11_equal_success_v3

theorem c11_unequal_fail : type_of% @Otr.c11_unequal_fail := @Otr.c11_unequal_fail

/-- repaired code: a question containing a NUL byte is refused, no SMP state is set up -/
theorem startAuthenticate_question_nul : type_of% @Otr.startAuthenticate_question_nul := @Otr.startAuthenticate_question_nul

end Otr.C11
