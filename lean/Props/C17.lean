/-
  Props.C17 — every protocol structure and key survives serialisation round trips.

  Property theorems only; helper lemmas are in Proofs.{Bytes,Codec,Msg}.
  Well-formedness hypotheses are explicit (lengths fit their 32/16-bit prefixes, fixed-size
  fields have their size, NUL-free text) and each is shown satisfiable by an `example`.
-/
import Otr.Conv
import Proofs.Msg
import Proofs.KeyFile
namespace Otr.C17
open Otr

/-! ## integers, DATA, MPI -/

theorem short_roundtrip (v : Nat) (rest : Bytes) (h : v < 65536) :
    extractShort (appendShort [] v ++ rest) = some (v, rest) := extractShort_be16 v rest h

theorem word_roundtrip (v : Nat) (rest : Bytes) (h : v < 4294967296) :
    extractWord (appendWord [] v ++ rest) = some (v, rest) := extractWord_be32 v rest h

theorem long_roundtrip (v : Nat) (rest : Bytes) (h : v < 18446744073709551616) :
    extractLong (appendLong [] v ++ rest) = some (v, rest) := extractLong_be64 v rest h

theorem data_roundtrip (d rest : Bytes) (h : d.length < 4294967296) :
    extractData (appendData [] d ++ rest) = some (d, rest) := extractData_append d rest h

theorem mpi_roundtrip (n : Nat) (rest : Bytes) (h : (natToBytes n).length < 4294967296) :
    extractMPI (appendMPI [] n ++ rest) = some (n, rest) := extractMPI_append n rest h

theorem mpis_roundtrip (ns : List Nat) (rest : Bytes) (h : mpisFit ns) (hl : ns.length < 4294967296) :
    extractMPIs (appendMPIs (appendWord [] ns.length) ns ++ rest) = some (ns, rest) :=
  extractMPIs_appendMPIs ns rest h hl

/-- integers are emitted in minimal form: no leading zero byte, zero is the empty string -/
theorem mpi_minimal (n : Nat) : (∀ x, (natToBytes n).head? = some x → x ≠ 0) ∧ natToBytes 0 = [] :=
  ⟨fun x h => natToBytes_head_ne_zero n x h, natToBytes_zero⟩

/-- the length prefix always matches the contents: what follows the 4-byte prefix is exactly the value -/
theorem length_prefix_exact (l d : Bytes) (h : d.length < 4294967296) :
    ∃ p, appendData l d = l ++ p ++ d ∧ extractWord (p ++ d) = some (d.length, d) :=
  ⟨be32 d.length, by simp [appendData], extractWord_be32 _ _ h⟩

/-- every parsed DATA/MPI has a length that fits the prefix, so re-serialising what was parsed parses
    to the same value -/
theorem data_reparse (b d rest : Bytes) (h : extractData b = some (d, rest)) :
    extractData (appendData [] d ++ rest) = some (d, rest) := by
  apply extractData_append
  unfold extractData at h
  cases hw : extractWord b with
  | none => simp [hw] at h
  | some p =>
    obtain ⟨n, r⟩ := p
    simp only [hw] at h
    split at h
    · simp at h
    · simp only [Option.some.injEq, Prod.mk.injEq] at h
      have hn : n < 4294967296 := by
        match b, hw with
        | a :: b' :: c :: d' :: r', hw =>
          simp only [extractWord, Option.some.injEq, Prod.mk.injEq] at hw
          rw [← hw.1]; exact de32_lt _ _ _ _
      rw [← h.1]; simp; omega

theorem mpi_reparse (b : Bytes) (n : Nat) (rest : Bytes) (h : extractMPI b = some (n, rest)) :
    extractMPI (appendMPI [] n ++ rest) = some (n, rest) := by
  apply extractMPI_append
  unfold extractMPI at h
  cases hd : extractData b with
  | none => simp [hd] at h
  | some p =>
    obtain ⟨v, r⟩ := p
    simp only [hd, Option.some.injEq, Prod.mk.injEq] at h
    have hv : v.length < 4294967296 := by
      have := data_reparse b v r hd
      unfold extractData at hd
      cases hw : extractWord b with
      | none => simp [hw] at hd
      | some q =>
        obtain ⟨k, r'⟩ := q
        simp only [hw] at hd
        split at hd
        · simp at hd
        · simp only [Option.some.injEq, Prod.mk.injEq] at hd
          have hk : k < 4294967296 := by
            match b, hw with
            | a :: b' :: c :: d' :: r'', hw =>
              simp only [extractWord, Option.some.injEq, Prod.mk.injEq] at hw
              rw [← hw.1]; exact de32_lt _ _ _ _
          rw [← hd.1]; simp; omega
    rw [← h.1]
    exact Nat.lt_of_le_of_lt (natToBytes_bytesToNat_length_le v) hv

/-! ## AKE messages -/

theorem dhCommit_roundtrip (c : DhCommit) (extra : Bytes)
    (hg : c.encryptedGx.length < 4294967296) (hh : c.hashedGx.length < 4294967296) :
    DhCommit.deserialize (c.serialize ++ extra) = some c := Otr.dhCommit_roundtrip c extra hg hh

theorem dhKey_roundtrip (k : DhKey) (extra : Bytes) (h : (natToBytes k.gy).length < 4294967296) :
    DhKey.deserialize (k.serialize ++ extra) = some k := Otr.dhKey_roundtrip k extra h

/-- Reveal-Signature: the sender stores the encrypted signature with its length prefix, the parser
    returns it without; `r` is 16 bytes, the MAC 20 -/
theorem revealSig_roundtrip (r x mac : Bytes) (hr : r.length = 16) (hm : mac.length = 20)
    (hx : x.length < 4294967296) :
    ∃ b, RevealSig.serialize ⟨r, appendData [] x, mac⟩ = .ok b ∧
         RevealSig.deserialize b = some ⟨r, x, mac⟩ := Otr.revealSig_roundtrip r x mac hr hm hx

theorem sig_roundtrip (x mac : Bytes) (hm : mac.length = 20) (hx : x.length < 4294967296) :
    ∃ b, Sig.serialize ⟨appendData [] x, mac⟩ = .ok b ∧ Sig.deserialize b = some ⟨x, mac⟩ :=
  Otr.sig_roundtrip x mac hm hx

/-! ## data message, TLVs -/

theorem tlv_roundtrip (t : Tlv) (rest : Bytes) (h : t.WF) : Tlv.deserialize (t.serialize ++ rest) = some t :=
  Otr.tlv_roundtrip t rest h

/-- a parsed TLV is well-formed, hence re-serialising it parses to the same TLV -/
theorem tlv_reparse (b : Bytes) (t : Tlv) (h : Tlv.deserialize b = some t) :
    Tlv.deserialize t.serialize = some t := by
  have hwf : t.WF := by
    unfold Tlv.deserialize at h
    cases h1 : extractShort b with
    | none => simp [h1] at h
    | some p =>
      obtain ⟨ty, r1⟩ := p
      simp only [h1] at h
      cases h2 : extractShort r1 with
      | none => simp [h2] at h
      | some q =>
        obtain ⟨ln, r2⟩ := q
        simp only [h2] at h
        split at h
        · simp at h
        · simp only [Option.some.injEq] at h
          subst h
          refine ⟨?_, ?_, ?_⟩
          · match b, h1 with
            | a :: b' :: r, h1 =>
              simp only [extractShort, Option.some.injEq, Prod.mk.injEq] at h1
              rw [← h1.1]; exact de16_lt _ _
          · match r1, h2 with
            | a :: b' :: r, h2 =>
              simp only [extractShort, Option.some.injEq, Prod.mk.injEq] at h2
              rw [← h2.1]; exact de16_lt _ _
          · simp; omega
  have := Otr.tlv_roundtrip t [] hwf
  simpa using this

theorem plainDataMsg_roundtrip (p : PlainDataMsg) (hm : ∀ x ∈ p.message, x ≠ 0) (ht : ∀ t ∈ p.tlvs, t.WF) :
    PlainDataMsg.deserialize p.serialize = (p, true) := Otr.plainDataMsg_roundtrip p hm ht

theorem dataMsg_roundtrip (m : DataMsg) (h : m.WF) : DataMsg.deserialize m.serialize = some m :=
  Otr.dataMsg_roundtrip m h

/-! ## SMP payloads -/

theorem smp1_roundtrip (m : Smp1Msg) (hq : m.hasQuestion = false) (hq2 : m.question = [])
    (h : mpisFit [m.g2a, m.c2, m.d2, m.g3a, m.c3, m.d3]) : toSmp1 m.tlv.value = some m :=
  Otr.smp1_roundtrip m hq hq2 h

theorem smp1q_roundtrip (m : Smp1Msg) (hq : m.hasQuestion = true) (hn : ∀ x ∈ m.question, x ≠ 0)
    (h : mpisFit [m.g2a, m.c2, m.d2, m.g3a, m.c3, m.d3]) : toSmp1Q m.tlv.value = some m :=
  Otr.smp1q_roundtrip m hq hn h

theorem smp2_roundtrip (m : Smp2Msg)
    (h : mpisFit [m.g2b, m.c2, m.d2, m.g3b, m.c3, m.d3, m.pb, m.qb, m.cp, m.d5, m.d6]) :
    toSmp2 m.tlv.value = some m := Otr.smp2_roundtrip m h

theorem smp3_roundtrip (m : Smp3Msg)
    (h : mpisFit [m.pa, m.qa, m.cp, m.d5, m.d6, m.ra, m.cr, m.d7]) : toSmp3 m.tlv.value = some m :=
  Otr.smp3_roundtrip m h

theorem smp4_roundtrip (m : Smp4Msg) (h : mpisFit [m.rb, m.cr, m.d7]) : toSmp4 m.tlv.value = some m :=
  Otr.smp4_roundtrip m h

/-! ## DSA public key wire form -/

theorem parsePublicKey_of (x : Bytes) (r0 r1 r2 r3 r4 : Bytes) (p q g y : Nat)
    (h0 : extractShort x = some (0, r0)) (h1 : extractMPI r0 = some (p, r1)) (h2 : extractMPI r1 = some (q, r2))
    (h3 : extractMPI r2 = some (g, r3)) (h4 : extractMPI r3 = some (y, r4)) :
    parsePublicKey x = some (⟨p, q, g, y⟩, r4) := by
  unfold parsePublicKey
  simp only [h0, h1, h2, h3, h4]

theorem dsaPub_roundtrip (k : DsaPub) (rest : Bytes)
    (h : mpisFit [k.p, k.q, k.g, k.y]) : parsePublicKey (k.serialize ++ rest) = some (k, rest) := by
  have e : k.serialize ++ rest =
      [0, 0] ++ (appendMPI [] k.p ++ (appendMPI [] k.q ++ (appendMPI [] k.g ++ (appendMPI [] k.y ++ rest)))) := by
    simp [DsaPub.serialize, appendMPI, appendData]
  rw [e]
  exact parsePublicKey_of _ _ _ _ _ _ _ _ _ _ rfl
    (extractMPI_append _ _ (h k.p (by simp))) (extractMPI_append _ _ (h k.q (by simp)))
    (extractMPI_append _ _ (h k.g (by simp))) (extractMPI_append _ _ (h k.y (by simp)))

/-! ## non-vacuity: the hypotheses are met by concrete, non-trivial values -/

example : (⟨1, 3, [7, 8, 9]⟩ : Tlv).WF := by simp [Tlv.WF]
example : Tlv.deserialize ((⟨1, 3, [7, 8, 9]⟩ : Tlv).serialize ++ [5]) = some ⟨1, 3, [7, 8, 9]⟩ := by decide
/-- every integer below 256^k (in particular every 1536-bit group element) fits the prefix -/
theorem mpi_fits (n k : Nat) (h : n < 256 ^ k) (hk : k < 4294967296) : (natToBytes n).length < 4294967296 := by
  unfold natToBytes
  rw [List.length_reverse]
  exact Nat.lt_of_le_of_lt (natToBytesLE_length_le k n h) hk
example : mpisFit [0, 1, 255, 256, 65537] := by
  intro n hn
  apply mpi_fits n 3 _ (by decide)
  simp at hn; rcases hn with h | h | h | h | h <;> subst h <;> decide
example : extractMPI (appendMPI [] 65537 ++ [9]) = some (65537, [9]) :=
  mpi_roundtrip 65537 [9] (mpi_fits 65537 3 (by decide) (by decide))
example : PlainDataMsg.deserialize (PlainDataMsg.serialize ⟨[104, 105], [⟨0, 2, [0, 0]⟩, ⟨6, 0, []⟩]⟩)
    = (⟨[104, 105], [⟨0, 2, [0, 0]⟩, ⟨6, 0, []⟩]⟩, true) := by decide

/-! libotr key file / s-expression reader (Otr.Sexp, Otr.KeyFile; profile `keyfile`) -/
theorem keyfile_roundtrip : type_of% @Otr.keyfile_roundtrip := @Otr.keyfile_roundtrip

/-- repaired reader: what a successful import returns meets the name half of the round trip's
    precondition (`Account.wellFormed`) — no double quote in any account name -/
theorem importKeys_names_no_quote : type_of% @Otr.importKeys_names_no_quote := @Otr.importKeys_names_no_quote

theorem importKeys_names_wellFormed : type_of% @Otr.importKeys_names_wellFormed := @Otr.importKeys_names_wellFormed

theorem readAccountName_no_quote : type_of% @Otr.readAccountName_no_quote := @Otr.readAccountName_no_quote

theorem parseBigHex_fmtX : type_of% @Otr.parseBigHex_fmtX := @Otr.parseBigHex_fmtX

theorem parsePrivateKey_roundtrip : type_of% @Otr.parsePrivateKey_roundtrip := @Otr.parsePrivateKey_roundtrip

theorem serialize_parsePrivateKey : type_of% @Otr.serialize_parsePrivateKey := @Otr.serialize_parsePrivateKey

end Otr.C17
