/-
  Props.C13RealApi — the whole-history theorems of C05, C09, C16, C18, C19 for the executable cryptography.

  Every theorem over API histories that needs termination (no panic) carries the hypothesis `CryptoOK K`. For the
  instance `Crypto.real` — real SHA-1/SHA-256/HMAC/AES-CTR/modular arithmetic, the one the compiled driver runs and the
  correspondence check compares with Go's crypto — that hypothesis is a theorem (`Crypto.real_cryptoOK`, Props.C13Real)
  up to `Nat.Prime dhP`. These are the general theorems applied to it: from ANY freshly created conversation, after ANY
  sequence of API calls with arbitrary arguments, randomness tapes and signing-oracle answers,
    * at most 4 counters and 4 MAC-history entries are kept, the key context follows a key-management history,
      nothing accepted is accepted again within a session, every queued key stems from a used one, no used key is lost
      (C19, C05, C09),
    * #GoneSecure = #GoneInsecure + [encrypted] (C18), the retransmission list obeys `RInv` (C18/C08),
    * the reply queue is empty, the fragment context is bounded by the input received (C19),
    * the committed version is allowed and never replaced (C16).
  Hypothesis: `Nat.Prime dhP` (no primality certificate can be checked offline; `two_pow_dhQ` is the Fermat test to base 2).
-/
import Proofs.ApiReal
namespace Otr.C13RealApi
open Otr

theorem api_c19_bounded_real : type_of% @Otr.api_c19_bounded_real := @Otr.api_c19_bounded_real
theorem api_sequence_keys_refine_real : type_of% @Otr.api_sequence_keys_refine_real := @Otr.api_sequence_keys_refine_real
theorem api_c05_no_replay_within_session_real : type_of% @Otr.api_c05_no_replay_within_session_real := @Otr.api_c05_no_replay_within_session_real
theorem api_c09_queue_provenance_real : type_of% @Otr.api_c09_queue_provenance_real := @Otr.api_c09_queue_provenance_real
theorem api_mac_keys_never_lost_real : type_of% @Otr.api_mac_keys_never_lost_real := @Otr.api_mac_keys_never_lost_real
theorem api_sequence_events_balance_fresh_real : type_of% @Otr.api_sequence_events_balance_fresh_real := @Otr.api_sequence_events_balance_fresh_real
theorem api_resend_bounded_real : type_of% @Otr.api_resend_bounded_real := @Otr.api_resend_bounded_real
theorem api_injections_empty_real : type_of% @Otr.api_injections_empty_real := @Otr.api_injections_empty_real
theorem api_fragCtx_bounded_real : type_of% @Otr.api_fragCtx_bounded_real := @Otr.api_fragCtx_bounded_real
theorem api_version_allowed_real : type_of% @Otr.api_version_allowed_real := @Otr.api_version_allowed_real
theorem api_version_sticky_real : type_of% @Otr.api_version_sticky_real := @Otr.api_version_sticky_real

end Otr.C13RealApi
