/-
  Props.C16Api — C16 over whole API histories (continuation of Props.C16): "a conversation never emits, and never
  acts on, a message of a version its policy forbids".  (A separate module: Proofs.VersionInv imports
  Proofs.NoPanic, whose `Otr.Inv` excludes the `Otr.Inv` of Proofs.Ratchet.)

  Vocabulary.  `allowsVersion p v`: the policy bit ALLOW_V2 / ALLOW_V3 for `v` is set in `p`.  `VersionAllowed c`:
  the version `c` is committed to, if any, is allowed by `c.policies` (equivalent to `VersionOK` of Props.C16:
  `versionAllowed_iff_versionOK`).  `runApi K c steps`: the conversation after the API calls `steps` (`receive`,
  `send`, `End`, the three SMP calls, extra key, `sendtlvs`, fragment size — each with arbitrary arguments, an
  arbitrary randomness tape, signing-oracle tape and clock), or the first panic.  `VStep c c'`: policies equal;
  a version `c` is committed to is the version of `c'`; if `c` has none, `c'` has none or one `c.policies` allows.

  Plain words, theorem by theorem (`K : Crypto` is arbitrary everywhere; nothing is assumed about it except in the
  two `api_*` theorems that also assert termination, which take `CryptoOK K` from Proofs.NoPanic):

  `apiCall_policies_const`  no API call that returns or throws changes the policies.
  `apiCall_version`         one API call: `VStep` between the state before and after.
  `runApi_version`          any sequence of calls from ANY conversation: `VStep` between start and end.
  `runApi_version_allowed`  (1) from any conversation with `VersionAllowed`, every reachable conversation has the
                            same policies and `VersionAllowed`.
  `api_version_allowed`     (1) from a fresh conversation (version not set, or preset to one the policy allows; any
                            policies, keys, fragment size, handler, query text, tag): every history ends without
                            panic, policies unchanged, the version — if any — allowed, `VersionOK`.
  `runApi_version_sticky`,  (2) THE EXACT RULE.  Between any two points of a history a committed version never
  `api_version_sticky`      changes: not by `End`, not by a peer disconnect, not by a rejected or ignored message
                            (the roll-back in `receiveDecoded` / `receiveFragment` only ever restores "no version",
                            and only when the call started without one), not by a later query message or key
                            exchange offering another version.  An uncommitted conversation stays uncommitted or
                            commits to an allowed version.  So the only edges at API boundaries are
                            none → none, none → some v (v allowed), some v → some v; all three occur (examples in
                            Proofs.VersionInv §7, repeated below).
  `receive_acts_only_on_allowed_version_partial`  (3) uncommitted conversation, policy forbids the version `w` in
                            the header of an armoured non-fragment message (`?OTR:AA…`: DH-Commit, DH-Key,
                            Reveal-Sig, Signature, Data): the exact outcome is error `unsupportedVersion`, no
                            plaintext, to send only the injections already queued, NO event, and of the state only
                            the pending fragments (forgotten) and the injection queue (handed out) change
                            (`refusedState`).  "Partial": fragments are not covered (a fragment prefix commits an
                            allowed version before its payload is seen — see the caveat in Proofs.RejectFrame §7).
  `receive_wrong_version`   (3) committed conversation, header carries another version: `wrongVersion`, same outcome.
  `api_disabled`,           (5) policy allows no version: after ANY history every `Receive m` returns exactly `m`
  `api_disabled_step`       as plaintext, nothing to send, no error, state and log untouched; every `Send m`
                            returns `[m]`; such a step can be deleted from a history without changing its result.
  Emission (4), Proofs.VersionEmit: `HasVer v raw` — `raw` starts with the two-byte protocol-version field of `v`;
  `armour raw` = "?OTR:" ‖ base64(raw) ‖ "." with `decodeEnvelope (armour raw) = some raw`.
  `messageHeader_hasVer` / `wrapMessageHeader_hasVer`: a header is only ever built for the committed version and starts
  with its version field (version unchanged by the call).  `fragEncode_wire`: whatever `fragEncode raw` returns
  that starts with "?OTR:" is `armour raw` (fragment pieces start with "?OTR," / "?OTR|").
  `createSerializedDataMessage_wire`: every data message (Send, SMP calls, End, extra key, sendtlvs) —
  `send_encrypted_emits`: Send in the encrypted state, ALL states: every returned item is an injection that was
  queued, the error reply, or — if it starts with "?OTR:" — the armour of bytes starting with the version field of
  the version the conversation is and stays committed to.  `sendDHCommit_ver`, `receiveQueryMessage_emits`: the
  DH-Commit message answering a query message carries the version just committed.
  MISSING from (4): the replies of `processAKE` (DH-Key, Reveal-Sig, Signature, the stored Reveal-Sig that
  `recvDHKey` retransmits, retransmitted data messages) and hence `receive` as a whole.
-/

import Proofs.VersionInv
import Proofs.VersionEmit
namespace Otr.C16Api
open Otr

theorem apiCall_policies_const : type_of% @Otr.apiCall_policies_const := @Otr.apiCall_policies_const
theorem apiCall_version : type_of% @Otr.apiCall_version := @Otr.apiCall_version
theorem runApi_version : type_of% @Otr.runApi_version := @Otr.runApi_version
theorem versionAllowed_iff_versionOK : type_of% @Otr.versionAllowed_iff_versionOK := @Otr.versionAllowed_iff_versionOK
theorem runApi_version_allowed : type_of% @Otr.runApi_version_allowed := @Otr.runApi_version_allowed
theorem api_version_allowed : type_of% @Otr.api_version_allowed := @Otr.api_version_allowed
theorem runApi_version_sticky : type_of% @Otr.runApi_version_sticky := @Otr.runApi_version_sticky
theorem api_version_sticky : type_of% @Otr.api_version_sticky := @Otr.api_version_sticky
theorem receive_acts_only_on_allowed_version_partial :
    type_of% @Otr.receive_acts_only_on_allowed_version_partial := @Otr.receive_acts_only_on_allowed_version_partial
theorem receive_wrong_version : type_of% @Otr.receive_wrong_version := @Otr.receive_wrong_version
theorem api_disabled : type_of% @Otr.api_disabled := @Otr.api_disabled
theorem api_disabled_step : type_of% @Otr.api_disabled_step := @Otr.api_disabled_step

/-! ### (4) emission -/

theorem decodeEnvelope_armour : type_of% @Otr.decodeEnvelope_armour := @Otr.decodeEnvelope_armour
theorem messageHeader_hasVer : type_of% @Otr.messageHeader_hasVer := @Otr.messageHeader_hasVer
theorem wrapMessageHeader_hasVer : type_of% @Otr.wrapMessageHeader_hasVer := @Otr.wrapMessageHeader_hasVer
theorem fragEncode_wire : type_of% @Otr.fragEncode_wire := @Otr.fragEncode_wire
theorem createSerializedDataMessage_wire : type_of% @Otr.createSerializedDataMessage_wire :=
  @Otr.createSerializedDataMessage_wire
theorem send_encrypted_emits : type_of% @Otr.send_encrypted_emits := @Otr.send_encrypted_emits
theorem sendDHCommit_ver : type_of% @Otr.sendDHCommit_ver := @Otr.sendDHCommit_ver
/-- the part of `emitted_messages_version` that is proved for `receive`: the answer to a query message -/
theorem emitted_messages_version_partial : type_of% @Otr.receiveQueryMessage_emits := @Otr.receiveQueryMessage_emits

/-! ### non-vacuity -/

/-- hypothesis of (1): a fresh conversation without a version, and one preset to an allowed version -/
example : VersionAllowed vFresh23 ∧ VersionAllowed { vFresh2 with version := some .v2 } :=
  ⟨fun v hv => (by cases hv), fun v hv => (by cases hv; decide)⟩
/-- … which a forbidden preset violates -/
example : ¬ VersionAllowed { vFresh2 with version := some .v3 } := fun h => by
  have := h .v3 rfl
  revert this; decide

/-- the three edges of the rule (2): none → v3 on a query message; v3 stays through `End` and a v2-only query;
    none stays none when a v3 message reaches a v2-only conversation -/
example : resCheck (runApi vCrypto vFresh23 [vQuery23]) (fun c => c.version == some .v3) = true := by
  decide +kernel
example : resCheck (runApi vCrypto vFresh23 [vQuery23, ⟨.endSession, {}⟩, ⟨.receive (strBytes "?OTRv2?"), vEnv⟩])
    (fun c => c.version == some .v3) = true := by
  decide +kernel
example : resCheck (runApi vCrypto vFresh2 [⟨.receive vCommitV3, vEnv⟩]) (fun c => c.version == none) = true := by
  decide +kernel

/-- (3): the v3 DH-Commit `?OTR:AAMC.` and a conversation that allows OTRv2 only satisfy every hypothesis -/
example : runM (receive vCrypto vCommitV3) ⟨vFresh2, vEnv, [], []⟩ =
    .ok (.ok ⟨none, [], some .unsupportedVersion⟩, refusedState ⟨vFresh2, vEnv, [], []⟩) :=
  receive_acts_only_on_allowed_version_partial vCrypto vCommitV3 0 3 [2] ⟨vFresh2, vEnv, [], []⟩
    (by decide) (by decide) (by decide +kernel) rfl (by decide) (by decide)

/-- (4): `Send` from an encrypted OTRv2 conversation returns one "?OTR:" item that decodes to bytes starting
    0x00 0x02, the version staying v2 (hypotheses of `send_encrypted_emits`) -/
example : isOTREnabled vEncrypted.conv.policies = true ∧ vEncrypted.conv.msgState = .encrypted := by decide
example : (match runM (send vCrypto [104, 105]) vEncrypted with
    | .ok (.ok ([y], none), s') =>
      hasPrefix y msgMarker && ((decodeEnvelope y).map (·.take 2) == some (be16 2)) && (s'.conv.version == some .v2)
    | _ => false) = true := by
  decide +kernel

/-- (5): policies without ALLOW_V2 and ALLOW_V3 -/
example : isOTREnabled 0 = false ∧ isOTREnabled (requireEncryption + sendWhitespaceTag) = false := by decide

end Otr.C16Api

