/-
  Props.C19Two — the reveal queue of MAC keys is bounded by a CONSTANT in a two-party session.

  Props.C19 bounds the queue `oldMACKeys` per party by "3 keys per message accepted since the last
  send"; that a session-wide constant exists was listed as an assumption (a two-party fact). This
  module proves it, in the two-party system of Proofs.Ratchet / Props.C04: two key-management
  contexts (the model functions of Otr.Keys) and two reliable FIFO queues of in-flight data messages;
  steps sendA, sendB, deliverAB, deliverBA in ANY order, any number of messages in flight, any number
  of consecutive deliveries without a send in between, any number of key rotations; start state
  `Sys2.init a1 a2 b1 b2` = the state right after the key exchange.

  ASSUMED by every theorem below (nothing else): the four DH pairs of the key exchange are
  well-formed (`DhPair.ok K p`: `p.pub = g ^ p.priv` in the crypto record `K`) — the hypotheses of the
  ratchet invariant `inv_reachable` of C04; and the state `s` is reachable (`Reach`), i.e. both
  parties are honest and the channel is FIFO and loss-free. `K` is arbitrary.

  `c19_two_party_reveal_bound`: in EVERY reachable state the reveal queue of A and the reveal queue of
      B hold at most 3 keys.
  `c19_two_party_outgoing_bound`: so the `oldMACKeys` field of a data message sent from any reachable
      state (`Keys.revealedBySend`, the first component of the `revealMACKeys` call inside
      `genDataMsgWithFlag`; `afterSend_eq_reveal`, `revealedBySend_eq`) carries at most 3 keys and the
      queue is empty afterwards: no outgoing message grows with the length of the preceding history.
  `c19_two_party_step_le2`: a single step (one accepted message) adds at most 2 keys to either queue
      (one-party bound `c19_recv_le3`: 3).
  `c19_two_party_flags`: the reason, as a statement: there are flags ro / rt per party ("has rotated
      its own / the peer's key since its last send") such that the queue holds at most
      `revBnd ro rt = 2·ro + rt` keys; every MAC-history entry lies under the party's PREVIOUS own key
      (`Keys.HistPrev`); and once a flag is set, no message in flight to the party rotates that key
      again (`m.r ≠ ourKeyID` resp. `m.s ≠ theirKeyID` for every message in the incoming queue) — the
      peer acknowledges a key only after it received a message sent under it, and moves on to a new
      key only after it saw its latest key acknowledged, and we do both only by sending.
  `rinv_init`, `rinv_step`, `rinv_reachable`: the strengthened invariant `RInv` (per party `Side`:
      `WF`, the two "no second rotation" facts phrased over key ids of the peer and of the in-flight
      messages, `HistPrev`, and the bound) holds initially and is preserved by every `Step2` from a
      state that satisfies the ratchet invariant `Inv`.
  `disclosedBy_length_le`: the counting lemma — with `WF` and `HistPrev`, accepting `(r, s)` reveals
      at most 2 keys if it rotates our key, at most 1 if it rotates only their key, else none.
  `c19_bound_attained` (with `sched3_result`, `runSched_reach`): the constant is the LEAST one — the
      10-step schedule `sched3` (evaluated by the kernel with the constant crypto; its AKE pairs satisfy
      the assumptions, see the `example`s) reaches a state where A's queue holds exactly 3 keys:
      A had used the pairs (o-1,t-1), (o-1,t); a message rotates A's key (2 keys revealed) and records
      (o,t-1); a later message under B's newer key rotates B's key at A (1 more), with no send of A
      in between.
-/

import Proofs.RevealBound
namespace Otr.C19Two
open Otr

/-- C19, two parties: every reachable state, both queues hold at most 3 keys -/
theorem c19_two_party_reveal_bound {K} {a1 a2 b1 b2 : DhPair} (ha1 : a1.ok K) (ha2 : a2.ok K)
    (hb1 : b1.ok K) (hb2 : b2.ok K) {s : Sys2} (h : Reach K (Sys2.init a1 a2 b1 b2) s) :
    s.a.oldMACKeys.length ≤ 3 ∧ s.b.oldMACKeys.length ≤ 3 :=
  Otr.c19_two_party_reveal_bound ha1 ha2 hb1 hb2 h

/-- C19, outgoing messages: a data message sent from a reachable state reveals at most 3 keys -/
theorem c19_two_party_outgoing_bound {K} {a1 a2 b1 b2 : DhPair} (ha1 : a1.ok K) (ha2 : a2.ok K)
    (hb1 : b1.ok K) (hb2 : b2.ok K) {s : Sys2} (h : Reach K (Sys2.init a1 a2 b1 b2) s) :
    ((s.a.revealedBySend K).length ≤ 3 ∧ (s.a.afterSend K).oldMACKeys = []) ∧
    ((s.b.revealedBySend K).length ≤ 3 ∧ (s.b.afterSend K).oldMACKeys = []) :=
  Otr.c19_two_party_outgoing_bound ha1 ha2 hb1 hb2 h

/-- what `revealedBySend` is: the other component of the `revealMACKeys` call that gives `afterSend`,
    i.e. the whole queue -/
theorem afterSend_eq_reveal : type_of% @Otr.afterSend_eq_reveal := @Otr.afterSend_eq_reveal
theorem revealedBySend_eq : type_of% @Otr.revealedBySend_eq := @Otr.revealedBySend_eq

/-- C19, one step: a step from a reachable state adds at most 2 keys to either queue -/
theorem c19_two_party_step_le2 {K} {a1 a2 b1 b2 : DhPair} (ha1 : a1.ok K) (ha2 : a2.ok K)
    (hb1 : b1.ok K) (hb2 : b2.ok K) {s s' : Sys2} (h : Reach K (Sys2.init a1 a2 b1 b2) s)
    (hs : Step2 K s s') :
    s'.a.oldMACKeys.length ≤ s.a.oldMACKeys.length + 2 ∧
    s'.b.oldMACKeys.length ≤ s.b.oldMACKeys.length + 2 :=
  Otr.c19_two_party_step_le2 ha1 ha2 hb1 hb2 h hs

/-- the refined bound with the rotation flags -/
theorem c19_two_party_flags : type_of% @Otr.c19_two_party_flags := @Otr.c19_two_party_flags

theorem revBnd_le : type_of% @Otr.revBnd_le := @Otr.revBnd_le

/-- the strengthened invariant: initially, inductive, after every schedule -/
theorem rinv_init : type_of% @Otr.rinv_init := @Otr.rinv_init

theorem rinv_step {K ra rb s s'} (hi : Inv K ra rb s) (h : RInv s) (hs : Step2 K s s') : RInv s' :=
  Otr.rinv_step hi h hs

theorem rinv_reachable : type_of% @Otr.rinv_reachable := @Otr.rinv_reachable

/-- the counting lemma behind the constant -/
theorem disclosedBy_length_le {K} {k : Keys} (hwf : WF k) (hho : k.HistPrev) {r s : Nat}
    (hw : InWin k.ourKeyID k.theirKeyID r s) :
    (k.disclosedBy K r s).length ≤
      if r = k.ourKeyID then 2 else if s = k.theirKeyID then 1 else 0 :=
  Otr.disclosedBy_length_le hwf hho hw

/-- the simulator's runs are schedules of `Step2` -/
theorem runSched_reach : type_of% @Otr.runSched_reach := @Otr.runSched_reach

/-- TEST: the schedule `sched3` ends with 3 keys in A's queue -/
theorem sched3_result : type_of% @Otr.sched3_result := @Otr.sched3_result

/-- the constant 3 is attained in a reachable state: it is the least constant -/
theorem c19_bound_attained :
    ∃ s, Reach Crypto.dummy (Sys2.init ⟨1, [1]⟩ ⟨1, [2]⟩ ⟨1, [3]⟩ ⟨1, [4]⟩) s ∧
      s.a.oldMACKeys.length = 3 :=
  Otr.c19_bound_attained

/-! ## Non-vacuity -/

/-- the assumptions about the AKE pairs hold for the pairs of `c19_bound_attained` -/
example : (⟨1, [1]⟩ : DhPair).ok Crypto.dummy ∧ (⟨1, [2]⟩ : DhPair).ok Crypto.dummy ∧
    (⟨1, [3]⟩ : DhPair).ok Crypto.dummy ∧ (⟨1, [4]⟩ : DhPair).ok Crypto.dummy := ⟨rfl, rfl, rfl, rfl⟩

/-- so the bound applies to a state that attains it: non-trivially reachable (10 steps, both ratchets
    advanced), queue length exactly 3 and, by the theorem, at most 3 -/
example : ∃ s, Reach Crypto.dummy (Sys2.init ⟨1, [1]⟩ ⟨1, [2]⟩ ⟨1, [3]⟩ ⟨1, [4]⟩) s ∧
    s.a.oldMACKeys.length = 3 ∧ (s.a.oldMACKeys.length ≤ 3 ∧ s.b.oldMACKeys.length ≤ 3) := by
  obtain ⟨s, hr, h3⟩ := c19_bound_attained
  exact ⟨s, hr, h3, c19_two_party_reveal_bound (K := Crypto.dummy) (a1 := ⟨1, [1]⟩) (a2 := ⟨1, [2]⟩)
    (b1 := ⟨1, [3]⟩) (b2 := ⟨1, [4]⟩) rfl rfl rfl rfl hr⟩

/-- `c19_two_party_step_le2`: a step is enabled in every reachable state (A can always send) -/
example {K} {a1 a2 b1 b2 : DhPair} (ha1 : a1.ok K) (ha2 : a2.ok K) (hb1 : b1.ok K) (hb2 : b2.ok K)
    {s : Sys2} (h : Reach K (Sys2.init a1 a2 b1 b2) s) : ∃ s', Step2 K s s' := by
  obtain ⟨ra, rb, hinv⟩ := inv_reachable ha1 ha2 hb1 hb2 h
  exact ⟨_, (c04_send_step_enabled hinv 0).1⟩

/-- `disclosedBy_length_le` / `rinv_step`: the hypotheses `WF`, `HistPrev`, `InWin` hold together in
    the state after the key exchange (and `RInv` there is `rinv_init`) -/
example : WF (Keys.postAKE ⟨1, [2]⟩ ⟨1, [1]⟩ 1) ∧ (Keys.postAKE ⟨1, [2]⟩ ⟨1, [1]⟩ 1).HistPrev ∧
    InWin (Keys.postAKE ⟨1, [2]⟩ ⟨1, [1]⟩ 1).ourKeyID (Keys.postAKE ⟨1, [2]⟩ ⟨1, [1]⟩ 1).theirKeyID 2 1 :=
  ⟨wf_postAKE _ _ _, (fun _ hu => nomatch hu), by decide⟩

end Otr.C19Two
