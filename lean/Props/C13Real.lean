/-
  Props.C13Real — property C13 (no crash on untrusted input) for the EXECUTABLE cryptography `Crypto.real`:
  the hypothesis `CryptoOK K` of the panic-freedom theorem `api_sequence_no_panic_fresh` is closed for the
  SHA-1 / SHA-256 / HMAC / modular arithmetic of Otr/CryptoReal (the code the compiled driver runs and which is
  compared differentially with Go's crypto).  Proofs: Proofs/ShaLength.lean, Proofs/CryptoRealOK.lean.

  What each theorem claims, in plain words.

  Output lengths — no hypothesis at all, every input (any length, also empty, also keys longer than a block):
    `sha256_length`, `sha1_length`       the SHA-256 digest has 32 bytes, the SHA-1 digest 20 bytes.  Reason: a
                                          compression step ends in an array of 8 (5) words whatever its rounds
                                          computed (`sha256Block_size`, `sha1Block_size`); the block loop is a fold
                                          of that step (`sha256Words_eq`), the digest is 4 bytes per word.  Nothing
                                          is claimed about the VALUE of the digest.
    `hmacSha256_length`, `hmacSha1_length`   HMAC has the length of its hash: 32 / 20 bytes.
    `Crypto_real_hash1_length` … `Crypto_real_mac2_length`   the same for the four fields of `Crypto.real`.
    `Crypto_real_mac2_len`               at least 20 bytes of MAC: the field `mac2_len` of `CryptoOK`
                                          (`macSig[:20]` in revealSig.serialize / sig.serialize cannot be out of range).

  Group arithmetic — hypothesis `Nat.Prime dhP` (p = the 1536-bit modulus of RFC 3526 group 5; stated, not
  checked: no primality certificate is verified here, exactly as in Props.C11 / Props.C12):
    `Crypto_real_groupOK`                ModInverse (the executable extended Euclid) succeeds on every number that is
                                          not a multiple of p; powers (executable square-and-multiply mod p) and
                                          products of non-multiples of p are non-multiples; 2 is not a multiple.
    `Crypto_real_cryptoOK`               both parts: `CryptoOK Crypto.real`.

  The corollaries — hypothesis `Nat.Prime dhP` only:
    `api_sequence_no_panic_real`         from every freshly created conversation (any preset version or none, any
                                          policies, any list of long-term keys incl. empty, any fragment size, error
                                          handler, query text, instance tag), every finite sequence of API calls
                                          (Receive of arbitrary bytes, Send, End, the SMP calls, extra key, raw TLV
                                          send, SetFragmentSize), each with arbitrary arguments, arbitrary randomness
                                          tape (reads may fail or be short), arbitrary signing-oracle answers and
                                          clock, computed with the executable cryptography, ends in a conversation
                                          (`.ok c'`, i.e. no panic site of the model was reached) that satisfies the
                                          invariant `Inv` again.
    `api_sequence_no_panic_real_from`    the same from any conversation that satisfies `Inv`.
    `apiCall_inv_real`                   one call: no panic, `Inv` afterwards whether it returned or threw.

  Output-length hypotheses of C10 theorems (Proofs/Spec.lean), discharged — no hypothesis:
    `calculateAKEKeys_spec_real`         the AKE keys the library derives are the protocol document's ssid,
                                          (c, m1, m2), (c', m1', m2') (needed: SHA-256 output = 32 bytes, so that
                                          "everything after the first 16 bytes" is "the second 128 bits").
    `revealSig_serialize_spec_real`, `sig_serialize_spec_real`   the serialised Reveal-Signature / Signature bodies
                                          are the document's (needed: ≥ 20 bytes of HMAC-SHA256).

  Not claimed: that `Crypto.real` computes SHA/HMAC/AES correctly (validated by vectors and differential runs only),
  nor that dhP is prime.
-/

import Proofs.CryptoRealOK
namespace Otr.C13Real
open Otr

theorem sha256Block_size : type_of% @Otr.CryptoReal.sha256Block_size := @Otr.CryptoReal.sha256Block_size

theorem sha1Block_size : type_of% @Otr.CryptoReal.sha1Block_size := @Otr.CryptoReal.sha1Block_size

theorem sha256Words_eq : type_of% @Otr.CryptoReal.sha256Words_eq := @Otr.CryptoReal.sha256Words_eq

theorem sha256_length : type_of% @Otr.CryptoReal.sha256_length := @Otr.CryptoReal.sha256_length

theorem sha1_length : type_of% @Otr.CryptoReal.sha1_length := @Otr.CryptoReal.sha1_length

theorem hmacSha256_length : type_of% @Otr.CryptoReal.hmacSha256_length := @Otr.CryptoReal.hmacSha256_length

theorem hmacSha1_length : type_of% @Otr.CryptoReal.hmacSha1_length := @Otr.CryptoReal.hmacSha1_length

theorem Crypto_real_hash1_length : type_of% @Otr.Crypto.real_hash1_length := @Otr.Crypto.real_hash1_length

theorem Crypto_real_hash2_length : type_of% @Otr.Crypto.real_hash2_length := @Otr.Crypto.real_hash2_length

theorem Crypto_real_mac1_length : type_of% @Otr.Crypto.real_mac1_length := @Otr.Crypto.real_mac1_length

theorem Crypto_real_mac2_length : type_of% @Otr.Crypto.real_mac2_length := @Otr.Crypto.real_mac2_length

theorem Crypto_real_mac2_len : type_of% @Otr.Crypto.real_mac2_len := @Otr.Crypto.real_mac2_len

theorem Crypto_real_groupOK : type_of% @Otr.Crypto.real_groupOK := @Otr.Crypto.real_groupOK

theorem Crypto_real_cryptoOK : type_of% @Otr.Crypto.real_cryptoOK := @Otr.Crypto.real_cryptoOK

theorem api_sequence_no_panic_real : type_of% @Otr.api_sequence_no_panic_real := @Otr.api_sequence_no_panic_real

theorem api_sequence_no_panic_real_from : type_of% @Otr.api_sequence_no_panic_real_from :=
  @Otr.api_sequence_no_panic_real_from

theorem apiCall_inv_real : type_of% @Otr.apiCall_inv_real := @Otr.apiCall_inv_real

theorem calculateAKEKeys_spec_real : type_of% @Otr.calculateAKEKeys_spec_real := @Otr.calculateAKEKeys_spec_real

theorem revealSig_serialize_spec_real : type_of% @Otr.revealSig_serialize_spec_real :=
  @Otr.revealSig_serialize_spec_real

theorem sig_serialize_spec_real : type_of% @Otr.sig_serialize_spec_real := @Otr.sig_serialize_spec_real

end Otr.C13Real
