/-
  Props.C18 — session lifecycle, security events and retransmission discipline.

  The message state is written by exactly three functions (fact `writers_msgState`, regenerated from
  /repo on every run; the model has the same three writers). Their exact effects:
  `akeHasFinished_run`: state becomes encrypted and exactly one security event is raised —
  GoneSecure if it was not encrypted, StillSecure if it was; `endSession_spec`: state becomes
  plaintext, GoneInsecure iff it was encrypted, nothing is sent and no event raised otherwise;
  `processDisconnectedTLV_run` (peer's disconnect, reached only through an authenticated data
  message: Proofs.ConvData): state becomes finished, GoneInsecure iff it was encrypted, SMP state and
  all keys dropped except (repaired code) the MAC keys still to be revealed. `send_finished`: in the finished state Send returns an error and emits nothing
  derived from the text; `send_requireEncryption`: under required encryption Send emits exactly the
  query message and queues the text (in order); `send_plain`: otherwise the text goes out per the
  plaintext policy. Retransmission (at most once, queued texts once in order, last message once with
  the resent marker) is decided by the Go oracle of the `lifecycle` profile over whole histories plus
  the correspondence of the resend bookkeeping (snapshot field rs=… compared op by op).
  Repaired code: `endSession_notEncrypted` / `endSession_encrypted_run` (exact): End also wipes the SMP
  context in every message state and forgets the resend state unless it holds texts still waiting
  for a session to start (`mayRetransmit = .exact`) — `endSession_forgets`,
  `endSession_resend_state`: the last text of a session that ended is never resent later.
  `retransmitAfterCompletedExchange_skip(_run)`: the retransmission step of `processAKE` is
  `pure []` unless the message completed an exchange (state before ≠ none, after = none, no
  error); `processAKE_pending_kept`: a rejected AKE message, and every AKE message outside the two
  finishing combinations, leaves queue, mode and flag of the resend state exactly as they were.
  Whole API calls (Proofs.Events; no invariant needed, only that the call does not panic, which C13
  guarantees): `apiCall_kind`: every function reachable from an API call was walked through — a
  receive is quiet (message state, its stamp `lastMessageStateChange` and the clock unchanged, no
  security event among the new log entries) up to one peer disconnect out of the encrypted state, or
  contains exactly one `akeHasFinished`; End ends; send, the SMP calls, the extra key, `sendTlvs`
  and `setFragmentSize` are quiet.  `apiCall_security_events`: the log only grows and the security
  events among the new entries are `secEventsOf before after completed` — [GoneSecure] iff not
  encrypted → encrypted, [StillSecure] iff encrypted → encrypted with a completed exchange,
  [GoneInsecure] iff encrypted → not encrypted, [] otherwise, never two in one call
  (`secEventsOf_cases`); `completed` implies receive, encrypted and the stamp of the clock of this
  call, its absence implies an encrypted state was encrypted before with the same stamp
  (`apiCall_security_events_fresh_clock`: with a clock that has moved, completed ⇔ encrypted and
  stamped now).  `apiCall_msgState_edges`: unchanged, or not-encrypted → encrypted (receive),
  encrypted → finished (receive), anything → plaintext (End).  `api_sequence_events_balance(_from)`:
  over every non-panicking sequence of calls #GoneSecure = #GoneInsecure + [encrypted at the end]
  from a conversation that is not encrypted (`runApiEvents`: the per-call logs of `runApi`
  concatenated).
  Continued in Props.C18Api (separate module, cf. Props.C19Api): the same from the invariant `Inv` and
  from a fresh conversation, where C13 discharges the no-panic hypothesis
  (`apiCall_security_events_inv`, `api_sequence_events_balance_fresh`).
  Repaired code (c2434f4): `receive_disconnect_despite_rotation_failure` / `tail_disconnect` (Proofs.ConvData): once a
  data message is authentic and accepted, its disconnected TLV (no SMP TLV before it) ends the conversation
  (`finished`) even when the key rotation it asks for fails for lack of randomness and the call returns that error;
  assumed: `rotatesOur`, `randRead 40` returns `none`; form: `processDataMessageTail`.
-/

import Proofs.ConvLife
import Proofs.Fixes2
import Proofs.Events
namespace Otr.C18
open Otr

theorem akeHasFinished_run (K : Crypto) (s : MState) (a : Ake) (ha : s.conv.ake = some a) :
    ∃ r env' mm', EnvStep s.env env' ∧
      runM (akeHasFinished K) s = .ok (.ok (a.keys.generateNewDHKeyPair K r).2,
        { conv := { s.conv with
                      keys := ({ a.keys with oldMACKeys := a.keys.oldMACKeys ++
                        (s.conv.keys.oldMACKeys ++ s.conv.keys.macHistory.map (fun u : MacUse => u.key)) }.generateNewDHKeyPair K r).1
                      ssid := if s.conv.msgState = .encrypted then a.ssid else s.conv.ssid
                      sentRevealSig := if s.conv.msgState = .encrypted then a.sentRevealSig else s.conv.sentRevealSig
                      ake := some a.wiped
                      lastMessageStateChange := some s.env.now
                      msgState := .encrypted }
          env := env'
          events := s.events ++ [if s.conv.msgState = .encrypted then "sec:2" else "sec:1"]
          mismatch := mm' }) := by
  first | exact Otr.akeHasFinished_run | exact @Otr.akeHasFinished_run | (apply Otr.akeHasFinished_run <;> assumption) | (intros; apply Otr.akeHasFinished_run <;> assumption)

theorem akeHasFinished_spec (K : Crypto) (s : MState) (r : Except Err (Option Err)) (s' : MState)
    (hr : runM (akeHasFinished K) s = .ok (r, s')) :
    (∃ e, r = .ok e) ∧ s'.conv.msgState = .encrypted ∧ s'.conv.lastMessageStateChange = some s.env.now ∧
    (s.conv.msgState ≠ .encrypted → s'.events = s.events ++ ["sec:1"]) ∧
    (s.conv.msgState = .encrypted → s'.events = s.events ++ ["sec:2"]) := by
  first | exact Otr.akeHasFinished_spec | exact @Otr.akeHasFinished_spec | (apply Otr.akeHasFinished_spec <;> assumption) | (intros; apply Otr.akeHasFinished_spec <;> assumption)

theorem akeHasFinished_panic_iff (K : Crypto) (s : MState) :
    (∃ p, runM (akeHasFinished K) s = .panic p) ↔ s.conv.ake = none := by
  first | exact Otr.akeHasFinished_panic_iff | exact @Otr.akeHasFinished_panic_iff | (apply Otr.akeHasFinished_panic_iff <;> assumption) | (intros; apply Otr.akeHasFinished_panic_iff <;> assumption)

theorem endSession_notEncrypted (K : Crypto) (s : MState) (h : s.conv.msgState ≠ .encrypted) :
    runM (endSession K) s = .ok (.ok ([], none),
      { s with conv := { s.conv with
          smp := {}
          resendMsgs := if s.conv.mayRetransmit = .exact then s.conv.resendMsgs else []
          mayRetransmit := if s.conv.mayRetransmit = .exact then .exact else .no
          lastMessageStateChange := none, ake := none, msgState := .plainText
          keys := { s.conv.keys with ourCur := none, ourPrev := none,
                                     theirCur := s.conv.keys.theirCur.map (fun _ => 0) } } }) := by
  first | exact Otr.endSession_notEncrypted | exact @Otr.endSession_notEncrypted | (apply Otr.endSession_notEncrypted <;> assumption) | (intros; apply Otr.endSession_notEncrypted <;> assumption)

theorem endSession_encrypted (K : Crypto) (s : MState) (h : s.conv.msgState = .encrypted)
    (r : Except Err (List Bytes × Option Err)) (s' : MState) (hr : runM (endSession K) s = .ok (r, s')) :
    (∃ toSend err, r = .ok (toSend, err)) ∧
    s'.conv.msgState = .plainText ∧ s'.conv.ake = none ∧ s'.conv.lastMessageStateChange = none ∧
    s'.conv.keys.ourCur = none ∧ s'.conv.keys.ourPrev = none ∧ s'.conv.smp = {} ∧
    s'.events = s.events ++ ["sec:0"] ∧
    s'.conv.version = s.conv.version ∧ s'.conv.policies = s.conv.policies ∧ s'.conv.wsState = s.conv.wsState ∧
    s'.conv.theirTag = s.conv.theirTag ∧ s'.conv.theirKey = s.conv.theirKey ∧ s'.conv.ssid = s.conv.ssid ∧
    s'.conv.injections = s.conv.injections ∧ s'.conv.fragCtx = s.conv.fragCtx := by
  first | exact Otr.endSession_encrypted | exact @Otr.endSession_encrypted | (apply Otr.endSession_encrypted <;> assumption) | (intros; apply Otr.endSession_encrypted <;> assumption)

theorem endSession_spec (K : Crypto) (s : MState)
    (r : Except Err (List Bytes × Option Err)) (s' : MState) (hr : runM (endSession K) s = .ok (r, s')) :
    (∃ toSend err, r = .ok (toSend, err)) ∧
    s'.conv.msgState = .plainText ∧ s'.conv.ake = none ∧ s'.conv.lastMessageStateChange = none ∧
    s'.conv.keys.ourCur = none ∧ s'.conv.keys.ourPrev = none ∧
    ∃ evs, s'.events = s.events ++ evs ∧ ("sec:0" ∈ evs ↔ s.conv.msgState = .encrypted) ∧
      "sec:1" ∉ evs ∧ "sec:2" ∉ evs ∧
      (s.conv.msgState ≠ .encrypted → evs = [] ∧ r = .ok ([], none)) := by
  first | exact Otr.endSession_spec | exact @Otr.endSession_spec | (apply Otr.endSession_spec <;> assumption) | (intros; apply Otr.endSession_spec <;> assumption)

theorem processDisconnectedTLV_run (s : MState) :
    runM processDisconnectedTLV s = .ok (.ok (),
      { s with
        conv := { s.conv with lastMessageStateChange := none, msgState := .finished, smp := {}, ake := none,
                              keys := { oldMACKeys := s.conv.keys.oldMACKeys ++ s.conv.keys.macHistory.map (·.key) } }
        events := s.events ++ (if s.conv.msgState = .encrypted then ["sec:0"] else []) }) := by
  first | exact Otr.processDisconnectedTLV_run | exact @Otr.processDisconnectedTLV_run | (apply Otr.processDisconnectedTLV_run <;> assumption) | (intros; apply Otr.processDisconnectedTLV_run <;> assumption)

theorem send_finished (K : Crypto) (m : Bytes) (s : MState)
    (hp : isOTREnabled s.conv.policies = true) (h : s.conv.msgState = .finished) :
    runM (send K m) s = .ok (.ok (s.conv.injections, some errFinished),
      { s with conv := { s.conv with injections := [] }, events := s.events ++ ["msg:2"] }) := by
  first | exact Otr.send_finished | exact @Otr.send_finished | (apply Otr.send_finished <;> assumption) | (intros; apply Otr.send_finished <;> assumption)

theorem send_requireEncryption (K : Crypto) (m : Bytes) (s : MState)
    (hp : isOTREnabled s.conv.policies = true) (h : s.conv.msgState = .plainText)
    (hr : polHas s.conv.policies requireEncryption = true) (hrt : s.conv.retransmitting = false) :
    runM (send K m) s = .ok (.ok (queryMessage s.conv.policies s.conv.friendlyQuery :: s.conv.injections, none),
      { s with
        conv := { s.conv with
          heartbeatLastSent := some s.env.now
          resendMsgs := (if s.conv.mayRetransmit = .exact then s.conv.resendMsgs else []) ++ [m]
          mayRetransmit := .exact
          injections := [] }
        events := s.events ++ ["msg:0"] }) := by
  first | exact Otr.send_requireEncryption | exact @Otr.send_requireEncryption | (apply Otr.send_requireEncryption <;> assumption) | (intros; apply Otr.send_requireEncryption <;> assumption)

theorem send_plain (K : Crypto) (m : Bytes) (s : MState)
    (hp : isOTREnabled s.conv.policies = true) (h : s.conv.msgState = .plainText)
    (hr : polHas s.conv.policies requireEncryption = false) :
    runM (send K m) s = .ok (.ok
      ((m ++ if tagging s.conv then genWhitespaceTag s.conv.policies else []) :: s.conv.injections, none),
      { s with conv := { s.conv with
          wsState := if tagging s.conv then .sent else s.conv.wsState
          injections := [] } }) := by
  first | exact Otr.send_plain | exact @Otr.send_plain | (apply Otr.send_plain <;> assumption) | (intros; apply Otr.send_plain <;> assumption)

/-- repaired code, exact decomposition of End from an encrypted state: SMP wiped, disconnect message attempted, then `endedConv` -/
theorem endSession_encrypted_run (K : Crypto) (s : MState) (h : s.conv.msgState = .encrypted) :
    runM (endSession K) s =
      match runM (createSerializedDataMessage K [] messageFlagIgnoreUnreadable
          [{ typ := tlvTypeDisconnected, len := 0, value := [] }]) { s with conv := { s.conv with smp := {} } } with
      | .panic p => .panic p
      | .ok (v, s2) =>
        .ok (.ok (match v with
                  | .ok (ms, _) => (ms, none)
                  | .error e => ([], some e)),
          { s2 with conv := endedConv s2.conv, events := s2.events ++ ["sec:0"] }) := by
  first | exact Otr.endSession_encrypted_run | exact @Otr.endSession_encrypted_run | (apply Otr.endSession_encrypted_run <;> assumption) | (intros; apply Otr.endSession_encrypted_run <;> assumption)

/-- repaired code: after End (any state, any outcome) the SMP context is the zero value and the resend state is empty unless in the `.exact` branch -/
theorem endSession_forgets (K : Crypto) (s : MState)
    (r : Except Err (List Bytes × Option Err)) (s' : MState) (hr : runM (endSession K) s = .ok (r, s')) :
    s'.conv.smp = {} ∧
    (s'.conv.mayRetransmit = .exact ∨ (s'.conv.mayRetransmit = .no ∧ s'.conv.resendMsgs = [])) := by
  first | exact Otr.endSession_forgets | exact @Otr.endSession_forgets | (apply Otr.endSession_forgets <;> assumption) | (intros; apply Otr.endSession_forgets <;> assumption)

/-- repaired code: what End does to the resend state, in terms of the state before the call -/
theorem endSession_resend_state (K : Crypto) (s : MState)
    (r : Except Err (List Bytes × Option Err)) (s' : MState) (hr : runM (endSession K) s = .ok (r, s')) :
    (s.conv.mayRetransmit ≠ .exact → s'.conv.resendMsgs = [] ∧ s'.conv.mayRetransmit = .no) ∧
    (s.conv.msgState = .encrypted → (∃ toSend, r = .ok (toSend, none)) →
      s'.conv.resendMsgs = [] ∧ s'.conv.mayRetransmit = .no) ∧
    (s.conv.msgState ≠ .encrypted → s.conv.mayRetransmit = .exact →
      s'.conv.resendMsgs = s.conv.resendMsgs ∧ s'.conv.mayRetransmit = .exact) := by
  first | exact Otr.endSession_resend_state | exact @Otr.endSession_resend_state | (apply Otr.endSession_resend_state <;> assumption) | (intros; apply Otr.endSession_resend_state <;> assumption)

/-- repaired code: no retransmission unless the message completed an exchange (the step is `pure []`) -/
theorem retransmitAfterCompletedExchange_skip (K : Crypto) (before after : AuthState) (e : Option Err)
    (h : before = .none ∨ after ≠ .none ∨ e ≠ none) :
    retransmitAfterCompletedExchange K before after e = pure [] := by
  first | exact Otr.retransmitAfterCompletedExchange_skip | exact @Otr.retransmitAfterCompletedExchange_skip | (apply Otr.retransmitAfterCompletedExchange_skip <;> assumption) | (intros; apply Otr.retransmitAfterCompletedExchange_skip <;> assumption)

/-- the same as a run: result `[]`, state untouched -/
theorem retransmitAfterCompletedExchange_skip_run (K : Crypto) (before after : AuthState) (e : Option Err)
    (h : before = .none ∨ after ≠ .none ∨ e ≠ none) (s : MState) :
    runM (retransmitAfterCompletedExchange K before after e) s = .ok (.ok [], s) := by
  first | exact Otr.retransmitAfterCompletedExchange_skip_run | exact @Otr.retransmitAfterCompletedExchange_skip_run | (apply Otr.retransmitAfterCompletedExchange_skip_run <;> assumption) | (intros; apply Otr.retransmitAfterCompletedExchange_skip_run <;> assumption)

/-- the completed case is `retransmitOrReveal`: retransmit, else reveal carried MAC keys -/
theorem retransmitAfterCompletedExchange_completed (K : Crypto) (before : AuthState) (h : before ≠ .none) :
    retransmitAfterCompletedExchange K before .none none = retransmitOrReveal K := by
  first | exact Otr.retransmitAfterCompletedExchange_completed | exact @Otr.retransmitAfterCompletedExchange_completed | (apply Otr.retransmitAfterCompletedExchange_completed <;> assumption) | (intros; apply Otr.retransmitAfterCompletedExchange_completed <;> assumption)

/-- repaired code: a rejected AKE message, or one outside the two finishing combinations, consumes nothing of what waits for retransmission -/
theorem processAKE_pending_kept (K : Crypto) (t : Nat) (msg : Bytes) (s : MState)
    (r : Except Err (List Bytes × Option Err)) (s' : MState)
    (h : runM (processAKE K t msg) s = .ok (r, s'))
    (hc : (∃ msgs e, r = .ok (msgs, some e)) ∨ ¬ finishingCombination t (authStateOf s.conv)) :
    s'.conv.resendMsgs = s.conv.resendMsgs ∧ s'.conv.mayRetransmit = s.conv.mayRetransmit ∧
    s'.conv.retransmitting = s.conv.retransmitting := by
  first | exact Otr.processAKE_pending_kept | exact @Otr.processAKE_pending_kept | (apply Otr.processAKE_pending_kept <;> assumption) | (intros; apply Otr.processAKE_pending_kept <;> assumption)

/-- every non-panicking API call (any arguments, tapes, clock, start state) appends exactly the security events of its message-state transition: [GoneSecure] iff not encrypted → encrypted, [StillSecure] iff encrypted → encrypted with a completed exchange, [GoneInsecure] iff encrypted → not encrypted, [] otherwise; a completed exchange happens only in receive and stamps the state with the clock -/
theorem apiCall_security_events (K : Crypto) (call : ApiCall) (s : MState) (r : Except Err Unit) (s' : MState)
    (h : runM (call.run K) s = .ok (r, s')) :
    ∃ (evs : List String) (completed : Bool),
      s'.events = s.events ++ evs ∧
      secEventsIn evs = secEventsOf s.conv.msgState s'.conv.msgState completed ∧
      (completed = true → (∃ m, call = .receive m) ∧ s'.conv.msgState = .encrypted ∧
        s'.conv.lastMessageStateChange = some s.env.now) ∧
      (completed = false → s'.conv.msgState = .encrypted →
        s.conv.msgState = .encrypted ∧ s'.conv.lastMessageStateChange = s.conv.lastMessageStateChange) := by
  first | exact Otr.apiCall_security_events K call s r s' h | exact @Otr.apiCall_security_events K call s r s' h | (apply Otr.apiCall_security_events <;> assumption) | (intros; apply Otr.apiCall_security_events <;> assumption)

/-- the function `secEventsOf`, case by case: which transition raises which event; never two -/
theorem secEventsOf_cases (b a : MsgState) (c : Bool) :
    (secEventsOf b a c = [.goneSecure] ↔ b ≠ .encrypted ∧ a = .encrypted) ∧
    (secEventsOf b a c = [.stillSecure] ↔ b = .encrypted ∧ a = .encrypted ∧ c = true) ∧
    (secEventsOf b a c = [.goneInsecure] ↔ b = .encrypted ∧ a ≠ .encrypted) ∧
    (secEventsOf b a c = [] ↔ (b ≠ .encrypted ∧ a ≠ .encrypted) ∨ (b = .encrypted ∧ a = .encrypted ∧ c = false)) ∧
    (secEventsOf b a c).length ≤ 1 :=
  ⟨Otr.secEventsOf_goneSecure_iff b a c, Otr.secEventsOf_stillSecure_iff b a c, Otr.secEventsOf_goneInsecure_iff b a c,
    Otr.secEventsOf_nil_iff b a c, Otr.secEventsOf_length_le_one b a c⟩

/-- the same with `completed` eliminated when the clock has moved since the last message-state change: an exchange completed iff the conversation is encrypted and carries the stamp of this call -/
theorem apiCall_security_events_fresh_clock : type_of% @Otr.apiCall_security_events_fresh_clock := @Otr.apiCall_security_events_fresh_clock

/-- a non-panicking API call leaves the message state unchanged or moves it along not-encrypted → encrypted (receive only), encrypted → finished (receive only), anything → plaintext (End only) -/
theorem apiCall_msgState_edges (K : Crypto) (call : ApiCall) (s : MState) (r : Except Err Unit) (s' : MState)
    (h : runM (call.run K) s = .ok (r, s')) :
    s'.conv.msgState = s.conv.msgState ∨
    (s.conv.msgState ≠ .encrypted ∧ s'.conv.msgState = .encrypted ∧ ∃ m, call = .receive m) ∨
    (s.conv.msgState = .encrypted ∧ s'.conv.msgState = .finished ∧ ∃ m, call = .receive m) ∨
    (s'.conv.msgState = .plainText ∧ call = .endSession) := by
  first | exact Otr.apiCall_msgState_edges K call s r s' h | exact @Otr.apiCall_msgState_edges K call s r s' h | (apply Otr.apiCall_msgState_edges <;> assumption) | (intros; apply Otr.apiCall_msgState_edges <;> assumption)

/-- the kind of every API call: receive is quiet up to one disconnect out of the encrypted state or contains exactly one completed exchange, End ends, every other call is quiet (relations `Recv`, `Ended`, `Life` of Proofs.Events) -/
theorem apiCall_kind : type_of% @Otr.apiCall_kind := @Otr.apiCall_kind

/-- over every non-panicking sequence of API calls from a conversation that is not encrypted (a fresh one in particular): #GoneSecure = #GoneInsecure + (1 if encrypted at the end, else 0) -/
theorem api_sequence_events_balance (K : Crypto) (steps : List ApiStep) (c c' : Conv)
    (hc : c.msgState ≠ .encrypted) (h : runApi K c steps = .ok c') :
    (secEventsIn (runApiEvents K c steps)).count .goneSecure =
    (secEventsIn (runApiEvents K c steps)).count .goneInsecure + (if c'.msgState = .encrypted then 1 else 0) := by
  first | exact Otr.api_sequence_events_balance K steps c c' hc h | exact @Otr.api_sequence_events_balance K steps c c' hc h | (apply Otr.api_sequence_events_balance <;> assumption) | (intros; apply Otr.api_sequence_events_balance <;> assumption)

/-- the same from any conversation: #GoneSecure + (1 if encrypted at the start) = #GoneInsecure + (1 if encrypted at the end) -/
theorem api_sequence_events_balance_from : type_of% @Otr.api_sequence_events_balance_from := @Otr.api_sequence_events_balance_from

/-- a Signature message in `awaitingSig` completes the exchange (one `akeHasFinished`, relation `Fin`) exactly when the handler returns the next authentication state `none`; otherwise the state stays and the step was quiet -/
theorem recvSig_completes : type_of% @Otr.recvSig_completes := @Otr.recvSig_completes

/-- a Reveal-Signature message in `awaitingRevealSig`, likewise -/
theorem recvRevealSig_completes : type_of% @Otr.recvRevealSig_completes := @Otr.recvRevealSig_completes

/-- repaired code (c2434f4): an authentic, accepted data message whose key rotation cannot draw randomness still has
    its TLVs acted upon - with a disconnected TLV (no SMP TLV before it) the call reports an error AND the
    conversation is `finished`.  Form proved: `processDataMessageTail`, the part of
    `processDataMessageWithRawErrors` that runs once the MAC is verified and the counter accepted. -/
theorem receive_disconnect_despite_rotation_failure : type_of% @Otr.ConvData.receive_disconnect_despite_rotation_failure := @Otr.ConvData.receive_disconnect_despite_rotation_failure

/-- the same whatever the rotation does: every outcome of the accepted message with a disconnected TLV is `finished` -/
theorem tail_disconnect : type_of% @Otr.ConvData.tail_disconnect := @Otr.ConvData.tail_disconnect

end Otr.C18
