/-
  Props.C07Skel2 — C07, the skeleton tie between `Otr.AkeAbs` and the conversation model finished (continues
  Props.C07Skel; same abstraction: `absAuth`, `absEnc`, `absHasAke`, `absAkeStamped`, the table
  `allowedTransitions` = the image of `AkeAbs.recvAke`).  Every theorem about a run has one hypothesis on it: the run
  does not panic (`runM … s = .ok (r, s')`); they hold for EVERY crypto record `K`, state `s` and input.

  * `wsStart_outcomes`, `receiveTaggedPlaintext_skeleton` — the whitespace-tag start.  Every run of
    `receiveTaggedPlaintext`: nothing is thrown, the text without the tag is delivered, the encryption flag is
    untouched, and EITHER the AKE context is untouched (policy without WHITESPACE_START_AKE: nothing sent, no error;
    or no offered version allowed / no key: an error, nothing sent) OR the policy has WHITESPACE_START_AKE, the
    version choice on the versions of the tag succeeded and `sendDHCommit` ran: the D-H Commit message goes out, state
    `awaitingDHKey`, fresh AKE context, not stamped (`AkeAbs.startAKE`); or building it failed: error, fresh context
    in state `none`.
  * `receiveErrorMessage_skeleton` — exact: never panics, never throws, AKE context and message state untouched;
    with ERROR_START_AKE what goes out is the QUERY message (it does not start an exchange itself), else nothing.
  * `send_skeleton` — every run of `send` (any state, any text) leaves AKE context and message state untouched.
    `send_requireEncryption_skeleton` — plaintext state, REQUIRE_ENCRYPTION, OTR enabled: the run does not panic,
    the query message (then pending injections) goes out, no error, AKE context and message state untouched.
  * `SkelStep c c'` (definition) — one observed step: (1) nothing, (2) a row of the table (`recvAke`),
    (3) `startAKE` (`startClause_is_startAKE`), (4) the reset (auth `none`, enc unchanged, context exists),
    (5) the peer's disconnect (was encrypted, now `finished`, no AKE context: `disconnectClause_abs`).
  * `receiveDataMessage_disc` — a data message leaves AKE context and message state alone, or (only out of the
    encrypted state) ends the session by the disconnect TLV: AKE context wiped, state `finished`.
  * `receive_skeleton_complete` — every run of `receive` on ANY input (plain, tagged, query, error, fragments
    with reassembly, every OTR message) makes exactly one `SkelStep`.
  * `endSession_skel` — every run of `End`: AKE context wiped, state plaintext.
  * `ake_skeleton_complete` — every API call (`ApiCall`): Receive makes one `SkelStep`; End wipes (auth `none`,
    enc `false`, no context); every other call (Send, the three SMP calls, extra key, TLV hook, fragment size)
    leaves AKE context and message state untouched.  So the abstraction misses no transition except the reset
    (clause 4, a finding of Props.C07Skel) — which also arises when `sendDHCommit` fails on the query / whitespace
    path — and it has the disconnect / End as transitions outside `recvAke`.

  The converse guards (hypotheses: an AKE context `a` in the named state, the run of `processAKE` does not panic):
  * `processAKE_key_taken_iff` — in `awaitingDHKey`, a D-H Key message moves the state to `awaitSig` IFF `KeyGuards`:
    `processDHKey` accepts the message (it parses, value in range), then `revealSigMessage` returns and
    `wrapMessageHeader` returns (the three runs, each from the state the previous one left).
  * `processAKE_reveal_taken_iff` — in `awaitingRevealSig`, a Reveal-Signature message finishes (auth `none`,
    encrypted) IFF `RevealGuards`: `processRevealSig` accepts, then `sigMessage` and `wrapMessageHeader` return.
  * `KeyGuards.needs`, `RevealGuards.needs` — the guards imply: a long-term key is selected (`ourCurrentKey`), a
    version is committed (and, for the key step, the message parses with `2 ≤ gy ≤ p − 2`).  These are necessary
    conditions; the signing oracle answering and AES succeeding are inside `revealSigMessage`/`sigMessage` returning.
  * `wrapMessageHeader_ok_iff` — the header can be built IFF version 2 is committed, or version 3 is committed and
    `generateInstanceTag` returns (the tag is set already or can be drawn from the random source).
    (With no version committed `messageHeader` PANICS in the model, as the Go code dereferences a nil version.)
  * `recvDHCommitNone_taken_iff`, `processAKE_commit_taken_of_guards` — a D-H Commit message: in `none` and in
    `awaitSig` the state becomes `awaitRevealSig` IFF `CommitGuards` (from the wiped AKE key material `dhKeyMessage`
    returns, the header is built, the message parses); otherwise `none` stays `none`, `awaitSig` stays on an
    unparsable message and is reset to `none` when the answer cannot be built; in `awaitRevealSig` the state stays.
  * `processAKE_commit_awaitingDHKey` — in `awaitingDHKey`, for a message of two DATA fields and our D-H value `pub`:
    if our hash is the greater one, the state becomes `awaitRevealSig` IFF our D-H Commit can be re-sent
    (`ResendGuards`), else stays `awaitDHKey`; if not, `awaitRevealSig` IFF `CommitGuards`, else reset to `none`.
-/
import Proofs.AkeSkeleton2
namespace Otr.C07Skel2
open Otr

theorem wsStart_outcomes : type_of% @Otr.wsStart_outcomes := @Otr.wsStart_outcomes
theorem receiveTaggedPlaintext_skeleton :
    type_of% @Otr.receiveTaggedPlaintext_skeleton := @Otr.receiveTaggedPlaintext_skeleton
theorem receiveErrorMessage_skeleton : type_of% @Otr.receiveErrorMessage_skeleton := @Otr.receiveErrorMessage_skeleton
theorem send_skeleton : type_of% @Otr.send_skeleton := @Otr.send_skeleton
theorem send_requireEncryption_skeleton :
    type_of% @Otr.send_requireEncryption_skeleton := @Otr.send_requireEncryption_skeleton
theorem startClause_is_startAKE : type_of% @Otr.startClause_is_startAKE := @Otr.startClause_is_startAKE
theorem disconnectClause_abs : type_of% @Otr.disconnectClause_abs := @Otr.disconnectClause_abs
theorem receiveDataMessage_disc : type_of% @Otr.receiveDataMessage_disc := @Otr.receiveDataMessage_disc
theorem receive_skeleton_complete : type_of% @Otr.receive_skeleton_complete := @Otr.receive_skeleton_complete
theorem endSession_skel : type_of% @Otr.endSession_skel := @Otr.endSession_skel
theorem ake_skeleton_complete : type_of% @Otr.ake_skeleton_complete := @Otr.ake_skeleton_complete

theorem processAKE_key_taken_iff : type_of% @Otr.processAKE_key_taken_iff := @Otr.processAKE_key_taken_iff
theorem processAKE_reveal_taken_iff : type_of% @Otr.processAKE_reveal_taken_iff := @Otr.processAKE_reveal_taken_iff
theorem KeyGuards_needs : type_of% @Otr.KeyGuards.needs := @Otr.KeyGuards.needs
theorem RevealGuards_needs : type_of% @Otr.RevealGuards.needs := @Otr.RevealGuards.needs
theorem wrapMessageHeader_ok_iff : type_of% @Otr.wrapMessageHeader_ok_iff := @Otr.wrapMessageHeader_ok_iff
theorem recvDHCommitNone_taken_iff : type_of% @Otr.recvDHCommitNone_taken_iff := @Otr.recvDHCommitNone_taken_iff
theorem processAKE_commit_taken_of_guards :
    type_of% @Otr.processAKE_commit_taken_of_guards := @Otr.processAKE_commit_taken_of_guards
theorem processAKE_commit_awaitingDHKey :
    type_of% @Otr.processAKE_commit_awaitingDHKey := @Otr.processAKE_commit_awaitingDHKey

end Otr.C07Skel2
