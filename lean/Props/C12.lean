/-
  Props.C12 — deviant SMP messages never produce success, a crash or a stuck state machine.

  `c12_success_event_guard`: in `processSMPTLV` (the only place SMP messages are handled) the Success
  event is emitted only if, in that very step, the message parsed, the state expected it, every range
  check and zero-knowledge proof verification returned true (`smp3Verify`/`smp4Verify`) and the final
  comparison `Rab = Pa/Pb` held (`smp3Success`/`smp4Success`) — for every message and every state.
  `c12_no_panic_responder`, `smp3Gen_no_panic`, `smp3_no_panic_of_state` (p prime): after the
  group-membership checks of the repaired code (OTRv2: nonzero mod p; OTRv3: 2 ≤ n ≤ p−2) no modular
  inverse can fail, so no message makes the arithmetic panic; `processSMPTLV_safe` (Proofs.ConvData):
  the state machine keeps its well-formedness invariant and never dereferences a missing state.
  `c12_exponent_out_of_range_rejected_1..4`: a received zero-knowledge-proof exponent outside [1, q)
  (`isExponent`, the range check of the repaired code) makes `smpNVerify` return false for every
  other field value and every state — message 3: `.ok false`, the check precedes `divModP`, so no
  panic either; `c12_exponent_plus_q_rejected_1..4`, `c12_exponent_zero_rejected_1..4`: in particular
  d + q in place of d, and d = 0, in each exponent position of each message.
  `toSmp1..4_wrong_count` / `toSmp1..4_isSome_iff` / `toSmp_genSMPTLV_wrong_count` (repaired code): the
  payload parsers accept exactly 6 / 11 / 8 / 3 MPIs — a TLV with one MPI more or fewer (any other
  count, any list) is refused (`processSMPTLV` then throws "corrupt data message").
  Recovery: every rejected message leaves the machine in EXPECT1 (transition facts regenerated from
  /repo: Props.FactsOk.transitions_smpState) from which `c11_equal_success` applies.
  `continueSMP_refused_keeps_state`, `provideAuthenticationSecret_refused_frame` (repaired code, exact;
  Proofs.Fixes4): a ProvideAuthenticationSecret that nobody asked for (any state but
  waiting-for-secret) returns `notWaitingForSecret`, sends nothing and leaves the whole conversation as
  it was — except that a nil SMP state becomes EXPECT1 (`ensureSmpConv`); with a state that is set
  nothing changes at all (`…_refused_unchanged`): a run in progress is not reset behind the peer's back.
  `startAuthenticateExpect1_refused`, `startAuthenticate_short_random_keeps_smp` (repaired code; Proofs.Fixes4): a
  StartAuthenticate refused for lack of randomness (or because the conversation is not encrypted) likewise leaves
  the SMP component — secret, first-message state, state — of a run in progress untouched (up to `ensureSMP`).
  Not a theorem: computational soundness of the proofs against a cheater who deviates within the
  group (decided only by the `smp` profile's boundary/perturbation inputs), and — KNOWN FINDING —
  OTRv2 accepts degenerate elements 1, p−1, ≥ p (unit tests pin that v2 does not range-check).
-/

import Proofs.Smp
import Proofs.ConvData
import Proofs.Fixes4
namespace Otr.C12
open Otr

theorem c12_success_event_guard : type_of% @Otr.c12_success_event_guard := @Otr.c12_success_event_guard

theorem c12_success_guard3 : type_of% @Otr.c12_success_guard3 := @Otr.c12_success_guard3

theorem c12_success_guard4 : type_of% @Otr.c12_success_guard4 := @Otr.c12_success_guard4

theorem smp3Verify_ok_true_iff : type_of% @Otr.smp3Verify_ok_true_iff := @Otr.smp3Verify_ok_true_iff

theorem isExponent_iff : type_of% @Otr.isExponent_iff := @Otr.isExponent_iff

theorem c12_exponent_out_of_range_rejected_1 : type_of% @Otr.c12_exponent_out_of_range_rejected_1 := @Otr.c12_exponent_out_of_range_rejected_1

theorem c12_exponent_out_of_range_rejected_2 : type_of% @Otr.c12_exponent_out_of_range_rejected_2 := @Otr.c12_exponent_out_of_range_rejected_2

theorem c12_exponent_out_of_range_rejected_3 : type_of% @Otr.c12_exponent_out_of_range_rejected_3 := @Otr.c12_exponent_out_of_range_rejected_3

theorem c12_exponent_out_of_range_rejected_4 : type_of% @Otr.c12_exponent_out_of_range_rejected_4 := @Otr.c12_exponent_out_of_range_rejected_4

theorem c12_exponent_plus_q_rejected_1 : type_of% @Otr.c12_exponent_plus_q_rejected_1 := @Otr.c12_exponent_plus_q_rejected_1

theorem c12_exponent_plus_q_rejected_2 : type_of% @Otr.c12_exponent_plus_q_rejected_2 := @Otr.c12_exponent_plus_q_rejected_2

theorem c12_exponent_plus_q_rejected_3 : type_of% @Otr.c12_exponent_plus_q_rejected_3 := @Otr.c12_exponent_plus_q_rejected_3

theorem c12_exponent_plus_q_rejected_4 : type_of% @Otr.c12_exponent_plus_q_rejected_4 := @Otr.c12_exponent_plus_q_rejected_4

theorem c12_exponent_zero_rejected_1 : type_of% @Otr.c12_exponent_zero_rejected_1 := @Otr.c12_exponent_zero_rejected_1

theorem c12_exponent_zero_rejected_2 : type_of% @Otr.c12_exponent_zero_rejected_2 := @Otr.c12_exponent_zero_rejected_2

theorem c12_exponent_zero_rejected_3 : type_of% @Otr.c12_exponent_zero_rejected_3 := @Otr.c12_exponent_zero_rejected_3

theorem c12_exponent_zero_rejected_4 : type_of% @Otr.c12_exponent_zero_rejected_4 := @Otr.c12_exponent_zero_rejected_4

theorem smp1Verify_exponents : type_of% @Otr.smp1Verify_exponents := @Otr.smp1Verify_exponents

theorem smp2Verify_exponents : type_of% @Otr.smp2Verify_exponents := @Otr.smp2Verify_exponents

theorem smp3Verify_exponents : type_of% @Otr.smp3Verify_exponents := @Otr.smp3Verify_exponents

theorem smp4Verify_exponents : type_of% @Otr.smp4Verify_exponents := @Otr.smp4Verify_exponents

theorem c12_no_panic_responder : type_of% @Otr.c12_no_panic_responder := @Otr.c12_no_panic_responder

theorem smp3Gen_no_panic : type_of% @Otr.smp3Gen_no_panic := @Otr.smp3Gen_no_panic

theorem smp3_no_panic_of_state : type_of% @Otr.smp3_no_panic_of_state := @Otr.smp3_no_panic_of_state

theorem smp2Gen_pb_qb_ne_zero : type_of% @Otr.smp2Gen_pb_qb_ne_zero := @Otr.smp2Gen_pb_qb_ne_zero

theorem divModP_panic_iff : type_of% @Otr.divModP_panic_iff := @Otr.divModP_panic_iff

theorem group_facts_of_arithOK : type_of% @Otr.group_facts_of_arithOK := @Otr.group_facts_of_arithOK

theorem processSMPTLV_safe : type_of% @Otr.ConvData.processSMPTLV_safe := @Otr.ConvData.processSMPTLV_safe

theorem processSMPTLV_wf : type_of% @Otr.ConvData.processSMPTLV_wf := @Otr.ConvData.processSMPTLV_wf

/-- repaired code: SMP1 payload with an MPI count other than 6 is rejected -/
theorem toSmp1_wrong_count : type_of% @Otr.toSmp1_wrong_count := @Otr.toSmp1_wrong_count

/-- repaired code: SMP2 payload with an MPI count other than 11 is rejected -/
theorem toSmp2_wrong_count : type_of% @Otr.toSmp2_wrong_count := @Otr.toSmp2_wrong_count

/-- repaired code: SMP3 payload with an MPI count other than 8 is rejected -/
theorem toSmp3_wrong_count : type_of% @Otr.toSmp3_wrong_count := @Otr.toSmp3_wrong_count

/-- repaired code: SMP4 payload with an MPI count other than 3 is rejected -/
theorem toSmp4_wrong_count : type_of% @Otr.toSmp4_wrong_count := @Otr.toSmp4_wrong_count

/-- a payload whose MPI list cannot be read is rejected by all four parsers -/
theorem toSmp_unparsable : type_of% @Otr.toSmp_unparsable := @Otr.toSmp_unparsable

/-- exact acceptance condition of the SMP1 payload parser -/
theorem toSmp1_isSome_iff : type_of% @Otr.toSmp1_isSome_iff := @Otr.toSmp1_isSome_iff

/-- exact acceptance condition of the SMP2 payload parser -/
theorem toSmp2_isSome_iff : type_of% @Otr.toSmp2_isSome_iff := @Otr.toSmp2_isSome_iff

/-- exact acceptance condition of the SMP3 payload parser -/
theorem toSmp3_isSome_iff : type_of% @Otr.toSmp3_isSome_iff := @Otr.toSmp3_isSome_iff

/-- exact acceptance condition of the SMP4 payload parser -/
theorem toSmp4_isSome_iff : type_of% @Otr.toSmp4_isSome_iff := @Otr.toSmp4_isSome_iff

/-- what the sender serialises for a list of the wrong length is rejected, for every list -/
theorem toSmp_genSMPTLV_wrong_count : type_of% @Otr.toSmp_genSMPTLV_wrong_count := @Otr.toSmp_genSMPTLV_wrong_count

/-- repaired code (exact): `continueSMP` outside waiting-for-secret throws `notWaitingForSecret`; the conversation is unchanged except that a nil SMP state becomes EXPECT1 -/
theorem continueSMP_refused_keeps_state (K : Crypto) (secret : Bytes) (s : MState)
    (h : ∀ m, s.conv.smp.state ≠ some (.waitingForSecret m)) :
    runM (continueSMP K secret) s =
      .ok (.error .notWaitingForSecret, { s with conv := ensureSmpConv s.conv }) := by
  first | exact Otr.continueSMP_refused_keeps_state K secret s h | (apply Otr.continueSMP_refused_keeps_state <;> assumption)

/-- … with a state that is set nothing changes at all -/
theorem continueSMP_refused_unchanged (K : Crypto) (secret : Bytes) (s : MState) (st : SmpState)
    (hst : s.conv.smp.state = some st) (h : ∀ m, st ≠ .waitingForSecret m) :
    runM (continueSMP K secret) s = .ok (.error .notWaitingForSecret, s) := by
  first | exact Otr.continueSMP_refused_unchanged K secret s st hst h | (apply Otr.continueSMP_refused_unchanged <;> assumption)

/-- repaired code (exact), API level: a ProvideAuthenticationSecret nobody asked for returns the error — nothing is sent, queued, logged or consumed — and the conversation is unchanged up to `ensureSMP` -/
theorem provideAuthenticationSecret_refused_frame (K : Crypto) (secret : Bytes) (s : MState)
    (h : ∀ m, s.conv.smp.state ≠ some (.waitingForSecret m)) :
    runM (provideAuthenticationSecret K secret) s =
      .ok (.error .notWaitingForSecret, { s with conv := ensureSmpConv s.conv }) := by
  first | exact Otr.provideAuthenticationSecret_refused_frame K secret s h | (apply Otr.provideAuthenticationSecret_refused_frame <;> assumption)

/-- … with a state that is set nothing changes at all -/
theorem provideAuthenticationSecret_refused_unchanged (K : Crypto) (secret : Bytes) (s : MState) (st : SmpState)
    (hst : s.conv.smp.state = some st) (h : ∀ m, st ≠ .waitingForSecret m) :
    runM (provideAuthenticationSecret K secret) s = .ok (.error .notWaitingForSecret, s) := by
  first | exact Otr.provideAuthenticationSecret_refused_unchanged K secret s st hst h | (apply Otr.provideAuthenticationSecret_refused_unchanged <;> assumption)

/-- what `ensureSmpConv` is: only the SMP state can differ, and it is the old one unless that was nil (then EXPECT1) -/
theorem ensureSmpConv_frame : type_of% @Otr.ensureSmpConv_frame := @Otr.ensureSmpConv_frame

/-- a state that is set: `ensureSmpConv` is the identity -/
theorem ensureSmpConv_of_some : type_of% @Otr.ensureSmpConv_of_some := @Otr.ensureSmpConv_of_some

/-- repaired code: a refused `startAuthenticateExpect1` leaves conversation and log as they were -/
theorem startAuthenticateExpect1_refused : type_of% @Otr.startAuthenticateExpect1_refused :=
  @Otr.startAuthenticateExpect1_refused

/-- repaired code, API level: StartAuthenticate refused for lack of randomness keeps the SMP component (up to `ensureSMP`) -/
theorem startAuthenticate_short_random_keeps_smp : type_of% @Otr.startAuthenticate_short_random_keeps_smp :=
  @Otr.startAuthenticate_short_random_keeps_smp

end Otr.C12
