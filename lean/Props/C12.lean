/-
  Props.C12 — deviant SMP messages never produce success, a crash or a stuck state machine.

  `c12_success_event_guard`: in `processSMPTLV` (the only place SMP messages are handled) the Success
  event is emitted only if, in that very step, the message parsed, the state expected it, every range
  check and zero-knowledge proof verification returned true (`smp3Verify`/`smp4Verify`) and the final
  comparison `Rab = Pa/Pb` held (`smp3Success`/`smp4Success`) — for every message and every state.
  `c12_no_panic_responder`, `smp3Gen_no_panic`, `smp3_no_panic_of_state` (p prime): after the
  group-membership checks of the repaired code (OTRv2: nonzero mod p; OTRv3: 2 ≤ n ≤ p−2) no modular
  inverse can fail, so no message makes the arithmetic panic; `processSMPTLV_safe` (Proofs.ConvData):
  the state machine keeps its well-formedness invariant and never dereferences a missing state.
  Recovery: every rejected message leaves the machine in EXPECT1 (transition facts regenerated from
  /repo: Props.FactsOk.transitions_smpState) from which `c11_equal_success` applies.
  Not a theorem: computational soundness of the proofs against a cheater who deviates within the
  group (decided only by the `smp` profile's boundary/perturbation inputs), and — KNOWN FINDING —
  OTRv2 accepts degenerate elements 1, p−1, ≥ p (unit tests pin that v2 does not range-check).
-/

import Proofs.Smp
import Proofs.ConvData
namespace Otr.C12
open Otr

theorem c12_success_event_guard : type_of% @Otr.c12_success_event_guard := @Otr.c12_success_event_guard

theorem c12_success_guard3 : type_of% @Otr.c12_success_guard3 := @Otr.c12_success_guard3

theorem c12_success_guard4 : type_of% @Otr.c12_success_guard4 := @Otr.c12_success_guard4

theorem smp3Verify_ok_true_iff : type_of% @Otr.smp3Verify_ok_true_iff := @Otr.smp3Verify_ok_true_iff

theorem c12_no_panic_responder : type_of% @Otr.c12_no_panic_responder := @Otr.c12_no_panic_responder

theorem smp3Gen_no_panic : type_of% @Otr.smp3Gen_no_panic := @Otr.smp3Gen_no_panic

theorem smp3_no_panic_of_state : type_of% @Otr.smp3_no_panic_of_state := @Otr.smp3_no_panic_of_state

theorem smp2Gen_pb_qb_ne_zero : type_of% @Otr.smp2Gen_pb_qb_ne_zero := @Otr.smp2Gen_pb_qb_ne_zero

theorem divModP_panic_iff : type_of% @Otr.divModP_panic_iff := @Otr.divModP_panic_iff

theorem group_facts_of_arithOK : type_of% @Otr.group_facts_of_arithOK := @Otr.group_facts_of_arithOK

theorem processSMPTLV_safe : type_of% @Otr.ConvData.processSMPTLV_safe := @Otr.ConvData.processSMPTLV_safe

theorem processSMPTLV_wf : type_of% @Otr.ConvData.processSMPTLV_wf := @Otr.ConvData.processSMPTLV_wf

end Otr.C12
