/-
  Props.C15 — instance tags isolate conversations between client instances.

  Conversation model (Otr.Conv, tied to otrv3.go / instance_tags.go by whole-session differential runs
  with the 7×7 tag grid of the `tags` profile).
  `generateInstanceTag_run`: for every output of the randomness source the generated own tag is
  ≥ 0x100 (or the call fails and the tag stays 0); a set tag is never regenerated
  (`generateInstanceTag_noop`).
  `verifyInstanceTags_run` is the complete decision table of the repaired code (validate, then
  adopt): malformed tags (< 0x100) → rejected, peer tag untouched (`verifyInstanceTags_malformed`);
  foreign sender or receiver tag → `otherInstance`, conversation state unchanged, only the
  ReceivedMessageForOtherInstance event (`verifyInstanceTags_foreign`); the peer tag changes only
  from 0, only to a well-formed sender tag of a message addressed to us or to nobody
  (`verifyInstanceTags_adopt`). `header_roundtrip`: the tags the sender's `messageHeader` writes are
  the tags the receiver's `parseMessageHeader` checks.
  The public routing helper ExtractInstanceTags is covered by the `tags` profile (differential +
  oracle), see DESIGN §7 C15.
  `parseItag_range`, `parseItag_signed_rejected`, `parseItag_eq_some_iff`: the instance tags of a
  v3 fragment prefix are read by the repaired `parseItag` (`strconv.ParseUint(s, 16, 32)`): plain
  hexadecimal digits, no sign, value below 2^32 (no reduction modulo 2^32).
  `receiveUnit_invalid_fragment` (repaired code, exact): a fragment that `receiveFragment` rejects
  leaves the peer tag as it was before the call, even when its prefix named a well-formed sender.
  `receiveFragment_run_of_prefix`, `receiveFragment_discarded_unbinds`, `receiveFragment_rejected_unbinds`,
  `receiveUnit_rejected_fragment_unbinds` (repaired code, Proofs.Fixes3): a fragment that is for another
  instance (ignored), does not parse (rejected), is illegally numbered or is out of sequence — neither a first
  piece nor the piece that follows the ones collected (`fragOutOfSequence`) — (discarded) leaves the peer tag,
  the protocol version and the long-term key selected for it exactly as they were before the call —
  whatever looking at its prefix had committed the conversation to.  Only a first piece or the next piece of the
  stream being collected binds: `receiveFragment_out_of_sequence_unbinds` (the out-of-sequence case made
  explicit: no error, the empty context, nothing bound), `receiveFragment_in_sequence_binds` (Proofs.Fixes4).
  `receiveUnit_unknown_frame`, `receive_unknown_frame`, `receive_unknown_fragCtx` (repaired code, exact;
  Proofs.Fixes4): a message of an unknown type — whose instance tags are never looked at — yields no
  plaintext, no error and nothing to send but the injections that were pending; the log gains
  ReceivedMessageUnrecognized and the conversation is what it was but for the injection queue handed
  out: in particular `fragCtx` is kept (it was emptied before the repair), so anybody's unknown-type
  message no longer destroys the fragments collected from the peer.
-/

import Proofs.ConvLife
import Proofs.Frag
import Proofs.Fixes3
import Proofs.Fixes4
namespace Otr.C15
open Otr

theorem generateInstanceTag_noop (s : MState) (h : s.conv.ourTag ≠ 0) :
    runM generateInstanceTag s = .ok (.ok (), s) := by
  first | exact Otr.generateInstanceTag_noop | exact @Otr.generateInstanceTag_noop | (apply Otr.generateInstanceTag_noop <;> assumption) | (intros; apply Otr.generateInstanceTag_noop <;> assumption)

theorem generateInstanceTag_run (s : MState) (h : s.conv.ourTag = 0) :
    ∃ env' mm', EnvStep s.env env' ∧
      ((∃ v, 0x100 ≤ v ∧ v < 4294967296 ∧ runM generateInstanceTag s =
          .ok (.ok (), { s with conv := { s.conv with ourTag := v }, env := env', mismatch := mm' })) ∨
       runM generateInstanceTag s = .ok (.error .shortRandom, { s with env := env', mismatch := mm' })) := by
  first | exact Otr.generateInstanceTag_run | exact @Otr.generateInstanceTag_run | (apply Otr.generateInstanceTag_run <;> assumption) | (intros; apply Otr.generateInstanceTag_run <;> assumption)

theorem generateInstanceTag_tag (s : MState) (r : Except Err Unit) (s' : MState)
    (hr : runM generateInstanceTag s = .ok (r, s')) :
    (r = .ok () → (s.conv.ourTag ≠ 0 → s' = s) ∧
        (s.conv.ourTag = 0 → 0x100 ≤ s'.conv.ourTag ∧ s'.conv.ourTag < 4294967296)) ∧
    (∀ e, r = .error e → s'.conv = s.conv) := by
  first | exact Otr.generateInstanceTag_tag | exact @Otr.generateInstanceTag_tag | (apply Otr.generateInstanceTag_tag <;> assumption) | (intros; apply Otr.generateInstanceTag_tag <;> assumption)

theorem verifyInstanceTags_run (their our : Nat) (s : MState) :
    runM (verifyInstanceTags their our) s =
      if ¬ tagsWellFormed their our then
        .ok (.error .invalidMessage, { s with conv := afterMalformed s.conv, events := s.events ++ ["msg:9"] })
      else if tagsForeign s.conv their our then
        .ok (.error .otherInstance, { s with events := s.events ++ ["msg:15"] })
      else .ok (.ok (), { s with conv := { s.conv with theirTag := their } }) := by
  first | exact Otr.verifyInstanceTags_run | exact @Otr.verifyInstanceTags_run | (apply Otr.verifyInstanceTags_run <;> assumption) | (intros; apply Otr.verifyInstanceTags_run <;> assumption)

theorem verifyInstanceTags_frame (their our : Nat) (s : MState) :
    ∃ r s', runM (verifyInstanceTags their our) s = .ok (r, s') ∧
      s'.conv = { s.conv with theirTag := s'.conv.theirTag, injections := s'.conv.injections } ∧
      (s.conv.errHandler = false → s'.conv.injections = s.conv.injections) ∧
      s'.env = s.env := by
  first | exact Otr.verifyInstanceTags_frame | exact @Otr.verifyInstanceTags_frame | (apply Otr.verifyInstanceTags_frame <;> assumption) | (intros; apply Otr.verifyInstanceTags_frame <;> assumption)

theorem verifyInstanceTags_adopt (their our : Nat) (s : MState) (r : Except Err Unit) (s' : MState)
    (hr : runM (verifyInstanceTags their our) s = .ok (r, s')) (hne : s'.conv.theirTag ≠ s.conv.theirTag) :
    s.conv.theirTag = 0 ∧ 0x100 ≤ their ∧ (our = 0 ∨ our = s.conv.ourTag) ∧ s'.conv.theirTag = their ∧ r = .ok () := by
  first | exact Otr.verifyInstanceTags_adopt | exact @Otr.verifyInstanceTags_adopt | (apply Otr.verifyInstanceTags_adopt <;> assumption) | (intros; apply Otr.verifyInstanceTags_adopt <;> assumption)

theorem verifyInstanceTags_foreign (their our : Nat) (s : MState)
    (hwf : tagsWellFormed their our) (hf : tagsForeign s.conv their our) :
    runM (verifyInstanceTags their our) s =
      .ok (.error .otherInstance, { s with events := s.events ++ ["msg:15"] }) := by
  first | exact Otr.verifyInstanceTags_foreign | exact @Otr.verifyInstanceTags_foreign | (apply Otr.verifyInstanceTags_foreign <;> assumption) | (intros; apply Otr.verifyInstanceTags_foreign <;> assumption)

theorem verifyInstanceTags_otherInstance (their our : Nat) (s : MState)
    (h1 : 0x100 ≤ their) (h2 : our = 0 ∨ 0x100 ≤ our) (h3 : s.conv.theirTag ≠ 0)
    (h4 : their ≠ s.conv.theirTag ∨ (our ≠ 0 ∧ our ≠ s.conv.ourTag)) :
    runM (verifyInstanceTags their our) s =
      .ok (.error .otherInstance, { s with events := s.events ++ ["msg:15"] }) := by
  first | exact Otr.verifyInstanceTags_otherInstance | exact @Otr.verifyInstanceTags_otherInstance | (apply Otr.verifyInstanceTags_otherInstance <;> assumption) | (intros; apply Otr.verifyInstanceTags_otherInstance <;> assumption)

theorem verifyInstanceTags_malformed (their our : Nat) (s : MState)
    (h : their < 0x100 ∨ (0 < our ∧ our < 0x100)) :
    runM (verifyInstanceTags their our) s =
      .ok (.error .invalidMessage, { s with conv := afterMalformed s.conv, events := s.events ++ ["msg:9"] }) ∧
    (afterMalformed s.conv).theirTag = s.conv.theirTag := by
  first | exact Otr.verifyInstanceTags_malformed | exact @Otr.verifyInstanceTags_malformed | (apply Otr.verifyInstanceTags_malformed <;> assumption) | (intros; apply Otr.verifyInstanceTags_malformed <;> assumption)

theorem verifyInstanceTags_ok (their our : Nat) (s : MState)
    (hwf : tagsWellFormed their our) (hf : ¬ tagsForeign s.conv their our) :
    runM (verifyInstanceTags their our) s = .ok (.ok (), { s with conv := { s.conv with theirTag := their } }) := by
  first | exact Otr.verifyInstanceTags_ok | exact @Otr.verifyInstanceTags_ok | (apply Otr.verifyInstanceTags_ok <;> assumption) | (intros; apply Otr.verifyInstanceTags_ok <;> assumption)

theorem messageHeader_v3 (s : MState) (hv : s.conv.version = some .v3) (ht : s.conv.ourTag ≠ 0) (msgType : Nat) :
    runM (messageHeader msgType) s =
      .ok (.ok ([0, 3, b8 msgType] ++ be32 s.conv.ourTag ++ be32 s.conv.theirTag), s) := by
  first | exact Otr.messageHeader_v3 | exact @Otr.messageHeader_v3 | (apply Otr.messageHeader_v3 <;> assumption) | (intros; apply Otr.messageHeader_v3 <;> assumption)

theorem parseMessageHeader_v3' (s : MState) (hv : s.conv.version = some .v3) (msg : Bytes) (h : 11 ≤ msg.length) :
    ∃ a0 a1 a2 a3 b0 b1 b2 b3, (msg.drop 3).take 8 = [a0, a1, a2, a3, b0, b1, b2, b3] ∧
      runM (parseMessageHeader msg) s =
        bindM (runM (verifyInstanceTags (de32 a0 a1 a2 a3) (de32 b0 b1 b2 b3)) s)
          (fun _ s' => .ok (.ok (msg.take 11, msg.drop 11), s')) := by
  first | exact Otr.parseMessageHeader_v3' | exact @Otr.parseMessageHeader_v3' | (apply Otr.parseMessageHeader_v3' <;> assumption) | (intros; apply Otr.parseMessageHeader_v3' <;> assumption)

theorem header_roundtrip (snd rcv : MState) (hs : snd.conv.version = some .v3) (hr : rcv.conv.version = some .v3)
    (ht : snd.conv.ourTag ≠ 0) (ho : snd.conv.ourTag < 4294967296) (hh : snd.conv.theirTag < 4294967296)
    (msgType : Nat) (body : Bytes) :
    ∃ hdr, runM (messageHeader msgType) snd = .ok (.ok hdr, snd) ∧
      runM (parseMessageHeader (hdr ++ body)) rcv =
        bindM (runM (verifyInstanceTags snd.conv.ourTag snd.conv.theirTag) rcv)
          (fun _ s' => .ok (.ok (hdr, body), s')) := by
  first | exact Otr.header_roundtrip | exact @Otr.header_roundtrip | (apply Otr.header_roundtrip <;> assumption) | (intros; apply Otr.header_roundtrip <;> assumption)

theorem parseItag_range : type_of% @Otr.parseItag_range := @Otr.parseItag_range

theorem parseItag_signed_rejected : type_of% @Otr.parseItag_signed_rejected := @Otr.parseItag_signed_rejected

theorem parseItag_eq_some_iff : type_of% @Otr.parseItag_eq_some_iff := @Otr.parseItag_eq_some_iff

theorem receiveUnit_invalid_fragment : type_of% @Otr.receiveUnit_invalid_fragment :=
  @Otr.receiveUnit_invalid_fragment

theorem receiveUnit_invalid_fragment_theirTag : type_of% @Otr.receiveUnit_invalid_fragment_theirTag :=
  @Otr.receiveUnit_invalid_fragment_theirTag

/-- repaired code (exact): `receiveFragment` in terms of the prefix parser; ignored, rejected and discarded
    (illegally numbered or out-of-sequence) fragments all unbind the conversation -/
theorem receiveFragment_run_of_prefix : type_of% @Otr.receiveFragment_run_of_prefix :=
  @Otr.receiveFragment_run_of_prefix

/-- an ignored, unparsable, illegally numbered or out-of-sequence fragment (`fragmentDiscarded`): version, key choice and peer tag as before the call -/
theorem receiveFragment_discarded_unbinds : type_of% @Otr.receiveFragment_discarded_unbinds :=
  @Otr.receiveFragment_discarded_unbinds

/-- a fragment that `receiveFragment` rejects: version, key choice and peer tag as before the call -/
theorem receiveFragment_rejected_unbinds : type_of% @Otr.receiveFragment_rejected_unbinds :=
  @Otr.receiveFragment_rejected_unbinds

/-- … and after the whole `receiveUnit` -/
theorem receiveUnit_rejected_fragment_unbinds : type_of% @Otr.receiveUnit_rejected_fragment_unbinds :=
  @Otr.receiveUnit_rejected_fragment_unbinds

/-- repaired code (exact): a message of unknown type — no plaintext, only the pending injections to send, no error; conversation unchanged but for the emptied injection queue (`fragCtx` kept), log gains ReceivedMessageUnrecognized -/
theorem receiveUnit_unknown_frame (K : Crypto) (fuel : Nat) (msg : Bytes) (fg : Bool) (s : MState)
    (hp : isOTREnabled s.conv.policies = true) (hg : guessMessageType msg = .unknown) :
    runM (receiveUnit K (fuel + 1) msg fg) s =
      .ok (.ok ⟨none, s.conv.injections, none⟩,
        { s with conv := { s.conv with injections := [] }, events := s.events ++ ["msg:14"] }) := by
  first | exact Otr.receiveUnit_unknown_frame K fuel msg fg s hp hg | (apply Otr.receiveUnit_unknown_frame <;> assumption)

/-- the same for `Receive` -/
theorem receive_unknown_frame (K : Crypto) (msg : Bytes) (s : MState)
    (hp : isOTREnabled s.conv.policies = true) (hg : guessMessageType msg = .unknown) :
    runM (receive K msg) s =
      .ok (.ok ⟨none, s.conv.injections, none⟩,
        { s with conv := { s.conv with injections := [] }, events := s.events ++ ["msg:14"] }) := by
  first | exact Otr.receive_unknown_frame K msg s hp hg | (apply Otr.receive_unknown_frame <;> assumption)

/-- in particular the fragments collected so far, the peer tag, the version and all key material are what they were -/
theorem receive_unknown_fragCtx : type_of% @Otr.receive_unknown_fragCtx := @Otr.receive_unknown_fragCtx

/-- repaired code: a parsed, legally numbered fragment that is neither piece 1 nor the next piece yields the empty context, no error, and leaves version, key choice and peer tag as before the call -/
theorem receiveFragment_out_of_sequence_unbinds (before : FragCtx) (data : Bytes) (s s1 : MState) (body d : Bytes)
    (ix l : Nat)
    (hp : runM (parseFragmentPrefix data) s = .ok (.ok (body, false, true), s1))
    (hpf : parseFragment body = some (d, ix, l))
    (hlegal : ¬ (ix = 0 ∨ l = 0 ∨ ix > l))
    (hfirst : ix ≠ 1) (hnext : ¬ ((before.index + 1) % 65536 = ix ∧ before.len = l)) :
    runM (receiveFragment before data) s = .ok (.ok FragCtx.empty, unbindState s s1) ∧
    (unbindState s s1).conv.version = s.conv.version ∧
    (unbindState s s1).conv.ourCurrentKey = s.conv.ourCurrentKey ∧
    (unbindState s s1).conv.theirTag = s.conv.theirTag := by
  first | exact Otr.receiveFragment_out_of_sequence_unbinds | exact @Otr.receiveFragment_out_of_sequence_unbinds | (apply Otr.receiveFragment_out_of_sequence_unbinds <;> assumption) | (intros; apply Otr.receiveFragment_out_of_sequence_unbinds <;> assumption)

/-- … while a first piece or the next piece keeps what looking at its prefix committed the conversation to -/
theorem receiveFragment_in_sequence_binds (before : FragCtx) (data : Bytes) (s s1 : MState) (body d : Bytes)
    (ix l : Nat)
    (hp : runM (parseFragmentPrefix data) s = .ok (.ok (body, false, true), s1))
    (hpf : parseFragment body = some (d, ix, l))
    (hlegal : ¬ (ix = 0 ∨ l = 0 ∨ ix > l))
    (hseq : ix = 1 ∨ ((before.index + 1) % 65536 = ix ∧ before.len = l)) :
    runM (receiveFragment before data) s = .ok (.ok (fragAccept before d ix l), s1) := by
  first | exact Otr.receiveFragment_in_sequence_binds | exact @Otr.receiveFragment_in_sequence_binds | (apply Otr.receiveFragment_in_sequence_binds <;> assumption) | (intros; apply Otr.receiveFragment_in_sequence_binds <;> assumption)

end Otr.C15
