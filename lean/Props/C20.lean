/-
  Props.C20 — independent conversations do not interfere, also when run concurrently.

  What an executable Lean model can carry:
  (1) `c20_append_full_never_writes_shared`: in the Go slice model, `append` on a slice whose length
      equals its capacity never writes a cell of that slice's backing array — so using a
      package-level slice with len = cap as an append prefix (`append(msgMarker, …)`) cannot modify
      shared memory, whatever is appended and however many goroutines do it. The harness checks
      len = cap for every package-level slice at run time (hook VerifPkgSlices) and the regenerated
      facts `pkgSlicesUsedAsAppendPrefix`, `pkgVarWritesOutsideInit = []` (Props.FactsOk) pin which
      package-level slices are used that way and that nothing outside init() writes package state.
      `c20_append_spare_capacity_writes_shared` shows the hypothesis is needed.
  (2) `c20_step_local`: the model's step function acts on one conversation: running an operation on
      conversation i leaves every other conversation of the table untouched (the solo run of each
      pair is therefore the reference the concurrent run is compared with).
  What it cannot carry: the Go memory model and data races. The `conc` profile runs many
  conversation pairs on goroutines under the race detector and compares every pair's transcript
  (plaintexts, errors, events, state snapshots) with the same pair run alone. Level claimed: other.
-/
import Otr.GoSlice
import Otr.Driver
namespace Otr.C20
open Otr

theorem c20_append_full_never_writes_shared (s : GoSlice) (n fresh : Nat)
    (hfull : s.len = s.cap) (hn : 0 < n) (hfresh : fresh ≠ s.arr) :
    ∀ w ∈ (goAppend s n fresh).2, w.1 ≠ s.arr := by
  intro w hw
  unfold goAppend at hw
  have : ¬ s.len + n ≤ s.cap := by omega
  simp only [this, ↓reduceIte, List.mem_map, List.mem_range] at hw
  obtain ⟨i, _, rfl⟩ := hw
  exact hfresh

theorem c20_append_nothing_writes_nothing (s : GoSlice) (fresh : Nat) (h : s.len ≤ s.cap) :
    (goAppend s 0 fresh).2 = [] := by
  unfold goAppend
  simp [h]

/-- with spare capacity the shared array IS written: the len = cap hypothesis is necessary -/
theorem c20_append_spare_capacity_writes_shared (s : GoSlice) (n fresh : Nat)
    (hspare : s.len + n ≤ s.cap) (hn : 0 < n) :
    (s.arr, s.off + s.len) ∈ (goAppend s n fresh).2 := by
  unfold goAppend
  simp only [hspare, ↓reduceIte, List.mem_map, List.mem_range]
  exact ⟨0, hn, by simp⟩

theorem find_map_other (l : List (String × Conv)) (i j : String) (c : Conv) (h : i ≠ j) :
    ((l.map fun (p : String × Conv) => if p.1 == i then (p.1, c) else (p.1, p.2)).find? (·.1 == j)).map (·.2)
      = (l.find? (·.1 == j)).map (·.2) := by
  induction l with
  | nil => rfl
  | cons x xs ih =>
    obtain ⟨k, v⟩ := x
    by_cases hk : k = i <;> by_cases hj : k = j
    · exact absurd (hk.symm.trans hj) h
    · subst hk; simp_all [List.find?_cons]
    · subst hj; simp_all [List.find?_cons]
    · simp_all [List.find?_cons]

/-- the table of model conversations: an operation on conversation `i` does not touch conversation `j` -/
theorem c20_step_local (st : Driver.DState) (i j : String) (c : Conv) (h : i ≠ j) :
    (st.put i c).get j = st.get j := by
  unfold Driver.DState.put Driver.DState.get
  split
  · exact find_map_other st.convs i j c h
  · have hne : (i == j) = false := by simpa using h
    simp [List.find?_cons, hne]

example : (goAppend ⟨1, 0, 5, 5⟩ 3 2).1.arr = 2 := by decide

end Otr.C20
