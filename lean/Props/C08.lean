/-
  Props.C08 — retired secrets and old plaintext are not retained (forward secrecy).

  Model level: the conversation state has exactly two slots for DH private keys
  (`keys.ourCur`, `keys.ourPrev`) plus the exponent of an exchange in progress (`ake.secretExponent`);
  there is no list of older generations, so "at most the current and the previous" is structural.
  `c09_rotateOur`/`Keys.generateNewDHKeyPair`: a rotation overwrites the previous slot.
  `akeHasFinished_run`: on completion the AKE context is reset to its zero value (`Ake.wiped`: secret
  exponent, r, gx, both AKE key triples gone). `endSession_spec`: after End both DH slots are empty,
  the AKE context is gone and SMP state is reset — `endSession_forgets` (repaired code): from EVERY
  message state and whatever became of the disconnect message the SMP context is the zero value (no
  secret, exponents, stored messages, question) and the resend state holds no text unless it is in
  the branch `mayRetransmit = .exact` (texts sent under required encryption before any session existed,
  still waiting for one); `endSession_resend_state`: the same in terms of the state before the call;
  `processDisconnectedTLV_run` (repaired code): after the peer's
  disconnect `smp = {}`, `ake = none`, and of the key context only the MAC keys to be revealed remain
  (`keys = { oldMACKeys := old reveal queue ++ keys of the old MAC history }`): DH keys, key ids,
  counters and MAC history are gone. `send_requireEncryption` + the resend bookkeeping
  compared op by op (snapshot field rs): retained texts are the queued ones or the single last one.
  Heap level (what a model cannot see: copies, aliases, dropped-but-not-zeroed buffers): the `mem`
  profile scans the object graph reachable from the real *Conversation after every API call for the
  bytes of every secret handed out through Conversation.Rand and every text, checks the allowed
  locations, and keeps aliases of buffers that held a secret to verify they were zeroed once
  unreachable. Limits: copies made and dropped inside one call, registers, stack, GC relocation are
  invisible (DESIGN §6). KNOWN FINDING: SMP exponents are dropped without zeroing (unit tests share
  fixture big.Int pointers, zeroing them breaks the suite).
-/

import Proofs.ConvLife
import Proofs.Keys
import Proofs.Fixes2
namespace Otr.C08
open Otr

theorem akeHasFinished_run : type_of% @Otr.akeHasFinished_run := @Otr.akeHasFinished_run

theorem endSession_notEncrypted : type_of% @Otr.endSession_notEncrypted := @Otr.endSession_notEncrypted

theorem endSession_encrypted : type_of% @Otr.endSession_encrypted := @Otr.endSession_encrypted

theorem endSession_spec : type_of% @Otr.endSession_spec := @Otr.endSession_spec

theorem processDisconnectedTLV_run : type_of% @Otr.processDisconnectedTLV_run := @Otr.processDisconnectedTLV_run

theorem send_requireEncryption : type_of% @Otr.send_requireEncryption := @Otr.send_requireEncryption

theorem createSerializedDataMessage_sendFrame : type_of% @Otr.createSerializedDataMessage_sendFrame := @Otr.createSerializedDataMessage_sendFrame

theorem c09_rotateOur : type_of% @Otr.c09_rotateOur := @Otr.c09_rotateOur

theorem c19_bounded : type_of% @Otr.c19_bounded := @Otr.c19_bounded

/-- repaired code, exact decomposition of End from an encrypted state -/
theorem endSession_encrypted_run : type_of% @Otr.endSession_encrypted_run := @Otr.endSession_encrypted_run

/-- repaired code: after End the SMP context is wiped and the resend state holds no text outside the `.exact` branch -/
theorem endSession_forgets : type_of% @Otr.endSession_forgets := @Otr.endSession_forgets

/-- repaired code: the last text of the session that ends is neither kept nor resent later -/
theorem endSession_resend_state : type_of% @Otr.endSession_resend_state := @Otr.endSession_resend_state

end Otr.C08
