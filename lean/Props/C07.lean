/-
  Props.C07 — the key exchange always completes on a reliable network, however it is started.

  Decided on the abstract two-party AKE system Otr.AkeAbs (identifiers instead of cryptographic
  values; transition rules taken from auth_state_machine.go / Otr.Conv), by a verified exhaustive
  explorer (`explore_sound`) evaluated in the kernel. The abstract system is tied to the real code
  by the `c07` correspondence profile: every maximal delivery schedule of every start pattern is
  run on the implementation and its final state compared with `runSchedule`/`describe`.

  Full statement (every start pattern, every schedule ends with both sides in one common session)
  is FALSE on the unchanged tree: `c07_full_false`, `c07_collision_always_deadlocks` — when both
  sides have a DH-Commit in flight (queries crossing), the winner of the hash comparison resends its
  commit but moves to AWAITING_REVEALSIG (a unit test pins that transition), and both end stuck.
  Known finding C07/ake-collision-deadlock. `c07_partial` is the strongest true statement: all
  single-initiator start patterns (query, whitespace tag, repeated query, refresh while encrypted)
  complete under every interleaving within 12 deliveries.
-/

import Proofs.AkeAbs
namespace Otr.C07
open Otr
open Otr.AkeAbs

theorem explore_sound {fuel : Nat} {s : Sys} (h : explore fuel s = .allGood) : Live success fuel s := by
  first | exact Otr.AkeAbs.explore_sound | exact @Otr.AkeAbs.explore_sound | (apply Otr.AkeAbs.explore_sound <;> assumption) | (intros; apply Otr.AkeAbs.explore_sound <;> assumption)

theorem explore_bad_sound {fuel : Nat} {s : Sys} {tr : List Bool} {fin : Sys}
    (h : explore fuel s = .bad tr fin) :
    runSchedule s tr = fin ∧ Run s tr.length fin ∧ quiescent fin = true ∧ success fin = false := by
  first | exact Otr.AkeAbs.explore_bad_sound | exact @Otr.AkeAbs.explore_bad_sound | (apply Otr.AkeAbs.explore_bad_sound <;> assumption) | (intros; apply Otr.AkeAbs.explore_bad_sound <;> assumption)

theorem c07_partial : ∀ n ∈ livePatterns, ∀ aWins, Live success N (startPattern n aWins) := by
  first | exact Otr.AkeAbs.c07_partial | exact @Otr.AkeAbs.c07_partial | (apply Otr.AkeAbs.c07_partial <;> assumption) | (intros; apply Otr.AkeAbs.c07_partial <;> assumption)

theorem c07_partial' (n : Nat) (hn : n ∈ livePatterns) (aWins : Bool) :
    (∀ t, Reachable (startPattern n aWins) t → quiescent t = true →
      t.a.enc = true ∧ t.b.enc = true ∧ t.a.session = t.b.session ∧ t.a.session ≠ none) ∧
    (∀ t, Reachable (startPattern n aWins) t → ∃ u, Reachable t u ∧ quiescent u = true) ∧
    (∀ k t, Run (startPattern n aWins) k t → k ≤ N) ∧
    (¬ ∃ σ : Nat → Sys, σ 0 = startPattern n aWins ∧ ∀ i, ∃ b, step (σ i) b = some (σ (i + 1))) := by
  first | exact Otr.AkeAbs.c07_partial' | exact @Otr.AkeAbs.c07_partial' | (apply Otr.AkeAbs.c07_partial' <;> assumption) | (intros; apply Otr.AkeAbs.c07_partial' <;> assumption)

theorem c07_full_false :
    ¬ ∀ n aWins t, Reachable (startPattern n aWins) t → quiescent t = true → success t = true := by
  first | exact Otr.AkeAbs.c07_full_false | exact @Otr.AkeAbs.c07_full_false | (apply Otr.AkeAbs.c07_full_false <;> assumption) | (intros; apply Otr.AkeAbs.c07_full_false <;> assumption)

theorem c07_collision_deadlock :
    ∀ n ∈ [3, 4], ∀ aWins, ∃ tr,
      let fin := runSchedule (startPattern n aWins) tr
      Run (startPattern n aWins) tr.length fin ∧ quiescent fin = true ∧ success fin = false ∧
      fin.a.auth = .awaitRevealSig ∧ fin.b.auth = .awaitRevealSig ∧
      fin.a.enc = false ∧ fin.b.enc = false := by
  first | exact Otr.AkeAbs.c07_collision_deadlock | exact @Otr.AkeAbs.c07_collision_deadlock | (apply Otr.AkeAbs.c07_collision_deadlock <;> assumption) | (intros; apply Otr.AkeAbs.c07_collision_deadlock <;> assumption)

theorem c07_collision_always_deadlocks :
    ∀ n ∈ [3, 4], ∀ aWins, Live deadlock N (startPattern n aWins) := by
  first | exact Otr.AkeAbs.c07_collision_always_deadlocks | exact @Otr.AkeAbs.c07_collision_always_deadlocks | (apply Otr.AkeAbs.c07_collision_always_deadlocks <;> assumption) | (intros; apply Otr.AkeAbs.c07_collision_always_deadlocks <;> assumption)

theorem c07_collision_never_succeeds :
    ∀ n ∈ [3, 4], ∀ aWins t, Reachable (startPattern n aWins) t → quiescent t = true →
      success t = false := by
  first | exact Otr.AkeAbs.c07_collision_never_succeeds | exact @Otr.AkeAbs.c07_collision_never_succeeds | (apply Otr.AkeAbs.c07_collision_never_succeeds <;> assumption) | (intros; apply Otr.AkeAbs.c07_collision_never_succeeds <;> assumption)

theorem c07_refresh_collision_stuck :
    ∀ aWins,
      Live (fun s => stuck s && s.a.session == some (1, 2) && s.b.session == some (1, 2))
        N (startPattern 8 aWins) ∧
      ∃ tr fin, exploreWith settled N (startPattern 8 aWins) = .bad tr fin := by
  first | exact Otr.AkeAbs.c07_refresh_collision_stuck | exact @Otr.AkeAbs.c07_refresh_collision_stuck | (apply Otr.AkeAbs.c07_refresh_collision_stuck <;> assumption) | (intros; apply Otr.AkeAbs.c07_refresh_collision_stuck <;> assumption)

end Otr.C07
