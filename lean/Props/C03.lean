/-
  Props.C03 — user text never reaches the wire in readable form when encryption is due.

  Silent states, exact: `send_finished` — in the finished state Send returns an error, emits nothing
  but previously queued injections, and changes nothing; `send_requireEncryption` — in plaintext
  state under required encryption Send emits exactly the query message (which does not depend on
  the text) and appends the text to the queue. Wire shape: every encoded message is
  "?OTR:" ++ base64 ++ "." and base64 output contains no byte outside its alphabet
  (`b64encode_alphabet`, `b64decode_encode`), so armour and fragmentation (Props.C14) carry exactly
  the binary message. In the encrypted state the text enters a data message only as the argument of
  `plainDataMsg.encrypt` (AES-CTR under the per-pair sending key; model function `encryptPlain`,
  compared byte for byte with the implementation by the correspondence profiles).
  NOT a theorem here: secrecy of AES-CTR / the DH-derived key (ideal-crypto assumption, DESIGN §6),
  and the noninterference form of "no other field depends on the text" — that part is decided by the
  Go oracle of the `lifecycle` and `life` profiles, which searches every wire output (raw, inside
  base64 bodies, across reassembled fragments) for every text sent while encryption was due.
-/

import Proofs.ConvLife
import Proofs.B64
import Proofs.SendShape
namespace Otr.C03
open Otr

theorem send_finished (K : Crypto) (m : Bytes) (s : MState)
    (hp : isOTREnabled s.conv.policies = true) (h : s.conv.msgState = .finished) :
    runM (send K m) s = .ok (.ok (s.conv.injections, some errFinished),
      { s with conv := { s.conv with injections := [] }, events := s.events ++ ["msg:2"] }) := by
  first | exact Otr.send_finished | exact @Otr.send_finished | (apply Otr.send_finished <;> assumption) | (intros; apply Otr.send_finished <;> assumption)

theorem send_requireEncryption (K : Crypto) (m : Bytes) (s : MState)
    (hp : isOTREnabled s.conv.policies = true) (h : s.conv.msgState = .plainText)
    (hr : polHas s.conv.policies requireEncryption = true) (hrt : s.conv.retransmitting = false) :
    runM (send K m) s = .ok (.ok (queryMessage s.conv.policies s.conv.friendlyQuery :: s.conv.injections, none),
      { s with
        conv := { s.conv with
          heartbeatLastSent := some s.env.now
          resendMsgs := (if s.conv.mayRetransmit = .exact then s.conv.resendMsgs else []) ++ [m]
          mayRetransmit := .exact
          injections := [] }
        events := s.events ++ ["msg:0"] }) := by
  first | exact Otr.send_requireEncryption | exact @Otr.send_requireEncryption | (apply Otr.send_requireEncryption <;> assumption) | (intros; apply Otr.send_requireEncryption <;> assumption)

theorem send_plain (K : Crypto) (m : Bytes) (s : MState)
    (hp : isOTREnabled s.conv.policies = true) (h : s.conv.msgState = .plainText)
    (hr : polHas s.conv.policies requireEncryption = false) :
    runM (send K m) s = .ok (.ok
      ((m ++ if tagging s.conv then genWhitespaceTag s.conv.policies else []) :: s.conv.injections, none),
      { s with conv := { s.conv with
          wsState := if tagging s.conv then .sent else s.conv.wsState
          injections := [] } }) := by
  first | exact Otr.send_plain | exact @Otr.send_plain | (apply Otr.send_plain <;> assumption) | (intros; apply Otr.send_plain <;> assumption)

theorem send_disabled (K : Crypto) (m : Bytes) (s : MState) (hp : isOTREnabled s.conv.policies = false) :
    runM (send K m) s = .ok (.ok ([m], none), s) := by
  first | exact Otr.send_disabled | exact @Otr.send_disabled | (apply Otr.send_disabled <;> assumption) | (intros; apply Otr.send_disabled <;> assumption)

theorem b64decode_encode (x : Bytes) : b64decode (b64encode x) = some x := by
  first | exact Otr.b64decode_encode | exact @Otr.b64decode_encode | (apply Otr.b64decode_encode <;> assumption) | (intros; apply Otr.b64decode_encode <;> assumption)

theorem b64encode_alphabet (x : Bytes) : ∀ c ∈ b64encode x, (b64Val c).isSome ∨ c = 61 := by
  first | exact Otr.b64encode_alphabet | exact @Otr.b64encode_alphabet | (apply Otr.b64encode_alphabet <;> assumption) | (intros; apply Otr.b64encode_alphabet <;> assumption)

theorem b64encode_not_mem (x : Bytes) :
    (44 : UInt8) ∉ b64encode x ∧ (46 : UInt8) ∉ b64encode x ∧ (0 : UInt8) ∉ b64encode x ∧
    (10 : UInt8) ∉ b64encode x ∧ (13 : UInt8) ∉ b64encode x ∧ (32 : UInt8) ∉ b64encode x ∧
    (9 : UInt8) ∉ b64encode x ∧ (63 : UInt8) ∉ b64encode x := by
  first | exact Otr.b64encode_not_mem | exact @Otr.b64encode_not_mem | (apply Otr.b64encode_not_mem <;> assumption) | (intros; apply Otr.b64encode_not_mem <;> assumption)

theorem b64encode_length (x : Bytes) : (b64encode x).length = 4 * ((x.length + 2) / 3) := by
  first | exact Otr.b64encode_length | exact @Otr.b64encode_length | (apply Otr.b64encode_length <;> assumption) | (intros; apply Otr.b64encode_length <;> assumption)


/-! ### the encrypted state (Proofs/SendShape.lean): the text reaches the wire only through `K.ctr`

  `send_encrypted_exact`: in the encrypted state the wire output of `Send text` is
  `dataWire K conv (K.ctr sendAESKey iv (plaintextOf text))` — header, key ids, next DH key, counter,
  ciphertext, MAC over exactly these, revealed MAC keys, armour, fragments — where the text occurs
  only inside the AES-CTR call (and, through the ciphertext, under the MAC); `plaintextOf_length`: the
  length of what is encrypted depends on the length of the text only (padding to 256).
  `send_encrypted_text_only_via_ctr`: two texts and two crypto records that agree except for `ctr`
  give the same wire output whenever the ciphertexts agree — the wire tells about the text only what
  the ciphertext tells. `queued_text_only_via_ctr`, `retransmit_exact`: the same for texts released
  from the queue after the key exchange and for the "[resent] " retransmission.
  `send_wire_is_armoured`, `WireText.not_infix`: everything emitted consists of the message/fragment
  markers and base64 characters; a text with any other byte is not an infix of it.
  Not proved (assumed, see the property's assumptions): secrecy of AES-CTR and of the DH-derived keys. -/
theorem plaintextOf_length : type_of% @Otr.plaintextOf_length := @Otr.plaintextOf_length

theorem send_encrypted_exact : type_of% @Otr.send_encrypted_exact := @Otr.send_encrypted_exact

theorem send_encrypted_wire : type_of% @Otr.send_encrypted_wire := @Otr.send_encrypted_wire

theorem send_encrypted_successor : type_of% @Otr.send_encrypted_successor := @Otr.send_encrypted_successor

theorem sendAES_dh : type_of% @Otr.sendAES_dh := @Otr.sendAES_dh

theorem send_encrypted_text_only_via_ctr : type_of% @Otr.send_encrypted_text_only_via_ctr := @Otr.send_encrypted_text_only_via_ctr

theorem send_encrypted_text_only_via_ctr_some : type_of% @Otr.send_encrypted_text_only_via_ctr_some := @Otr.send_encrypted_text_only_via_ctr_some

theorem send_encrypted_run : type_of% @Otr.send_encrypted_run := @Otr.send_encrypted_run

theorem send_encrypted_text_only_via_ctr_any : type_of% @Otr.send_encrypted_text_only_via_ctr_any := @Otr.send_encrypted_text_only_via_ctr_any

theorem retransmit_exact : type_of% @Otr.retransmit_exact := @Otr.retransmit_exact

theorem maybeRetransmit_run : type_of% @Otr.maybeRetransmit_run := @Otr.maybeRetransmit_run

theorem queued_text_only_via_ctr : type_of% @Otr.queued_text_only_via_ctr := @Otr.queued_text_only_via_ctr

theorem queued_text_only_via_ctr_maybe : type_of% @Otr.queued_text_only_via_ctr_maybe := @Otr.queued_text_only_via_ctr_maybe

theorem queued_wire_is_armoured : type_of% @Otr.queued_wire_is_armoured := @Otr.queued_wire_is_armoured

theorem WireText_not_infix : type_of% @Otr.WireText.not_infix := @Otr.WireText.not_infix

theorem send_wire_is_armoured : type_of% @Otr.send_wire_is_armoured := @Otr.send_wire_is_armoured

end Otr.C03
