/-
  Props.C04 — exactly-once, in-order, unchanged delivery across DH key rotation.

  Two-party system (Proofs.Ratchet): two key-management contexts (the model functions of Otr.Keys,
  tied to key_management.go / data_message.go by whole-session differential runs) and two FIFO
  queues of in-flight data messages; steps sendA, sendB, deliverAB, deliverBA in ANY order, any
  number in flight, any number of rotations. `inv_init`, `inv_step`, `inv_reachable`: the ratchet
  invariant (key-id windows, identity of every key an in-flight message was built with, per-pair
  counters, queue order) holds after the key exchange and is preserved by every step.
  `c04_send_enabled`: Send never fails in an established session. `c04_deliveries_accepted`: the head
  of each queue is always accepted by its receiver (both key ids inside the window, counter fresh),
  so — `c04_exactly_once_in_order`, `c04_drained`, `c04_can_drain` — what each side receives is
  exactly what the other sent, in order, nothing lost, nothing twice, for every schedule.
  `c04_key_agreement` (DH commutativity of the group, distinct public keys): the receiver derives
  exactly the AES and MAC keys the sender used; `c04_unchanged` with the proved AES-CTR involution
  (`ctr_real_involutive`): decryption gives back the plaintext. The text is NUL-free by the
  property's own guard (a NUL ends the text and starts the TLV area: PlainDataMsg.deserialize).
  Heartbeats, SMP replies and extra-key messages are ordinary `send` steps of this system
  (`Step2.ksteps`); fragmentation is transparent by Props.C14. Byte-level MAC verification of a
  genuine message is `K.mac1 k d = K.mac1 k d` once the keys agree. The Go oracle of the `sched`
  and `schedx` profiles checks the same on the implementation: random long schedules with
  fragmentation, heartbeats, SMP and extra-key traffic, and exhaustive interleavings to a depth.
-/

import Proofs.Ratchet
namespace Otr.C04
open Otr

theorem inv_step {K ra rb s s'} (h : Inv K ra rb s) (hs : Step2 K s s') :
    ∃ ra' rb', RegStep K ra rb s s' ra' rb' ∧ Inv K ra' rb' s' := by
  first | exact Otr.inv_step | exact @Otr.inv_step | (apply Otr.inv_step <;> assumption) | (intros; apply Otr.inv_step <;> assumption)

theorem c04_send_enabled {K ra rb s} (h : Inv K ra rb s) : s.a.canSend K ∧ s.b.canSend K := by
  first | exact Otr.c04_send_enabled | exact @Otr.c04_send_enabled | (apply Otr.c04_send_enabled <;> assumption) | (intros; apply Otr.c04_send_enabled <;> assumption)

theorem c04_deliveries_accepted {K ra rb s} (h : Inv K ra rb s) :
    (∀ m rest, s.qab = m :: rest → s.b.acceptsWire K m) ∧
    (∀ m rest, s.qba = m :: rest → s.a.acceptsWire K m) := by
  first | exact Otr.c04_deliveries_accepted | exact @Otr.c04_deliveries_accepted | (apply Otr.c04_deliveries_accepted <;> assumption) | (intros; apply Otr.c04_deliveries_accepted <;> assumption)

theorem c04_delivery_enabled {K ra rb s} (h : Inv K ra rb s) (p : Bytes) :
    (∀ m rest, s.qab = m :: rest → Step2 K s ⟨s.a, s.b.deliver K m p, rest, s.qba⟩) ∧
    (∀ m rest, s.qba = m :: rest → Step2 K s ⟨s.a.deliver K m p, s.b, s.qab, rest⟩) := by
  first | exact Otr.c04_delivery_enabled | exact @Otr.c04_delivery_enabled | (apply Otr.c04_delivery_enabled <;> assumption) | (intros; apply Otr.c04_delivery_enabled <;> assumption)

theorem c04_exactly_once_in_order {K s0 g0 s g} (h0 : GInv K s0 g0) (h : GReach K (s0, g0) (s, g)) :
    g.recvB ++ s.qab.map Wire.txt = g.sentA ∧ g.recvA ++ s.qba.map Wire.txt = g.sentB := by
  first | exact Otr.c04_exactly_once_in_order | exact @Otr.c04_exactly_once_in_order | (apply Otr.c04_exactly_once_in_order <;> assumption) | (intros; apply Otr.c04_exactly_once_in_order <;> assumption)

theorem c04_prefix {K s0 g0 s g} (h0 : GInv K s0 g0) (h : GReach K (s0, g0) (s, g)) :
    g.recvB <+: g.sentA ∧ g.recvA <+: g.sentB := by
  first | exact Otr.c04_prefix | exact @Otr.c04_prefix | (apply Otr.c04_prefix <;> assumption) | (intros; apply Otr.c04_prefix <;> assumption)

theorem c04_drained {K s0 g0 s g} (h0 : GInv K s0 g0) (h : GReach K (s0, g0) (s, g))
    (hab : s.qab = []) (hba : s.qba = []) : g.recvB = g.sentA ∧ g.recvA = g.sentB := by
  first | exact Otr.c04_drained | exact @Otr.c04_drained | (apply Otr.c04_drained <;> assumption) | (intros; apply Otr.c04_drained <;> assumption)

theorem sessionKeys_agree {K : Crypto}
    (hcomm : ∀ x y, K.gexp (K.gexp dhG x) y = K.gexp (K.gexp dhG y) x)
    {px py : DhPair} (hx : px.ok K) (hy : py.ok K) (hne : px.pub ≠ py.pub) :
    (sessionKeysOf K py.priv py.pub px.pub).recvAES = (sessionKeysOf K px.priv px.pub py.pub).sendAES ∧
    (sessionKeysOf K py.priv py.pub px.pub).recvMAC = (sessionKeysOf K px.priv px.pub py.pub).sendMAC ∧
    (sessionKeysOf K py.priv py.pub px.pub).sendAES = (sessionKeysOf K px.priv px.pub py.pub).recvAES ∧
    (sessionKeysOf K py.priv py.pub px.pub).sendMAC = (sessionKeysOf K px.priv px.pub py.pub).recvMAC ∧
    (sessionKeysOf K py.priv py.pub px.pub).extraKey = (sessionKeysOf K px.priv px.pub py.pub).extraKey := by
  first | exact Otr.sessionKeys_agree | exact @Otr.sessionKeys_agree | (apply Otr.sessionKeys_agree <;> assumption) | (intros; apply Otr.sessionKeys_agree <;> assumption)

theorem c04_key_agreement {K : Crypto} {s : Sys2} {g : Ghost}
    (hcomm : ∀ x y, K.gexp (K.gexp dhG x) y = K.gexp (K.gexp dhG y) x)
    (h : GInv K s g) (hdist : g.Distinct s) :
    (∀ m rest, s.qab = m :: rest → ∃ skA ks skB, g.kab = skA :: ks ∧
      s.b.deriveSessionKeys K m.r m.s = .ok skB ∧
      skB.recvAES = skA.sendAES ∧ skB.recvMAC = skA.sendMAC) ∧
    (∀ m rest, s.qba = m :: rest → ∃ skB ks skA, g.kba = skB :: ks ∧
      s.a.deriveSessionKeys K m.r m.s = .ok skA ∧
      skA.recvAES = skB.sendAES ∧ skA.recvMAC = skB.sendMAC) := by
  first | exact Otr.c04_key_agreement | exact @Otr.c04_key_agreement | (apply Otr.c04_key_agreement <;> assumption) | (intros; apply Otr.c04_key_agreement <;> assumption)

theorem c04_unchanged {K : Crypto}
    (hinv : ∀ k iv d d', K.ctr k iv d = some d' → K.ctr k iv d' = some d)
    {skA skB : SessionKeys} (hk : skB.recvAES = skA.sendAES) {iv pt ct : Bytes}
    (henc : K.ctr skA.sendAES iv pt = some ct) : K.ctr skB.recvAES iv ct = some pt := by
  first | exact Otr.c04_unchanged | exact @Otr.c04_unchanged | (apply Otr.c04_unchanged <;> assumption) | (intros; apply Otr.c04_unchanged <;> assumption)

theorem ctr_real_involutive (k iv d d' : Bytes) (h : Crypto.real.ctr k iv d = some d') :
    Crypto.real.ctr k iv d' = some d := by
  first | exact Otr.ctr_real_involutive | exact @Otr.ctr_real_involutive | (apply Otr.ctr_real_involutive <;> assumption) | (intros; apply Otr.ctr_real_involutive <;> assumption)

theorem exec_sound {K s act s'} (h : exec K s act = .ok s') : Step2 K s s' := by
  first | exact Otr.exec_sound | exact @Otr.exec_sound | (apply Otr.exec_sound <;> assumption) | (intros; apply Otr.exec_sound <;> assumption)

theorem inv_init : type_of% @Otr.inv_init := @Otr.inv_init

theorem inv_reachable : type_of% @Otr.inv_reachable := @Otr.inv_reachable

theorem c04_can_drain : type_of% @Otr.c04_can_drain := @Otr.c04_can_drain

theorem c04_reachable : type_of% @Otr.c04_reachable := @Otr.c04_reachable

theorem c04_never_stuck : type_of% @Otr.c04_never_stuck := @Otr.c04_never_stuck

end Otr.C04
