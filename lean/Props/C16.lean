/-
  Props.C16 — version and policy negotiation; untouched pass-through of plain text.

  `commitToVersionFrom_choice`: the version committed is allowed by the policy, offered, and v3
  whenever v3 is both allowed and offered (highest common version); it is sticky
  (`commitToVersionFrom_sticky`) and an offer without a common version is refused without a state
  change (`commitToVersionFrom_unsupported`). `chooseVersion_queryMessage` /
  `extractVersions_queryMessage`: for EVERY pair of policy sets and every friendly text, what the
  receiver extracts from the sender's query message is exactly the intersection of the two policies'
  versions. `genWhitespaceTag_versions`: the same for the whitespace tag. `checkVersion_ok`: a
  message is only processed under the committed version and a version the policy forbids is never
  committed (`commitToVersionFrom_versionOK`: invariant version ∈ allowed).
  `send_disabled` / `receive_disabled`: with no version allowed both calls hand the message through
  unchanged and leave the state untouched. `send_plain_roundtrip` / `c16_plain_exact`: in plaintext
  state what is sent is the text plus the tag, and tag extraction gives back exactly the text,
  under the side condition that the first occurrence of the 16-byte tag header in text ++ tag is at
  |text| (`indexOf_tag_of_no_space`: true e.g. for every text without a space). The side condition
  cannot be dropped: the header has period 15 (counterexample in Proofs.Wire) — inherent to the
  OTR tag format, not a defect of the code.
-/

import Proofs.ConvLife
import Proofs.Wire
namespace Otr.C16
open Otr

theorem commitToVersionFrom_run (versions : Nat) (s : MState) :
    runM (commitToVersionFrom versions) s =
      match s.conv.version with
      | some _ => .ok (.ok (), s)
      | none =>
        match chooseVersion s.conv.policies versions with
        | none => .ok (.error .unsupportedVersion, s)
        | some v =>
          match s.conv.ourKeys with
          | k :: _ => .ok (.ok (), { s with conv := { s.conv with version := some v, ourCurrentKey := some k } })
          | [] => .ok (.error .noKeyForVersion, { s with conv := { s.conv with version := some v } }) := by
  first | exact Otr.commitToVersionFrom_run | exact @Otr.commitToVersionFrom_run | (apply Otr.commitToVersionFrom_run <;> assumption) | (intros; apply Otr.commitToVersionFrom_run <;> assumption)

theorem commitToVersionFrom_sticky (versions : Nat) (s : MState) (v : Version) (h : s.conv.version = some v) :
    runM (commitToVersionFrom versions) s = .ok (.ok (), s) := by
  first | exact Otr.commitToVersionFrom_sticky | exact @Otr.commitToVersionFrom_sticky | (apply Otr.commitToVersionFrom_sticky <;> assumption) | (intros; apply Otr.commitToVersionFrom_sticky <;> assumption)

theorem commitToVersionFrom_unsupported (versions : Nat) (s : MState) (h : s.conv.version = none)
    (hc : chooseVersion s.conv.policies versions = none) :
    runM (commitToVersionFrom versions) s = .ok (.error .unsupportedVersion, s) := by
  first | exact Otr.commitToVersionFrom_unsupported | exact @Otr.commitToVersionFrom_unsupported | (apply Otr.commitToVersionFrom_unsupported <;> assumption) | (intros; apply Otr.commitToVersionFrom_unsupported <;> assumption)

theorem commitToVersionFrom_choice (versions : Nat) (s : MState) (v : Version) (h : s.conv.version = none)
    (hc : chooseVersion s.conv.policies versions = some v) :
    ∃ r s', runM (commitToVersionFrom versions) s = .ok (r, s') ∧ s'.conv.version = some v ∧
      (r = .ok () ∨ (r = .error .noKeyForVersion ∧ s.conv.ourKeys = [])) ∧
      s'.conv = { s.conv with version := some v, ourCurrentKey := s'.conv.ourCurrentKey } ∧
      (v = .v3 → polHas s.conv.policies allowV3 = true ∧ versions &&& 8 > 0) ∧
      (v = .v2 → polHas s.conv.policies allowV2 = true ∧ versions &&& 4 > 0) ∧
      (polHas s.conv.policies allowV3 = true ∧ versions &&& 8 > 0 → v = .v3) := by
  first | exact Otr.commitToVersionFrom_choice | exact @Otr.commitToVersionFrom_choice | (apply Otr.commitToVersionFrom_choice <;> assumption) | (intros; apply Otr.commitToVersionFrom_choice <;> assumption)

theorem commitToVersionFrom_versionOK (versions : Nat) (s : MState) :
    ∃ r s', runM (commitToVersionFrom versions) s = .ok (r, s') ∧ s'.conv.policies = s.conv.policies ∧
      (VersionOK s.conv → VersionOK s'.conv) := by
  first | exact Otr.commitToVersionFrom_versionOK | exact @Otr.commitToVersionFrom_versionOK | (apply Otr.commitToVersionFrom_versionOK <;> assumption) | (intros; apply Otr.commitToVersionFrom_versionOK <;> assumption)

theorem checkVersion_ok (m : Bytes) (s : MState) :
    ∃ r s', runM (checkVersion m) s = .ok (r, s') ∧
      (r = .ok () → ∃ a b rest v, m = a :: b :: rest ∧ s'.conv.version = some v ∧ v.num = de16 a b ∧
        (s.conv.version = none →
          (v = .v3 → polHas s.conv.policies allowV3 = true) ∧ (v = .v2 → polHas s.conv.policies allowV2 = true))) := by
  first | exact Otr.checkVersion_ok | exact @Otr.checkVersion_ok | (apply Otr.checkVersion_ok <;> assumption) | (intros; apply Otr.checkVersion_ok <;> assumption)

theorem checkVersion_committed (a b : UInt8) (rest : Bytes) (s : MState) (v : Version)
    (h : s.conv.version = some v) :
    runM (checkVersion (a :: b :: rest)) s =
      if v.num = de16 a b then .ok (.ok (), s) else .ok (.error .wrongVersion, s) := by
  first | exact Otr.checkVersion_committed | exact @Otr.checkVersion_committed | (apply Otr.checkVersion_committed <;> assumption) | (intros; apply Otr.checkVersion_committed <;> assumption)

theorem checkVersion_forbidden (a b : UInt8) (rest : Bytes) (s : MState) (h : s.conv.version = none)
    (h3 : de16 a b = 3 → polHas s.conv.policies allowV3 = false)
    (h2 : de16 a b = 2 → polHas s.conv.policies allowV2 = false) :
    runM (checkVersion (a :: b :: rest)) s = .ok (.error .unsupportedVersion, s) := by
  first | exact Otr.checkVersion_forbidden | exact @Otr.checkVersion_forbidden | (apply Otr.checkVersion_forbidden <;> assumption) | (intros; apply Otr.checkVersion_forbidden <;> assumption)

theorem send_disabled (K : Crypto) (m : Bytes) (s : MState) (hp : isOTREnabled s.conv.policies = false) :
    runM (send K m) s = .ok (.ok ([m], none), s) := by
  first | exact Otr.send_disabled | exact @Otr.send_disabled | (apply Otr.send_disabled <;> assumption) | (intros; apply Otr.send_disabled <;> assumption)

theorem receive_disabled (K : Crypto) (m : Bytes) (s : MState) (hp : isOTREnabled s.conv.policies = false) :
    runM (receive K m) s = .ok (.ok ⟨some m, [], none⟩, s) := by
  first | exact Otr.receive_disabled | exact @Otr.receive_disabled | (apply Otr.receive_disabled <;> assumption) | (intros; apply Otr.receive_disabled <;> assumption)

theorem send_plain (K : Crypto) (m : Bytes) (s : MState)
    (hp : isOTREnabled s.conv.policies = true) (h : s.conv.msgState = .plainText)
    (hr : polHas s.conv.policies requireEncryption = false) :
    runM (send K m) s = .ok (.ok
      ((m ++ if tagging s.conv then genWhitespaceTag s.conv.policies else []) :: s.conv.injections, none),
      { s with conv := { s.conv with
          wsState := if tagging s.conv then .sent else s.conv.wsState
          injections := [] } }) := by
  first | exact Otr.send_plain | exact @Otr.send_plain | (apply Otr.send_plain <;> assumption) | (intros; apply Otr.send_plain <;> assumption)

theorem send_plain_roundtrip (K : Crypto) (m : Bytes) (s : MState)
    (hp : isOTREnabled s.conv.policies = true) (h : s.conv.msgState = .plainText)
    (hr : polHas s.conv.policies requireEncryption = false) (ht : tagging s.conv)
    (hi : indexOf whitespaceTagHeader (m ++ genWhitespaceTag s.conv.policies) = some m.length) :
    ∃ sent s', runM (send K m) s = .ok (.ok (sent :: s.conv.injections, none), s') ∧
      extractWhitespaceTag sent =
        (m, (if polHas s.conv.policies allowV2 then 4 else 0) ||| (if polHas s.conv.policies allowV3 then 8 else 0)) := by
  first | exact Otr.send_plain_roundtrip | exact @Otr.send_plain_roundtrip | (apply Otr.send_plain_roundtrip <;> assumption) | (intros; apply Otr.send_plain_roundtrip <;> assumption)

theorem extractVersions_queryMessage (p q : Policies) (friendly : Bytes) :
    extractVersionsFromQueryMessage q (queryMessage p friendly) =
      (if polHas p allowV2 && polHas q allowV2 then 4 else 0) |||
      (if polHas p allowV3 && polHas q allowV3 then 8 else 0) := by
  first | exact Otr.extractVersions_queryMessage | exact @Otr.extractVersions_queryMessage | (apply Otr.extractVersions_queryMessage <;> assumption) | (intros; apply Otr.extractVersions_queryMessage <;> assumption)

theorem chooseVersion_queryMessage (p q : Policies) (f : Bytes) :
    chooseVersion q (extractVersionsFromQueryMessage q (queryMessage p f)) =
      (if polHas p allowV3 && polHas q allowV3 then some .v3
       else if polHas p allowV2 && polHas q allowV2 then some .v2 else none) := by
  first | exact Otr.chooseVersion_queryMessage | exact @Otr.chooseVersion_queryMessage | (apply Otr.chooseVersion_queryMessage <;> assumption) | (intros; apply Otr.chooseVersion_queryMessage <;> assumption)

theorem guessMessageType_queryMessage (p : Policies) (friendly : Bytes) :
    guessMessageType (queryMessage p friendly) = .query := by
  first | exact Otr.guessMessageType_queryMessage | exact @Otr.guessMessageType_queryMessage | (apply Otr.guessMessageType_queryMessage <;> assumption) | (intros; apply Otr.guessMessageType_queryMessage <;> assumption)

theorem genWhitespaceTag_versions (p : Policies) :
    extractWhitespaceTag (genWhitespaceTag p) =
      ([], (if polHas p allowV2 then 4 else 0) ||| (if polHas p allowV3 then 8 else 0)) := by
  first | exact Otr.genWhitespaceTag_versions | exact @Otr.genWhitespaceTag_versions | (apply Otr.genWhitespaceTag_versions <;> assumption) | (intros; apply Otr.genWhitespaceTag_versions <;> assumption)

theorem c16_plain_exact (p : Policies) (text : Bytes)
    (h : indexOf whitespaceTagHeader (text ++ genWhitespaceTag p) = some text.length) :
    extractWhitespaceTag (text ++ genWhitespaceTag p) =
      (text, (if polHas p allowV2 then 4 else 0) ||| (if polHas p allowV3 then 8 else 0)) := by
  first | exact Otr.c16_plain_exact | exact @Otr.c16_plain_exact | (apply Otr.c16_plain_exact <;> assumption) | (intros; apply Otr.c16_plain_exact <;> assumption)

theorem indexOf_tag_of_no_space (p : Policies) (text : Bytes) (h : ∀ c ∈ text, c ≠ 32) :
    indexOf whitespaceTagHeader (text ++ genWhitespaceTag p) = some text.length := by
  first | exact Otr.indexOf_tag_of_no_space | exact @Otr.indexOf_tag_of_no_space | (apply Otr.indexOf_tag_of_no_space <;> assumption) | (intros; apply Otr.indexOf_tag_of_no_space <;> assumption)

theorem c16_plain_exact_of_no_space (p : Policies) (text : Bytes) (h : ∀ c ∈ text, c ≠ 32) :
    extractWhitespaceTag (text ++ genWhitespaceTag p) =
      (text, (if polHas p allowV2 then 4 else 0) ||| (if polHas p allowV3 then 8 else 0)) := by
  first | exact Otr.c16_plain_exact_of_no_space | exact @Otr.c16_plain_exact_of_no_space | (apply Otr.c16_plain_exact_of_no_space <;> assumption) | (intros; apply Otr.c16_plain_exact_of_no_space <;> assumption)

end Otr.C16
