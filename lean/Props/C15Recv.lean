/-
  Props.C15Recv — C15 at the level of the whole of `Conversation.Receive` (Proofs.TagsRecv): once the peer's
  instance tag is learnt an OTRv3 conversation ignores every message or fragment whose sender tag is not the
  peer's or whose receiver tag is neither zero nor its own; malformed tags (below 0x100) are rejected and never
  influence which peer instance the conversation is bound to.  (A second module of C15 because Proofs.TagsRecv
  builds on Proofs.RecvGuards; Props.C15 holds the decision table of `verifyInstanceTags` and the fragment frames.)

  WHICH INPUTS.  Every theorem quantifies over every cryptography record `K`, every state `s` (any message state,
  AKE state, SMP state, keys, …) and every byte string `msg` subject to the stated hypotheses only.
  A *complete message* is a byte string that `guessMessageType` classifies as DH-Commit, DH-Key, Reveal-Signature,
  Signature or data (`Guess.isOtrMsg`: it starts with `?OTR:AAM` or `?OTR:AAI` followed by `C`, `K`, `R`, `S`, `D`)
  and whose armour decodes: `decodeEnvelope msg = some decoded`.  `decodeEnvelope` drops the first five bytes and
  the *last byte, whatever it is* (`decodeEnvelope_armour`: `?OTR:` ++ e ++ [x] decodes to `b64decode e` — the
  final `.` is not checked, CR/LF inside `e` are skipped).  The decoded bytes must start with `00 03` and have at
  least 11 bytes; `headerTags decoded = some (S, R)` reads S from bytes 3..6 and R from bytes 7..10; the type
  byte and everything after byte 10 are arbitrary.  `armour_v3_known`, `headerTags_be32`: the canonical armour
  `?OTR:` ++ base64(00 03 ty S R rest) ++ `.` with ty ∈ {02, 03, 0a, 11, 12} is of this shape, for every `rest`.
  A *fragment* is a byte string classified as `.fragment` (`?OTR|…` or `?OTR,…`) whose prefix parses:
  `v3PrefixParse msg = some (S, R, n)` — it contains a comma, the part before the first comma splits at `|` into at
  least three parts, and the second and third part are hexadecimal numbers below 2^32 (`parseItag`); what follows
  the comma is arbitrary.  `fragTag_covered`: `?OTR|%08x|%08x,` ++ anything is of this shape.
  `tagsWellFormed S R` is `S ≥ 0x100 ∧ (R = 0 ∨ R ≥ 0x100)`; `tagsForeign c S R` is
  `(R ≠ 0 ∧ R ≠ c.ourTag) ∨ (c.theirTag ≠ 0 ∧ c.theirTag ≠ S)`.

  COMMON HYPOTHESES of (1)–(4): `isOTREnabled s.conv.policies` (otherwise `Receive` returns every input as
  plaintext) and `s.conv.version = some .v3`.  For fragments also `s.conv.fragCtx.finished = false`: the stored
  fragmentation context is never a finished one between calls (a finished context is delivered and forgotten in
  the call that finishes it); a state violating this would have the stale context delivered by any fragment.
  The injection queue: `Receive` always hands out the messages queued in `conv.injections` and empties the queue;
  so "nothing to send, conversation unchanged" holds literally when the queue is empty (`receive_foreign_conv_eq`)
  and otherwise up to exactly that.

  (1) `receive_foreign_sender_ignored`: bound conversation (`theirTag ≠ 0`), complete message with `S ≥ 0x100`,
      `S ≠ theirTag`, `R = 0 ∨ R ≥ 0x100`: `Receive` returns no plaintext, no error, sends the pending injections
      only; final state = initial state with the injection queue emptied and the log extended by exactly
      `ReceivedMessageForOtherInstance` ("msg:15").  Fragments collected so far are kept.
  (2) `receive_foreign_receiver_ignored`: the same for `R ≥ 0x100`, `R ≠ ourTag` (bound or not, any `S ≥ 0x100`).
      `receive_foreign_ignored`: both at once (`tagsWellFormed`, `tagsForeign`).
      `receive_foreign_conv_eq`: with an empty injection queue: result `(none, [], none)`, final conversation
      EQUAL to the initial one, environment (randomness, clock) untouched.
  (3) `receive_malformed_tag_rejected`: `S < 0x100` or `0 < R < 0x100`, bound or unbound conversation: error
      `invalidMessage`, no plaintext, log "msg:9" (`ReceivedMessageMalformed`); sent: the pending injections and,
      when an error-message handler is installed, its reply `?OTR Error: E2`; final conversation = initial one with
      the injection queue emptied and THE COLLECTED FRAGMENTS FORGOTTEN (`Receive` forgets the fragmentation
      context on every rejected complete message).  `receive_malformed_tag_theirTag`: peer tag, version and own
      tag are what they were; unbound stays unbound.
  (4) `receive_foreign_fragment_ignored`: a v3 fragment with well-formed foreign tags: nothing returned, no
      error; final state = initial state with the injection queue emptied — `fragCtx` included — and the log
      extended by "msg:15" twice (once by `verifyInstanceTags`, once by `receiveFragment`).
      `receive_foreign_fragment_fragCtx`: the same with the two readings of "foreign" spelled out.
      `receive_malformed_fragment_rejected`: a v3 fragment with a malformed tag: error `invalid OTR fragment`, log
      "msg:9", error reply as in (3), the conversation otherwise unchanged and here the collected fragments KEPT.
  (5) `receive_theirTag_change_guard` (no hypothesis on the state except the one on `fragCtx`; every input; every
      non-panicking outcome): if the peer tag after `Receive` differs from the one before, then it was 0, the
      conversation was not committed to OTRv2, and the input carries (`carriesTags`: header of the decoded v3
      message of a complete message, or prefix of a fragment) the new peer tag as sender tag and a receiver tag
      that is 0 or our own, both well formed; a complete message was not rejected (no error reported).
      `receive_binds_only_valid`: the form "unbound before, bound to t' ≠ 0 after ⇒ t' ≥ 0x100, …".
      `receive_bound_stays`: a bound conversation stays bound to the same instance whatever it receives.
      `receive_malformed_never_binds`: an input all of whose carried tags are malformed never changes the peer tag,
      from any state; `receive_malformed_message_never_binds`, `receive_malformed_fragment_never_binds`: the two
      instances (complete message with `S < 0x100 ∨ 0 < R < 0x100` in its header; fragment with such a prefix) — no
      hypothesis on version, policies or binding: in particular an unbound conversation stays unbound.
      NOT claimed (and false, known: `c06_witness_fragment_binds_theirTag` in Proofs.RejectFrame): that a
      *fragment* that binds was not rejected — the prefix of a last fragment binds before the reassembled message
      is looked at, and the rejection of the reassembled message puts the peer tag back to what it was then.
  Witnesses (`tags_witness_*`): each theorem instantiated on a concrete state and byte string; `tags_witness_binds`:
  an accepted DH-Commit message does bind an unbound conversation (the premise of (5) is satisfiable).
-/

import Proofs.TagsRecv
namespace Otr.C15Recv
open Otr

/-- (1) a complete message from another sender instance is ignored -/
theorem receive_foreign_sender_ignored :
    type_of% @Otr.receive_foreign_sender_ignored := @Otr.receive_foreign_sender_ignored

/-- non-vacuity of (1): bound conversation `wBound` (peer 0x100, own tag 0x101), data message from 0x200 -/
example : isOTREnabled wBound.conv.policies = true ∧ wBound.conv.version = some .v3 ∧
    (guessMessageType (wDataMsg 0x200 0x101)).isOtrMsg = true ∧
    decodeEnvelope (wDataMsg 0x200 0x101) = some (wDataBody 0x200 0x101) ∧
    (wDataBody 0x200 0x101).take 2 = [0, 3] ∧ headerTags (wDataBody 0x200 0x101) = some (0x200, 0x101) ∧
    wBound.conv.theirTag ≠ 0 ∧ 0x200 ≠ wBound.conv.theirTag :=
  ⟨by decide, rfl, (wDataMsg_covered _ _ (by decide) (by decide)).1, (wDataMsg_covered _ _ (by decide) (by decide)).2.1,
    rfl, (wDataMsg_covered _ _ (by decide) (by decide)).2.2.2, by decide, by decide⟩

/-- (2) a complete message for another receiver instance is ignored -/
theorem receive_foreign_receiver_ignored :
    type_of% @Otr.receive_foreign_receiver_ignored := @Otr.receive_foreign_receiver_ignored

/-- non-vacuity of (2): the peer's message addressed to the instance 0x300 -/
example : headerTags (wDataBody 0x100 0x300) = some (0x100, 0x300) ∧ (0x300 : Nat) ≠ wBound.conv.ourTag ∧
    (guessMessageType (wDataMsg 0x100 0x300)).isOtrMsg = true :=
  ⟨(wDataMsg_covered _ _ (by decide) (by decide)).2.2.2, by decide, (wDataMsg_covered _ _ (by decide) (by decide)).1⟩

/-- (1)+(2) in one statement -/
theorem receive_foreign_ignored : type_of% @Otr.receive_foreign_ignored := @Otr.receive_foreign_ignored

/-- … with an empty injection queue the final conversation equals the initial one -/
theorem receive_foreign_conv_eq : type_of% @Otr.receive_foreign_conv_eq := @Otr.receive_foreign_conv_eq

example : wBound.conv.injections = [] ∧ tagsWellFormed 0x200 0x101 ∧ tagsForeign wBound.conv 0x200 0x101 :=
  ⟨rfl, by decide, by decide⟩

/-- the same at the level of `receiveUnit` (any `forgetFragments`) -/
theorem receiveUnit_foreign : type_of% @Otr.receiveUnit_foreign := @Otr.receiveUnit_foreign

/-- (3) a complete message with a malformed tag is rejected (exact outcome) -/
theorem receive_malformed_tag_rejected :
    type_of% @Otr.receive_malformed_tag_rejected := @Otr.receive_malformed_tag_rejected

/-- non-vacuity of (3): sender tag 0x42 -/
example : headerTags (wDataBody 0x42 0x101) = some (0x42, 0x101) ∧ ((0x42 : Nat) < 0x100 ∨ (0 < 0x101 ∧ 0x101 < 0x100)) :=
  ⟨(wDataMsg_covered _ _ (by decide) (by decide)).2.2.2, Or.inl (by decide)⟩

/-- … the binding (bound or unbound), the version and our own tag are what they were -/
theorem receive_malformed_tag_theirTag :
    type_of% @Otr.receive_malformed_tag_theirTag := @Otr.receive_malformed_tag_theirTag

theorem receiveUnit_malformed : type_of% @Otr.receiveUnit_malformed := @Otr.receiveUnit_malformed

/-- the armour parser: what it looks at -/
theorem decodeEnvelope_armour : type_of% @Otr.decodeEnvelope_armour := @Otr.decodeEnvelope_armour

/-- the canonical armour of a v3 message of a known type is covered, whatever follows the type byte -/
theorem armour_v3_known : type_of% @Otr.armour_v3_known := @Otr.armour_v3_known

theorem headerTags_be32 : type_of% @Otr.headerTags_be32 := @Otr.headerTags_be32

/-- (4) a v3 fragment for another instance is ignored; the collected fragments are kept -/
theorem receive_foreign_fragment_ignored :
    type_of% @Otr.receive_foreign_fragment_ignored := @Otr.receive_foreign_fragment_ignored

/-- non-vacuity of (4): a piece from the instance 0x200 while a fragment of the peer is being collected -/
example : guessMessageType wForeignPiece = .fragment ∧ v3PrefixParse wForeignPiece = some (0x200, 0x101, 23) ∧
    tagsWellFormed 0x200 0x101 ∧ tagsForeign wBound.conv 0x200 0x101 ∧ wBound.conv.fragCtx.finished = false ∧
    wBound.conv.fragCtx ≠ FragCtx.empty :=
  ⟨(fragTag_covered 0x200 0x101 _ (by decide) (by decide)).1, (fragTag_covered 0x200 0x101 _ (by decide) (by decide)).2,
    by decide, by decide, rfl, by decide⟩

theorem receive_foreign_fragment_fragCtx :
    type_of% @Otr.receive_foreign_fragment_fragCtx := @Otr.receive_foreign_fragment_fragCtx

theorem receiveUnit_foreign_fragment :
    type_of% @Otr.receiveUnit_foreign_fragment := @Otr.receiveUnit_foreign_fragment

/-- (4) a v3 fragment with a malformed tag is rejected; binding and collected fragments as before -/
theorem receive_malformed_fragment_rejected :
    type_of% @Otr.receive_malformed_fragment_rejected := @Otr.receive_malformed_fragment_rejected

/-- the fragments a v3 sender writes, followed by anything, are covered -/
theorem fragTag_covered : type_of% @Otr.fragTag_covered := @Otr.fragTag_covered

/-- (5) what a change of the peer tag guarantees -/
theorem receive_theirTag_change_guard :
    type_of% @Otr.receive_theirTag_change_guard := @Otr.receive_theirTag_change_guard

/-- (5) in the form "unbound before, bound afterwards" -/
theorem receive_binds_only_valid : type_of% @Otr.receive_binds_only_valid := @Otr.receive_binds_only_valid

/-- non-vacuity of (5): `tags_witness_binds` — the premise (the peer tag changes) is satisfiable -/
theorem tags_witness_binds : type_of% @Otr.tags_witness_binds := @Otr.tags_witness_binds

/-- a bound conversation stays bound to the same instance -/
theorem receive_bound_stays : type_of% @Otr.receive_bound_stays := @Otr.receive_bound_stays

example : wBound.conv.fragCtx.finished = false ∧ wBound.conv.theirTag ≠ 0 := ⟨rfl, by decide⟩

/-- malformed tags never bind, from any state -/
theorem receive_malformed_never_binds :
    type_of% @Otr.receive_malformed_never_binds := @Otr.receive_malformed_never_binds

/-- (3) from ANY state: a complete message with malformed header tags never changes the peer tag -/
theorem receive_malformed_message_never_binds :
    type_of% @Otr.receive_malformed_message_never_binds := @Otr.receive_malformed_message_never_binds

/-- non-vacuity: the fresh unbound conversation `wUnbound` (no version yet) and the message with sender tag 0x42 -/
example : wUnbound.conv.fragCtx.finished = false ∧ wUnbound.conv.theirTag = 0 ∧ wUnbound.conv.version = none ∧
    (guessMessageType (wDataMsg 0x42 0x101)).isOtrMsg = true ∧
    decodeEnvelope (wDataMsg 0x42 0x101) = some (wDataBody 0x42 0x101) ∧
    headerTags (wDataBody 0x42 0x101) = some (0x42, 0x101) :=
  ⟨rfl, rfl, rfl, (wDataMsg_covered _ _ (by decide) (by decide)).1, (wDataMsg_covered _ _ (by decide) (by decide)).2.1,
    (wDataMsg_covered _ _ (by decide) (by decide)).2.2.2⟩

/-- … and a fragment with malformed prefix tags -/
theorem receive_malformed_fragment_never_binds :
    type_of% @Otr.receive_malformed_fragment_never_binds := @Otr.receive_malformed_fragment_never_binds

example : guessMessageType (fragTag .v3 0x42 0 ++ [65]) = .fragment ∧
    v3PrefixParse (fragTag .v3 0x42 0 ++ [65]) = some (0x42, 0, 23) :=
  fragTag_covered 0x42 0 [65] (by decide) (by decide)

/-- the level below: `receiveDecoded` -/
theorem receiveDecoded_bind_guard : type_of% @Otr.receiveDecoded_bind_guard := @Otr.receiveDecoded_bind_guard

/-- the theorems instantiated -/
theorem tags_witness_foreign_sender :
    type_of% @Otr.tags_witness_foreign_sender := @Otr.tags_witness_foreign_sender
theorem tags_witness_foreign_receiver :
    type_of% @Otr.tags_witness_foreign_receiver := @Otr.tags_witness_foreign_receiver
theorem tags_witness_malformed : type_of% @Otr.tags_witness_malformed := @Otr.tags_witness_malformed
theorem tags_witness_foreign_fragment :
    type_of% @Otr.tags_witness_foreign_fragment := @Otr.tags_witness_foreign_fragment

end Otr.C15Recv
