/-
  Props.C19 — a conversation's retained state is bounded, whatever the traffic.

  `c19_bounded`: in every state reachable from the post-AKE state by accepted messages, sends and
  rejected messages, at most 4 counter entries and 4 MAC-history entries exist (one per pair of the
  2×2 key window). `c19_queue_bound`: the reveal queue holds at most 3 keys per message accepted
  since the last send and is emptied by every send (`c19_send_resets`), so no outgoing message grows
  with the history. A session-wide constant for the queue is a two-party fact (an honest peer cannot
  make us rotate twice without our sending in between): not proved; measured by the `sched` oracle.
  Rejected (forged, garbage) messages do not touch the key-management context at all
  (Proofs.ConvData `c06_data_frame`). Resend queue / injections: Proofs.ConvLife; Go oracle in `sched`.
  Re-keying (repaired code): `akeHasFinished` carries the MAC keys of the replaced session into the new
  reveal queue (Props.C09); `reveal_carried_keys` / `_outcome` / `_ready`: when the exchange completes and
  nothing is retransmitted, an empty data message carrying the whole queue goes out at once and the
  queue is empty afterwards — it does not grow with every further exchange of a silent user.
  API level (Proofs.KeysRefine): `apiCall_keys_refine` — every API call that ends moves `conv.keys` along a
  history of steps `KStep'` and session boundaries (`akeHasFinished`, `End`, disconnect); `runApi_bounded`: the
  bounds survive every sequence of API calls, across sessions. For ALL sequences from a fresh conversation
  (with panic-freedom): Props.C19Api (`api_sequence_keys_refine`, `api_c19_bounded`) — a separate module
  because its imports (Proofs.NoPanic) and this one's (Proofs.Fixes2) can not be combined.
  Peer's disconnect (repaired code, Proofs.Fixes5): the MAC keys of the conversation that ends stay in the reveal
  queue; `processDisconnectedTLV_queue_length` / `_queue_bound`: exactly |MAC history| ≤ 4 keys are added and
  the context stays bounded; `disc_queue_bound_histE`: the queue holds at most |old queue| + 4 keys until a
  key exchange completes (nothing can be sent before); `disconnect_then_ake_next_message_reveals`: the first
  data message of the next conversation carries them all and empties the queue.
-/

import Proofs.Keys
import Proofs.Fixes2
import Proofs.KeysRefine
import Proofs.Fixes5Send
namespace Otr.C19
open Otr

theorem c19_bounded {K} {a b : DhPair} {y : Nat} {k : Keys}
    (hs : KSteps K (Keys.postAKE a b y) k) :
    WF k ∧ k.counters.length ≤ 4 ∧ k.macHistory.length ≤ 4 := by
  first | exact Otr.c19_bounded | exact @Otr.c19_bounded | (apply Otr.c19_bounded <;> assumption) | (intros; apply Otr.c19_bounded <;> assumption)

theorem c19_lengths {k : Keys} (h : WF k) : k.counters.length ≤ 4 ∧ k.macHistory.length ≤ 4 := by
  first | exact Otr.c19_lengths | exact @Otr.c19_lengths | (apply Otr.c19_lengths <;> assumption) | (intros; apply Otr.c19_lengths <;> assumption)

theorem c19_step_sum {K} {k k' : Keys} (hs : KStep K k k') :
    k'.oldMACKeys.length + k'.macHistory.length ≤ k.oldMACKeys.length + k.macHistory.length + 1 := by
  first | exact Otr.c19_step_sum | exact @Otr.c19_step_sum | (apply Otr.c19_step_sum <;> assumption) | (intros; apply Otr.c19_step_sum <;> assumption)

theorem c19_step_queue {K} {k k' : Keys} (hs : KStep K k k') :
    k'.oldMACKeys.length ≤ k.oldMACKeys.length + k.macHistory.length := by
  first | exact Otr.c19_step_queue | exact @Otr.c19_step_queue | (apply Otr.c19_step_queue <;> assumption) | (intros; apply Otr.c19_step_queue <;> assumption)

theorem c19_recv_le3 {K} {k : Keys} (hwf : WF k) {r s n : Nat} (hacc : k.accepts K r s n)
    (y : Nat) (p : Bytes) :
    (k.afterAccept K r s n y p).oldMACKeys.length ≤ k.oldMACKeys.length + 3 := by
  first | exact Otr.c19_recv_le3 | exact @Otr.c19_recv_le3 | (apply Otr.c19_recv_le3 <;> assumption) | (intros; apply Otr.c19_recv_le3 <;> assumption)

theorem c19_send_resets {K} (k : Keys) : (k.afterSend K).oldMACKeys.length = 0 := by
  first | exact Otr.c19_send_resets | exact @Otr.c19_send_resets | (apply Otr.c19_send_resets <;> assumption) | (intros; apply Otr.c19_send_resets <;> assumption)

theorem c19_queue_bound {K} {m : Nat} {k0 k : Keys} (hwf : WF k0) (h0 : k0.oldMACKeys = [])
    (h : KStepsN K m k0 k) :
    k.oldMACKeys.length ≤ 3 * m ∧ k.counters.length ≤ 4 ∧ k.macHistory.length ≤ 4 := by
  first | exact Otr.c19_queue_bound | exact @Otr.c19_queue_bound | (apply Otr.c19_queue_bound <;> assumption) | (intros; apply Otr.c19_queue_bound <;> assumption)

theorem wf_postAKE (a b : DhPair) (y : Nat) : WF (Keys.postAKE a b y) := by
  first | exact Otr.wf_postAKE | exact @Otr.wf_postAKE | (apply Otr.wf_postAKE <;> assumption) | (intros; apply Otr.wf_postAKE <;> assumption)

/-- every outcome of generating a data message: on success it carries the whole reveal queue and the queue is empty -/
theorem genDataMsgWithFlag_outcome (K : Crypto) (m : Bytes) (flag : Nat) (tlvs : List Tlv) (s : MState)
    (r : Except Err (DataMsg × Bytes)) (s' : MState)
    (h : runM (genDataMsgWithFlag K m flag tlvs) s = .ok (r, s')) :
    (∃ e, r = .error e ∧ s'.conv.mayRetransmit = s.conv.mayRetransmit ∧ s'.conv.resendMsgs = s.conv.resendMsgs ∧
      s'.conv.retransmitting = s.conv.retransmitting ∧ s'.conv.keys.oldMACKeys = s.conv.keys.oldMACKeys) ∨
    (∃ dm x, r = .ok (dm, x) ∧ s.conv.msgState = .encrypted ∧
      dm.oldMACKeys = s.conv.keys.oldMACKeys ∧ s'.conv.keys.oldMACKeys = [] ∧
      s'.conv.mayRetransmit = .no ∧ s'.conv.retransmitting = s.conv.retransmitting ∧
      s'.conv.resendMsgs = if m.length > 0 ∧ s.conv.retransmitting = false then [m] else s.conv.resendMsgs) := by
  first | exact Otr.genDataMsgWithFlag_outcome | exact @Otr.genDataMsgWithFlag_outcome | (apply Otr.genDataMsgWithFlag_outcome <;> assumption) | (intros; apply Otr.genDataMsgWithFlag_outcome <;> assumption)

/-- repaired code: MAC keys carried over a re-keying are revealed at once -/
theorem reveal_carried_keys (K : Crypto) (before : AuthState) (hb : before ≠ .none)
    (s s1 s2 s' : MState) (dm : DataMsg) (x m : Bytes)
    (h1 : runM (maybeRetransmit K) s = .ok (.ok [], s1))
    (h2 : s1.conv.keys.oldMACKeys ≠ [])
    (h3 : runM (genDataMsgWithFlag K [] messageFlagIgnoreUnreadable []) s1 = .ok (.ok (dm, x), s2))
    (h4 : runM (wrapMessageHeader msgTypeData dm.serialize) s2 = .ok (.ok m, s')) :
    runM (retransmitAfterCompletedExchange K before .none none) s = .ok (.ok [m], s') ∧
    dm.flag = messageFlagIgnoreUnreadable ∧
    dm.oldMACKeys = s1.conv.keys.oldMACKeys ∧ s'.conv.keys.oldMACKeys = [] := by
  first | exact Otr.reveal_carried_keys | exact @Otr.reveal_carried_keys | (apply Otr.reveal_carried_keys <;> assumption) | (intros; apply Otr.reveal_carried_keys <;> assumption)

/-- the same read off the outcome: anything returned means the queue is empty -/
theorem reveal_carried_keys_outcome (K : Crypto) (before : AuthState) (hb : before ≠ .none)
    (s s1 s' : MState) (msgs : List Bytes)
    (h1 : runM (maybeRetransmit K) s = .ok (.ok [], s1))
    (h2 : s1.conv.keys.oldMACKeys ≠ [])
    (h : runM (retransmitAfterCompletedExchange K before .none none) s = .ok (.ok msgs, s')) :
    (msgs ≠ [] → s'.conv.keys.oldMACKeys = []) ∧
    (msgs = [] → s'.conv.keys.oldMACKeys = s1.conv.keys.oldMACKeys) := by
  first | exact Otr.reveal_carried_keys_outcome | exact @Otr.reveal_carried_keys_outcome | (apply Otr.reveal_carried_keys_outcome <;> assumption) | (intros; apply Otr.reveal_carried_keys_outcome <;> assumption)

/-- exact, from a ready state: one data message with the whole queue, queue empty afterwards -/
theorem reveal_carried_keys_ready (K : Crypto) (before : AuthState) (hb : before ≠ .none) (s : MState)
    (h : SendReady K s.conv)
    (hidle : ¬ (s.conv.resendMsgs.length > 0 ∧ s.conv.mayRetransmit ≠ .no))
    (hq : s.conv.keys.oldMACKeys ≠ []) :
    runM (retransmitAfterCompletedExchange K before .none none) s =
      .ok (.ok [rawDataWith K messageFlagIgnoreUnreadable s.conv (cipherOf K s.conv.keys (plainBytes [] []))],
        { s with conv := s.conv.afterData K [] }) ∧
    (s.conv.afterData K []).keys.oldMACKeys = [] := by
  first | exact Otr.reveal_carried_keys_ready | exact @Otr.reveal_carried_keys_ready | (apply Otr.reveal_carried_keys_ready <;> assumption) | (intros; apply Otr.reveal_carried_keys_ready <;> assumption)

/-- refinement, one call: every API call that ends moves `conv.keys` along a history of key-management steps and session boundaries -/
theorem apiCall_keys_refine : type_of% @Otr.apiCall_keys_refine := @Otr.apiCall_keys_refine

/-- refinement, sequences of calls from any conversation with a clean AKE key context -/
theorem runApi_keys_refine : type_of% @Otr.runApi_keys_refine := @Otr.runApi_keys_refine

/-- at most 4 counters and 4 MAC-history entries after any sequence of API calls from a bounded state, across sessions -/
theorem runApi_bounded : type_of% @Otr.runApi_bounded := @Otr.runApi_bounded

/-- repaired code: the reveal queue after the peer's disconnect, exactly and bounded -/
theorem processDisconnectedTLV_queue_length : type_of% @Otr.processDisconnectedTLV_queue_length :=
  @Otr.processDisconnectedTLV_queue_length

theorem processDisconnectedTLV_queue_bound (s : MState) (r : Except Err Unit) (s' : MState)
    (hb : s.conv.keys.Bnd) (h : runM processDisconnectedTLV s = .ok (r, s')) :
    s'.conv.keys.oldMACKeys.length ≤ s.conv.keys.oldMACKeys.length + 4 ∧ s'.conv.keys.Bnd := by
  first | exact Otr.processDisconnectedTLV_queue_bound | exact @Otr.processDisconnectedTLV_queue_bound | (apply Otr.processDisconnectedTLV_queue_bound <;> assumption) | (intros; apply Otr.processDisconnectedTLV_queue_bound <;> assumption)

/-- the bound holds until a key exchange completes -/
theorem disc_queue_bound_histE {K} {k k' : Keys} (hb : k.Bnd) (hs : KHistE K k.afterDisc k') :
    k'.oldMACKeys.length ≤ k.oldMACKeys.length + 4 := by
  first | exact Otr.disc_queue_bound_histE | exact @Otr.disc_queue_bound_histE | (apply Otr.disc_queue_bound_histE <;> assumption) | (intros; apply Otr.disc_queue_bound_histE <;> assumption)

/-- peer disconnect, completed key exchange, next data message: all kept MAC keys are revealed, the queue is empty -/
theorem disconnect_then_ake_next_message_reveals : type_of% @Otr.disconnect_then_ake_next_message_reveals :=
  @Otr.disconnect_then_ake_next_message_reveals

end Otr.C19
