/-
  Props.C19 — a conversation's retained state is bounded, whatever the traffic.

  `c19_bounded`: in every state reachable from the post-AKE state by accepted messages, sends and
  rejected messages, at most 4 counter entries and 4 MAC-history entries exist (one per pair of the
  2×2 key window). `c19_queue_bound`: the reveal queue holds at most 3 keys per message accepted
  since the last send and is emptied by every send (`c19_send_resets`), so no outgoing message grows
  with the history. A session-wide constant for the queue is a two-party fact (an honest peer cannot
  make us rotate twice without our sending in between): not proved; measured by the `sched` oracle.
  Rejected (forged, garbage) messages do not touch the key-management context at all
  (Proofs.ConvData `c06_data_frame`). Resend queue / injections: Proofs.ConvLife; Go oracle in `sched`.
-/

import Proofs.Keys
namespace Otr.C19
open Otr

theorem c19_bounded {K} {a b : DhPair} {y : Nat} {k : Keys}
    (hs : KSteps K (Keys.postAKE a b y) k) :
    WF k ∧ k.counters.length ≤ 4 ∧ k.macHistory.length ≤ 4 := by
  first | exact Otr.c19_bounded | exact @Otr.c19_bounded | (apply Otr.c19_bounded <;> assumption) | (intros; apply Otr.c19_bounded <;> assumption)

theorem c19_lengths {k : Keys} (h : WF k) : k.counters.length ≤ 4 ∧ k.macHistory.length ≤ 4 := by
  first | exact Otr.c19_lengths | exact @Otr.c19_lengths | (apply Otr.c19_lengths <;> assumption) | (intros; apply Otr.c19_lengths <;> assumption)

theorem c19_step_sum {K} {k k' : Keys} (hs : KStep K k k') :
    k'.oldMACKeys.length + k'.macHistory.length ≤ k.oldMACKeys.length + k.macHistory.length + 1 := by
  first | exact Otr.c19_step_sum | exact @Otr.c19_step_sum | (apply Otr.c19_step_sum <;> assumption) | (intros; apply Otr.c19_step_sum <;> assumption)

theorem c19_step_queue {K} {k k' : Keys} (hs : KStep K k k') :
    k'.oldMACKeys.length ≤ k.oldMACKeys.length + k.macHistory.length := by
  first | exact Otr.c19_step_queue | exact @Otr.c19_step_queue | (apply Otr.c19_step_queue <;> assumption) | (intros; apply Otr.c19_step_queue <;> assumption)

theorem c19_recv_le3 {K} {k : Keys} (hwf : WF k) {r s n : Nat} (hacc : k.accepts K r s n)
    (y : Nat) (p : Bytes) :
    (k.afterAccept K r s n y p).oldMACKeys.length ≤ k.oldMACKeys.length + 3 := by
  first | exact Otr.c19_recv_le3 | exact @Otr.c19_recv_le3 | (apply Otr.c19_recv_le3 <;> assumption) | (intros; apply Otr.c19_recv_le3 <;> assumption)

theorem c19_send_resets {K} (k : Keys) : (k.afterSend K).oldMACKeys.length = 0 := by
  first | exact Otr.c19_send_resets | exact @Otr.c19_send_resets | (apply Otr.c19_send_resets <;> assumption) | (intros; apply Otr.c19_send_resets <;> assumption)

theorem c19_queue_bound {K} {m : Nat} {k0 k : Keys} (hwf : WF k0) (h0 : k0.oldMACKeys = [])
    (h : KStepsN K m k0 k) :
    k.oldMACKeys.length ≤ 3 * m ∧ k.counters.length ≤ 4 ∧ k.macHistory.length ≤ 4 := by
  first | exact Otr.c19_queue_bound | exact @Otr.c19_queue_bound | (apply Otr.c19_queue_bound <;> assumption) | (intros; apply Otr.c19_queue_bound <;> assumption)

theorem wf_postAKE (a b : DhPair) (y : Nat) : WF (Keys.postAKE a b y) := by
  first | exact Otr.wf_postAKE | exact @Otr.wf_postAKE | (apply Otr.wf_postAKE <;> assumption) | (intros; apply Otr.wf_postAKE <;> assumption)

end Otr.C19
