/-
  Props.C05 — no data message is ever accepted twice.

  Key-management layer (Otr.Keys, tied to key_management.go by the whole-session correspondence
  profiles): `KStep`/`KSteps` is the effect of any sequence of accepted messages, sends and rejected
  messages on the key-management context (Proofs.Keys, built from the model functions).
  `c05_no_replay`: once (recipientKeyID r, senderKeyID s, counter n) has been accepted, the same
  triple — and any older counter of that pair (`c05_no_older`) — is rejected in every later state of
  the session, whatever traffic and however many rotations happened in between: either the stored
  counter of the pair is ≥ n, or one of its key ids has left the two-generation window, which is
  monotone. Sender side: counters of one pair strictly increase (`c05_send_counters_increase`).
  Conversation level (Proofs.ConvData): acceptance goes through `checkMessageCounter` only after the
  MAC verified, and an immediate replay is rejected. Fragment level: Props.C14 (`c14_once`).
  Cross-session replay rests on fresh DH keys per session (ideal-crypto assumption, DESIGN §6); it is
  exercised by the `sched`/`life` oracles (replays after End / re-AKE), not a theorem.
  API level (Proofs.KeysRefine; the refinement itself is registered in Props.C19Api): whatever an API call
  does to `conv.keys` is a history `KHist` of steps `KStep'` and session boundaries (`akeHasFinished`,
  `End`, the peer's disconnect). `KStep'` = `KStep` plus the three things the conversation does that
  `KStep` lacks: accepted but the rotation failed for lack of randomness (`recvNoRot`), a refused replay
  leaving the counter entry `findCounter` created (`replay`), a send that stopped at the message header
  (`sendAbort`). `c05_no_replay'` / `c05_no_replay_until_ake` lift C05 to these steps and across `End` /
  disconnect (everything short of a completed key exchange); `api_c05_no_replay_within_session` states it
  between two states of any API history from a fresh conversation.
-/

import Proofs.Keys
import Proofs.KeysRefineApi
namespace Otr.C05
open Otr

theorem c05_no_replay {K} {k k1 k2 : Keys} {r s n y : Nat} {np : Bytes}
    (hacc : k.accepts K r s n) (hk1 : k1 = k.afterAccept K r s n y np) (hs : KSteps K k1 k2) :
    ¬ k2.accepts K r s n := by
  first | exact Otr.c05_no_replay | exact @Otr.c05_no_replay | (apply Otr.c05_no_replay <;> assumption) | (intros; apply Otr.c05_no_replay <;> assumption)

theorem c05_no_older {K} {k k1 k2 : Keys} {r s n m y : Nat} {np : Bytes}
    (hacc : k.accepts K r s n) (hk1 : k1 = k.afterAccept K r s n y np) (hs : KSteps K k1 k2)
    (hm : m ≤ n) : ¬ k2.accepts K r s m := by
  first | exact Otr.c05_no_older | exact @Otr.c05_no_older | (apply Otr.c05_no_older <;> assumption) | (intros; apply Otr.c05_no_older <;> assumption)

theorem c05_send_counters_increase {K} {k k2 : Keys}
    (hd : ∃ sk, k.deriveSessionKeys K (k.ourKeyID - 1) k.theirKeyID = .ok sk)
    (hs : KSteps K (k.afterSend K) k2)
    (ho : k2.ourKeyID = k.ourKeyID) (ht : k2.theirKeyID = k.theirKeyID) :
    k.sendCtr < k2.sendCtr := by
  first | exact Otr.c05_send_counters_increase | exact @Otr.c05_send_counters_increase | (apply Otr.c05_send_counters_increase <;> assumption) | (intros; apply Otr.c05_send_counters_increase <;> assumption)

theorem c05_send_counter_next {K} {k : Keys}
    (hd : ∃ sk, k.deriveSessionKeys K (k.ourKeyID - 1) k.theirKeyID = .ok sk) :
    k.sendCtr < (k.afterSend K).sendCtr := by
  first | exact Otr.c05_send_counter_next | exact @Otr.c05_send_counter_next | (apply Otr.c05_send_counter_next <;> assumption) | (intros; apply Otr.c05_send_counter_next <;> assumption)

theorem retired_forever {K k k'} (h : KSteps K k k') (i j : Nat)
    (hr : i + 1 < k.ourKeyID ∨ j + 1 < k.theirKeyID) :
    ∃ e, k'.deriveSessionKeys K i j = .error e := by
  first | exact Otr.retired_forever | exact @Otr.retired_forever | (apply Otr.retired_forever <;> assumption) | (intros; apply Otr.retired_forever <;> assumption)

/-- repaired code: a rotation that cannot draw its new key changes nothing — no MAC key queued for
    disclosure, no counter forgotten (before the repair the previous generation stayed valid while its
    counters were forgotten and its MAC keys revealed: replay accepted after a randomness failure) -/
theorem rotateOurKeys_fail_unchanged (K : Crypto) (k : Keys) (r : Nat) :
    k.rotateOurKeys K r none = (k, if r = k.ourKeyID then some .shortRandom else none) :=
  Otr.rotateOurKeys_fail_unchanged K k r

/-- a history without session boundary is a sequence of steps, and conversely -/
theorem khist_zero_iff : type_of% @Otr.khist_zero_iff := @Otr.khist_zero_iff

/-- C05 over the steps the conversation really takes (failed rotation, refused replay, aborted send included) -/
theorem c05_no_replay' : type_of% @Otr.c05_no_replay' := @Otr.c05_no_replay'

/-- C05 across `End` and the peer's disconnect: no replay until a key exchange completes -/
theorem c05_no_replay_until_ake : type_of% @Otr.c05_no_replay_until_ake := @Otr.c05_no_replay_until_ake

/-- C05 between two states of an API history with no completed key exchange in between (no hypothesis on the cryptography) -/
theorem runApi_c05_no_replay : type_of% @Otr.runApi_c05_no_replay := @Otr.runApi_c05_no_replay

/-- C05 between two states of an API history from a fresh conversation with no completed key exchange in between -/
theorem api_c05_no_replay_within_session : type_of% @Otr.api_c05_no_replay_within_session :=
  @Otr.api_c05_no_replay_within_session

end Otr.C05
