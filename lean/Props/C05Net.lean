/-
  Props.C05Net — C05 (with the authenticity assumption of C02) for TWO parties over an UNRELIABLE,
  HOSTILE network: "under arbitrary duplication, reordering and loss each text sent in an encrypted
  session is delivered at most once".

  The system (Proofs.RatchetNet).  `Net` = the two key-management contexts (`Keys`, the model
  functions of Otr.Keys, as in Props.C04) and, per direction, the LOG of every data message ever sent.
  Nothing is ever removed from a log.  The position of a wire in its log is its ghost *send index*:
  two sends of the same text are two different events.  Steps (`NStep`, labelled by events `Ev`):
    sendA t / sendB t      — as in C04: needs `Keys.canSend`, appends `Keys.wire t` to the log;
    deliverAB i / BA i     — the network hands the wire with ANY send index `i` of that direction to
                             the receiver: any order, any number of times.  If the receiver
                             `Keys.acceptsWire` it, its key context advances (`Keys.deliver`) and the
                             ghost list `accAB`/`accBA` records (send index, wire); the event is
                             `accAB i text`.  Otherwise the event is `rejAB i` and NOTHING changes
                             (`reject_unchanged`: that is what the model does for such wires);
    drop                   — nothing happens (loss; or the receiver refuses for a reason outside this
                             model, e.g. the MAC does not verify: an accept is never forced).
  `NRun K s0 L s`: the schedule with events `L` (oldest first, unbounded length) leads from `s0` to
  `s`.  `Net.init a b`: nothing sent yet, key contexts `a`, `b`.  `Net.start a1 a2 b1 b2`: the
  contexts of `Sys2.init`, the state right after the key exchange.

  ASSUMPTION (C02, MAC unforgeability).  Only wires logged IN THAT DIRECTION can be delivered, and
  with all their fields unchanged: the attacker decides which, when, how often, in which order, but
  cannot make a data message the peer did not send (nor reflect a party's own messages back to it:
  the MAC keys of the two directions differ).  What the receiver does with forged or altered bytes
  is C02 (`c02_guard`, `receive_plaintext_authentic`).  Not modelled, as in C04: a rotation failing
  for lack of randomness, a send that stops at the message header (Proofs.KeysRefine `KStep'`).

  NO OTHER HYPOTHESIS: the theorems hold for every `K : Crypto`, every pair of initial key contexts
  `a b : Keys` (so in particular for `Net.start a1 a2 b1 b2` with or without `DhPair.ok`), every
  schedule.  The FIFO invariant of C04 is not used (it is false on this network).  On a lossy
  network a sender may become unable to send; these are safety statements.

  What each theorem says, in plain words
  (1) `c05_net_at_most_once`      — among the deliveries a side accepted, no send index occurs
        twice: every sent message is delivered at most once, whatever the network does.
        `c05_net_events_at_most_once`: the same read off the event labels of the schedule.
  (2) `c05_net_delivered_were_sent` — every accepted delivery carries the index of a send of that
        direction; the wire is the one that send produced; its text is the text given to that send.
        `c05_net_delivered_after_sent`: on the timeline — an event "accepted index i, text t" is
        preceded by the i-th send event of that direction, and that send had the text t.
  (3) `sent_triples_distinct`     — over EVERY history of one party (`SSteps`: sends interleaved
        with arbitrary accepted messages, any number of rotations; peer and network unconstrained)
        two different sends never put the same (sender key id, recipient key id, counter) on the
        wire.  `sent_wires_sorted`: more precisely the sent wires strictly increase in the order
        `WireLe` (key ids never decrease, counters of one pair strictly increase).
        `c05_net_sent_triples_distinct`, `c05_net_index_determined`: the same inside the two-party
        system; hence the send index the ghost lists record is determined by the bytes of the wire.
  (4) `c05_net_in_order_per_pair_partial` — the accepted deliveries of one (sender key id, recipient
        key id) pair happen in strictly increasing counter order.
  (5) beyond the task: `c05_net_no_reorder` — the accepted send indices of a direction are STRICTLY
        INCREASING in the order of acceptance (this implies (1)): accepting a wire closes the door
        on everything sent before it — lower counter under the same pair, or a key id that has left
        the receiver's two-generation window.  `c05_net_subsequence` /
        `c05_net_events_subsequence`: the texts a side accepted, in order of acceptance, are a
        SUBLIST of the texts the other side sent, in order of sending.  A hostile network can lose
        messages; it can neither duplicate nor permute them.
  (6) `reject_unchanged`, `c05_net_logged_counter_pos` — justification of "a refused delivery leaves
        the state unchanged": for a wire with counter ≥ 1 (all logged wires) that passes
        `deriveSessionKeys` and fails the counter check, `checkMessageCounter` returns the key
        context it was given, and an error.
  Non-vacuity: `test_duplicate`, `test_same_text_twice`, `test_overtaken_is_lost`,
  `test_rotation_replays` are concrete schedules from `Net.start` (kernel-evaluated under
  `Crypto.dummy`) in which messages are sent, accepted, refused as duplicates, lost by overtaking,
  across rotations of both ratchets; the `example`s below instantiate the theorems on them.
-/

import Proofs.RatchetNet
namespace Otr.C05Net
open Otr

/-- (1) at most once -/
theorem c05_net_at_most_once {K : Crypto} {a b : Keys} {L : List Ev} {s : Net}
    (h : NRun K (Net.init a b) L s) :
    (s.accAB.map Prod.fst).Nodup ∧ (s.accBA.map Prod.fst).Nodup :=
  Otr.c05_net_at_most_once h

/-- (1) on the event labels -/
theorem c05_net_events_at_most_once {K : Crypto} {a b : Keys} {L : List Ev} {s : Net}
    (h : NRun K (Net.init a b) L s) :
    ((acceptsAB L).map Prod.fst).Nodup ∧ ((acceptsBA L).map Prod.fst).Nodup :=
  Otr.c05_net_events_at_most_once h

/-- (2) delivered = sent, text unchanged -/
theorem c05_net_delivered_were_sent {K : Crypto} {a b : Keys} {L : List Ev} {s : Net}
    (h : NRun K (Net.init a b) L s) :
    (∀ e ∈ s.accAB, s.logAB[e.1]? = some e.2 ∧ s.sentA[e.1]? = some e.2.txt) ∧
    (∀ e ∈ s.accBA, s.logBA[e.1]? = some e.2 ∧ s.sentB[e.1]? = some e.2.txt) :=
  Otr.c05_net_delivered_were_sent h

/-- (2) on the timeline: the send comes first -/
theorem c05_net_delivered_after_sent {K : Crypto} {a b : Keys} {L : List Ev} {s : Net}
    (h : NRun K (Net.init a b) L s) :
    (∀ pre post i t, L = pre ++ Ev.accAB i t :: post → (sendsA pre)[i]? = some t) ∧
    (∀ pre post i t, L = pre ++ Ev.accBA i t :: post → (sendsB pre)[i]? = some t) :=
  Otr.c05_net_delivered_after_sent h

/-- (3) one party, all histories: the sent wires strictly increase in the sender's order -/
theorem sent_wires_sorted {K : Crypto} {k0 k : Keys} {log : List Wire}
    (h : SSteps K (k0, []) (k, log)) : log.Pairwise WireLe :=
  Otr.sent_wires_sorted h

/-- (3) one party, all histories: no two sends with the same (s, r, n) -/
theorem sent_triples_distinct {K : Crypto} {k0 k : Keys} {log : List Wire}
    (h : SSteps K (k0, []) (k, log)) : log.Pairwise (fun m m' => m.triple ≠ m'.triple) :=
  Otr.sent_triples_distinct h

/-- (3) in the two-party system -/
theorem c05_net_sent_triples_distinct {K : Crypto} {a b : Keys} {L : List Ev} {s : Net}
    (h : NRun K (Net.init a b) L s) :
    s.logAB.Pairwise (fun m m' => m.triple ≠ m'.triple) ∧
    s.logBA.Pairwise (fun m m' => m.triple ≠ m'.triple) :=
  Otr.c05_net_sent_triples_distinct h

/-- (3) the send index is determined by the wire -/
theorem c05_net_index_determined {K : Crypto} {a b : Keys} {L : List Ev} {s : Net}
    (h : NRun K (Net.init a b) L s) :
    (∀ (i j : Nat) (m m' : Wire), s.logAB[i]? = some m → s.logAB[j]? = some m' → m.triple = m'.triple → i = j) ∧
    (∀ (i j : Nat) (m m' : Wire), s.logBA[i]? = some m → s.logBA[j]? = some m' → m.triple = m'.triple → i = j) :=
  Otr.c05_net_index_determined h

/-- (4) per pair, accepted counters increase -/
theorem c05_net_in_order_per_pair_partial {K : Crypto} {a b : Keys} {L : List Ev} {s : Net}
    (h : NRun K (Net.init a b) L s) :
    (s.accAB.map Prod.snd).Pairwise (fun m m' => m.s = m'.s → m.r = m'.r → m.n < m'.n) ∧
    (s.accBA.map Prod.snd).Pairwise (fun m m' => m.s = m'.s → m.r = m'.r → m.n < m'.n) :=
  Otr.c05_net_in_order_per_pair_partial h

/-- (5) accepted send indices strictly increase -/
theorem c05_net_no_reorder {K : Crypto} {a b : Keys} {L : List Ev} {s : Net}
    (h : NRun K (Net.init a b) L s) :
    (s.accAB.map Prod.fst).Pairwise (· < ·) ∧ (s.accBA.map Prod.fst).Pairwise (· < ·) :=
  Otr.c05_net_no_reorder h

/-- (5) accepted texts are a sublist of the sent texts -/
theorem c05_net_subsequence {K : Crypto} {a b : Keys} {L : List Ev} {s : Net}
    (h : NRun K (Net.init a b) L s) :
    (s.accAB.map (fun e => e.2.txt)).Sublist s.sentA ∧
    (s.accBA.map (fun e => e.2.txt)).Sublist s.sentB :=
  Otr.c05_net_subsequence h

/-- (5) on the event labels -/
theorem c05_net_events_subsequence {K : Crypto} {a b : Keys} {L : List Ev} {s : Net}
    (h : NRun K (Net.init a b) L s) :
    ((acceptsAB L).map Prod.snd).Sublist (sendsA L) ∧
    ((acceptsBA L).map Prod.snd).Sublist (sendsB L) :=
  Otr.c05_net_events_subsequence h

/-- (6) a refused logged wire leaves the key context as it is -/
theorem reject_unchanged {K : Crypto} {k : Keys} {m : Wire}
    (hd : ∃ sk, k.deriveSessionKeys K m.r m.s = .ok sk) (hn : ¬ k.acceptsWire K m) (hpos : 1 ≤ m.n) :
    (k.checkMessageCounter m.r m.s m.n).1 = k ∧ (k.checkMessageCounter m.r m.s m.n).2 ≠ none :=
  Otr.reject_unchanged hd hn hpos

theorem c05_net_logged_counter_pos {K : Crypto} {a b : Keys} {L : List Ev} {s : Net}
    (h : NRun K (Net.init a b) L s) :
    (∀ m ∈ s.logAB, 1 ≤ m.n) ∧ (∀ m ∈ s.logBA, 1 ≤ m.n) :=
  Otr.c05_net_logged_counter_pos h

/-- the case of the task statement: every state reachable from the state right after the key
    exchange (`Sys2.init a1 a2 b1 b2`; `DhPair.ok` is not needed) -/
theorem c05_net_after_key_exchange {K : Crypto} {a1 a2 b1 b2 : DhPair} {L : List Ev} {s : Net}
    (h : NRun K (Net.start a1 a2 b1 b2) L s) :
    ((s.accAB.map Prod.fst).Nodup ∧ (s.accBA.map Prod.fst).Nodup) ∧
    ((∀ e ∈ s.accAB, s.logAB[e.1]? = some e.2 ∧ s.sentA[e.1]? = some e.2.txt) ∧
     (∀ e ∈ s.accBA, s.logBA[e.1]? = some e.2 ∧ s.sentB[e.1]? = some e.2.txt)) ∧
    ((s.accAB.map (fun e => e.2.txt)).Sublist s.sentA ∧
     (s.accBA.map (fun e => e.2.txt)).Sublist s.sentB) :=
  ⟨Otr.c05_net_at_most_once h, Otr.c05_net_delivered_were_sent h, Otr.c05_net_subsequence h⟩

/-! ## Non-vacuity: the hypotheses hold of schedules in which things really happen -/

/-- a 3-step schedule: A sends text 7, the network delivers it twice; the duplicate is refused -/
example : ∃ s, NRun Crypto.dummy (Net.start ⟨1, [1]⟩ ⟨1, [2]⟩ ⟨1, [3]⟩ ⟨1, [4]⟩)
    [.sendA 7, .accAB 0 7, .rejAB 0] s ∧ s.view = ([(0, 7)], [], [7], []) := test_duplicate

/-- the overtaken message is lost, not delivered late -/
example : ∃ s, NRun Crypto.dummy (Net.start ⟨1, [1]⟩ ⟨1, [2]⟩ ⟨1, [3]⟩ ⟨1, [4]⟩)
    [.sendA 1, .sendA 2, .accAB 1 2, .rejAB 0, .drop] s ∧ s.view = ([(1, 2)], [], [1, 2], []) :=
  test_overtaken_is_lost

/-- (1), (2), (5) instantiated on the schedule with rotations in both directions and replays of
    every message ever sent -/
example : ∃ s : Net, accView s.accAB = [(0, 1), (2, 4)] ∧ accView s.accBA = [(0, 3), (1, 5)] ∧
    (s.accAB.map Prod.fst).Nodup ∧ (s.accAB.map (fun e => e.2.txt)).Sublist s.sentA ∧
    (∀ e ∈ s.accAB, s.sentA[e.1]? = some e.2.txt) := by
  obtain ⟨s, hr, hv⟩ := test_rotation_replays
  simp only [Net.view, Prod.mk.injEq] at hv
  exact ⟨s, hv.1, hv.2.1, (Otr.c05_net_at_most_once hr).1, (Otr.c05_net_subsequence hr).1,
    fun e he => ((Otr.c05_net_delivered_were_sent hr).1 e he).2⟩

/-- (2) on the timeline, instantiated: in `test_duplicate` the accept of index 0 comes after the send -/
example : (sendsA [Ev.sendA 7])[0]? = some 7 := by
  obtain ⟨s, hr, _⟩ := test_duplicate
  exact (Otr.c05_net_delivered_after_sent hr).1 [.sendA 7] [.rejAB 0] 0 7 rfl

/-- (3) instantiated: a one-party history with three sends around an accepted message -/
example : ∃ k log, SSteps Crypto.dummy ((Net.start ⟨1, [1]⟩ ⟨1, [2]⟩ ⟨1, [3]⟩ ⟨1, [4]⟩).a, []) (k, log) ∧
    log.length = 3 ∧ log.Pairwise (fun m m' => m.triple ≠ m'.triple) := by
  obtain ⟨s, hr, hv⟩ := nrun_view (K := Crypto.dummy) (s0 := netTest)
    (acts := [.sA 1, .sA 2, .dAB 0 [5], .sB 3, .dBA 0 [6], .sA 4]) (fun s => s.logAB.length)
    (L := [.sendA 1, .sendA 2, .accAB 0 1, .sendB 3, .accBA 0 3, .sendA 4]) (v := 3) (by decide +kernel)
  exact ⟨s.a, s.logAB, hr.ssteps.1, hv, Otr.sent_triples_distinct hr.ssteps.1⟩

/-- (6) instantiated: the hypotheses of `reject_unchanged` hold of the refused duplicate of
    `test_duplicate` (key ids (1, 1), counter 1, after it was accepted once) -/
example :
    let k := (Keys.postAKE ⟨1, [4]⟩ ⟨1, [3]⟩ 1).afterAccept Crypto.dummy 1 1 1 1 [5]
    let m : Wire := ⟨1, 1, 1, 1, 7⟩
    (∃ sk, k.deriveSessionKeys Crypto.dummy m.r m.s = .ok sk) ∧ ¬ k.acceptsWire Crypto.dummy m ∧ 1 ≤ m.n := by
  refine ⟨⟨_, rfl⟩, fun h => absurd h.2 (by decide), by decide⟩

end Otr.C05Net
