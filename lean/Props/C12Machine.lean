/-
  Props.C12Machine — C12, recovery: the SMP state machine over ALL states (continuation of Props.C12, Props.C12Recv).
  "…returns to a state from which a fresh SMP run with equal secrets still succeeds" and "no user call made in an
  SMP state that does not expect it reports success or crashes".  Proofs in Proofs.SmpMachine; all theorems hold
  for EVERY crypto record `K` (decision logic only; the algebra of a run from fresh state is `smp_honest_run` /
  `c11_equal_success` of Props.C11).

  IN PLAIN WORDS

  `processSMPTLV_state_table` — take any conversation state `s`, any TLV `t` of type 2–7 (`smpKindOf t.typ = some k`)
  with any value bytes, and any run of `processSMPTLV K t` from `s` that returns (does not end in a Go panic; without
  a negotiated version it always panics).  Then the SMP state tag afterwards (`smpTagOf`; nil counts as EXPECT1), the
  reply (`smpReplyMatches`: nothing / the abort TLV / a TLV of the next type / the error "corrupt data message") and
  the log entries appended are exactly those of the row
      `smpTable (tag before) k (smpCheck K s t k)`
  of an explicit finite table (5 tags × 5 kinds × 5 check results):
      abort TLV                       → EXPECT1, no reply, `smp:1:0`                    (every state)
      payload unparsable              → error, state as before, nothing logged, NO abort TLV   (every state)
      message not expected here       → EXPECT1, abort TLV, `smp:0:0`
      expected, a check fails         → EXPECT1, abort TLV, `smp:2:0`
      1st accepted (EXPECT1)          → waiting for the secret, no reply, ask-for-secret/answer
      2nd accepted (EXPECT2)          → EXPECT4, third message, `smp:5:60`  (no randomness: EXPECT1, abort, `smp:2:0`)
      3rd accepted (EXPECT3)          → EXPECT1 and: fourth message + `smp:6:100` | abort + `smp:7:100` (secrets
                                        differ) | abort + `smp:6:100`,`smp:2:0` (no randomness for the answer)
      4th accepted (EXPECT4)          → EXPECT1 and: nothing + `smp:6:100` | abort + `smp:7:100`
  `smpCheck K s t k` (unparsable / rejected / noRandom / mismatch / passed) is computed from the TLV, the stored
  run states `s1`, `s2`, `s3`, the version's group test and the tape — `smpCheck_congr`: from nothing else.
  So EVERY path ends in EXPECT1, EXPECT4 or waiting-for-the-secret, or leaves the state untouched with an error.

  `smp_never_stuck`, `startAuthenticate_run` — from EVERY SMP state (nil, EXPECT1, EXPECT2, EXPECT3, EXPECT4, waiting
  for the secret) `StartAuthenticate` succeeds, logs nothing, and ends in EXPECT2 holding the first-message state
  `smp1Fresh K q a2 a3 r2 r3` built from the four exponents just drawn and the secret `smpSecretOf …` derived from
  the user's secret; ONE data message goes out carrying `smpStartPrefix state ++ [SMP1 TLV]` — the abort TLV first
  iff a run was under way.  Assumes: `SendReady K s.conv` (encrypted session able to send, Proofs.SendShape), both
  long-term keys present, question without NUL byte and at most `maxSMPQuestionLength` long, and four successful
  reads `runM (randMPIs 4 len) s = ok [some a2, some a3, some r2, some r3]` ("enough randomness").
  `startAuthenticate_state_independent` — replace the SMP component of `s` by ANY other one `m'` (e.g. the initial
  `{}`): with the same tape both calls succeed, the SMP1 TLV is identical, secret / first-message state / state tag
  are identical, and the two final states are equal except for the fields `question`, `s2`, `s3`, which the call does
  not touch.  Hence the stored `s1` and `secret` are those of a run from the initial state, to which
  `smp_honest_run` / `c11_equal_success` apply: after ANY history a fresh run with equal secrets succeeds.

  `smp_fresh_run_checks_pass` (the only theorem here that needs `K.ArithOK`) — the link to the algebra: with `s1` the
  first-message state a fresh `StartAuthenticate` stores (from any state), a responder using the same secret `x`, and
  the side conditions of `c11_equal_success` (the version's group test accepts the ten transmitted elements, the ten
  transmitted proof exponents are nonzero — events of probability ≈ 2^-1535 otherwise), the third and fourth messages
  are generated without panic and `smpCheck` says `passed` for each of the four TLVs in whatever state holds the run's
  `s1` / `s2` / `s3` — no matter what else the SMP components keep from earlier runs.  With the table: 1 → waiting,
  2 → EXPECT4 + third message, 3 → EXPECT1 + fourth message + success, 4 → EXPECT1 + success.
  `smp1Fresh_as_smp1Gen`: the question carried by the stored first message does not enter any later computation.
  (Satisfiability of the side conditions: the examples at the end of Proofs.Smp for `Crypto.real`.)

  `abortAuthentication_state` — every state, every outcome (also if no data message can be built): afterwards the SMP
  state is EXPECT1, the other SMP fields are as before, nothing is logged.  `abortAuthentication_resets` — in a
  session that can send: exact result, exactly one data message whose only TLV is the abort TLV.
  `processSMPTLV_abort_run` — an incoming abort TLV, every state, exact: EXPECT1, no reply, the log gains the abort
  notification `smp:1:0` and nothing else (`smpEv_abort_ne_success`, `smpEv_abort_ne_failure`).

  `provideAuthenticationSecret_refused_every_state` — in each of the five states other than waiting-for-the-secret
  (`smpIsWaiting_false_iff`) the call returns `notWaitingForSecret`: no panic, nothing sent, nothing logged, no
  randomness used, the conversation unchanged (nil state → EXPECT1).  `api_smp_success_only_via_receive` (re-export
  of Props.C12Recv): among the API calls only `receive` can log SMP success.

  `processSMPTLV_smp1_run`, `receiveSMP1_state_independent` — responder side: a first message met in nil/EXPECT1
  (where every reset leads) is processed as a function of the message, `K` and the version alone: rejected (EXPECT1,
  abort, `smp:2:0`) or stored in waiting-for-the-secret; the same reply, log entries and state tag result from ANY
  other SMP component in nil/EXPECT1, and the leftovers of earlier runs (`secret`, `s1`, `s2`, `s3`) are not read.

  `continueSMP_run` — responder, second step (exact): while waiting for the secret, with seven successful reads,
  `continueSMP` (the body of ProvideAuthenticationSecret) stores the derived secret and `smp2Gen` of the stored first
  message and the fresh exponents, moves to EXPECT3 and returns the SMP2 TLV; of the SMP component only the stored
  first message is read.

  Non-vacuity: `exSmpSession m` (encrypted v2 session, both keys, four reads on the tape, ARBITRARY SMP component
  `m`) satisfies the hypotheses for every `K` (`exSmpSession_ready`, `exSmpSession_rand`); the examples below and at
  the end of Proofs.SmpMachine instantiate each theorem.

  MODEL FINDINGS recorded by these statements: an unparsable SMP TLV neither resets the state machine nor sends an
  abort (error only); success+cheated are both logged when the randomness for the fourth message fails.
-/
import Proofs.SmpMachine
namespace Otr.C12Machine
open Otr

/-- the transition table of `processSMPTLV`: every state, every SMP TLV, every `K` -/
theorem processSMPTLV_state_table :
    type_of% @Otr.processSMPTLV_state_table := @Otr.processSMPTLV_state_table

/-- the checks read only the version, the stored run states and the tape -/
theorem smpCheck_congr : type_of% @Otr.smpCheck_congr := @Otr.smpCheck_congr

/-- a message in a state that does not expect it: EXPECT1, abort TLV, error event — whatever the checks say -/
theorem smpTable_unexpected : type_of% @Otr.smpTable_unexpected := @Otr.smpTable_unexpected

/-- exact: `StartAuthenticate` from every SMP state -/
theorem startAuthenticate_run : type_of% @Otr.startAuthenticate_run := @Otr.startAuthenticate_run

/-- from every SMP state `StartAuthenticate` ends in EXPECT2 with fresh first-message state -/
theorem smp_never_stuck : type_of% @Otr.smp_never_stuck := @Otr.smp_never_stuck

/-- … the same SMP1 TLV, secret and first-message state as from the initial SMP component -/
theorem startAuthenticate_state_independent :
    type_of% @Otr.startAuthenticate_state_independent := @Otr.startAuthenticate_state_independent

/-- the abort TLV is sent first exactly when a run was under way -/
theorem smpStartPrefix_eq : type_of% @Otr.smpStartPrefix_eq := @Otr.smpStartPrefix_eq

/-- `AbortAuthentication`: EXPECT1 afterwards, in every state and for every outcome -/
theorem abortAuthentication_state : type_of% @Otr.abortAuthentication_state := @Otr.abortAuthentication_state

/-- `AbortAuthentication`, exact: one data message with exactly the abort TLV -/
theorem abortAuthentication_resets : type_of% @Otr.abortAuthentication_resets := @Otr.abortAuthentication_resets

/-- an incoming abort TLV in every state: EXPECT1, no reply, only the abort notification is logged -/
theorem processSMPTLV_abort_run : type_of% @Otr.processSMPTLV_abort_run := @Otr.processSMPTLV_abort_run

theorem smpEv_abort_ne_success : type_of% @Otr.smpEv_abort_ne_success := @Otr.smpEv_abort_ne_success
theorem smpEv_abort_ne_failure : type_of% @Otr.smpEv_abort_ne_failure := @Otr.smpEv_abort_ne_failure

/-- `ProvideAuthenticationSecret` in every state but waiting-for-the-secret: refused, state unchanged -/
theorem provideAuthenticationSecret_refused_every_state :
    type_of% @Otr.provideAuthenticationSecret_refused_every_state :=
  @Otr.provideAuthenticationSecret_refused_every_state

theorem smpIsWaiting_false_iff : type_of% @Otr.smpIsWaiting_false_iff := @Otr.smpIsWaiting_false_iff

/-- user calls raise no success: among the API calls only `receive` can log the SMP success event -/
theorem user_calls_raise_no_success :
    type_of% @Otr.api_smp_success_only_via_receive := @Otr.api_smp_success_only_via_receive

/-- an incoming first message after a reset, exact -/
theorem processSMPTLV_smp1_run : type_of% @Otr.processSMPTLV_smp1_run := @Otr.processSMPTLV_smp1_run

/-- … processed exactly as from the initial state -/
theorem receiveSMP1_state_independent :
    type_of% @Otr.receiveSMP1_state_independent := @Otr.receiveSMP1_state_independent

/-- exact: ProvideAuthenticationSecret while waiting for the secret reads only the stored first message -/
theorem continueSMP_run : type_of% @Otr.continueSMP_run := @Otr.continueSMP_run

/-- the question does not enter the arithmetic of a run -/
theorem smp1Fresh_as_smp1Gen : type_of% @Otr.smp1Fresh_as_smp1Gen := @Otr.smp1Fresh_as_smp1Gen

/-- after any history, the four checks of a fresh run with equal secrets say `passed` (under `K.ArithOK`) -/
theorem smp_fresh_run_checks_pass : type_of% @Otr.smp_fresh_run_checks_pass := @Otr.smp_fresh_run_checks_pass

/-- the witness session satisfies `SendReady` for every `K` and every SMP component -/
theorem exSmpSession_ready : type_of% @Otr.exSmpSession_ready := @Otr.exSmpSession_ready
theorem exSmpSession_rand : type_of% @Otr.exSmpSession_rand := @Otr.exSmpSession_rand

/-! non-vacuity -/

example : Crypto.real.ArithOK := Crypto.real_arithOK


/-- `smp_never_stuck`: all hypotheses hold for `exSmpSession m`, whatever `m` is -/
example (K : Crypto) (m : Smp) :
    ∃ t w, runM (startAuthenticate K [63] [115]) (exSmpSession m) = .ok (.ok w, t) ∧
      t.conv.smp.state = some .expect2 := by
  obtain ⟨t, h, hs, -⟩ := Otr.smp_never_stuck K [63] [115] (exSmpSession m) _ ⟨7, 7, 7, 7⟩ ⟨5, 5, 5, 5⟩ .v2
    _ _ _ _ (Otr.exSmpSession_ready K m) rfl rfl rfl (by decide) (by decide) (Otr.exSmpSession_rand m)
  exact ⟨t, _, h, hs⟩

/-- `processSMPTLV_state_table`: a run that returns exists (an abort TLV met in EXPECT4), and its row -/
example (K : Crypto) :
    (∃ r s', runM (processSMPTLV K smpAbortTlv) (exSmpSession { state := some .expect4 }) = .ok (r, s')) ∧
    smpKindOf smpAbortTlv.typ = some .abort ∧
    smpTable .expect4 .abort .passed = (.expect1, .nothing, [.plain smpAbort 0]) :=
  ⟨⟨_, _, Otr.processSMPTLV_abort_run K smpAbortTlv _ .v2 rfl rfl⟩, rfl, rfl⟩

/-- some rows of the table -/
example : smpTable .expect3 .msg1 .passed = (.expect1, .abort, [.plain smpError 0]) ∧
    smpTable .waiting .msg2 .unparsable = (.waiting, .error, []) ∧
    smpTable .expect2 .msg2 .passed = (.expect4, .next, [.plain smpInProgress 60]) ∧
    smpTable .expect3 .msg3 .mismatch = (.expect1, .abort, [.plain smpFailure 100]) ∧
    smpTable .expect4 .msg4 .rejected = (.expect1, .abort, [.plain smpCheated 0]) ∧
    smpTable .expect1 .msg1 .passed = (.waiting, .nothing, [.ask]) :=
  ⟨rfl, rfl, rfl, rfl, rfl, rfl⟩

/-- `provideAuthenticationSecret_refused_every_state` in EXPECT3 -/
example (K : Crypto) :
    smpIsWaiting (exSmpSession { state := some .expect3 }).conv.smp.state = false ∧
    runM (provideAuthenticationSecret K [1]) (exSmpSession { state := some .expect3 }) =
      .ok (.error .notWaitingForSecret, exSmpSession { state := some .expect3 }) := by
  refine ⟨rfl, ?_⟩
  rw [(Otr.provideAuthenticationSecret_refused_every_state K [1] _ rfl).1]
  rfl

end Otr.C12Machine
