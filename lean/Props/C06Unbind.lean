/-
  Props.C06Unbind — C06, continued (Proofs.Fixes3): what a rejected or ignored message must not leave behind.

  A separate module only because Props.C06 was being edited concurrently; it belongs to property C06.
  Time stamp of the key exchange (`ake.lastStateChange`, which makes the conversation ignore query messages
  for a while): `processAKE_rejected_no_stamp_partial`: a message that `processAKE` rejects (an error is
  returned) sets no stamp — the stamp is what it was, or, for a DH-Commit message only, it has been cleared
  (the answer to a DH-Commit message starts with a fresh AKE context before the message is checked);
  `processAKE_rejected_no_stamp`: for every other message type it is exactly what it was;
  `processAKE_rejected_clears_stamp`: the witness that the unrestricted form fails for a DH-Commit message
  (random source failing right after `initAKE`: stamp 5 → none); `processAKE_ignored_no_stamp`: an ignored
  message (nothing to send, no error, authentication state of the same kind) leaves the stamp — and the
  version — exactly as they were (a DH-Commit message is never ignored: `recvDHCommit_answers`).
  Binding of the conversation: `receiveDecoded_of_core` (exact): `receiveDecoded` is its body followed, when
  the body reports the message as rejected (an error; a data message outside a private conversation; an
  ignored key exchange message), by `unbindState`; `receiveDecoded_rejected_unbinds`: a message that
  `receiveDecoded` rejects leaves the protocol version, the long-term key selected for it and the peer
  instance tag exactly as they were before the call (this closes the known findings "a rejected message
  commits the version / binds the peer tag"); `receiveDecoded_unbinds_of_core`: the same for the two
  cases without an error; `receiveDecoded_ignored_unbinds`: an ignored key exchange message (stated on the
  steps of the body: version check, header, not a data message, `processAKE` returns `([], none)` with the
  authentication state of the same kind) returns nothing and leaves version, key choice and peer tag as before.
  The proofs rest on frames over the whole receive path (`VerFrame`, `VSet`: AKE path, data-message path
  incl. TLVs and SMP, headers), Proofs.Fixes3 §2/§4.
-/

import Proofs.Fixes3
namespace Otr.C06Unbind
open Otr

/-- a rejected AKE message sets no time stamp (unchanged, or cleared by a DH-Commit message) -/
theorem processAKE_rejected_no_stamp_partial :
    type_of% @Otr.processAKE_rejected_no_stamp_partial := @Otr.processAKE_rejected_no_stamp_partial

/-- a rejected AKE message other than DH-Commit leaves the stamp exactly as it was -/
theorem processAKE_rejected_no_stamp : type_of% @Otr.processAKE_rejected_no_stamp := @Otr.processAKE_rejected_no_stamp

/-- witness: a rejected DH-Commit message can clear the stamp -/
theorem processAKE_rejected_clears_stamp :
    type_of% @Otr.processAKE_rejected_clears_stamp := @Otr.processAKE_rejected_clears_stamp

/-- an ignored AKE message leaves stamp and version exactly as they were -/
theorem processAKE_ignored_no_stamp : type_of% @Otr.processAKE_ignored_no_stamp := @Otr.processAKE_ignored_no_stamp

/-- a DH-Commit message is never ignored -/
theorem recvDHCommit_answers : type_of% @Otr.recvDHCommit_answers := @Otr.recvDHCommit_answers

/-- `receiveDecoded` = its body, then `unbindState` when the body reports a rejection (exact) -/
theorem receiveDecoded_of_core : type_of% @Otr.receiveDecoded_of_core := @Otr.receiveDecoded_of_core

/-- a rejected message: version, long-term key choice and peer tag as before the call -/
theorem receiveDecoded_rejected_unbinds :
    type_of% @Otr.receiveDecoded_rejected_unbinds := @Otr.receiveDecoded_rejected_unbinds

/-- the same when the body reports a rejection without an error -/
theorem receiveDecoded_unbinds_of_core :
    type_of% @Otr.receiveDecoded_unbinds_of_core := @Otr.receiveDecoded_unbinds_of_core

/-- an ignored key exchange message: nothing returned, version, key choice and peer tag as before the call -/
theorem receiveDecoded_ignored_unbinds :
    type_of% @Otr.receiveDecoded_ignored_unbinds := @Otr.receiveDecoded_ignored_unbinds

end Otr.C06Unbind
