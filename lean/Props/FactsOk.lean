/-
  Props.FactsOk — what the model assumes about /repo's sources, checked against the facts that
  /verif/facts regenerates from the working tree on every run (DESIGN §4.2).
  A code change that alters one of these breaks the obligation.
-/
import Otr.Generated.Facts
import Otr.Conv
namespace Otr.FactsOk
open Otr

/-! constants the model uses -/
theorem consts_messages :
    Facts.messageFlagNormal = some messageFlagNormal ∧ Facts.messageFlagIgnoreUnreadable = some messageFlagIgnoreUnreadable ∧
    Facts.msgTypeDHCommit = some msgTypeDHCommit ∧ Facts.msgTypeData = some msgTypeData ∧ Facts.msgTypeDHKey = some msgTypeDHKey ∧
    Facts.msgTypeRevealSig = some msgTypeRevealSig ∧ Facts.msgTypeSig = some msgTypeSig ∧ Facts.revealSigRSize = some 16 ∧
    Facts.paddingGranularity = some paddingGranularity ∧ Facts.tlvHeaderLen = some 4 ∧ Facts.nulByteLen = some 1 ∧
    Facts.messageHeaderPrefix = some 3 ∧ Facts.otrv2HeaderLen = some 3 ∧ Facts.otrv3HeaderLen = some 11 ∧
    Facts.minValidInstanceTag = some 0x100 ∧ Facts.maxFragments = some maxFragments ∧ Facts.smpVersion = some 1 ∧
    Facts.dsaKeyTypeValue = some 0 := by decide

theorem consts_tlv :
    Facts.tlvTypePadding = some tlvTypePadding ∧ Facts.tlvTypeDisconnected = some tlvTypeDisconnected ∧
    Facts.tlvTypeSMP1 = some tlvTypeSMP1 ∧ Facts.tlvTypeSMP2 = some tlvTypeSMP2 ∧ Facts.tlvTypeSMP3 = some tlvTypeSMP3 ∧
    Facts.tlvTypeSMP4 = some tlvTypeSMP4 ∧ Facts.tlvTypeSMPAbort = some tlvTypeSMPAbort ∧
    Facts.tlvTypeSMP1WithQuestion = some tlvTypeSMP1WithQuestion ∧
    Facts.tlvTypeExtraSymmetricKey = some tlvTypeExtraSymmetricKey := by decide

theorem consts_policy :
    Facts.allowV2 = some allowV2 ∧ Facts.allowV3 = some allowV3 ∧ Facts.requireEncryption = some requireEncryption ∧
    Facts.sendWhitespaceTag = some sendWhitespaceTag ∧ Facts.whitespaceStartAKE = some whitespaceStartAKE ∧
    Facts.errorStartAKE = some errorStartAKE := by decide

theorem consts_time :
    Facts.resendInterval = some 60 ∧ Facts.heartbeatInterval = some 60 ∧ Facts.timeoutLength = some 60 := by decide

theorem consts_version :
    Facts.otrV2_parameterLength = some (Version.parameterLength .v2) ∧ Facts.otrV3_parameterLength = some (Version.parameterLength .v3) ∧
    Facts.otrV2_truncateLength = some truncateLength ∧ Facts.otrV3_truncateLength = some truncateLength ∧
    Facts.otrV2_hashLength = some hashLength ∧ Facts.otrV3_hashLength = some hashLength ∧
    Facts.otrV2_hash2Length = some hash2Length ∧ Facts.otrV3_hash2Length = some hash2Length ∧
    Facts.otrV2_keyLength = some keyLength ∧ Facts.otrV3_keyLength = some keyLength ∧
    Facts.otrV2_protocolVersion = some (Version.num .v2) ∧ Facts.otrV3_protocolVersion = some (Version.num .v3) := by decide

theorem markers :
    Facts.queryMarker = some (strBytes "?OTR") ∧ Facts.errorMarker = some errorMarker ∧ Facts.msgMarker = some msgMarker ∧
    Facts.otrv2FragmentationPrefix = some otrv2FragPrefix ∧ Facts.otrv3FragmentationPrefix = some otrv3FragPrefix ∧
    Facts.defaultResentPrefix = some defaultResentPrefix ∧ Facts.fragmentSeparator = some [44] ∧
    Facts.fragmentItagsSeparator = some [124] ∧ Facts.dsaKeyType = some [0, 0] := by decide

theorem group : Facts.dh_p = dhP ∧ Facts.dh_q = dhQ ∧ Facts.dh_g = dhG := by decide

/-! enumerations: the numbering of events and states that the model and the harness share -/
theorem enum_msgState : Facts.enum_msgState = ["plainText", "encrypted", "finished"] := by decide
theorem enum_whitespaceState : Facts.enum_whitespaceState = ["whitespaceNotSent", "whitespaceSent", "whitespaceRejected"] := by decide
theorem enum_retransmitFlag : Facts.enum_retransmitFlag = ["noRetransmit", "retransmitWithPrefix", "retransmitExact"] := by decide
theorem enum_SecurityEvent : Facts.enum_SecurityEvent = ["GoneInsecure", "GoneSecure", "StillSecure"] := by decide
theorem enum_SMPEvent : Facts.enum_SMPEvent = ["SMPEventError", "SMPEventAbort", "SMPEventCheated", "SMPEventAskForAnswer", "SMPEventAskForSecret", "SMPEventInProgress", "SMPEventSuccess", "SMPEventFailure"] := by decide
theorem enum_MessageEvent : Facts.enum_MessageEvent = ["MessageEventEncryptionRequired", "MessageEventEncryptionError", "MessageEventConnectionEnded", "MessageEventSetupError", "MessageEventMessageReflected", "MessageEventMessageSent", "MessageEventMessageResent", "MessageEventReceivedMessageNotInPrivate", "MessageEventReceivedMessageUnreadable", "MessageEventReceivedMessageMalformed", "MessageEventLogHeartbeatReceived", "MessageEventLogHeartbeatSent", "MessageEventReceivedMessageGeneralError", "MessageEventReceivedMessageUnencrypted", "MessageEventReceivedMessageUnrecognized", "MessageEventReceivedMessageForOtherInstance"] := by decide
theorem enum_ErrorCode : Facts.enum_ErrorCode = ["ErrorCodeEncryptionError", "ErrorCodeMessageUnreadable", "ErrorCodeMessageMalformed", "ErrorCodeMessageNotInPrivate"] := by decide
theorem enum_messageTypeGuess : Facts.enum_messageTypeGuess = ["msgGuessNotOTR", "msgGuessTaggedPlaintext", "msgGuessQuery", "msgGuessDHCommit", "msgGuessDHKey", "msgGuessRevealSig", "msgGuessSignature", "msgGuessV1KeyExch", "msgGuessData", "msgGuessError", "msgGuessFragment", "msgGuessUnknown"] := by decide

/-! guessMessageType's prefix table, in order -/
theorem guessTable : Facts.guessTable = [("?OTR:AAMC", "msgGuessDHCommit"), ("?OTR:AAIC", "msgGuessDHCommit"), ("?OTR:AAMK", "msgGuessDHKey"), ("?OTR:AAIK", "msgGuessDHKey"), ("?OTR:AAMR", "msgGuessRevealSig"), ("?OTR:AAIR", "msgGuessRevealSig"), ("?OTR:AAMS", "msgGuessSignature"), ("?OTR:AAIS", "msgGuessSignature"), ("?OTR:AAED", "msgGuessData"), ("?OTR:AAID", "msgGuessData"), ("?OTR:AAMD", "msgGuessData"), ("?OTR?", "msgGuessQuery"), ("?OTRv", "msgGuessQuery"), ("?OTR:AAEK", "msgGuessV1KeyExch"), ("?OTR Error:", "msgGuessError"), ("?OTR|", "msgGuessFragment"), ("?OTR,", "msgGuessFragment")] := by decide

/-! call orders of the security relevant functions (a reordering is what a differential run can miss) -/
theorem order_processDataMessage : Facts.order_Conversation_processDataMessageWithRawErrors = ["messageEvent", "deserialize", "deriveDHSessionKeys", "checkSign", "checkMessageCounter", "addKeys", "decrypt", "makeCopy", "len", "messageEvent", "rotateKeys", "unlock", "processTLVs", "len", "genDataMsgWithFlag", "decideFlagFrom", "wrapMessageHeader", "serialize"] := by decide
theorem order_processEncryptedSig : Facts.order_Conversation_processEncryptedSig = ["verifyEncryptedSignatureMAC", "decrypt", "parseTheirKey", "expectedMessageHMAC", "checkedSignatureVerification"] := by decide
theorem order_processRevealSig : Facts.order_Conversation_processRevealSig = ["deserialize", "make", "len", "decrypt", "checkDecryptedGx", "extractGx", "calcAKEKeys", "calcDHSharedSecret", "processEncryptedSig", "newOtrError", "Error"] := by decide
theorem order_processSig : Facts.order_Conversation_processSig = ["deserialize", "processEncryptedSig", "newOtrError", "Error"] := by decide
theorem order_verifyInstanceTags : Facts.order_otrV3_verifyInstanceTags = ["malformedMessage", "malformedMessage", "messageEvent"] := by decide
theorem order_akeHasFinished : Facts.order_Conversation_akeHasFinished = ["macKeysToReveal", "wipe", "append", "wipe", "Now", "signalSecurityEventIf", "signalSecurityEventIf", "PublicKey", "IsSame", "messageEvent", "generateNewDHKeyPair"] := by decide
theorem order_genDataMsgWithFlag : Facts.order_Conversation_genDataMsgWithFlag = ["calculateDHSessionKeys", "findCounterFor", "PutUint64", "encrypt", "messageHeader", "revealMACKeys", "sign", "updateMayRetransmitTo", "len", "last", "unlock"] := by decide
theorem order_receiveDecoded : Facts.order_Conversation_receiveDecoded = ["checkVersion", "parseMessageHeader", "receiveDataMessage", "authStateIdentity", "receiveAKEMessage", "len", "authStateIdentity"] := by decide
theorem order_rotateOurKeys : Facts.order_keyManagementContext_rotateOurKeys = ["randSizedSecret", "revealMACKeysForOurPreviousKeyID", "forgetCountersForOurKey", "installNewDHKeyPair"] := by decide
theorem order_rotateTheirKey : Facts.order_keyManagementContext_rotateTheirKey = ["revealMACKeysForTheirPreviousKeyID", "forgetCountersForTheirKey"] := by decide
theorem order_deriveDHSessionKeys : Facts.order_keyManagementContext_deriveDHSessionKeys = ["pickOurKeys", "pickTheirKey", "newOtrConflictError", "calculateDHSessionKeys"] := by decide
theorem order_End : Facts.order_Conversation_End = ["wipe", "createSerializedDataMessage", "wipe", "forget", "signalSecurityEventIf", "wipe", "wipe", "wipeBigInt"] := by decide
theorem order_processDisconnectedTLV : Facts.order_Conversation_processDisconnectedTLV = ["signalSecurityEventIf", "wipe", "wipe", "macKeysToReveal", "wipe"] := by decide
theorem order_receiveUnit : Facts.order_Conversation_receiveUnit = ["makeCopy", "wipeBytes", "isOTREnabled", "receiveWithoutOTR", "guessMessageType", "withInjectionsPlain", "receiveErrorMessage", "receiveQueryMessage", "receiveTaggedPlaintext", "receivePlaintext", "receiveFragment", "fragmentsFinished", "forgetFragment", "withInjectionsPlain", "receiveUnit", "messageEvent", "receiveEncoded", "encodedMessage", "forgetFragment", "withInjectionsPlain", "toSendEncoded"] := by decide

/-! who writes the fields the lifecycle / isolation properties are about -/
theorem writers_msgState : Facts.writers_msgState = ["Conversation.End", "Conversation.akeHasFinished", "Conversation.processDisconnectedTLV"] := by decide
theorem writers_theirInstanceTag : Facts.writers_theirInstanceTag = ["Conversation.receiveDecoded", "Conversation.receiveFragment", "Conversation.receiveUnit", "otrV3.verifyInstanceTags"] := by decide
theorem writers_ourInstanceTag : Facts.writers_ourInstanceTag = ["Conversation.InitializeInstanceTag", "Conversation.generateInstanceTag"] := by decide
theorem writers_version : Facts.writers_version = ["Conversation.commitToVersionFrom", "Conversation.receiveDecoded", "Conversation.receiveFragment"] := by decide
theorem writers_theirKey : Facts.writers_theirKey = ["Conversation.parseTheirKey", "Conversation.processEncryptedSig", "authStateAwaitingRevealSig.receiveRevealSigMessage"] := by decide
theorem writers_ssid : Facts.writers_ssid = ["Conversation.akeHasFinished", "Conversation.calcAKEKeys"] := by decide
theorem writers_sentRevealSig : Facts.writers_sentRevealSig = ["Conversation.akeHasFinished", "ake.wipe", "authStateAwaitingDHKey.receiveDHKeyMessage", "authStateAwaitingRevealSig.receiveRevealSigMessage"] := by decide
theorem writers_whitespaceState : Facts.writers_whitespaceState = ["Conversation.appendWhitespaceTag", "Conversation.checkPlaintextPolicies"] := by decide

/-! package level state (C20): nothing outside init writes a package-level variable; these are the
    package-level slices used as append prefixes (the harness checks len = cap for them at run time) -/
theorem pkgVarWritesOutsideInit : Facts.pkgVarWritesOutsideInit = [] := by decide
theorem pkgSlicesUsedAsAppendPrefix : Facts.pkgSlicesUsedAsAppendPrefix = ["errorMarker", "msgMarker"] := by decide

/-! transition skeletons of the AKE and SMP automata -/
theorem transitions_authState : Facts.transitions_authState = [("authStateAwaitingDHKey.receiveDHCommitMessage", ["authStateAwaitingRevealSig{}", "authStateNone{}.receiveDHCommitMessage()", "s"]),
  ("authStateAwaitingDHKey.receiveDHKeyMessage", ["authStateAwaitingSig{}", "s"]),
  ("authStateAwaitingDHKey.receiveRevealSigMessage", ["s"]),
  ("authStateAwaitingDHKey.receiveSigMessage", ["s"]),
  ("authStateAwaitingRevealSig.receiveDHCommitMessage", ["authStateAwaitingRevealSig{}", "s"]),
  ("authStateAwaitingRevealSig.receiveDHKeyMessage", ["s"]),
  ("authStateAwaitingRevealSig.receiveRevealSigMessage", ["authStateNone{}", "s"]),
  ("authStateAwaitingRevealSig.receiveSigMessage", ["s"]),
  ("authStateAwaitingSig.receiveDHCommitMessage", ["s", "s.authStateBase.receiveDHCommitMessage()"]),
  ("authStateAwaitingSig.receiveDHKeyMessage", ["s"]),
  ("authStateAwaitingSig.receiveRevealSigMessage", ["s"]),
  ("authStateAwaitingSig.receiveSigMessage", ["authStateNone{}", "s"]),
  ("authStateBase.receiveDHCommitMessage", ["authStateNone{}.receiveDHCommitMessage()"]),
  ("authStateNone.receiveDHCommitMessage", ["authStateAwaitingRevealSig{}", "s"]),
  ("authStateNone.receiveDHKeyMessage", ["s"]),
  ("authStateNone.receiveRevealSigMessage", ["s"]),
  ("authStateNone.receiveSigMessage", ["s"])] := by decide
theorem transitions_smpState : Facts.transitions_smpState = [("smpStateBase.receiveMessage1", ["abortStateMachineAndNotifyError()"]),
  ("smpStateBase.receiveMessage2", ["abortStateMachineAndNotifyError()"]),
  ("smpStateBase.receiveMessage3", ["abortStateMachineAndNotifyError()"]),
  ("smpStateBase.receiveMessage4", ["abortStateMachineAndNotifyError()"]),
  ("smpStateExpect1.receiveMessage1", ["c.abortStateMachineAndNotifyCheated()", "smpStateWaitingForSecret{}"]),
  ("smpStateExpect2.receiveMessage2", ["c.abortStateMachineAndNotifyCheated()", "smpStateExpect4{}"]),
  ("smpStateExpect3.receiveMessage3", ["c.abortStateMachineAndNotifyCheated()", "sendSMPAbortAndRestartStateMachine()", "smpStateExpect1{}"]),
  ("smpStateExpect4.receiveMessage4", ["c.abortStateMachineAndNotifyCheated()", "sendSMPAbortAndRestartStateMachine()", "smpStateExpect1{}"])] := by decide


/-- every package-level variable whose initial value is produced by a call, with the function called:
    conversions of literals, error values, big-number constants, reflection type tokens — no hash
    instance, no buffer with spare capacity, no cache that conversations would share (C20) -/
theorem pkg_vars_initialised_by_call : Facts.pkgVarsInitialisedByCall = ["defaultResentPrefix=[]byte", "dsaKeyTypeValue=uint16", "errCannotSendUnencrypted=newOtrConflictError", "errCantAuthenticateWithoutEncryption=newOtrError", "errCorruptEncryptedSignature=newOtrError", "errInvalidOTRMessage=newOtrError", "errInvalidVersion=newOtrError", "errMessageNotInPrivate=newOtrError", "errNotWaitingForSMPSecret=newOtrError", "errReceivedMessageForOtherInstance=newOtrError", "errShortRandomRead=newOtrError", "errUnsupportedOTRVersion=newOtrError", "errWrongProtocolVersion=newOtrError", "errorMarker=[]byte", "int32SliceType=reflect.SliceOf", "int32Type=reflect.ValueOf().Type", "int8SliceType=reflect.SliceOf", "int8Type=reflect.ValueOf().Type", "intSliceType=reflect.SliceOf", "intType=reflect.ValueOf().Type", "msgMarker=[]byte", "otrv2FragmentationPrefix=[]byte", "otrv3FragmentationPrefix=[]byte", "queryMarker=[]byte", "tlvHandlers=make", "uint32Array60Type=reflect.ArrayOf", "uint32SliceType=reflect.SliceOf", "uint32Type=reflect.ValueOf().Type", "uint8SliceType=reflect.SliceOf", "uint8Type=reflect.ValueOf().Type", "whitespaceTagHeader=convertToWhitespace"] := by decide


/-- the sub-packages (the s-expression reader) hold no package-level state besides one immutable
    value: nothing concurrent imports of key files could share (C20) -/
theorem sub_package_vars : Facts.subPackageVars = ["sexp.snil=literal"] := by decide

/-! source text of small decision functions (go/printer, white space collapsed): the Lean counterparts were
    written from exactly this text; any rewrite — also a harmless one — has to be reviewed and re-pinned -/
theorem src_Conversation_SetOurKeys : Facts.src_Conversation_SetOurKeys = "{ c.ourKeys = ourKeys }" := rfl
theorem src_Conversation_injectMessage : Facts.src_Conversation_injectMessage = "{ c.injections.messages = append(c.injections.messages, vm) }" := rfl
theorem src_Conversation_maybeHeartbeat : Facts.src_Conversation_maybeHeartbeat = "{ if err != nil { return nil, nil, err } tsExtra, e := c.potentialHeartbeat(plain) return plain, compactMessagesWithHeader(toSend, tsExtra), e }" := rfl
theorem src_Conversation_processTLVs : Facts.src_Conversation_processTLVs = "{ var retTLVs []tlv for _, t := range tlvs { mh, e := messageHandlerForTLV(t) if e != nil { continue } toSend, err := mh(c, t, x) if err != nil { return nil, err } if toSend != nil { retTLVs = append(retTLVs, *toSend) } } return retTLVs, nil }" := rfl
theorem src_Conversation_rotateKeys : Facts.src_Conversation_rotateKeys = "{ if err := c.keys.rotateOurKeys(dataMessage.recipientKeyID, c.rand()); err != nil { return err } c.keys.rotateTheirKey(dataMessage.senderKeyID, dataMessage.y) return nil }" := rfl
theorem src_ExtractMPIs : Facts.src_ExtractMPIs = "{ current, mpiCount, ok := ExtractWord(d) if !ok { return nil, nil, false } if uint64(mpiCount) > uint64(len(current))/4 { return nil, nil, false } result := make([]*big.Int, int(mpiCount)) for i := 0; i < int(mpiCount); i++ { current, result[i], ok = ExtractMPI(current) if !ok { return nil, nil, false } } return current, result, true }" := rfl
theorem src_decideFlagFrom : Facts.src_decideFlagFrom = "{ flag := byte(0x00) for _, t := range tlvs { if t.tlvType >= tlvTypeSMP1 && t.tlvType <= tlvTypeSMP1WithQuestion { flag = messageFlagIgnoreUnreadable } } return flag }" := rfl
theorem src_defaultResendMessageTransform : Facts.src_defaultResendMessageTransform = "{ ret := make([]byte, 0, len(defaultResentPrefix)+len(msg)) ret = append(ret, defaultResentPrefix...) return append(ret, msg...) }" := rfl
theorem src_extractDataMessageFlag : Facts.src_extractDataMessageFlag = "{ if len(msg) == 0 { return messageFlagNormal } return msg[0] }" := rfl
theorem src_gt : Facts.src_gt = "{ return l.Cmp(r) == 1 }" := rfl
theorem src_gte : Facts.src_gte = "{ return l.Cmp(r) != -1 }" := rfl
theorem src_isExponent : Facts.src_isExponent = "{ return d != nil && d.Sign() > 0 && d.Cmp(q) < 0 }" := rfl
theorem src_isGroupElement : Facts.src_isGroupElement = "{ return gte(n, g1) && lte(n, pMinusTwo) }" := rfl
theorem src_keyManagementContext_checkMessageCounter : Facts.src_keyManagementContext_checkMessageCounter = "{ counter := k.counterHistory.findCounterFor(message.recipientKeyID, message.senderKeyID) theirNextCounter := binary.BigEndian.Uint64(message.topHalfCtr[:]) if theirNextCounter <= counter.theirCounter { return newOtrConflictError(\"counter regressed\") } counter.theirCounter = theirNextCounter return nil }" := rfl
theorem src_lt : Facts.src_lt = "{ return l.Cmp(r) == -1 }" := rfl
theorem src_lte : Facts.src_lte = "{ return l.Cmp(r) != 1 }" := rfl
theorem src_macKeyHistory_addKeys : Facts.src_macKeyHistory_addKeys = "{ for _, k := range h.items { if k.ourKeyID == ourKeyID && k.theirKeyID == theirKeyID { return } } macKeys := macKeyUsage{ ourKeyID: ourKeyID, theirKeyID: theirKeyID, receivingKey: receivingMACKey, } h.items = append(h.items, macKeys) }" := rfl
theorem src_otrV2_isGroupElement : Facts.src_otrV2_isGroupElement = "{ return mod(n, p).Sign() != 0 }" := rfl
theorem src_otrV3_isGroupElement : Facts.src_otrV3_isGroupElement = "{ return isGroupElement(n) }" := rfl
theorem src_policies_has : Facts.src_policies_has = "{ return int(*p)&int(c) == int(c) }" := rfl
theorem src_policies_isOTREnabled : Facts.src_policies_isOTREnabled = "{ return p.has(allowV2) || p.has(allowV3) }" := rfl

end Otr.FactsOk
