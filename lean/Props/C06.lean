/-
  Props.C06 — a rejected message leaves the session exactly as it was.

  Data messages: `c06_recv_not_encrypted/unparsable/bad_keys/bad_mac/replayed_counter` give the
  EXACT final state of `receiveDataMessage` in every rejection case: the conversation is unchanged
  (repaired code: keys → MAC → counter → history order); the only additions are the
  unreadable/malformed event and, when an error handler is installed, the error reply; a rejected
  replay changes nothing at all (`replayState_eq_self_of_regressed`). Equality of states makes
  "every continuation behaves identically" immediate. Instance tags: `verifyInstanceTags_foreign`
  (Props.C15): messages for another instance change nothing. Version: `checkVersion_committed`:
  with a committed version a message of another version changes nothing.
  AKE messages (repaired code): `retransmitAfterCompletedExchange_skip(_run)`: the retransmission step is
  skipped entirely for a rejected or ignored message; `processAKE_pending_kept`: a rejected AKE
  message (and any outside the two finishing combinations) leaves the resend state exactly as it
  was; `processAKE_strict_nonfinishing`: outside the finishing combinations message state, peer key,
  the whole key context, session id and role flag of an encrypted session are unchanged.
  NOT covered by theorems: the AKE context itself under rejected AKE messages (they legitimately re-initialise it;
  behavioural equivalence is decided by the twin-run oracle of the `reject` profile: the same genuine
  traffic is run with and without the rejected message and all plaintexts, errors, events and
  IsEncrypted values are compared). KNOWN FINDING: before any version is committed, a rejected
  message of an allowed version commits the version (DESIGN §8, known_findings.json).
-/

import Proofs.ConvData
import Proofs.ConvLife
import Proofs.AkeGuard
import Proofs.Fixes2
namespace Otr.C06
open Otr

theorem c06_recv_not_encrypted : type_of% @Otr.c06_recv_not_encrypted := @Otr.c06_recv_not_encrypted

theorem c06_recv_unparsable : type_of% @Otr.c06_recv_unparsable := @Otr.c06_recv_unparsable

theorem c06_recv_bad_keys : type_of% @Otr.c06_recv_bad_keys := @Otr.c06_recv_bad_keys

theorem c06_recv_bad_mac : type_of% @Otr.c06_recv_bad_mac := @Otr.c06_recv_bad_mac

theorem c06_recv_replayed_counter : type_of% @Otr.c06_recv_replayed_counter := @Otr.c06_recv_replayed_counter

theorem replayState_eq_self_of_regressed : type_of% @Otr.replayState_eq_self_of_regressed := @Otr.replayState_eq_self_of_regressed

theorem c05_immediate_replay_rejected : type_of% @Otr.c05_immediate_replay_rejected := @Otr.c05_immediate_replay_rejected

theorem verifyInstanceTags_foreign : type_of% @Otr.verifyInstanceTags_foreign := @Otr.verifyInstanceTags_foreign

theorem checkVersion_committed : type_of% @Otr.checkVersion_committed := @Otr.checkVersion_committed

/-- repaired code: a rejected or ignored AKE message triggers no retransmission -/
theorem retransmitAfterCompletedExchange_skip : type_of% @Otr.retransmitAfterCompletedExchange_skip := @Otr.retransmitAfterCompletedExchange_skip

/-- the same as a run: result `[]`, state untouched -/
theorem retransmitAfterCompletedExchange_skip_run : type_of% @Otr.retransmitAfterCompletedExchange_skip_run := @Otr.retransmitAfterCompletedExchange_skip_run

/-- repaired code: a rejected AKE message does not consume what waits for retransmission -/
theorem processAKE_pending_kept : type_of% @Otr.processAKE_pending_kept := @Otr.processAKE_pending_kept

/-- repaired code: outside the two finishing combinations the whole key context is unchanged, whatever is queued -/
theorem processAKE_strict_nonfinishing : type_of% @Otr.processAKE_strict_nonfinishing := @Otr.processAKE_strict_nonfinishing

end Otr.C06
