/-
  Props.C06 — a rejected message leaves the session exactly as it was.

  Data messages: `c06_recv_not_encrypted/unparsable/bad_keys/bad_mac/replayed_counter` give the
  EXACT final state of `receiveDataMessage` in every rejection case: the conversation is unchanged
  (repaired code: keys → MAC → counter → history order); the only additions are the
  unreadable/malformed event and, when an error handler is installed, the error reply; a rejected
  replay changes nothing at all (`replayState_eq_self_of_regressed`). Equality of states makes
  "every continuation behaves identically" immediate. Instance tags: `verifyInstanceTags_foreign`
  (Props.C15): messages for another instance change nothing. Version: `checkVersion_committed`:
  with a committed version a message of another version changes nothing.
  AKE messages (repaired code): `retransmitAfterCompletedExchange_skip(_run)`: the retransmission step is
  skipped entirely for a rejected or ignored message; `processAKE_pending_kept`: a rejected AKE
  message (and any outside the two finishing combinations) leaves the resend state exactly as it
  was; `processAKE_strict_nonfinishing`: outside the finishing combinations message state, peer key,
  the whole key context, session id and role flag of an encrypted session are unchanged.

  The whole of `Conversation.Receive` (Proofs/RejectFrame.lean), PARTIAL status.
  `receive_error_frame_partial`: for EVERY byte string, environment and start state, if `Receive` reports an error
  `e` then the conversation afterwards agrees with the conversation before on every field `RejFrame` lists —
  never changed: msgState, keys (whole key-management context), theirKey, smp, resendMsgs/mayRetransmit/
  retransmitting, ourKeys, policies, fragmentSize, friendlyQuery, errHandler, heartbeatLastSent,
  lastMessageStateChange, sentRevealSig; version, theirTag and ourCurrentKey: unchanged for every complete
  (non-fragment) message (repaired code), sticky for fragments; ourTag: only generated if it was 0; ssid: unchanged
  while encrypted; fragCtx: kept or reset to empty; wsState: unchanged unless a plaintext is delivered; free: the
  AKE context, the injection queue (flushed), randomness/signing tapes, events, diagnostics —
  under two hypotheses, both shown necessary by witnesses:
    * `¬ EnvFail e`: the error is not a failure of the environment / configuration (errShortRandomRead from the
      randomness source or the signing oracle, "no private key to sign …", "no possible key for current version"):
      `c06_counterexample_envfail` (a Signature message that completes the exchange, then the next DH key cannot be
      drawn: error reported, conversation encrypted);
    * `NoAuthentic K c`: no header/body passes the five guards of the data path under the current keys
      (`noAuthentic_of_not_encrypted`: holds outside encrypted sessions; `receive_error_frame_or_authentic` is the
      hypothesis-free disjunctive form): `c06_counterexample_authentic` (an AUTHENTIC data message with a corrupt
      TLV: error, text dropped, nothing sent, but keys rotated and counter recorded).
  `c06_counterexample_ssid`: the session id of a conversation that is NOT encrypted is overwritten by a rejected
  Reveal-Signature message (so `ssid` is in the frame only while encrypted).
  Fragments (the property: "covered when they arrive between complete messages"): a rejected message that arrives
  as the LAST fragment is processed after the fragment's own prefix committed the version / bound the peer tag,
  and the rollback of `receiveDecoded` goes back only to that point: `c06_witness_fragment_commits_version`,
  `c06_witness_fragment_binds_theirTag` (the same messages unfragmented: `c06_witness_unfragmented_unbound`).
  `c06_witness_ake_created`: what is left of the former finding version+akeCreated: the empty AKE context.
  `c06_rejected_continuation_partial` / `_nonfragment`: the conversation after a rejected message that delivers no
  plaintext EQUALS the conversation before up to ake, fragCtx, injections (and ssid while not encrypted, ourTag
  if it was 0), so every continuation starts from the same keys, counters, SMP and resend state.
  Per class: `receive_error_frame_ake` (processAKE), `_data` (receiveDataMessage: any data message that fails a
  guard), `_fragment` (receiveFragment, any outcome), `_query`/`_tagged` (any outcome).
  Ignored key exchange messages (repaired code): `processAKE_vt` (the key exchange never touches version, peer tag,
  key in use), `receiveDecoded_ignored_ake_frame`, `receive_ignored_ake_frame`, `c06_witness_ignored_dhkey`.
  NOT covered by theorems: what a rejected key exchange message does to the AKE CONTEXT itself (it may be
  re-initialised; behavioural equivalence is decided by the twin-run oracle of the `reject` profile).
-/

import Proofs.ConvData
import Proofs.ConvLife
import Proofs.AkeGuard
import Proofs.Fixes2
import Proofs.RejectFrame
namespace Otr.C06
open Otr

theorem c06_recv_not_encrypted : type_of% @Otr.c06_recv_not_encrypted := @Otr.c06_recv_not_encrypted

theorem c06_recv_unparsable : type_of% @Otr.c06_recv_unparsable := @Otr.c06_recv_unparsable

theorem c06_recv_bad_keys : type_of% @Otr.c06_recv_bad_keys := @Otr.c06_recv_bad_keys

theorem c06_recv_bad_mac : type_of% @Otr.c06_recv_bad_mac := @Otr.c06_recv_bad_mac

theorem c06_recv_replayed_counter : type_of% @Otr.c06_recv_replayed_counter := @Otr.c06_recv_replayed_counter

theorem replayState_eq_self_of_regressed : type_of% @Otr.replayState_eq_self_of_regressed := @Otr.replayState_eq_self_of_regressed

theorem c05_immediate_replay_rejected : type_of% @Otr.c05_immediate_replay_rejected := @Otr.c05_immediate_replay_rejected

theorem verifyInstanceTags_foreign : type_of% @Otr.verifyInstanceTags_foreign := @Otr.verifyInstanceTags_foreign

theorem checkVersion_committed : type_of% @Otr.checkVersion_committed := @Otr.checkVersion_committed

/-- repaired code: a rejected or ignored AKE message triggers no retransmission -/
theorem retransmitAfterCompletedExchange_skip : type_of% @Otr.retransmitAfterCompletedExchange_skip := @Otr.retransmitAfterCompletedExchange_skip

/-- the same as a run: result `[]`, state untouched -/
theorem retransmitAfterCompletedExchange_skip_run : type_of% @Otr.retransmitAfterCompletedExchange_skip_run := @Otr.retransmitAfterCompletedExchange_skip_run

/-- repaired code: a rejected AKE message does not consume what waits for retransmission -/
theorem processAKE_pending_kept : type_of% @Otr.processAKE_pending_kept := @Otr.processAKE_pending_kept

/-- repaired code: outside the two finishing combinations the whole key context is unchanged, whatever is queued -/
theorem processAKE_strict_nonfinishing : type_of% @Otr.processAKE_strict_nonfinishing := @Otr.processAKE_strict_nonfinishing

/-! ### the whole of `Receive` (Proofs/RejectFrame.lean) -/

/-- what a rejected message leaves alone: the frame (a structure of field-wise clauses) -/
abbrev RejFrame := @Otr.RejFrame

/-- errors that report a failure of the environment or configuration, not a verdict on the message -/
abbrev EnvFail := @Otr.EnvFail

/-- no header and body pass the five guards of the data path under the current message state and keys -/
abbrev NoAuthentic := @Otr.NoAuthentic

/-- C06, frame of a rejected message (partial: `¬ EnvFail e`, `NoAuthentic`; fragments keep version/tag sticky only) -/
theorem receive_error_frame_partial : type_of% @Otr.receive_error_frame_partial := @Otr.receive_error_frame_partial

/-- the same without `NoAuthentic`: the frame holds, or an authentic data message exists under the current keys -/
theorem receive_error_frame_or_authentic : type_of% @Otr.receive_error_frame_or_authentic := @Otr.receive_error_frame_or_authentic

/-- field by field: msgState, keys, theirKey, smp, resend state, ourKeys, policies never change; version, theirTag, ourCurrentKey not for complete messages -/
theorem c06_rejected_never_changes : type_of% @Otr.c06_rejected_never_changes := @Otr.c06_rejected_never_changes

/-- version chosen and tags bound: the conversation after a rejected message equals the one before up to ake, fragCtx, injections (ssid while not encrypted) -/
theorem c06_rejected_continuation_partial : type_of% @Otr.c06_rejected_continuation_partial := @Otr.c06_rejected_continuation_partial

/-- complete (non-fragment) message, any conversation: equal up to ake, fragCtx, injections, ssid while not encrypted, ourTag if it was 0 -/
theorem c06_rejected_continuation_nonfragment : type_of% @Otr.c06_rejected_continuation_nonfragment := @Otr.c06_rejected_continuation_nonfragment

/-- key exchange messages: an error that is not a failure of the environment ⇒ the frame -/
theorem receive_error_frame_ake : type_of% @Otr.processAKE_rej := @Otr.processAKE_rej

/-- data messages: failing one of the five guards ⇒ the frame (error reported or suppressed) -/
theorem receive_error_frame_data : type_of% @Otr.receiveDataMessage_rej := @Otr.receiveDataMessage_rej

/-- fragments: accepted, discarded or rejected, a fragment respects the frame -/
theorem receive_error_frame_fragment : type_of% @Otr.receiveFragment_rej := @Otr.receiveFragment_rej

/-- query messages respect the frame whatever the outcome -/
theorem receive_error_frame_query : type_of% @Otr.receiveQueryMessage_rej := @Otr.receiveQueryMessage_rej

/-- whitespace-tagged plaintexts respect the frame (without the `wsState` clause) whatever the outcome -/
theorem receive_error_frame_tagged : type_of% @Otr.receiveTaggedPlaintext_rej := @Otr.receiveTaggedPlaintext_rej

/-- `NoAuthentic` holds for every conversation that is not encrypted -/
theorem noAuthentic_of_not_encrypted : type_of% @Otr.noAuthentic_of_not_encrypted := @Otr.noAuthentic_of_not_encrypted

/-- `NoAuthentic` is satisfiable for encrypted conversations too (constant cryptography) -/
theorem noAuthentic_dummy : type_of% @Otr.noAuthentic_dummy := @Otr.noAuthentic_dummy

/-- the key exchange never touches protocol version, peer instance tag or long-term key in use -/
theorem processAKE_vt : type_of% @Otr.processAKE_vt := @Otr.processAKE_vt

/-- repaired code: an ignored key exchange message (no error, no reply, state kind unchanged) leaves version, tag, key in use -/
theorem receiveDecoded_ignored_ake_frame : type_of% @Otr.receiveDecoded_ignored_ake_frame := @Otr.receiveDecoded_ignored_ake_frame

/-- the same at the level of `Receive` -/
theorem receive_ignored_ake_frame : type_of% @Otr.receive_ignored_ake_frame := @Otr.receive_ignored_ake_frame

/-- witness: an ignored DH-Key message leaves only the empty AKE context -/
theorem c06_witness_ignored_dhkey : type_of% @Otr.c06_witness_ignored_dhkey := @Otr.c06_witness_ignored_dhkey

/-- witness: a rejected DH-Commit creates the AKE context (version, key in use, tag are put back) -/
theorem c06_witness_ake_created : type_of% @Otr.c06_witness_ake_created := @Otr.c06_witness_ake_created

/-- witness: a rejected message delivered as a single fragment still commits the version -/
theorem c06_witness_fragment_commits_version : type_of% @Otr.c06_witness_fragment_commits_version := @Otr.c06_witness_fragment_commits_version

/-- witness: a rejected message delivered as a single v3 fragment still binds the peer instance tag -/
theorem c06_witness_fragment_binds_theirTag : type_of% @Otr.c06_witness_fragment_binds_theirTag := @Otr.c06_witness_fragment_binds_theirTag

/-- witness: the same message unfragmented leaves version, tag and key in use alone -/
theorem c06_witness_unfragmented_unbound : type_of% @Otr.c06_witness_unfragmented_unbound := @Otr.c06_witness_unfragmented_unbound

/-- counterexample to the full statement: `ssid` of a conversation that is not encrypted -/
theorem c06_counterexample_ssid : type_of% @Otr.c06_counterexample_ssid := @Otr.c06_counterexample_ssid

/-- counterexample: without `NoAuthentic` (authentic data message with a corrupt TLV: keys move, error reported) -/
theorem c06_counterexample_authentic : type_of% @Otr.c06_counterexample_authentic := @Otr.c06_counterexample_authentic

/-- counterexample: without `¬ EnvFail e` (exchange completed, next DH key cannot be drawn) -/
theorem c06_counterexample_envfail : type_of% @Otr.c06_counterexample_envfail := @Otr.c06_counterexample_envfail

end Otr.C06
