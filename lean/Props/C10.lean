/-
  Props.C10 — everything on the wire is what the OTR v2/v3 specification prescribes.

  `Otr/Spec.lean` (namespace Otr.Spec) is an INDEPENDENT formalisation of the protocol document
  ("Off-the-Record Messaging Protocol version 3"): data types, the four AKE message bodies, the key
  derivations h1/h2 (ssid, c, c', m1, m2, m1', m2'; sending/receiving AES and MAC keys by the
  high/low end rule; extra symmetric key), the data message layout and what the MAC covers, counters,
  key ids, TLVs and padding, SMP payloads and hash inputs, base64 armour, fragments, query message,
  whitespace tag, error message. It was written from the protocol text before its author opened the
  model of the Go code; every definition quotes the sentence it formalises.

  The theorems below state that each serialiser, derivation and text-level builder of the MODEL OF THE
  GO CODE (Otr.Msg / Keys / Conv / Frag / Wire — tied to /repo by byte-exact whole-session differential
  runs) equals the Spec's, for all inputs: `calculateAKEKeys_spec`, `sessionKeysOf_spec`,
  `dhCommit_body_spec`, `revealSig_serialize_spec`, `sig_serialize_spec`, `appendAll_spec`
  (what is signed), `dsaVerify_mod_q`, `genDataMsg_macInput_spec`, `processDataMessage_macInput_spec`
  (the MAC covers exactly header ‖ fields), `dataCounter_spec`, `genDataMsg_keyIds_spec`,
  `plainDataMsg_serialize_spec`, `pad_serialize_spec`, `smp*_tlv_spec`, `hashMPIsBN_spec`,
  `smpSecretFor_spec`, `b64encode_spec`, `header_v2/v3_spec`, `queryMessage_spec`,
  `genWhitespaceTag_spec`, `fragment_spec`, `fragment_allowed` (every emitted fragment is one the
  Spec allows: 1 ≤ k ≤ n ≤ 65535, non-empty piece), `isGroupElement_spec`, `isExponent_spec`.
  Hypotheses are size bounds of the wire format (tags < 2^32, TLV payload < 2^16, …) and the output
  lengths of SHA-256/HMAC (`(h2 1 s).length = 32`, `20 ≤ mac length`).

  Two deviations of the library are THEOREMS here, not hidden: `deviation_smpAbort` (the SMP abort TLV
  is sent with the 4-byte value 00 00 00 00; the document says length zero — pinned by the library's
  unit tests, known finding of C10) and `deviation_smp_v2_group_element` (known finding of C12).

  The executable tie (profile `spec`): a reference implementation written only on Otr.Spec
  (`Otr/SpecRef.lean`) is given the secrets of real sessions (every randomness read and every DSA
  signature of the real library is logged) and must rebuild every emitted message byte for byte —
  AKE messages, data messages with key ids, counters, next DH key, ciphertext, MAC, revealed MAC keys,
  armour and fragments — re-derive ssid, fingerprints and the extra symmetric key, and read every
  delivered message; messages the reference builds using the freedoms the document leaves (padding,
  no NUL, TLV mixes, numeral widths in fragments) are fed to the real library, which must accept and
  read them exactly.
  `startAuthenticate_question_nul` (repaired code): the question of an SMP1Q TLV is written NUL terminated,
  so a question containing a NUL byte cannot be represented; StartAuthenticate refuses it, state unchanged.
-/

import Proofs.Spec
namespace Otr.C10
open Otr

theorem appendShort_spec : type_of% @Otr.appendShort_spec := @Otr.appendShort_spec

theorem appendWord_spec : type_of% @Otr.appendWord_spec := @Otr.appendWord_spec

theorem appendData_spec : type_of% @Otr.appendData_spec := @Otr.appendData_spec

theorem appendMPI_spec : type_of% @Otr.appendMPI_spec := @Otr.appendMPI_spec

theorem appendMPIs_spec : type_of% @Otr.appendMPIs_spec := @Otr.appendMPIs_spec

theorem dhCommit_serialize_spec : type_of% @Otr.dhCommit_serialize_spec := @Otr.dhCommit_serialize_spec

theorem dhCommit_body_spec : type_of% @Otr.dhCommit_body_spec := @Otr.dhCommit_body_spec

theorem dhKey_serialize_spec : type_of% @Otr.dhKey_serialize_spec := @Otr.dhKey_serialize_spec

theorem revealSig_serialize_spec : type_of% @Otr.revealSig_serialize_spec := @Otr.revealSig_serialize_spec

theorem sig_serialize_spec : type_of% @Otr.sig_serialize_spec := @Otr.sig_serialize_spec

theorem processEncryptedSig_mac_spec : type_of% @Otr.processEncryptedSig_mac_spec := @Otr.processEncryptedSig_mac_spec

theorem dsaPub_serialize_spec : type_of% @Otr.dsaPub_serialize_spec := @Otr.dsaPub_serialize_spec

theorem dsaPub_fingerprint_spec : type_of% @Otr.dsaPub_fingerprint_spec := @Otr.dsaPub_fingerprint_spec

theorem appendAll_spec : type_of% @Otr.appendAll_spec := @Otr.appendAll_spec

theorem generateEncryptedSignature_mb_spec : type_of% @Otr.generateEncryptedSignature_mb_spec := @Otr.generateEncryptedSignature_mb_spec

theorem processEncryptedSig_mb_spec : type_of% @Otr.processEncryptedSig_mb_spec := @Otr.processEncryptedSig_mb_spec

theorem generateEncryptedSignature_xb_spec : type_of% @Otr.generateEncryptedSignature_xb_spec := @Otr.generateEncryptedSignature_xb_spec

theorem akeEncrypt_ctr_spec : type_of% @Otr.akeEncrypt_ctr_spec := @Otr.akeEncrypt_ctr_spec

theorem fixedBE_value : type_of% @Otr.fixedBE_value := @Otr.fixedBE_value

theorem fixedBE_length : type_of% @Otr.fixedBE_length := @Otr.fixedBE_length

theorem sig_parse_spec : type_of% @Otr.sig_parse_spec := @Otr.sig_parse_spec

theorem dsaVerify_mod_q : type_of% @Otr.dsaVerify_mod_q := @Otr.dsaVerify_mod_q

theorem secbytes_spec : type_of% @Otr.secbytes_spec := @Otr.secbytes_spec

theorem calculateAKEKeys_spec_raw : type_of% @Otr.calculateAKEKeys_spec_raw := @Otr.calculateAKEKeys_spec_raw

theorem calculateAKEKeys_spec : type_of% @Otr.calculateAKEKeys_spec := @Otr.calculateAKEKeys_spec

theorem calcAKEKeys_secret_spec : type_of% @Otr.calcAKEKeys_secret_spec := @Otr.calcAKEKeys_secret_spec

theorem sessionKeysOf_spec : type_of% @Otr.sessionKeysOf_spec := @Otr.sessionKeysOf_spec

theorem serializeUnsignedFields_spec : type_of% @Otr.serializeUnsignedFields_spec := @Otr.serializeUnsignedFields_spec

theorem dataMsg_serializeUnsigned_spec : type_of% @Otr.dataMsg_serializeUnsigned_spec := @Otr.dataMsg_serializeUnsigned_spec

theorem dataMessageAuthenticated_eq : type_of% @Otr.dataMessageAuthenticated_eq := @Otr.dataMessageAuthenticated_eq

theorem genDataMsg_macInput_spec : type_of% @Otr.genDataMsg_macInput_spec := @Otr.genDataMsg_macInput_spec

theorem dataMsg_serialize_spec : type_of% @Otr.dataMsg_serialize_spec := @Otr.dataMsg_serialize_spec

theorem genDataMsg_result_spec : type_of% @Otr.genDataMsg_result_spec := @Otr.genDataMsg_result_spec

theorem processDataMessage_macInput_spec : type_of% @Otr.processDataMessage_macInput_spec := @Otr.processDataMessage_macInput_spec

theorem dataCounter_spec : type_of% @Otr.dataCounter_spec := @Otr.dataCounter_spec

theorem encryptPlain_ctr_spec : type_of% @Otr.encryptPlain_ctr_spec := @Otr.encryptPlain_ctr_spec

theorem topHalf_isCTR : type_of% @Otr.topHalf_isCTR := @Otr.topHalf_isCTR

theorem topHalf_nonzero : type_of% @Otr.topHalf_nonzero := @Otr.topHalf_nonzero

theorem genDataMsg_keyIds_spec : type_of% @Otr.genDataMsg_keyIds_spec := @Otr.genDataMsg_keyIds_spec

theorem tlv_serialize_spec : type_of% @Otr.tlv_serialize_spec := @Otr.tlv_serialize_spec

theorem tlvs_flatMap_spec : type_of% @Otr.tlvs_flatMap_spec := @Otr.tlvs_flatMap_spec

theorem plainDataMsg_serialize_spec : type_of% @Otr.plainDataMsg_serialize_spec := @Otr.plainDataMsg_serialize_spec

theorem plainDataMsg_serialize_spec' : type_of% @Otr.plainDataMsg_serialize_spec' := @Otr.plainDataMsg_serialize_spec'

theorem pad_serialize_spec : type_of% @Otr.pad_serialize_spec := @Otr.pad_serialize_spec

theorem pad_length : type_of% @Otr.pad_length := @Otr.pad_length

theorem pad_multiple_of_256 : type_of% @Otr.pad_multiple_of_256 := @Otr.pad_multiple_of_256

theorem pad_length_mod : type_of% @Otr.pad_length_mod := @Otr.pad_length_mod

theorem genSMPTLV_value_spec : type_of% @Otr.genSMPTLV_value_spec := @Otr.genSMPTLV_value_spec

theorem genSMPTLV_serialize_spec : type_of% @Otr.genSMPTLV_serialize_spec := @Otr.genSMPTLV_serialize_spec

theorem smp1_tlv_spec : type_of% @Otr.smp1_tlv_spec := @Otr.smp1_tlv_spec

theorem smp1q_tlv_spec : type_of% @Otr.smp1q_tlv_spec := @Otr.smp1q_tlv_spec

theorem smp2_tlv_spec : type_of% @Otr.smp2_tlv_spec := @Otr.smp2_tlv_spec

theorem smp3_tlv_spec : type_of% @Otr.smp3_tlv_spec := @Otr.smp3_tlv_spec

theorem smp4_tlv_spec : type_of% @Otr.smp4_tlv_spec := @Otr.smp4_tlv_spec

theorem deviation_smpAbort_value : type_of% @Otr.deviation_smpAbort_value := @Otr.deviation_smpAbort_value

theorem deviation_smpAbort : type_of% @Otr.deviation_smpAbort := @Otr.deviation_smpAbort

theorem hashMPIsBN_spec : type_of% @Otr.hashMPIsBN_spec := @Otr.hashMPIsBN_spec

theorem smpSecretFor_input_spec : type_of% @Otr.smpSecretFor_input_spec := @Otr.smpSecretFor_input_spec

theorem smpSecretFor_spec : type_of% @Otr.smpSecretFor_spec := @Otr.smpSecretFor_spec

theorem isGroupElement_spec : type_of% @Otr.isGroupElement_spec := @Otr.isGroupElement_spec

theorem header_v2_spec : type_of% @Otr.header_v2_spec := @Otr.header_v2_spec

theorem header_v3_spec : type_of% @Otr.header_v3_spec := @Otr.header_v3_spec

theorem header_length : type_of% @Otr.header_length := @Otr.header_length

theorem messageHeader_v3_spec : type_of% @Otr.messageHeader_v3_spec := @Otr.messageHeader_v3_spec

theorem messageHeader_v2_spec : type_of% @Otr.messageHeader_v2_spec := @Otr.messageHeader_v2_spec

theorem b64Char_spec : type_of% @Otr.b64Char_spec := @Otr.b64Char_spec

theorem b64encode_spec : type_of% @Otr.b64encode_spec := @Otr.b64encode_spec

theorem fragEncode_envelope_spec : type_of% @Otr.fragEncode_envelope_spec := @Otr.fragEncode_envelope_spec

theorem errorMarker_spec : type_of% @Otr.errorMarker_spec := @Otr.errorMarker_spec

theorem queryMessage_spec : type_of% @Otr.queryMessage_spec := @Otr.queryMessage_spec

theorem queryMessage_v23 : type_of% @Otr.queryMessage_v23 := @Otr.queryMessage_v23

theorem whitespaceTagHeader_spec : type_of% @Otr.whitespaceTagHeader_spec := @Otr.whitespaceTagHeader_spec

theorem whitespaceTagV2_spec : type_of% @Otr.whitespaceTagV2_spec := @Otr.whitespaceTagV2_spec

theorem whitespaceTagV3_spec : type_of% @Otr.whitespaceTagV3_spec := @Otr.whitespaceTagV3_spec

theorem genWhitespaceTag_spec : type_of% @Otr.genWhitespaceTag_spec := @Otr.genWhitespaceTag_spec

theorem fmt08x_spec : type_of% @Otr.fmt08x_spec := @Otr.fmt08x_spec

theorem fmt05d_spec : type_of% @Otr.fmt05d_spec := @Otr.fmt05d_spec

theorem fragment_v3_spec : type_of% @Otr.fragment_v3_spec := @Otr.fragment_v3_spec

theorem fragment_v2_spec : type_of% @Otr.fragment_v2_spec := @Otr.fragment_v2_spec

theorem fragment_spec : type_of% @Otr.fragment_spec := @Otr.fragment_spec

theorem hexValue_hex8 : type_of% @Otr.hexValue_hex8 := @Otr.hexValue_hex8

theorem decValue_dec5 : type_of% @Otr.decValue_dec5 := @Otr.decValue_dec5

theorem fragmentV3_allowed : type_of% @Otr.fragmentV3_allowed := @Otr.fragmentV3_allowed

theorem fragmentV2_allowed : type_of% @Otr.fragmentV2_allowed := @Otr.fragmentV2_allowed

theorem chunk_ne_nil : type_of% @Otr.chunk_ne_nil := @Otr.chunk_ne_nil

theorem fragment_allowed : type_of% @Otr.fragment_allowed := @Otr.fragment_allowed

theorem fragment_example_repaired : type_of% @Otr.fragment_example_repaired := @Otr.fragment_example_repaired

theorem verifyInstanceTags_guards_spec : type_of% @Otr.verifyInstanceTags_guards_spec := @Otr.verifyInstanceTags_guards_spec

theorem extraKeyTlv_spec : type_of% @Otr.extraKeyTlv_spec := @Otr.extraKeyTlv_spec

theorem smp1Gen_c2_spec : type_of% @Otr.smp1Gen_c2_spec := @Otr.smp1Gen_c2_spec

theorem smp1Gen_c3_spec : type_of% @Otr.smp1Gen_c3_spec := @Otr.smp1Gen_c3_spec

theorem smp2Gen_c2_spec : type_of% @Otr.smp2Gen_c2_spec := @Otr.smp2Gen_c2_spec

theorem smp2Gen_c3_spec : type_of% @Otr.smp2Gen_c3_spec := @Otr.smp2Gen_c3_spec

theorem smp2Gen_cp_spec : type_of% @Otr.smp2Gen_cp_spec := @Otr.smp2Gen_cp_spec

theorem smp_cr_spec : type_of% @Otr.smp_cr_spec := @Otr.smp_cr_spec

theorem isExponent_spec : type_of% @Otr.isExponent_spec := @Otr.isExponent_spec

theorem exponent_plus_order_invalid : type_of% @Otr.exponent_plus_order_invalid := @Otr.exponent_plus_order_invalid

theorem deviation_smp_v2_group_element : type_of% @Otr.deviation_smp_v2_group_element := @Otr.deviation_smp_v2_group_element

/-- repaired code: a question containing a NUL byte is refused (it could not be written as the document prescribes), state unchanged -/
theorem startAuthenticate_question_nul : type_of% @Otr.startAuthenticate_question_nul := @Otr.startAuthenticate_question_nul

end Otr.C10
