/-
  Props.C14 — fragmentation is lossless, bounded, and reassembled exactly once.

  Property theorems only (restated from Proofs.Frag, where the helper lemmas live).
  Model: Otr.Frag (`fragment`, `parseFragment`, `fragAccept`), tied to fragmentation.go by the
  `pure` and `frag` correspondence profiles.  `reassembleStep` is what `receiveFragment` does with
  a piece whose prefix was accepted; `deliverStep` is the repaired `receiveUnit` fragment branch
  (hand the assembled message on, forget the context).

  Hypotheses: instance tags are 32-bit; `hdrLen v + 1 < size` is the statement's "leaves room for at
  least one payload byte"; `… + 1 ≤ 65535` is the limit of the 16-bit index/total of the wire format
  (beyond it `fragment` hands the message out unfragmented: `fragment_unfragmented` covers
  `data.length ≤ size`, and the > 65535 case is the third branch of `fragment` itself);
  `44 ∉ data`: an encoded OTR message ("?OTR:" base64 ".") contains no comma (Proofs.B64).
  Repaired receiver: index and total are read by `strconv.ParseUint(s, 10, 16)` (`bytesToUint16_range`,
  `bytesToUint16_signed_rejected`, `bytesToUint16_too_big`: digits only, no sign, no reduction modulo
  2^16), and nothing may follow the comma that ends the piece (`parseFragment_trailing_rejected`,
  `parseFragment_eq_some_iff`, `parseFragment_some`).
-/
import Proofs.Frag
namespace Otr.C14
open Otr

theorem fragmentPrefix_length (v : Version) (n total its itr : Nat)
    (hn : n + 1 < 100000) (ht : total < 100000) (h1 : its < 4294967296) (h2 : itr < 4294967296) :
    (fragmentPrefix v n total its itr).length = hdrLen v := by
  exact Otr.fragmentPrefix_length v n total its itr hn ht h1 h2

theorem fragment_unfragmented (v : Version) (its itr : Nat) (data : Bytes) (size : Nat)
    (hl : data.length ≤ size) : fragment v its itr data size = [data] := by
  exact Otr.fragment_unfragmented v its itr data size hl

theorem c14_bounded (v : Version) (its itr : Nat) (data : Bytes) (size : Nat)
    (h1 : its < 4294967296) (h2 : itr < 4294967296)
    (hs : hdrLen v + 1 < size)
    (hn : numFrags data.length (size - hdrLen v - 1) ≤ 65535) :
    ∀ p ∈ fragment v its itr data size, p.length ≤ size := by
  exact Otr.c14_bounded v its itr data size h1 h2 hs hn

theorem bytesToUint16_fmt05d (k : Nat) (h : k ≤ 65535) : bytesToUint16 (fmt05d k) = some k := by
  exact Otr.bytesToUint16_fmt05d k h

/-- repaired number parser (`strconv.ParseUint(s, 10, 16)`): digits only, value within 16 bits -/
theorem bytesToUint16_range : type_of% @Otr.bytesToUint16_range := @Otr.bytesToUint16_range

theorem bytesToUint16_eq_some_iff : type_of% @Otr.bytesToUint16_eq_some_iff := @Otr.bytesToUint16_eq_some_iff

theorem bytesToUint16_signed_rejected : type_of% @Otr.bytesToUint16_signed_rejected := @Otr.bytesToUint16_signed_rejected

theorem bytesToUint16_too_big : type_of% @Otr.bytesToUint16_too_big := @Otr.bytesToUint16_too_big

/-- repaired fragment parser: `k,n,piece,` and nothing after the last comma -/
theorem parseFragment_body : type_of% @Otr.parseFragment_body := @Otr.parseFragment_body

theorem parseFragment_trailing_rejected : type_of% @Otr.parseFragment_trailing_rejected := @Otr.parseFragment_trailing_rejected

theorem parseFragment_trailing_rejected_body : type_of% @Otr.parseFragment_trailing_rejected_body := @Otr.parseFragment_trailing_rejected_body

theorem parseFragment_eq_some_iff : type_of% @Otr.parseFragment_eq_some_iff := @Otr.parseFragment_eq_some_iff

theorem parseFragment_some : type_of% @Otr.parseFragment_some := @Otr.parseFragment_some

theorem fmt05d_no_comma (k : Nat) (h : k < 100000) : (44 : UInt8) ∉ fmt05d k := by
  exact Otr.fmt05d_no_comma k h

theorem c14_lossless (v : Version) (its itr : Nat) (data : Bytes) (size : Nat)
    (h1 : its < 4294967296) (h2 : itr < 4294967296)
    (hs : hdrLen v + 1 < size) (hl : size < data.length)
    (hn : numFrags data.length (size - hdrLen v - 1) ≤ 65535)
    (hd : (44 : UInt8) ∉ data) :
    ((fragment v its itr data size).foldl (reassembleStep v) FragCtx.empty).finished = true ∧
    ((fragment v its itr data size).foldl (reassembleStep v) FragCtx.empty).frag = data ∧
    ∀ k, 0 < k → k < (fragment v its itr data size).length →
      (((fragment v its itr data size).take k).foldl (reassembleStep v) FragCtx.empty).finished = false := by
  exact Otr.c14_lossless v its itr data size h1 h2 hs hl hn hd

theorem c14_only_complete (as : List Arrival) :
    let ctx := as.foldl acceptStep FragCtx.empty
    (ctx.index = 0 → ctx = FragCtx.empty) ∧
    (0 < ctx.index → ∃ ds : List Bytes, ds.length = ctx.index ∧ ctx.frag = ds.flatten ∧
      ctx.index ≤ ctx.len ∧ ctx.index < 65536 ∧ (numbered ctx.len ds 1).Sublist as) := by
  exact Otr.c14_only_complete as

theorem c14_only_complete_finished (as : List Arrival) :
    let ctx := as.foldl acceptStep FragCtx.empty
    ctx.finished = true → ∃ ds : List Bytes, ds.length = ctx.len ∧ ctx.frag = ds.flatten ∧
      (numbered ctx.len ds 1).Sublist as := by
  exact Otr.c14_only_complete_finished as

theorem c14_once (as : List Arrival) :
    (as.foldl deliverStep (FragCtx.empty, [])).2.length ≤
      (as.filter (fun a => a.2.1 == a.2.2)).length := by
  exact Otr.c14_once as

theorem c14_invalid_noop (st : FragCtx × List Bytes) (hb : st.1.finished = false) :
    ∀ bs : List Arrival, (∀ a ∈ bs, a.invalid) → bs.foldl deliverStep st = st := by
  exact Otr.c14_invalid_noop st hb

theorem c14_replay_noop (out : List Bytes) :
    ∀ bs : List Arrival, (∀ a ∈ bs, a.invalid ∨ a.2.1 ≠ 1) →
      bs.foldl deliverStep (FragCtx.empty, out) = (FragCtx.empty, out) := by
  exact Otr.c14_replay_noop out

theorem c14_after_delivery (st : FragCtx × List Bytes) (a : Arrival) (hb : st.1.finished = false)
    (hdel : (deliverStep st a).2 ≠ st.2) (bs : List Arrival)
    (hbs : ∀ b ∈ bs, b.invalid ∨ b.2.1 ≠ 1) :
    bs.foldl deliverStep (deliverStep st a) = (FragCtx.empty, st.2 ++ [(acceptStep st.1 a).frag]) := by
  exact Otr.c14_after_delivery st a hb hdel bs hbs

theorem c14_exactly_once (as : List Arrival) :
    ∃ done cur, as = done ++ cur ∧
      Delivered done (as.foldl deliverStep (FragCtx.empty, [])).2 ∧
      CtxInv cur (as.foldl deliverStep (FragCtx.empty, [])).1 := by
  exact Otr.c14_exactly_once as

theorem deliverStep_not_finished (st : FragCtx × List Bytes) (a : Arrival) :
    (deliverStep st a).1.finished = false := by
  exact Otr.deliverStep_not_finished st a

/-! non-vacuity: concrete instances (hypotheses discharged by evaluation) -/
example : ∀ p ∈ fragment .v3 0x101 0x202 (List.replicate 60 65) 50, p.length ≤ 50 :=
  c14_bounded .v3 0x101 0x202 _ 50 (by decide) (by decide) (by decide) (by decide)
-- a signed index, a total above 65535 and bytes after the last comma are all rejected now
example : parseFragment (strBytes "+1,00002,ab,") = none ∧ parseFragment (strBytes "00001,65537,ab,") = none ∧
    parseFragment (strBytes "00001,00002,ab,x") = none ∧
    parseFragment (strBytes "00001,00002,ab,") = some (strBytes "ab", 1, 2) := by decide
example : ((fragment .v2 0 0 (List.replicate 40 66) 25).foldl (reassembleStep .v2) FragCtx.empty).frag
    = List.replicate 40 66 :=
  (c14_lossless .v2 0 0 _ 25 (by decide) (by decide) (by decide) (by decide) (by decide) (by decide)).2.1

end Otr.C14
