/-
  Props.C14 — fragmentation is lossless, bounded, and reassembled exactly once.

  Property theorems only (restated from Proofs.Frag, where the helper lemmas live).
  Model: Otr.Frag (`fragment`, `parseFragment`, `fragAccept`), tied to fragmentation.go by the
  `pure` and `frag` correspondence profiles.  `reassembleStep` is what `receiveFragment` does with
  a piece whose prefix was accepted; `deliverStep` is the repaired `receiveUnit` fragment branch
  (hand the assembled message on, forget the context).

  Hypotheses: instance tags are 32-bit; `hdrLen v + 1 < size` is the statement's "leaves room for at
  least one payload byte"; `… + 1 ≤ 65535` is the limit of the 16-bit index/total of the wire format
  (beyond it `fragment` hands the message out unfragmented: `fragment_unfragmented` covers
  `data.length ≤ size`, and the > 65535 case is the third branch of `fragment` itself);
  `44 ∉ data`: an encoded OTR message ("?OTR:" base64 ".") contains no comma (Proofs.B64).
  Repaired receiver: index and total are read by `strconv.ParseUint(s, 10, 16)` (`bytesToUint16_range`,
  `bytesToUint16_signed_rejected`, `bytesToUint16_too_big`: digits only, no sign, no reduction modulo
  2^16), and nothing may follow the comma that ends the piece (`parseFragment_trailing_rejected`,
  `parseFragment_eq_some_iff`, `parseFragment_some`).

  Conversation level (Proofs.FragRefine): the abstract machine above is what the conversation model does —
  `receiveFragment` / the fragment branch of `receiveUnit` in Otr.Conv, the functions the `conv` correspondence
  profiles exercise.  `prefixPure c bytes` is `parseFragmentPrefix` as a function of the conversation
  (`parseFragmentPrefix_run`); the verdict on the bytes of a fragment is `fragStepOf` (`FragStep`: ignore =
  foreign instance or no version to commit to, invalid = unparsable, ok = `fragAccept`), and `fragArrival c bytes`
  is the `Arrival` they stand for (the parsed triple, else the arrival `noArrival` that `fragAccept` ignores).
  `receiveFragment_run` / `receiveFragment_refines`: exact behaviour of `receiveFragment`, one `acceptStep`.
  `recvFragmentWith inner` is the fragment branch of `receiveUnit` with the recursive call abstracted
  (`receiveUnit_fragment_eq`); `recvFragmentWith_run` / `receiveUnit_fragment_refines`: the call is one
  `deliverStep` from the conversation's context — the inner `receiveUnit` runs iff the abstract machine delivers,
  on exactly its delivered bytes, from the state `fragSettled s msg` whose context is already empty
  (`fragSettled_forgotten`).  Sequences: `receive_fragments_refine` (inner handler that reports its argument and
  leaves the conversation alone, `InnerReports`; the arrivals are classified in the evolving conversation,
  `fragArrivals`; `fragArrivals_settled`: in a conversation with version and peer tag fixed they are
  `msgs.map (fragArrival c)`), and through it `c14_conv_only_complete`, `c14_conv_exactly_once`;
  `receiveUnit_fragment_only_complete` is the invariant form for the real recursive `receiveUnit`.
  `c14_conv_lossless`: `fragment` followed by this receiver (`RecvOK`: same version, v3 tags of the header
  accepted — `parseItag_fmt08x`, `v3PrefixParse_piece`, `prefixPure_piece`) yields the original bytes, once,
  after the last piece.  `receiveUnit_invalid_fragment_frame(_committed/_unbound)`: a rejected
  (unparsable) or discarded (illegally numbered) fragment changes nothing but the logs — version, long-term
  key choice and peer tag included, in every state (repaired code: `version`, `theirTag` and the key selected
  by `setKeyMatchingVersion` are put back); `…_fresh`: the conversation without a version that was the
  witness against the frame before that repair, now an instance of it.
  `receiveUnit_discarded_fragment_frame`, `receiveUnit_out_of_sequence_fragment_unbound` (repaired code): the same
  frame for every fragment of which nothing is kept (`fragDiscarded`), i.e. also for a legally numbered piece that
  is out of sequence (`fragOutOfSeq`: neither a first piece nor the next piece of the stream being collected) —
  there the context is forgotten (the abstract machine's `acceptStep`), everything else is as before.
-/
import Proofs.Frag
import Proofs.FragRefine
namespace Otr.C14
open Otr

theorem fragmentPrefix_length (v : Version) (n total its itr : Nat)
    (hn : n + 1 < 100000) (ht : total < 100000) (h1 : its < 4294967296) (h2 : itr < 4294967296) :
    (fragmentPrefix v n total its itr).length = hdrLen v := by
  exact Otr.fragmentPrefix_length v n total its itr hn ht h1 h2

theorem fragment_unfragmented (v : Version) (its itr : Nat) (data : Bytes) (size : Nat)
    (hl : data.length ≤ size) : fragment v its itr data size = [data] := by
  exact Otr.fragment_unfragmented v its itr data size hl

theorem c14_bounded (v : Version) (its itr : Nat) (data : Bytes) (size : Nat)
    (h1 : its < 4294967296) (h2 : itr < 4294967296)
    (hs : hdrLen v + 1 < size)
    (hn : numFrags data.length (size - hdrLen v - 1) ≤ 65535) :
    ∀ p ∈ fragment v its itr data size, p.length ≤ size := by
  exact Otr.c14_bounded v its itr data size h1 h2 hs hn

theorem bytesToUint16_fmt05d (k : Nat) (h : k ≤ 65535) : bytesToUint16 (fmt05d k) = some k := by
  exact Otr.bytesToUint16_fmt05d k h

/-- repaired number parser (`strconv.ParseUint(s, 10, 16)`): digits only, value within 16 bits -/
theorem bytesToUint16_range : type_of% @Otr.bytesToUint16_range := @Otr.bytesToUint16_range

theorem bytesToUint16_eq_some_iff : type_of% @Otr.bytesToUint16_eq_some_iff := @Otr.bytesToUint16_eq_some_iff

theorem bytesToUint16_signed_rejected : type_of% @Otr.bytesToUint16_signed_rejected := @Otr.bytesToUint16_signed_rejected

theorem bytesToUint16_too_big : type_of% @Otr.bytesToUint16_too_big := @Otr.bytesToUint16_too_big

/-- repaired fragment parser: `k,n,piece,` and nothing after the last comma -/
theorem parseFragment_body : type_of% @Otr.parseFragment_body := @Otr.parseFragment_body

theorem parseFragment_trailing_rejected : type_of% @Otr.parseFragment_trailing_rejected := @Otr.parseFragment_trailing_rejected

theorem parseFragment_trailing_rejected_body : type_of% @Otr.parseFragment_trailing_rejected_body := @Otr.parseFragment_trailing_rejected_body

theorem parseFragment_eq_some_iff : type_of% @Otr.parseFragment_eq_some_iff := @Otr.parseFragment_eq_some_iff

theorem parseFragment_some : type_of% @Otr.parseFragment_some := @Otr.parseFragment_some

theorem fmt05d_no_comma (k : Nat) (h : k < 100000) : (44 : UInt8) ∉ fmt05d k := by
  exact Otr.fmt05d_no_comma k h

theorem c14_lossless (v : Version) (its itr : Nat) (data : Bytes) (size : Nat)
    (h1 : its < 4294967296) (h2 : itr < 4294967296)
    (hs : hdrLen v + 1 < size) (hl : size < data.length)
    (hn : numFrags data.length (size - hdrLen v - 1) ≤ 65535)
    (hd : (44 : UInt8) ∉ data) :
    ((fragment v its itr data size).foldl (reassembleStep v) FragCtx.empty).finished = true ∧
    ((fragment v its itr data size).foldl (reassembleStep v) FragCtx.empty).frag = data ∧
    ∀ k, 0 < k → k < (fragment v its itr data size).length →
      (((fragment v its itr data size).take k).foldl (reassembleStep v) FragCtx.empty).finished = false := by
  exact Otr.c14_lossless v its itr data size h1 h2 hs hl hn hd

theorem c14_only_complete (as : List Arrival) :
    let ctx := as.foldl acceptStep FragCtx.empty
    (ctx.index = 0 → ctx = FragCtx.empty) ∧
    (0 < ctx.index → ∃ ds : List Bytes, ds.length = ctx.index ∧ ctx.frag = ds.flatten ∧
      ctx.index ≤ ctx.len ∧ ctx.index < 65536 ∧ (numbered ctx.len ds 1).Sublist as) := by
  exact Otr.c14_only_complete as

theorem c14_only_complete_finished (as : List Arrival) :
    let ctx := as.foldl acceptStep FragCtx.empty
    ctx.finished = true → ∃ ds : List Bytes, ds.length = ctx.len ∧ ctx.frag = ds.flatten ∧
      (numbered ctx.len ds 1).Sublist as := by
  exact Otr.c14_only_complete_finished as

theorem c14_once (as : List Arrival) :
    (as.foldl deliverStep (FragCtx.empty, [])).2.length ≤
      (as.filter (fun a => a.2.1 == a.2.2)).length := by
  exact Otr.c14_once as

theorem c14_invalid_noop (st : FragCtx × List Bytes) (hb : st.1.finished = false) :
    ∀ bs : List Arrival, (∀ a ∈ bs, a.invalid) → bs.foldl deliverStep st = st := by
  exact Otr.c14_invalid_noop st hb

theorem c14_replay_noop (out : List Bytes) :
    ∀ bs : List Arrival, (∀ a ∈ bs, a.invalid ∨ a.2.1 ≠ 1) →
      bs.foldl deliverStep (FragCtx.empty, out) = (FragCtx.empty, out) := by
  exact Otr.c14_replay_noop out

theorem c14_after_delivery (st : FragCtx × List Bytes) (a : Arrival) (hb : st.1.finished = false)
    (hdel : (deliverStep st a).2 ≠ st.2) (bs : List Arrival)
    (hbs : ∀ b ∈ bs, b.invalid ∨ b.2.1 ≠ 1) :
    bs.foldl deliverStep (deliverStep st a) = (FragCtx.empty, st.2 ++ [(acceptStep st.1 a).frag]) := by
  exact Otr.c14_after_delivery st a hb hdel bs hbs

theorem c14_exactly_once (as : List Arrival) :
    ∃ done cur, as = done ++ cur ∧
      Delivered done (as.foldl deliverStep (FragCtx.empty, [])).2 ∧
      CtxInv cur (as.foldl deliverStep (FragCtx.empty, [])).1 := by
  exact Otr.c14_exactly_once as

theorem deliverStep_not_finished (st : FragCtx × List Bytes) (a : Arrival) :
    (deliverStep st a).1.finished = false := by
  exact Otr.deliverStep_not_finished st a

/-! ### conversation level: `receiveFragment` / `receiveUnit` refine the abstract machine (Proofs.FragRefine) -/

/-- `parseFragmentPrefix` as a pure function of the conversation: never throws, never panics -/
theorem parseFragmentPrefix_run : type_of% @Otr.parseFragmentPrefix_run := @Otr.parseFragmentPrefix_run

/-- `parseFragmentPrefix` touches only version, key choice, peer tag and pending injections -/
theorem prefixPure_frame : type_of% @Otr.prefixPure_frame := @Otr.prefixPure_frame

/-- exact behaviour of `receiveFragment`: ignore / invalid (error) / `fragAccept` -/
theorem receiveFragment_run : type_of% @Otr.receiveFragment_run := @Otr.receiveFragment_run

/-- the arrival is the parsed triple iff the bytes are accepted, else the one `fragAccept` ignores -/
theorem fragArrival_cases : type_of% @Otr.fragArrival_cases := @Otr.fragArrival_cases

/-- `receiveFragment` is one `acceptStep`, and what the caller does next is `deliverStep` -/
theorem receiveFragment_refines : type_of% @Otr.receiveFragment_refines := @Otr.receiveFragment_refines

/-- `receiveUnit` on a fragment is its fragment branch with itself as the inner call -/
theorem receiveUnit_fragment_eq : type_of% @Otr.receiveUnit_fragment_eq := @Otr.receiveUnit_fragment_eq

/-- the fragment branch is one `deliverStep`: inner call iff delivery, on the delivered bytes (any inner) -/
theorem recvFragmentWith_run : type_of% @Otr.recvFragmentWith_run := @Otr.recvFragmentWith_run

/-- the same for `receiveUnit` itself: recursive call iff `deliverStep` delivers, on exactly those bytes -/
theorem receiveUnit_fragment_refines : type_of% @Otr.receiveUnit_fragment_refines := @Otr.receiveUnit_fragment_refines

/-- when a message is delivered the context has already been forgotten -/
theorem fragSettled_forgotten : type_of% @Otr.fragSettled_forgotten := @Otr.fragSettled_forgotten

/-- the reporting handler used to observe the inner calls leaves the conversation alone -/
theorem reportInner_reports : type_of% @Otr.reportInner_reports := @Otr.reportInner_reports

/-- sequences: the byte strings handed to the inner call are the abstract machine's output -/
theorem receive_fragments_refine : type_of% @Otr.receive_fragments_refine := @Otr.receive_fragments_refine

/-- in a settled conversation every byte string is classified independently of the earlier ones -/
theorem fragArrivals_settled : type_of% @Otr.fragArrivals_settled := @Otr.fragArrivals_settled

/-- `receive_fragments_refine` with the arrivals `msgs.map (fragArrival c)` -/
theorem receive_fragments_refine_settled : type_of% @Otr.receive_fragments_refine_settled :=
  @Otr.receive_fragments_refine_settled

/-- whatever is processed is pieces 1..n of one stream with total n, in order (conversation level) -/
theorem c14_conv_only_complete : type_of% @Otr.c14_conv_only_complete := @Otr.c14_conv_only_complete

/-- one segment of arrivals per processed message, nothing processed twice (conversation level) -/
theorem c14_conv_exactly_once : type_of% @Otr.c14_conv_exactly_once := @Otr.c14_conv_exactly_once

/-- invariant form for the real recursive `receiveUnit`: nothing but a complete stream is processed -/
theorem receiveUnit_fragment_only_complete : type_of% @Otr.receiveUnit_fragment_only_complete :=
  @Otr.receiveUnit_fragment_only_complete

/-- instance tag round trip: `parseItag` reads back what `%08x` wrote -/
theorem parseItag_fmt08x : type_of% @Otr.parseItag_fmt08x := @Otr.parseItag_fmt08x

/-- the v3 header of `fragmentPrefix` is parsed back: both tags, 23 bytes -/
theorem v3PrefixParse_piece : type_of% @Otr.v3PrefixParse_piece := @Otr.v3PrefixParse_piece

/-- `parseFragmentPrefix` accepts the header `fragmentPrefix` writes when the receiver's tags match -/
theorem prefixPure_piece : type_of% @Otr.prefixPure_piece := @Otr.prefixPure_piece

/-- what `fragment` sends is classified as a fragment -/
theorem guessMessageType_fragTag : type_of% @Otr.guessMessageType_fragTag := @Otr.guessMessageType_fragTag

/-- sender then receiver, both versions: the original message is handed on once, after the last piece -/
theorem c14_conv_lossless : type_of% @Otr.c14_conv_lossless := @Otr.c14_conv_lossless

/-- a rejected or discarded fragment changes nothing in the conversation but the event/error log -/
theorem receiveUnit_invalid_fragment_frame : type_of% @Otr.receiveUnit_invalid_fragment_frame :=
  @Otr.receiveUnit_invalid_fragment_frame

/-- a rejected or discarded fragment, every state: the pending injections are handed out, nothing else moves -/
theorem receiveUnit_invalid_fragment_frame_committed : type_of% @Otr.receiveUnit_invalid_fragment_frame_committed :=
  @Otr.receiveUnit_invalid_fragment_frame_committed

/-- neither version nor key choice nor peer tag nor context are changed by a rejected or discarded fragment -/
theorem receiveUnit_invalid_fragment_unbound : type_of% @Otr.receiveUnit_invalid_fragment_unbound :=
  @Otr.receiveUnit_invalid_fragment_unbound

/-- the former witness against the frame (fresh conversation), now an instance of it -/
theorem receiveUnit_invalid_fragment_frame_fresh :
    type_of% @Otr.receiveUnit_invalid_fragment_frame_fresh :=
  @Otr.receiveUnit_invalid_fragment_frame_fresh

/-! non-vacuity: concrete instances (hypotheses discharged by evaluation) -/
example : ∀ p ∈ fragment .v3 0x101 0x202 (List.replicate 60 65) 50, p.length ≤ 50 :=
  c14_bounded .v3 0x101 0x202 _ 50 (by decide) (by decide) (by decide) (by decide)
-- a signed index, a total above 65535 and bytes after the last comma are all rejected now
example : parseFragment (strBytes "+1,00002,ab,") = none ∧ parseFragment (strBytes "00001,65537,ab,") = none ∧
    parseFragment (strBytes "00001,00002,ab,x") = none ∧
    parseFragment (strBytes "00001,00002,ab,") = some (strBytes "ab", 1, 2) := by decide
example : ((fragment .v2 0 0 (List.replicate 40 66) 25).foldl (reassembleStep .v2) FragCtx.empty).frag
    = List.replicate 40 66 :=
  (c14_lossless .v2 0 0 _ 25 (by decide) (by decide) (by decide) (by decide) (by decide) (by decide)).2.1
-- conversation level: the five v3 pieces of a 60-byte message, received by the addressed conversation
example := c14_conv_lossless reportInner reportInner_reports .v3 0x101 0x202 exData60 50 exRecvV3
  (by decide) (by decide) (by decide) (by decide) (by decide) (by decide)
  ⟨rfl, fun _ => ⟨by decide, by decide⟩⟩ rfl
-- an unparsable and an illegally numbered fragment in a v2 conversation: nothing but the logs changes
example (K : Crypto) := receiveUnit_invalid_fragment_frame K 0 (strBytes "?OTR,x") true exRecvV2
  (by decide) (by decide) (by decide) (by decide) rfl
example (K : Crypto) := receiveUnit_invalid_fragment_frame K 0 (strBytes "?OTR,00003,00002,x,") true exRecvV2
  (by decide) (by decide) (by decide) (by decide) rfl

/-- every discarded fragment (rejected, illegally numbered, out of sequence): nothing changes but the logs, the injections handed out and the context, which is the abstract machine's -/
theorem receiveUnit_discarded_fragment_frame : type_of% @Otr.receiveUnit_discarded_fragment_frame :=
  @Otr.receiveUnit_discarded_fragment_frame

/-- an out-of-sequence fragment: no plaintext, no error, context forgotten, version / key choice / peer tag as before -/
theorem receiveUnit_out_of_sequence_fragment_unbound : type_of% @Otr.receiveUnit_out_of_sequence_fragment_unbound :=
  @Otr.receiveUnit_out_of_sequence_fragment_unbound

end Otr.C14
