/-
  Props.C18Hist — C18 / C19 / C08 over whole API histories: the retransmission bookkeeping of the conversation
  (`mayRetransmit`, `retransmitting`, `resendMsgs`).

  In plain words (all statements are for EVERY crypto record, every state / every sequence of API calls —
  Receive of arbitrary bytes, Send, End, the SMP calls, extra key, `sendtlvs`, fragment size — with arbitrary
  arguments, randomness and signing tapes and clocks):

  * `api_resend_bounded` (assumes `CryptoOK K`, only to know that no call panics): from a fresh conversation every
    call sequence ends, and the final conversation satisfies `RInv Q` for `Q = queuedTexts …`, the texts that `Send`
    accepted while the conversation was plaintext and the policy required encryption, in call order:
    no retransmission in progress; at most ONE text retained (the most recent one) unless what is retained is a
    tail of `Q`; in the mode `exact` it is a tail of `Q`; a plaintext conversation retains texts only in the mode
    `exact`.  Hence `resendMsgs.length ≤ max 1 Q.length`: sent text is retained only as the most recent message
    or as queued text still waiting for encryption — never as the history of the session.
  * `apiCall_resend` (no assumption but that the call does not panic): one call preserves `RInv`, the queue
    growing by the call's text exactly when the call is a queueing `Send`; `runApi_resend`: sequences.
  * `naive_bound_not_inductive`: the naive bound "`length ≤ 1` unless `mayRetransmit = exact` in a conversation
    that is not encrypted" is NOT what the model satisfies: witness step (see Proofs/ResendWitness.lean for how the
    start state arises: the last random read of a key exchange fails).
  * `retransmit_eff` (exact effect, every state, every outcome that is not a panic): after `retransmit` nothing is
    retained, no retransmission is in progress, the message state is unchanged, `mayRetransmit` is unchanged or `no`;
    `genDataMsgWithFlag_eff`: every data message that is generated sets `mayRetransmit = no` and retains its text
    as the only one (nothing, if the text is empty or the message is itself a retransmission); a failed attempt
    changes nothing.
  * `apiCall_resend_shrinks`: a call that is not a `Send` (or `sendtlvs` with a text) keeps the retained texts or
    drops them all; `runApi_resend_empty_stays`: once nothing is retained (e.g. after a retransmission) nothing is
    retained until the next `Send` — so a text is retransmitted at most once per `Send`: a second error report or
    key exchange finds an empty list (`maybeRetransmit` does nothing on an empty list: `maybeRetransmit_idle`).
  * `apiCall_injections_kept_partial` (C19, PARTIAL): every call other than `Receive` and `Send` leaves the pending
    replies (`injections`) exactly as they were.  Not proved: that `Receive` and `Send` always hand out (empty)
    the list before they return; nor any bound on the fragment context (`fragCtx`).
-/
import Proofs.ResendWitness
import Proofs.ResendInj
namespace Otr.C18Hist
open Otr

theorem api_resend_bounded : type_of% @Otr.api_resend_bounded := @Otr.api_resend_bounded
theorem apiCall_resend : type_of% @Otr.apiCall_resend := @Otr.apiCall_resend
theorem runApi_resend : type_of% @Otr.runApi_resend := @Otr.runApi_resend
theorem naive_bound_not_inductive : type_of% @Otr.naive_bound_not_inductive := @Otr.naive_bound_not_inductive
theorem retransmit_eff : type_of% @Otr.retransmit_eff := @Otr.retransmit_eff
theorem genDataMsgWithFlag_eff : type_of% @Otr.genDataMsgWithFlag_eff := @Otr.genDataMsgWithFlag_eff
theorem apiCall_resend_shrinks : type_of% @Otr.apiCall_resend_shrinks := @Otr.apiCall_resend_shrinks
theorem runApi_resend_empty_stays : type_of% @Otr.runApi_resend_empty_stays := @Otr.runApi_resend_empty_stays
theorem stuckQueue_rinv : type_of% @Otr.stuckQueue_rinv := @Otr.stuckQueue_rinv
theorem apiCall_injections_kept_partial : type_of% @Otr.apiCall_injections_kept_partial :=
  @Otr.apiCall_injections_kept_partial


end Otr.C18Hist
