/-
  Props.C13 — untrusted input and randomness failure never crash, hang or exhaust memory.

  Every model function is total (accepted by Lean's termination checker, no `partial`), and every
  place where the Go code can crash is an explicit `Res.panic` branch of the model.
  `c13_raw_panic_sites`: the complete list of panic sites reachable from an incoming data message,
  for every state and input; `c13_raw_no_panic_data_path`: with a committed version and a current DH
  key (true in every encrypted state) only the SMP sites remain; `c13_receiveDataMessage_no_panic`:
  under the SMP well-formedness invariant (preserved by every SMP entry point:
  `processSMPTLV_safe`, `startAuthenticate_wf`, …) and invertibility of nonzero residues (p prime) no
  data message panics, and the invariants hold again afterwards.
  `extractMPIsAlloc_le`: the only allocation sized by an attacker-controlled count is bounded by a
  quarter of the input length (repaired ExtractMPIs). `plainDataMsg_tlvs_length`: parsed TLVs have
  exactly the announced length (so the extra-key handler cannot slice out of range).
  Parsers return `Option`: nothing to crash. Randomness failure: the model threads the recorded
  reads (`randRead`), `none` = failure; `randomInto_run`, `generateInstanceTag_run`,
  `akeHasFinished_run` state the outcomes; every API call under failing/short reads at every index is
  compared with the implementation by the `life`, `parse` and `keyfile` profiles, whose oracle flags
  any Go panic, any call slower than 2 s and any allocation out of proportion.
-/

import Proofs.ConvData
import Proofs.ConvLife
import Proofs.KeyFile
namespace Otr.C13
open Otr

theorem c13_raw_panic_sites : type_of% @Otr.c13_raw_panic_sites := @Otr.c13_raw_panic_sites

theorem c13_raw_no_panic_data_path : type_of% @Otr.c13_raw_no_panic_data_path := @Otr.c13_raw_no_panic_data_path

theorem c13_raw_no_panic : type_of% @Otr.c13_raw_no_panic := @Otr.c13_raw_no_panic

theorem c13_receiveDataMessage_no_panic : type_of% @Otr.c13_receiveDataMessage_no_panic := @Otr.c13_receiveDataMessage_no_panic

theorem extractMPIsAlloc_le : type_of% @Otr.extractMPIsAlloc_le := @Otr.extractMPIsAlloc_le

theorem extractMPIs_length : type_of% @Otr.extractMPIs_length := @Otr.extractMPIs_length

theorem plainDataMsg_tlvs_length : type_of% @Otr.plainDataMsg_tlvs_length := @Otr.plainDataMsg_tlvs_length

theorem randomInto_run : type_of% @Otr.randomInto_run := @Otr.randomInto_run

theorem generateInstanceTag_run : type_of% @Otr.generateInstanceTag_run := @Otr.generateInstanceTag_run

theorem akeHasFinished_panic_iff : type_of% @Otr.akeHasFinished_panic_iff := @Otr.akeHasFinished_panic_iff

/-! libotr key file / s-expression reader (Otr.Sexp, Otr.KeyFile; profile `keyfile`) -/
theorem importKeys_total : type_of% @Otr.importKeys_total := @Otr.importKeys_total

theorem read_total : type_of% @Otr.read_total := @Otr.read_total

theorem readListItem_total : type_of% @Otr.readListItem_total := @Otr.readListItem_total

theorem goodValue_readValue : type_of% @Otr.goodValue_readValue := @Otr.goodValue_readValue

end Otr.C13
