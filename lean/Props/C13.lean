/-
  Props.C13 — untrusted input and randomness failure never crash, hang or exhaust memory.

  Every model function is total (accepted by Lean's termination checker, no `partial`), and every
  place where the Go code can crash is an explicit `Res.panic` branch of the model.
  `c13_raw_panic_sites`: the complete list of panic sites reachable from an incoming data message,
  for every state and input; `c13_raw_no_panic_data_path`: with a committed version and a current DH
  key (true in every encrypted state) only the SMP sites remain; `c13_receiveDataMessage_no_panic`:
  under the SMP well-formedness invariant (preserved by every SMP entry point:
  `processSMPTLV_safe`, `startAuthenticate_wf`, …) and invertibility of nonzero residues (p prime) no
  data message panics, and the invariants hold again afterwards.
  `extractMPIsAlloc_le`: the only allocation sized by an attacker-controlled count is bounded by a
  quarter of the input length (repaired ExtractMPIs). `plainDataMsg_tlvs_length`: parsed TLVs have
  exactly the announced length (so the extra-key handler cannot slice out of range).
  Parsers return `Option`: nothing to crash. Randomness failure: the model threads the recorded
  reads (`randRead`), `none` = failure; `randomInto_run`, `generateInstanceTag_run`,
  `akeHasFinished_run` state the outcomes; every API call under failing/short reads at every index is
  compared with the implementation by the `life`, `parse` and `keyfile` profiles, whose oracle flags
  any Go panic, any call slower than 2 s and any allocation out of proportion.
  Whole API (Proofs.NoPanic*): `Inv` is an invariant of the conversation (SMP context consistent, an
  encrypted conversation has version, DH key pair and both long-term keys, the AKE context holds what
  its state relies on, and — needed since rejected and ignored messages take back the version they had
  committed an uncommitted conversation to — a key exchange under way means that a version is committed:
  `akeVer`; without it `receive_preserves_inv` fails for the repaired code: version none + AWAITING_SIG +
  a valid Signature message + the random source failing in `akeHasFinished` would end encrypted without a
  version; that state is not reachable, only a message that is not rejected starts an exchange:
  `processAKE_none_rejected`); `inv_init`: it holds for every freshly created conversation (any policies,
  version preset or not, any key list incl. empty). `receive_no_panic` / `receive_preserves_inv` and the
  same pair for Send, End, StartAuthenticate, ProvideAuthenticationSecret, AbortAuthentication,
  UseExtraSymmetricKey: from `Inv` no call reaches a panic site of the model, for every argument, every
  randomness tape (including failing and short reads) and every signing-oracle answer (including
  failure), and `Inv` holds again whether the call returned or threw. `api_sequence_no_panic(_fresh)`:
  hence no sequence of API calls, each with its own arbitrary arguments, tapes and clock, reaches a
  panic from a freshly created conversation. Hypotheses `CryptoOK K` on the abstract cryptography only:
  ModInverse succeeds off the multiples of p (p prime), MAC output of at least 20 bytes.
  (The one panic this proof found reachable, `encrypt: dst[:aes.BlockSize]` for a degenerate DH-commit
  exponent, was repaired in the Go code and the model; no tape hypothesis remains.)
  `startAuthenticate_question_nul` / `_too_long` / `_bad_question` (repaired code): a question with a NUL
  byte or too long for a TLV is refused with an error before anything happens (state unchanged).
  Repaired code (c2434f4): `receive_disconnect_despite_rotation_failure` / `tail_disconnect` (Proofs.ConvData): once a
  data message is authentic and accepted, its disconnected TLV (no SMP TLV before it) ends the conversation
  (`finished`) even when the key rotation it asks for fails for lack of randomness and the call returns that error;
  assumed: `rotatesOur`, `randRead 40` returns `none`; form: `processDataMessageTail`.
-/

import Proofs.ConvData
import Proofs.ConvLife
import Proofs.KeyFile
import Proofs.NoPanic
namespace Otr.C13
open Otr

theorem c13_raw_panic_sites : type_of% @Otr.c13_raw_panic_sites := @Otr.c13_raw_panic_sites

theorem c13_raw_no_panic_data_path : type_of% @Otr.c13_raw_no_panic_data_path := @Otr.c13_raw_no_panic_data_path

theorem c13_raw_no_panic : type_of% @Otr.c13_raw_no_panic := @Otr.c13_raw_no_panic

theorem c13_receiveDataMessage_no_panic : type_of% @Otr.c13_receiveDataMessage_no_panic := @Otr.c13_receiveDataMessage_no_panic

theorem extractMPIsAlloc_le : type_of% @Otr.extractMPIsAlloc_le := @Otr.extractMPIsAlloc_le

theorem extractMPIs_length : type_of% @Otr.extractMPIs_length := @Otr.extractMPIs_length

theorem plainDataMsg_tlvs_length : type_of% @Otr.plainDataMsg_tlvs_length := @Otr.plainDataMsg_tlvs_length

theorem randomInto_run : type_of% @Otr.randomInto_run := @Otr.randomInto_run

theorem generateInstanceTag_run : type_of% @Otr.generateInstanceTag_run := @Otr.generateInstanceTag_run

theorem akeHasFinished_panic_iff : type_of% @Otr.akeHasFinished_panic_iff := @Otr.akeHasFinished_panic_iff

/-! libotr key file / s-expression reader (Otr.Sexp, Otr.KeyFile; profile `keyfile`) -/
theorem importKeys_total : type_of% @Otr.importKeys_total := @Otr.importKeys_total

theorem read_total : type_of% @Otr.read_total := @Otr.read_total

theorem readListItem_total : type_of% @Otr.readListItem_total := @Otr.readListItem_total

theorem goodValue_readValue : type_of% @Otr.goodValue_readValue := @Otr.goodValue_readValue

/-! the whole API: invariant, no panic, sequences of calls (Proofs.NoPanicBase, Proofs.NoPanicAke, Proofs.NoPanic) -/
theorem inv_init : type_of% @Otr.inv_init := @Otr.inv_init

theorem processAKE_no_panic : type_of% @Otr.processAKE_no_panic := @Otr.processAKE_no_panic

theorem receive_no_panic : type_of% @Otr.receive_no_panic := @Otr.receive_no_panic

theorem receive_preserves_inv : type_of% @Otr.receive_preserves_inv := @Otr.receive_preserves_inv

theorem send_no_panic : type_of% @Otr.send_no_panic := @Otr.send_no_panic

theorem send_preserves_inv : type_of% @Otr.send_preserves_inv := @Otr.send_preserves_inv

theorem endSession_no_panic : type_of% @Otr.endSession_no_panic := @Otr.endSession_no_panic

theorem endSession_preserves_inv : type_of% @Otr.endSession_preserves_inv := @Otr.endSession_preserves_inv

theorem startAuthenticate_no_panic : type_of% @Otr.startAuthenticate_no_panic := @Otr.startAuthenticate_no_panic

theorem startAuthenticate_preserves_inv : type_of% @Otr.startAuthenticate_preserves_inv := @Otr.startAuthenticate_preserves_inv

theorem provideAuthenticationSecret_no_panic : type_of% @Otr.provideAuthenticationSecret_no_panic := @Otr.provideAuthenticationSecret_no_panic

theorem provideAuthenticationSecret_preserves_inv : type_of% @Otr.provideAuthenticationSecret_preserves_inv := @Otr.provideAuthenticationSecret_preserves_inv

theorem abortAuthentication_no_panic : type_of% @Otr.abortAuthentication_no_panic := @Otr.abortAuthentication_no_panic

theorem abortAuthentication_preserves_inv : type_of% @Otr.abortAuthentication_preserves_inv := @Otr.abortAuthentication_preserves_inv

theorem useExtraSymmetricKey_no_panic : type_of% @Otr.useExtraSymmetricKey_no_panic := @Otr.useExtraSymmetricKey_no_panic

theorem useExtraSymmetricKey_preserves_inv : type_of% @Otr.useExtraSymmetricKey_preserves_inv := @Otr.useExtraSymmetricKey_preserves_inv

theorem apiCall_inv : type_of% @Otr.apiCall_inv := @Otr.apiCall_inv

theorem api_sequence_no_panic : type_of% @Otr.api_sequence_no_panic := @Otr.api_sequence_no_panic

theorem api_sequence_no_panic_fresh : type_of% @Otr.api_sequence_no_panic_fresh := @Otr.api_sequence_no_panic_fresh

/-- repaired code: arguments that do not fit the 16-bit length field of a TLV are refused up front
    (no wrap-around of the length, no state change) -/
theorem startAuthenticate_question_too_long : type_of% @Otr.startAuthenticate_question_too_long :=
  @Otr.startAuthenticate_question_too_long

theorem useExtraSymmetricKey_too_long : type_of% @Otr.useExtraSymmetricKey_too_long :=
  @Otr.useExtraSymmetricKey_too_long

/-- repaired code: a question containing a NUL byte is refused up front, state unchanged -/
theorem startAuthenticate_question_nul : type_of% @Otr.startAuthenticate_question_nul := @Otr.startAuthenticate_question_nul

/-- both guards of StartAuthenticate at once -/
theorem startAuthenticate_bad_question : type_of% @Otr.startAuthenticate_bad_question := @Otr.startAuthenticate_bad_question

/-- no exchange is started by a rejected message: from the authentication state `none`, an error next to the
    messages to send means nothing to send and the state still `none` (what keeps the field `akeVer` of `Inv`) -/
theorem processAKE_none_rejected : type_of% @Otr.processAKE_none_rejected := @Otr.processAKE_none_rejected

/-- repaired code (c2434f4): an authentic, accepted data message whose key rotation cannot draw randomness still has
    its TLVs acted upon - with a disconnected TLV (no SMP TLV before it) the call reports an error AND the
    conversation is `finished`.  Form proved: `processDataMessageTail`, the part of
    `processDataMessageWithRawErrors` that runs once the MAC is verified and the counter accepted. -/
theorem receive_disconnect_despite_rotation_failure : type_of% @Otr.ConvData.receive_disconnect_despite_rotation_failure := @Otr.ConvData.receive_disconnect_despite_rotation_failure

/-- the same whatever the rotation does: every outcome of the accepted message with a disconnected TLV is `finished` -/
theorem tail_disconnect : type_of% @Otr.ConvData.tail_disconnect := @Otr.ConvData.tail_disconnect

end Otr.C13
