/-
  Props.C19Api — C19 at the level of the conversation API (continuation of Props.C19).

  A separate module: Proofs.KeysRefine imports Proofs.NoPanic (`ApiCall`, `runApi`, the invariant `Otr.Inv`),
  which can not be imported together with Proofs.Fixes2 of Props.C19 (Proofs.Ratchet declares another `Otr.Inv`).
  `apiCall_keys_refine`: for every API call (`receive`, `send`, `End`, the SMP calls, extra key, `sendtlvs`,
  fragment size), all arguments, randomness / signing tapes and clocks, from every state whose AKE key context
  is clean: if the call ends (returns or throws) the key-management context `conv.keys` has moved along a
  history `KHist` — steps `KStep'` (the `KStep`s of Proofs.Keys plus: accepted but the rotation failed for
  lack of randomness; refused replay leaving `findCounter`'s entry; send stopped at the message header) and
  session boundaries `SessionBoundary` (`akeHasFinished`, `End`, the peer's disconnect TLV).
  `api_sequence_keys_refine`: every API sequence from a fresh conversation ends without panic and its key
  context is reached from `{}` by such a history. `api_c19_bounded`: after every prefix of every such
  sequence at most 4 counter entries and 4 MAC-history entries exist — across any number of sessions.
  `runApi_bounded`: the same from any bounded state, without hypothesis on the cryptography.
-/

import Proofs.KeysRefineApi
namespace Otr.C19Api
open Otr

/-- refinement, one call: every API call that ends moves `conv.keys` along a history of key-management steps and session boundaries -/
theorem apiCall_keys_refine : type_of% @Otr.apiCall_keys_refine := @Otr.apiCall_keys_refine

/-- the same from the invariant `Inv` (and `CryptoOK`): the call does end, and `Inv` holds again -/
theorem apiCall_keys_refine_inv : type_of% @Otr.apiCall_keys_refine_inv := @Otr.apiCall_keys_refine_inv

/-- refinement, whole histories: every API sequence from a fresh conversation ends, and its key context is reached from `{}` by a history -/
theorem api_sequence_keys_refine : type_of% @Otr.api_sequence_keys_refine := @Otr.api_sequence_keys_refine

/-- C19 at the API level: at most 4 counters and 4 MAC-history entries after every prefix of every API sequence from a fresh conversation -/
theorem api_c19_bounded : type_of% @Otr.api_c19_bounded := @Otr.api_c19_bounded

/-- the bounds from any bounded state whenever the sequence runs to the end (no hypothesis on the cryptography) -/
theorem runApi_bounded : type_of% @Otr.runApi_bounded := @Otr.runApi_bounded

/-- calls other than `receive` and `End` never cross a session boundary -/
theorem apiCall_same_session : type_of% @Otr.apiCall_same_session := @Otr.apiCall_same_session

end Otr.C19Api
